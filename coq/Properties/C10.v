(** C10 — the algorithms agree with each other where their models coincide (plain part). *)
From Coq Require Import List Bool ZArith.
From SR Require Import Base.PathB Base.Ext Model.Entry Model.Recon Model.LcaRec Model.Thl
  Proofs.PathFacts Proofs.ReconProofs Proofs.DpProofs Proofs.LcaProofs Proofs.ThlProofs Proofs.ThlFinal Proofs.MetaProofs.
Import ListNotations.
Local Open Scope Z_scope.

(* the general DTL optimum never exceeds the LCA reconciliation cost ... *)
Theorem C10_dtl_le_lca : forall S c O r,
  nn (c_hgt c) -> 0 <= c_floss c -> c_spe c <= c_dup c + 2 * c_floss c -> leaves_ok S O ->
  In r (tags (reconcile_thl S c RALL O)) -> ele (cost c O r) (cost c O (lca_rec O)).
Proof. exact thl_le_lca. Qed.
Print Assumptions C10_dtl_le_lca.

(* ... with equality when transfers are forbidden *)
Theorem C10_dtl_eq_lca_no_transfer : forall S c O r,
  0 <= c_dup c -> 0 <= c_floss c -> c_spe c <= c_dup c + 2 * c_floss c -> c_hgt c = PInf -> leaves_ok S O ->
  In r (tags (reconcile_thl S c RALL O)) -> cost c O r = cost c O (lca_rec O).
Proof. exact thl_eq_lca_no_transfer. Qed.
Print Assumptions C10_dtl_eq_lca_no_transfer.

(* specification level: any optimum is at most the LCA cost *)
Theorem C10_opt_le_lca : forall S c O r, leaves_ok S O -> optimal S c O r ->
  ele (cost c O r) (cost c O (lca_rec O)).
Proof. exact dtl_le_lca. Qed.
Print Assumptions C10_opt_le_lca.
