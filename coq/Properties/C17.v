(** C17 — ancestry queries on trees are exact.
    Statements only; every proof is [exact <lemma of Proofs/RmqProofs.v or
    Proofs/EulerProofs.v>].

    Vocabulary ([Proofs/EulerProofs.v]): a node is its root path; [valid t p]:
    [p] addresses a node of [t]; [prefix a b] / [is_prefix a b]: [a] is an
    ancestor of [b] (or [b] itself); [lcp a b]: longest common prefix;
    [lcp_list p rest]: longest common prefix of [p :: rest].
    In the models [None] / [QErr] stand for a Python exception. *)
From Coq Require Import List Bool Arith ZArith.
From SR Require Import Model.Rmq Model.Euler Proofs.RmqProofs Proofs.EulerProofs.
Import ListNotations.

(* ------------------------------------------------------------------ *)
(** * Range-minimum queries *)

(* For every decidable total preorder, every non-empty array and every range
   [0 <= i < j <= n], the query does not raise and returns an element of
   [data[i..j)] that is [<=] every element of [data[i..j)]: the minimum of
   exactly the requested half-open range. *)
Theorem C17_rmq_correct : forall (A : Type) (leb : A -> A -> bool),
  (forall x y z, leb x y = true -> leb y z = true -> leb x z = true) ->
  (forall x y, leb x y = true \/ leb y x = true) ->
  forall (data : list A) (t : table) (i j : nat),
  build leb data = Some t -> i < j <= length data ->
  exists m, query leb t i j = QVal m /\
    (exists k, i <= k < j /\ nth_error data k = Some m) /\
    (forall k x, i <= k < j -> nth_error data k = Some x -> leb m x = true).
Proof. exact @rmq_correct. Qed.
Print Assumptions C17_rmq_correct.

(* an empty (or reversed) range returns Python's [None] *)
Theorem C17_rmq_empty : forall (A : Type) (leb : A -> A -> bool) (t : table) (i j : nat),
  j <= i -> query leb t i j = QNone.
Proof. exact @rmq_empty. Qed.
Print Assumptions C17_rmq_empty.

(* the structure is built for every non-empty array, and only for those:
   on an empty array the constructor raises (outside the property's domain) *)
Theorem C17_rmq_defined : forall (A : Type) (leb : A -> A -> bool) (data : list A),
  data <> [] -> exists t, build leb data = Some t.
Proof. exact @build_defined. Qed.
Print Assumptions C17_rmq_defined.

Theorem C17_rmq_rejects_empty : forall (A : Type) (leb : A -> A -> bool),
  build leb (@nil A) = None.
Proof. exact @build_empty. Qed.
Print Assumptions C17_rmq_rejects_empty.

(* ------------------------------------------------------------------ *)
(** * Lowest common ancestors *)

Theorem C17_make_defined : forall t : rose, exists L, make t = Some L.
Proof. exact make_defined. Qed.
Print Assumptions C17_make_defined.

(* For every rose tree and every non-empty list of its nodes (any number of
   arguments), the query returns the longest common prefix of the root paths. *)
Theorem C17_euler_lca : forall (t : rose) (L : lca), make t = Some L ->
  forall (p : path) (rest : list path),
  valid t p = true -> Forall (fun q => valid t q = true) rest ->
  lca_query L (p :: rest) = Some (lcp_list p rest).
Proof. exact euler_lca. Qed.
Print Assumptions C17_euler_lca.

(* ... which is a node of the tree, an ancestor of all arguments, and deeper
   than (a descendant of) every other common ancestor *)
Theorem C17_lca_deepest_common_ancestor : forall (t : rose) (L : lca), make t = Some L ->
  forall (p : path) (rest : list path),
  valid t p = true -> Forall (fun q => valid t q = true) rest ->
  exists r, lca_query L (p :: rest) = Some r /\ valid t r = true /\
            (forall x, In x (p :: rest) -> prefix r x) /\
            (forall c, (forall x, In x (p :: rest) -> prefix c x) -> prefix c r).
Proof. exact lca_deepest. Qed.
Print Assumptions C17_lca_deepest_common_ancestor.

(* the boolean [is_prefix] used below is the ancestor relation on root paths *)
Theorem C17_is_prefix_spec : forall a b : path,
  is_prefix a b = true <-> exists c, b = a ++ c.
Proof. exact is_prefix_spec. Qed.
Print Assumptions C17_is_prefix_spec.

Theorem C17_is_ancestor_prefix : forall (t : rose) (L : lca), make t = Some L ->
  forall a b, valid t a = true -> valid t b = true ->
  is_ancestor_of L a b = Some (is_prefix a b).
Proof. exact is_ancestor_prefix. Qed.
Print Assumptions C17_is_ancestor_prefix.

Theorem C17_is_strict_ancestor_prefix : forall (t : rose) (L : lca), make t = Some L ->
  forall a b, valid t a = true -> valid t b = true ->
  is_strict_ancestor_of L a b = Some (is_prefix a b && negb (path_eqb a b)).
Proof. exact is_strict_ancestor_prefix. Qed.
Print Assumptions C17_is_strict_ancestor_prefix.

Theorem C17_comparable_iff : forall (t : rose) (L : lca), make t = Some L ->
  forall a b, valid t a = true -> valid t b = true ->
  is_comparable L a b = Some (is_prefix a b || is_prefix b a).
Proof. exact comparable_iff. Qed.
Print Assumptions C17_comparable_iff.

Theorem C17_level_length : forall (t : rose) (L : lca), make t = Some L ->
  forall p, valid t p = true -> level L p = Some (length p).
Proof. exact level_length. Qed.
Print Assumptions C17_level_length.

Theorem C17_distance_formula : forall (t : rose) (L : lca), make t = Some L ->
  forall a b, valid t a = true -> valid t b = true ->
  distance L a b =
  Some (Z.of_nat (length a) + Z.of_nat (length b) - 2 * Z.of_nat (length (lcp a b)))%Z.
Proof. exact distance_formula. Qed.
Print Assumptions C17_distance_formula.

(* In every block [i..j] of the tour, two entries of equal, minimal level are the
   same entry: Python's comparison of the tuples [(level, node)] made by [min]
   on two block minima never has to order two distinct nodes. *)
Theorem C17_tuple_min_never_compares_nodes : forall (t : rose) (L : lca), make t = Some L ->
  forall (i j k1 k2 : nat) (e1 e2 : entry),
  j < length (traversal L) -> i <= k1 <= j -> i <= k2 <= j ->
  nth_error (traversal L) k1 = Some e1 -> nth_error (traversal L) k2 = Some e2 ->
  (forall k e, i <= k <= j -> nth_error (traversal L) k = Some e -> fst e1 <= fst e) ->
  fst e1 = fst e2 -> e1 = e2.
Proof. exact tuple_min_never_compares_nodes. Qed.
Print Assumptions C17_tuple_min_never_compares_nodes.

(* ------------------------------------------------------------------ *)
(** * Non-vacuity: concrete, non-trivial instances of the hypotheses *)

Definition ex_tree : rose :=
  Node [Node [Node []; Node [Node []; Node []]]; Node []; Node [Node []]].

Example C17_example_lca :
  exists L, make ex_tree = Some L /\
    valid ex_tree [0; 1; 1] = true /\ valid ex_tree [0; 0] = true /\ valid ex_tree [2; 0] = true /\
    valid ex_tree [0; 2] = false /\
    lca_query L [[0; 1; 1]; [0; 0]] = Some [0] /\
    lca_query L [[0; 1; 1]; [2; 0]; [0; 0]] = Some [] /\
    is_ancestor_of L [0] [0; 1; 1] = Some true /\
    is_comparable L [0; 0] [0; 1] = Some false /\
    level L [0; 1; 1] = Some 3 /\
    distance L [0; 1; 1] [0; 0] = Some 3%Z /\
    lca_query L [[0; 2]] = None.
Proof. eexists. split; [vm_compute; reflexivity|]. vm_compute. repeat split. Qed.

Example C17_example_rmq :
  exists t, build Z.leb [3; 1; 4; 1; 5; 9; 2; 6]%Z = Some t /\
    query Z.leb t 0 8 = QVal 1%Z /\ query Z.leb t 4 8 = QVal 2%Z /\
    query Z.leb t 2 3 = QVal 4%Z /\ query Z.leb t 5 5 = QNone /\ query Z.leb t 6 2 = QNone /\
    query Z.leb t 6 9 = QErr.
Proof. eexists. split; [vm_compute; reflexivity|]. vm_compute. repeat split. Qed.

(** * Tie to the source by translation (range_min_query.py)

    [Gen/RmqGen.v] is regenerated from utils/range_min_query.py on every run (translator/pyfun.py,
    translator/rmq_gen.py); the generated constructor and query equal the hand-written model for all
    inputs, error cases included ([leb_of ltb a b = negb (ltb b a)]: Python's [min] keeps its first
    argument unless the second is strictly smaller). *)

From SR Require Import Gen.RmqGen Proofs.RmqGenProofs.

Theorem C17_gen_rmq_ilog2_eq :
  forall m : N, m <> 0%N -> G.gen__ilog2 (Z.of_N m) = G.Ok (Z.of_nat (ilog2 (N.to_nat m))).
Proof. exact @gen_rmq_ilog2_eq. Qed.
Print Assumptions C17_gen_rmq_ilog2_eq.

Theorem C17_gen_rmq_init_eq :
  forall (A : Type) (ltb : A -> A -> bool) (data : list A),
       G.gen_rmq_init ltb data =
       match build (leb_of ltb) data with
       | Some t => G.Ok {| G.rmq_sparse_table := t |}
       | None => G.Err G.IndexError
       end.
Proof. exact @gen_rmq_init_eq. Qed.
Print Assumptions C17_gen_rmq_init_eq.

Theorem C17_gen_rmq_query_eq :
  forall (A : Type) (ltb : A -> A -> bool) (t : table) (start stop : N),
       qres_of (G.gen_rmq_query ltb {| G.rmq_sparse_table := t |} start stop) =
       query (leb_of ltb) t (N.to_nat start) (N.to_nat stop) /\
       (forall (s' : G.rmq_state) (r : option A),
        G.gen_rmq_query ltb {| G.rmq_sparse_table := t |} start stop = G.Ok (s', r) ->
        s' = {| G.rmq_sparse_table := t |}).
Proof. exact @gen_rmq_query_eq. Qed.
Print Assumptions C17_gen_rmq_query_eq.

Theorem C17_gen_rmq_correct :
  forall (A : Type) (ltb : A -> A -> bool),
       (forall x y z : A, leb_of ltb x y = true -> leb_of ltb y z = true -> leb_of ltb x z = true) ->
       (forall x y : A, leb_of ltb x y = true \/ leb_of ltb y x = true) ->
       forall (data : list A) (i j : N),
       (i < j)%N ->
       N.to_nat j <= length data ->
       exists (s : G.rmq_state) (m : A),
         G.gen_rmq_init ltb data = G.Ok s /\
         G.gen_rmq_query ltb s i j = G.Ok (s, Some m) /\
         is_min_of (leb_of ltb) data (N.to_nat i) (N.to_nat j) m.
Proof. exact @gen_rmq_correct. Qed.
Print Assumptions C17_gen_rmq_correct.


(** * Tie to the source by translation (utils/trees.py: _euler_tour and class LowestCommonAncestor)

    [Gen/LcaGen.v] is regenerated on every run (translator/pyfun.py, translator/lca_gen.py); it reuses the generated
    range-minimum structure [Gen/RmqGen.v].  Nodes carry an identifier (object identity); [pth root i] is the root path of
    the node with identifier [i] (an invalid path for a node that is not in the tree).  For every tree with pairwise distinct
    identifiers the generated constructor, query and the five ancestry methods equal the hand-written model, error cases
    included; the tuple comparison never orders two nodes. *)

From SR Require Import Gen.LcaGen Proofs.LcaGenProofs.

Theorem C17_gen_euler_tour_eq :
  forall (node_id : Type) (node_id_eqb : node_id -> node_id -> bool),
       (forall a b : node_id, node_id_eqb a b = true <-> a = b) ->
       forall root : G.TreeNode node_id,
       NoDup (ids root) ->
       exists l : list (N * G.TreeNode node_id),
         G.gen__euler_tour root 0 = G.Ok l /\ map (enc node_id_eqb root) l = tour 0 [] (shape root).
Proof. exact @gen_euler_tour_eq. Qed.
Print Assumptions C17_gen_euler_tour_eq.

Theorem C17_gen_lca_init_eq :
  forall (node_id : Type) (node_id_eqb node_ltb : node_id -> node_id -> bool),
       (forall a b : node_id, node_id_eqb a b = true <-> a = b) ->
       forall root : G.TreeNode node_id,
       NoDup (ids root) ->
       exists (gs : G.lca_state node_id) (L : lca),
         G.gen_lca_init node_id_eqb node_ltb root = G.Ok gs /\
         make (shape root) = Some L /\ state_rel node_id_eqb root gs L.
Proof. exact @gen_lca_init_eq. Qed.
Print Assumptions C17_gen_lca_init_eq.

Theorem C17_gen_lca_call_eq :
  forall (node_id : Type) (node_id_eqb node_ltb : node_id -> node_id -> bool),
       (forall a b : node_id, node_id_eqb a b = true <-> a = b) ->
       forall (root : G.TreeNode node_id) (gs : G.lca_state node_id) (L : lca),
       NoDup (ids root) ->
       G.gen_lca_init node_id_eqb node_ltb root = G.Ok gs ->
       make (shape root) = Some L ->
       forall nodes : list (G.TreeNode node_id),
       res_val (fun n : G.TreeNode node_id => pth node_id_eqb root (G.TreeNode_id n))
         (G.gen_lca_call node_id_eqb node_ltb gs nodes) =
       lca_query L
         (map (fun n : G.TreeNode node_id => pth node_id_eqb root (G.TreeNode_id n)) nodes) /\
       unchanged gs (G.gen_lca_call node_id_eqb node_ltb gs nodes).
Proof. exact @gen_lca_call_eq. Qed.
Print Assumptions C17_gen_lca_call_eq.

Theorem C17_gen_is_ancestor_eq :
  forall (node_id : Type) (node_id_eqb node_ltb : node_id -> node_id -> bool),
       (forall a b : node_id, node_id_eqb a b = true <-> a = b) ->
       forall (root : G.TreeNode node_id) (gs : G.lca_state node_id) (L : lca),
       NoDup (ids root) ->
       G.gen_lca_init node_id_eqb node_ltb root = G.Ok gs ->
       make (shape root) = Some L ->
       forall a b : G.TreeNode node_id,
       res_val (fun x : bool => x) (G.gen_lca_is_ancestor_of node_id_eqb node_ltb gs a b) =
       is_ancestor_of L (pth node_id_eqb root (G.TreeNode_id a))
         (pth node_id_eqb root (G.TreeNode_id b)) /\
       unchanged gs (G.gen_lca_is_ancestor_of node_id_eqb node_ltb gs a b).
Proof. exact @gen_is_ancestor_eq. Qed.
Print Assumptions C17_gen_is_ancestor_eq.

Theorem C17_gen_is_strict_ancestor_eq :
  forall (node_id : Type) (node_id_eqb node_ltb : node_id -> node_id -> bool),
       (forall a b : node_id, node_id_eqb a b = true <-> a = b) ->
       forall (root : G.TreeNode node_id) (gs : G.lca_state node_id) (L : lca),
       NoDup (ids root) ->
       G.gen_lca_init node_id_eqb node_ltb root = G.Ok gs ->
       make (shape root) = Some L ->
       forall a b : G.TreeNode node_id,
       res_val (fun x : bool => x) (G.gen_lca_is_strict_ancestor_of node_id_eqb node_ltb gs a b) =
       is_strict_ancestor_of L (pth node_id_eqb root (G.TreeNode_id a))
         (pth node_id_eqb root (G.TreeNode_id b)) /\
       unchanged gs (G.gen_lca_is_strict_ancestor_of node_id_eqb node_ltb gs a b).
Proof. exact @gen_is_strict_ancestor_eq. Qed.
Print Assumptions C17_gen_is_strict_ancestor_eq.

Theorem C17_gen_is_comparable_eq :
  forall (node_id : Type) (node_id_eqb node_ltb : node_id -> node_id -> bool),
       (forall a b : node_id, node_id_eqb a b = true <-> a = b) ->
       forall (root : G.TreeNode node_id) (gs : G.lca_state node_id) (L : lca),
       NoDup (ids root) ->
       G.gen_lca_init node_id_eqb node_ltb root = G.Ok gs ->
       make (shape root) = Some L ->
       forall a b : G.TreeNode node_id,
       res_val (fun x : bool => x) (G.gen_lca_is_comparable node_id_eqb node_ltb gs a b) =
       is_comparable L (pth node_id_eqb root (G.TreeNode_id a))
         (pth node_id_eqb root (G.TreeNode_id b)) /\
       unchanged gs (G.gen_lca_is_comparable node_id_eqb node_ltb gs a b).
Proof. exact @gen_is_comparable_eq. Qed.
Print Assumptions C17_gen_is_comparable_eq.

Theorem C17_gen_level_eq :
  forall (node_id : Type) (node_id_eqb node_ltb : node_id -> node_id -> bool),
       (forall a b : node_id, node_id_eqb a b = true <-> a = b) ->
       forall (root : G.TreeNode node_id) (gs : G.lca_state node_id) (L : lca),
       NoDup (ids root) ->
       G.gen_lca_init node_id_eqb node_ltb root = G.Ok gs ->
       make (shape root) = Some L ->
       forall a : G.TreeNode node_id,
       res_val N.to_nat (G.gen_lca_level node_id_eqb gs a) =
       level L (pth node_id_eqb root (G.TreeNode_id a)) /\
       unchanged gs (G.gen_lca_level node_id_eqb gs a).
Proof. exact @gen_level_eq. Qed.
Print Assumptions C17_gen_level_eq.

Theorem C17_gen_distance_eq :
  forall (node_id : Type) (node_id_eqb node_ltb : node_id -> node_id -> bool),
       (forall a b : node_id, node_id_eqb a b = true <-> a = b) ->
       forall (root : G.TreeNode node_id) (gs : G.lca_state node_id) (L : lca),
       NoDup (ids root) ->
       G.gen_lca_init node_id_eqb node_ltb root = G.Ok gs ->
       make (shape root) = Some L ->
       forall a b : G.TreeNode node_id,
       res_val (fun z : Z => z) (G.gen_lca_distance node_id_eqb node_ltb gs a b) =
       distance L (pth node_id_eqb root (G.TreeNode_id a)) (pth node_id_eqb root (G.TreeNode_id b)) /\
       unchanged gs (G.gen_lca_distance node_id_eqb node_ltb gs a b).
Proof. exact @gen_distance_eq. Qed.
Print Assumptions C17_gen_distance_eq.

Theorem C17_gen_lca_call_errors :
  forall (node_id : Type) (node_id_eqb node_ltb : node_id -> node_id -> bool),
       (forall a b : node_id, node_id_eqb a b = true <-> a = b) ->
       forall (root : G.TreeNode node_id) (gs : G.lca_state node_id) (L : lca),
       NoDup (ids root) ->
       G.gen_lca_init node_id_eqb node_ltb root = G.Ok gs ->
       make (shape root) = Some L ->
       forall (nodes : list (G.TreeNode node_id)) (err : G.err),
       G.gen_lca_call node_id_eqb node_ltb gs nodes = G.Err err ->
       nodes = [] /\ err = G.TypeError \/ nodes <> [] /\ err = G.KeyError.
Proof. exact @gen_lca_call_errors. Qed.
Print Assumptions C17_gen_lca_call_errors.

Theorem C17_gen_lca_call_lcp :
  forall (node_id : Type) (node_id_eqb node_ltb : node_id -> node_id -> bool),
       (forall a b : node_id, node_id_eqb a b = true <-> a = b) ->
       forall (root : G.TreeNode node_id) (gs : G.lca_state node_id) (L : lca),
       NoDup (ids root) ->
       G.gen_lca_init node_id_eqb node_ltb root = G.Ok gs ->
       make (shape root) = Some L ->
       forall (n0 : G.TreeNode node_id) (p0 : path) (ns : list (G.TreeNode node_id))
         (ps : list path),
       sub root p0 = Some n0 ->
       Forall2 (fun (nd : G.TreeNode node_id) (p : path) => sub root p = Some nd) ns ps ->
       exists (st : G.lca_state node_id) (r : G.TreeNode node_id),
         G.gen_lca_call node_id_eqb node_ltb gs (n0 :: ns) = G.Ok (st, r) /\
         st = gs /\ id_at root (lcp_list p0 ps) = Some (G.TreeNode_id r).
Proof. exact @gen_lca_call_lcp. Qed.
Print Assumptions C17_gen_lca_call_lcp.

Theorem C17_gen_lca_never_orders_nodes :
  forall (node_id : Type) (node_id_eqb node_ltb : node_id -> node_id -> bool),
       (forall a b : node_id, node_id_eqb a b = true <-> a = b) ->
       forall (root : G.TreeNode node_id) (gl : list (N * G.TreeNode node_id))
         (g0 : N * G.TreeNode node_id),
       NoDup (ids root) ->
       G.gen__euler_tour root 0 = G.Ok gl ->
       (forall d i : nat,
        i + 2 ^ S d <= length gl ->
        let a := tbl (leb_of (G.entry_ltb node_id_eqb node_ltb)) gl g0 d i in
        let b := tbl (leb_of (G.entry_ltb node_id_eqb node_ltb)) gl g0 d (i + 2 ^ d) in
        forall f : node_id -> node_id -> bool,
        G.entry_ltb node_id_eqb f b a = G.entry_ltb node_id_eqb node_ltb b a) /\
       (forall s e : nat,
        s <= e ->
        e < length gl ->
        let d := Nat.log2 (e + 1 - s) in
        let a := tbl (leb_of (G.entry_ltb node_id_eqb node_ltb)) gl g0 d s in
        let b := tbl (leb_of (G.entry_ltb node_id_eqb node_ltb)) gl g0 d (e + 1 - 2 ^ d) in
        forall f : node_id -> node_id -> bool,
        G.entry_ltb node_id_eqb f b a = G.entry_ltb node_id_eqb node_ltb b a).
Proof. exact @gen_lca_never_orders_nodes. Qed.
Print Assumptions C17_gen_lca_never_orders_nodes.

Example C17_gen_lca_example_distinct := ex_tree_distinct.
Example C17_gen_lca_example_queries := ex_tree_queries.
