(** C11 — serialised results read back to the same reconciliation.
    Statements only; every proof is [exact <lemma of Proofs/SerialProofs.v,
    Proofs/NewickProofs.v or Proofs/C11EvalProofs.v>].

    Vocabulary ([Model/Newick.v], [Model/Serial.v], [Proofs/SerialProofs.v]):
    [tree] = names, colours and children in order; a node is its root path;
    a mapping keyed by nodes / a Python dict is the list of its items in insertion
    order.  [NoDup (names t)] is "uniquely named"; [ok_tree t = true] says that
    names are non-empty words over [A-Za-z0-9_] and colours words over the same
    alphabet; [wf_tmap] / [wf_smap]: distinct keys, valid paths.  [None] stands for
    a Python exception, so every [= Some _] below also says "does not raise".

    Theorems [C11_*_any_codec] keep ete3's Newick writer/reader abstract: they hold
    for every pair [write]/[read] with [read (write t) = Some t] on a class [ok] of
    trees (that premise is explicit in the statement).  The other theorems are
    about the concrete Gallina printer/parser [print_tree]/[parse_tree] — compared
    string for string with ete3 by the correspondence — for which the premise is
    the proved [C11_newick_roundtrip].

    Evaluator vocabulary (section "hence the same events and cost";
    [Model/Recon.v], [Model/CliRun.v], [Proofs/C11EvalProofs.v]; names of the
    evaluator model are written qualified):
    [CliRun.eval_routput x] / [CliRun.eval_soutput num x] is the model of
    [x.cost()] for an object of the dictionary layer ([None] = it raises); it
    turns [x] into the evaluator's data — unit costs, object tree, and
    [rec_of x : option Recon.rtree] (the species of every object node, read from
    [omap x]) resp. [lab_of num x : option Recon.ltree] (species and synteny of
    every node; [num] numbers the family names) — and calls [Recon.cost] /
    [Recon.total_cost].  [output_events x] is the list of the [node_event]s of the
    internal object nodes in pre-order ([ReconProofs.events]).
    [same_labelled ord t t']: the labelled trees [t], [t'] have the same shape, the
    same species at every node and at every node the same synteny — the same
    sequence if [ord], a permutation of the same families otherwise.
    [opt_rel R a b]: both [None], or [Some u], [Some v] with [R u v].
    [all_sequences m]: every synteny of [m] is an [SList].  [synmap_equiv m m']:
    same keys in the same order, per key the same families up to [Permutation].
    [C11_evaluator_vocabulary] states these unfoldings. *)
From Coq Require Import List Bool String ZArith Permutation.
From SR Require Model.Recon Model.CliRun Proofs.ReconProofs.
From SR Require Import Base.Ext Model.Newick Model.Serial Proofs.NewickProofs Proofs.SerialProofs
  Proofs.C11EvalProofs.
Import ListNotations.
Local Open Scope string_scope.

(** * Newick: the printer/parser pair round-trips (any size, any arity) *)
Theorem C11_newick_roundtrip : forall t : tree,
  ok_tree t = true -> parse_tree (print_tree t) = Some t.
Proof. exact newick_roundtrip. Qed.
Print Assumptions C11_newick_roundtrip.

Theorem C11_newick_injective : forall t1 t2 : tree,
  ok_tree t1 = true -> ok_tree t2 = true -> print_tree t1 = print_tree t2 -> t1 = t2.
Proof. exact print_tree_injective. Qed.
Print Assumptions C11_newick_injective.

(** * Name lookup is the inverse of [.name] on uniquely named trees *)
Theorem C11_lookup_inverts_name : forall (t : tree) (p : path) (a : tree),
  NoDup (names t) -> subtree t p = Some a -> find_name t (t_name a) = Some p.
Proof. exact find_name_name_at. Qed.
Print Assumptions C11_lookup_inverts_name.

(** * mapping_roundtrip: the serialised mapping is the list of (name, name) items
      in order, and parsing it against the trees returns the mapping *)
Theorem C11_mapping_serialised : forall (O S : tree) (m : treemap),
  NoDup (names O) -> NoDup (names S) -> wf_tmap O S m ->
  serialize_tree_mapping O S m =
    Some (map (fun pq => (name_of O (fst pq), name_of S (snd pq))) m).
Proof. exact serialize_tree_mapping_spec. Qed.
Print Assumptions C11_mapping_serialised.

Theorem C11_mapping_roundtrip : forall (O S : tree) (m : treemap),
  NoDup (names O) -> NoDup (names S) -> wf_tmap O S m ->
  exists d, serialize_tree_mapping O S m = Some d /\ parse_tree_mapping O S d = Some m.
Proof. exact mapping_roundtrip. Qed.
Print Assumptions C11_mapping_roundtrip.

(** * synteny_roundtrip: same keys in the same order; a sequence comes back
      verbatim, a set as the list [sort_synteny] made of it, which is a permutation
      of its elements ([norm_syn]) *)
Theorem C11_synteny_roundtrip : forall (T : tree) (m : synmap),
  NoDup (names T) -> wf_smap T m ->
  exists d, serialize_synteny_mapping T m = Some d /\
            parse_synteny_mapping T d =
              Some (map (fun ps => (fst ps, SList (ser_syn (snd ps)))) m).
Proof. exact synteny_roundtrip. Qed.
Print Assumptions C11_synteny_roundtrip.

Theorem C11_ordered_synteny_verbatim : forall l, ser_syn (SList l) = l.
Proof. exact ser_syn_list. Qed.
Print Assumptions C11_ordered_synteny_verbatim.

Theorem C11_sort_synteny_permutation : forall l, Permutation (sort_synteny l) l.
Proof. exact sort_synteny_perm. Qed.
Print Assumptions C11_sort_synteny_permutation.

Theorem C11_labelling_after_roundtrip : forall m : synmap,
  Forall2 (fun a b => fst b = fst a /\
                      (forall l, snd a = SList l -> snd b = SList l) /\
                      exists l', snd b = SList l' /\ Permutation l' (syn_items (snd a)))
          m (norm_syn m).
Proof. exact norm_syn_spec. Qed.
Print Assumptions C11_labelling_after_roundtrip.

(** * Event costs (int or infinite), keyed by event name *)
Theorem C11_costs_roundtrip : forall c : costmap,
  NoDup (map fst c) -> costs_from_dict (costs_to_dict c) = Some c.
Proof. exact costs_roundtrip. Qed.
Print Assumptions C11_costs_roundtrip.

(** * input_roundtrip *)
(* ReconciliationInput: both trees, the leaf assignment and the costs come back
   exactly (a "leaf_syntenies" key, if any, is ignored by this class) *)
Theorem C11_input_roundtrip_plain : forall x : rinput,
  wf_rinput well_named x ->
  exists d, rinput_to_dict print_tree x = Some d /\
            forall ls, rinput_from_dict parse_tree (mkDI d ls) = Some x.
Proof. exact nk_input_roundtrip_plain. Qed.
Print Assumptions C11_input_roundtrip_plain.

(* SuperReconciliationInput: additionally the leaf syntenies, normalised *)
Theorem C11_input_roundtrip_super : forall x : sinput,
  wf_sinput well_named x ->
  exists d, sinput_to_dict print_tree x = Some d /\
            sinput_from_dict parse_tree d = Some (mkSI (s_base x) (norm_syn (leafsyn x))).
Proof. exact nk_input_roundtrip_super. Qed.
Print Assumptions C11_input_roundtrip_super.

(** * output_roundtrip.  The re-read output holds: the same trees, leaf assignment
      and costs (as a *plain* ReconciliationInput: the leaf syntenies of a
      SuperReconciliationInput nested in an output are not read back — the property
      does not list them), the same species mapping, the same labelling
      (normalised) and the same [ordered] flag. *)
Theorem C11_output_roundtrip_plain : forall x : routput,
  wf_routput well_named x ->
  exists d, routput_to_dict print_tree x = Some d /\
            routput_from_dict parse_tree d = Some (mkRO (Plain (base_of (r_in x))) (omap x)).
Proof. exact nk_output_roundtrip_plain. Qed.
Print Assumptions C11_output_roundtrip_plain.

Theorem C11_output_roundtrip_super : forall x : soutput,
  wf_soutput well_named x ->
  exists d, soutput_to_dict print_tree x = Some d /\
            soutput_from_dict parse_tree d =
              Some (mkSO (mkRO (Plain (base_of (r_in (s_out x)))) (omap (s_out x)))
                         (norm_syn (syns x)) (ordered x)).
Proof. exact nk_output_roundtrip_super. Qed.
Print Assumptions C11_output_roundtrip_super.

(* the baseline form: any writer/reader pair that round-trips on [ok] trees *)
Theorem C11_output_roundtrip_super_any_codec :
  forall (write : tree -> string) (read : string -> option tree) (ok : tree -> Prop),
  (forall t, ok t -> read (write t) = Some t) ->
  forall x : soutput,
  wf_soutput ok x ->
  exists d, soutput_to_dict write x = Some d /\
            soutput_from_dict read d =
              Some (mkSO (mkRO (Plain (base_of (r_in (s_out x)))) (omap (s_out x)))
                         (norm_syn (syns x)) (ordered x)).
Proof. exact output_roundtrip_super. Qed.
Print Assumptions C11_output_roundtrip_super_any_codec.

(** * "hence the same events and cost", on the evaluator model.
      The object read back is evaluated ([.cost()], [node_event]) to the same value
      as the original, and the data the evaluator extracts from it are the same. *)
Theorem C11_evaluator_vocabulary :
  (forall x, rec_of x = CliRun.to_rtree (otree (base_of (r_in x))) (omap x)) /\
  (forall num x, lab_of num x =
     CliRun.to_ltree num (otree (base_of (r_in (s_out x)))) (omap (s_out x)) (syns x)) /\
  (forall x, output_events x = option_map ReconProofs.events (rec_of x)) /\
  (forall m, all_sequences m <-> Forall (fun ps => exists l, snd ps = SList l) m) /\
  (forall m m', synmap_equiv m m' <->
     Forall2 (fun a b => fst a = fst b /\ Permutation (syn_items (snd a)) (syn_items (snd b))) m m') /\
  (forall ord s y s' y', same_labelled ord (Recon.LLeaf s y) (Recon.LLeaf s' y') <->
     s = s' /\ (if ord then y = y' else Permutation y y')) /\
  (forall ord s y a b s' y' a' b',
     same_labelled ord (Recon.LNode s y a b) (Recon.LNode s' y' a' b') <->
     s = s' /\ (if ord then y = y' else Permutation y y') /\
     same_labelled ord a a' /\ same_labelled ord b b') /\
  (forall ord s y s' y' a' b', ~ same_labelled ord (Recon.LLeaf s y) (Recon.LNode s' y' a' b') /\
                               ~ same_labelled ord (Recon.LNode s' y' a' b') (Recon.LLeaf s y)) /\
  (forall (A : Type) (R : A -> A -> Prop) a b,
     opt_rel R a b <-> (a = None /\ b = None) \/ exists u v, a = Some u /\ b = Some v /\ R u v).
Proof. exact vocabulary. Qed.
Print Assumptions C11_evaluator_vocabulary.

(* ReconciliationOutput (any well-formed one, whatever the class of its nested input):
   same species mapping as the evaluator reads it, same events, same cost — including
   "raises on both sides" ([None = None]) *)
Theorem C11_same_events_and_cost_plain : forall x : routput,
  wf_routput well_named x ->
  exists d x', routput_to_dict print_tree x = Some d /\
               routput_from_dict parse_tree d = Some x' /\
               rec_of x' = rec_of x /\
               output_events x' = output_events x /\
               CliRun.eval_routput x' = CliRun.eval_routput x.
Proof. exact nk_same_events_and_cost_plain. Qed.
Print Assumptions C11_same_events_and_cost_plain.

(* SuperReconciliationOutput, for every numbering [num] of the family names: ordered
   outputs whose syntenies are sequences, and ALL unordered outputs (sets or sequences at
   the nodes: a set comes back as the sorted list of its elements).  Same [ordered] flag,
   same species mapping and events, the same labelled tree up to the order in which the
   families of an unordered synteny are listed, and the same cost.
   With [ordered x = true] a set-valued synteny is outside the domain of [cost()]: the
   package subscripts the syntenies ([child[child_i]]: TypeError on a set) and enumerates
   the root synteny in iteration order; the model reads an [SSet] in its listing order, and
   there the equality fails: [C11_ordered_sets_outside_domain] below. *)
Theorem C11_same_events_and_cost_super :
  forall (num : string -> option Recon.fam) (x : soutput),
  wf_soutput well_named x ->
  (ordered x = true -> all_sequences (syns x)) ->
  exists d x', soutput_to_dict print_tree x = Some d /\
               soutput_from_dict parse_tree d = Some x' /\
               ordered x' = ordered x /\
               rec_of (s_out x') = rec_of (s_out x) /\
               output_events (s_out x') = output_events (s_out x) /\
               opt_rel (same_labelled (ordered x)) (lab_of num x) (lab_of num x') /\
               CliRun.eval_soutput num x' = CliRun.eval_soutput num x.
Proof. exact nk_same_events_and_cost_super. Qed.
Print Assumptions C11_same_events_and_cost_super.

(* the baseline form: any writer/reader pair that round-trips on [ok] trees *)
Theorem C11_same_events_and_cost_super_any_codec :
  forall (write : tree -> string) (read : string -> option tree) (ok : tree -> Prop),
  (forall t, ok t -> read (write t) = Some t) ->
  forall (num : string -> option Recon.fam) (x : soutput),
  wf_soutput ok x ->
  (ordered x = true -> all_sequences (syns x)) ->
  exists d x', soutput_to_dict write x = Some d /\
               soutput_from_dict read d = Some x' /\
               ordered x' = ordered x /\
               rec_of (s_out x') = rec_of (s_out x) /\
               output_events (s_out x') = output_events (s_out x) /\
               opt_rel (same_labelled (ordered x)) (lab_of num x) (lab_of num x') /\
               CliRun.eval_soutput num x' = CliRun.eval_soutput num x.
Proof. exact same_events_and_cost_super. Qed.
Print Assumptions C11_same_events_and_cost_super_any_codec.

(* the ingredients, for ALL objects (no well-formedness needed): the evaluator reads the
   nested input only through [base_of] ... *)
Theorem C11_evaluator_ignores_input_class : forall x : routput,
  CliRun.eval_routput (mkRO (Plain (base_of (r_in x))) (omap x)) = CliRun.eval_routput x.
Proof. exact eval_routput_back. Qed.
Print Assumptions C11_evaluator_ignores_input_class.

(* ... the re-read labelling [norm_syn (syns x)] is evaluated like [syns x] ... *)
Theorem C11_evaluator_ignores_normalisation :
  forall (num : string -> option Recon.fam) (x : soutput),
  (ordered x = true -> all_sequences (syns x)) ->
  CliRun.eval_soutput num
    (mkSO (mkRO (Plain (base_of (r_in (s_out x)))) (omap (s_out x))) (norm_syn (syns x)) (ordered x)) =
  CliRun.eval_soutput num x.
Proof. exact eval_soutput_back. Qed.
Print Assumptions C11_evaluator_ignores_normalisation.

(* ... because labellings with the same families per node give the same labelled tree up to
   the listing order, whatever the object tree and species mapping ... *)
Theorem C11_labelled_tree_up_to_listing_order :
  forall (num : string -> option Recon.fam) (t : tree) (m : treemap) (sy sy' : synmap),
  synmap_equiv sy sy' ->
  opt_rel (same_labelled false) (CliRun.to_ltree num t m sy) (CliRun.to_ltree num t m sy').
Proof. exact to_ltree_synmap_equiv. Qed.
Print Assumptions C11_labelled_tree_up_to_listing_order.

(* ... and [SuperReconciliationOutput.cost()] with [ordered = False] does not see the
   listing order (only set inclusions are tested; duplicates do not matter either) *)
Theorem C11_cost_ignores_listing_order :
  forall (c : Recon.costs) (O : Recon.otree) (ord : bool) (t t' : Recon.ltree),
  same_labelled ord t t' -> Recon.total_cost c O ord t' = Recon.total_cost c O ord t.
Proof. exact total_cost_same_labelled. Qed.
Print Assumptions C11_cost_ignores_listing_order.

(* the events of a labelled output are those of its species mapping *)
Theorem C11_labelled_tree_species :
  forall (num : string -> option Recon.fam) (x : soutput) (t : Recon.ltree),
  lab_of num x = Some t -> rec_of (s_out x) = Some (Recon.forget t).
Proof. exact lab_of_rec_of. Qed.
Print Assumptions C11_labelled_tree_species.

(** * Congruence lemmas.  These hold for ANY function [f] of the preserved fields and so
      say nothing about the evaluator (that is the section above); they are kept because
      they cover whatever else a client computes from the fields.  For labelled outputs
      [f] must not distinguish labellings with the same families per node. *)
Theorem C11_congruence_plain :
  forall (A : Type) (f : rinput -> treemap -> A) (x : routput),
  wf_routput well_named x ->
  exists d x', routput_to_dict print_tree x = Some d /\
               routput_from_dict parse_tree d = Some x' /\
               f (base_of (r_in x')) (omap x') = f (base_of (r_in x)) (omap x).
Proof. exact nk_same_function_of_fields_plain. Qed.
Print Assumptions C11_congruence_plain.

Theorem C11_congruence_super :
  forall (A : Type) (f : rinput -> treemap -> synmap -> bool -> A) (x : soutput),
  wf_soutput well_named x ->
  (forall b m o sy sy', synmap_equiv sy sy' -> f b m sy o = f b m sy' o) ->
  exists d x', soutput_to_dict print_tree x = Some d /\
               soutput_from_dict parse_tree d = Some x' /\
               f (base_of (r_in (s_out x'))) (omap (s_out x')) (syns x') (ordered x') =
               f (base_of (r_in (s_out x))) (omap (s_out x)) (syns x) (ordered x).
Proof. exact nk_congruence_super_equiv. Qed.
Print Assumptions C11_congruence_super.

(** * reserialise_fixpoint: serialising the re-read object reproduces the
      dictionary; for outputs, every key except the nested "leaf_syntenies"
      ([strip_dro] / [strip_dso] remove exactly that key) *)
Theorem C11_reserialise_fixpoint_plain_input : forall x : rinput,
  wf_rinput well_named x ->
  exists d x', rinput_to_dict print_tree x = Some d /\
               rinput_from_dict parse_tree (mkDI d None) = Some x' /\
               rinput_to_dict print_tree x' = Some d.
Proof. exact nk_reserialise_fixpoint_plain_input. Qed.
Print Assumptions C11_reserialise_fixpoint_plain_input.

Theorem C11_reserialise_fixpoint_super_input : forall x : sinput,
  wf_sinput well_named x ->
  exists d x', sinput_to_dict print_tree x = Some d /\
               sinput_from_dict parse_tree d = Some x' /\
               sinput_to_dict print_tree x' = Some d.
Proof. exact nk_reserialise_fixpoint_super_input. Qed.
Print Assumptions C11_reserialise_fixpoint_super_input.

Theorem C11_reserialise_fixpoint_plain_output : forall x : routput,
  wf_routput well_named x ->
  exists d x', routput_to_dict print_tree x = Some d /\
               routput_from_dict parse_tree d = Some x' /\
               routput_to_dict print_tree x' =
                 Some (mkDRO (mkDI (d_base (d_in d)) None) (d_omap d)).
Proof. exact nk_reserialise_fixpoint_plain_output. Qed.
Print Assumptions C11_reserialise_fixpoint_plain_output.

Theorem C11_reserialise_fixpoint_super_output : forall x : soutput,
  wf_soutput well_named x ->
  exists d x', soutput_to_dict print_tree x = Some d /\
               soutput_from_dict parse_tree d = Some x' /\
               soutput_to_dict print_tree x' =
                 Some (mkDSO (mkDRO (mkDI (d_base (d_in (d_out d))) None) (d_omap (d_out d)))
                             (d_syns d) (d_ordered d)).
Proof. exact nk_reserialise_fixpoint_super_output. Qed.
Print Assumptions C11_reserialise_fixpoint_super_output.

(** * Non-vacuity: a concrete unordered super-reconciliation output with colours,
      an infinite transfer cost, a set-valued synteny with a natural-sort tie
      ("g01"/"g1") and a nested SuperReconciliationInput satisfies the hypotheses,
      and the round trip computes to what the theorem says. *)
Definition ex_O : tree :=
  Node "R" None [Node "X" (Some "red") [Node "a_1" None []; Node "b_1" (Some "") []];
                 Node "c_1" None []].
Definition ex_S : tree := Node "abc" (Some "c_0") [Node "ab" None [Node "a" None []; Node "b" None []]; Node "c" None []].
Definition ex_in : rinput :=
  mkRI ex_O ex_S [([0; 0], [0; 0]); ([1], [1]); ([0; 1], [0; 1])]
       [(SPECIATION, Fin 0); (DUPLICATION, Fin 1); (HORIZONTAL_TRANSFER, PInf);
        (FULL_LOSS, Fin 1); (SEGMENTAL_LOSS, Fin 2)].
Definition ex_out : soutput :=
  mkSO (mkRO (Super (mkSI ex_in [([0; 0], SList ["g10"; "g2"]); ([0; 1], SList ["g2"]); ([1], SSet ["g2"; "g10"])]))
             [([], []); ([0], [0]); ([0; 0], [0; 0]); ([0; 1], [0; 1]); ([1], [1])])
       [([], SSet ["g10"; "g2"; "g01"; "g1"]); ([0], SSet ["g2"; "g10"]); ([0; 0], SList ["g10"; "g2"]);
        ([0; 1], SList ["g2"]); ([1], SSet ["g10"; "g2"])]
       false.

Example C11_example_hypotheses : wf_soutput well_named ex_out.
Proof.
  repeat split; simpl;
    repeat (constructor; simpl; try reflexivity; try (intuition discriminate)).
Qed.

Example C11_example_roundtrip :
  soutput_to_dict print_tree ex_out =
    Some (mkDSO
      (mkDRO
        (mkDI (mkDRI "((a_1,b_1[&&NHX:color=])X[&&NHX:color=red],c_1)R;"
                     "((a,b)ab,c)abc[&&NHX:color=c_0];"
                     [("a_1", "a"); ("c_1", "c"); ("b_1", "b")]
                     [("SPECIATION", Fin 0); ("DUPLICATION", Fin 1); ("HORIZONTAL_TRANSFER", PInf);
                      ("FULL_LOSS", Fin 1); ("SEGMENTAL_LOSS", Fin 2)])
              (Some [("a_1", ["g10"; "g2"]); ("b_1", ["g2"]); ("c_1", ["g2"; "g10"])]))
        [("R", "abc"); ("X", "ab"); ("a_1", "a"); ("b_1", "b"); ("c_1", "c")])
      [("R", ["g01"; "g1"; "g2"; "g10"]); ("X", ["g2"; "g10"]); ("a_1", ["g10"; "g2"]);
       ("b_1", ["g2"]); ("c_1", ["g2"; "g10"])]
      (Some false))
  /\ (forall d, soutput_to_dict print_tree ex_out = Some d ->
      soutput_from_dict parse_tree d =
        Some (mkSO (mkRO (Plain ex_in) (omap (s_out ex_out)))
                   [([], SList ["g01"; "g1"; "g2"; "g10"]); ([0], SList ["g2"; "g10"]);
                    ([0; 0], SList ["g10"; "g2"]); ([0; 1], SList ["g2"]); ([1], SList ["g2"; "g10"])]
                   false)).
Proof.
  split; [vm_compute; reflexivity|].
  intros d E. vm_compute in E. injection E as <-. vm_compute. reflexivity.
Qed.

(** * Non-vacuity of the events/cost theorems: the unordered output above (the root set
      is listed as g10,g2,g01,g1 and comes back as g01,g1,g2,g10; the set of c_1 as g2,g10)
      is evaluated to 6 = 3 segmental losses at unit cost 2, before and after the round trip,
      with two speciations. *)
Definition ex_num : string -> option Recon.fam := CliRun.fam_num ["g10"; "g2"; "g01"; "g1"].

Example C11_example_hypotheses_eval : ordered ex_out = true -> all_sequences (syns ex_out).
Proof. discriminate. Qed.

Example C11_example_same_events_and_cost :
  CliRun.eval_soutput ex_num ex_out = Some (Fin 6) /\
  output_events (s_out ex_out) = Some [Recon.Spe; Recon.Spe] /\
  (forall d x', soutput_to_dict print_tree ex_out = Some d ->
                soutput_from_dict parse_tree d = Some x' ->
                syns x' <> syns ex_out /\
                lab_of ex_num x' <> lab_of ex_num ex_out /\
                output_events (s_out x') = Some [Recon.Spe; Recon.Spe] /\
                CliRun.eval_soutput ex_num x' = Some (Fin 6)).
Proof.
  split; [vm_compute; reflexivity|]. split; [vm_compute; reflexivity|].
  intros d x' E. vm_compute in E. injection E as <-. intros E. vm_compute in E. injection E as <-.
  split; [vm_compute; discriminate|]. split; [vm_compute; discriminate|].
  split; vm_compute; reflexivity.
Qed.

(** * The clause [ordered x = true -> all_sequences (syns x)] cannot be dropped in the model:
      an ordered output whose root synteny is a set listed as g2,g1 is evaluated to 2, the
      object read back (root synteny g1,g2) to 0. *)
Definition ord_O : tree := Node "R" None [Node "a_1" None []; Node "b_1" None []].
Definition ord_S : tree := Node "ab" None [Node "a" None []; Node "b" None []].
Definition ord_out : soutput :=
  mkSO (mkRO (Plain (mkRI ord_O ord_S [([0], [0]); ([1], [1])]
                          [(SPECIATION, Fin 0); (DUPLICATION, Fin 1); (HORIZONTAL_TRANSFER, Fin 1);
                           (FULL_LOSS, Fin 1); (SEGMENTAL_LOSS, Fin 1)]))
             [([], []); ([0], [0]); ([1], [1])])
       [([], SSet ["g2"; "g1"]); ([0], SList ["g1"; "g2"]); ([1], SList ["g1"; "g2"])]
       true.

Example C11_ordered_sets_outside_domain :
  wf_soutput well_named ord_out /\
  CliRun.eval_soutput (CliRun.fam_num ["g1"; "g2"]) ord_out = Some (Fin 2) /\
  (forall d x', soutput_to_dict print_tree ord_out = Some d ->
                soutput_from_dict parse_tree d = Some x' ->
                CliRun.eval_soutput (CliRun.fam_num ["g1"; "g2"]) x' = Some (Fin 0)).
Proof.
  split.
  { repeat split; simpl;
      repeat (constructor; simpl; try reflexivity; try (intuition discriminate)). }
  split; [vm_compute; reflexivity|].
  intros d x' E. vm_compute in E. injection E as <-. intros E. vm_compute in E. injection E as <-.
  vm_compute. reflexivity.
Qed.
