(** C11 — serialised results read back to the same reconciliation.
    Statements only; every proof is [exact <lemma of Proofs/SerialProofs.v or
    Proofs/NewickProofs.v>].

    Vocabulary ([Model/Newick.v], [Model/Serial.v], [Proofs/SerialProofs.v]):
    [tree] = names, colours and children in order; a node is its root path;
    a mapping keyed by nodes / a Python dict is the list of its items in insertion
    order.  [NoDup (names t)] is "uniquely named"; [ok_tree t = true] says that
    names are non-empty words over [A-Za-z0-9_] and colours words over the same
    alphabet; [wf_tmap] / [wf_smap]: distinct keys, valid paths.  [None] stands for
    a Python exception, so every [= Some _] below also says "does not raise".

    Theorems [C11_*_any_codec] keep ete3's Newick writer/reader abstract: they hold
    for every pair [write]/[read] with [read (write t) = Some t] on a class [ok] of
    trees (that premise is explicit in the statement).  The other theorems are
    about the concrete Gallina printer/parser [print_tree]/[parse_tree] — compared
    string for string with ete3 by the correspondence — for which the premise is
    the proved [C11_newick_roundtrip]. *)
From Coq Require Import List Bool String ZArith Permutation.
From SR Require Import Base.Ext Model.Newick Model.Serial Proofs.NewickProofs Proofs.SerialProofs.
Import ListNotations.
Local Open Scope string_scope.

(** * Newick: the printer/parser pair round-trips (any size, any arity) *)
Theorem C11_newick_roundtrip : forall t : tree,
  ok_tree t = true -> parse_tree (print_tree t) = Some t.
Proof. exact newick_roundtrip. Qed.
Print Assumptions C11_newick_roundtrip.

Theorem C11_newick_injective : forall t1 t2 : tree,
  ok_tree t1 = true -> ok_tree t2 = true -> print_tree t1 = print_tree t2 -> t1 = t2.
Proof. exact print_tree_injective. Qed.
Print Assumptions C11_newick_injective.

(** * Name lookup is the inverse of [.name] on uniquely named trees *)
Theorem C11_lookup_inverts_name : forall (t : tree) (p : path) (a : tree),
  NoDup (names t) -> subtree t p = Some a -> find_name t (t_name a) = Some p.
Proof. exact find_name_name_at. Qed.
Print Assumptions C11_lookup_inverts_name.

(** * mapping_roundtrip: the serialised mapping is the list of (name, name) items
      in order, and parsing it against the trees returns the mapping *)
Theorem C11_mapping_serialised : forall (O S : tree) (m : treemap),
  NoDup (names O) -> NoDup (names S) -> wf_tmap O S m ->
  serialize_tree_mapping O S m =
    Some (map (fun pq => (name_of O (fst pq), name_of S (snd pq))) m).
Proof. exact serialize_tree_mapping_spec. Qed.
Print Assumptions C11_mapping_serialised.

Theorem C11_mapping_roundtrip : forall (O S : tree) (m : treemap),
  NoDup (names O) -> NoDup (names S) -> wf_tmap O S m ->
  exists d, serialize_tree_mapping O S m = Some d /\ parse_tree_mapping O S d = Some m.
Proof. exact mapping_roundtrip. Qed.
Print Assumptions C11_mapping_roundtrip.

(** * synteny_roundtrip: same keys in the same order; a sequence comes back
      verbatim, a set as the list [sort_synteny] made of it, which is a permutation
      of its elements ([norm_syn]) *)
Theorem C11_synteny_roundtrip : forall (T : tree) (m : synmap),
  NoDup (names T) -> wf_smap T m ->
  exists d, serialize_synteny_mapping T m = Some d /\
            parse_synteny_mapping T d =
              Some (map (fun ps => (fst ps, SList (ser_syn (snd ps)))) m).
Proof. exact synteny_roundtrip. Qed.
Print Assumptions C11_synteny_roundtrip.

Theorem C11_ordered_synteny_verbatim : forall l, ser_syn (SList l) = l.
Proof. exact ser_syn_list. Qed.
Print Assumptions C11_ordered_synteny_verbatim.

Theorem C11_sort_synteny_permutation : forall l, Permutation (sort_synteny l) l.
Proof. exact sort_synteny_perm. Qed.
Print Assumptions C11_sort_synteny_permutation.

Theorem C11_labelling_after_roundtrip : forall m : synmap,
  Forall2 (fun a b => fst b = fst a /\
                      (forall l, snd a = SList l -> snd b = SList l) /\
                      exists l', snd b = SList l' /\ Permutation l' (syn_items (snd a)))
          m (norm_syn m).
Proof. exact norm_syn_spec. Qed.
Print Assumptions C11_labelling_after_roundtrip.

(** * Event costs (int or infinite), keyed by event name *)
Theorem C11_costs_roundtrip : forall c : costmap,
  NoDup (map fst c) -> costs_from_dict (costs_to_dict c) = Some c.
Proof. exact costs_roundtrip. Qed.
Print Assumptions C11_costs_roundtrip.

(** * input_roundtrip *)
(* ReconciliationInput: both trees, the leaf assignment and the costs come back
   exactly (a "leaf_syntenies" key, if any, is ignored by this class) *)
Theorem C11_input_roundtrip_plain : forall x : rinput,
  wf_rinput well_named x ->
  exists d, rinput_to_dict print_tree x = Some d /\
            forall ls, rinput_from_dict parse_tree (mkDI d ls) = Some x.
Proof. exact nk_input_roundtrip_plain. Qed.
Print Assumptions C11_input_roundtrip_plain.

(* SuperReconciliationInput: additionally the leaf syntenies, normalised *)
Theorem C11_input_roundtrip_super : forall x : sinput,
  wf_sinput well_named x ->
  exists d, sinput_to_dict print_tree x = Some d /\
            sinput_from_dict parse_tree d = Some (mkSI (s_base x) (norm_syn (leafsyn x))).
Proof. exact nk_input_roundtrip_super. Qed.
Print Assumptions C11_input_roundtrip_super.

(** * output_roundtrip.  The re-read output holds: the same trees, leaf assignment
      and costs (as a *plain* ReconciliationInput: the leaf syntenies of a
      SuperReconciliationInput nested in an output are not read back — the property
      does not list them), the same species mapping, the same labelling
      (normalised) and the same [ordered] flag. *)
Theorem C11_output_roundtrip_plain : forall x : routput,
  wf_routput well_named x ->
  exists d, routput_to_dict print_tree x = Some d /\
            routput_from_dict parse_tree d = Some (mkRO (Plain (base_of (r_in x))) (omap x)).
Proof. exact nk_output_roundtrip_plain. Qed.
Print Assumptions C11_output_roundtrip_plain.

Theorem C11_output_roundtrip_super : forall x : soutput,
  wf_soutput well_named x ->
  exists d, soutput_to_dict print_tree x = Some d /\
            soutput_from_dict parse_tree d =
              Some (mkSO (mkRO (Plain (base_of (r_in (s_out x)))) (omap (s_out x)))
                         (norm_syn (syns x)) (ordered x)).
Proof. exact nk_output_roundtrip_super. Qed.
Print Assumptions C11_output_roundtrip_super.

(* the baseline form: any writer/reader pair that round-trips on [ok] trees *)
Theorem C11_output_roundtrip_super_any_codec :
  forall (write : tree -> string) (read : string -> option tree) (ok : tree -> Prop),
  (forall t, ok t -> read (write t) = Some t) ->
  forall x : soutput,
  wf_soutput ok x ->
  exists d, soutput_to_dict write x = Some d /\
            soutput_from_dict read d =
              Some (mkSO (mkRO (Plain (base_of (r_in (s_out x)))) (omap (s_out x)))
                         (norm_syn (syns x)) (ordered x)).
Proof. exact output_roundtrip_super. Qed.
Print Assumptions C11_output_roundtrip_super_any_codec.

(** * "hence the same events and cost": anything computed from the preserved fields *)
Theorem C11_same_events_and_cost_plain :
  forall (A : Type) (f : rinput -> treemap -> A) (x : routput),
  wf_routput well_named x ->
  exists d x', routput_to_dict print_tree x = Some d /\
               routput_from_dict parse_tree d = Some x' /\
               f (base_of (r_in x')) (omap x') = f (base_of (r_in x)) (omap x).
Proof. exact nk_same_function_of_fields_plain. Qed.
Print Assumptions C11_same_events_and_cost_plain.

(* labellings made of sequences — every ordered labelling — come back verbatim;
   set-valued ones as permutations, see C11_labelling_after_roundtrip *)
Theorem C11_same_events_and_cost_super :
  forall (A : Type) (f : rinput -> treemap -> synmap -> bool -> A) (x : soutput),
  wf_soutput well_named x ->
  Forall (fun ps => exists l, snd ps = SList l) (syns x) ->
  exists d x', soutput_to_dict print_tree x = Some d /\
               soutput_from_dict parse_tree d = Some x' /\
               f (base_of (r_in (s_out x'))) (omap (s_out x')) (syns x') (ordered x') =
               f (base_of (r_in (s_out x))) (omap (s_out x)) (syns x) (ordered x).
Proof. exact nk_same_function_of_fields_super. Qed.
Print Assumptions C11_same_events_and_cost_super.

(** * reserialise_fixpoint: serialising the re-read object reproduces the
      dictionary; for outputs, every key except the nested "leaf_syntenies"
      ([strip_dro] / [strip_dso] remove exactly that key) *)
Theorem C11_reserialise_fixpoint_plain_input : forall x : rinput,
  wf_rinput well_named x ->
  exists d x', rinput_to_dict print_tree x = Some d /\
               rinput_from_dict parse_tree (mkDI d None) = Some x' /\
               rinput_to_dict print_tree x' = Some d.
Proof. exact nk_reserialise_fixpoint_plain_input. Qed.
Print Assumptions C11_reserialise_fixpoint_plain_input.

Theorem C11_reserialise_fixpoint_super_input : forall x : sinput,
  wf_sinput well_named x ->
  exists d x', sinput_to_dict print_tree x = Some d /\
               sinput_from_dict parse_tree d = Some x' /\
               sinput_to_dict print_tree x' = Some d.
Proof. exact nk_reserialise_fixpoint_super_input. Qed.
Print Assumptions C11_reserialise_fixpoint_super_input.

Theorem C11_reserialise_fixpoint_plain_output : forall x : routput,
  wf_routput well_named x ->
  exists d x', routput_to_dict print_tree x = Some d /\
               routput_from_dict parse_tree d = Some x' /\
               routput_to_dict print_tree x' =
                 Some (mkDRO (mkDI (d_base (d_in d)) None) (d_omap d)).
Proof. exact nk_reserialise_fixpoint_plain_output. Qed.
Print Assumptions C11_reserialise_fixpoint_plain_output.

Theorem C11_reserialise_fixpoint_super_output : forall x : soutput,
  wf_soutput well_named x ->
  exists d x', soutput_to_dict print_tree x = Some d /\
               soutput_from_dict parse_tree d = Some x' /\
               soutput_to_dict print_tree x' =
                 Some (mkDSO (mkDRO (mkDI (d_base (d_in (d_out d))) None) (d_omap (d_out d)))
                             (d_syns d) (d_ordered d)).
Proof. exact nk_reserialise_fixpoint_super_output. Qed.
Print Assumptions C11_reserialise_fixpoint_super_output.

(** * Non-vacuity: a concrete unordered super-reconciliation output with colours,
      an infinite transfer cost, a set-valued synteny with a natural-sort tie
      ("g01"/"g1") and a nested SuperReconciliationInput satisfies the hypotheses,
      and the round trip computes to what the theorem says. *)
Definition ex_O : tree :=
  Node "R" None [Node "X" (Some "red") [Node "a_1" None []; Node "b_1" (Some "") []];
                 Node "c_1" None []].
Definition ex_S : tree := Node "abc" (Some "c_0") [Node "ab" None [Node "a" None []; Node "b" None []]; Node "c" None []].
Definition ex_in : rinput :=
  mkRI ex_O ex_S [([0; 0], [0; 0]); ([1], [1]); ([0; 1], [0; 1])]
       [(SPECIATION, Fin 0); (DUPLICATION, Fin 1); (HORIZONTAL_TRANSFER, PInf);
        (FULL_LOSS, Fin 1); (SEGMENTAL_LOSS, Fin 2)].
Definition ex_out : soutput :=
  mkSO (mkRO (Super (mkSI ex_in [([0; 0], SList ["g10"; "g2"]); ([0; 1], SList ["g2"]); ([1], SSet ["g2"; "g10"])]))
             [([], []); ([0], [0]); ([0; 0], [0; 0]); ([0; 1], [0; 1]); ([1], [1])])
       [([], SSet ["g10"; "g2"; "g01"; "g1"]); ([0], SSet ["g2"; "g10"]); ([0; 0], SList ["g10"; "g2"]);
        ([0; 1], SList ["g2"]); ([1], SSet ["g10"; "g2"])]
       false.

Example C11_example_hypotheses : wf_soutput well_named ex_out.
Proof.
  repeat split; simpl;
    repeat (constructor; simpl; try reflexivity; try (intuition discriminate)).
Qed.

Example C11_example_roundtrip :
  soutput_to_dict print_tree ex_out =
    Some (mkDSO
      (mkDRO
        (mkDI (mkDRI "((a_1,b_1[&&NHX:color=])X[&&NHX:color=red],c_1)R;"
                     "((a,b)ab,c)abc[&&NHX:color=c_0];"
                     [("a_1", "a"); ("c_1", "c"); ("b_1", "b")]
                     [("SPECIATION", Fin 0); ("DUPLICATION", Fin 1); ("HORIZONTAL_TRANSFER", PInf);
                      ("FULL_LOSS", Fin 1); ("SEGMENTAL_LOSS", Fin 2)])
              (Some [("a_1", ["g10"; "g2"]); ("b_1", ["g2"]); ("c_1", ["g2"; "g10"])]))
        [("R", "abc"); ("X", "ab"); ("a_1", "a"); ("b_1", "b"); ("c_1", "c")])
      [("R", ["g01"; "g1"; "g2"; "g10"]); ("X", ["g2"; "g10"]); ("a_1", ["g10"; "g2"]);
       ("b_1", ["g2"]); ("c_1", ["g2"; "g10"])]
      (Some false))
  /\ (forall d, soutput_to_dict print_tree ex_out = Some d ->
      soutput_from_dict parse_tree d =
        Some (mkSO (mkRO (Plain ex_in) (omap (s_out ex_out)))
                   [([], SList ["g01"; "g1"; "g2"; "g10"]); ([0], SList ["g2"; "g10"]);
                    ([0; 0], SList ["g10"; "g2"]); ([0; 1], SList ["g2"]); ([1], SList ["g2"; "g10"])]
                   false)).
Proof.
  split; [vm_compute; reflexivity|].
  intros d E. vm_compute in E. injection E as <-. vm_compute. reflexivity.
Qed.
