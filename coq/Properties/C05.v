(** C05 — ALL returns exactly the optimal solutions, ANY returns one of them.
    Proved here for the general DTL solver (inside the coherent region) and the exhaustive
    solver (any costs). *)
From Coq Require Import List Bool ZArith.
From SR Require Import Base.PathB Base.Ext Model.Entry Model.Recon Model.Thl
  Proofs.PathFacts Proofs.ReconProofs Proofs.DpProofs Proofs.ExhProofs Proofs.ThlProofs Proofs.ThlFinal.
Import ListNotations.
Local Open Scope Z_scope.

Definition C05_costs (c : costs) : Prop :=
  nn (c_hgt c) /\ 0 <= c_floss c /\ c_spe c <= c_dup c + 2 * c_floss c.

Theorem C05_thl_all_exact : forall S c O, C05_costs c -> leaves_ok S O ->
  (forall r, In r (tags (reconcile_thl S c RALL O)) <-> optimal S c O r) /\
  NoDup (tags (reconcile_thl S c RALL O)).
Proof.
  intros S c O [Hh [Hf Hc]] L. split.
  - exact (thl_all_exact S c O Hh Hf Hc L).
  - exact (thl_all_nodup S c O).
Qed.
Print Assumptions C05_thl_all_exact.

Theorem C05_thl_any_singleton_in_all : forall S c O, C05_costs c -> leaves_ok S O ->
  exists r, tags (reconcile_thl S c RANY O) = [r] /\ In r (tags (reconcile_thl S c RALL O)).
Proof.
  intros S c O [Hh [Hf Hc]] L. destruct (thl_any S c O Hh Hf Hc L) as [r [E Opt]].
  exists r. split; auto. now apply (thl_all_exact S c O Hh Hf Hc L).
Qed.
Print Assumptions C05_thl_any_singleton_in_all.

(* all returned solutions have the same cost *)
Theorem C05_thl_all_same_cost : forall S c O, C05_costs c -> leaves_ok S O ->
  forall r r', In r (tags (reconcile_thl S c RALL O)) -> In r' (tags (reconcile_thl S c RALL O)) ->
  cost c O r = cost c O r'.
Proof.
  intros S c O [Hh [Hf Hc]] L r r' H H'.
  apply (thl_all_exact S c O Hh Hf Hc L) in H as [V Opt]. apply (thl_all_exact S c O Hh Hf Hc L) in H' as [V' Opt'].
  apply ele_antisym; auto.
Qed.
Print Assumptions C05_thl_all_same_cost.

(* never empty: a well-formed input always has a valid reconciliation *)
Theorem C05_thl_nonempty : forall S c O, C05_costs c -> leaves_ok S O ->
  tags (reconcile_thl S c RALL O) <> [].
Proof. intros S c O [Hh [Hf Hc]] L. exact (thl_all_nonempty S c O Hh Hf Hc L). Qed.
Print Assumptions C05_thl_nonempty.

Theorem C05_exh_all_exact : forall S c O, leaves_ok S O ->
  (forall r, In r (tags (reconcile_exhaustive c RALL O)) <-> optimal S c O r) /\
  NoDup (tags (reconcile_exhaustive c RALL O)).
Proof. intros S c O L. split; [exact (exh_all_exact S c O L)|exact (exh_all_nodup c O)]. Qed.
Print Assumptions C05_exh_all_exact.

Theorem C05_exh_any_singleton_in_all : forall S c O, leaves_ok S O ->
  exists r, tags (reconcile_exhaustive c RANY O) = [r] /\ In r (tags (reconcile_exhaustive c RALL O)).
Proof.
  intros S c O L. destruct (exh_any S c O L) as [r [E [V Opt]]]. exists r. split; auto.
  apply (exh_all_exact S c O L). split; auto.
Qed.
Print Assumptions C05_exh_any_singleton_in_all.

(* the two solvers return the same set *)
Theorem C05_thl_eq_exh : forall S c O, C05_costs c -> leaves_ok S O -> forall r,
  In r (tags (reconcile_thl S c RALL O)) <-> In r (tags (reconcile_exhaustive c RALL O)).
Proof.
  intros S c O [Hh [Hf Hc]] L r. rewrite (thl_all_exact S c O Hh Hf Hc L r). symmetry. exact (exh_all_exact S c O L r).
Qed.
Print Assumptions C05_thl_eq_exh.
