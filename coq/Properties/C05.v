(** C05 — ALL returns exactly the optimal solutions, ANY returns one of them.
    Proved here for the general DTL solver (inside the coherent region) and the exhaustive
    solver (any costs). *)
From Coq Require Import List Bool ZArith.
From SR Require Import Base.PathB Base.Ext Model.Entry Model.Recon Model.Thl
  Proofs.PathFacts Proofs.ReconProofs Proofs.DpProofs Proofs.ExhProofs Proofs.ThlProofs Proofs.ThlFinal.
Import ListNotations.
Local Open Scope Z_scope.

Definition C05_costs (c : costs) : Prop :=
  nn (c_hgt c) /\ 0 <= c_floss c /\ c_spe c <= c_dup c + 2 * c_floss c.

Theorem C05_thl_all_exact : forall S c O, C05_costs c -> leaves_ok S O ->
  (forall r, In r (tags (reconcile_thl S c RALL O)) <-> optimal S c O r) /\
  NoDup (tags (reconcile_thl S c RALL O)).
Proof.
  intros S c O [Hh [Hf Hc]] L. split.
  - exact (thl_all_exact S c O Hh Hf Hc L).
  - exact (thl_all_nodup S c O).
Qed.
Print Assumptions C05_thl_all_exact.

Theorem C05_thl_any_singleton_in_all : forall S c O, C05_costs c -> leaves_ok S O ->
  exists r, tags (reconcile_thl S c RANY O) = [r] /\ In r (tags (reconcile_thl S c RALL O)).
Proof.
  intros S c O [Hh [Hf Hc]] L. destruct (thl_any S c O Hh Hf Hc L) as [r [E Opt]].
  exists r. split; auto. now apply (thl_all_exact S c O Hh Hf Hc L).
Qed.
Print Assumptions C05_thl_any_singleton_in_all.

(* all returned solutions have the same cost *)
Theorem C05_thl_all_same_cost : forall S c O, C05_costs c -> leaves_ok S O ->
  forall r r', In r (tags (reconcile_thl S c RALL O)) -> In r' (tags (reconcile_thl S c RALL O)) ->
  cost c O r = cost c O r'.
Proof.
  intros S c O [Hh [Hf Hc]] L r r' H H'.
  apply (thl_all_exact S c O Hh Hf Hc L) in H as [V Opt]. apply (thl_all_exact S c O Hh Hf Hc L) in H' as [V' Opt'].
  apply ele_antisym; auto.
Qed.
Print Assumptions C05_thl_all_same_cost.

(* never empty: a well-formed input always has a valid reconciliation *)
Theorem C05_thl_nonempty : forall S c O, C05_costs c -> leaves_ok S O ->
  tags (reconcile_thl S c RALL O) <> [].
Proof. intros S c O [Hh [Hf Hc]] L. exact (thl_all_nonempty S c O Hh Hf Hc L). Qed.
Print Assumptions C05_thl_nonempty.

Theorem C05_exh_all_exact : forall S c O, leaves_ok S O ->
  (forall r, In r (tags (reconcile_exhaustive c RALL O)) <-> optimal S c O r) /\
  NoDup (tags (reconcile_exhaustive c RALL O)).
Proof. intros S c O L. split; [exact (exh_all_exact S c O L)|exact (exh_all_nodup c O)]. Qed.
Print Assumptions C05_exh_all_exact.

Theorem C05_exh_any_singleton_in_all : forall S c O, leaves_ok S O ->
  exists r, tags (reconcile_exhaustive c RANY O) = [r] /\ In r (tags (reconcile_exhaustive c RALL O)).
Proof.
  intros S c O L. destruct (exh_any S c O L) as [r [E [V Opt]]]. exists r. split; auto.
  apply (exh_all_exact S c O L). split; auto.
Qed.
Print Assumptions C05_exh_any_singleton_in_all.

(* the two solvers return the same set *)
Theorem C05_thl_eq_exh : forall S c O, C05_costs c -> leaves_ok S O -> forall r,
  In r (tags (reconcile_thl S c RALL O)) <-> In r (tags (reconcile_exhaustive c RALL O)).
Proof.
  intros S c O [Hh [Hf Hc]] L r. rewrite (thl_all_exact S c O Hh Hf Hc L r). symmetry. exact (exh_all_exact S c O L r).
Qed.
Print Assumptions C05_thl_eq_exh.

(** the labelled solvers *)
From SR Require Import Model.Subseq Model.Spfs Model.Uspfs Proofs.SubseqProofs Proofs.LabelCostProofs
  Proofs.SpfsProofs Proofs.SpfsFinal Proofs.UspfsProofs Proofs.UspfsFinal.

(* base/ext SPFS: ALL = exactly the optimal solutions, each once; ANY = one of them (none iff no solution) *)
Theorem C05_spfs_all_exact : forall S c extended orders O, nn (c_hgt c) -> orders_ok S O orders -> coherent_ord c ->
  forall e, spfs S c RALL extended orders O = Some e ->
  (forall lt, In lt (tags e) <-> optimal_sol S c extended orders O lt) /\ NoDup (tags e).
Proof.
  intros S c extended orders O Hh HO Hc e E. split.
  - exact (spfs_all_exact S c extended orders O Hh HO Hc e E).
  - exact (spfs_all_nodup S c extended orders O e E).
Qed.
Print Assumptions C05_spfs_all_exact.

Theorem C05_spfs_any : forall S c extended orders O, nn (c_hgt c) -> orders_ok S O orders -> coherent_ord c ->
  exists e, spfs S c RANY extended orders O = Some e /\
    ((tags e = [] /\ forall lt, ~ sol S extended orders O lt) \/
     exists lt, tags e = [lt] /\ optimal_sol S c extended orders O lt).
Proof. exact spfs_any. Qed.
Print Assumptions C05_spfs_any.

(* base/ext USPFS: ALL = exactly the optimal canonical solutions, each once; ANY = exactly one of them *)
Theorem C05_uspfs_all_exact_canonical : forall S c extended O, nn (c_hgt c) -> ucoherent c -> leaves_ok S O ->
  exists E, uspfs S c RALL extended O = Some E /\ NoDup (tags E) /\
    forall t, In t (tags E) <-> uoptimal S c extended O t.
Proof. exact uspfs_all_exact. Qed.
Print Assumptions C05_uspfs_all_exact_canonical.

Theorem C05_uspfs_any : forall S c extended O, nn (c_hgt c) -> ucoherent c -> leaves_ok S O ->
  exists E t, uspfs S c RANY extended O = Some E /\ tags E = [t] /\ uoptimal S c extended O t.
Proof. exact uspfs_any. Qed.
Print Assumptions C05_uspfs_any.
