(** C05 — ALL returns exactly the optimal solutions, ANY returns one of them.
    General DTL solver (inside the coherent region), exhaustive solver (any costs), base/extended
    SPFS and USPFS (inside their coherent regions). *)
From Coq Require Import List Bool ZArith.
From SR Require Import Base.PathB Base.Ext Model.Entry Model.Recon Model.Thl
  Proofs.PathFacts Proofs.ReconProofs Proofs.DpProofs Proofs.ExhProofs Proofs.ThlProofs Proofs.ThlFinal.
Import ListNotations.
Local Open Scope Z_scope.

Definition C05_costs (c : costs) : Prop :=
  nn (c_hgt c) /\ 0 <= c_floss c /\ c_spe c <= c_dup c + 2 * c_floss c.

Theorem C05_thl_all_exact : forall S c O, C05_costs c -> leaves_ok S O ->
  (forall r, In r (tags (reconcile_thl S c RALL O)) <-> optimal S c O r) /\
  NoDup (tags (reconcile_thl S c RALL O)).
Proof.
  intros S c O [Hh [Hf Hc]] L. split.
  - exact (thl_all_exact S c O Hh Hf Hc L).
  - exact (thl_all_nodup S c O).
Qed.
Print Assumptions C05_thl_all_exact.

Theorem C05_thl_any_singleton_in_all : forall S c O, C05_costs c -> leaves_ok S O ->
  exists r, tags (reconcile_thl S c RANY O) = [r] /\ In r (tags (reconcile_thl S c RALL O)).
Proof.
  intros S c O [Hh [Hf Hc]] L. destruct (thl_any S c O Hh Hf Hc L) as [r [E Opt]].
  exists r. split; auto. now apply (thl_all_exact S c O Hh Hf Hc L).
Qed.
Print Assumptions C05_thl_any_singleton_in_all.

(* all returned solutions have the same cost *)
Theorem C05_thl_all_same_cost : forall S c O, C05_costs c -> leaves_ok S O ->
  forall r r', In r (tags (reconcile_thl S c RALL O)) -> In r' (tags (reconcile_thl S c RALL O)) ->
  cost c O r = cost c O r'.
Proof.
  intros S c O [Hh [Hf Hc]] L r r' H H'.
  apply (thl_all_exact S c O Hh Hf Hc L) in H as [V Opt]. apply (thl_all_exact S c O Hh Hf Hc L) in H' as [V' Opt'].
  apply ele_antisym; auto.
Qed.
Print Assumptions C05_thl_all_same_cost.

(* never empty: a well-formed input always has a valid reconciliation *)
Theorem C05_thl_nonempty : forall S c O, C05_costs c -> leaves_ok S O ->
  tags (reconcile_thl S c RALL O) <> [].
Proof. intros S c O [Hh [Hf Hc]] L. exact (thl_all_nonempty S c O Hh Hf Hc L). Qed.
Print Assumptions C05_thl_nonempty.

Theorem C05_exh_all_exact : forall S c O, leaves_ok S O ->
  (forall r, In r (tags (reconcile_exhaustive c RALL O)) <-> optimal S c O r) /\
  NoDup (tags (reconcile_exhaustive c RALL O)).
Proof. intros S c O L. split; [exact (exh_all_exact S c O L)|exact (exh_all_nodup c O)]. Qed.
Print Assumptions C05_exh_all_exact.

Theorem C05_exh_any_singleton_in_all : forall S c O, leaves_ok S O ->
  exists r, tags (reconcile_exhaustive c RANY O) = [r] /\ In r (tags (reconcile_exhaustive c RALL O)).
Proof.
  intros S c O L. destruct (exh_any S c O L) as [r [E [V Opt]]]. exists r. split; auto.
  apply (exh_all_exact S c O L). split; auto.
Qed.
Print Assumptions C05_exh_any_singleton_in_all.

(* the two solvers return the same set *)
Theorem C05_thl_eq_exh : forall S c O, C05_costs c -> leaves_ok S O -> forall r,
  In r (tags (reconcile_thl S c RALL O)) <-> In r (tags (reconcile_exhaustive c RALL O)).
Proof.
  intros S c O [Hh [Hf Hc]] L r. rewrite (thl_all_exact S c O Hh Hf Hc L r). symmetry. exact (exh_all_exact S c O L r).
Qed.
Print Assumptions C05_thl_eq_exh.

(** the labelled solvers *)
From SR Require Import Model.Subseq Model.Spfs Model.Uspfs Proofs.SubseqProofs Proofs.LabelCostProofs
  Proofs.SpfsProofs Proofs.SpfsFinal Proofs.UspfsProofs Proofs.UspfsFinal.

(* base/ext SPFS: ALL = exactly the optimal solutions, each once; ANY = one of them (none iff no solution) *)
Theorem C05_spfs_all_exact : forall S c extended orders O, nn (c_hgt c) -> orders_ok S O orders -> coherent_ord c ->
  forall e, spfs S c RALL extended orders O = Some e ->
  (forall lt, In lt (tags e) <-> optimal_sol S c extended orders O lt) /\ NoDup (tags e).
Proof.
  intros S c extended orders O Hh HO Hc e E. split.
  - exact (spfs_all_exact S c extended orders O Hh HO Hc e E).
  - exact (spfs_all_nodup S c extended orders O e E).
Qed.
Print Assumptions C05_spfs_all_exact.

Theorem C05_spfs_any : forall S c extended orders O, nn (c_hgt c) -> orders_ok S O orders -> coherent_ord c ->
  exists e, spfs S c RANY extended orders O = Some e /\
    ((tags e = [] /\ forall lt, ~ sol S extended orders O lt) \/
     exists lt, tags e = [lt] /\ optimal_sol S c extended orders O lt).
Proof. exact spfs_any. Qed.
Print Assumptions C05_spfs_any.

(* base/ext USPFS: ALL = exactly the optimal canonical solutions, each once; ANY = exactly one of them *)
Theorem C05_uspfs_all_exact_canonical : forall S c extended O, nn (c_hgt c) -> ucoherent c -> leaves_ok S O ->
  exists E, uspfs S c RALL extended O = Some E /\ NoDup (tags E) /\
    forall t, In t (tags E) <-> uoptimal S c extended O t.
Proof. exact uspfs_all_exact. Qed.
Print Assumptions C05_uspfs_all_exact_canonical.

Theorem C05_uspfs_any : forall S c extended O, nn (c_hgt c) -> ucoherent c -> leaves_ok S O ->
  exists E t, uspfs S c RANY extended O = Some E /\ tags E = [t] /\ uoptimal S c extended O t.
Proof. exact uspfs_any. Qed.
Print Assumptions C05_uspfs_any.

(** ** reader-facing corollaries (Proofs/AllAnyProofs.v) *)
From SR Require Import Proofs.AllAnyProofs.

(* unordered solvers, the English of the property: ALL = exactly the CANONICAL solutions ([usol]: valid,
   every node holds its required families or its parent's families plus its own gains; base variant: on
   the LCA mapping) whose cost is minimal among ALL valid labellings ([uall_sol]: canonical or not), each once.
   ([C03_canonical_suffices] chained with [C03_superdtl_optimum]: the canonical minimum is the global one.) *)
Theorem C05_uspfs_all_exact_global : forall S c extended O, nn (c_hgt c) -> ucoherent c -> leaves_ok S O ->
  exists E, uspfs S c RALL extended O = Some E /\ NoDup (tags E) /\
    forall t, In t (tags E) <->
      (usol S extended O t /\ forall t', uall_sol S extended O t' -> ele (ucost c O t) (ucost c O t')).
Proof. exact uspfs_all_exact_global. Qed.
Print Assumptions C05_uspfs_all_exact_global.

(* labelled solvers: the ANY result is a member of the ALL result (empty together) *)
Theorem C05_spfs_any_in_all : forall S c extended orders O, nn (c_hgt c) -> orders_ok S O orders -> coherent_ord c ->
  exists ea el, spfs S c RANY extended orders O = Some ea /\ spfs S c RALL extended orders O = Some el /\
    ((tags ea = [] /\ tags el = [] /\ forall lt, ~ sol S extended orders O lt) \/
     exists lt, tags ea = [lt] /\ In lt (tags el)).
Proof. exact spfs_any_in_all. Qed.
Print Assumptions C05_spfs_any_in_all.

Theorem C05_uspfs_any_in_all : forall S c extended O, nn (c_hgt c) -> ucoherent c -> leaves_ok S O ->
  exists Ea El t, uspfs S c RANY extended O = Some Ea /\ uspfs S c RALL extended O = Some El /\
    tags Ea = [t] /\ In t (tags El).
Proof. exact uspfs_any_in_all. Qed.
Print Assumptions C05_uspfs_any_in_all.

(* labelled solvers: all returned solutions have the same cost (any policy, any unit costs) *)
Theorem C05_spfs_all_same_cost : forall S c rp extended orders O e lt lt', nn (c_hgt c) -> orders_ok S O orders ->
  spfs S c rp extended orders O = Some e -> In lt (tags e) -> In lt' (tags e) ->
  total_cost c O true lt = total_cost c O true lt'.
Proof. exact spfs_all_same_cost. Qed.
Print Assumptions C05_spfs_all_same_cost.

Theorem C05_uspfs_all_same_cost : forall S c rp extended O E t t', nn (c_hgt c) -> leaves_ok S O ->
  uspfs S c rp extended O = Some E -> In t (tags E) -> In t' (tags E) ->
  total_cost c O false t = total_cost c O false t' /\ ucost c O t = ucost c O t' /\ ucost c O t = val E.
Proof. exact uspfs_all_same_cost. Qed.
Print Assumptions C05_uspfs_all_same_cost.

(* plain solvers: the ANY result for ANY order in which the final candidates are enumerated (the model
   fixes pre-order; the code uses another order): still one solution, a member of the ALL set *)
Theorem C05_thl_any_order_in_all : forall S c O order, C05_costs c -> leaves_ok S O ->
  Permutation.Permutation order (snodes S) ->
  exists r, tags (reconcile_thl_order order S c RANY O) = [r] /\ optimal S c O r /\
            In r (tags (reconcile_thl S c RALL O)).
Proof. intros S c O order [Hh [Hf Hc]] L P. exact (thl_any_order S c O order Hh Hf Hc L P). Qed.
Print Assumptions C05_thl_any_order_in_all.

Theorem C05_exh_any_order_in_all : forall S c O l, leaves_ok S O -> Permutation.Permutation l (gen_all O) ->
  exists r, tags (reconcile_exhaustive_order l c RANY O) = [r] /\ optimal S c O r /\
            In r (tags (reconcile_exhaustive c RALL O)).
Proof. exact exh_any_order. Qed.
Print Assumptions C05_exh_any_order_in_all.

(** ** non-vacuity: every hypothesis set used in this file is satisfiable, on instances with several
    optimal solutions *)
Example C05_example_plain :
  let S := SNode SLeaf (SNode SLeaf (SNode SLeaf SLeaf)) in
  let O := ONode (OLeaf [false] []) (ONode (OLeaf [true; true; true] [])
                 (ONode (OLeaf [true; false] []) (OLeaf [true; true; false] []))) in
  let c := {| c_spe := 0; c_dup := 1; c_hgt := Fin 1; c_floss := 1; c_sloss := 1 |} in
  C05_costs c /\ leaves_ok S O /\
  length (tags (reconcile_thl S c RALL O)) = 4%nat /\ length (tags (reconcile_thl S c RANY O)) = 1%nat /\
  length (tags (reconcile_exhaustive c RALL O)) = 4%nat /\ length (tags (reconcile_exhaustive c RANY O)) = 1%nat /\
  Permutation.Permutation (rev (snodes S)) (snodes S) /\
  length (tags (reconcile_thl_order (rev (snodes S)) S c RANY O)) = 1%nat.
Proof.
  cbv zeta. split; [unfold C05_costs, nn; simpl; repeat split; (discriminate || Lia.lia)|].
  split; [cbn; tauto|]. repeat split; try (vm_compute; reflexivity).
  apply Permutation.Permutation_sym, Permutation.Permutation_rev.
Qed.

(* ordered: [nn], [coherent_ord], [orders_ok] (from [leaves_wf] and the enumerated root orders), 3 optimal
   solutions (extended) / 1 (base) *)
Example C05_example_ordered :
  let S := SNode SLeaf (SNode SLeaf SLeaf) in
  let O := ONode (OLeaf [false] [1; 2]%N) (ONode (OLeaf [true; false] [2; 3]%N) (OLeaf [true; true] [1; 3]%N)) in
  let c := {| c_spe := 0; c_dup := 1; c_hgt := Fin 1; c_floss := 1; c_sloss := 1 |} in
  nn (c_hgt c) /\ coherent_ord c /\ orders_ok S O [[1; 2; 3]%N] /\
  option_map (fun e => (val e, length (tags e))) (spfs S c RALL true [[1; 2; 3]%N] O) = Some (Fin 3, 3%nat) /\
  option_map (fun e => (val e, length (tags e))) (spfs S c RANY true [[1; 2; 3]%N] O) = Some (Fin 3, 1%nat) /\
  option_map (fun e => (val e, length (tags e))) (spfs S c RALL false [[1; 2; 3]%N] O) = Some (Fin 3, 1%nat).
Proof.
  cbv zeta. split; [discriminate|]. split; [unfold coherent_ord; cbn; Lia.lia|].
  split; [|repeat split; vm_compute; reflexivity].
  refine (proj1 (root_orders_ok _ _ _ _ _)); [cbn; repeat split; discriminate|vm_compute; reflexivity].
Qed.

(* unordered: [nn], [ucoherent], [leaves_ok] *)
Example C05_example_unordered := uspfs_example.
