(** C15 — generated TikZ is well-formed and labels are faithful.
    Statements only; every proof is [exact <lemma of Proofs/*.v>].
    [templates], [skeleton], [layer_names] are regenerated from render/tikz.py on every run
    (Gen/TikzTemplates.v), so the theorems about them are re-checked against the current source.
    The per-template theorems of the first section are composed into theorems about the whole
    output of [render_full] in the section "End to end" ([C15_render_full_balanced],
    [C15_render_full_text_defined]): that every emitted line is an instance of a generated
    template with balanced hole values is proved there, not assumed. *)
From Coq Require Import String Ascii List Bool Arith.
From SR Require Import Model.Escape Model.Wrap Model.Colour Model.Tikz Gen.TikzTemplates.
From SR Require Import Proofs.EscapeProofs Proofs.WrapProofs Proofs.ColourProofs Proofs.TikzProofs.
From SR Require Import Proofs.RenderProofs.
Import ListNotations.

(** ** Well-formed output *)

(* Every string the renderer can emit is an instance of one of the generated templates (proved for
   the output of [render_full] in [C15_render_full_balanced] below).  For every
   instantiation whose hole values are brace-balanced strings, the text is balanced -- [balanced]
   fails as soon as a brace closes below depth 0 -- and, for a statement of the picture (or a node
   handed to the measurer), ends with a semicolon. *)
Theorem C15_templates_balanced : forall e vals s,
  In e templates ->
  Forall (fun v => balanced v = true) vals ->
  inst (e_items e) vals = Some s ->
  balanced s = true /\ (is_stmt (e_site e) = true -> ends_with_semi s = true).
Proof. exact templates_balanced. Qed.
Print Assumptions C15_templates_balanced.

(* the lifting lemma itself, for any template that passes the check *)
Theorem C15_template_ok_sound : forall e vals s,
  template_ok e = true ->
  Forall (fun v => balanced v = true) vals ->
  inst (e_items e) vals = Some s ->
  balanced s = true /\ (is_stmt (e_site e) = true -> ends_with_semi s = true).
Proof. exact template_ok_sound. Qed.
Print Assumptions C15_template_ok_sound.

(* the whole output is the lines joined by newlines: balanced when every line is; and a balanced
   text never closes a brace that is not open, whatever prefix is read *)
Theorem C15_output_balanced : forall ls,
  Forall (fun l => balanced l = true) ls -> balanced (join_with [nl] ls) = true.
Proof. exact join_balanced. Qed.
Print Assumptions C15_output_balanced.

Theorem C15_balanced_never_negative : forall a b,
  balanced (a ++ b) = true -> exists d, scan a 0 = Some d.
Proof. exact balanced_never_negative. Qed.
Print Assumptions C15_balanced_never_negative.

(* the hole values produced by the layout are balanced: labels of object nodes and species, for
   names and families without braces *)
Theorem C15_node_label_balanced : forall width is_leaf name syn psyn l,
  brace_free name ->
  match syn with Some fams => Forall brace_free fams | None => True end ->
  node_label width is_leaf name syn psyn = Some l ->
  balanced l = true.
Proof. exact node_label_balanced. Qed.
Print Assumptions C15_node_label_balanced.

Theorem C15_species_label_balanced : forall width name l,
  brace_free name -> species_label width name = Some l -> balanced l = true.
Proof. exact species_label_balanced. Qed.
Print Assumptions C15_species_label_balanced.

(* [render] assembles: the definitions, one colour definition per interned colour, then a single
   picture environment made of a comment and the statements of each layer, and a final newline *)
Theorem C15_render_skeleton :
  skeleton = [SkSite SDefs; SkEachColour [SColourDef]; SkSite SBegin;
              SkEachLayer [LSite SComment; LBody]; SkSite SEnd; SkSite STrailer].
Proof. exact render_skeleton. Qed.
Print Assumptions C15_render_skeleton.

(* exactly one template opens the environment and one closes it, they read
   \begin{tikzpicture} / \end{tikzpicture}, and no other template mentions \begin or \end *)
Theorem C15_single_environment : environment_ok templates skeleton = true.
Proof. exact single_environment. Qed.
Print Assumptions C15_single_environment.

(** ** End to end: the whole text of [render_full]

    [render_full] (Model/Tikz.v: labels and colours of [layout.compute], then [tikz.render]) returns
    one triple per output line: template number, colour index, text (label / HTML colour / layer
    name).  Coordinates and drawing parameters are not modelled.  Proofs/RenderProofs.v defines the
    text of a line: [oline_text templates o free] instantiates the template of line [o], filling its
    holes from left to right ([fill]) with
      - the colour name [colour_name templates i] (= the [get_color] template applied to the decimal
        index [dec i]) or the index itself, [i] being the colour index of the line,
      - the text of the line for a label, HTML colour or layer-name hole,
      - the next element of [free] for a coordinate or parameter hole ([free] must be used up);
    [text_lines templates ols frees] does this for every line, one list of free values per line.
    [tree_ok t]: no name, family or colour of the object tree contains a brace;
    [occ p s]: number of positions of [s] at which the word [p] occurs. *)

(* Whenever [render_full] succeeds on an object tree and species names without braces, then for
   every choice of brace-free coordinates and parameters:
   (a) every line is brace-balanced and never closes below depth 0, and so is the whole text
       (the lines joined by newlines);
   (b) every line instantiated from a statement template ends with a semicolon;
   (c) the text is: the definitions (an instance of a definitions template), the colour definitions
       (each naming the colour exactly as [get_color] does), \begin{tikzpicture}, lines that are a
       layer comment or end with a semicolon, \end{tikzpicture}, and an empty last line; and the
       words \begin{ and \end{ occur exactly once each in the whole text, so there is exactly one
       environment. *)
Theorem C15_render_full_balanced : forall vertical ewidth swidth t spp ols frees lines,
  tree_ok t ->
  Forall (fun s : bool * string * list rbranch => brace_free (los (snd (fst s)))) spp ->
  Forall (Forall brace_free) frees ->
  render_full templates skeleton layer_names vertical ewidth swidth t spp = Some ols ->
  text_lines templates ols frees = Some lines ->
  Forall (fun l => scan l 0 = Some 0) lines
  /\ balanced (join_with [nl] lines) = true
  /\ Forall2 (fun (o : oline) l => forall e, nth_error templates (fst (fst o)) = Some e ->
                is_stmt (e_site e) = true -> ends_with_semi l = true) ols lines
  /\ exists defs cdefs body,
       lines = defs :: cdefs ++ begin_line :: body ++ [end_line; []]
       /\ (exists e vals, In e templates /\ e_site e = SDefs /\ inst (e_items e) vals = Some defs)
       /\ Forall (fun l => exists i h name, colour_name templates i = Some name
                    /\ l = los "\definecolor{" ++ name ++ los "}{HTML}{" ++ los h ++ [rbrace]) cdefs
       /\ Forall (fun l => (exists ly, In ly layer_names /\ l = los "% " ++ los ly)
                           \/ ends_with_semi l = true) body
       /\ occ (los "\begin{") (join_with [nl] lines) = 1
       /\ occ (los "\end{") (join_with [nl] lines) = 1.
Proof. exact render_full_balanced. Qed.
Print Assumptions C15_render_full_balanced.

(* the two fixed lines of the statement above *)
Theorem C15_begin_end_lines :
  begin_line = los "\begin{tikzpicture}" /\ end_line = los "\end{tikzpicture}".
Proof. split; reflexivity. Qed.
Print Assumptions C15_begin_end_lines.

(* the hypothesis [text_lines ... = Some lines] excludes nothing: whenever [render_full] succeeds
   (no hypothesis on braces), the text is defined for every choice of as many coordinates /
   parameters as the template of each line has such holes *)
Theorem C15_render_full_text_defined : forall vertical ewidth swidth t spp ols frees,
  render_full templates skeleton layer_names vertical ewidth swidth t spp = Some ols ->
  Forall2 (fun (o : oline) f => forall e, nth_error templates (fst (fst o)) = Some e ->
             length f = free_count (e_items e)) ols frees ->
  exists lines, text_lines templates ols frees = Some lines.
Proof. exact render_full_text_defined. Qed.
Print Assumptions C15_render_full_text_defined.

(* the decimal index and the colour names are brace-free, as the statement templates need *)
Theorem C15_colour_index_brace_free : forall n, brace_free (dec n).
Proof. exact dec_brace_free. Qed.
Print Assumptions C15_colour_index_brace_free.

(** ** Colours *)

(* the name a statement uses for colour number i is the name the i-th definition defines *)
Theorem C15_colour_definition_names_colour :
  exists n d,
    filter (fun e => site_eqb (e_site e) SColourName) templates = [n] /\
    filter (fun e => site_eqb (e_site e) SColourDef) templates = [d] /\
    forall i h, exists name,
      inst (e_items n) [i] = Some name /\
      inst (e_items d) [i; h]
      = Some (list_ascii_of_string "\definecolor{" ++ name ++ list_ascii_of_string "}{HTML}{" ++ h ++ [rbrace]).
Proof. exact (colourdef_sound templates colour_definition_names_colour). Qed.
Print Assumptions C15_colour_definition_names_colour.

(* [get_color]: every index handed out names its colour in the final table, the table only grows
   and has no duplicate *)
Theorem C15_interning : forall cs tbl tbl' js,
  intern_all String.eqb tbl cs = (tbl', js) ->
  (exists ext, tbl' = tbl ++ ext) /\
  Forall2 (fun c j => nth_error tbl' j = Some c) cs js /\
  (NoDup tbl -> NoDup tbl').
Proof. exact (intern_all_spec string String.eqb String.eqb_spec). Qed.
Print Assumptions C15_interning.

(* every colour index a statement uses is below the number of colours defined, and the colour
   definitions -- emitted before \begin{tikzpicture} -- contain a line for that index with the
   colour of that statement *)
Theorem C15_colours_defined_before_use : forall ems tbl ss,
  assign [] ems = (tbl, ss) ->
  skeleton = [SkSite SDefs; SkEachColour [SColourDef]; SkSite SBegin;
              SkEachLayer [LSite SComment; LBody]; SkSite SEnd; SkSite STrailer]
  /\ forall s i, In (s, Some i) ss ->
       i < length tbl /\
       exists c, s_colour s = Some c /\ In (i, c) (enumerate_from 0 tbl).
Proof. exact colours_defined_before_use. Qed.
Print Assumptions C15_colours_defined_before_use.

Theorem C15_colour_lines : forall tpls layers vertical tbl ss t,
  site_entry tpls vertical SColourDef = Some t ->
  walk_skel tpls layers vertical tbl ss (SkEachColour [SColourDef])
  = Some (map (fun ih : nat * string => (t, Some (fst ih), Some (snd ih))) (enumerate_from 0 tbl)).
Proof. exact colour_lines. Qed.
Print Assumptions C15_colour_lines.

(* after the propagation a node's colour is that of its nearest coloured ancestor-or-self, none if
   there is none ([scope_spec] in Proofs/ColourProofs.v); the same holds for the loss pseudo-genes
   on the lineage of a node *)
Theorem C15_colour_scope : forall (A : Type) (t : rose (option A)) p,
  get t p <> None -> scope_spec t p (node_colour t p).
Proof. exact colour_scope. Qed.
Print Assumptions C15_colour_scope.

Theorem C15_pseudo_colour_scope : forall (A : Type) (t : rose (option A)) p,
  get t p <> None -> scope_spec t p (pseudo_colour t p).
Proof. exact pseudo_colour_scope. Qed.
Print Assumptions C15_pseudo_colour_scope.

Theorem C15_scope_spec_functional : forall (A : Type) (t : rose (option A)) p r1 r2,
  scope_spec t p r1 -> scope_spec t p r2 -> r1 = r2.
Proof. exact scope_spec_functional. Qed.
Print Assumptions C15_scope_spec_functional.

(* the loop before fix D8: in (((a1,(b1,b2)B[blue])P,a2)A[red],c1)R the leaf a2 loses its colour *)
Theorem C15_nested_colour_refuted :
  get (old_colours nested_example) [0; 1] = Some None
  /\ node_colour nested_example [0; 1] = Some 1
  /\ get (old_colours nested_example) [0; 0; 1; 0] = Some (Some 2)
  /\ node_colour nested_example [0; 0; 1; 0] = Some 2.
Proof. exact nested_colour_refuted. Qed.
Print Assumptions C15_nested_colour_refuted.

(** ** Escaping *)

(* the two sequential [replace] calls equal the character-wise map  \ -> \\ , _ -> \_ *)
Theorem C15_escape_spec : forall s, escape s = flat_map esc_char s.
Proof. exact escape_spec. Qed.
Print Assumptions C15_escape_spec.

Theorem C15_unescape_escape : forall s, unescape (escape s) = Some s.
Proof. exact unescape_escape. Qed.
Print Assumptions C15_unescape_escape.

Theorem C15_escape_injective : forall a b, escape a = escape b -> a = b.
Proof. exact escape_injective. Qed.
Print Assumptions C15_escape_injective.

Theorem C15_escape_keeps_braces : forall s d, scan (escape s) d = scan s d.
Proof. exact escape_scan. Qed.
Print Assumptions C15_escape_keeps_braces.

(* the other order of the two calls would escape an underscore twice *)
Theorem C15_escape_swapped_refuted :
  escape_swapped [us] = [bs; bs; us] /\ escape [us] = [bs; us].
Proof. exact escape_swapped_refuted. Qed.
Print Assumptions C15_escape_swapped_refuted.

(** ** Labels *)

(* a displayed synteny label is the escaped families, in order, joined by ", ", with some spaces
   turned into line breaks; it has as many lines as greedy wrapping at the wrap width and no line
   exceeds the width unless it is a single word *)
Theorem C15_label_lists_families : forall w fams, 1 <= w -> fams <> [] -> Forall name_ok fams ->
  exists lines,
    synteny_text (Some w) (Some fams) = Some (join_with bsbs lines)
    /\ join_with [sp] lines = join_with comma_sp (map escape fams)
    /\ length lines = length (greedy w (add_commas (map escape fams)))
    /\ Forall (fun l => length l <= w \/ ~ In sp l) lines.
Proof. exact label_lists_families. Qed.
Print Assumptions C15_label_lists_families.

Theorem C15_label_unwrapped : forall fams, Forall name_ok fams ->
  synteny_text None (Some fams) = Some (join_with comma_sp (map escape fams)).
Proof. exact label_unwrapped. Qed.
Print Assumptions C15_label_unwrapped.

(* an ancestral label is omitted exactly when the synteny equals the parent's *)
Theorem C15_label_omitted_iff : forall width name syn psyn st,
  synteny_text width syn = Some st ->
  node_label width false name syn psyn = Some (if syn_eqb syn psyn then [] else st)
  /\ (syn_eqb syn psyn = true <-> syn = psyn).
Proof. exact label_omitted_iff. Qed.
Print Assumptions C15_label_omitted_iff.

Theorem C15_leaf_label_shown : forall width name syn psyn c st,
  synteny_text width syn = Some (c :: st) ->
  node_label width true name syn psyn = Some (c :: st).
Proof. exact leaf_label_shown. Qed.
Print Assumptions C15_leaf_label_shown.

(** ** Wrapping *)

(* on a text of non-empty, space-free words separated by single spaces the chunks are the words *)
Theorem C15_words_of_join : forall ws, Forall word_ok ws -> words_of (join_with [sp] ws) = ws.
Proof. exact words_of_join. Qed.
Print Assumptions C15_words_of_join.

Theorem C15_balanced_wrap_text : forall w ws, 1 <= w -> ws <> [] -> Forall word_ok ws ->
  balanced_wrap (join_with [sp] ws) w
  = Some (join_with [nl] (map line_text (balanced_wrap_lines w ws))).
Proof. exact balanced_wrap_text. Qed.
Print Assumptions C15_balanced_wrap_text.

Theorem C15_wrap_keeps_words : forall w ws, 1 <= w -> concat (balanced_wrap_lines w ws) = ws.
Proof. exact wrap_keeps_words. Qed.
Print Assumptions C15_wrap_keeps_words.

Theorem C15_wrap_text_keeps_words : forall w ws, 1 <= w ->
  join_with [sp] (map line_text (balanced_wrap_lines w ws)) = join_with [sp] ws.
Proof. exact wrap_text_keeps_words. Qed.
Print Assumptions C15_wrap_text_keeps_words.

(* no line exceeds the width unless it is a single word *)
Theorem C15_wrap_width : forall w ws, 1 <= w ->
  Forall (fun l => line_len l <= w \/ exists x, l = [x]) (balanced_wrap_lines w ws).
Proof. exact wrap_width. Qed.
Print Assumptions C15_wrap_width.

Theorem C15_greedy_width : forall w ws,
  Forall (fun l => line_len l <= w \/ exists x, l = [x]) (greedy w ws).
Proof. exact greedy_width. Qed.
Print Assumptions C15_greedy_width.

(* exactly as many lines as greedy wrapping at the requested width (hence no more) *)
Theorem C15_wrap_lines_eq_greedy : forall w ws, 1 <= w ->
  length (balanced_wrap_lines w ws) = length (greedy w ws).
Proof. exact wrap_lines_eq_greedy. Qed.
Print Assumptions C15_wrap_lines_eq_greedy.

Theorem C15_wrap_empty : forall w, balanced_wrap [] w = Some [] /\ greedy w [] = [].
Proof. exact wrap_empty. Qed.
Print Assumptions C15_wrap_empty.

(* the loop returns the greedy wrapping for one of the widths it tried (from the requested width
   downwards while the number of lines is unchanged), of minimal badness among them *)
Theorem C15_balanced_wrap_badness : forall w ws, 1 <= w ->
  exists w', tried w ws w' /\
    balanced_wrap_lines w ws = greedy w' ws /\
    forall v, tried w ws v -> badness (balanced_wrap_lines w ws) <= badness (greedy v ws).
Proof. exact balanced_wrap_badness. Qed.
Print Assumptions C15_balanced_wrap_badness.

(** ** Non-vacuity: concrete instances of the hypotheses *)
Example C15_example_template :
  exists e, In e templates /\ is_stmt (e_site e) = true /\
    inst (e_items e) (map los ["reccolor1"; "12.5,3"; "a\_1,\\b"]%string)
    = Some (los "\node[speciation={reccolor1}] at (12.5,3) {a\_1,\\b};").
Proof.
  exists (nth 17 templates (mkEntry 0 "" SDefs [] [])). split; [| split].
  - apply nth_In. vm_compute. repeat constructor.
  - reflexivity.
  - reflexivity.
Qed.

(* a whole drawing: object tree ((a_1,b_1[green])x[red],c_1)r with syntenies in the species tree
   ((A sp,B)X_1,C)R, vertical, wrap widths 6 and 3 -- a speciation, a duplication, four leaves, a
   transfer and a loss; every coordinate is 12.5,-3 and every parameter 2pt.  The kernel evaluates
   [render_full], the 33 lines of text, the brace scan of the whole text and the count of \begin{ *)
Example C15_example_render :
  tree_ok ex_tree
  /\ Forall (fun s : bool * string * list rbranch => brace_free (los (snd (fst s)))) ex_spp
  /\ exists ols lines,
       render_full templates skeleton layer_names true (Some 6) (Some 3) ex_tree ex_spp = Some ols
       /\ Forall (Forall brace_free) (ex_frees ols)
       /\ text_lines templates ols (ex_frees ols) = Some lines
       /\ length lines = 33
       /\ nth_error lines 2 = Some (los "\definecolor{reccolor1}{HTML}{FF0000}")
       /\ nth_error lines 8 = Some (los "\path[species background, rounded corners={2pt}] (12.5,-3) -- (12.5,-3) -- node[species label] {A\\sp} (12.5,-3) -- (12.5,-3);")
       /\ nth_error lines 24 = Some (los "\node[speciation={reccolor0}] at (12.5,-3) {f1,\\g\_2,\\h\\3};")
       /\ nth_error lines 26 = Some (los "\node[extant gene={reccolor1}{a\textsubscript{1}}] at (12.5,-3) {};")
       /\ scan (join_with [nl] lines) 0 = Some 0
       /\ occ (los "\begin{") (join_with [nl] lines) = 1.
Proof. exact render_example. Qed.

Example C15_example_label :
  option_map sol (synteny_text (Some 9) (Some (map los ["a_1"; "b\c"; "dd"; "e"]%string)))
  = Some "a\_1,\\b\\c,\\dd, e"%string
  /\ Forall name_ok (map los ["a_1"; "b\c"; "dd"; "e"]%string).
Proof.
  split; [reflexivity |].
  repeat constructor; try discriminate; intro H; simpl in H; repeat (destruct H as [H | H]; [discriminate H |]); exact H.
Qed.

Example C15_example_wrap :
  balanced_wrap_s "aa, bb, cc, dd" 9 = Some (String.concat (String "010"%char EmptyString) ["aa, bb,"; "cc, dd"]%string)
  /\ tw_wrap_s "a bcdefghij k" 3 = Some ["a"; "bcdefghij"; "k"]%string
  /\ tried 9 (map los ["aa,"; "bb,"; "cc,"; "dd"]%string) 7.
Proof.
  split; [reflexivity |]. split; [reflexivity |].
  split; [split; repeat constructor |].
  intros u [H1 H2].
  assert (Hu : u = 7 \/ u = 8 \/ u = 9).
  { destruct (Nat.eq_dec u 7); [auto |]. destruct (Nat.eq_dec u 8); [auto |]. right. right.
    apply Nat.le_antisymm; [exact H2 |].
    apply Nat.le_succ_l. apply Nat.le_neq. split; [| auto].
    apply Nat.le_succ_l. apply Nat.le_neq. split; [exact H1 | auto]. }
  destruct Hu as [-> | [-> | ->]]; reflexivity.
Qed.

Example C15_example_colour :
  node_colour nested_example [0; 0; 0] = Some 1 /\ node_colour nested_example [1] = None
  /\ intern_all Nat.eqb [] [5; 7; 5; 9; 7] = ([5; 7; 9], [0; 1; 0; 2; 1]).
Proof. repeat split. Qed.

(* ---- closing corollaries added after the independent review (DESIGN 10.3): the lemmas are in Proofs/ReviewC*.v ---- *)

From SR Require Import Proofs.ReviewCEscape. Import ReviewCEscape.PartF.

Theorem C15_species_label_escapes :
  forall name : str, species_label None name = Some (escape name).
Proof. exact @species_label_escapes. Qed.
Print Assumptions C15_species_label_escapes.

Theorem C15_species_label_wrapped_escapes :
  forall (w : nat) (name : str),
       species_label (Some w) name = option_map (replace1 nl bsbs) (balanced_wrap (escape name) w).
Proof. exact @species_label_wrapped_escapes. Qed.
Print Assumptions C15_species_label_wrapped_escapes.

Theorem C15_leaf_label_escapes :
  forall (width : option nat) (name : str) (syn psyn : option (list str)) (a b : str),
       synteny_text width syn = Some [] ->
       rsplit_us name = Some (a, b) ->
       node_label width true name syn psyn = Some (escape a ++ textsub ++ escape b ++ [rbrace]).
Proof. exact @leaf_label_escapes. Qed.
Print Assumptions C15_leaf_label_escapes.

Theorem C15_leaf_label_synteny_escapes :
  forall (width : option nat) (name : str) (fams : list str) (psyn : option (list str))
         (c : ascii) (st : str),
       option_map (replace1 nl bsbs) (format_synteny (map escape fams) width) = Some (c :: st) ->
       node_label width true name (Some fams) psyn = Some (c :: st).
Proof. exact @leaf_label_synteny_escapes. Qed.
Print Assumptions C15_leaf_label_synteny_escapes.

