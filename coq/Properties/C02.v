(** C02 — ordered super-reconciliation (placeholder statements are added as proofs land). *)
From SR Require Import Model.Spfs.
