(** C02 — ordered super-reconciliation returns a minimum-cost labelled reconciliation.
    Statements only; proofs are [exact <lemma of Proofs/SpfsProofs.v, Proofs/SpfsFinal.v>].

    [spfs S c rp extended orders O]: model of [_spfs] (extended = true: ESPFS, false: base SPFS)
    run on the root orderings [orders]; [None] would mean that decoding or the evaluator raised.
    [valid_ordered S ord O lt]: lt has the shape of O, leaves on their species with exactly their
    input syntenies, species of S only, no invalid event, every child synteny a subsequence of its
    parent's, root synteny = ord.  [cost_of c O lt]: the evaluator's total cost (C06).
    [coherent_ord c]: spe + 2*sloss <= dup + 2*floss, 0 <= floss, 0 <= sloss (F-COHERENCE). *)
From Coq Require Import List Bool ZArith NArith.
From SR Require Import Base.PathB Base.Ext Model.Subseq Model.Entry Model.Recon Model.LcaRec Model.Thl Model.Spfs
  Proofs.SubseqProofs Proofs.PathFacts Proofs.ReconProofs Proofs.ThlProofs Proofs.SpfsProofs Proofs.SpfsFinal.
Import ListNotations.
Local Open Scope Z_scope.

(* the solver never fails on well-formed orders (duplicate-free, every leaf synteny a non-empty subsequence) *)
Theorem C02_spfs_returns : forall S c rp extended orders O, nn (c_hgt c) -> orders_ok S O orders ->
  exists e, spfs S c rp extended orders O = Some e.
Proof. exact spfs_returns. Qed.

(* extended solver: exactly the minimum over the root orders, all species mappings and all labellings *)
Theorem C02_ext_spfs_optimum : forall S c orders O e, nn (c_hgt c) -> coherent_ord c -> orders_ok S O orders ->
  spfs S c RALL true orders O = Some e ->
  forall lt, In lt (tags e) <->
    ((exists ord, In ord orders /\ valid_ordered S ord O lt) /\
     forall lt' ord', In ord' orders -> valid_ordered S ord' O lt' -> ele (cost_of c O lt) (cost_of c O lt')).
Proof. exact ext_spfs_optimum. Qed.

(* base solver: the minimum among the solutions that use the LCA species mapping *)
Theorem C02_base_spfs_optimum : forall S c orders O e, nn (c_hgt c) -> coherent_ord c -> orders_ok S O orders ->
  spfs S c RALL false orders O = Some e ->
  forall lt, In lt (tags e) <->
    ((exists ord, In ord orders /\ valid_ordered S ord O lt /\ forget lt = lca_rec O) /\
     forall lt' ord', In ord' orders -> valid_ordered S ord' O lt' -> forget lt' = lca_rec O ->
       ele (cost_of c O lt) (cost_of c O lt')).
Proof. exact base_spfs_optimum. Qed.

(* empty exactly when no root order is compatible with all leaves (no hypothesis on the unit costs) *)
Theorem C02_spfs_empty_iff : forall S c rp extended orders O e, nn (c_hgt c) -> orders_ok S O orders -> rp <> RNONE ->
  (forall ord, In ord orders -> root_fits O ord) ->
  spfs S c rp extended orders O = Some e -> (tags e = [] <-> orders = []).
Proof. exact spfs_empty_iff. Qed.

(* the root orders the solver enumerates ([_make_prec_graph] + [toposort_all]) are exactly the compatible ones,
   and on them the solver returns exactly the optimal solutions, nothing when there is none *)
Theorem C02_root_orders_spec : forall O orders, Spfs.root_orders O = Some orders ->
  forall ord, In ord orders <-> compatible_order O ord.
Proof. exact root_orders_spec. Qed.

Theorem C02_spfs_root_orders_optimum : forall S c extended O, nn (c_hgt c) -> coherent_ord c -> leaves_wf S O ->
  exists orders e, Spfs.root_orders O = Some orders /\ spfs S c RALL extended orders O = Some e /\
    (forall lt, In lt (tags e) <-> optimal_sol S c extended orders O lt) /\
    (tags e = [] <-> forall ord, ~ compatible_order O ord).
Proof. exact spfs_root_orders_optimum. Qed.

(* the table holds the clean recurrence; inside the region the optimiser's charge is the evaluator's *)
Theorem C02_table_value : forall S c rp extended ord, nn (c_hgt c) -> rp <> RNONE ->
  forall o, leaves_ord S ord o -> forall is_root k, val (sread (spfs_table S c rp extended ord is_root o) k) = Sval c S extended ord is_root o k.
Proof. exact stable_value. Qed.

Theorem C02_ocost_ecost_ord : forall c s m kl kr, coherent_ord c ->
  mask_ok (snd kl) m = true -> mask_ok (snd kr) m = true -> ocost_ord c s m kl kr = ecost_ord c s m kl kr.
Proof. exact ocost_ecost_ord. Qed.

Print Assumptions C02_spfs_returns.
Print Assumptions C02_ext_spfs_optimum.
Print Assumptions C02_base_spfs_optimum.
Print Assumptions C02_spfs_empty_iff.
Print Assumptions C02_root_orders_spec.
Print Assumptions C02_spfs_root_orders_optimum.
Print Assumptions C02_table_value.
Print Assumptions C02_ocost_ecost_ord.

(** ** the totalisation defaults are never taken (each lemma excludes one default) *)

(* [cost_of c O lt] is [total_cost c O true lt] with [None] (the evaluator's assertion fails) read as
   +inf.  The evaluator is defined on every valid labelling, so on every solution ([valid_ordered]
   contains [valid_lab]) [cost_of] is the evaluator's value, never the default ... *)
Theorem C02_evaluator_defined_on_valid : forall c S O t, valid_lab S O t -> exists v, total_cost c O true t = Some v.
Proof. exact total_cost_some. Qed.
Print Assumptions C02_evaluator_defined_on_valid.

(* ... and on every RETURNED solution it is the value of the result (any policy, any unit costs);
   that this value is finite is [C04_finite_ordered] *)
From SR Require Import Proofs.AllAnyProofs.
Theorem C02_returned_cost : forall S c rp extended orders O e lt, nn (c_hgt c) -> orders_ok S O orders ->
  spfs S c rp extended orders O = Some e -> In lt (tags e) ->
  total_cost c O true lt = Some (val e) /\ cost_of c O lt = val e.
Proof. exact spfs_returned_cost. Qed.
Print Assumptions C02_returned_cost.

(* [Spfs.root_orders O = None] would be a raised exception in [_make_prec_graph] / [toposort_all] (and
   [PolyProofs.orders_of] reads it as "no order").  It does not happen when every leaf synteny is
   non-empty: the enumeration returns a list (possibly empty: no compatible order), made of well-formed
   orders that fit the root *)
Theorem C02_root_orders_total : forall S O, leaves_wf S O -> exists orders, Spfs.root_orders O = Some orders.
Proof. exact root_orders_total. Qed.
Print Assumptions C02_root_orders_total.

Theorem C02_root_orders_ok : forall S O orders, leaves_wf S O -> Spfs.root_orders O = Some orders ->
  orders_ok S O orders /\ forall ord, In ord orders -> root_fits O ord.
Proof. exact root_orders_ok. Qed.
Print Assumptions C02_root_orders_ok.

(* [spfs ... = None] would be an IndexError while decoding or a failed assertion of the evaluator:
   [C02_spfs_returns] above excludes it for every policy and every cost vector *)

(* non-vacuity: [nn], [coherent_ord], [leaves_wf], the root orders, 3 / 1 optimal solutions *)
Example C02_example := spfs_example.

(* [orders_ok] itself, and a prescribed root order with a family no leaf carries *)
Example C02_example_orders :
  let S := SNode SLeaf (SNode SLeaf SLeaf) in
  let O := ONode (OLeaf [false] [1; 2]%N) (ONode (OLeaf [true; false] [2; 3]%N) (OLeaf [true; true] [1; 3]%N)) in
  let c := {| c_spe := 0; c_dup := 1; c_hgt := Fin 1; c_floss := 1; c_sloss := 1 |} in
  orders_ok S O [[1; 2; 3]%N] /\ orders_ok S O [[1; 4; 2; 3]%N] /\
  option_map (fun e => length (tags e)) (spfs S c RALL true [[1; 4; 2; 3]%N] O) = Some 3%nat.
Proof.
  cbv zeta. split; [|split; [|vm_compute; reflexivity]].
  - refine (proj1 (root_orders_ok _ _ _ _ _)); [cbn; repeat split; discriminate|vm_compute; reflexivity].
  - intros ord [<-|[]]. split.
    + repeat constructor; cbn; intuition discriminate.
    + cbn. repeat split; try discriminate; repeat constructor.
Qed.

(* ---- the tie to the source by translation: Gen/SpfsGen.v (regenerated from compute/super_reconciliation.py on every run) against Model/Spfs.v ---- *)

From SR Require Import Gen.SpfsGen Proofs.SpfsGenProofs.

Theorem C02_gen_sreconcile_extended_spfs_model :
  forall (lca node_id : Type) (nid_eqb : node_id -> node_id -> bool),
       (forall a b : node_id, reflect (a = b) (nid_eqb a b)) ->
       forall (lcaobj : lca) (S : stree) (c : costs) (leafsp : node_id -> path)
         (syn : node_id -> list fam) (O : EV.TreeNode node_id) (missing : node_id -> path)
         (missing_syn : node_id -> list fam) (ord_infos : list ca -> list ca)
         (oeqb : SG.spout_state -> SG.spout_state -> bool)
         (syn_mem : (node_id -> list fam) -> node_id -> bool)
         (syn_items : (node_id -> list fam) -> list (fam * list fam))
         (set_order : list fam -> list fam)
         (graph_of_prec : list (fam * list fam) -> list (fam * list fam))
         (find_cycle_fn : list (fam * list fam) -> list fam) (orders : list (list fam)),
       W nid_eqb S c leafsp syn O missing missing_syn ord_infos oeqb ->
       spfs_orders syn O syn_mem syn_items set_order graph_of_prec orders ->
       match spfs S c RALL true orders (EvalGenProofs.otree_of leafsp syn O) with
       | Some e =>
           exists outs : list SG.spout_state,
             SG.gen_sreconcile_extended_spfs fam_eqb path_eqb nid_eqb (fun _ : lca => anc)
               (fun _ : lca => lcp) (fun _ : lca => dist) (fun _ : lca => sembed3 S [])
               (fun _ : lca => sanc) (fun _ : lca => comparable) oeqb missing missing_syn ord_infos
               syn_mem syn_items set_order graph_of_prec find_cycle_fn
               {|
                 T3.EvalGen.sin_object_tree := O;
                 T3.EvalGen.sin_species_lca := lcaobj;
                 T3.EvalGen.sin_leaf_object_species := leafsp;
                 T3.EvalGen.sin_costs := EvalGenProofs.stsocc c;
                 T3.EvalGen.sin_leaf_syntenies := syn
               |} (EntryGenProofs.prc RALL) = SG.Ok outs /\
             Permutation.Permutation (map (lt_out nid_eqb O missing missing_syn) outs) (tags e) /\
             (outs = [] <-> tags e = [])
       | None =>
           SG.gen_sreconcile_extended_spfs fam_eqb path_eqb nid_eqb (fun _ : lca => anc)
             (fun _ : lca => lcp) (fun _ : lca => dist) (fun _ : lca => sembed3 S [])
             (fun _ : lca => sanc) (fun _ : lca => comparable) oeqb missing missing_syn ord_infos
             syn_mem syn_items set_order graph_of_prec find_cycle_fn
             {|
               T3.EvalGen.sin_object_tree := O;
               T3.EvalGen.sin_species_lca := lcaobj;
               T3.EvalGen.sin_leaf_object_species := leafsp;
               T3.EvalGen.sin_costs := EvalGenProofs.stsocc c;
               T3.EvalGen.sin_leaf_syntenies := syn
             |} (EntryGenProofs.prc RALL) = SG.Err SG.AssertionError
       end.
Proof. exact @gen_sreconcile_extended_spfs_model. Qed.
Print Assumptions C02_gen_sreconcile_extended_spfs_model.

Theorem C02_gen_sreconcile_base_spfs_model :
  forall (lca node_id : Type) (nid_eqb : node_id -> node_id -> bool),
       (forall a b : node_id, reflect (a = b) (nid_eqb a b)) ->
       forall (lcaobj : lca) (S : stree) (c : costs) (leafsp : node_id -> path)
         (syn : node_id -> list fam) (O : EV.TreeNode node_id) (missing : node_id -> path)
         (missing_syn : node_id -> list fam) (ord_infos : list ca -> list ca)
         (oeqb : SG.spout_state -> SG.spout_state -> bool)
         (syn_mem : (node_id -> list fam) -> node_id -> bool)
         (syn_items : (node_id -> list fam) -> list (fam * list fam))
         (set_order : list fam -> list fam)
         (graph_of_prec : list (fam * list fam) -> list (fam * list fam))
         (find_cycle_fn : list (fam * list fam) -> list fam) (orders : list (list fam)),
       W nid_eqb S c leafsp syn O missing missing_syn ord_infos oeqb ->
       spfs_orders syn O syn_mem syn_items set_order graph_of_prec orders ->
       match spfs S c RALL false orders (EvalGenProofs.otree_of leafsp syn O) with
       | Some e =>
           exists outs : list SG.spout_state,
             SG.gen_sreconcile_base_spfs fam_eqb path_eqb nid_eqb (fun _ : lca => anc)
               (fun _ : lca => lcp) (fun _ : lca => dist) (fun _ : lca => sembed3 S [])
               (fun _ : lca => sanc) (fun _ : lca => comparable) oeqb missing missing_syn ord_infos
               syn_mem syn_items set_order graph_of_prec find_cycle_fn
               {|
                 T3.EvalGen.sin_object_tree := O;
                 T3.EvalGen.sin_species_lca := lcaobj;
                 T3.EvalGen.sin_leaf_object_species := leafsp;
                 T3.EvalGen.sin_costs := EvalGenProofs.stsocc c;
                 T3.EvalGen.sin_leaf_syntenies := syn
               |} (EntryGenProofs.prc RALL) = SG.Ok outs /\
             Permutation.Permutation (map (lt_out nid_eqb O missing missing_syn) outs) (tags e) /\
             (outs = [] <-> tags e = [])
       | None =>
           SG.gen_sreconcile_base_spfs fam_eqb path_eqb nid_eqb (fun _ : lca => anc)
             (fun _ : lca => lcp) (fun _ : lca => dist) (fun _ : lca => sembed3 S [])
             (fun _ : lca => sanc) (fun _ : lca => comparable) oeqb missing missing_syn ord_infos
             syn_mem syn_items set_order graph_of_prec find_cycle_fn
             {|
               T3.EvalGen.sin_object_tree := O;
               T3.EvalGen.sin_species_lca := lcaobj;
               T3.EvalGen.sin_leaf_object_species := leafsp;
               T3.EvalGen.sin_costs := EvalGenProofs.stsocc c;
               T3.EvalGen.sin_leaf_syntenies := syn
             |} (EntryGenProofs.prc RALL) = SG.Err SG.AssertionError
       end.
Proof. exact @gen_sreconcile_base_spfs_model. Qed.
Print Assumptions C02_gen_sreconcile_base_spfs_model.

Theorem C02_gen_make_prec_graph_eq :
  forall items : list (nat * list nat),
       pcres (Stage1.P.gen_make_prec_graph Nat.eqb items) =
       Toposort.make_prec_graph (map snd items).
Proof. exact @gen_make_prec_graph_eq. Qed.
Print Assumptions C02_gen_make_prec_graph_eq.

Theorem C02_gen_root_orders_spec_perm :
  forall (o : otree) (ord sord : list nat -> list nat) (items : list (nat * list nat)),
       ToposortProofs.set_order ord ->
       ToposortProofs.set_order sord ->
       Permutation.Permutation (map snd items) (map (map N.to_nat) (leaf_syns o)) ->
       (forall s : list fam, In s (leaf_syns o) -> s <> []) ->
       exists (g : list (nat * list nat)) (R : list (list nat)) (orders : list (list fam)),
         Stage1.P.gen_make_prec_graph Nat.eqb items = Stage1.P.Ok g /\
         ToposortGenProofs.G.gen_toposort_all Nat.eqb ord (reorder sord g) =
         ToposortGenProofs.G.Ok R /\
         root_orders o = Some orders /\ Permutation.Permutation (map (map N.of_nat) R) orders.
Proof. exact @gen_root_orders_spec_perm. Qed.
Print Assumptions C02_gen_root_orders_spec_perm.

Theorem C02_gen_compute_spfs_table_extended :
  forall (lca node_id : Type) (nid_eqb : node_id -> node_id -> bool),
       (forall a b : node_id, reflect (a = b) (nid_eqb a b)) ->
       forall (lcaobj : lca) (S : stree) (c : costs) (leafsp : node_id -> path)
         (syn : node_id -> list fam) (O : EV.TreeNode node_id) (ord : list fam) 
         (rp : ret),
       nn (c_hgt c) ->
       NoDup (map EV.TreeNode_id (SG.TreeNode_postorder O)) ->
       leaves_valid S leafsp O ->
       exists tb : SG.TableGen.table_state SG.key ca,
         SG.gen_compute_spfs_table N.eqb path_eqb nid_eqb (fun _ : lca => anc)
           (fun _ : lca => dist) (fun _ : lca => sembed3 S [])
           {|
             T3.EvalGen.sin_object_tree := O;
             T3.EvalGen.sin_species_lca := lcaobj;
             T3.EvalGen.sin_leaf_object_species := leafsp;
             T3.EvalGen.sin_costs := EvalGenProofs.stsocc c;
             T3.EvalGen.sin_leaf_syntenies := syn
           |} ord species_ext (masks_cb nid_eqb O) (EntryGenProofs.prc rp) = 
         SG.Ok tb /\
         inv3 rp tb /\
         (forall u : SG.EvalGen.TreeNode node_id,
          In u (SG.TreeNode_postorder O) ->
          forall (s : path) (m : N),
          let cellM :=
            sread
              (spfs_table S c rp true ord (nid_eqb (EV.TreeNode_id u) (EV.TreeNode_id O))
                 (EvalGenProofs.otree_of leafsp syn u)) (s, m) in
          val (gsem3 nid_eqb tb (EV.TreeNode_id u) s m) = val cellM /\
          (tags (gsem3 nid_eqb tb (EV.TreeNode_id u) s m) = [] <-> tags cellM = []) /\
          (rp = RALL ->
           exists l : list stag,
             tags (gsem3 nid_eqb tb (EV.TreeNode_id u) s m) = map tag_ca l /\
             Permutation.Permutation l (tags cellM))).
Proof. exact @gen_compute_spfs_table_extended. Qed.
Print Assumptions C02_gen_compute_spfs_table_extended.

Theorem C02_gen_compute_spfs_table_base :
  forall (lca node_id : Type) (nid_eqb : node_id -> node_id -> bool),
       (forall a b : node_id, reflect (a = b) (nid_eqb a b)) ->
       forall (lcaobj : lca) (S : stree) (c : costs) (leafsp : node_id -> path)
         (syn : node_id -> list fam) (O : EV.TreeNode node_id) (ord : list fam) 
         (rp : ret) (d : list (node_id * path)),
       nn (c_hgt c) ->
       NoDup (map EV.TreeNode_id (SG.TreeNode_postorder O)) ->
       leaves_valid S leafsp O ->
       (forall u : SG.EvalGen.TreeNode node_id,
        In u (SG.TreeNode_postorder O) ->
        SG.dict_get nid_eqb d (EV.TreeNode_id u) =
        Some (root (lca_rec (EvalGenProofs.otree_of leafsp syn u)))) ->
       exists tb : SG.TableGen.table_state SG.key ca,
         SG.gen_compute_spfs_table N.eqb path_eqb nid_eqb (fun _ : lca => anc)
           (fun _ : lca => dist) (fun _ : lca => sembed3 S [])
           {|
             T3.EvalGen.sin_object_tree := O;
             T3.EvalGen.sin_species_lca := lcaobj;
             T3.EvalGen.sin_leaf_object_species := leafsp;
             T3.EvalGen.sin_costs := EvalGenProofs.stsocc c;
             T3.EvalGen.sin_leaf_syntenies := syn
           |} ord
           (fun (_ : SG.STree) (obj : SG.EvalGen.TreeNode node_id) =>
            SG.base_species path_eqb nid_eqb (sembed3 S []) d obj) (masks_cb nid_eqb O)
           (EntryGenProofs.prc rp) = SG.Ok tb /\
         inv3 rp tb /\
         (forall u : SG.EvalGen.TreeNode node_id,
          In u (SG.TreeNode_postorder O) ->
          forall (s : path) (m : N),
          let cellM :=
            sread
              (spfs_table S c rp false ord (nid_eqb (EV.TreeNode_id u) (EV.TreeNode_id O))
                 (EvalGenProofs.otree_of leafsp syn u)) (s, m) in
          val (gsem3 nid_eqb tb (EV.TreeNode_id u) s m) = val cellM /\
          (tags (gsem3 nid_eqb tb (EV.TreeNode_id u) s m) = [] <-> tags cellM = []) /\
          (rp = RALL ->
           exists l : list stag,
             tags (gsem3 nid_eqb tb (EV.TreeNode_id u) s m) = map tag_ca l /\
             Permutation.Permutation l (tags cellM))).
Proof. exact @gen_compute_spfs_table_base. Qed.
Print Assumptions C02_gen_compute_spfs_table_base.

Theorem C02_gen_compute_spfs_entry_eq :
  forall (lca node_id : Type) (nid_eqb : node_id -> node_id -> bool),
       (forall a b : node_id, reflect (a = b) (nid_eqb a b)) ->
       forall (lcaobj : lca) (rp : ret) (S : stree) (c : costs) (rs ST : SG.STree) 
         (m : N) (nid : node_id) (L R : EV.TreeNode node_id) (tb : TG.table_state SG.key ca)
         (e0 : entry stag) (MLL MLR : path -> list N),
       rs_ok S rs ->
       inv3 rp tb ->
       (forall x : path, gkeys nid_eqb tb (EV.TreeNode_id L) x = map km (MLL x)) ->
       (forall x : path, gkeys nid_eqb tb (EV.TreeNode_id R) x = map km (MLR x)) ->
       gsem3 nid_eqb tb nid (SG.STree_id rs) m = ThlGenProofs.emap tag_ca e0 ->
       let batch :=
         sbatch_o S c rp (sub_of nid_eqb tb (EV.TreeNode_id L))
           (sub_of nid_eqb tb (EV.TreeNode_id R)) (kl MLL (sids3 (SG.STree_levelorder ST)))
           (kl MLR (sids3 (SG.STree_levelorder ST))) (SG.STree_id rs) m in
       exists tb' : SG.TableGen.table_state SG.key ca,
         SG.gen_compute_spfs_entry path_eqb nid_eqb (fun _ : lca => anc) 
           (fun _ : lca => dist) (fun _ : lca => ST) lcaobj rs m (EV.TreeNode_node nid L R) tb
           (EvalGenProofs.stsocc c) = SG.Ok (tb', tt) /\
         inv3 rp tb' /\
         gsem3 nid_eqb tb' nid (SG.STree_id rs) m =
         ThlGenProofs.emap tag_ca (cell_upd3 rp e0 batch) /\
         (forall (n : node_id) (x : path) (m' : N),
          (n, x, m') <> (nid, SG.STree_id rs, m) ->
          gsem3 nid_eqb tb' n x m' = gsem3 nid_eqb tb n x m') /\
         (forall (n : node_id) (x : path),
          (n, x) <> (nid, SG.STree_id rs) -> gkeys nid_eqb tb' n x = gkeys nid_eqb tb n x) /\
         gkeys nid_eqb tb' nid (SG.STree_id rs) =
         (if
           has_finite batch &&
           negb
             (existsb (SG.key_eqb path_eqb nid_eqb (km m)) (gkeys nid_eqb tb nid (SG.STree_id rs)))
          then gkeys nid_eqb tb nid (SG.STree_id rs) ++ [km m]
          else gkeys nid_eqb tb nid (SG.STree_id rs)).
Proof. exact @gen_compute_spfs_entry_eq. Qed.
Print Assumptions C02_gen_compute_spfs_entry_eq.


(* ---- closing corollaries added after the independent review (DESIGN 10.3): the lemmas are in Proofs/ReviewC*.v ---- *)

From SR Require Import Proofs.ReviewCModels Proofs.ReviewCSpfsOpt Proofs.ReviewCSpfsAny. Import ReviewCModels.PartA ReviewCSpfsOpt.PartB_C02 ReviewCSpfsAny.PartCspfs.

Theorem C02_c02_any :
  forall (S : stree) (c : costs) (extended : bool) (orders : list (list fam)) (O : otree),
       nn (c_hgt c) ->
       orders_ok S O orders ->
       coherent_ord c ->
       exists e : entry ltree,
         spfs S c RANY extended orders O = Some e /\
         (tags e = [] /\ (forall lt : ltree, ~ sol S extended orders O lt) \/
          (exists lt : ltree, tags e = [lt] /\ optimal_sol S c extended orders O lt)).
Proof. exact @c02_any. Qed.
Print Assumptions C02_c02_any.

Theorem C02_c02_all_exact :
  forall (S : stree) (c : costs) (extended : bool) (orders : list (list fam)) (O : otree),
       nn (c_hgt c) ->
       orders_ok S O orders ->
       coherent_ord c ->
       forall e : entry ltree,
       spfs S c RALL extended orders O = Some e ->
       forall lt : ltree, In lt (tags e) <-> optimal_sol S c extended orders O lt.
Proof. exact @c02_all_exact. Qed.
Print Assumptions C02_c02_all_exact.

Theorem C02_stage1_orders :
  forall (node_id : Type) (S : stree) (leafsp : node_id -> path) (syn : node_id -> list fam)
         (O : EV.TreeNode node_id) (syn_mem : (node_id -> list fam) -> node_id -> bool)
         (syn_items : (node_id -> list fam) -> list (fam * list fam))
         (set_order : list fam -> list fam)
         (graph_of_prec : list (fam * list fam) -> list (fam * list fam)),
       stage1_hyps S leafsp syn O syn_mem syn_items set_order graph_of_prec ->
       exists orders ro : list (list fam),
         spfs_orders syn O syn_mem syn_items set_order graph_of_prec orders /\
         root_orders (EvalGenProofs.otree_of leafsp syn O) = Some ro /\
         Permutation.Permutation orders ro.
Proof. exact @stage1_orders. Qed.
Print Assumptions C02_stage1_orders.

Theorem C02_c02_gen_extended_optimum :
  forall (lca node_id : Type) (nid_eqb : node_id -> node_id -> bool),
       (forall a b : node_id, reflect (a = b) (nid_eqb a b)) ->
       forall (lcaobj : lca) (S : stree) (c : costs) (leafsp : node_id -> path)
         (syn : node_id -> list fam) (O : EV.TreeNode node_id) (missing : node_id -> path)
         (missing_syn : node_id -> list fam) (ord_infos : list ca -> list ca)
         (oeqb : SG.spout_state -> SG.spout_state -> bool)
         (syn_mem : (node_id -> list fam) -> node_id -> bool)
         (syn_items : (node_id -> list fam) -> list (fam * list fam))
         (set_order : list fam -> list fam)
         (graph_of_prec : list (fam * list fam) -> list (fam * list fam))
         (find_cycle_fn : list (fam * list fam) -> list fam),
       W nid_eqb S c leafsp syn O missing missing_syn ord_infos oeqb ->
       coherent_ord c ->
       stage1_hyps S leafsp syn O syn_mem syn_items set_order graph_of_prec ->
       exists outs : list SG.spout_state,
         SG.gen_sreconcile_extended_spfs fam_eqb path_eqb nid_eqb (fun _ : lca => anc)
           (fun _ : lca => lcp) (fun _ : lca => dist) (fun _ : lca => sembed3 S [])
           (fun _ : lca => sanc) (fun _ : lca => comparable) oeqb missing missing_syn ord_infos
           syn_mem syn_items set_order graph_of_prec find_cycle_fn
           {|
             T3.EvalGen.sin_object_tree := O;
             T3.EvalGen.sin_species_lca := lcaobj;
             T3.EvalGen.sin_leaf_object_species := leafsp;
             T3.EvalGen.sin_costs := EvalGenProofs.stsocc c;
             T3.EvalGen.sin_leaf_syntenies := syn
           |} (EntryGenProofs.prc RALL) = SG.Ok outs /\
         NoDup (map (lt_out nid_eqb O missing missing_syn) outs) /\
         (forall lt : ltree,
          In lt (map (lt_out nid_eqb O missing missing_syn) outs) <->
          ext_min S c leafsp syn O (compatible_order (EvalGenProofs.otree_of leafsp syn O)) lt) /\
         (outs = [] <->
          (forall ord : list fam, ~ compatible_order (EvalGenProofs.otree_of leafsp syn O) ord)).
Proof. exact @c02_gen_extended_optimum. Qed.
Print Assumptions C02_c02_gen_extended_optimum.

Theorem C02_c02_gen_base_optimum :
  forall (lca node_id : Type) (nid_eqb : node_id -> node_id -> bool),
       (forall a b : node_id, reflect (a = b) (nid_eqb a b)) ->
       forall (lcaobj : lca) (S : stree) (c : costs) (leafsp : node_id -> path)
         (syn : node_id -> list fam) (O : EV.TreeNode node_id) (missing : node_id -> path)
         (missing_syn : node_id -> list fam) (ord_infos : list ca -> list ca)
         (oeqb : SG.spout_state -> SG.spout_state -> bool)
         (syn_mem : (node_id -> list fam) -> node_id -> bool)
         (syn_items : (node_id -> list fam) -> list (fam * list fam))
         (set_order : list fam -> list fam)
         (graph_of_prec : list (fam * list fam) -> list (fam * list fam))
         (find_cycle_fn : list (fam * list fam) -> list fam),
       W nid_eqb S c leafsp syn O missing missing_syn ord_infos oeqb ->
       coherent_ord c ->
       stage1_hyps S leafsp syn O syn_mem syn_items set_order graph_of_prec ->
       exists outs : list SG.spout_state,
         SG.gen_sreconcile_base_spfs fam_eqb path_eqb nid_eqb (fun _ : lca => anc)
           (fun _ : lca => lcp) (fun _ : lca => dist) (fun _ : lca => sembed3 S [])
           (fun _ : lca => sanc) (fun _ : lca => comparable) oeqb missing missing_syn ord_infos
           syn_mem syn_items set_order graph_of_prec find_cycle_fn
           {|
             T3.EvalGen.sin_object_tree := O;
             T3.EvalGen.sin_species_lca := lcaobj;
             T3.EvalGen.sin_leaf_object_species := leafsp;
             T3.EvalGen.sin_costs := EvalGenProofs.stsocc c;
             T3.EvalGen.sin_leaf_syntenies := syn
           |} (EntryGenProofs.prc RALL) = SG.Ok outs /\
         NoDup (map (lt_out nid_eqb O missing missing_syn) outs) /\
         (forall lt : ltree,
          In lt (map (lt_out nid_eqb O missing missing_syn) outs) <->
          base_min S c leafsp syn O (compatible_order (EvalGenProofs.otree_of leafsp syn O)) lt) /\
         (outs = [] <->
          (forall ord : list fam, ~ compatible_order (EvalGenProofs.otree_of leafsp syn O) ord)).
Proof. exact @c02_gen_base_optimum. Qed.
Print Assumptions C02_c02_gen_base_optimum.

Theorem C02_c02_gen_extended_optimum_orders :
  forall (lca node_id : Type) (nid_eqb : node_id -> node_id -> bool),
       (forall a b : node_id, reflect (a = b) (nid_eqb a b)) ->
       forall (lcaobj : lca) (S : stree) (c : costs) (leafsp : node_id -> path)
         (syn : node_id -> list fam) (O : EV.TreeNode node_id) (missing : node_id -> path)
         (missing_syn : node_id -> list fam) (ord_infos : list ca -> list ca)
         (oeqb : SG.spout_state -> SG.spout_state -> bool)
         (syn_mem : (node_id -> list fam) -> node_id -> bool)
         (syn_items : (node_id -> list fam) -> list (fam * list fam))
         (set_order : list fam -> list fam)
         (graph_of_prec : list (fam * list fam) -> list (fam * list fam))
         (find_cycle_fn : list (fam * list fam) -> list fam) (orders : list (list fam)),
       W nid_eqb S c leafsp syn O missing missing_syn ord_infos oeqb ->
       coherent_ord c ->
       spfs_orders syn O syn_mem syn_items set_order graph_of_prec orders ->
       orders_ok S (EvalGenProofs.otree_of leafsp syn O) orders ->
       exists outs : list SG.spout_state,
         SG.gen_sreconcile_extended_spfs fam_eqb path_eqb nid_eqb (fun _ : lca => anc)
           (fun _ : lca => lcp) (fun _ : lca => dist) (fun _ : lca => sembed3 S [])
           (fun _ : lca => sanc) (fun _ : lca => comparable) oeqb missing missing_syn ord_infos
           syn_mem syn_items set_order graph_of_prec find_cycle_fn
           {|
             T3.EvalGen.sin_object_tree := O;
             T3.EvalGen.sin_species_lca := lcaobj;
             T3.EvalGen.sin_leaf_object_species := leafsp;
             T3.EvalGen.sin_costs := EvalGenProofs.stsocc c;
             T3.EvalGen.sin_leaf_syntenies := syn
           |} (EntryGenProofs.prc RALL) = SG.Ok outs /\
         NoDup (map (lt_out nid_eqb O missing missing_syn) outs) /\
         (forall lt : ltree,
          In lt (map (lt_out nid_eqb O missing missing_syn) outs) <->
          ext_min S c leafsp syn O (fun ord : list fam => In ord orders) lt).
Proof. exact @c02_gen_extended_optimum_orders. Qed.
Print Assumptions C02_c02_gen_extended_optimum_orders.

Theorem C02_gen_sreconcile_extended_spfs_any :
  forall (lca node_id : Type) (nid_eqb : node_id -> node_id -> bool),
       (forall a b : node_id, reflect (a = b) (nid_eqb a b)) ->
       forall (lcaobj : lca) (S : stree) (c : costs) (leafsp : node_id -> path)
         (syn : node_id -> list fam) (O : EV.TreeNode node_id) (missing : node_id -> path)
         (missing_syn : node_id -> list fam) (ord_infos : list ca -> list ca)
         (oeqb : SG.spout_state -> SG.spout_state -> bool)
         (syn_mem : (node_id -> list fam) -> node_id -> bool)
         (syn_items : (node_id -> list fam) -> list (fam * list fam))
         (set_order : list fam -> list fam)
         (graph_of_prec : list (fam * list fam) -> list (fam * list fam))
         (find_cycle_fn : list (fam * list fam) -> list fam) (orders : list (list fam))
         (e : entry ltree),
       W nid_eqb S c leafsp syn O missing missing_syn ord_infos oeqb ->
       spfs_orders syn O syn_mem syn_items set_order graph_of_prec orders ->
       orders_ok S (EvalGenProofs.otree_of leafsp syn O) orders ->
       coherent_ord c ->
       spfs S c RALL true orders (EvalGenProofs.otree_of leafsp syn O) = Some e ->
       exists outs : list SG.spout_state,
         SG.gen_sreconcile_extended_spfs fam_eqb path_eqb nid_eqb (fun _ : lca => anc)
           (fun _ : lca => lcp) (fun _ : lca => dist) (fun _ : lca => sembed3 S [])
           (fun _ : lca => sanc) (fun _ : lca => comparable) oeqb missing missing_syn ord_infos
           syn_mem syn_items set_order graph_of_prec find_cycle_fn
           {|
             T3.EvalGen.sin_object_tree := O;
             T3.EvalGen.sin_species_lca := lcaobj;
             T3.EvalGen.sin_leaf_object_species := leafsp;
             T3.EvalGen.sin_costs := EvalGenProofs.stsocc c;
             T3.EvalGen.sin_leaf_syntenies := syn
           |} (EntryGenProofs.prc RANY) = SG.Ok outs /\
         (outs = [] \/
          (exists o : SG.spout_state,
             outs = [o] /\ In (lt_out nid_eqb O missing missing_syn o) (tags e))) /\
         (outs = [] <-> tags e = []).
Proof. exact @gen_sreconcile_extended_spfs_any. Qed.
Print Assumptions C02_gen_sreconcile_extended_spfs_any.

Theorem C02_gen_sreconcile_base_spfs_any :
  forall (lca node_id : Type) (nid_eqb : node_id -> node_id -> bool),
       (forall a b : node_id, reflect (a = b) (nid_eqb a b)) ->
       forall (lcaobj : lca) (S : stree) (c : costs) (leafsp : node_id -> path)
         (syn : node_id -> list fam) (O : EV.TreeNode node_id) (missing : node_id -> path)
         (missing_syn : node_id -> list fam) (ord_infos : list ca -> list ca)
         (oeqb : SG.spout_state -> SG.spout_state -> bool)
         (syn_mem : (node_id -> list fam) -> node_id -> bool)
         (syn_items : (node_id -> list fam) -> list (fam * list fam))
         (set_order : list fam -> list fam)
         (graph_of_prec : list (fam * list fam) -> list (fam * list fam))
         (find_cycle_fn : list (fam * list fam) -> list fam) (orders : list (list fam))
         (e : entry ltree),
       W nid_eqb S c leafsp syn O missing missing_syn ord_infos oeqb ->
       spfs_orders syn O syn_mem syn_items set_order graph_of_prec orders ->
       orders_ok S (EvalGenProofs.otree_of leafsp syn O) orders ->
       coherent_ord c ->
       spfs S c RALL false orders (EvalGenProofs.otree_of leafsp syn O) = Some e ->
       exists outs : list SG.spout_state,
         SG.gen_sreconcile_base_spfs fam_eqb path_eqb nid_eqb (fun _ : lca => anc)
           (fun _ : lca => lcp) (fun _ : lca => dist) (fun _ : lca => sembed3 S [])
           (fun _ : lca => sanc) (fun _ : lca => comparable) oeqb missing missing_syn ord_infos
           syn_mem syn_items set_order graph_of_prec find_cycle_fn
           {|
             T3.EvalGen.sin_object_tree := O;
             T3.EvalGen.sin_species_lca := lcaobj;
             T3.EvalGen.sin_leaf_object_species := leafsp;
             T3.EvalGen.sin_costs := EvalGenProofs.stsocc c;
             T3.EvalGen.sin_leaf_syntenies := syn
           |} (EntryGenProofs.prc RANY) = SG.Ok outs /\
         (outs = [] \/
          (exists o : SG.spout_state,
             outs = [o] /\ In (lt_out nid_eqb O missing missing_syn o) (tags e))) /\
         (outs = [] <-> tags e = []).
Proof. exact @gen_sreconcile_base_spfs_any. Qed.
Print Assumptions C02_gen_sreconcile_base_spfs_any.

