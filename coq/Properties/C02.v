(** C02 — ordered super-reconciliation returns a minimum-cost labelled reconciliation.
    Statements only; proofs are [exact <lemma of Proofs/SpfsProofs.v, Proofs/SpfsFinal.v>].

    [spfs S c rp extended orders O]: model of [_spfs] (extended = true: ESPFS, false: base SPFS)
    run on the root orderings [orders]; [None] would mean that decoding or the evaluator raised.
    [valid_ordered S ord O lt]: lt has the shape of O, leaves on their species with exactly their
    input syntenies, species of S only, no invalid event, every child synteny a subsequence of its
    parent's, root synteny = ord.  [cost_of c O lt]: the evaluator's total cost (C06).
    [coherent_ord c]: spe + 2*sloss <= dup + 2*floss, 0 <= floss, 0 <= sloss (F-COHERENCE). *)
From Coq Require Import List Bool ZArith NArith.
From SR Require Import Base.PathB Base.Ext Model.Subseq Model.Entry Model.Recon Model.LcaRec Model.Thl Model.Spfs
  Proofs.SubseqProofs Proofs.PathFacts Proofs.ReconProofs Proofs.ThlProofs Proofs.SpfsProofs Proofs.SpfsFinal.
Import ListNotations.
Local Open Scope Z_scope.

(* the solver never fails on well-formed orders (duplicate-free, every leaf synteny a non-empty subsequence) *)
Theorem C02_spfs_returns : forall S c rp extended orders O, nn (c_hgt c) -> orders_ok S O orders ->
  exists e, spfs S c rp extended orders O = Some e.
Proof. exact spfs_returns. Qed.

(* extended solver: exactly the minimum over the root orders, all species mappings and all labellings *)
Theorem C02_ext_spfs_optimum : forall S c orders O e, nn (c_hgt c) -> coherent_ord c -> orders_ok S O orders ->
  spfs S c RALL true orders O = Some e ->
  forall lt, In lt (tags e) <->
    ((exists ord, In ord orders /\ valid_ordered S ord O lt) /\
     forall lt' ord', In ord' orders -> valid_ordered S ord' O lt' -> ele (cost_of c O lt) (cost_of c O lt')).
Proof. exact ext_spfs_optimum. Qed.

(* base solver: the minimum among the solutions that use the LCA species mapping *)
Theorem C02_base_spfs_optimum : forall S c orders O e, nn (c_hgt c) -> coherent_ord c -> orders_ok S O orders ->
  spfs S c RALL false orders O = Some e ->
  forall lt, In lt (tags e) <->
    ((exists ord, In ord orders /\ valid_ordered S ord O lt /\ forget lt = lca_rec O) /\
     forall lt' ord', In ord' orders -> valid_ordered S ord' O lt' -> forget lt' = lca_rec O ->
       ele (cost_of c O lt) (cost_of c O lt')).
Proof. exact base_spfs_optimum. Qed.

(* empty exactly when no root order is compatible with all leaves (no hypothesis on the unit costs) *)
Theorem C02_spfs_empty_iff : forall S c rp extended orders O e, nn (c_hgt c) -> orders_ok S O orders -> rp <> RNONE ->
  (forall ord, In ord orders -> root_fits O ord) ->
  spfs S c rp extended orders O = Some e -> (tags e = [] <-> orders = []).
Proof. exact spfs_empty_iff. Qed.

(* the root orders the solver enumerates ([_make_prec_graph] + [toposort_all]) are exactly the compatible ones,
   and on them the solver returns exactly the optimal solutions, nothing when there is none *)
Theorem C02_root_orders_spec : forall O orders, Spfs.root_orders O = Some orders ->
  forall ord, In ord orders <-> compatible_order O ord.
Proof. exact root_orders_spec. Qed.

Theorem C02_spfs_root_orders_optimum : forall S c extended O, nn (c_hgt c) -> coherent_ord c -> leaves_wf S O ->
  exists orders e, Spfs.root_orders O = Some orders /\ spfs S c RALL extended orders O = Some e /\
    (forall lt, In lt (tags e) <-> optimal_sol S c extended orders O lt) /\
    (tags e = [] <-> forall ord, ~ compatible_order O ord).
Proof. exact spfs_root_orders_optimum. Qed.

(* the table holds the clean recurrence; inside the region the optimiser's charge is the evaluator's *)
Theorem C02_table_value : forall S c rp extended ord, nn (c_hgt c) -> rp <> RNONE ->
  forall o, leaves_ord S ord o -> forall is_root k, val (sread (spfs_table S c rp extended ord is_root o) k) = Sval c S extended ord is_root o k.
Proof. exact stable_value. Qed.

Theorem C02_ocost_ecost_ord : forall c s m kl kr, coherent_ord c ->
  mask_ok (snd kl) m = true -> mask_ok (snd kr) m = true -> ocost_ord c s m kl kr = ecost_ord c s m kl kr.
Proof. exact ocost_ecost_ord. Qed.

Print Assumptions C02_spfs_returns.
Print Assumptions C02_ext_spfs_optimum.
Print Assumptions C02_base_spfs_optimum.
Print Assumptions C02_spfs_empty_iff.
Print Assumptions C02_root_orders_spec.
Print Assumptions C02_spfs_root_orders_optimum.
Print Assumptions C02_table_value.
Print Assumptions C02_ocost_ecost_ord.

(** ** the totalisation defaults are never taken (each lemma excludes one default) *)

(* [cost_of c O lt] is [total_cost c O true lt] with [None] (the evaluator's assertion fails) read as
   +inf.  The evaluator is defined on every valid labelling, so on every solution ([valid_ordered]
   contains [valid_lab]) [cost_of] is the evaluator's value, never the default ... *)
Theorem C02_evaluator_defined_on_valid : forall c S O t, valid_lab S O t -> exists v, total_cost c O true t = Some v.
Proof. exact total_cost_some. Qed.
Print Assumptions C02_evaluator_defined_on_valid.

(* ... and on every RETURNED solution it is the value of the result (any policy, any unit costs);
   that this value is finite is [C04_finite_ordered] *)
From SR Require Import Proofs.AllAnyProofs.
Theorem C02_returned_cost : forall S c rp extended orders O e lt, nn (c_hgt c) -> orders_ok S O orders ->
  spfs S c rp extended orders O = Some e -> In lt (tags e) ->
  total_cost c O true lt = Some (val e) /\ cost_of c O lt = val e.
Proof. exact spfs_returned_cost. Qed.
Print Assumptions C02_returned_cost.

(* [Spfs.root_orders O = None] would be a raised exception in [_make_prec_graph] / [toposort_all] (and
   [PolyProofs.orders_of] reads it as "no order").  It does not happen when every leaf synteny is
   non-empty: the enumeration returns a list (possibly empty: no compatible order), made of well-formed
   orders that fit the root *)
Theorem C02_root_orders_total : forall S O, leaves_wf S O -> exists orders, Spfs.root_orders O = Some orders.
Proof. exact root_orders_total. Qed.
Print Assumptions C02_root_orders_total.

Theorem C02_root_orders_ok : forall S O orders, leaves_wf S O -> Spfs.root_orders O = Some orders ->
  orders_ok S O orders /\ forall ord, In ord orders -> root_fits O ord.
Proof. exact root_orders_ok. Qed.
Print Assumptions C02_root_orders_ok.

(* [spfs ... = None] would be an IndexError while decoding or a failed assertion of the evaluator:
   [C02_spfs_returns] above excludes it for every policy and every cost vector *)

(* non-vacuity: [nn], [coherent_ord], [leaves_wf], the root orders, 3 / 1 optimal solutions *)
Example C02_example := spfs_example.

(* [orders_ok] itself, and a prescribed root order with a family no leaf carries *)
Example C02_example_orders :
  let S := SNode SLeaf (SNode SLeaf SLeaf) in
  let O := ONode (OLeaf [false] [1; 2]%N) (ONode (OLeaf [true; false] [2; 3]%N) (OLeaf [true; true] [1; 3]%N)) in
  let c := {| c_spe := 0; c_dup := 1; c_hgt := Fin 1; c_floss := 1; c_sloss := 1 |} in
  orders_ok S O [[1; 2; 3]%N] /\ orders_ok S O [[1; 4; 2; 3]%N] /\
  option_map (fun e => length (tags e)) (spfs S c RALL true [[1; 4; 2; 3]%N] O) = Some 3%nat.
Proof.
  cbv zeta. split; [|split; [|vm_compute; reflexivity]].
  - refine (proj1 (root_orders_ok _ _ _ _ _)); [cbn; repeat split; discriminate|vm_compute; reflexivity].
  - intros ord [<-|[]]. split.
    + repeat constructor; cbn; intuition discriminate.
    + cbn. repeat split; try discriminate; repeat constructor.
Qed.
