(** C16 — a dynamic-programming entry holds the optimum and the tags of optimal
    candidates.  Statements only; proofs are [exact <lemma of Proofs/EntryProofs.v>].

    [update T_eqb mp rp e cs] is [Entry.update] applied to the candidates [cs]
    (value in the extended integers, optional tag) in order; [better mp a b] is
    "[a] strictly better than [b]" for the merge policy ([<] for MIN, [>] for MAX).

    Reading of the two words of the property that the code fixes (both confirmed on the
    implementation, both stated below):
    - a "tag" is a TRUTHY info: [Entry.update] tests [if info and ...], so a candidate whose
      info is [None], [0], [""], [()] ... is a candidate without tag; the model's [option T]
      is exactly that: [None] = falsy info, [Some t] = truthy info [t]
      ([C16_untagged_candidate], [C16_untagged_history], [C16_example_falsy_info]);
    - the "retained candidates" that [combine] pairs are the retained TAGS: an entry that
      retains no tag (policy 'none', or only untagged optima) combines to the infinitely bad
      default whatever value it holds ([C16_combine_no_tags], [C16_combine_of_none_entries],
      [C16_example_combine_none]);
    - a table cell ignores a batch made only of infinite candidates ([C16_table_read] is stated
      through [relevant], the batches holding a finite value). *)
From Coq Require Import List Bool ZArith.
From SR Require Import Base.Ext Model.Entry Proofs.EntryProofs Proofs.EntryExtraProofs.
Import ListNotations.

Section C16.
  Context {T : Type} (T_eqb : T -> T -> bool).
  Hypothesis T_eqb_spec : forall x y, reflect (x = y) (T_eqb x y).

  (* value = optimum of the initial value and of every candidate offered so far *)
  Theorem C16_entry_value : forall mp rp cs e,
    In (val (update T_eqb mp rp e cs)) (val e :: map fst cs) /\
    forall v, In v (val e :: map fst cs) -> better mp v (val (update T_eqb mp rp e cs)) = false.
  Proof. exact (entry_value T_eqb). Qed.

  (* splitting a history into batches in any way does not matter *)
  Theorem C16_update_batches : forall mp rp e (bs : list (list (ext * option T))),
    fold_left (update T_eqb mp rp) bs e = update T_eqb mp rp e (concat bs).
  Proof. exact (update_batches T_eqb). Qed.

  (* 'all': the tags are exactly the tags of candidates achieving the value, once each *)
  Theorem C16_tags_all : forall mp cs t,
    let e := update T_eqb mp RALL (default_entry mp) cs in
    In t (tags e) <-> In (val e, Some t) cs.
  Proof. exact (entry_tags_all T_eqb T_eqb_spec). Qed.

  Theorem C16_tags_all_nodup : forall mp cs,
    NoDup (tags (update T_eqb mp RALL (default_entry mp) cs)).
  Proof. exact (entry_tags_all_nodup T_eqb T_eqb_spec). Qed.

  (* 'any': exactly one tag, of an optimal candidate, iff some optimal candidate is tagged *)
  Theorem C16_tags_any : forall mp cs,
    let e := update T_eqb mp RANY (default_entry mp) cs in
    (tags e = [] /\ forall t, ~ In (val e, Some t) cs) \/
    (exists t, tags e = [t] /\ In (val e, Some t) cs).
  Proof. exact (entry_tags_any T_eqb). Qed.

  (* 'none': no tags *)
  Theorem C16_tags_none : forall mp cs,
    tags (update T_eqb mp RNONE (default_entry mp) cs) = [].
  Proof. exact (entry_tags_none T_eqb). Qed.

  (* a candidate without (truthy) info can improve the value -- the tags are then dropped --
     and otherwise changes nothing; it never becomes a tag *)
  Theorem C16_untagged_candidate : forall mp rp (e : entry T) v,
    update T_eqb mp rp e [(v, None)] =
      if better mp v (val e) then {| val := v; tags := [] |} else e.
  Proof. exact (untagged_candidate T_eqb). Qed.

  Theorem C16_untagged_history : forall mp rp cs,
    Forall (fun c : ext * option T => snd c = None) cs ->
    tags (update T_eqb mp rp (default_entry mp) cs) = [].
  Proof. exact (untagged_history T_eqb). Qed.

  (* a table cell after any history of writes to any cells: the entry obtained from
     the batches addressed to it that hold a finite value; never written = default *)
  Theorem C16_table_read : forall d mp rp ops tb tb' k,
    run_writes T_eqb d mp rp tb ops = Some tb' ->
    read mp tb' k = update T_eqb mp rp (read mp tb k) (relevant k ops).
  Proof. exact (table_read T_eqb). Qed.

  Theorem C16_table_unwritten : forall d mp rp ops tb k,
    run_writes T_eqb d mp rp [] ops = Some tb ->
    (forall cs, In (k, cs) ops -> has_finite cs = false) ->
    read mp tb k = default_entry mp.
  Proof. exact (table_unwritten T_eqb). Qed.

  Theorem C16_table_cell_is_entry : forall d mp rp ops tb k,
    run_writes T_eqb d mp rp [] ops = Some tb ->
    (forall k' cs c, In (k', cs) ops -> In c cs -> ext_is_inf (fst c) = false) ->
    read mp tb k = update T_eqb mp rp (default_entry mp)
                     (concat (map snd (filter (fun op => key_eqb k (fst op)) ops))).
  Proof. exact (table_cell_is_entry T_eqb). Qed.

  (* the pre-repair loop (defect D1) violates the tag law *)
  Theorem C16_stale_tags_refuted : forall a : T,
    let e := fold_left (update1_old T_eqb MIN RALL) [(Fin 2, Some a); (Fin 1, None)] (default_entry MIN) in
    In a (tags e) /\ ~ In (val e, Some a) [(Fin 2, Some a); (Fin 1, None)].
  Proof. exact (stale_tags_refuted T_eqb). Qed.
End C16.

Section C16_combine.
  Context {T U : Type} (U_eqb : U -> U -> bool).
  Hypothesis U_eqb_spec : forall x y, reflect (x = y) (U_eqb x y).

  (* combining two entries: optimum over all pairs of retained candidates *)
  Theorem C16_combine_opt : forall mp rp (e1 e2 : entry T) (f : T -> T -> ext * option U),
    let r := combine U_eqb mp rp e1 e2 f in
    In (val r) (init_val mp :: map fst (pairs e1 e2 f)) /\
    (forall a b, In a (tags e1) -> In b (tags e2) -> better mp (fst (f a b)) (val r) = false).
  Proof. exact (combine_opt U_eqb). Qed.

  Theorem C16_combine_tags_all : forall mp (e1 e2 : entry T) (f : T -> T -> ext * option U) u,
    let r := combine U_eqb mp RALL e1 e2 f in
    In u (tags r) <-> exists a b, In a (tags e1) /\ In b (tags e2) /\ f a b = (val r, Some u).
  Proof. exact (combine_tags_all U_eqb U_eqb_spec). Qed.

  (* 'any': exactly one tag, of an optimal pair, iff some optimal pair is tagged *)
  Theorem C16_combine_tags_any : forall mp (e1 e2 : entry T) (f : T -> T -> ext * option U),
    let r := combine U_eqb mp RANY e1 e2 f in
    (tags r = [] /\ forall a b u, In a (tags e1) -> In b (tags e2) -> f a b <> (val r, Some u)) \/
    (exists a b u, tags r = [u] /\ In a (tags e1) /\ In b (tags e2) /\ f a b = (val r, Some u)).
  Proof. exact (combine_tags_any U_eqb). Qed.

  (* 'none': no tags *)
  Theorem C16_combine_tags_none : forall mp (e1 e2 : entry T) (f : T -> T -> ext * option U),
    tags (combine U_eqb mp RNONE e1 e2 f) = [].
  Proof. exact (combine_tags_none U_eqb). Qed.

  (* "pairs of retained candidates" = pairs of retained TAGS: an entry without tags combines to
     the infinitely bad default, whatever its value and the policy of the result ... *)
  Theorem C16_combine_no_tags : forall mp rp (e1 e2 : entry T) (f : T -> T -> ext * option U),
    tags e1 = [] \/ tags e2 = [] -> combine U_eqb mp rp e1 e2 f = default_entry mp.
  Proof. exact (combine_no_tags U_eqb). Qed.

  (* ... in particular every entry filled under policy 'none' *)
  Theorem C16_combine_of_none_entries :
    forall (T_eqb : T -> T -> bool) mp rp mp1 cs1 (e2 : entry T) (f : T -> T -> ext * option U),
    combine U_eqb mp rp (update T_eqb mp1 RNONE (default_entry mp1) cs1) e2 f = default_entry mp /\
    combine U_eqb mp rp e2 (update T_eqb mp1 RNONE (default_entry mp1) cs1) f = default_entry mp.
  Proof. exact (fun T_eqb => combine_of_none_entries T_eqb U_eqb). Qed.
End C16_combine.

Print Assumptions C16_entry_value.
Print Assumptions C16_update_batches.
Print Assumptions C16_tags_all.
Print Assumptions C16_tags_all_nodup.
Print Assumptions C16_tags_any.
Print Assumptions C16_tags_none.
Print Assumptions C16_table_read.
Print Assumptions C16_table_unwritten.
Print Assumptions C16_table_cell_is_entry.
Print Assumptions C16_stale_tags_refuted.
Print Assumptions C16_combine_opt.
Print Assumptions C16_combine_tags_all.
Print Assumptions C16_untagged_candidate.
Print Assumptions C16_untagged_history.
Print Assumptions C16_combine_tags_any.
Print Assumptions C16_combine_tags_none.
Print Assumptions C16_combine_no_tags.
Print Assumptions C16_combine_of_none_entries.

(* non-vacuity: a concrete history with ties *)
Example C16_example :
  let e := update Nat.eqb MIN RALL (default_entry MIN)
             [(Fin 2, Some 1%nat); (Fin 1, Some 2%nat); (Fin 1, None); (Fin 1, Some 3%nat); (Fin 5, Some 4%nat)] in
  val e = Fin 1 /\ tags e = [2%nat; 3%nat].
Proof. split; reflexivity. Qed.

(* MAX with 'any' and with 'none': the first optimal tagged candidate is kept / nothing is *)
Example C16_example_max :
  let cs := [(Fin 2, Some 1%nat); (Fin 7, None); (Fin 7, Some 2%nat); (NInf, Some 5%nat); (Fin 7, Some 3%nat)] in
  update Nat.eqb MAX RANY (default_entry MAX) cs = {| val := Fin 7; tags := [2%nat] |} /\
  update Nat.eqb MAX RNONE (default_entry MAX) cs = {| val := Fin 7; tags := [] |} /\
  update Nat.eqb MAX RALL (default_entry MAX) cs = {| val := Fin 7; tags := [2%nat; 3%nat] |}.
Proof. repeat split. Qed.

(* a falsy info is no tag: [Entry(MIN, ALL).update(Candidate(1, 0))] has value 1 and no infos
   (the harness encodes the info [0], [""], [()] or [None] as the model's [None]) *)
Example C16_example_falsy_info :
  update Nat.eqb MIN RALL (default_entry MIN) [(Fin 1, None)] = {| val := Fin 1; tags := [] |} /\
  update Nat.eqb MIN RALL {| val := Fin 2; tags := [4%nat] |} [(Fin 1, None)] = {| val := Fin 1; tags := [] |} /\
  update Nat.eqb MIN RALL {| val := Fin 1; tags := [4%nat] |} [(Fin 1, None)] = {| val := Fin 1; tags := [4%nat] |}.
Proof. repeat split. Qed.

(* combine: MAX / 'all' over the product of the tag sets; the combinator adds the tags and
   values them by their product, the pair (2,3) and the pair (3,2) tie *)
Example C16_example_combine :
  let e1 := update Nat.eqb MAX RALL (default_entry MAX) [(Fin 4, Some 2%nat); (Fin 4, Some 3%nat); (Fin 1, Some 9%nat)] in
  let e2 := update Nat.eqb MAX RALL (default_entry MAX) [(Fin 5, Some 3%nat); (Fin 5, Some 2%nat)] in
  let f := fun a b : nat => (Fin (Z.of_nat (a * b)), if Nat.eqb a b then None else Some (10 * a + b)%nat) in
  tags e1 = [2%nat; 3%nat] /\ tags e2 = [3%nat; 2%nat] /\
  combine Nat.eqb MAX RALL e1 e2 f = {| val := Fin 9; tags := [] |} /\
  combine Nat.eqb MIN RALL e1 e2 f = {| val := Fin 4; tags := [] |} /\
  combine Nat.eqb MIN RANY e1 e2 (fun a b => (Fin (Z.of_nat (a + b)), Some (10 * a + b)%nat))
    = {| val := Fin 4; tags := [22%nat] |} /\
  combine Nat.eqb MAX RALL e1 e2 (fun a b => (Fin (Z.of_nat (a + b)), Some (10 * a + b)%nat))
    = {| val := Fin 6; tags := [33%nat] |} /\
  combine Nat.eqb MIN RALL e1 e2 (fun a b => (Fin (Z.of_nat (a + b)), Some (a + b)%nat))
    = {| val := Fin 4; tags := [4%nat] |} /\
  combine Nat.eqb MAX RALL e1 e2 (fun a b => (Fin (Z.of_nat (a * b)), Some (10 * a + b)%nat))
    = {| val := Fin 9; tags := [33%nat] |} /\
  combine Nat.eqb MIN RALL e1 e2 (fun a b => (Fin (Z.of_nat (a * b)), Some (10 * a + b)%nat))
    = {| val := Fin 4; tags := [22%nat] |} /\
  combine Nat.eqb MIN RALL e1 e2 (fun a b => (Fin 0, Some (10 * a + b)%nat))
    = {| val := Fin 0; tags := [23%nat; 22%nat; 33%nat; 32%nat] |}.
Proof. repeat split. Qed.

(* two entries filled under 'none' hold 1 and 2, and combine to +inf:
   [Entry(MIN, NONE)] x [Entry(MIN, NONE)] -> [inf] *)
Example C16_example_combine_none :
  let e1 := update Nat.eqb MIN RNONE (default_entry MIN) [(Fin 1, Some 7%nat)] in
  let e2 := update Nat.eqb MIN RNONE (default_entry MIN) [(Fin 2, Some 8%nat)] in
  val e1 = Fin 1 /\ val e2 = Fin 2 /\
  combine Nat.eqb MIN RNONE e1 e2 (fun a b => (Fin 3, Some (a + b)%nat)) = {| val := PInf; tags := [] |} /\
  combine Nat.eqb MIN RALL e1 e2 (fun a b => (Fin 3, Some (a + b)%nat)) = {| val := PInf; tags := [] |}.
Proof. repeat split. Qed.

(* a table history on a 2 x (dict) table: writes to two cells in two batches each, a batch of
   infinite candidates only (ignored: the cell [1;5] is never instantiated), and the hypotheses
   of [C16_table_read] / [C16_table_unwritten]; an out-of-range list index is an error *)
Example C16_example_table :
  let d := [Some 2%nat; None] in
  let ops := [([0; 7]%nat, [(Fin 3, Some 1%nat); (PInf, Some 2%nat)]);
              ([1; 5]%nat, [(PInf, Some 3%nat); (NInf, Some 4%nat)]);
              ([1; 0]%nat, [(Fin 2, Some 5%nat)]);
              ([0; 7]%nat, [(Fin 3, Some 6%nat); (Fin 8, None)]);
              ([1; 0]%nat, [(Fin 1, None); (PInf, Some 7%nat)])] in
  exists tb, run_writes Nat.eqb d MIN RALL [] ops = Some tb /\
    read MIN tb [0; 7]%nat = {| val := Fin 3; tags := [1%nat; 6%nat] |} /\
    read MIN tb [1; 0]%nat = {| val := Fin 1; tags := [] |} /\
    read MIN tb [1; 5]%nat = default_entry MIN /\
    (forall cs, In ([1; 5]%nat, cs) ops -> has_finite cs = false) /\
    read MIN tb [1; 3]%nat = default_entry MIN /\
    run_writes Nat.eqb d MIN RALL [] (ops ++ [([2; 0]%nat, [(Fin 1, Some 1%nat)])]) = None /\
    run_writes Nat.eqb d MIN RALL [] (ops ++ [([2; 0]%nat, [(PInf, Some 1%nat)])]) = Some tb.
Proof.
  eexists. split; [reflexivity|]. repeat split.
  intros cs [H|[H|[H|[H|[H|[]]]]]]; inversion H; reflexivity.
Qed.

(** * Tie to the source by translation (dynamic_programming.py, class Entry)

    [Gen/EntryGen.v] is generated from the Python source of [Entry] on every run
    (translator/entry_gen.py); the theorems of Proofs/EntryGenProofs.v, restated here as Coq
    prints them, say that every generated method equals the hand-written model [Model/Entry.v]
    the theorems above are about, for all states and arguments.  [G] = [SR.Gen.EntryGen];
    [ent] forgets the two policies of a generated state, [mk] puts them back, [cmp]/[crp] map the
    generated policy enumerations to [merge]/[ret], [ccand] maps a generated [Candidate] to the
    model's pair. *)
From SR Require Gen.EntryGen.
From SR Require Import Proofs.EntryGenProofs.

Theorem C16_gen_entry_default_eq :
  forall (A : Type) (mp : G.MergePolicy) (rp : G.RetentionPolicy),
       G.gen_entry_init mp rp = G.Ok (mk mp rp (@default_entry A (cmp mp))).
Proof. exact @gen_entry_default_eq. Qed.
Print Assumptions C16_gen_entry_default_eq.

Theorem C16_gen_entry_is_infinite_eq :
  forall (A : Type) (s : G.entry_state A),
       G.gen_entry_is_infinite s = G.Ok (s, ext_is_inf (val (ent s))).
Proof. exact @gen_entry_is_infinite_eq. Qed.
Print Assumptions C16_gen_entry_is_infinite_eq.

Theorem C16_gen_entry_value_eq :
  forall (A : Type) (s : G.entry_state A), G.gen_entry_value s = G.Ok (s, val (ent s)).
Proof. exact @gen_entry_value_eq. Qed.
Print Assumptions C16_gen_entry_value_eq.

Theorem C16_gen_entry_infos_eq :
  forall (A : Type) (s : G.entry_state A), G.gen_entry_infos s = G.Ok (s, tags (ent s)).
Proof. exact @gen_entry_infos_eq. Qed.
Print Assumptions C16_gen_entry_infos_eq.

Theorem C16_gen_entry_update_eq :
  forall (A : Type) (eqb : A -> A -> bool) (s : G.entry_state A) (cs : list (G.Candidate A)),
       G.gen_entry_update eqb s cs =
       G.Ok
         (mk (G.entry__merge_policy s) (G.entry__retention_policy s)
            (update eqb (cmp (G.entry__merge_policy s)) (crp (G.entry__retention_policy s))
               (ent s) (map ccand cs)), tt).
Proof. exact @gen_entry_update_eq. Qed.
Print Assumptions C16_gen_entry_update_eq.

Theorem C16_gen_entry_history_eq :
  forall (A : Type) (eqb : A -> A -> bool) (mp : G.MergePolicy) (rp : G.RetentionPolicy)
         (bs : list (list (G.Candidate A))),
       match G.gen_entry_init mp rp with
       | G.Ok s => run eqb s bs
       | G.Err e => G.Err e
       end =
       G.Ok
         (mk mp rp (update eqb (cmp mp) (crp rp) (default_entry (cmp mp)) (map ccand (concat bs)))).
Proof. exact @gen_entry_history_eq. Qed.
Print Assumptions C16_gen_entry_history_eq.

Theorem C16_gen_entry_combine_eq :
  forall (A U : Type) (eqb2 : U -> U -> bool)
         (combinator : G.Candidate A -> G.Candidate A -> G.Candidate U)
         (s o : G.entry_state A),
       G.gen_entry_combine eqb2 s o combinator =
       G.Ok
         (s,
          mk (G.entry__merge_policy s) (G.entry__retention_policy s)
            (combine eqb2 (cmp (G.entry__merge_policy s)) (crp (G.entry__retention_policy s))
               (ent s) (ent o) (comb_f combinator (val (ent s)) (val (ent o))))).
Proof. exact @gen_entry_combine_eq. Qed.
Print Assumptions C16_gen_entry_combine_eq.

Example C16_gen_entry_example := gen_entry_example.

(** * Tie to the source by translation: Table / TableProxy / EntryProxy (Gen/TableGen.v)

    The table classes of utils/dynamic_programming.py (dictionary dimensions) are regenerated on every run and proved
    to read and update like the table model of Model/Entry.v. *)

From SR Require Import Gen.TableGen Proofs.TableGenProofs.

Theorem C16_gen_table_init_model :
  forall (A : Type) (d : list G.DictDimension) (mp : G.EntryGen.MergePolicy)
         (rp : G.EntryGen.RetentionPolicy),
       exists t : G.table_state nat A,
         G.gen_table_init d mp rp = G.Ok t /\
         G.table_merge_policy t = mp /\
         G.table_retention_policy t = rp /\ G.table_dimensions t = d /\ twf t /\ rep t [].
Proof. exact @gen_table_init_model. Qed.
Print Assumptions C16_gen_table_init_model.

Theorem C16_table_read_model :
  forall (A : Type) (t : G.table_state nat A) (m : table) (ks : list nat),
       twf t ->
       rep t m ->
       ks <> [] ->
       length ks = length (G.table_dimensions t) ->
       exists t1 : G.table_state nat A,
         table_at Nat.eqb t ks =
         G.Ok (G.Proxy_EntryProxy {| G.eproxy__parent := t1; G.eproxy__key := ks |}) /\
         twf t1 /\
         rep t1 m /\
         (exists t2 : G.table_state nat A,
            G.gen_Proxy_value Nat.eqb
              (G.Proxy_EntryProxy {| G.eproxy__parent := t1; G.eproxy__key := ks |}) =
            G.Ok
              (G.Proxy_EntryProxy {| G.eproxy__parent := t2; G.eproxy__key := ks |},
               val (read (cmp (G.table_merge_policy t)) m ks)) /\ twf t2 /\ rep t2 m) /\
         (exists t2 : G.table_state nat A,
            G.gen_Proxy_infos Nat.eqb
              (G.Proxy_EntryProxy {| G.eproxy__parent := t1; G.eproxy__key := ks |}) =
            G.Ok
              (G.Proxy_EntryProxy {| G.eproxy__parent := t2; G.eproxy__key := ks |},
               tags (read (cmp (G.table_merge_policy t)) m ks)) /\ twf t2 /\ rep t2 m) /\
         (exists t2 : G.table_state nat A,
            G.gen_Proxy_is_infinite Nat.eqb
              (G.Proxy_EntryProxy {| G.eproxy__parent := t1; G.eproxy__key := ks |}) =
            G.Ok
              (G.Proxy_EntryProxy {| G.eproxy__parent := t2; G.eproxy__key := ks |},
               ext_is_inf (val (read (cmp (G.table_merge_policy t)) m ks))) /\ 
            twf t2 /\ rep t2 m).
Proof. exact @table_read_model. Qed.
Print Assumptions C16_table_read_model.

Theorem C16_table_update_model :
  forall (A : Type) (eqb : A -> A -> bool) (t : G.table_state nat A) 
         (m : table) (pre : list nat) (k : nat) (cs : list (G.EntryGen.Candidate A)),
       twf t ->
       rep t m ->
       S (length pre) = length (G.table_dimensions t) ->
       exists t1 t2 : G.table_state nat A,
         table_at Nat.eqb t (pre ++ [k]) =
         G.Ok (G.Proxy_EntryProxy {| G.eproxy__parent := t1; G.eproxy__key := pre ++ [k] |}) /\
         G.gen_Proxy_update Nat.eqb eqb
           (G.Proxy_EntryProxy {| G.eproxy__parent := t1; G.eproxy__key := pre ++ [k] |}) cs =
         G.Ok (G.Proxy_EntryProxy {| G.eproxy__parent := t2; G.eproxy__key := pre ++ [k] |}, tt) /\
         G.table_merge_policy t2 = G.table_merge_policy t /\
         G.table_retention_policy t2 = G.table_retention_policy t /\
         G.table_dimensions t2 = G.table_dimensions t /\
         twf t2 /\
         rep t2
           (write eqb (cmp (G.table_merge_policy t)) (crp (G.table_retention_policy t)) m
              (pre ++ [k]) (map ccand cs)).
Proof. exact @table_update_model. Qed.
Print Assumptions C16_table_update_model.

Theorem C16_gen_eproxy_combine_eq :
  forall (K A U : Type) (keqb : K -> K -> bool) (eqb2 : U -> U -> bool),
       (forall a b : K, reflect (a = b) (keqb a b)) ->
       forall (t : G.table_state K A) (ks : list K) (o : EG.entry_state A)
         (comb : G.EntryGen.Candidate A -> G.EntryGen.Candidate A -> G.EntryGen.Candidate U),
       twf t ->
       length ks = length (G.table_dimensions t) ->
       G.gen_eproxy_combine keqb eqb2 {| G.eproxy__parent := t; G.eproxy__key := ks |} o comb =
       G.Ok
         ({| G.eproxy__parent := walked keqb t ks; G.eproxy__key := ks |},
          match tlookup keqb t ks with
          | Some e =>
              G.Combined_Entry2
                (mk (EG.entry__merge_policy e) (EG.entry__retention_policy e)
                   (combine eqb2 (cmp (EG.entry__merge_policy e))
                      (crp (EG.entry__retention_policy e)) (ent e) (ent o)
                      (comb_f comb (val (ent e)) (val (ent o)))))
          | None =>
              G.Combined_EntryProxy {| G.eproxy__parent := walked keqb t ks; G.eproxy__key := ks |}
          end).
Proof. exact @gen_eproxy_combine_eq. Qed.
Print Assumptions C16_gen_eproxy_combine_eq.

Theorem C16_gen_entry_iter_eq :
  forall (A : Type) (s : EG.entry_state A),
       G.gen_entry_iter s =
       G.Ok
         (s,
          map
            (fun i : A =>
             {| EG.Candidate_value := EG.entry__value s; EG.Candidate_info := Some i |})
            (EG.entry__infos s)).
Proof. exact @gen_entry_iter_eq. Qed.
Print Assumptions C16_gen_entry_iter_eq.

Theorem C16_table_at_ok :
  forall (K A : Type) (keqb : K -> K -> bool),
       (forall a b : K, reflect (a = b) (keqb a b)) ->
       forall (t : G.table_state K A) (ks : list K),
       twf t ->
       ks <> [] ->
       length ks = length (G.table_dimensions t) ->
       exists t' : G.table_state K A,
         table_at keqb t ks =
         G.Ok (G.Proxy_EntryProxy {| G.eproxy__parent := t'; G.eproxy__key := ks |}) /\
         tsame keqb t t'.
Proof. exact @table_at_ok. Qed.
Print Assumptions C16_table_at_ok.

