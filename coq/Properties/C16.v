(** C16 — a dynamic-programming entry holds the optimum and the tags of optimal
    candidates.  Statements only; proofs are [exact <lemma of Proofs/EntryProofs.v>].

    [update T_eqb mp rp e cs] is [Entry.update] applied to the candidates [cs]
    (value in the extended integers, optional tag) in order; [better mp a b] is
    "[a] strictly better than [b]" for the merge policy ([<] for MIN, [>] for MAX). *)
From Coq Require Import List Bool ZArith.
From SR Require Import Base.Ext Model.Entry Proofs.EntryProofs.
Import ListNotations.

Section C16.
  Context {T : Type} (T_eqb : T -> T -> bool).
  Hypothesis T_eqb_spec : forall x y, reflect (x = y) (T_eqb x y).

  (* value = optimum of the initial value and of every candidate offered so far *)
  Theorem C16_entry_value : forall mp rp cs e,
    In (val (update T_eqb mp rp e cs)) (val e :: map fst cs) /\
    forall v, In v (val e :: map fst cs) -> better mp v (val (update T_eqb mp rp e cs)) = false.
  Proof. exact (entry_value T_eqb). Qed.

  (* splitting a history into batches in any way does not matter *)
  Theorem C16_update_batches : forall mp rp e (bs : list (list (ext * option T))),
    fold_left (update T_eqb mp rp) bs e = update T_eqb mp rp e (concat bs).
  Proof. exact (update_batches T_eqb). Qed.

  (* 'all': the tags are exactly the tags of candidates achieving the value, once each *)
  Theorem C16_tags_all : forall mp cs t,
    let e := update T_eqb mp RALL (default_entry mp) cs in
    In t (tags e) <-> In (val e, Some t) cs.
  Proof. exact (entry_tags_all T_eqb T_eqb_spec). Qed.

  Theorem C16_tags_all_nodup : forall mp cs,
    NoDup (tags (update T_eqb mp RALL (default_entry mp) cs)).
  Proof. exact (entry_tags_all_nodup T_eqb T_eqb_spec). Qed.

  (* 'any': exactly one tag, of an optimal candidate, iff some optimal candidate is tagged *)
  Theorem C16_tags_any : forall mp cs,
    let e := update T_eqb mp RANY (default_entry mp) cs in
    (tags e = [] /\ forall t, ~ In (val e, Some t) cs) \/
    (exists t, tags e = [t] /\ In (val e, Some t) cs).
  Proof. exact (entry_tags_any T_eqb). Qed.

  (* 'none': no tags *)
  Theorem C16_tags_none : forall mp cs,
    tags (update T_eqb mp RNONE (default_entry mp) cs) = [].
  Proof. exact (entry_tags_none T_eqb). Qed.

  (* a table cell after any history of writes to any cells: the entry obtained from
     the batches addressed to it that hold a finite value; never written = default *)
  Theorem C16_table_read : forall d mp rp ops tb tb' k,
    run_writes T_eqb d mp rp tb ops = Some tb' ->
    read mp tb' k = update T_eqb mp rp (read mp tb k) (relevant k ops).
  Proof. exact (table_read T_eqb). Qed.

  Theorem C16_table_unwritten : forall d mp rp ops tb k,
    run_writes T_eqb d mp rp [] ops = Some tb ->
    (forall cs, In (k, cs) ops -> has_finite cs = false) ->
    read mp tb k = default_entry mp.
  Proof. exact (table_unwritten T_eqb). Qed.

  Theorem C16_table_cell_is_entry : forall d mp rp ops tb k,
    run_writes T_eqb d mp rp [] ops = Some tb ->
    (forall k' cs c, In (k', cs) ops -> In c cs -> ext_is_inf (fst c) = false) ->
    read mp tb k = update T_eqb mp rp (default_entry mp)
                     (concat (map snd (filter (fun op => key_eqb k (fst op)) ops))).
  Proof. exact (table_cell_is_entry T_eqb). Qed.

  (* the pre-repair loop (defect D1) violates the tag law *)
  Theorem C16_stale_tags_refuted : forall a : T,
    let e := fold_left (update1_old T_eqb MIN RALL) [(Fin 2, Some a); (Fin 1, None)] (default_entry MIN) in
    In a (tags e) /\ ~ In (val e, Some a) [(Fin 2, Some a); (Fin 1, None)].
  Proof. exact (stale_tags_refuted T_eqb). Qed.
End C16.

Section C16_combine.
  Context {T U : Type} (U_eqb : U -> U -> bool).
  Hypothesis U_eqb_spec : forall x y, reflect (x = y) (U_eqb x y).

  (* combining two entries: optimum over all pairs of retained candidates *)
  Theorem C16_combine_opt : forall mp rp (e1 e2 : entry T) (f : T -> T -> ext * option U),
    let r := combine U_eqb mp rp e1 e2 f in
    In (val r) (init_val mp :: map fst (pairs e1 e2 f)) /\
    (forall a b, In a (tags e1) -> In b (tags e2) -> better mp (fst (f a b)) (val r) = false).
  Proof. exact (combine_opt U_eqb). Qed.

  Theorem C16_combine_tags_all : forall mp (e1 e2 : entry T) (f : T -> T -> ext * option U) u,
    let r := combine U_eqb mp RALL e1 e2 f in
    In u (tags r) <-> exists a b, In a (tags e1) /\ In b (tags e2) /\ f a b = (val r, Some u).
  Proof. exact (combine_tags_all U_eqb U_eqb_spec). Qed.
End C16_combine.

Print Assumptions C16_entry_value.
Print Assumptions C16_update_batches.
Print Assumptions C16_tags_all.
Print Assumptions C16_tags_all_nodup.
Print Assumptions C16_tags_any.
Print Assumptions C16_tags_none.
Print Assumptions C16_table_read.
Print Assumptions C16_table_unwritten.
Print Assumptions C16_table_cell_is_entry.
Print Assumptions C16_stale_tags_refuted.
Print Assumptions C16_combine_opt.
Print Assumptions C16_combine_tags_all.

(* non-vacuity: a concrete history with ties *)
Example C16_example :
  let e := update Nat.eqb MIN RALL (default_entry MIN)
             [(Fin 2, Some 1%nat); (Fin 1, Some 2%nat); (Fin 1, None); (Fin 1, Some 3%nat); (Fin 5, Some 4%nat)] in
  val e = Fin 1 /\ tags e = [2%nat; 3%nat].
Proof. split; reflexivity. Qed.
