(** C14 — layouts are geometrically coherent and orientation-symmetric.
    Statements only; every proof is [exact <lemma of Proofs/LayoutProofs.v>].

    [layout o P S r sizes] (Model/Layout.v) is [layout.compute] for orientation [o],
    drawing parameters [P], species tree [S], reconciliation [r] and the measured node
    sizes [sizes] (in measuring order), over exact rationals; its result is a tree of
    [sublayout]s shaped like [S] ([LNode s l r]: an internal species, its first and second
    child), [flatten] lists it in pre-order.  [tp]/[tr]/[t_ltree] exchange x and y
    (and width and height).  [rinside c p]: rectangle [c] lies inside [p];
    [rdisjoint a b]: [a] and [b] have no common interior point; [roverlap]: they have. *)
From Coq Require Import List Bool Arith QArith.
From SR Require Import Base.PathB Model.Recon Model.Branches Model.Layout Proofs.ReconProofs Proofs.BranchesProofs Proofs.LayoutProofs.
Import ListNotations.
Local Open Scope Q_scope.

(* The horizontal layout is the mirror image (x and y exchanged) of the vertical layout
   computed with width and height of every node exchanged — structural equality of the
   whole result, for every input (also where an exception is raised: [None] on both sides). *)
Theorem C14_mirror : forall P S r sizes,
  layout Horizontal P S r sizes = option_map t_ltree (layout Vertical P S r (map tp sizes)).
Proof. exact mirror. Qed.
Print Assumptions C14_mirror.

(* For non-negative drawing parameters and node sizes, in both orientations: the boxes of
   the two child species of every internal species lie inside their parent's box ... *)
Theorem C14_child_in_parent : forall o P S r sizes t,
  nonneg_params P -> Forall size_ok sizes -> layout o P S r sizes = Some t ->
  forall s l r', In (LNode s l r') (lsubtrees t) ->
  rinside (l_rect (linfo l)) (l_rect s) /\ rinside (l_rect (linfo r')) (l_rect s).
Proof. exact child_in_parent. Qed.
Print Assumptions C14_child_in_parent.

(* ... and never overlap. *)
Theorem C14_siblings_disjoint : forall o P S r sizes t,
  nonneg_params P -> Forall size_ok sizes -> layout o P S r sizes = Some t ->
  forall s l r', In (LNode s l r') (lsubtrees t) -> rdisjoint (l_rect (linfo l)) (l_rect (linfo r')).
Proof. exact siblings_disjoint. Qed.
Print Assumptions C14_siblings_disjoint.

(* No two species trunks overlap PROVIDED every trunk lies inside its own species box
   (all pairs of the pre-order list). *)
Theorem C14_trunks_disjoint_partial : forall o P S r sizes t,
  nonneg_params P -> Forall size_ok sizes -> layout o P S r sizes = Some t ->
  (forall s, In s (flatten t) -> rinside (l_trunk s) (l_rect s)) ->
  ForallOrdPairs (fun a b => rdisjoint (l_trunk a) (l_trunk b)) (flatten t).
Proof. exact trunks_disjoint_partial. Qed.
Print Assumptions C14_trunks_disjoint_partial.

(* The proviso cannot be dropped (known finding F-TRUNK-OVERLAP, DESIGN section 9): with the
   default parameters and positive sizes in {1, 100}, the trunk of species N (pre-order
   index 4) leaves its own box and overlaps the trunk of species M2 (index 3), which lies
   inside its box. *)
Theorem C14_trunk_overlap_refuted :
  nonneg_params default_params /\ Forall size_ok witness_sizes /\
  layout Vertical default_params witness_S witness_r witness_sizes = Some witness_layout /\
  exists a b, nth_error (flatten witness_layout) 3 = Some a /\ nth_error (flatten witness_layout) 4 = Some b /\
    roverlap (l_trunk a) (l_trunk b) /\ ~ rdisjoint (l_trunk a) (l_trunk b) /\
    rinside (l_trunk a) (l_rect a) /\ ~ rinside (l_trunk b) (l_rect b).
Proof. exact trunk_overlap_refuted. Qed.
Print Assumptions C14_trunk_overlap_refuted.

(* Every anchor referenced by a drawn branch exists.  In both orientations the anchors and
   branches of every species of the computed layout (pre-order) are keyed exactly by the
   anchor set and the branch dict that [_compute_branches] leaves for that species
   ([keys_at X ops], Model/Branches.v) ... *)
Theorem C14_layout_keys : forall o P S r sizes t ops,
  all_ops S r = Some ops -> layout o P S r sizes = Some t ->
  map key_of_sub (flatten t) = map (fun X => keys_at X ops) (snodes S).
Proof. exact layout_keys. Qed.
Print Assumptions C14_layout_keys.

(* ... and for a valid reconciliation every reference made by a branch is to a member of
   those sets ([branch_refs_ok], theorem C13_anchors_exist). *)
Theorem C14_anchors_exist : forall o P S O r sizes t,
  valid_rec S O r -> layout o P S r sizes = Some t ->
  exists ops, all_ops S r = Some ops /\
    map key_of_sub (flatten t) = map (fun X => keys_at X ops) (snodes S) /\
    (forall X b, In b (branches_at X ops) -> branch_refs_ok r ops X b) /\
    (forall X a, is_anchor X ops a -> In a (fst (keys_at X ops))).
Proof. exact anchors_exist_layout. Qed.
Print Assumptions C14_anchors_exist.

(* The layout of a valid reconciliation is defined in both orientations, whatever the
   parameters and the measured sizes: [_layout_branches] never meets a missing key (every
   duplication / transfer branch is inserted after the branches it refers to), so the
   hypotheses [layout ... = Some t] of the theorems above are satisfiable on the whole domain. *)
Theorem C14_layout_defined : forall o P S O r sizes,
  valid_rec S O r -> exists t, layout o P S r sizes = Some t.
Proof. exact layout_defined. Qed.
Print Assumptions C14_layout_defined.

(* The layout is a function of its inputs (the model has no hidden state; that the
   implementation's second run equals its first is checked by the harness). *)
Theorem C14_layout_function : forall o P S r sizes o' P' S' r' sizes',
  o = o' -> P = P' -> S = S' -> r = r' -> sizes = sizes' ->
  layout o P S r sizes = layout o' P' S' r' sizes'.
Proof. exact layout_function. Qed.
Print Assumptions C14_layout_function.
