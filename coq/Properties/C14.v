From Coq Require Import List Bool Arith QArith.
From SR Require Import Base.PathB Model.Recon Model.Branches Model.Layout Proofs.LayoutProofs.
Import ListNotations.

Theorem C14_smoke :
  layout Vertical {| pad := 4; gsp := 5; ovh := 10; mss := 12; lsp := 4 |}
         (SNode SLeaf SLeaf) (RNode [] (RLeaf [false]) (RLeaf [true])) [(1, 1); (1, 1); (1, 1)] <> None.
Proof. exact layout_smoke. Qed.
Print Assumptions C14_smoke.
