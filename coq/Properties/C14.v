(** C14 — layouts are geometrically coherent and orientation-symmetric.
    Statements only; every proof is [exact <lemma of Proofs/LayoutProofs.v or
    Proofs/LayoutExtraProofs.v>].

    [layout o P S r sizes] (Model/Layout.v) is [layout.compute] for orientation [o],
    drawing parameters [P], species tree [S], reconciliation [r] and the measured node
    sizes [sizes] (in measuring order), over exact rationals; its result is a tree of
    [sublayout]s shaped like [S] ([LNode s l r]: an internal species, its first and second
    child), [flatten] lists it in pre-order.  [tp]/[tr]/[t_ltree] exchange x and y
    (and width and height).  [rinside c p]: rectangle [c] lies inside [p];
    [rdisjoint a b]: [a] and [b] have no common interior point; [roverlap]: they have.

    Clause "computing the layout twice gives identical results": NO theorem.  The model is
    a Coq function, so the clause is true of it by construction and says nothing about the
    code; the model has no parameter standing for an iteration order either (species are
    visited in the post-order [spost S] and branches in dict insertion order, both fixed by
    the inputs).  The clause is checked on the implementation by the [twice_same] flag of
    the correspondence batch only.

    Examples (closed instances evaluated by the kernel): [C14_trunks_example],
    [C14_mirror_example], and the refutation witness [C14_trunk_overlap_refuted]. *)
From Coq Require Import List Bool Arith QArith Qminmax.
From SR Require Import Base.PathB Model.Recon Model.Branches Model.Layout Proofs.ReconProofs Proofs.BranchesProofs Proofs.LayoutProofs Proofs.LayoutExtraProofs.
Import ListNotations.
Local Open Scope Q_scope.

(* The horizontal layout is the mirror image (x and y exchanged) of the vertical layout
   computed with width and height of every node exchanged — structural equality of the
   whole result, for every input (also where an exception is raised: [None] on both sides). *)
Theorem C14_mirror : forall P S r sizes,
  layout Horizontal P S r sizes = option_map t_ltree (layout Vertical P S r (map tp sizes)).
Proof. exact mirror. Qed.
Print Assumptions C14_mirror.

(* An instance of the mirror law on the input of C14_trunks_example below: both
   orientations are defined, each side is evaluated separately by the kernel, and the
   instance is not degenerate (swapping changes the sizes, transposing changes the layout,
   the root box is not square). *)
Example C14_mirror_example :
  let S := SNode (SNode SLeaf SLeaf) SLeaf in
  let r := RNode [] (RNode [false] (RNode [false] (RLeaf [false; false]) (RLeaf [false; true])) (RLeaf [false; false]))
                 (RLeaf [true]) in
  let sizes := [(12, 7); (9, 5); (3, 2); (10, 6); (8, 4); (5, 3); (6, 5); (11, 8)] in
  exists tV, layout Vertical default_params S r (map tp sizes) = Some tV /\
  layout Horizontal default_params S r sizes = Some (t_ltree tV) /\
  map tp sizes <> sizes /\ t_ltree tV <> tV /\
  ~ rw (l_rect (linfo tV)) == rh (l_rect (linfo tV)).
Proof. exact mirror_example. Qed.
Print Assumptions C14_mirror_example.

(* For non-negative drawing parameters and node sizes, in both orientations: the boxes of
   the two child species of every internal species lie inside their parent's box ... *)
Theorem C14_child_in_parent : forall o P S r sizes t,
  nonneg_params P -> Forall size_ok sizes -> layout o P S r sizes = Some t ->
  forall s l r', In (LNode s l r') (lsubtrees t) ->
  rinside (l_rect (linfo l)) (l_rect s) /\ rinside (l_rect (linfo r')) (l_rect s).
Proof. exact child_in_parent. Qed.
Print Assumptions C14_child_in_parent.

(* ... and never overlap. *)
Theorem C14_siblings_disjoint : forall o P S r sizes t,
  nonneg_params P -> Forall size_ok sizes -> layout o P S r sizes = Some t ->
  forall s l r', In (LNode s l r') (lsubtrees t) -> rdisjoint (l_rect (linfo l)) (l_rect (linfo r')).
Proof. exact siblings_disjoint. Qed.
Print Assumptions C14_siblings_disjoint.

(* No two species trunks overlap PROVIDED every trunk lies inside its own species box
   (all pairs of the pre-order list). *)
Theorem C14_trunks_disjoint_partial : forall o P S r sizes t,
  nonneg_params P -> Forall size_ok sizes -> layout o P S r sizes = Some t ->
  (forall s, In s (flatten t) -> rinside (l_trunk s) (l_rect s)) ->
  ForallOrdPairs (fun a b => rdisjoint (l_trunk a) (l_trunk b)) (flatten t).
Proof. exact trunks_disjoint_partial. Qed.
Print Assumptions C14_trunks_disjoint_partial.

(* The proviso cannot be dropped (known finding F-TRUNK-OVERLAP, DESIGN section 9): with the
   default parameters and positive sizes in {1, 100}, the trunk of species N (pre-order
   index 4) leaves its own box and overlaps the trunk of species M2 (index 3), which lies
   inside its box. *)
Theorem C14_trunk_overlap_refuted :
  nonneg_params default_params /\ Forall size_ok witness_sizes /\
  layout Vertical default_params witness_S witness_r witness_sizes = Some witness_layout /\
  exists a b, nth_error (flatten witness_layout) 3 = Some a /\ nth_error (flatten witness_layout) 4 = Some b /\
    roverlap (l_trunk a) (l_trunk b) /\ ~ rdisjoint (l_trunk a) (l_trunk b) /\
    rinside (l_trunk a) (l_rect a) /\ ~ rinside (l_trunk b) (l_rect b).
Proof. exact trunk_overlap_refuted. Qed.
Print Assumptions C14_trunk_overlap_refuted.

(* A sufficient condition for the proviso that compares extents only.  [across o R] is the
   extent of [R] across the growth direction (width when vertical, height when
   horizontal); [narrow_at o P s l r']: the trunk of the internal species [s] exceeds
   [min_subtree_spacing] by at most twice the extent of the narrower of its two child
   boxes.  If this holds at every internal species, every trunk lies inside its own
   species box ... *)
Theorem C14_trunk_inside_sufficient : forall o P S r sizes t,
  nonneg_params P -> Forall size_ok sizes -> layout o P S r sizes = Some t ->
  (forall s l r', In (LNode s l r') (lsubtrees t) ->
     across o (l_trunk s) <= mss P + 2 * Qmin (across o (l_rect (linfo l))) (across o (l_rect (linfo r')))) ->
  forall s, In s (flatten t) -> rinside (l_trunk s) (l_rect s).
Proof. exact trunks_inside_narrow. Qed.
Print Assumptions C14_trunk_inside_sufficient.

(* ... and therefore no two trunks overlap. *)
Theorem C14_trunks_disjoint_narrow : forall o P S r sizes t,
  nonneg_params P -> Forall size_ok sizes -> layout o P S r sizes = Some t ->
  (forall s l r', In (LNode s l r') (lsubtrees t) ->
     across o (l_trunk s) <= mss P + 2 * Qmin (across o (l_rect (linfo l))) (across o (l_rect (linfo r')))) ->
  ForallOrdPairs (fun a b => rdisjoint (l_trunk a) (l_trunk b)) (flatten t).
Proof. exact trunks_disjoint_narrow. Qed.
Print Assumptions C14_trunks_disjoint_narrow.

(* The hypotheses of the two trunk theorems are satisfiable on a non-trivial laid-out input:
   species ((A,B)M,C)P, a valid reconciliation whose INTERNAL species M carries a
   speciation, a full loss and a duplication branch, default parameters ([default_params]:
   padding 4, branch spacing 5, trunk overhead 10, min subtree spacing 12, level spacing 4), eight positive
   non-square sizes (exactly one per measured branch).  The layout is evaluated by the
   kernel; every trunk lies inside its own box, the width condition holds at both
   internal species, and the trunks are pairwise disjoint (by C14_trunks_disjoint_partial). *)
Example C14_trunks_example :
  let S := SNode (SNode SLeaf SLeaf) SLeaf in
  let O := ONode (ONode (ONode (OLeaf [false; false] []) (OLeaf [false; true] [])) (OLeaf [false; false] []))
                 (OLeaf [true] []) in
  let r := RNode [] (RNode [false] (RNode [false] (RLeaf [false; false]) (RLeaf [false; true])) (RLeaf [false; false]))
                 (RLeaf [true]) in
  let sizes := [(12, 7); (9, 5); (3, 2); (10, 6); (8, 4); (5, 3); (6, 5); (11, 8)] in
  valid_rec S O r /\
  nonneg_params default_params /\ Forall size_ok sizes /\
  (exists ops, all_ops S r = Some ops /\ length (measured ops (spost S)) = length sizes) /\
  exists lay, layout Vertical default_params S r sizes = Some lay /\
  (exists p m a b c, lay = LNode p (LNode m a b) c /\ map d_kind (l_branches m) = [KSpe; KLoss; KDup]) /\
  (forall s, In s (flatten lay) -> rinside (l_trunk s) (l_rect s)) /\
  (forall s l r', In (LNode s l r') (lsubtrees lay) ->
     across Vertical (l_trunk s) <= mss default_params +
       2 * Qmin (across Vertical (l_rect (linfo l))) (across Vertical (l_rect (linfo r')))) /\
  ForallOrdPairs (fun a b => rdisjoint (l_trunk a) (l_trunk b)) (flatten lay).
Proof. exact trunks_example. Qed.
Print Assumptions C14_trunks_example.

(* Every anchor referenced by a drawn branch exists.  In both orientations the anchors and
   branches of every species of the computed layout (pre-order) are keyed exactly by the
   anchor set and the branch dict that [_compute_branches] leaves for that species
   ([keys_at X ops], Model/Branches.v) ... *)
Theorem C14_layout_keys : forall o P S r sizes t ops,
  all_ops S r = Some ops -> layout o P S r sizes = Some t ->
  map key_of_sub (flatten t) = map (fun X => keys_at X ops) (snodes S).
Proof. exact layout_keys. Qed.
Print Assumptions C14_layout_keys.

(* ... and for a valid reconciliation every reference made by a branch is to a member of
   those sets ([branch_refs_ok], theorem C13_anchors_exist). *)
Theorem C14_anchors_exist : forall o P S O r sizes t,
  valid_rec S O r -> layout o P S r sizes = Some t ->
  exists ops, all_ops S r = Some ops /\
    map key_of_sub (flatten t) = map (fun X => keys_at X ops) (snodes S) /\
    (forall X b, In b (branches_at X ops) -> branch_refs_ok r ops X b) /\
    (forall X a, is_anchor X ops a -> In a (fst (keys_at X ops))).
Proof. exact anchors_exist_layout. Qed.
Print Assumptions C14_anchors_exist.

(* The layout of a valid reconciliation is defined in both orientations, whatever the
   parameters and the measured sizes: [_layout_branches] never meets a missing key (every
   duplication / transfer branch is inserted after the branches it refers to), so the
   hypotheses [layout ... = Some t] of the theorems above are satisfiable on the whole domain. *)
Theorem C14_layout_defined : forall o P S O r sizes,
  valid_rec S O r -> exists t, layout o P S r sizes = Some t.
Proof. exact layout_defined. Qed.
Print Assumptions C14_layout_defined.

(* The two defaults of the model are never taken on inputs Python can produce.

   (1) [zip_sizes] pairs the branches of one species with the next measured sizes and reads
   a MISSING size as [(0, 0)] (the [else Size(0, 0)] of [_layout_branches]).  Python's
   [measure_nodes] returns one box per branch, so the size list is never too short; then
   [zip_sizes] is the plain [combine] (which has no default) and hands the unread sizes on: *)
Theorem C14_zip_sizes_no_default : forall bs sizes,
  (length bs <= length sizes)%nat ->
  zip_sizes bs sizes = (combine bs sizes, skipn (length bs) sizes).
Proof. exact zip_sizes_total. Qed.
Print Assumptions C14_zip_sizes_no_default.

(* ... over all species ([measured ops order]: the branches of the species of [order], in
   measuring order — [branch_nodes]): the measured list is [zip(branch_nodes, sizes)],
   the i-th measured branch gets the i-th size ... *)
Theorem C14_measure_no_default : forall ops order sizes,
  (length (measured ops order) <= length sizes)%nat ->
  flat_map snd (measure_all ops order sizes) = combine (measured ops order) sizes.
Proof. exact measure_all_total. Qed.
Print Assumptions C14_measure_no_default.

(* ... and sizes beyond the number of measured branches are never read: a longer list (the
   correspondence hands the model an upper bound) gives the layout of its prefix of exactly
   one size per branch, the list Python produces.  Hence, with [n] the number of measured
   branches, the theorems above quantify usefully over lists of length [n] only; on
   shorter lists (which Python cannot produce) the model pads with [(0, 0)]. *)
Theorem C14_extra_sizes_ignored : forall o P S r sizes ops n,
  all_ops S r = Some ops -> (length (measured ops (spost S)) <= n)%nat ->
  layout o P S r (firstn n sizes) = layout o P S r sizes.
Proof. exact layout_firstn. Qed.
Print Assumptions C14_extra_sizes_ignored.

(* (2) [layout] reads the result of [_layout_branches] for a species through [pfind], with
   [empty_slay] for a missing key.  Every species of [S] is a key (whenever no species
   raised), in both orientations ... *)
Theorem C14_pfind_no_default : forall sp ops S sizes lays,
  all_species sp ops (measure_all ops (spost S) sizes) = Some lays ->
  forall X, In X (snodes S) -> exists sl, pfind X lays = Some sl.
Proof. exact pfind_no_default. Qed.
Print Assumptions C14_pfind_no_default.

(* ... and only species of [S] are looked up: [layout_with d] (Proofs/LayoutExtraProofs.v)
   is [layout] with an arbitrary [d] in place of [empty_slay]; the result does not depend
   on [d], for all inputs. *)
Theorem C14_default_irrelevant : forall d o P S r sizes,
  layout_with d o P S r sizes = layout o P S r sizes.
Proof. exact layout_default_irrelevant. Qed.
Print Assumptions C14_default_irrelevant.
