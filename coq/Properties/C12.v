(** C12 — the command-line tool names nodes (label_internal, get_species_mapping)
    and dispatches the algorithms as documented.
    Statements only; every proof is [exact <lemma of Proofs/LabelProofs.v>].
    The vocabulary ([fills], [least_fresh], [is_uprefix], [matches],
    [documented_algorithms], [expected_decision]) is defined at the top of the
    sections of Proofs/LabelProofs.v; the models are Model/Label.v, Model/Cli.v;
    [cli_table] is Gen/CliTable.v, regenerated from cli/reconcile.py on every run.

    Process-level clauses of the property (exit status, JSON lines, parsed-back
    cost = printed cost, all >= any, draw accepts the objects) are not theorems:
    they are sampled by the correspondence check (harness/props/c12.py). *)
From Coq Require Import List Bool Arith String Sorted.
From SR Require Import Model.Label Gen.CliTable Model.Cli Proofs.LabelProofs.
Import ListNotations.

(** ** label_internal *)

(* For every tree (any shape, any names): the labelling terminates (never runs out
   of fuel) with a tree of the same shape in which every node has a name that is
   neither empty nor "NoName"; the given names are untouched and the unnamed nodes
   receive, in pre-order, "O" ++ k for strictly increasing indices k, each the
   least index above the previous one whose name is not already in the input;
   and all names are pairwise distinct as soon as the given ones are. *)
Theorem C12_label_distinct_nonempty_object : forall t : ntree string,
  exists t', label_object_tree t = Some t' /\ shape t' = shape t /\
    Forall (fun y => is_unnamed y = false) (preorder t') /\
    (exists ks, fills is_unnamed (gen_name "O") (preorder t) ks (preorder t') /\
                StronglySorted lt ks /\ least_fresh (gen_name "O") (preorder t) 0 ks) /\
    (NoDup (filter (named is_unnamed) (preorder t)) -> NoDup (preorder t')).
Proof.
  exact (label_internal_distinct_nonempty String.eqb is_unnamed (gen_name "O")
           String.eqb_spec (gen_name_inj "O") gen_O_named).
Qed.
Print Assumptions C12_label_distinct_nonempty_object.

Theorem C12_label_distinct_nonempty_species : forall t : ntree string,
  exists t', label_species_tree t = Some t' /\ shape t' = shape t /\
    Forall (fun y => is_unnamed y = false) (preorder t') /\
    (exists ks, fills is_unnamed (gen_name "S") (preorder t) ks (preorder t') /\
                StronglySorted lt ks /\ least_fresh (gen_name "S") (preorder t) 0 ks) /\
    (NoDup (filter (named is_unnamed) (preorder t)) -> NoDup (preorder t')).
Proof.
  exact (label_internal_distinct_nonempty String.eqb is_unnamed (gen_name "S")
           String.eqb_spec (gen_name_inj "S") gen_S_named).
Qed.
Print Assumptions C12_label_distinct_nonempty_species.

(* the same, position by position in pre-order: a given name is kept, an unnamed
   node gets a generated name *)
Theorem C12_label_given_names_untouched : forall (prefix : string) (t t' : ntree string),
  (prefix = "O" \/ prefix = "S")%string ->
  label_internal String.eqb is_unnamed (gen_name prefix) t = Some t' ->
  Forall2 (fun x y => if is_unnamed x then exists k, y = gen_name prefix k else y = x)
          (preorder t) (preorder t').
Proof.
  intros prefix t t' [-> | ->].
  - exact (label_internal_pointwise String.eqb is_unnamed (gen_name "O")
             String.eqb_spec (gen_name_inj "O") gen_O_named t t').
  - exact (label_internal_pointwise String.eqb is_unnamed (gen_name "S")
             String.eqb_spec (gen_name_inj "S") gen_S_named t t').
Qed.
Print Assumptions C12_label_given_names_untouched.

Theorem C12_label_idempotent_object : forall t t' : ntree string,
  label_object_tree t = Some t' -> label_object_tree t' = Some t'.
Proof.
  exact (label_internal_idempotent String.eqb is_unnamed (gen_name "O")
           String.eqb_spec (gen_name_inj "O") gen_O_named).
Qed.
Print Assumptions C12_label_idempotent_object.

Theorem C12_label_idempotent_species : forall t t' : ntree string,
  label_species_tree t = Some t' -> label_species_tree t' = Some t'.
Proof.
  exact (label_internal_idempotent String.eqb is_unnamed (gen_name "S")
           String.eqb_spec (gen_name_inj "S") gen_S_named).
Qed.
Print Assumptions C12_label_idempotent_species.

(* the generated names are those the README documents: the prefix followed by the
   decimal notation of the index, distinct for distinct indices *)
Theorem C12_generated_names_injective : forall prefix i j,
  gen_name prefix i = gen_name prefix j -> i = j.
Proof. exact gen_name_inj. Qed.
Print Assumptions C12_generated_names_injective.

(** ** get_species_mapping ([species] = names of the species leaves, in leaf order) *)

(* an object name is mapped to species leaf #i exactly through its shortest
   underscore-terminated prefix that names a species leaf (non-empty name, equal up
   to ASCII case); among leaves with that name the last one is taken *)
Theorem C12_species_prefix_mapping_some : forall species name i,
  species_prefix_mapping species name = Some i ->
  exists p,
    is_uprefix p name /\
    matches species p i /\ (forall j, matches species p j -> j <= i) /\
    (forall p', is_uprefix p' name -> String.length p' < String.length p ->
                forall j, ~ matches species p' j).
Proof. exact species_prefix_mapping_some. Qed.
Print Assumptions C12_species_prefix_mapping_some.

(* and it is left unmapped only when no such prefix names a species leaf *)
Theorem C12_species_prefix_mapping_none : forall species name,
  species_prefix_mapping species name = None ->
  forall p, is_uprefix p name -> forall j, ~ matches species p j.
Proof. exact species_prefix_mapping_none. Qed.
Print Assumptions C12_species_prefix_mapping_none.

(** ** dispatch, over the table generated from cli/reconcile.py *)

(* all seven documented algorithm keys are in the table; a super-reconciliation
   algorithm on an input without syntenies is refused ([Error]: status 1, nothing
   written), every other combination runs (a plain algorithm on an input with
   syntenies after a warning) *)
Theorem C12_dispatch_table :
  List.length documented_algorithms = 7 /\
  (forall key is_super, In (key, is_super) documented_algorithms ->
   forall has_syntenies,
     dispatch key has_syntenies =
     Decided (if is_super then (if has_syntenies then Run else Error)
              else (if has_syntenies then RunWithWarning else Run))).
Proof. split; [reflexivity | exact dispatch_documented]. Qed.
Print Assumptions C12_dispatch_table.

(* for any key of the generated table, documented or not: refused exactly when its
   function is annotated with SuperReconciliationInput and the input has no syntenies *)
Theorem C12_dispatch_error_iff : forall key has_syntenies,
  dispatch key has_syntenies = Decided Error <->
  exists takes_policy,
    lookup key cli_table = Some (SuperReconciliationInput, takes_policy) /\ has_syntenies = false.
Proof. exact dispatch_error_iff. Qed.
Print Assumptions C12_dispatch_error_iff.

(** ** non-vacuity *)

Local Open Scope string_scope.

(* partially named tree whose given names look like generated ones: O0 and O2 are
   skipped, the three unnamed nodes get O1, O3, O4 in pre-order; the hypothesis of
   the distinctness clause holds for it *)
Example C12_example_label :
  let t := NT "" [NT "NoName" [NT "x_1" []; NT "x_2" []];
                  NT "O0" [NT "y_1" []; NT "" [NT "O2" [NT "y_2" []; NT "y_3" []]; NT "z_1" []]]] in
  label_object_tree t =
    Some (NT "O1" [NT "O3" [NT "x_1" []; NT "x_2" []];
                   NT "O0" [NT "y_1" []; NT "O4" [NT "O2" [NT "y_2" []; NT "y_3" []]; NT "z_1" []]]])
  /\ NoDup (filter (named is_unnamed) (preorder t)).
Proof.
  split; [reflexivity|]. simpl.
  repeat (constructor; [simpl; intuition discriminate|]). constructor.
Qed.

(* the README input: ((x_1,x_2),y_1); on (X,Y); *)
Example C12_example_readme :
  label_object_tree (NT "" [NT "" [NT "x_1" []; NT "x_2" []]; NT "y_1" []])
    = Some (NT "O0" [NT "O1" [NT "x_1" []; NT "x_2" []]; NT "y_1" []])
  /\ label_species_tree (NT "" [NT "X" []; NT "Y" []]) = Some (NT "S0" [NT "X" []; NT "Y" []])
  /\ map (species_prefix_mapping ["X"; "Y"]) ["x_1"; "x_2"; "y_1"; "z_1"; "xy"] = [Some 0; Some 0; Some 1; None; None]
  /\ species_prefix_mapping ["a"; "a_b"; "A_B"] "a_b_1" = Some 0
  /\ species_prefix_mapping ["c"; "a_b"; "A_B"] "a_b_1" = Some 2.
Proof. repeat split. Qed.

Example C12_example_dispatch :
  dispatch "superdtl" false = Decided Error /\ dispatch "superdtl" true = Decided Run /\
  dispatch "lca" true = Decided RunWithWarning /\ dispatch "lca" false = Decided Run /\
  dispatch "spfs" true = Rejected.
Proof. repeat split. Qed.
