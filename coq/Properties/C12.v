(** C12 — the command-line tool names nodes (label_internal, get_species_mapping)
    and dispatches the algorithms as documented.
    Statements only; every proof is [exact <lemma of Proofs/LabelProofs.v>].
    The vocabulary ([fills], [least_fresh], [is_uprefix], [matches],
    [documented_algorithms], [expected_decision]) is defined at the top of the
    sections of Proofs/LabelProofs.v; the models are Model/Label.v, Model/Cli.v;
    [cli_table] is Gen/CliTable.v, regenerated from cli/reconcile.py on every run.

    The whole command (second half of this file) is the model Model/CliRun.v with the theorems
    of Proofs/CliRunProofs.v and Proofs/CliExtraProofs.v: exit status / what is written, one
    JSON object per solution and no object twice, distinct non-empty names in the written
    trees, parsed-back cost = printed minimum, all >= any (inside the coherent region), a
    super-reconciliation algorithm without syntenies writes nothing -- for input files with
    or without a "leaf_object_species" entry (<species>_<id> naming convention).
    What remains sampled by the correspondence check (harness/props/c12.py): that [cli_run]
    agrees with the real tool, and that [draw] accepts the written objects. *)
From Coq Require Import List Bool Arith String Sorted.
From SR Require Import Model.Label Gen.CliTable Model.Cli Proofs.LabelProofs.
Import ListNotations.

(** ** label_internal *)

(* For every tree (any shape, any names): the labelling terminates (never runs out
   of fuel) with a tree of the same shape in which every node has a name that is
   neither empty nor "NoName"; the given names are untouched and the unnamed nodes
   receive, in pre-order, "O" ++ k for strictly increasing indices k, each the
   least index above the previous one whose name is not already in the input;
   and all names are pairwise distinct as soon as the given ones are. *)
Theorem C12_label_distinct_nonempty_object : forall t : ntree string,
  exists t', label_object_tree t = Some t' /\ shape t' = shape t /\
    Forall (fun y => is_unnamed y = false) (preorder t') /\
    (exists ks, fills is_unnamed (gen_name "O") (preorder t) ks (preorder t') /\
                StronglySorted lt ks /\ least_fresh (gen_name "O") (preorder t) 0 ks) /\
    (NoDup (filter (named is_unnamed) (preorder t)) -> NoDup (preorder t')).
Proof.
  exact (label_internal_distinct_nonempty String.eqb is_unnamed (gen_name "O")
           String.eqb_spec (gen_name_inj "O") gen_O_named).
Qed.
Print Assumptions C12_label_distinct_nonempty_object.

Theorem C12_label_distinct_nonempty_species : forall t : ntree string,
  exists t', label_species_tree t = Some t' /\ shape t' = shape t /\
    Forall (fun y => is_unnamed y = false) (preorder t') /\
    (exists ks, fills is_unnamed (gen_name "S") (preorder t) ks (preorder t') /\
                StronglySorted lt ks /\ least_fresh (gen_name "S") (preorder t) 0 ks) /\
    (NoDup (filter (named is_unnamed) (preorder t)) -> NoDup (preorder t')).
Proof.
  exact (label_internal_distinct_nonempty String.eqb is_unnamed (gen_name "S")
           String.eqb_spec (gen_name_inj "S") gen_S_named).
Qed.
Print Assumptions C12_label_distinct_nonempty_species.

(* the same, position by position in pre-order: a given name is kept, an unnamed
   node gets a generated name *)
Theorem C12_label_given_names_untouched : forall (prefix : string) (t t' : ntree string),
  (prefix = "O" \/ prefix = "S")%string ->
  label_internal String.eqb is_unnamed (gen_name prefix) t = Some t' ->
  Forall2 (fun x y => if is_unnamed x then exists k, y = gen_name prefix k else y = x)
          (preorder t) (preorder t').
Proof.
  intros prefix t t' [-> | ->].
  - exact (label_internal_pointwise String.eqb is_unnamed (gen_name "O")
             String.eqb_spec (gen_name_inj "O") gen_O_named t t').
  - exact (label_internal_pointwise String.eqb is_unnamed (gen_name "S")
             String.eqb_spec (gen_name_inj "S") gen_S_named t t').
Qed.
Print Assumptions C12_label_given_names_untouched.

Theorem C12_label_idempotent_object : forall t t' : ntree string,
  label_object_tree t = Some t' -> label_object_tree t' = Some t'.
Proof.
  exact (label_internal_idempotent String.eqb is_unnamed (gen_name "O")
           String.eqb_spec (gen_name_inj "O") gen_O_named).
Qed.
Print Assumptions C12_label_idempotent_object.

Theorem C12_label_idempotent_species : forall t t' : ntree string,
  label_species_tree t = Some t' -> label_species_tree t' = Some t'.
Proof.
  exact (label_internal_idempotent String.eqb is_unnamed (gen_name "S")
           String.eqb_spec (gen_name_inj "S") gen_S_named).
Qed.
Print Assumptions C12_label_idempotent_species.

(* the generated names are those the README documents: the prefix followed by the
   decimal notation of the index, distinct for distinct indices *)
Theorem C12_generated_names_injective : forall prefix i j,
  gen_name prefix i = gen_name prefix j -> i = j.
Proof. exact gen_name_inj. Qed.
Print Assumptions C12_generated_names_injective.

(** ** get_species_mapping ([species] = names of the species leaves, in leaf order) *)

(* an object name is mapped to species leaf #i exactly through its shortest
   underscore-terminated prefix that names a species leaf (non-empty name, equal up
   to ASCII case); among leaves with that name the last one is taken *)
Theorem C12_species_prefix_mapping_some : forall species name i,
  species_prefix_mapping species name = Some i ->
  exists p,
    is_uprefix p name /\
    matches species p i /\ (forall j, matches species p j -> j <= i) /\
    (forall p', is_uprefix p' name -> String.length p' < String.length p ->
                forall j, ~ matches species p' j).
Proof. exact species_prefix_mapping_some. Qed.
Print Assumptions C12_species_prefix_mapping_some.

(* and it is left unmapped only when no such prefix names a species leaf *)
Theorem C12_species_prefix_mapping_none : forall species name,
  species_prefix_mapping species name = None ->
  forall p, is_uprefix p name -> forall j, ~ matches species p j.
Proof. exact species_prefix_mapping_none. Qed.
Print Assumptions C12_species_prefix_mapping_none.

(** ** dispatch, over the table generated from cli/reconcile.py *)

(* all seven documented algorithm keys are in the table; a super-reconciliation
   algorithm on an input without syntenies is refused ([Error]: status 1, nothing
   written), every other combination runs (a plain algorithm on an input with
   syntenies after a warning) *)
Theorem C12_dispatch_table :
  List.length documented_algorithms = 7 /\
  (forall key is_super, In (key, is_super) documented_algorithms ->
   forall has_syntenies,
     dispatch key has_syntenies =
     Decided (if is_super then (if has_syntenies then Run else Error)
              else (if has_syntenies then RunWithWarning else Run))).
Proof. split; [reflexivity | exact dispatch_documented]. Qed.
Print Assumptions C12_dispatch_table.

(* for any key of the generated table, documented or not: refused exactly when its
   function is annotated with SuperReconciliationInput and the input has no syntenies *)
Theorem C12_dispatch_error_iff : forall key has_syntenies,
  dispatch key has_syntenies = Decided Error <->
  exists takes_policy,
    lookup key cli_table = Some (SuperReconciliationInput, takes_policy) /\ has_syntenies = false.
Proof. exact dispatch_error_iff. Qed.
Print Assumptions C12_dispatch_error_iff.

(** ** non-vacuity *)

Local Open Scope string_scope.

(* partially named tree whose given names look like generated ones: O0 and O2 are
   skipped, the three unnamed nodes get O1, O3, O4 in pre-order; the hypothesis of
   the distinctness clause holds for it *)
Example C12_example_label :
  let t := NT "" [NT "NoName" [NT "x_1" []; NT "x_2" []];
                  NT "O0" [NT "y_1" []; NT "" [NT "O2" [NT "y_2" []; NT "y_3" []]; NT "z_1" []]]] in
  label_object_tree t =
    Some (NT "O1" [NT "O3" [NT "x_1" []; NT "x_2" []];
                   NT "O0" [NT "y_1" []; NT "O4" [NT "O2" [NT "y_2" []; NT "y_3" []]; NT "z_1" []]]])
  /\ NoDup (filter (named is_unnamed) (preorder t)).
Proof.
  split; [reflexivity|]. simpl.
  repeat (constructor; [simpl; intuition discriminate|]). constructor.
Qed.

(* the README input: ((x_1,x_2),y_1); on (X,Y); *)
Example C12_example_readme :
  label_object_tree (NT "" [NT "" [NT "x_1" []; NT "x_2" []]; NT "y_1" []])
    = Some (NT "O0" [NT "O1" [NT "x_1" []; NT "x_2" []]; NT "y_1" []])
  /\ label_species_tree (NT "" [NT "X" []; NT "Y" []]) = Some (NT "S0" [NT "X" []; NT "Y" []])
  /\ map (species_prefix_mapping ["X"; "Y"]) ["x_1"; "x_2"; "y_1"; "z_1"; "xy"] = [Some 0; Some 0; Some 1; None; None]
  /\ species_prefix_mapping ["a"; "a_b"; "A_B"] "a_b_1" = Some 0
  /\ species_prefix_mapping ["c"; "a_b"; "A_B"] "a_b_1" = Some 2.
Proof. repeat split. Qed.

Example C12_example_dispatch :
  dispatch "superdtl" false = Decided Error /\ dispatch "superdtl" true = Decided Run /\
  dispatch "lca" true = Decided RunWithWarning /\ dispatch "lca" false = Decided Run /\
  dispatch "spfs" true = Rejected.
Proof. repeat split. Qed.

(** * The whole command on binary inputs (Model/CliRun.v, Proofs/CliRunProofs.v)

    [cli_run] mirrors read_input -> label_internal -> call_algorithm -> the solver -> dump_results; what is
    printed as "Minimum cost" is the evaluated cost of the first result.  Every written object parses back (C11
    reader) to a solution whose evaluated cost is the printed minimum (any costs, any policy); inside the
    coherent region the object written under --solutions any is one of those written under --solutions all,
    with the same printed minimum; the written trees carry the names label_internal gives; a
    super-reconciliation algorithm without syntenies writes nothing.  Statements as Coq prints them. *)

From SR Require Import Model.CliRun Proofs.CliRunProofs.

Theorem C12_cli_objects_parse_back :
  forall (x : cli_input) (inp : Serial.any_input) (warned : bool) 
         (m : Ext.ext) (objs : list out_obj),
       read_input x = Some inp ->
       cli_input_wf inp ->
       ThlProofs.nn (Recon.c_hgt (ci_costs x)) ->
       cli_run x = CliOk warned m objs ->
       forall d : out_obj,
       In d objs ->
       exists r : Serial.routput + Serial.soutput,
         parse_back d = Some r /\
         result_input r = Serial.Plain (Serial.base_of inp) /\
         eval_result (fam_num (input_table inp)) r = Some m.
Proof. exact @cli_objects_parse_back. Qed.
Print Assumptions C12_cli_objects_parse_back.

Theorem C12_cli_objects_parse_back_own :
  forall (x : cli_input) (inp : Serial.any_input) (warned : bool) 
         (m : Ext.ext) (objs : list out_obj),
       read_input x = Some inp ->
       cli_input_wf inp ->
       ThlProofs.nn (Recon.c_hgt (ci_costs x)) ->
       cli_run x = CliOk warned m objs ->
       forall d : out_obj,
       In d objs ->
       exists r : Serial.routput + Serial.soutput,
         parse_back d = Some r /\
         result_input r = Serial.Plain (Serial.base_of inp) /\ eval_result (own_num r) r = Some m.
Proof. exact @cli_objects_parse_back_own. Qed.
Print Assumptions C12_cli_objects_parse_back_own.

Theorem C12_cli_objects_parse_back_wf :
  forall (x : cli_input) (warned : bool) (m : Ext.ext) (objs : list out_obj),
       cli_wf x ->
       ThlProofs.nn (Recon.c_hgt (ci_costs x)) ->
       cli_run x = CliOk warned m objs ->
       exists inp : Serial.any_input,
         read_input x = Some inp /\
         (forall d : out_obj,
          In d objs ->
          exists r : Serial.routput + Serial.soutput,
            parse_back d = Some r /\
            result_input r = Serial.Plain (Serial.base_of inp) /\
            eval_result (own_num r) r = Some m).
Proof. exact @cli_objects_parse_back_wf. Qed.
Print Assumptions C12_cli_objects_parse_back_wf.

Theorem C12_cli_all_superset_any :
  forall (x : cli_input) (inp : Serial.any_input) (wa : bool) (ma : Ext.ext)
         (oa : list out_obj) (wl : bool) (ml : Ext.ext) (ol : list out_obj),
       read_input x = Some inp ->
       cli_input_wf inp ->
       ThlProofs.nn (Recon.c_hgt (ci_costs x)) ->
       cli_region (ci_algo x) (ci_costs x) ->
       cli_run (set_policy x Entry.RANY) = CliOk wa ma oa ->
       cli_run (set_policy x Entry.RALL) = CliOk wl ml ol -> incl oa ol /\ ma = ml.
Proof. exact @cli_all_superset_any. Qed.
Print Assumptions C12_cli_all_superset_any.

Theorem C12_cli_all_superset_any_wf :
  forall (x : cli_input) (wa : bool) (ma : Ext.ext) (oa : list out_obj) 
         (wl : bool) (ml : Ext.ext) (ol : list out_obj),
       cli_wf x ->
       ThlProofs.nn (Recon.c_hgt (ci_costs x)) ->
       cli_region (ci_algo x) (ci_costs x) ->
       cli_run (set_policy x Entry.RANY) = CliOk wa ma oa ->
       cli_run (set_policy x Entry.RALL) = CliOk wl ml ol -> incl oa ol /\ ma = ml.
Proof. exact @cli_all_superset_any_wf. Qed.
Print Assumptions C12_cli_all_superset_any_wf.

Theorem C12_cli_region_of_coherent :
  forall (key : string) (c : Recon.costs),
       BinInt.Z.le BinNums.Z0 (Recon.c_floss c) ->
       BinInt.Z.le BinNums.Z0 (Recon.c_sloss c) ->
       BinInt.Z.le
         (BinInt.Z.add (Recon.c_spe c)
            (BinInt.Z.mul (BinNums.Zpos (BinNums.xO BinNums.xH)) (Recon.c_sloss c)))
         (BinInt.Z.add (Recon.c_dup c)
            (BinInt.Z.mul (BinNums.Zpos (BinNums.xO BinNums.xH)) (Recon.c_floss c))) ->
       cli_region key c.
Proof. exact @cli_region_of_coherent. Qed.
Print Assumptions C12_cli_region_of_coherent.

Theorem C12_cli_names :
  forall (x : cli_input) (warned : bool) (m : Ext.ext) (objs : list out_obj),
       cli_run x = CliOk warned m objs ->
       exists O' S' : ntree string,
         labelled "O" (ci_otree x) O' /\
         labelled "S" (ci_stree x) S' /\
         (forall d : out_obj,
          In d objs ->
          Serial.d_otree (obj_base d) = Newick.print_tree (tree_of O') /\
          Serial.d_stree (obj_base d) = Newick.print_tree (tree_of S')).
Proof. exact @cli_names. Qed.
Print Assumptions C12_cli_names.

Theorem C12_written_tree_names :
  forall t : ntree string,
       Forall good_name (preorder t) ->
       exists u : Newick.tree,
         Newick.parse_tree (Newick.print_tree (tree_of t)) = Some u /\ Serial.names u = preorder t.
Proof. exact @written_tree_names. Qed.
Print Assumptions C12_written_tree_names.

Theorem C12_cli_super_without_syntenies :
  forall x : cli_input,
       is_super (ci_algo x) = true ->
       ci_leafsyn x = None ->
       cli_run x = match read_input x with
                   | Some _ => CliError
                   | None => CliRaise
                   end.
Proof. exact @cli_super_without_syntenies. Qed.
Print Assumptions C12_cli_super_without_syntenies.

Theorem C12_cli_super_without_syntenies_writes_nothing :
  forall (x : cli_input) (warned : bool) (m : Ext.ext) (objs : list out_obj),
       is_super (ci_algo x) = true -> ci_leafsyn x = None -> cli_run x <> CliOk warned m objs.
Proof. exact @cli_super_without_syntenies_writes_nothing. Qed.
Print Assumptions C12_cli_super_without_syntenies_writes_nothing.

Theorem C12_read_input_wf :
  forall (x : cli_input) (inp : Serial.any_input),
       cli_wf x -> read_input x = Some inp -> cli_input_wf inp.
Proof. exact @read_input_wf. Qed.
Print Assumptions C12_read_input_wf.

Theorem C12_eval_numbering_irrelevant :
  forall num1 num2 : string -> option Recon.fam,
       num_inj num1 ->
       num_inj num2 ->
       forall (x : Serial.soutput) (v : Ext.ext),
       (forall s : string, In s (syn_strings (Serial.syns x)) -> num2 s <> None) ->
       eval_soutput num1 x = Some v -> eval_soutput num2 x = Some v.
Proof. exact @eval_numbering_irrelevant. Qed.
Print Assumptions C12_eval_numbering_irrelevant.

(** * Complements (Proofs/CliExtraProofs.v) *)
From SR Require Import Proofs.CliExtraProofs.

(** ** the naming-convention path: an input file without "leaf_object_species"

    [cli_wf] above demands the entry; [cli_wf_any] is the hypothesis on the input FILE that covers both
    cases (spelled out by [C12_cli_wf_any_unfold]: when the entry is absent nothing is required of the
    leaf mapping, because [get_species_mapping] always builds a mapping keyed by distinct existing
    object leaves with existing species leaves as values, [C12_species_mapping_wf]).  A leaf whose name
    follows no species is simply left out of the mapping and the solver then raises KeyError
    ([CliRaise], see the example): the theorems below are about successful runs *)

Theorem C12_cli_wf_any_unfold :
  forall x : cli_input,
       cli_wf_any x <->
       Forall (fun n : string => is_unnamed n = true \/ NewickProofs.ok_word n = true)
         (preorder (ci_otree x)) /\
       Forall (fun n : string => is_unnamed n = true \/ NewickProofs.ok_word n = true)
         (preorder (ci_stree x)) /\
       NoDup (filter (named is_unnamed) (preorder (ci_otree x))) /\
       NoDup (filter (named is_unnamed) (preorder (ci_stree x))) /\
       (forall d : Serial.dict string, ci_leafmap x = Some d -> NoDup (map fst d)) /\
       (forall d : Serial.dict (list string),
        ci_leafsyn x = Some d ->
        NoDup (map fst d) /\ Forall (fun kv : string * list string => snd kv <> []) d).
Proof. exact @cli_wf_any_unfold. Qed.
Print Assumptions C12_cli_wf_any_unfold.

Theorem C12_cli_wf_any_of_wf :
  forall x : cli_input, cli_wf x -> cli_wf_any x.
Proof. exact @cli_wf_any_of_wf. Qed.
Print Assumptions C12_cli_wf_any_of_wf.

Theorem C12_cli_wf_any_convention :
  forall x : cli_input,
       Forall (fun n : string => is_unnamed n = true \/ NewickProofs.ok_word n = true)
         (preorder (ci_otree x)) ->
       Forall (fun n : string => is_unnamed n = true \/ NewickProofs.ok_word n = true)
         (preorder (ci_stree x)) ->
       NoDup (filter (named is_unnamed) (preorder (ci_otree x))) ->
       NoDup (filter (named is_unnamed) (preorder (ci_stree x))) ->
       ci_leafmap x = None ->
       (forall d : Serial.dict (list string),
        ci_leafsyn x = Some d ->
        NoDup (map fst d) /\ Forall (fun kv : string * list string => snd kv <> []) d) ->
       cli_wf_any x.
Proof. exact @cli_wf_any_convention. Qed.
Print Assumptions C12_cli_wf_any_convention.

Theorem C12_species_mapping_wf :
  forall O S : Newick.tree, SerialProofs.wf_tmap O S (species_mapping O S).
Proof. exact @species_mapping_wf. Qed.
Print Assumptions C12_species_mapping_wf.

Theorem C12_species_mapping_spec :
  forall (O S : Newick.tree) (p q : Serial.path),
       In (p, q) (species_mapping O S) ->
       In p (leaf_paths O) /\
       (exists (n : string) (i : nat),
          Serial.name_at O p = Some n /\
          species_prefix_mapping
            (map
               (fun p0 : Serial.path =>
                match Serial.name_at S p0 with
                | Some n0 => n0
                | None => ""
                end) (leaf_paths S)) n = Some i /\ nth_error (leaf_paths S) i = Some q).
Proof. exact @species_mapping_spec. Qed.
Print Assumptions C12_species_mapping_spec.

Theorem C12_read_input_wf_any :
  forall (x : cli_input) (inp : Serial.any_input),
       cli_wf_any x -> read_input x = Some inp -> cli_input_wf inp.
Proof. exact @read_input_wf_any. Qed.
Print Assumptions C12_read_input_wf_any.

Theorem C12_read_input_wf_convention :
  forall (x : cli_input) (inp : Serial.any_input),
       Forall (fun n : string => is_unnamed n = true \/ NewickProofs.ok_word n = true)
         (preorder (ci_otree x)) ->
       Forall (fun n : string => is_unnamed n = true \/ NewickProofs.ok_word n = true)
         (preorder (ci_stree x)) ->
       NoDup (filter (named is_unnamed) (preorder (ci_otree x))) ->
       NoDup (filter (named is_unnamed) (preorder (ci_stree x))) ->
       ci_leafmap x = None ->
       (forall d : Serial.dict (list string),
        ci_leafsyn x = Some d ->
        NoDup (map fst d) /\ Forall (fun kv : string * list string => snd kv <> []) d) ->
       read_input x = Some inp ->
       cli_input_wf inp /\
       Serial.leafmap (Serial.base_of inp) =
       species_mapping (tree_of (ci_otree x)) (tree_of (ci_stree x)).
Proof. exact @read_input_wf_convention. Qed.
Print Assumptions C12_read_input_wf_convention.

Theorem C12_cli_objects_parse_back_wf_any :
  forall (x : cli_input) (warned : bool) (m : Ext.ext) (objs : list out_obj),
       cli_wf_any x ->
       ThlProofs.nn (Recon.c_hgt (ci_costs x)) ->
       cli_run x = CliOk warned m objs ->
       exists inp : Serial.any_input,
         read_input x = Some inp /\
         (forall d : out_obj,
          In d objs ->
          exists r : Serial.routput + Serial.soutput,
            parse_back d = Some r /\
            result_input r = Serial.Plain (Serial.base_of inp) /\
            eval_result (own_num r) r = Some m).
Proof. exact @cli_objects_parse_back_wf_any. Qed.
Print Assumptions C12_cli_objects_parse_back_wf_any.

Theorem C12_cli_all_superset_any_wf_any :
  forall (x : cli_input) (wa : bool) (ma : Ext.ext) (oa : list out_obj) 
         (wl : bool) (ml : Ext.ext) (ol : list out_obj),
       cli_wf_any x ->
       ThlProofs.nn (Recon.c_hgt (ci_costs x)) ->
       cli_region (ci_algo x) (ci_costs x) ->
       cli_run (set_policy x Entry.RANY) = CliOk wa ma oa ->
       cli_run (set_policy x Entry.RALL) = CliOk wl ml ol -> incl oa ol /\ ma = ml.
Proof. exact @cli_all_superset_any_wf_any. Qed.
Print Assumptions C12_cli_all_superset_any_wf_any.


(** ** the names one reads in the two trees of every written object: pairwise distinct, non-empty
    words over [A-Za-z0-9_], the given names untouched and every unnamed node called O<k> / S<k>
    ([good_name n] is [n <> "" /\ ok_word n = true]; composition of [C12_cli_names],
    [C12_written_tree_names] and the [labelled] facts) *)

Theorem C12_cli_written_names_distinct :
  forall (x : cli_input) (warned : bool) (m : Ext.ext) (objs : list out_obj),
       cli_wf_any x ->
       cli_run x = CliOk warned m objs ->
       forall d : out_obj,
       In d objs ->
       exists uo us : Newick.tree,
         Newick.parse_tree (Serial.d_otree (obj_base d)) = Some uo /\
         Newick.parse_tree (Serial.d_stree (obj_base d)) = Some us /\
         NoDup (Serial.names uo) /\
         NoDup (Serial.names us) /\
         Forall good_name (Serial.names uo) /\
         Forall good_name (Serial.names us) /\
         Forall2
           (fun a b : string => if is_unnamed a then exists k : nat, b = gen_name "O" k else b = a)
           (preorder (ci_otree x)) (Serial.names uo) /\
         Forall2
           (fun a b : string => if is_unnamed a then exists k : nat, b = gen_name "S" k else b = a)
           (preorder (ci_stree x)) (Serial.names us).
Proof. exact @cli_written_names_distinct. Qed.
Print Assumptions C12_cli_written_names_distinct.

Theorem C12_cli_written_names_distinct_wf :
  forall (x : cli_input) (warned : bool) (m : Ext.ext) (objs : list out_obj),
       cli_wf x ->
       cli_run x = CliOk warned m objs ->
       forall d : out_obj,
       In d objs ->
       exists uo us : Newick.tree,
         Newick.parse_tree (Serial.d_otree (obj_base d)) = Some uo /\
         Newick.parse_tree (Serial.d_stree (obj_base d)) = Some us /\
         NoDup (Serial.names uo) /\
         NoDup (Serial.names us) /\
         Forall good_name (Serial.names uo) /\
         Forall good_name (Serial.names us) /\
         Forall2
           (fun a b : string => if is_unnamed a then exists k : nat, b = gen_name "O" k else b = a)
           (preorder (ci_otree x)) (Serial.names uo) /\
         Forall2
           (fun a b : string => if is_unnamed a then exists k : nat, b = gen_name "S" k else b = a)
           (preorder (ci_stree x)) (Serial.names us).
Proof. exact @cli_written_names_distinct_wf. Qed.
Print Assumptions C12_cli_written_names_distinct_wf.


(** ** one JSON object per solution: the written objects are the [to_dict()]s of the solver's
    pairwise distinct results, one each, and no object is written twice (an unordered result is
    written with sorted syntenies; the unordered solver never returns two results that differ only in
    the order in which a synteny is listed) *)

Theorem C12_cli_objects_count :
  forall (x : cli_input) (warned : bool) (m : Ext.ext) (objs : list out_obj),
       cli_run x = CliOk warned m objs ->
       exists
         (inp : Serial.any_input) (St : Recon.stree) (ls : option (list (npath * list Recon.fam))) 
       (Ot : Recon.otree) (sols : list solution),
         read_input x = Some inp /\
         to_stree (Serial.stree (Serial.base_of inp)) = Some St /\
         to_otree (Serial.otree (Serial.base_of inp)) (Serial.leafmap (Serial.base_of inp)) ls =
         Some Ot /\
         run_algo (ci_algo x) (ci_policy x) (ci_costs x) St Ot = Some sols /\
         NoDup sols /\
         Serial.mapM (write_solution inp (input_table inp)) sols = Some objs /\
         Datatypes.length objs = Datatypes.length sols.
Proof. exact @cli_objects_count. Qed.
Print Assumptions C12_cli_objects_count.

Theorem C12_cli_objects_nodup :
  forall (x : cli_input) (inp : Serial.any_input) (warned : bool) 
         (m : Ext.ext) (objs : list out_obj),
       read_input x = Some inp ->
       cli_input_wf inp ->
       ThlProofs.nn (Recon.c_hgt (ci_costs x)) -> cli_run x = CliOk warned m objs -> NoDup objs.
Proof. exact @cli_objects_nodup. Qed.
Print Assumptions C12_cli_objects_nodup.

Theorem C12_cli_objects_nodup_wf_any :
  forall (x : cli_input) (warned : bool) (m : Ext.ext) (objs : list out_obj),
       cli_wf_any x ->
       ThlProofs.nn (Recon.c_hgt (ci_costs x)) -> cli_run x = CliOk warned m objs -> NoDup objs.
Proof. exact @cli_objects_nodup_wf_any. Qed.
Print Assumptions C12_cli_objects_nodup_wf_any.

(** ** non-vacuity *)

(* explicit leaf mapping: [cli_wf], the region, six objects under 'all', one under 'any', Error *)
Example C12_cli_example := cli_example.

(* the same input file WITHOUT "leaf_object_species" ([ci_leafmap = None]): [cli_wf_any] holds and
   [cli_wf] does not, [read_input] builds the same object and the command writes the same six
   pairwise distinct objects; a leaf that follows no species makes the run raise *)
From Coq Require Import ZArith NArith.
Example C12_cli_example_convention :
  let x := mkCli "superdtl" Entry.RALL ex_costs
             (NT "" [NT "O1" [NT "x_1" []; NT "y_1" []]; NT "" [NT "x_2" []; NT "z_1" []]])
             (NT "" [NT "X" []; NT "NoName" [NT "Y" []; NT "Z" []]])
             None
             (Some [("x_1", ["a"; "b"; "c"]); ("y_1", ["a"; "c"]); ("x_2", ["b"; "c"]); ("z_1", ["a"; "b"])]) in
  ci_leafmap x = None /\ cli_wf_any x /\ ~ cli_wf x /\
  ThlProofs.nn (Recon.c_hgt (ci_costs x)) /\ cli_region (ci_algo x) (ci_costs x) /\
  (exists inp, read_input x = Some inp /\ cli_input_wf inp /\
     Serial.leafmap (Serial.base_of inp) = [([0; 0], [0]); ([0; 1], [1; 0]); ([1; 0], [0]); ([1; 1], [1; 1])]) /\
  read_input x = read_input (ex_input "superdtl" Entry.RALL) /\
  cli_run x = cli_run (ex_input "superdtl" Entry.RALL) /\
  (exists objs, cli_run x = CliOk false (Ext.Fin 4%Z) objs /\ List.length objs = 6 /\ NoDup objs) /\
  (exists d, cli_run (set_policy x Entry.RANY) = CliOk false (Ext.Fin 4%Z) [d]) /\
  cli_run (mkCli "lca" Entry.RALL ex_costs (NT "" [NT "x_1" []; NT "w_1" []]) (ci_stree x) None None) = CliRaise.
Proof. exact cli_example_convention. Qed.

(* two injective numberings of the families a, b, c: the hypotheses of
   [C12_eval_numbering_irrelevant] *)
Example C12_example_numberings :
  num_inj (fam_num ["a"; "b"; "c"]) /\ num_inj (fam_num ["c"; "a"; "b"]) /\
  fam_num ["a"; "b"; "c"] "c" = Some 2%N /\ fam_num ["c"; "a"; "b"] "c" = Some 0%N /\
  fam_num ["a"; "b"; "c"] "d" = None.
Proof. repeat split; apply fam_num_inj. Qed.
