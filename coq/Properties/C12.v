(** C12 — the command-line tool names nodes (label_internal, get_species_mapping)
    and dispatches the algorithms as documented.
    Statements only; every proof is [exact <lemma of Proofs/LabelProofs.v>].
    The vocabulary ([fills], [least_fresh], [is_uprefix], [matches],
    [documented_algorithms], [expected_decision]) is defined at the top of the
    sections of Proofs/LabelProofs.v; the models are Model/Label.v, Model/Cli.v;
    [cli_table] is Gen/CliTable.v, regenerated from cli/reconcile.py on every run.

    Process-level clauses of the property (exit status, JSON lines, parsed-back
    cost = printed cost, all >= any, draw accepts the objects) are not theorems:
    they are sampled by the correspondence check (harness/props/c12.py). *)
From Coq Require Import List Bool Arith String Sorted.
From SR Require Import Model.Label Gen.CliTable Model.Cli Proofs.LabelProofs.
Import ListNotations.

(** ** label_internal *)

(* For every tree (any shape, any names): the labelling terminates (never runs out
   of fuel) with a tree of the same shape in which every node has a name that is
   neither empty nor "NoName"; the given names are untouched and the unnamed nodes
   receive, in pre-order, "O" ++ k for strictly increasing indices k, each the
   least index above the previous one whose name is not already in the input;
   and all names are pairwise distinct as soon as the given ones are. *)
Theorem C12_label_distinct_nonempty_object : forall t : ntree string,
  exists t', label_object_tree t = Some t' /\ shape t' = shape t /\
    Forall (fun y => is_unnamed y = false) (preorder t') /\
    (exists ks, fills is_unnamed (gen_name "O") (preorder t) ks (preorder t') /\
                StronglySorted lt ks /\ least_fresh (gen_name "O") (preorder t) 0 ks) /\
    (NoDup (filter (named is_unnamed) (preorder t)) -> NoDup (preorder t')).
Proof.
  exact (label_internal_distinct_nonempty String.eqb is_unnamed (gen_name "O")
           String.eqb_spec (gen_name_inj "O") gen_O_named).
Qed.
Print Assumptions C12_label_distinct_nonempty_object.

Theorem C12_label_distinct_nonempty_species : forall t : ntree string,
  exists t', label_species_tree t = Some t' /\ shape t' = shape t /\
    Forall (fun y => is_unnamed y = false) (preorder t') /\
    (exists ks, fills is_unnamed (gen_name "S") (preorder t) ks (preorder t') /\
                StronglySorted lt ks /\ least_fresh (gen_name "S") (preorder t) 0 ks) /\
    (NoDup (filter (named is_unnamed) (preorder t)) -> NoDup (preorder t')).
Proof.
  exact (label_internal_distinct_nonempty String.eqb is_unnamed (gen_name "S")
           String.eqb_spec (gen_name_inj "S") gen_S_named).
Qed.
Print Assumptions C12_label_distinct_nonempty_species.

(* the same, position by position in pre-order: a given name is kept, an unnamed
   node gets a generated name *)
Theorem C12_label_given_names_untouched : forall (prefix : string) (t t' : ntree string),
  (prefix = "O" \/ prefix = "S")%string ->
  label_internal String.eqb is_unnamed (gen_name prefix) t = Some t' ->
  Forall2 (fun x y => if is_unnamed x then exists k, y = gen_name prefix k else y = x)
          (preorder t) (preorder t').
Proof.
  intros prefix t t' [-> | ->].
  - exact (label_internal_pointwise String.eqb is_unnamed (gen_name "O")
             String.eqb_spec (gen_name_inj "O") gen_O_named t t').
  - exact (label_internal_pointwise String.eqb is_unnamed (gen_name "S")
             String.eqb_spec (gen_name_inj "S") gen_S_named t t').
Qed.
Print Assumptions C12_label_given_names_untouched.

Theorem C12_label_idempotent_object : forall t t' : ntree string,
  label_object_tree t = Some t' -> label_object_tree t' = Some t'.
Proof.
  exact (label_internal_idempotent String.eqb is_unnamed (gen_name "O")
           String.eqb_spec (gen_name_inj "O") gen_O_named).
Qed.
Print Assumptions C12_label_idempotent_object.

Theorem C12_label_idempotent_species : forall t t' : ntree string,
  label_species_tree t = Some t' -> label_species_tree t' = Some t'.
Proof.
  exact (label_internal_idempotent String.eqb is_unnamed (gen_name "S")
           String.eqb_spec (gen_name_inj "S") gen_S_named).
Qed.
Print Assumptions C12_label_idempotent_species.

(* the generated names are those the README documents: the prefix followed by the
   decimal notation of the index, distinct for distinct indices *)
Theorem C12_generated_names_injective : forall prefix i j,
  gen_name prefix i = gen_name prefix j -> i = j.
Proof. exact gen_name_inj. Qed.
Print Assumptions C12_generated_names_injective.

(** ** get_species_mapping ([species] = names of the species leaves, in leaf order) *)

(* an object name is mapped to species leaf #i exactly through its shortest
   underscore-terminated prefix that names a species leaf (non-empty name, equal up
   to ASCII case); among leaves with that name the last one is taken *)
Theorem C12_species_prefix_mapping_some : forall species name i,
  species_prefix_mapping species name = Some i ->
  exists p,
    is_uprefix p name /\
    matches species p i /\ (forall j, matches species p j -> j <= i) /\
    (forall p', is_uprefix p' name -> String.length p' < String.length p ->
                forall j, ~ matches species p' j).
Proof. exact species_prefix_mapping_some. Qed.
Print Assumptions C12_species_prefix_mapping_some.

(* and it is left unmapped only when no such prefix names a species leaf *)
Theorem C12_species_prefix_mapping_none : forall species name,
  species_prefix_mapping species name = None ->
  forall p, is_uprefix p name -> forall j, ~ matches species p j.
Proof. exact species_prefix_mapping_none. Qed.
Print Assumptions C12_species_prefix_mapping_none.

(** ** dispatch, over the table generated from cli/reconcile.py *)

(* all seven documented algorithm keys are in the table; a super-reconciliation
   algorithm on an input without syntenies is refused ([Error]: status 1, nothing
   written), every other combination runs (a plain algorithm on an input with
   syntenies after a warning) *)
Theorem C12_dispatch_table :
  List.length documented_algorithms = 7 /\
  (forall key is_super, In (key, is_super) documented_algorithms ->
   forall has_syntenies,
     dispatch key has_syntenies =
     Decided (if is_super then (if has_syntenies then Run else Error)
              else (if has_syntenies then RunWithWarning else Run))).
Proof. split; [reflexivity | exact dispatch_documented]. Qed.
Print Assumptions C12_dispatch_table.

(* for any key of the generated table, documented or not: refused exactly when its
   function is annotated with SuperReconciliationInput and the input has no syntenies *)
Theorem C12_dispatch_error_iff : forall key has_syntenies,
  dispatch key has_syntenies = Decided Error <->
  exists takes_policy,
    lookup key cli_table = Some (SuperReconciliationInput, takes_policy) /\ has_syntenies = false.
Proof. exact dispatch_error_iff. Qed.
Print Assumptions C12_dispatch_error_iff.

(** ** non-vacuity *)

Local Open Scope string_scope.

(* partially named tree whose given names look like generated ones: O0 and O2 are
   skipped, the three unnamed nodes get O1, O3, O4 in pre-order; the hypothesis of
   the distinctness clause holds for it *)
Example C12_example_label :
  let t := NT "" [NT "NoName" [NT "x_1" []; NT "x_2" []];
                  NT "O0" [NT "y_1" []; NT "" [NT "O2" [NT "y_2" []; NT "y_3" []]; NT "z_1" []]]] in
  label_object_tree t =
    Some (NT "O1" [NT "O3" [NT "x_1" []; NT "x_2" []];
                   NT "O0" [NT "y_1" []; NT "O4" [NT "O2" [NT "y_2" []; NT "y_3" []]; NT "z_1" []]]])
  /\ NoDup (filter (named is_unnamed) (preorder t)).
Proof.
  split; [reflexivity|]. simpl.
  repeat (constructor; [simpl; intuition discriminate|]). constructor.
Qed.

(* the README input: ((x_1,x_2),y_1); on (X,Y); *)
Example C12_example_readme :
  label_object_tree (NT "" [NT "" [NT "x_1" []; NT "x_2" []]; NT "y_1" []])
    = Some (NT "O0" [NT "O1" [NT "x_1" []; NT "x_2" []]; NT "y_1" []])
  /\ label_species_tree (NT "" [NT "X" []; NT "Y" []]) = Some (NT "S0" [NT "X" []; NT "Y" []])
  /\ map (species_prefix_mapping ["X"; "Y"]) ["x_1"; "x_2"; "y_1"; "z_1"; "xy"] = [Some 0; Some 0; Some 1; None; None]
  /\ species_prefix_mapping ["a"; "a_b"; "A_B"] "a_b_1" = Some 0
  /\ species_prefix_mapping ["c"; "a_b"; "A_B"] "a_b_1" = Some 2.
Proof. repeat split. Qed.

Example C12_example_dispatch :
  dispatch "superdtl" false = Decided Error /\ dispatch "superdtl" true = Decided Run /\
  dispatch "lca" true = Decided RunWithWarning /\ dispatch "lca" false = Decided Run /\
  dispatch "spfs" true = Rejected.
Proof. repeat split. Qed.

(** * The whole command on binary inputs (Model/CliRun.v, Proofs/CliRunProofs.v)

    [cli_run] mirrors read_input -> label_internal -> call_algorithm -> the solver -> dump_results; what is
    printed as "Minimum cost" is the evaluated cost of the first result.  Every written object parses back (C11
    reader) to a solution whose evaluated cost is the printed minimum (any costs, any policy); inside the
    coherent region the object written under --solutions any is one of those written under --solutions all,
    with the same printed minimum; the written trees carry the names label_internal gives; a
    super-reconciliation algorithm without syntenies writes nothing.  Statements as Coq prints them. *)

From SR Require Import Model.CliRun Proofs.CliRunProofs.

Theorem C12_cli_objects_parse_back :
  forall (x : cli_input) (inp : Serial.any_input) (warned : bool) 
         (m : Ext.ext) (objs : list out_obj),
       read_input x = Some inp ->
       cli_input_wf inp ->
       ThlProofs.nn (Recon.c_hgt (ci_costs x)) ->
       cli_run x = CliOk warned m objs ->
       forall d : out_obj,
       In d objs ->
       exists r : Serial.routput + Serial.soutput,
         parse_back d = Some r /\
         result_input r = Serial.Plain (Serial.base_of inp) /\
         eval_result (fam_num (input_table inp)) r = Some m.
Proof. exact @cli_objects_parse_back. Qed.
Print Assumptions C12_cli_objects_parse_back.

Theorem C12_cli_objects_parse_back_own :
  forall (x : cli_input) (inp : Serial.any_input) (warned : bool) 
         (m : Ext.ext) (objs : list out_obj),
       read_input x = Some inp ->
       cli_input_wf inp ->
       ThlProofs.nn (Recon.c_hgt (ci_costs x)) ->
       cli_run x = CliOk warned m objs ->
       forall d : out_obj,
       In d objs ->
       exists r : Serial.routput + Serial.soutput,
         parse_back d = Some r /\
         result_input r = Serial.Plain (Serial.base_of inp) /\ eval_result (own_num r) r = Some m.
Proof. exact @cli_objects_parse_back_own. Qed.
Print Assumptions C12_cli_objects_parse_back_own.

Theorem C12_cli_objects_parse_back_wf :
  forall (x : cli_input) (warned : bool) (m : Ext.ext) (objs : list out_obj),
       cli_wf x ->
       ThlProofs.nn (Recon.c_hgt (ci_costs x)) ->
       cli_run x = CliOk warned m objs ->
       exists inp : Serial.any_input,
         read_input x = Some inp /\
         (forall d : out_obj,
          In d objs ->
          exists r : Serial.routput + Serial.soutput,
            parse_back d = Some r /\
            result_input r = Serial.Plain (Serial.base_of inp) /\
            eval_result (own_num r) r = Some m).
Proof. exact @cli_objects_parse_back_wf. Qed.
Print Assumptions C12_cli_objects_parse_back_wf.

Theorem C12_cli_all_superset_any :
  forall (x : cli_input) (inp : Serial.any_input) (wa : bool) (ma : Ext.ext)
         (oa : list out_obj) (wl : bool) (ml : Ext.ext) (ol : list out_obj),
       read_input x = Some inp ->
       cli_input_wf inp ->
       ThlProofs.nn (Recon.c_hgt (ci_costs x)) ->
       cli_region (ci_algo x) (ci_costs x) ->
       cli_run (set_policy x Entry.RANY) = CliOk wa ma oa ->
       cli_run (set_policy x Entry.RALL) = CliOk wl ml ol -> incl oa ol /\ ma = ml.
Proof. exact @cli_all_superset_any. Qed.
Print Assumptions C12_cli_all_superset_any.

Theorem C12_cli_all_superset_any_wf :
  forall (x : cli_input) (wa : bool) (ma : Ext.ext) (oa : list out_obj) 
         (wl : bool) (ml : Ext.ext) (ol : list out_obj),
       cli_wf x ->
       ThlProofs.nn (Recon.c_hgt (ci_costs x)) ->
       cli_region (ci_algo x) (ci_costs x) ->
       cli_run (set_policy x Entry.RANY) = CliOk wa ma oa ->
       cli_run (set_policy x Entry.RALL) = CliOk wl ml ol -> incl oa ol /\ ma = ml.
Proof. exact @cli_all_superset_any_wf. Qed.
Print Assumptions C12_cli_all_superset_any_wf.

Theorem C12_cli_region_of_coherent :
  forall (key : string) (c : Recon.costs),
       BinInt.Z.le BinNums.Z0 (Recon.c_floss c) ->
       BinInt.Z.le BinNums.Z0 (Recon.c_sloss c) ->
       BinInt.Z.le
         (BinInt.Z.add (Recon.c_spe c)
            (BinInt.Z.mul (BinNums.Zpos (BinNums.xO BinNums.xH)) (Recon.c_sloss c)))
         (BinInt.Z.add (Recon.c_dup c)
            (BinInt.Z.mul (BinNums.Zpos (BinNums.xO BinNums.xH)) (Recon.c_floss c))) ->
       cli_region key c.
Proof. exact @cli_region_of_coherent. Qed.
Print Assumptions C12_cli_region_of_coherent.

Theorem C12_cli_names :
  forall (x : cli_input) (warned : bool) (m : Ext.ext) (objs : list out_obj),
       cli_run x = CliOk warned m objs ->
       exists O' S' : ntree string,
         labelled "O" (ci_otree x) O' /\
         labelled "S" (ci_stree x) S' /\
         (forall d : out_obj,
          In d objs ->
          Serial.d_otree (obj_base d) = Newick.print_tree (tree_of O') /\
          Serial.d_stree (obj_base d) = Newick.print_tree (tree_of S')).
Proof. exact @cli_names. Qed.
Print Assumptions C12_cli_names.

Theorem C12_written_tree_names :
  forall t : ntree string,
       Forall good_name (preorder t) ->
       exists u : Newick.tree,
         Newick.parse_tree (Newick.print_tree (tree_of t)) = Some u /\ Serial.names u = preorder t.
Proof. exact @written_tree_names. Qed.
Print Assumptions C12_written_tree_names.

Theorem C12_cli_super_without_syntenies :
  forall x : cli_input,
       is_super (ci_algo x) = true ->
       ci_leafsyn x = None ->
       cli_run x = match read_input x with
                   | Some _ => CliError
                   | None => CliRaise
                   end.
Proof. exact @cli_super_without_syntenies. Qed.
Print Assumptions C12_cli_super_without_syntenies.

Theorem C12_cli_super_without_syntenies_writes_nothing :
  forall (x : cli_input) (warned : bool) (m : Ext.ext) (objs : list out_obj),
       is_super (ci_algo x) = true -> ci_leafsyn x = None -> cli_run x <> CliOk warned m objs.
Proof. exact @cli_super_without_syntenies_writes_nothing. Qed.
Print Assumptions C12_cli_super_without_syntenies_writes_nothing.

Theorem C12_read_input_wf :
  forall (x : cli_input) (inp : Serial.any_input),
       cli_wf x -> read_input x = Some inp -> cli_input_wf inp.
Proof. exact @read_input_wf. Qed.
Print Assumptions C12_read_input_wf.

Theorem C12_eval_numbering_irrelevant :
  forall num1 num2 : string -> option Recon.fam,
       num_inj num1 ->
       num_inj num2 ->
       forall (x : Serial.soutput) (v : Ext.ext),
       (forall s : string, In s (syn_strings (Serial.syns x)) -> num2 s <> None) ->
       eval_soutput num1 x = Some v -> eval_soutput num2 x = Some v.
Proof. exact @eval_numbering_irrelevant. Qed.
Print Assumptions C12_eval_numbering_irrelevant.

Example C12_cli_example := cli_example.
