(** C01 — general DTL reconciliation returns a minimum-cost reconciliation.
    Statements only; every proof is [exact <lemma>].

    [reconcile_thl S c rp O] / [reconcile_exhaustive c rp O] are the models of the two
    solvers (Model/Thl.v); [cost] is the model of the evaluator (C06);
    [valid_rec S O r]: r has the shape of O, keeps the leaves on their species, uses
    species of S only and has no invalid event.  [optimal S c O r]: valid and of cost
    at most that of every valid reconciliation. *)
From Coq Require Import List Bool ZArith Lia.
From SR Require Import Base.PathB Base.Ext Model.Entry Model.Recon Model.Thl
  Proofs.PathFacts Proofs.ReconProofs Proofs.DpProofs Proofs.ExhProofs Proofs.ThlProofs Proofs.ThlFinal.
Import ListNotations.
Local Open Scope Z_scope.

(* the cost region of the property: spe <= dup + 2*floss (F-COHERENCE, DESIGN section 9) *)
Definition C01_costs (c : costs) : Prop :=
  nn (c_hgt c) /\ 0 <= c_floss c /\ c_spe c <= c_dup c + 2 * c_floss c.

(* every reconciliation returned under ALL is valid and optimal, every optimal one is returned *)
Theorem C01_thl_returns_optimum : forall S c O, C01_costs c -> leaves_ok S O ->
  forall r, In r (tags (reconcile_thl S c RALL O)) <->
            (valid_rec S O r /\ forall r', valid_rec S O r' -> ele (cost c O r) (cost c O r')).
Proof. intros S c O [Hh [Hf Hc]] L. exact (thl_all_exact S c O Hh Hf Hc L). Qed.

(* under ANY: exactly one reconciliation, valid and optimal *)
Theorem C01_thl_any_optimum : forall S c O, C01_costs c -> leaves_ok S O ->
  exists r, tags (reconcile_thl S c RANY O) = [r] /\
            valid_rec S O r /\ forall r', valid_rec S O r' -> ele (cost c O r) (cost c O r').
Proof. intros S c O [Hh [Hf Hc]] L. exact (thl_any S c O Hh Hf Hc L). Qed.

(* the solver does not come back empty-handed on a well-formed input *)
Theorem C01_thl_nonempty : forall S c O, C01_costs c -> leaves_ok S O ->
  tags (reconcile_thl S c RALL O) <> [].
Proof. intros S c O [Hh [Hf Hc]] L. exact (thl_all_nonempty S c O Hh Hf Hc L). Qed.

(* validity needs no hypothesis on the unit costs *)
Theorem C01_thl_valid : forall S c rp O r, nn (c_hgt c) -> leaves_ok S O ->
  In r (tags (reconcile_thl S c rp O)) -> valid_rec S O r.
Proof. exact thl_valid. Qed.

(* the table holds the clean recurrence over the optimiser's candidate families ... *)
Theorem C01_table_value : forall S c rp O, nn (c_hgt c) -> rp <> RNONE ->
  forall s, In s (snodes S) -> val (tread (thl_table S c rp O) s) = Tval c S O s.
Proof. exact table_value. Qed.

(* ... whose per-node charge is the evaluator's inside the region, and differs outside *)
Theorem C01_ocost_ecost : forall c s l r,
  0 <= c_floss c -> c_spe c <= c_dup c + 2 * c_floss c -> ocost c s l r = ecost c s l r.
Proof. exact ocost_ecost. Qed.

Theorem C01_incoherent_refuted :
  let c := {| c_spe := 5; c_dup := 0; c_hgt := PInf; c_floss := 1; c_sloss := 0 |} in
  ocost c [] [false] [true] = Fin 2 /\ ecost c [] [false] [true] = Fin 5.
Proof. exact incoherent_step. Qed.

(* the exhaustive enumerator yields every valid reconciliation exactly once *)
Theorem C01_exh_enumerates : forall S O, leaves_ok S O ->
  (forall r, In r (gen_all O) <-> valid_rec S O r) /\ NoDup (gen_all O).
Proof. intros S O L. split; [exact (gen_all_spec S O L)|exact (gen_all_nodup O)]. Qed.

(* and the exhaustive solver returns exactly the optimal ones (any cost vector) *)
Theorem C01_exh_returns_optimum : forall S c O, leaves_ok S O -> forall r,
  In r (tags (reconcile_exhaustive c RALL O)) <->
  (valid_rec S O r /\ forall r', valid_rec S O r' -> ele (cost c O r) (cost c O r')).
Proof. exact exh_all_exact. Qed.

Theorem C01_exh_any : forall S c O, leaves_ok S O ->
  exists r, tags (reconcile_exhaustive c RANY O) = [r] /\ valid_rec S O r /\
            forall r', valid_rec S O r' -> ele (cost c O r) (cost c O r').
Proof. exact exh_any. Qed.

Print Assumptions C01_thl_returns_optimum.
Print Assumptions C01_thl_any_optimum.
Print Assumptions C01_thl_nonempty.
Print Assumptions C01_thl_valid.
Print Assumptions C01_table_value.
Print Assumptions C01_ocost_ecost.
Print Assumptions C01_incoherent_refuted.
Print Assumptions C01_exh_enumerates.
Print Assumptions C01_exh_returns_optimum.
Print Assumptions C01_exh_any.

(* non-vacuity: the D2 witness of DESIGN section 9 *)
Example C01_example :
  let S := SNode SLeaf (SNode SLeaf (SNode SLeaf SLeaf)) in
  let O := ONode (OLeaf [false] []) (ONode (OLeaf [true; true; true] [])
                 (ONode (OLeaf [true; false] []) (OLeaf [true; true; false] []))) in
  let c := {| c_spe := 0; c_dup := 1; c_hgt := Fin 1; c_floss := 1; c_sloss := 1 |} in
  C01_costs c /\ leaves_ok S O /\ length (tags (reconcile_thl S c RALL O)) = 4%nat.
Proof. cbv zeta. split; [|split]; [unfold C01_costs, nn; simpl; repeat split; (discriminate || lia)| |]; vm_compute; auto. Qed.

(** ** the ANY policy for any enumeration order (Proofs/AllAnyProofs.v).
    [C01_thl_any_optimum] / [C01_exh_any] are about the order in which the MODEL enumerates the
    final candidates (species in pre-order); the code enumerates them in another order.
    [reconcile_thl_order order S c rp O] is [reconcile_thl] with the root species taken in the order
    [order]; [reconcile_exhaustive_order l c rp O] is [reconcile_exhaustive] fed the reconciliations
    in the order [l].  For every permutation: exactly one reconciliation, valid and optimal, and a
    member of the ALL result.  (For [reconcile_thl] the order inside the table aggregators is still
    the model's: it only selects WHICH optimal sub-solution is kept; any kept one is optimal.) *)
From SR Require Import Proofs.AllAnyProofs.

Theorem C01_thl_any_order : forall S c O order, C01_costs c -> leaves_ok S O ->
  Permutation.Permutation order (snodes S) ->
  exists r, tags (reconcile_thl_order order S c RANY O) = [r] /\
            (valid_rec S O r /\ forall r', valid_rec S O r' -> ele (cost c O r) (cost c O r')) /\
            In r (tags (reconcile_thl S c RALL O)).
Proof. intros S c O order [Hh [Hf Hc]] L P. exact (thl_any_order S c O order Hh Hf Hc L P). Qed.
Print Assumptions C01_thl_any_order.

Theorem C01_thl_order_is_model : forall S c rp O, reconcile_thl_order (snodes S) S c rp O = reconcile_thl S c rp O.
Proof. exact reconcile_thl_order_snodes. Qed.
Print Assumptions C01_thl_order_is_model.

Theorem C01_exh_any_order : forall S c O l, leaves_ok S O -> Permutation.Permutation l (gen_all O) ->
  exists r, tags (reconcile_exhaustive_order l c RANY O) = [r] /\
            (valid_rec S O r /\ forall r', valid_rec S O r' -> ele (cost c O r) (cost c O r')) /\
            In r (tags (reconcile_exhaustive c RALL O)).
Proof. exact exh_any_order. Qed.
Print Assumptions C01_exh_any_order.

Theorem C01_exh_order_is_model : forall c rp O, reconcile_exhaustive_order (gen_all O) c rp O = reconcile_exhaustive c rp O.
Proof. exact reconcile_exhaustive_order_gen_all. Qed.
Print Assumptions C01_exh_order_is_model.

(* each returned reconciliation is returned once (ALL) *)
Theorem C01_returned_once : forall S c O,
  NoDup (tags (reconcile_thl S c RALL O)) /\ NoDup (tags (reconcile_exhaustive c RALL O)).
Proof. intros S c O. split; [exact (thl_all_nodup S c O)|exact (exh_all_nodup c O)]. Qed.
Print Assumptions C01_returned_once.

(* the returned cost is finite, for any cost vector (C04_finite_thl / C04_finite_exhaustive) *)

(* non-vacuity of the order-independent statements: the reversed species order on the instance above *)
Example C01_example_order :
  let S := SNode SLeaf (SNode SLeaf (SNode SLeaf SLeaf)) in
  let O := ONode (OLeaf [false] []) (ONode (OLeaf [true; true; true] [])
                 (ONode (OLeaf [true; false] []) (OLeaf [true; true; false] []))) in
  let c := {| c_spe := 0; c_dup := 1; c_hgt := Fin 1; c_floss := 1; c_sloss := 1 |} in
  Permutation.Permutation (rev (snodes S)) (snodes S) /\ Permutation.Permutation (rev (gen_all O)) (gen_all O) /\
  tags (reconcile_thl_order (rev (snodes S)) S c RANY O) <> tags (reconcile_thl S c RANY O) /\
  length (tags (reconcile_exhaustive_order (rev (gen_all O)) c RANY O)) = 1%nat.
Proof.
  cbv zeta. split; [apply Permutation.Permutation_sym, Permutation.Permutation_rev|].
  split; [apply Permutation.Permutation_sym, Permutation.Permutation_rev|].
  split; [vm_compute; discriminate|vm_compute; reflexivity].
Qed.

(** * Tie to the source by translation (compute/reconciliation.py on utils/dynamic_programming.py)

    [Gen/TableGen.v] (Table, TableProxy, EntryProxy, _generate_table with dictionary dimensions) and [Gen/ThlGen.v]
    (_compute_thl_try_speciation, _compute_thl_try_duplication_transfer, _compute_thl_table, _decode_thl_table,
    reconcile_thl, reconcile_lca) are regenerated from the source on every run (translator/pyfun.py, table_gen.py,
    thl_gen.py), on top of the generated [Entry] (Gen/EntryGen.v) and evaluator (Gen/EvalGen.v).  Object nodes carry
    identifiers, the species tree is a tree of root paths, the LCA structure is instantiated with the path operations.
    Every cell of the generated table computation EQUALS the model cell (same value for every policy; same tags as a
    set under ALL: the code meets candidates in level/post-order, the model in pre-order), the generated decoder and
    [reconcile_thl] return the model's ALL set up to permutation, and [reconcile_lca] equals [lca_rec]. *)

From SR Require Import Gen.TableGen Gen.ThlGen Proofs.TableGenProofs Proofs.ThlGenProofs.

Theorem C01_gen_speciation_eq :
  forall (lca node_id : Type) (nid_eqb : node_id -> node_id -> bool),
       (forall a b : node_id, reflect (a = b) (nid_eqb a b)) ->
       forall (lcaobj : lca) (rp : ret) (c : costs) (s : path) (SL SR : T.STree path)
         (nid : node_id) (L R : EV.TreeNode node_id)
         (tb : TG.table_state T.key (T.MappingInfo path)) (e0 : entry tag),
       inv2 rp tb ->
       gsem nid_eqb tb nid s = emap tag_mi e0 ->
       exists tb' : T.TableGen.table_state T.key (T.MappingInfo path),
         T.gen_compute_thl_try_speciation path_eqb nid_eqb (fun _ : lca => dist) lcaobj
           (T.STree_node s SL SR) (EV.TreeNode_node nid L R) tb (EvalGenProofs.stsocc c) =
         T.Ok (tb', tt) /\
         inv2 rp tb' /\
         gsem nid_eqb tb' nid s =
         emap tag_mi
           (cell_upd rp e0
              (spe_batch_o c rp (fun x : path => val (gsem nid_eqb tb (EV.TreeNode_id L) x))
                 (fun x : path => val (gsem nid_eqb tb (EV.TreeNode_id R) x)) s
                 (ids (T.STree_levelorder SL)) (ids (T.STree_levelorder SR)))) /\
         (forall (n : node_id) (x : path),
          (n, x) <> (nid, s) -> gsem nid_eqb tb' n x = gsem nid_eqb tb n x).
Proof. exact @gen_speciation_eq. Qed.
Print Assumptions C01_gen_speciation_eq.

Theorem C01_gen_duplication_transfer_eq :
  forall (lca node_id : Type) (nid_eqb : node_id -> node_id -> bool),
       (forall a b : node_id, reflect (a = b) (nid_eqb a b)) ->
       forall (lcaobj : lca) (rp : ret) (c : costs) (rs ST : T.STree path) 
         (nid : node_id) (L R : EV.TreeNode node_id)
         (tb : TG.table_state T.key (T.MappingInfo path)) (e0 : entry tag),
       inv2 rp tb ->
       gsem nid_eqb tb nid (T.STree_id rs) = emap tag_mi e0 ->
       exists tb' : T.TableGen.table_state T.key (T.MappingInfo path),
         T.gen_compute_thl_try_duplication_transfer path_eqb nid_eqb (fun _ : lca => anc)
           (fun _ : lca => dist) (fun _ : lca => ST) lcaobj rs (EV.TreeNode_node nid L R) tb
           (EvalGenProofs.stsocc c) = T.Ok (tb', tt) /\
         inv2 rp tb' /\
         gsem nid_eqb tb' nid (T.STree_id rs) =
         emap tag_mi
           (cell_upd rp e0
              (dt_batch_o c rp (fun x : path => val (gsem nid_eqb tb (EV.TreeNode_id L) x))
                 (fun x : path => val (gsem nid_eqb tb (EV.TreeNode_id R) x)) 
                 (T.STree_id rs) (filter (anc (T.STree_id rs)) (ids (T.STree_levelorder ST)))
                 (filter (sep (T.STree_id rs)) (ids (T.STree_levelorder ST))))) /\
         (forall (n : node_id) (x : path),
          (n, x) <> (nid, T.STree_id rs) -> gsem nid_eqb tb' n x = gsem nid_eqb tb n x).
Proof. exact @gen_duplication_transfer_eq. Qed.
Print Assumptions C01_gen_duplication_transfer_eq.

Theorem C01_gen_compute_thl_table_eq :
  forall (lca node_id : Type) (nid_eqb : node_id -> node_id -> bool),
       (forall a b : node_id, reflect (a = b) (nid_eqb a b)) ->
       forall (lcaobj : lca) (c : costs) (rp : ret) (ST : T.STree path) 
         (leafsp : node_id -> path) (O : EV.TreeNode node_id),
       NoDup (ids (T.STree_postorder ST)) ->
       NoDup (map EV.TreeNode_id (T.TreeNode_postorder O)) ->
       exists tb : T.TableGen.table_state T.key (T.MappingInfo path),
         T.gen_compute_thl_table path_eqb nid_eqb (fun _ : lca => anc) 
           (fun _ : lca => dist) (fun _ : lca => ST)
           {|
             EV.rin_object_tree := O;
             EV.rin_species_lca := lcaobj;
             EV.rin_leaf_object_species := leafsp;
             EV.rin_costs := EvalGenProofs.stsocc c
           |} (EntryGenProofs.prc rp) = T.Ok tb /\
         inv2 rp tb /\
         (forall u : T.EvalGen.TreeNode node_id,
          In u (T.TreeNode_postorder O) ->
          forall s : path,
          gsem nid_eqb tb (EV.TreeNode_id u) s = emap tag_mi (tcell c rp ST leafsp u s)) /\
         (forall (n : node_id) (s : path),
          ~ In n (map EV.TreeNode_id (T.TreeNode_postorder O)) ->
          gsem nid_eqb tb n s = default_entry MIN).
Proof. exact @gen_compute_thl_table_eq. Qed.
Print Assumptions C01_gen_compute_thl_table_eq.

Theorem C01_tcell_model :
  forall (node_id : Type) (S : stree) (c : costs) (rp : ret) (leafsp : node_id -> path)
         (syn : node_id -> list fam),
       nn (c_hgt c) ->
       forall (t : EV.TreeNode node_id) (s : path),
       In s (snodes S) ->
       esim rp (tcell c rp (sembed S []) leafsp t s)
         (tread (thl_table S c rp (EvalGenProofs.otree_of leafsp syn t)) s).
Proof. exact @tcell_model. Qed.
Print Assumptions C01_tcell_model.

Theorem C01_tcell_model_tags :
  forall (node_id : Type) (S : stree) (c : costs) (leafsp : node_id -> path)
         (syn : node_id -> list fam) (t : EV.TreeNode node_id) (s : path),
       nn (c_hgt c) ->
       In s (snodes S) ->
       Permutation.Permutation (tags (tcell c RALL (sembed S []) leafsp t s))
         (tags (tread (thl_table S c RALL (EvalGenProofs.otree_of leafsp syn t)) s)).
Proof. exact @tcell_model_tags. Qed.
Print Assumptions C01_tcell_model_tags.

Theorem C01_gen_decode_eq :
  forall (lca node_id : Type) (nid_eqb : node_id -> node_id -> bool),
       (forall a b : node_id, reflect (a = b) (nid_eqb a b)) ->
       forall (lcaobj : lca) (c : costs) (rp : ret) (leafsp : node_id -> path)
         (O : EV.TreeNode node_id) (ord : list (T.MappingInfo path) -> list (T.MappingInfo path)),
       (forall (l : list (T.MappingInfo path)) (m : T.MappingInfo path), In m (ord l) -> In m l) ->
       forall (t : EV.TreeNode node_id) (s : path) (tb : TG.table_state T.key (T.MappingInfo path)),
       inv2 rp tb ->
       tags_ok nid_eqb tb t ->
       exists tb' : T.TableGen.table_state T.key (T.MappingInfo path),
         T.gen_decode_thl_table path_eqb nid_eqb ord t s
           {|
             EV.rin_object_tree := O;
             EV.rin_species_lca := lcaobj;
             EV.rin_leaf_object_species := leafsp;
             EV.rin_costs := EvalGenProofs.stsocc c
           |} tb =
         T.Ok
           (tb',
            map
              (T.mk_tout
                 {|
                   EV.rin_object_tree := O;
                   EV.rin_species_lca := lcaobj;
                   EV.rin_leaf_object_species := leafsp;
                   EV.rin_costs := EvalGenProofs.stsocc c
                 |}) (decode_g ord (gsem nid_eqb tb) t s)) /\
         tsame (T.key_eqb path_eqb nid_eqb) tb tb'.
Proof. exact @gen_decode_eq. Qed.
Print Assumptions C01_gen_decode_eq.

Theorem C01_gen_reconcile_thl_eq :
  forall (lca node_id : Type) (nid_eqb : node_id -> node_id -> bool),
       (forall a b : node_id, reflect (a = b) (nid_eqb a b)) ->
       forall (lcaobj : lca) (c : costs) (rp : ret) (ST : T.STree path) 
         (leafsp : node_id -> path) (O : EV.TreeNode node_id),
       NoDup (ids (T.STree_postorder ST)) ->
       forall ord : list (T.MappingInfo path) -> list (T.MappingInfo path),
       (forall (l : list (T.MappingInfo path)) (m : T.MappingInfo path), In m (ord l) -> In m l) ->
       forall (oeqb : T.tout_state path lca node_id -> T.tout_state path lca node_id -> bool)
         (missing : node_id -> path) (syn : node_id -> list fam),
       NoDup (map EV.TreeNode_id (T.TreeNode_postorder O)) ->
       exists tb : T.TableGen.table_state T.key (T.MappingInfo path),
         T.gen_compute_thl_table path_eqb nid_eqb (fun _ : lca => anc) 
           (fun _ : lca => dist) (fun _ : lca => ST)
           {|
             EV.rin_object_tree := O;
             EV.rin_species_lca := lcaobj;
             EV.rin_leaf_object_species := leafsp;
             EV.rin_costs := EvalGenProofs.stsocc c
           |} (EntryGenProofs.prc rp) = T.Ok tb /\
         (forall u : T.EvalGen.TreeNode node_id,
          In u (T.TreeNode_postorder O) ->
          forall s : path,
          gsem nid_eqb tb (EV.TreeNode_id u) s = emap tag_mi (tcell c rp ST leafsp u s)) /\
         T.gen_reconcile_thl path_eqb nid_eqb (fun _ : lca => anc) (fun _ : lca => sanc)
           (fun _ : lca => comparable) (fun _ : lca => lcp) (fun _ : lca => dist)
           (fun _ : lca => ST) oeqb missing ord
           {|
             EV.rin_object_tree := O;
             EV.rin_species_lca := lcaobj;
             EV.rin_leaf_object_species := leafsp;
             EV.rin_costs := EvalGenProofs.stsocc c
           |} (EntryGenProofs.prc rp) =
         T.Ok
           (tags
              (update oeqb MIN rp (default_entry MIN)
                 (thl_candidates_o nid_eqb lcaobj c ST leafsp O ord missing syn (gsem nid_eqb tb)))).
Proof. exact @gen_reconcile_thl_eq. Qed.
Print Assumptions C01_gen_reconcile_thl_eq.

Theorem C01_gen_reconcile_thl_model :
  forall (lca node_id : Type) (nid_eqb : node_id -> node_id -> bool) 
         (S : stree) (c : costs) (leafsp : node_id -> path) (syn : node_id -> list fam)
         (missing : node_id -> path) (ord : list (T.MappingInfo path) -> list (T.MappingInfo path))
         (O : EV.TreeNode node_id) (lcaobj : lca)
         (oeqb : T.tout_state path lca node_id -> T.tout_state path lca node_id -> bool),
       (forall a b : node_id, reflect (a = b) (nid_eqb a b)) ->
       nn (c_hgt c) ->
       (forall l : list (T.MappingInfo path), sameset (ord l) l) ->
       NoDup (map EV.TreeNode_id (T.TreeNode_postorder O)) ->
       (forall a b : T.tout_state path lca node_id,
        rtree_eqb (rt_out nid_eqb missing O a) (rt_out nid_eqb missing O b) = oeqb a b) ->
       exists outs : list (T.tout_state path lca node_id),
         T.gen_reconcile_thl path_eqb nid_eqb (fun _ : lca => anc) (fun _ : lca => sanc)
           (fun _ : lca => comparable) (fun _ : lca => lcp) (fun _ : lca => dist)
           (fun _ : lca => sembed S []) oeqb missing ord
           {|
             EV.rin_object_tree := O;
             EV.rin_species_lca := lcaobj;
             EV.rin_leaf_object_species := leafsp;
             EV.rin_costs := EvalGenProofs.stsocc c
           |} (EntryGenProofs.prc RALL) = T.Ok outs /\
         Permutation.Permutation (map (rt_out nid_eqb missing O) outs)
           (tags (reconcile_thl S c RALL (EvalGenProofs.otree_of leafsp syn O))).
Proof. exact @gen_reconcile_thl_model. Qed.
Print Assumptions C01_gen_reconcile_thl_model.

Theorem C01_gen_reconcile_lca_eq :
  forall (lca node_id : Type) (nid_eqb : node_id -> node_id -> bool),
       (forall a b : node_id, reflect (a = b) (nid_eqb a b)) ->
       forall (lcaobj : lca) (c : EV.CostValues) (leafsp : node_id -> path)
         (syn : node_id -> list fam) (O : EV.TreeNode node_id) (missing : node_id -> path),
       NoDup (map EV.TreeNode_id (T.TreeNode_postorder O)) ->
       exists d : list (node_id * path),
         T.gen_reconcile_lca nid_eqb (fun _ : lca => lcp)
           {|
             EV.rin_object_tree := O;
             EV.rin_species_lca := lcaobj;
             EV.rin_leaf_object_species := leafsp;
             EV.rin_costs := c
           |} =
         T.Ok
           {|
             T.tout_input :=
               {|
                 EV.rin_object_tree := O;
                 EV.rin_species_lca := lcaobj;
                 EV.rin_leaf_object_species := leafsp;
                 EV.rin_costs := c
               |};
             T.tout_object_species := d
           |} /\
         EvalGenProofs.rtree_of (T.dict_fun nid_eqb missing d) O =
         LcaRec.lca_rec (EvalGenProofs.otree_of leafsp syn O).
Proof. exact @gen_reconcile_lca_eq. Qed.
Print Assumptions C01_gen_reconcile_lca_eq.


(* ---- closing corollaries added after the independent review (DESIGN 10.3): the lemmas are in Proofs/ReviewC*.v ---- *)

From SR Require Import Proofs.ReviewCThlAny. Import ReviewCThlAny.PartCthl.

Theorem C01_gen_reconcile_thl_any :
  forall (lca node_id : Type) (nid_eqb : node_id -> node_id -> bool) 
         (S : stree) (c : costs) (leafsp : node_id -> path) (syn : node_id -> list fam)
         (missing : node_id -> path) (ord : list (T.MappingInfo path) -> list (T.MappingInfo path))
         (O : EV.TreeNode node_id) (lcaobj : lca)
         (oeqb : T.tout_state path lca node_id -> T.tout_state path lca node_id -> bool),
       (forall a b : node_id, reflect (a = b) (nid_eqb a b)) ->
       nn (c_hgt c) ->
       (forall l : list (T.MappingInfo path), sameset (ord l) l) ->
       NoDup (map EV.TreeNode_id (T.TreeNode_postorder O)) ->
       (forall a b : T.tout_state path lca node_id,
        rtree_eqb (rt_out nid_eqb missing O a) (rt_out nid_eqb missing O b) = oeqb a b) ->
       0 <= c_floss c ->
       c_spe c <= c_dup c + 2 * c_floss c ->
       leaves_ok S (EvalGenProofs.otree_of leafsp syn O) ->
       exists o : T.tout_state path lca node_id,
         T.gen_reconcile_thl path_eqb nid_eqb (fun _ : lca => anc) (fun _ : lca => sanc)
           (fun _ : lca => comparable) (fun _ : lca => lcp) (fun _ : lca => dist)
           (fun _ : lca => sembed S []) oeqb missing ord
           {|
             EV.rin_object_tree := O;
             EV.rin_species_lca := lcaobj;
             EV.rin_leaf_object_species := leafsp;
             EV.rin_costs := EvalGenProofs.stsocc c
           |} (EntryGenProofs.prc RANY) = T.Ok [o] /\
         In (rt_out nid_eqb missing O o)
           (tags (reconcile_thl S c RALL (EvalGenProofs.otree_of leafsp syn O))) /\
         optimal S c (EvalGenProofs.otree_of leafsp syn O) (rt_out nid_eqb missing O o).
Proof. exact @gen_reconcile_thl_any. Qed.
Print Assumptions C01_gen_reconcile_thl_any.

