(** C03 — unordered super-reconciliation (USPFS / SuperDTL) returns a minimum-cost solution.
    Statements only; proofs are [exact <lemma of Proofs/UspfsProofs.v, Proofs/UspfsFinal.v>].

    [uspfs S c rp extended O]: model of [_uspfs] (extended = true: SuperDTL, false: base USPFS).
    [uvalid S O t]: t has the shape of O, leaves on their species with their (sorted) syntenies,
    species of S only, no invalid event, every family of a node is in its parent's content or gained
    at that node.  [ucost c O t]: the evaluator's total cost (event costs + sloss per charged lossy
    edge, C06).  [uall_sol]: valid (base variant: on the LCA species mapping).  [usol]: valid and
    canonical (each node holds its required families or its parent's families plus its own gains).
    [ucoherent c]: 0 <= floss, 0 <= sloss, spe + sloss <= dup + 2*floss — implied by the region
    spe + 2*sloss <= dup + 2*floss of the property (F-COHERENCE). *)
From Coq Require Import List Bool ZArith NArith.
From SR Require Import Base.PathB Base.Ext Model.Entry Model.Recon Model.LcaRec Model.Thl Model.Uspfs
  Proofs.PathFacts Proofs.ReconProofs Proofs.LabelCostProofs Proofs.ThlProofs Proofs.UspfsProofs Proofs.UspfsFinal.
Import ListNotations.
Local Open Scope Z_scope.

(* gain node of a family = LCA of the leaves carrying it; LCA set = least content compatible with the leaves *)
Theorem C03_gain_lca_sets_spec : forall O p o, osub O p = Some o ->
  exists u, usub (annotate_top O) p = Some u /\ oshape o u /\
    ssorted (u_gain u) /\ ssorted (u_lca u) /\
    (forall f, In f (u_gain u) <-> is_lca_of_carriers O f p) /\
    (forall f, In f (u_lca u) <->
       (exists q, carrier_at O f q /\ anc p q = true) /\
       (exists g, is_lca_of_carriers O f g /\ anc g p = true)).
Proof. exact gain_lca_sets_spec. Qed.

(* the returned cost is the minimum over ALL valid labellings and species mappings (base: LCA mapping) *)
Theorem C03_superdtl_optimum : forall S c rp extended O E,
  nn (c_hgt c) -> ucoherent c -> leaves_ok S O -> rp <> RNONE ->
  uspfs S c rp extended O = Some E ->
  (exists t, uall_sol S extended O t /\ val E = ucost c O t) /\
  (forall t, uall_sol S extended O t -> ele (val E) (ucost c O t)).
Proof. exact superdtl_optimum. Qed.

(* every returned solution is valid and of minimum cost among all valid labellings *)
Theorem C03_superdtl_solutions_optimal : forall S c rp extended O E t,
  nn (c_hgt c) -> ucoherent c -> leaves_ok S O -> rp <> RNONE ->
  uspfs S c rp extended O = Some E -> In t (tags E) ->
  uall_sol S extended O t /\ forall t', uall_sol S extended O t' -> ele (ucost c O t) (ucost c O t').
Proof. exact superdtl_solutions_optimal. Qed.

(* canonical labellings suffice: any valid labelling can be made canonical on the same mapping at no greater cost *)
Theorem C03_canonical_suffices : forall S c O t, 0 <= c_sloss c -> uvalid S O t ->
  exists t', uvalid S O t' /\ ucanon_under (ototal O) [] O t' /\ forget t' = forget t /\
             ele (ucost c O t') (ucost c O t).
Proof. exact canonical_suffices. Qed.

(* the property's region implies the one the proofs need *)
Theorem C03_region : forall c, 0 <= c_floss c -> 0 <= c_sloss c ->
  c_spe c + 2 * c_sloss c <= c_dup c + 2 * c_floss c -> ucoherent c.
Proof. intros c Hf Hs H. unfold ucoherent. repeat split; auto. Lia.lia. Qed.

(* the table holds the clean recurrence *)
Theorem C03_table_value : forall S c rp extended total, nn (c_hgt c) -> forall o, rp <> RNONE ->
  forall k, val (uread (utab S c rp extended total o) k) = UTval S c extended total o k.
Proof. exact utable_value. Qed.

Print Assumptions C03_gain_lca_sets_spec.
Print Assumptions C03_superdtl_optimum.
Print Assumptions C03_superdtl_solutions_optimal.
Print Assumptions C03_canonical_suffices.
Print Assumptions C03_region.
Print Assumptions C03_table_value.

(* [uspfs ... = None] would be a failed assertion of the evaluator on a decoded solution: it does not
   happen, for any policy and any cost vector, so the hypothesis [uspfs ... = Some E] of the theorems
   above is always satisfied (the decoded trees, their validity and finite cost: C04) *)
From SR Require Import Proofs.AllAnyProofs.
Theorem C03_uspfs_returns : forall S c rp extended O, nn (c_hgt c) -> leaves_ok S O ->
  exists E, uspfs S c rp extended O = Some E.
Proof. exact uspfs_returns. Qed.
Print Assumptions C03_uspfs_returns.

(* outside the region optimiser and evaluator differ at a single node; non-vacuity example *)
Example C03_incoherent_refuted := uincoherent_step.
Example C03_example := uspfs_example.
