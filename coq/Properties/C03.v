(** C03 — unordered super-reconciliation (USPFS / SuperDTL) returns a minimum-cost solution.
    Statements only; proofs are [exact <lemma of Proofs/UspfsProofs.v, Proofs/UspfsFinal.v>].

    [uspfs S c rp extended O]: model of [_uspfs] (extended = true: SuperDTL, false: base USPFS).
    [uvalid S O t]: t has the shape of O, leaves on their species with their (sorted) syntenies,
    species of S only, no invalid event, every family of a node is in its parent's content or gained
    at that node.  [ucost c O t]: the evaluator's total cost (event costs + sloss per charged lossy
    edge, C06).  [uall_sol]: valid (base variant: on the LCA species mapping).  [usol]: valid and
    canonical (each node holds its required families or its parent's families plus its own gains).
    [ucoherent c]: 0 <= floss, 0 <= sloss, spe + sloss <= dup + 2*floss — implied by the region
    spe + 2*sloss <= dup + 2*floss of the property (F-COHERENCE). *)
From Coq Require Import List Bool ZArith NArith.
From SR Require Import Base.PathB Base.Ext Model.Entry Model.Recon Model.LcaRec Model.Thl Model.Uspfs
  Proofs.PathFacts Proofs.ReconProofs Proofs.LabelCostProofs Proofs.ThlProofs Proofs.UspfsProofs Proofs.UspfsFinal.
Import ListNotations.
Local Open Scope Z_scope.

(* gain node of a family = LCA of the leaves carrying it; LCA set = least content compatible with the leaves *)
Theorem C03_gain_lca_sets_spec : forall O p o, osub O p = Some o ->
  exists u, usub (annotate_top O) p = Some u /\ oshape o u /\
    ssorted (u_gain u) /\ ssorted (u_lca u) /\
    (forall f, In f (u_gain u) <-> is_lca_of_carriers O f p) /\
    (forall f, In f (u_lca u) <->
       (exists q, carrier_at O f q /\ anc p q = true) /\
       (exists g, is_lca_of_carriers O f g /\ anc g p = true)).
Proof. exact gain_lca_sets_spec. Qed.

(* the returned cost is the minimum over ALL valid labellings and species mappings (base: LCA mapping) *)
Theorem C03_superdtl_optimum : forall S c rp extended O E,
  nn (c_hgt c) -> ucoherent c -> leaves_ok S O -> rp <> RNONE ->
  uspfs S c rp extended O = Some E ->
  (exists t, uall_sol S extended O t /\ val E = ucost c O t) /\
  (forall t, uall_sol S extended O t -> ele (val E) (ucost c O t)).
Proof. exact superdtl_optimum. Qed.

(* every returned solution is valid and of minimum cost among all valid labellings *)
Theorem C03_superdtl_solutions_optimal : forall S c rp extended O E t,
  nn (c_hgt c) -> ucoherent c -> leaves_ok S O -> rp <> RNONE ->
  uspfs S c rp extended O = Some E -> In t (tags E) ->
  uall_sol S extended O t /\ forall t', uall_sol S extended O t' -> ele (ucost c O t) (ucost c O t').
Proof. exact superdtl_solutions_optimal. Qed.

(* canonical labellings suffice: any valid labelling can be made canonical on the same mapping at no greater cost *)
Theorem C03_canonical_suffices : forall S c O t, 0 <= c_sloss c -> uvalid S O t ->
  exists t', uvalid S O t' /\ ucanon_under (ototal O) [] O t' /\ forget t' = forget t /\
             ele (ucost c O t') (ucost c O t).
Proof. exact canonical_suffices. Qed.

(* the property's region implies the one the proofs need *)
Theorem C03_region : forall c, 0 <= c_floss c -> 0 <= c_sloss c ->
  c_spe c + 2 * c_sloss c <= c_dup c + 2 * c_floss c -> ucoherent c.
Proof. intros c Hf Hs H. unfold ucoherent. repeat split; auto. Lia.lia. Qed.

(* the table holds the clean recurrence *)
Theorem C03_table_value : forall S c rp extended total, nn (c_hgt c) -> forall o, rp <> RNONE ->
  forall k, val (uread (utab S c rp extended total o) k) = UTval S c extended total o k.
Proof. exact utable_value. Qed.

Print Assumptions C03_gain_lca_sets_spec.
Print Assumptions C03_superdtl_optimum.
Print Assumptions C03_superdtl_solutions_optimal.
Print Assumptions C03_canonical_suffices.
Print Assumptions C03_region.
Print Assumptions C03_table_value.

(* [uspfs ... = None] would be a failed assertion of the evaluator on a decoded solution: it does not
   happen, for any policy and any cost vector, so the hypothesis [uspfs ... = Some E] of the theorems
   above is always satisfied (the decoded trees, their validity and finite cost: C04) *)
From SR Require Import Proofs.AllAnyProofs.
Theorem C03_uspfs_returns : forall S c rp extended O, nn (c_hgt c) -> leaves_ok S O ->
  exists E, uspfs S c rp extended O = Some E.
Proof. exact uspfs_returns. Qed.
Print Assumptions C03_uspfs_returns.

(* outside the region optimiser and evaluator differ at a single node; non-vacuity example *)
Example C03_incoherent_refuted := uincoherent_step.
Example C03_example := uspfs_example.

(* ---- the tie to the source by translation: Gen/UspfsGen.v (regenerated from compute/unordered_super_reconciliation.py on every run) against Model/Uspfs.v ---- *)

From SR Require Import Gen.UspfsGen Proofs.UspfsGenStage1 Proofs.UspfsGenProofs Proofs.UspfsGenLink. Import UspfsGenMain UspfsLink UspfsGenStage1.Stage1.

Theorem C03_gen_usreconcile_extended_uspfs_model :
  forall (lca node_id olca : Type) (nid_eqb : node_id -> node_id -> bool),
       (forall a b : node_id, reflect (a = b) (nid_eqb a b)) ->
       forall (lcaobj : lca) (S : stree) (c : costs) (leafsp : node_id -> path)
         (syn : node_id -> list fam) (O : UspfsGenCommon.Common.EV.TreeNode node_id)
         (missing : node_id -> path) (missing_syn : node_id -> list fam)
         (ord_infos : list GM.TX.CM.ca -> list GM.TX.CM.ca)
         (fam_order sort_synteny_fn : list fam -> list fam)
         (oeqb : UspfsGenCommon.Embed.UG.spout_state -> UspfsGenCommon.Embed.UG.spout_state -> bool)
         (olca_of : UspfsGenCommon.Common.EV.TreeNode node_id -> olca)
         (olca_call : olca -> list node_id -> node_id)
         (syn_items : (node_id -> list fam) -> list (node_id * list fam))
         (node_order : list node_id -> list node_id),
       W nid_eqb S c leafsp syn O missing missing_syn ord_infos fam_order sort_synteny_fn oeqb
         olca_of olca_call syn_items node_order ->
       match uspfs S c RALL true (EvalGenProofs.otree_of leafsp syn O) with
       | Some e =>
           exists outs : list UspfsGenCommon.Embed.UG.spout_state,
             UspfsGenCommon.Embed.UG.gen_usreconcile_extended_uspfs N.eqb path_eqb nid_eqb
               (fun _ : lca => anc) (fun _ : lca => lcp) (fun _ : lca => dist)
               (fun _ : lca => UspfsGenCommon.Embed.sembed3 S []) olca_of olca_call syn_items
               fam_order node_order (fun _ : lca => sanc) (fun _ : lca => comparable) oeqb missing
               missing_syn ord_infos sort_synteny_fn
               {|
                 DC.T.EvalGen.sin_object_tree := O;
                 DC.T.EvalGen.sin_species_lca := lcaobj;
                 DC.T.EvalGen.sin_leaf_object_species := leafsp;
                 DC.T.EvalGen.sin_costs := EvalGenProofs.stsocc c;
                 DC.T.EvalGen.sin_leaf_syntenies := syn
               |} (EntryGenProofs.prc RALL) = UspfsGenCommon.Embed.UG.Ok outs /\
             Permutation.Permutation (map (lt_out nid_eqb O missing missing_syn) outs) (tags e) /\
             (outs = [] <-> tags e = [])
       | None =>
           UspfsGenCommon.Embed.UG.gen_usreconcile_extended_uspfs N.eqb path_eqb nid_eqb
             (fun _ : lca => anc) (fun _ : lca => lcp) (fun _ : lca => dist)
             (fun _ : lca => UspfsGenCommon.Embed.sembed3 S []) olca_of olca_call syn_items
             fam_order node_order (fun _ : lca => sanc) (fun _ : lca => comparable) oeqb missing
             missing_syn ord_infos sort_synteny_fn
             {|
               DC.T.EvalGen.sin_object_tree := O;
               DC.T.EvalGen.sin_species_lca := lcaobj;
               DC.T.EvalGen.sin_leaf_object_species := leafsp;
               DC.T.EvalGen.sin_costs := EvalGenProofs.stsocc c;
               DC.T.EvalGen.sin_leaf_syntenies := syn
             |} (EntryGenProofs.prc RALL) =
           UspfsGenCommon.Embed.UG.Err UspfsGenCommon.Embed.UG.AssertionError
       end.
Proof. exact @gen_usreconcile_extended_uspfs_model. Qed.
Print Assumptions C03_gen_usreconcile_extended_uspfs_model.

Theorem C03_gen_usreconcile_base_uspfs_model :
  forall (lca node_id olca : Type) (nid_eqb : node_id -> node_id -> bool),
       (forall a b : node_id, reflect (a = b) (nid_eqb a b)) ->
       forall (lcaobj : lca) (S : stree) (c : costs) (leafsp : node_id -> path)
         (syn : node_id -> list fam) (O : UspfsGenCommon.Common.EV.TreeNode node_id)
         (missing : node_id -> path) (missing_syn : node_id -> list fam)
         (ord_infos : list GM.TX.CM.ca -> list GM.TX.CM.ca)
         (fam_order sort_synteny_fn : list fam -> list fam)
         (oeqb : UspfsGenCommon.Embed.UG.spout_state -> UspfsGenCommon.Embed.UG.spout_state -> bool)
         (olca_of : UspfsGenCommon.Common.EV.TreeNode node_id -> olca)
         (olca_call : olca -> list node_id -> node_id)
         (syn_items : (node_id -> list fam) -> list (node_id * list fam))
         (node_order : list node_id -> list node_id),
       W nid_eqb S c leafsp syn O missing missing_syn ord_infos fam_order sort_synteny_fn oeqb
         olca_of olca_call syn_items node_order ->
       match uspfs S c RALL false (EvalGenProofs.otree_of leafsp syn O) with
       | Some e =>
           exists outs : list UspfsGenCommon.Embed.UG.spout_state,
             UspfsGenCommon.Embed.UG.gen_usreconcile_base_uspfs N.eqb path_eqb nid_eqb
               (fun _ : lca => anc) (fun _ : lca => lcp) (fun _ : lca => dist)
               (fun _ : lca => UspfsGenCommon.Embed.sembed3 S []) olca_of olca_call syn_items
               fam_order node_order (fun _ : lca => sanc) (fun _ : lca => comparable) oeqb missing
               missing_syn ord_infos sort_synteny_fn
               {|
                 DC.T.EvalGen.sin_object_tree := O;
                 DC.T.EvalGen.sin_species_lca := lcaobj;
                 DC.T.EvalGen.sin_leaf_object_species := leafsp;
                 DC.T.EvalGen.sin_costs := EvalGenProofs.stsocc c;
                 DC.T.EvalGen.sin_leaf_syntenies := syn
               |} (EntryGenProofs.prc RALL) = UspfsGenCommon.Embed.UG.Ok outs /\
             Permutation.Permutation (map (lt_out nid_eqb O missing missing_syn) outs) (tags e) /\
             (outs = [] <-> tags e = [])
       | None =>
           UspfsGenCommon.Embed.UG.gen_usreconcile_base_uspfs N.eqb path_eqb nid_eqb
             (fun _ : lca => anc) (fun _ : lca => lcp) (fun _ : lca => dist)
             (fun _ : lca => UspfsGenCommon.Embed.sembed3 S []) olca_of olca_call syn_items
             fam_order node_order (fun _ : lca => sanc) (fun _ : lca => comparable) oeqb missing
             missing_syn ord_infos sort_synteny_fn
             {|
               DC.T.EvalGen.sin_object_tree := O;
               DC.T.EvalGen.sin_species_lca := lcaobj;
               DC.T.EvalGen.sin_leaf_object_species := leafsp;
               DC.T.EvalGen.sin_costs := EvalGenProofs.stsocc c;
               DC.T.EvalGen.sin_leaf_syntenies := syn
             |} (EntryGenProofs.prc RALL) =
           UspfsGenCommon.Embed.UG.Err UspfsGenCommon.Embed.UG.AssertionError
       end.
Proof. exact @gen_usreconcile_base_uspfs_model. Qed.
Print Assumptions C03_gen_usreconcile_base_uspfs_model.

Theorem C03_gen_compute_uspfs_entry_model :
  forall (lca node_id : Type) (nid_eqb : node_id -> node_id -> bool),
       (forall a b : node_id, reflect (a = b) (nid_eqb a b)) ->
       forall (lcaobj : lca) (rp : ret) (S : stree) (c : costs)
         (rs : UspfsGenCommon.Embed.UG.STree) (nid : node_id)
         (L R : UspfsGenCommon.Common.EV.TreeNode node_id)
         (tb : UspfsGenCommon.Common.TG.table_state UspfsGenCommon.Common.UG.key GM.TX.CM.ca)
         (lsets : list (node_id * list fam)) (lr ll lrr : list fam) (ta tb_ : utt),
       UspfsGenCommon.Embed.rs_ok S rs ->
       UspfsGenCommon.Common.inv3 rp tb ->
       UspfsGenCommon.Embed.UG.dict_get nid_eqb lsets nid = Some lr ->
       UspfsGenCommon.Embed.UG.dict_get nid_eqb lsets (UspfsGenCommon.Common.EV.TreeNode_id L) =
       Some ll ->
       UspfsGenCommon.Embed.UG.dict_get nid_eqb lsets (UspfsGenCommon.Common.EV.TreeNode_id R) =
       Some lrr ->
       UspfsGenCommon.Common.gsem3 nid_eqb tb nid (UspfsGenCommon.Embed.UG.STree_id rs) false =
       default_entry MIN ->
       UspfsGenCommon.Common.gsem3 nid_eqb tb nid (UspfsGenCommon.Embed.UG.STree_id rs) true =
       default_entry MIN ->
       (forall k : path * bool,
        In (fst k) (snodes S) ->
        UspfsGenCommon.Common.sub_of nid_eqb tb (UspfsGenCommon.Common.EV.TreeNode_id L) k =
        val (uread ta k)) ->
       (forall k : path * bool,
        In (fst k) (snodes S) ->
        UspfsGenCommon.Common.sub_of nid_eqb tb (UspfsGenCommon.Common.EV.TreeNode_id R) k =
        val (uread tb_ k)) ->
       exists
         tb' : UspfsGenCommon.Embed.UG.TableGen.table_state UspfsGenCommon.Embed.UG.key GM.TX.CM.ca,
         UspfsGenCommon.Embed.UG.gen_compute_uspfs_entry N.eqb path_eqb nid_eqb
           (fun _ : lca => anc) (fun _ : lca => dist)
           (fun _ : lca => UspfsGenCommon.Embed.sembed3 S []) lcaobj rs
           (UspfsGenCommon.Common.EV.TreeNode_node nid L R) lsets tb (EvalGenProofs.stsocc c) =
         UspfsGenCommon.Embed.UG.Ok (tb', tt) /\
         UspfsGenCommon.Common.inv3 rp tb' /\
         (forall kind : bool,
          let cellM :=
            ucell S c rp ta tb_ (UspfsGenCommon.Embed.UG.gset_subset N.eqb lr ll)
              (UspfsGenCommon.Embed.UG.gset_subset N.eqb lr lrr)
              (UspfsGenCommon.Embed.UG.STree_id rs) kind in
          val
            (UspfsGenCommon.Common.gsem3 nid_eqb tb' nid (UspfsGenCommon.Embed.UG.STree_id rs) kind) =
          val cellM /\
          (tags
             (UspfsGenCommon.Common.gsem3 nid_eqb tb' nid (UspfsGenCommon.Embed.UG.STree_id rs)
                kind) = [] <-> tags cellM = []) /\
          (rp = RALL ->
           exists l : list utag,
             tags
               (UspfsGenCommon.Common.gsem3 nid_eqb tb' nid (UspfsGenCommon.Embed.UG.STree_id rs)
                  kind) = map UspfsGenCommon.Common.tag_ca l /\
             Permutation.Permutation l (tags cellM))) /\
         (forall (n : node_id) (x : path) (k : bool),
          (n, x) <> (nid, UspfsGenCommon.Embed.UG.STree_id rs) ->
          UspfsGenCommon.Common.gsem3 nid_eqb tb' n x k =
          UspfsGenCommon.Common.gsem3 nid_eqb tb n x k).
Proof. exact @gen_compute_uspfs_entry_model. Qed.
Print Assumptions C03_gen_compute_uspfs_entry_model.

Theorem C03_gen_compute_uspfs_table_extended :
  forall (lca node_id : Type) (nid_eqb : node_id -> node_id -> bool),
       (forall a b : node_id, reflect (a = b) (nid_eqb a b)) ->
       forall (lcaobj : lca) (S : stree) (c : costs) (leafsp : node_id -> path)
         (syn : node_id -> list fam) (O : UspfsGenCommon.Common.EV.TreeNode node_id) 
         (rp : ret) (lsets : list (node_id * list fam)),
       nn (c_hgt c) ->
       NoDup
         (map UspfsGenCommon.Common.EV.TreeNode_id (UspfsGenCommon.Embed.UG.TreeNode_postorder O)) ->
       lsets_ok nid_eqb leafsp syn O lsets ->
       exists
         tb : UspfsGenCommon.Embed.UG.TableGen.table_state UspfsGenCommon.Embed.UG.key GM.TX.CM.ca,
         UspfsGenCommon.Embed.UG.gen_compute_uspfs_table N.eqb path_eqb nid_eqb
           (fun _ : lca => anc) (fun _ : lca => dist)
           (fun _ : lca => UspfsGenCommon.Embed.sembed3 S [])
           {|
             DC.T.EvalGen.sin_object_tree := O;
             DC.T.EvalGen.sin_species_lca := lcaobj;
             DC.T.EvalGen.sin_leaf_object_species := leafsp;
             DC.T.EvalGen.sin_costs := EvalGenProofs.stsocc c;
             DC.T.EvalGen.sin_leaf_syntenies := syn
           |} lsets
           (fun (species : UspfsGenCommon.Embed.UG.STree)
              (_ : UspfsGenCommon.Common.EV.TreeNode node_id) =>
            UspfsGenCommon.Embed.UG.STree_postorder species) (EntryGenProofs.prc rp) =
         UspfsGenCommon.Embed.UG.Ok tb /\
         UspfsGenCommon.Common.inv3 rp tb /\ cells_model nid_eqb S c leafsp syn O true rp tb.
Proof. exact @gen_compute_uspfs_table_extended. Qed.
Print Assumptions C03_gen_compute_uspfs_table_extended.

Theorem C03_gen_compute_uspfs_table_base :
  forall (lca node_id : Type) (nid_eqb : node_id -> node_id -> bool),
       (forall a b : node_id, reflect (a = b) (nid_eqb a b)) ->
       forall (lcaobj : lca) (S : stree) (c : costs) (leafsp : node_id -> path)
         (syn : node_id -> list fam) (O : UspfsGenCommon.Common.EV.TreeNode node_id) 
         (rp : ret) (lsets : list (node_id * list fam)) (d : list (node_id * path)),
       nn (c_hgt c) ->
       NoDup
         (map UspfsGenCommon.Common.EV.TreeNode_id (UspfsGenCommon.Embed.UG.TreeNode_postorder O)) ->
       UspfsGenMain.TF.leaves_valid S leafsp O ->
       lsets_ok nid_eqb leafsp syn O lsets ->
       (forall u : UspfsGenCommon.Embed.UG.EvalGen.TreeNode node_id,
        In u (UspfsGenCommon.Embed.UG.TreeNode_postorder O) ->
        UspfsGenCommon.Embed.UG.dict_get nid_eqb d (UspfsGenCommon.Common.EV.TreeNode_id u) =
        Some (root (lca_rec (EvalGenProofs.otree_of leafsp syn u)))) ->
       exists
         tb : UspfsGenCommon.Embed.UG.TableGen.table_state UspfsGenCommon.Embed.UG.key GM.TX.CM.ca,
         UspfsGenCommon.Embed.UG.gen_compute_uspfs_table N.eqb path_eqb nid_eqb
           (fun _ : lca => anc) (fun _ : lca => dist)
           (fun _ : lca => UspfsGenCommon.Embed.sembed3 S [])
           {|
             DC.T.EvalGen.sin_object_tree := O;
             DC.T.EvalGen.sin_species_lca := lcaobj;
             DC.T.EvalGen.sin_leaf_object_species := leafsp;
             DC.T.EvalGen.sin_costs := EvalGenProofs.stsocc c;
             DC.T.EvalGen.sin_leaf_syntenies := syn
           |} lsets
           (fun (_ : UspfsGenCommon.Embed.UG.STree)
              (obj : UspfsGenCommon.Embed.UG.EvalGen.TreeNode node_id) =>
            UspfsGenCommon.Embed.UG.base_species path_eqb nid_eqb
              (UspfsGenCommon.Embed.sembed3 S []) d obj) (EntryGenProofs.prc rp) =
         UspfsGenCommon.Embed.UG.Ok tb /\
         UspfsGenCommon.Common.inv3 rp tb /\ cells_model nid_eqb S c leafsp syn O false rp tb.
Proof. exact @gen_compute_uspfs_table_base. Qed.
Print Assumptions C03_gen_compute_uspfs_table_base.

Theorem C03_gen_compute_gain_sets_spec :
  forall (lca node_id olca : Type) (nid_eqb : node_id -> node_id -> bool),
       (forall a b : node_id, reflect (a = b) (nid_eqb a b)) ->
       forall (olca_of : EV.TreeNode node_id -> olca) (olca_call : olca -> list node_id -> node_id)
         (syn_items : (node_id -> list fam) -> list (node_id * list fam))
         (node_order : list node_id -> list node_id) (O : EV.TreeNode node_id) 
         (lcaobj : lca) (leafsp : node_id -> path) (costs : EV.CostValues)
         (syn : node_id -> list fam),
       ids_distinct O ->
       olca_ok olca_of olca_call O ->
       order_ok node_order ->
       items_ok syn_items O syn ->
       exists g : list (node_id * list N),
         UG.gen_compute_gain_sets N.eqb nid_eqb olca_of olca_call syn_items node_order
           {|
             DC.T.EvalGen.sin_object_tree := O;
             DC.T.EvalGen.sin_species_lca := lcaobj;
             DC.T.EvalGen.sin_leaf_object_species := leafsp;
             DC.T.EvalGen.sin_costs := costs;
             DC.T.EvalGen.sin_leaf_syntenies := syn
           |} = UG.Ok g /\
         (forall (p : path) (u : EV.TreeNode node_id),
          nsub O p = Some u ->
          exists (l : list N) (ua : utree),
            UG.dict_get nid_eqb g (EV.TreeNode_id u) = Some l /\
            usub (annotate_top (EvalGenProofs.otree_of leafsp syn O)) p = Some ua /\
            NoDup l /\
            (forall f : N, In f l <-> In f (u_gain ua)) /\ Permutation.Permutation l (u_gain ua)).
Proof. exact @gen_compute_gain_sets_spec. Qed.
Print Assumptions C03_gen_compute_gain_sets_spec.

Theorem C03_gen_compute_lca_sets_spec :
  forall (lca node_id : Type) (nid_eqb : node_id -> node_id -> bool),
       (forall a b : node_id, reflect (a = b) (nid_eqb a b)) ->
       forall (O : EV.TreeNode node_id) (lcaobj : lca) (leafsp : node_id -> path)
         (costs : EV.CostValues) (syn : node_id -> list fam) (g : list (node_id * list fam)),
       ids_distinct O ->
       (forall (p : path) (u : EV.TreeNode node_id),
        nsub O p = Some u ->
        exists (l : list fam) (ua : utree),
          UG.dict_get nid_eqb g (EV.TreeNode_id u) = Some l /\
          usub (annotate_top (EvalGenProofs.otree_of leafsp syn O)) p = Some ua /\
          (forall f : fam, In f l <-> In f (u_gain ua))) ->
       exists r : list (node_id * list N),
         UG.gen_compute_lca_sets N.eqb nid_eqb
           {|
             DC.T.EvalGen.sin_object_tree := O;
             DC.T.EvalGen.sin_species_lca := lcaobj;
             DC.T.EvalGen.sin_leaf_object_species := leafsp;
             DC.T.EvalGen.sin_costs := costs;
             DC.T.EvalGen.sin_leaf_syntenies := syn
           |} g = UG.Ok r /\
         (forall (p : path) (u : EV.TreeNode node_id),
          nsub O p = Some u ->
          exists (l : list N) (ua : utree),
            UG.dict_get nid_eqb r (EV.TreeNode_id u) = Some l /\
            usub (annotate_top (EvalGenProofs.otree_of leafsp syn O)) p = Some ua /\
            NoDup l /\
            (forall f : N, In f l <-> In f (u_lca ua)) /\ Permutation.Permutation l (u_lca ua)).
Proof. exact @gen_compute_lca_sets_spec. Qed.
Print Assumptions C03_gen_compute_lca_sets_spec.


(* ---- closing corollaries added after the independent review (DESIGN 10.3): the lemmas are in Proofs/ReviewC*.v ---- *)

From SR Require Import Proofs.ReviewCModels Proofs.ReviewCUspfsOpt Proofs.ReviewCUspfsAny. Import ReviewCModels.PartA ReviewCUspfsOpt.PartB_C03 ReviewCUspfsAny.PartCuspfs.

Theorem C03_c03_all_nonempty :
  forall (S : stree) (c : costs) (extended : bool) (O : otree),
       nn (c_hgt c) ->
       ucoherent c ->
       leaves_ok S O -> exists E : entry ltree, uspfs S c RALL extended O = Some E /\ tags E <> [].
Proof. exact @c03_all_nonempty. Qed.
Print Assumptions C03_c03_all_nonempty.

Theorem C03_c03_all_exact :
  forall (S : stree) (c : costs) (extended : bool) (O : otree),
       nn (c_hgt c) ->
       ucoherent c ->
       leaves_ok S O ->
       exists E : entry ltree,
         uspfs S c RALL extended O = Some E /\
         NoDup (tags E) /\ (forall t : ltree, In t (tags E) <-> uoptimal S c extended O t).
Proof. exact @c03_all_exact. Qed.
Print Assumptions C03_c03_all_exact.

Theorem C03_c03_any :
  forall (S : stree) (c : costs) (extended : bool) (O : otree),
       nn (c_hgt c) ->
       ucoherent c ->
       leaves_ok S O ->
       exists (E : entry ltree) (t : ltree),
         uspfs S c RANY extended O = Some E /\ tags E = [t] /\ uoptimal S c extended O t.
Proof. exact @c03_any. Qed.
Print Assumptions C03_c03_any.

Theorem C03_c03_gen_extended_optimum :
  forall (lca node_id olca : Type) (nid_eqb : node_id -> node_id -> bool),
       (forall a b : node_id, reflect (a = b) (nid_eqb a b)) ->
       forall (lcaobj : lca) (S : stree) (c : costs) (leafsp : node_id -> path)
         (syn : node_id -> list fam) (O : UspfsGenCommon.Common.EV.TreeNode node_id)
         (missing : node_id -> path) (missing_syn : node_id -> list fam)
         (ord_infos : list LK.GM.TX.CM.ca -> list LK.GM.TX.CM.ca)
         (fam_order sort_synteny_fn : list fam -> list fam)
         (oeqb : UspfsGenCommon.Embed.UG.spout_state -> UspfsGenCommon.Embed.UG.spout_state -> bool)
         (olca_of : UspfsGenCommon.Common.EV.TreeNode node_id -> olca)
         (olca_call : olca -> list node_id -> node_id)
         (syn_items : (node_id -> list fam) -> list (node_id * list fam))
         (node_order : list node_id -> list node_id),
       UspfsLink.W nid_eqb S c leafsp syn O missing missing_syn ord_infos fam_order sort_synteny_fn
         oeqb olca_of olca_call syn_items node_order ->
       ucoherent c ->
       exists outs : list UspfsGenCommon.Embed.UG.spout_state,
         UspfsGenCommon.Embed.UG.gen_usreconcile_extended_uspfs N.eqb path_eqb nid_eqb
           (fun _ : lca => anc) (fun _ : lca => lcp) (fun _ : lca => dist)
           (fun _ : lca => UspfsGenCommon.Embed.sembed3 S []) olca_of olca_call syn_items fam_order
           node_order (fun _ : lca => sanc) (fun _ : lca => comparable) oeqb missing missing_syn
           ord_infos sort_synteny_fn
           {|
             LK.DC.T.EvalGen.sin_object_tree := O;
             LK.DC.T.EvalGen.sin_species_lca := lcaobj;
             LK.DC.T.EvalGen.sin_leaf_object_species := leafsp;
             LK.DC.T.EvalGen.sin_costs := EvalGenProofs.stsocc c;
             LK.DC.T.EvalGen.sin_leaf_syntenies := syn
           |} (EntryGenProofs.prc RALL) = UspfsGenCommon.Embed.UG.Ok outs /\
         outs <> [] /\
         NoDup (map (UspfsLink.lt_out nid_eqb O missing missing_syn) outs) /\
         (forall t : ltree,
          In t (map (UspfsLink.lt_out nid_eqb O missing missing_syn) outs) <->
          umin_sol S c leafsp syn O true t).
Proof. exact @c03_gen_extended_optimum. Qed.
Print Assumptions C03_c03_gen_extended_optimum.

Theorem C03_c03_gen_base_optimum :
  forall (lca node_id olca : Type) (nid_eqb : node_id -> node_id -> bool),
       (forall a b : node_id, reflect (a = b) (nid_eqb a b)) ->
       forall (lcaobj : lca) (S : stree) (c : costs) (leafsp : node_id -> path)
         (syn : node_id -> list fam) (O : UspfsGenCommon.Common.EV.TreeNode node_id)
         (missing : node_id -> path) (missing_syn : node_id -> list fam)
         (ord_infos : list LK.GM.TX.CM.ca -> list LK.GM.TX.CM.ca)
         (fam_order sort_synteny_fn : list fam -> list fam)
         (oeqb : UspfsGenCommon.Embed.UG.spout_state -> UspfsGenCommon.Embed.UG.spout_state -> bool)
         (olca_of : UspfsGenCommon.Common.EV.TreeNode node_id -> olca)
         (olca_call : olca -> list node_id -> node_id)
         (syn_items : (node_id -> list fam) -> list (node_id * list fam))
         (node_order : list node_id -> list node_id),
       UspfsLink.W nid_eqb S c leafsp syn O missing missing_syn ord_infos fam_order sort_synteny_fn
         oeqb olca_of olca_call syn_items node_order ->
       ucoherent c ->
       exists outs : list UspfsGenCommon.Embed.UG.spout_state,
         UspfsGenCommon.Embed.UG.gen_usreconcile_base_uspfs N.eqb path_eqb nid_eqb
           (fun _ : lca => anc) (fun _ : lca => lcp) (fun _ : lca => dist)
           (fun _ : lca => UspfsGenCommon.Embed.sembed3 S []) olca_of olca_call syn_items fam_order
           node_order (fun _ : lca => sanc) (fun _ : lca => comparable) oeqb missing missing_syn
           ord_infos sort_synteny_fn
           {|
             LK.DC.T.EvalGen.sin_object_tree := O;
             LK.DC.T.EvalGen.sin_species_lca := lcaobj;
             LK.DC.T.EvalGen.sin_leaf_object_species := leafsp;
             LK.DC.T.EvalGen.sin_costs := EvalGenProofs.stsocc c;
             LK.DC.T.EvalGen.sin_leaf_syntenies := syn
           |} (EntryGenProofs.prc RALL) = UspfsGenCommon.Embed.UG.Ok outs /\
         outs <> [] /\
         NoDup (map (UspfsLink.lt_out nid_eqb O missing missing_syn) outs) /\
         (forall t : ltree,
          In t (map (UspfsLink.lt_out nid_eqb O missing missing_syn) outs) <->
          umin_sol S c leafsp syn O false t).
Proof. exact @c03_gen_base_optimum. Qed.
Print Assumptions C03_c03_gen_base_optimum.

Theorem C03_gen_usreconcile_extended_uspfs_any :
  forall (lca node_id olca : Type) (nid_eqb : node_id -> node_id -> bool),
       (forall a b : node_id, reflect (a = b) (nid_eqb a b)) ->
       forall (lcaobj : lca) (S : stree) (c : costs) (leafsp : node_id -> path)
         (syn : node_id -> list fam) (O : UspfsGenCommon.Common.EV.TreeNode node_id)
         (missing : node_id -> path) (missing_syn : node_id -> list fam)
         (ord_infos : list LK.GM.TX.CM.ca -> list LK.GM.TX.CM.ca)
         (fam_order sort_synteny_fn : list fam -> list fam)
         (oeqb : UspfsGenCommon.Embed.UG.spout_state -> UspfsGenCommon.Embed.UG.spout_state -> bool)
         (olca_of : UspfsGenCommon.Common.EV.TreeNode node_id -> olca)
         (olca_call : olca -> list node_id -> node_id)
         (syn_items : (node_id -> list fam) -> list (node_id * list fam))
         (node_order : list node_id -> list node_id),
       LK.W nid_eqb S c leafsp syn O missing missing_syn ord_infos fam_order sort_synteny_fn oeqb
         olca_of olca_call syn_items node_order ->
       ucoherent c ->
       forall E : entry ltree,
       uspfs S c RALL true (EvalGenProofs.otree_of leafsp syn O) = Some E ->
       exists o : UspfsGenCommon.Embed.UG.spout_state,
         UspfsGenCommon.Embed.UG.gen_usreconcile_extended_uspfs N.eqb path_eqb nid_eqb
           (fun _ : lca => anc) (fun _ : lca => lcp) (fun _ : lca => dist)
           (fun _ : lca => UspfsGenCommon.Embed.sembed3 S []) olca_of olca_call syn_items fam_order
           node_order (fun _ : lca => sanc) (fun _ : lca => comparable) oeqb missing missing_syn
           ord_infos sort_synteny_fn
           {|
             LK.DC.T.EvalGen.sin_object_tree := O;
             LK.DC.T.EvalGen.sin_species_lca := lcaobj;
             LK.DC.T.EvalGen.sin_leaf_object_species := leafsp;
             LK.DC.T.EvalGen.sin_costs := EvalGenProofs.stsocc c;
             LK.DC.T.EvalGen.sin_leaf_syntenies := syn
           |} (EntryGenProofs.prc RANY) = UspfsGenCommon.Embed.UG.Ok [o] /\
         In (LK.lt_out nid_eqb O missing missing_syn o) (tags E) /\
         uoptimal S c true (EvalGenProofs.otree_of leafsp syn O)
           (LK.lt_out nid_eqb O missing missing_syn o).
Proof. exact @gen_usreconcile_extended_uspfs_any. Qed.
Print Assumptions C03_gen_usreconcile_extended_uspfs_any.

Theorem C03_gen_usreconcile_base_uspfs_any :
  forall (lca node_id olca : Type) (nid_eqb : node_id -> node_id -> bool),
       (forall a b : node_id, reflect (a = b) (nid_eqb a b)) ->
       forall (lcaobj : lca) (S : stree) (c : costs) (leafsp : node_id -> path)
         (syn : node_id -> list fam) (O : UspfsGenCommon.Common.EV.TreeNode node_id)
         (missing : node_id -> path) (missing_syn : node_id -> list fam)
         (ord_infos : list LK.GM.TX.CM.ca -> list LK.GM.TX.CM.ca)
         (fam_order sort_synteny_fn : list fam -> list fam)
         (oeqb : UspfsGenCommon.Embed.UG.spout_state -> UspfsGenCommon.Embed.UG.spout_state -> bool)
         (olca_of : UspfsGenCommon.Common.EV.TreeNode node_id -> olca)
         (olca_call : olca -> list node_id -> node_id)
         (syn_items : (node_id -> list fam) -> list (node_id * list fam))
         (node_order : list node_id -> list node_id),
       LK.W nid_eqb S c leafsp syn O missing missing_syn ord_infos fam_order sort_synteny_fn oeqb
         olca_of olca_call syn_items node_order ->
       ucoherent c ->
       forall E : entry ltree,
       uspfs S c RALL false (EvalGenProofs.otree_of leafsp syn O) = Some E ->
       exists o : UspfsGenCommon.Embed.UG.spout_state,
         UspfsGenCommon.Embed.UG.gen_usreconcile_base_uspfs N.eqb path_eqb nid_eqb
           (fun _ : lca => anc) (fun _ : lca => lcp) (fun _ : lca => dist)
           (fun _ : lca => UspfsGenCommon.Embed.sembed3 S []) olca_of olca_call syn_items fam_order
           node_order (fun _ : lca => sanc) (fun _ : lca => comparable) oeqb missing missing_syn
           ord_infos sort_synteny_fn
           {|
             LK.DC.T.EvalGen.sin_object_tree := O;
             LK.DC.T.EvalGen.sin_species_lca := lcaobj;
             LK.DC.T.EvalGen.sin_leaf_object_species := leafsp;
             LK.DC.T.EvalGen.sin_costs := EvalGenProofs.stsocc c;
             LK.DC.T.EvalGen.sin_leaf_syntenies := syn
           |} (EntryGenProofs.prc RANY) = UspfsGenCommon.Embed.UG.Ok [o] /\
         In (LK.lt_out nid_eqb O missing missing_syn o) (tags E) /\
         uoptimal S c false (EvalGenProofs.otree_of leafsp syn O)
           (LK.lt_out nid_eqb O missing missing_syn o).
Proof. exact @gen_usreconcile_base_uspfs_any. Qed.
Print Assumptions C03_gen_usreconcile_base_uspfs_any.

