(** C03 — unordered super-reconciliation (statements are added as proofs land). *)
From SR Require Import Model.Uspfs.
