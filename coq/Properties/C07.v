(** C07 — the LCA reconciliation is the unique optimum of the duplication-loss model.
    Statements only; proofs are [exact <lemma of Proofs/LcaProofs.v>]. *)
From Coq Require Import List Bool ZArith.
From SR Require Import Base.PathB Base.Ext Model.Recon Model.LcaRec
  Proofs.PathFacts Proofs.ReconProofs Proofs.LcaProofs.
Import ListNotations.
Local Open Scope Z_scope.

(* every node (Proofs/LcaNodeProofs.v; [onode_at O p] / [rnode_at r p]: the node at position [p],
   [false] = first child): the node of the LCA reconciliation at the position of any node [o] of the
   object tree exists and is mapped to the LCA (longest common prefix of the root paths) of the species
   of the leaves below [o]; a leaf keeps its species ([lcp_list [sp] = sp]); and the reconciliation has
   no other node *)
From SR Require Import Proofs.LcaNodeProofs.
Theorem C07_lca_mapping_every_node : forall O p o, onode_at O p = Some o ->
  exists r, rnode_at (lca_rec O) p = Some r /\ root r = lcp_list (leaf_species o).
Proof. exact lca_mapping_every_node. Qed.
Print Assumptions C07_lca_mapping_every_node.

Theorem C07_lca_same_nodes : forall p O, rnode_at (lca_rec O) p = None <-> onode_at O p = None.
Proof. exact rnode_at_shape. Qed.
Print Assumptions C07_lca_same_nodes.

(* the instance [p = []]: the root *)
Theorem C07_lca_mapping : forall O, root (lca_rec O) = lcp_list (leaf_species O).
Proof. exact lca_root. Qed.
Print Assumptions C07_lca_mapping.

(* it is a valid reconciliation, without transfers *)
Theorem C07_lca_valid : forall S O, leaves_ok S O ->
  valid_rec S O (lca_rec O) /\ no_transfer (lca_rec O).
Proof. exact lca_valid. Qed.
Print Assumptions C07_lca_valid.

(* minimum cost among all valid transfer-free reconciliations, for any non-negative
   duplication and loss costs (speciation cost at most dup + 2 floss; 0 by default) *)
Theorem C07_lca_optimal : forall c S O r,
  0 <= c_dup c -> 0 <= c_floss c -> c_spe c <= c_dup c + 2 * c_floss c ->
  leaves_ok S O -> valid_rec S O r -> no_transfer r ->
  ele (cost c O (lca_rec O)) (cost c O r).
Proof. exact lca_optimal. Qed.
Print Assumptions C07_lca_optimal.

(* transfers forbidden by an infinite transfer cost: minimum among ALL valid reconciliations *)
Theorem C07_lca_optimal_all : forall c S O r,
  0 <= c_dup c -> 0 <= c_floss c -> c_spe c <= c_dup c + 2 * c_floss c -> c_hgt c = PInf ->
  leaves_ok S O -> valid_rec S O r ->
  ele (cost c O (lca_rec O)) (cost c O r).
Proof. exact lca_optimal_all. Qed.
Print Assumptions C07_lca_optimal_all.

(* positive loss cost: the only minimum-cost reconciliation *)
Theorem C07_lca_unique : forall c S O r,
  0 <= c_dup c -> 0 < c_floss c -> c_spe c <= c_dup c + 2 * c_floss c ->
  leaves_ok S O -> valid_rec S O r -> no_transfer r ->
  cost c O r = cost c O (lca_rec O) -> r = lca_rec O.
Proof. exact lca_unique. Qed.
Print Assumptions C07_lca_unique.

Theorem C07_lca_unique_all : forall c S O r,
  0 <= c_dup c -> 0 < c_floss c -> c_spe c <= c_dup c + 2 * c_floss c -> c_hgt c = PInf ->
  leaves_ok S O -> valid_rec S O r ->
  cost c O r = cost c O (lca_rec O) -> r = lca_rec O.
Proof. exact lca_unique_all. Qed.
Print Assumptions C07_lca_unique_all.

(* non-vacuity: the seven-leaf shape of the test suite's kind, evaluated *)
Example C07_example :
  let S := SNode (SNode SLeaf SLeaf) (SNode SLeaf SLeaf) in
  let O := ONode (ONode (OLeaf [false; false] []) (OLeaf [true; false] []))
                 (ONode (OLeaf [false; true] []) (OLeaf [false; false] [])) in
  let c := {| c_spe := 0; c_dup := 1; c_hgt := PInf; c_floss := 1; c_sloss := 1 |} in
  leaves_ok S O /\ root (lca_rec O) = [] /\ cost c O (lca_rec O) = Fin 4 /\
  onode_at O [true] = Some (ONode (OLeaf [false; true] []) (OLeaf [false; false] [])) /\
  option_map root (rnode_at (lca_rec O) [true]) = Some [false] /\
  forallb (fun r => ext_leb (cost c O (lca_rec O)) (cost c O r)) (all_recs S O) = true.
Proof. vm_compute. repeat split. Qed.

(* ---- the tie to the source by translation: reconcile_lca of compute/reconciliation.py, regenerated into Gen/ThlGen.v on every run, returns the dictionary that denotes the model's LCA reconciliation (Model/LcaRec.v), for every binary object tree with distinct nodes; the LCA structure is the path operation lcp (C17) ---- *)

From SR Require Import Gen.TableGen Gen.ThlGen Proofs.TableGenProofs Proofs.ThlGenProofs.

Theorem C07_gen_reconcile_lca_eq :
  forall (lca node_id : Type) (nid_eqb : node_id -> node_id -> bool),
       (forall a b : node_id, reflect (a = b) (nid_eqb a b)) ->
       forall (lcaobj : lca) (c : EV.CostValues) (leafsp : node_id -> path)
         (syn : node_id -> list fam) (O : EV.TreeNode node_id) (missing : node_id -> path),
       NoDup (map EV.TreeNode_id (T.TreeNode_postorder O)) ->
       exists d : list (node_id * path),
         T.gen_reconcile_lca nid_eqb (fun _ : lca => lcp)
           {|
             EV.rin_object_tree := O;
             EV.rin_species_lca := lcaobj;
             EV.rin_leaf_object_species := leafsp;
             EV.rin_costs := c
           |} =
         T.Ok
           {|
             T.tout_input :=
               {|
                 EV.rin_object_tree := O;
                 EV.rin_species_lca := lcaobj;
                 EV.rin_leaf_object_species := leafsp;
                 EV.rin_costs := c
               |};
             T.tout_object_species := d
           |} /\
         EvalGenProofs.rtree_of (T.dict_fun nid_eqb missing d) O =
         lca_rec (EvalGenProofs.otree_of leafsp syn O).
Proof. exact @gen_reconcile_lca_eq. Qed.
Print Assumptions C07_gen_reconcile_lca_eq.


(* ---- closing corollaries added after the independent review (DESIGN 10.3): the lemmas are in Proofs/ReviewC*.v ---- *)

From SR Require Import Proofs.ReviewCLcaBound. Import ReviewCLcaBound.PartE.

Theorem C07_c07_spe_needed :
  0 <= c_dup c1 /\
       0 <= c_floss c1 /\
       0 <= c_sloss c1 /\
       c_hgt c1 = PInf /\
       c_spe c1 > c_dup c1 + 2 * c_floss c1 /\
       leaves_ok S1 O1 /\
       valid_rec S1 O1 r1 /\
       no_transfer r1 /\
       lca_rec O1 = rl1 /\
       cost c1 O1 r1 = Fin 5 /\
       cost c1 O1 (lca_rec O1) = Fin 10 /\
       ext_ltb (cost c1 O1 r1) (cost c1 O1 (lca_rec O1)) = true /\
       ~ ele (cost c1 O1 (lca_rec O1)) (cost c1 O1 r1).
Proof. exact @c07_spe_needed. Qed.
Print Assumptions C07_c07_spe_needed.

Theorem C07_c07_optimal_without_spe_bound_false :
  ~
       (forall (c : costs) (S : stree) (O : otree) (r : rtree),
        0 <= c_dup c ->
        0 <= c_floss c ->
        leaves_ok S O ->
        valid_rec S O r -> no_transfer r -> ele (cost c O (lca_rec O)) (cost c O r)).
Proof. exact @c07_optimal_without_spe_bound_false. Qed.
Print Assumptions C07_c07_optimal_without_spe_bound_false.

Theorem C07_c07_cherry_parametric :
  forall c : costs,
       c_dup c + 4 * c_floss c < c_spe c ->
       cost c O1 r1 = Fin (c_dup c + 4 * c_floss c) /\
       cost c O1 (lca_rec O1) = Fin (c_spe c) /\
       ext_ltb (cost c O1 r1) (cost c O1 (lca_rec O1)) = true.
Proof. exact @c07_cherry_parametric. Qed.
Print Assumptions C07_c07_cherry_parametric.

