(** C13 — a diagram shows exactly the events the cost model counts.
    Statements only; every proof is [exact <lemma of Proofs/BranchesProofs.v>] (the last
    example, [C13_example_transfer], is a closed instance evaluated in place by the kernel).

    Vocabulary.  [S] species tree, [O] object tree with leaf species, [r] a
    reconciliation (a species at every object node), [valid_rec S O r] as in C06: same
    shape, leaves on their species, species are nodes of [S], no [Inv] event.
    [all_ops S r] (Model/Branches.v) is the list of insertions [Add X b] into the branch
    dict / anchor set of species [X] and removals [Rem X a] from its anchor set that
    [_compute_branches] performs, in order; [branches_at X ops] is the dict of [X],
    [species_state X ops] its dict together with its final anchor set, [branches S r]
    lists [species_state] over the species (this is what is compared with
    [layout.compute]).  An anchor [(q, 0)] is the object node at root path [q];
    [(q, k)], [k > 0], the [k]-th pseudo-gene (full loss) above it. *)
From Coq Require Import List Bool Arith Permutation.
From SR Require Import Base.PathB Model.Recon Model.Branches Proofs.ReconProofs Proofs.BranchesProofs.
Import ListNotations.

(* the model raises no exception on a valid reconciliation *)
Theorem C13_branches_defined : forall S O r,
  valid_rec S O r -> exists out, branches S r = Some out.
Proof. exact branches_total. Qed.
Print Assumptions C13_branches_defined.

(* [branches] is [species_state] for every species of [S], in pre-order *)
Theorem C13_branches_spec : forall S r out,
  branches S r = Some out ->
  exists ops, all_ops S r = Some ops /\ map fst out = snodes S /\
    forall X st, In (X, st) out -> species_state X ops = Some st.
Proof. exact branches_spec. Qed.
Print Assumptions C13_branches_spec.

(* One event node per object node, in the species the node is mapped to, of the kind
   the evaluator assigns: the (species, object path, kind) triples of the branches keyed
   by object nodes are, up to order, those of the object nodes ([nodes_info]: species of
   the node, its path, [KLeaf] for a leaf and speciation / duplication / transfer
   according to [event]); object paths are pairwise distinct, so "exactly one". *)
Theorem C13_branches_one_per_node : forall S O r ops,
  valid_rec S O r -> all_ops S r = Some ops ->
  Permutation (real_adds ops) (nodes_info [] r) /\
  NoDup (map (fun x => snd (fst x)) (nodes_info [] r)).
Proof. exact branches_one_per_node. Qed.
Print Assumptions C13_branches_one_per_node.

(* One loss marker per full loss counted by the evaluator, in the species where it
   occurs: the species holding FULL_LOSS branches are, up to order, the evaluator's
   loss list [all_losses] (whose length is the full-loss count in [cost_recount]). *)
Theorem C13_losses_match_recount : forall S O r ops,
  valid_rec S O r -> all_ops S r = Some ops ->
  Permutation (loss_species ops) (all_losses r).
Proof. exact losses_match_recount. Qed.
Print Assumptions C13_losses_match_recount.

Theorem C13_loss_count_is_evaluator_count : forall c S O r ops,
  valid_rec S O r -> all_ops S r = Some ops ->
  cost c O r = recount c r /\ length (loss_species ops) = length (all_losses r).
Proof.
  intros c S O r ops V H. split; [exact (cost_recount c S O r V)|].
  apply Permutation_length. exact (losses_match_recount S O r ops V H).
Qed.
Print Assumptions C13_loss_count_is_evaluator_count.

(* A transfer branch belongs to a transfer node at [q] mapped to [X]; its [right]
   field is the transferred child [q ++ [x]] — the child whose species is NOT below [X],
   the other child being below [X] — and that child is an anchor of its own species. *)
Theorem C13_transfer_targets : forall S O r ops,
  valid_rec S O r -> all_ops S r = Some ops ->
  forall X b, In b (branches_at X ops) -> b_kind b = KTr ->
  exists q s a c x, rsub r q = Some (RNode s a c) /\ X = s /\ b_id b = (q, 0) /\
    anc s (root (child a c x)) = false /\ anc s (root (child a c (negb x))) = true /\
    b_right b = Some (q ++ [x], 0) /\ is_anchor (root (child a c x)) ops (q ++ [x], 0).
Proof. exact transfer_targets. Qed.
Print Assumptions C13_transfer_targets.

(* Every anchor a branch dereferences when it is laid out and drawn was created
   ([branch_refs_ok]): speciation children are anchors of the first / second child
   species; a loss keeps exactly one child, an anchor of the child species on that side;
   duplication and conserved-transfer children are branches of the same species; the
   transfer target is an anchor of the transferred child's species; and no anchor set
   operation fails. *)
Theorem C13_anchors_exist : forall S O r ops,
  valid_rec S O r -> all_ops S r = Some ops ->
  (forall X, exists st, species_state X ops = Some st) /\
  (forall X b, In b (branches_at X ops) -> branch_refs_ok r ops X b).
Proof. exact anchors_exist. Qed.
Print Assumptions C13_anchors_exist.

(* the hypotheses are satisfiable on a reconciliation with transfers and two full losses *)
Example C13_example :
  let S := SNode (SNode SLeaf SLeaf) (SNode SLeaf (SNode SLeaf SLeaf)) in
  let O := ONode (OLeaf [false; false] []) (ONode (OLeaf [false; true] [])
                 (ONode (OLeaf [true; true; false] []) (OLeaf [false; true] []))) in
  let r := RNode [true] (RLeaf [false; false]) (RNode [true] (RLeaf [false; true])
                 (RNode [true; true; false] (RLeaf [true; true; false]) (RLeaf [false; true]))) in
  valid_rec S O r /\ exists ops, all_ops S r = Some ops /\ length (loss_species ops) = 2 /\ length (real_adds ops) = 7.
Proof. exact branches_example. Qed.
Print Assumptions C13_example.

(* the remaining hypotheses on the same reconciliation: [branches S r = Some out] (one entry
   per species; hypothesis of C13_branches_spec) and a branch of kind TRANSFER in the dict
   of a species (hypotheses [In b (branches_at X ops)], [b_kind b = KTr] of
   C13_transfer_targets): the transfer node O0 at object path [true; true] mapped to R1,
   whose transferred child is the second one.  Evaluated by the kernel. *)
Example C13_example_transfer :
  let S := SNode (SNode SLeaf SLeaf) (SNode SLeaf (SNode SLeaf SLeaf)) in
  let r := RNode [true] (RLeaf [false; false]) (RNode [true] (RLeaf [false; true])
                 (RNode [true; true; false] (RLeaf [true; true; false]) (RLeaf [false; true]))) in
  exists out ops b, branches S r = Some out /\ length out = 9 /\ all_ops S r = Some ops /\
    In b (branches_at [true; true; false] ops) /\ b_kind b = KTr /\
    b_id b = ([true; true], 0) /\ b_right b = Some ([true; true; true], 0).
Proof.
  simpl. eexists. eexists. eexists.
  split; [vm_compute; reflexivity|]. split; [reflexivity|]. split; [vm_compute; reflexivity|].
  split; [vm_compute; right; left; reflexivity|]. repeat split.
Qed.
Print Assumptions C13_example_transfer.
