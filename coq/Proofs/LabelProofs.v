(** Specification and proofs for [Model/Label.v] (label_internal,
    get_species_mapping) and [Model/Cli.v] (dispatch over the generated table).

    Reading guide (the specification is the part to read):
    - [fills l ks l']: [l'] is [l] with its unnamed entries replaced, from left to
      right, by [gen k] for the indices [k] of [ks]; named entries are kept.
    - [fresh_from l lo k]: [k] is the least index [>= lo] whose name [gen k] does
      not occur in [l];  [least_fresh l lo ks]: the first index of [ks] is the
      least fresh one from [lo], each following one the least fresh one above its
      predecessor.
    - [is_uprefix p name]: [name = p ++ "_" ++ rest];  [matches species p i]: the
      [i]-th species leaf has a non-empty name equal to [p] up to ASCII case. *)
From Coq Require Import List Bool Arith Lia String Ascii Sorted DecimalString DecimalNat.
From SR Require Import Model.Label Gen.CliTable Model.Cli.
Import ListNotations.

(* ------------------------------------------------------------------------- *)
(** * Labelling a list of names *)

Section LabelFacts.
  Context {A : Type} (eqb : A -> A -> bool) (unnamed : A -> bool) (gen : nat -> A).
  Hypothesis eqb_spec : forall x y, reflect (x = y) (eqb x y).
  Hypothesis gen_inj : forall i j, gen i = gen j -> i = j.
  Hypothesis gen_named : forall i, unnamed (gen i) = false.

  Notation mem := (mem eqb).
  Notation skip := (skip eqb gen).
  Notation label_list := (label_list eqb unnamed gen).
  Notation label_names := (label_names eqb unnamed gen).
  Notation label_internal := (label_internal eqb unnamed gen).

  (** ** Specification *)

  Inductive fills : list A -> list nat -> list A -> Prop :=
  | fills_nil : fills [] [] []
  | fills_named x l ks l' : unnamed x = false -> fills l ks l' -> fills (x :: l) ks (x :: l')
  | fills_unnamed x l k ks l' : unnamed x = true -> fills l ks l' -> fills (x :: l) (k :: ks) (gen k :: l').

  Definition fresh_from (l : list A) (lo k : nat) : Prop :=
    lo <= k /\ ~ In (gen k) l /\ forall j, lo <= j < k -> In (gen j) l.

  Fixpoint least_fresh (l : list A) (lo : nat) (ks : list nat) : Prop :=
    match ks with
    | [] => True
    | k :: r => fresh_from l lo k /\ least_fresh l (S k) r
    end.

  (** ** Membership, the skipping counter and its fuel *)

  Lemma mem_In x l : mem x l = true <-> In x l.
  Proof.
    unfold Label.mem. rewrite existsb_exists. split.
    - intros [y [Hy E]]. destruct (eqb_spec x y); [subst; auto | discriminate].
    - intros H. exists x. split; auto. destruct (eqb_spec x x); congruence.
  Qed.

  Lemma mem_false x l : mem x l = false <-> ~ In x l.
  Proof.
    destruct (mem x l) eqn:E.
    - apply mem_In in E. split; [discriminate | tauto].
    - split; auto. intros _ H. apply mem_In in H. congruence.
  Qed.

  Lemma mem_ext x a b : (In x a <-> In x b) -> mem x a = mem x b.
  Proof.
    intros H. destruct (mem x a) eqn:Ea, (mem x b) eqn:Eb; auto.
    - apply mem_In in Ea. apply mem_false in Eb. tauto.
    - apply mem_In in Eb. apply mem_false in Ea. tauto.
  Qed.

  Lemma skip_some : forall f n names k, skip f n names = Some k -> fresh_from names n k.
  Proof.
    induction f as [|f IH]; simpl; intros n names k H; [discriminate|].
    destruct (mem (gen n) names) eqn:E.
    - apply IH in H. destruct H as (H1 & H2 & H3). split; [lia|]. split; auto.
      intros j Hj. destruct (Nat.eq_dec j n) as [->|Hne]; [apply mem_In; auto | apply H3; lia].
    - inversion H; subst. split; [lia|]. split; [apply mem_false; auto | intros; lia].
  Qed.

  Lemma skip_ext : forall f m a b,
    (forall j, m <= j -> mem (gen j) a = mem (gen j) b) -> skip f m a = skip f m b.
  Proof.
    induction f as [|f IH]; simpl; intros m a b H; auto.
    rewrite (H m) by lia. destruct (mem (gen m) b); auto. apply IH. intros; apply H; lia.
  Qed.

  Definition rm (x : A) (l : list A) : list A := filter (fun y => negb (eqb x y)) l.

  Lemma rm_le x l : List.length (rm x l) <= List.length l.
  Proof. induction l as [|y l IH]; simpl; auto. destruct (negb (eqb x y)); simpl; lia. Qed.

  Lemma rm_length x l : In x l -> List.length (rm x l) < List.length l.
  Proof.
    induction l as [|y l IH]; simpl; [tauto|]. intros [->|H].
    - destruct (eqb_spec x x); [|congruence]. simpl. pose proof (rm_le x l). unfold rm in *. lia.
    - specialize (IH H). destruct (negb (eqb x y)); simpl; unfold rm in *; lia.
  Qed.

  Lemma rm_In x y l : y <> x -> (In y (rm x l) <-> In y l).
  Proof.
    intros Hne. unfold rm. rewrite filter_In. split; [tauto|]. intros H; split; auto.
    destruct (eqb_spec x y); [congruence | reflexivity].
  Qed.

  (* pigeonhole: among [S (length names)] consecutive indices one names nothing in [names] *)
  Lemma skip_total : forall f names n, List.length names < f -> exists k, skip f n names = Some k.
  Proof.
    induction f as [|f IH]; intros names n H; [lia|]. simpl.
    destruct (mem (gen n) names) eqn:E; [|eauto].
    apply mem_In in E. pose proof (rm_length _ _ E) as Hl.
    destruct (IH (rm (gen n) names) (S n)) as [k Hk]; [lia|].
    exists k. rewrite <- Hk. apply skip_ext. intros j Hj. apply mem_ext. symmetry. apply rm_In.
    intros Heq. apply gen_inj in Heq. lia.
  Qed.

  (** ** The loop *)

  Lemma fresh_from_ext a b lo k :
    (forall j, lo <= j -> (In (gen j) a <-> In (gen j) b)) -> fresh_from a lo k -> fresh_from b lo k.
  Proof.
    intros H (H1 & H2 & H3). split; auto. split.
    - rewrite <- H; auto.
    - intros j Hj. apply H; [lia|]. apply H3; auto.
  Qed.

  Lemma least_fresh_ext a b : forall ks lo,
    (forall j, lo <= j -> (In (gen j) a <-> In (gen j) b)) -> least_fresh a lo ks -> least_fresh b lo ks.
  Proof.
    induction ks as [|k ks IH]; simpl; auto. intros lo H [H1 H2]. split.
    - eapply fresh_from_ext; eauto.
    - apply IH; auto. intros j Hj. apply H. destruct H1. lia.
  Qed.

  Lemma least_fresh_bump l lo ks : In (gen lo) l -> least_fresh l lo ks -> least_fresh l (S lo) ks.
  Proof.
    destruct ks as [|k ks]; simpl; auto. intros Hin [(H1 & H2 & H3) H4]. split; auto.
    split; [|split; auto].
    - destruct (Nat.eq_dec k lo); [subst; tauto | lia].
    - intros; apply H3; lia.
  Qed.

  Lemma label_list_cons done x rest n :
    label_list done (x :: rest) n =
    if unnamed x then
      match skip (S (List.length (done ++ x :: rest))) n (done ++ x :: rest) with
      | None => None
      | Some k => label_list (done ++ [gen k]) rest k
      end
    else label_list (done ++ [x]) rest n.
  Proof. reflexivity. Qed.

  Lemma label_list_spec : forall todo done n,
    exists l' ks, label_list done todo n = Some (done ++ l') /\ fills todo ks l'
                  /\ least_fresh (done ++ todo) n ks.
  Proof.
    induction todo as [|x rest IH]; intros done n.
    - exists [], []. simpl. rewrite app_nil_r. repeat split; constructor.
    - rewrite label_list_cons. destruct (unnamed x) eqn:U.
      + destruct (skip_total (S (List.length (done ++ x :: rest))) (done ++ x :: rest) n) as [k Hk]; [lia|].
        rewrite Hk. pose proof (skip_some _ _ _ _ Hk) as Hf.
        destruct (IH (done ++ [gen k]) k) as (l' & ks & E & F & L).
        exists (gen k :: l'), (k :: ks). rewrite E, <- app_assoc. simpl.
        split; [reflexivity|]. split; [constructor; auto|]. split; auto.
        apply least_fresh_ext with (a := (done ++ [gen k]) ++ rest).
        * intros j Hj. rewrite <- app_assoc. simpl. rewrite !in_app_iff. simpl.
          split; (intros [H|[H|H]]; auto).
          -- apply gen_inj in H. lia.
          -- subst x. rewrite gen_named in U. discriminate.
        * apply least_fresh_bump; auto. rewrite !in_app_iff. simpl. auto.
      + destruct (IH (done ++ [x]) n) as (l' & ks & E & F & L).
        exists (x :: l'), ks. rewrite E, <- app_assoc. simpl.
        split; auto. split; [constructor; auto|]. rewrite <- app_assoc in L. exact L.
  Qed.

  Theorem label_names_spec : forall l,
    exists l' ks, label_names l = Some l' /\ fills l ks l' /\ least_fresh l 0 ks.
  Proof. intros l. exact (label_list_spec l [] 0). Qed.

  (** ** Consequences of the specification *)

  Lemma least_fresh_facts l : forall ks lo, least_fresh l lo ks ->
    StronglySorted lt ks /\ Forall (fun k => lo <= k /\ ~ In (gen k) l) ks.
  Proof.
    induction ks as [|k ks IH]; simpl; intros lo H.
    - split; constructor.
    - destruct H as [(H1 & H2 & _) H4]. destruct (IH _ H4) as [S1 F1]. split.
      + constructor; auto. eapply Forall_impl; [|exact F1]. simpl. intros a [Ha _]. lia.
      + constructor; auto. eapply Forall_impl; [|exact F1]. simpl. intros a [Ha Hb]. split; auto. lia.
  Qed.

  Lemma sorted_lt_NoDup : forall ks : list nat, StronglySorted lt ks -> NoDup ks.
  Proof.
    induction 1 as [|k ks S IH F]; constructor; auto.
    intros Hin. rewrite Forall_forall in F. specialize (F _ Hin). lia.
  Qed.

  Lemma fills_length l ks l' : fills l ks l' -> List.length l' = List.length l.
  Proof. induction 1; simpl; congruence. Qed.

  Lemma fills_named_all l ks l' : fills l ks l' -> Forall (fun y => unnamed y = false) l'.
  Proof. induction 1; constructor; auto. Qed.

  Lemma Forall2_weaken {B C} (P Q : B -> C -> Prop) l l' :
    (forall a b, P a b -> Q a b) -> Forall2 P l l' -> Forall2 Q l l'.
  Proof. intros H. induction 1; constructor; auto. Qed.

  (* position by position: a given name is kept, an unnamed entry gets a generated name *)
  Lemma fills_pointwise l ks l' : fills l ks l' ->
    Forall2 (fun x y => if unnamed x then exists k, In k ks /\ y = gen k else y = x) l l'.
  Proof.
    clear eqb_spec gen_inj gen_named.
    induction 1 as [|x l ks l' U F IH|x l k ks l' U F IH]; constructor; auto.
    - rewrite U. reflexivity.
    - rewrite U. exists k. simpl. auto.
    - eapply Forall2_weaken; [|exact IH]. simpl. intros a b. destruct (unnamed a); auto.
      intros (k' & Hk & ->). exists k'. simpl. auto.
  Qed.

  Lemma fills_In l ks l' : fills l ks l' -> forall y, In y l' ->
    (In y l /\ unnamed y = false) \/ exists k, In k ks /\ y = gen k.
  Proof.
    induction 1 as [|x l ks l' U F IH|x l k ks l' U F IH]; simpl; intros y Hy; [tauto| |].
    - destruct Hy as [<-|Hy]; [left; auto|]. destruct (IH _ Hy) as [[H1 H2]|(k & H1 & H2)]; [left; auto | right; eauto].
    - destruct Hy as [<-|Hy]; [right; eauto|]. destruct (IH _ Hy) as [[H1 H2]|(k' & H1 & H2)]; [left; auto | right; eauto].
  Qed.

  Definition named (x : A) : bool := negb (unnamed x).

  Lemma fills_NoDup l ks l' : fills l ks l' ->
    NoDup ks -> (forall k, In k ks -> ~ In (gen k) l) -> NoDup (filter named l) -> NoDup l'.
  Proof.
    induction 1 as [|x l ks l' U F IH|x l k ks l' U F IH]; intros Hks Hfresh Hnd.
    - constructor.
    - simpl in Hnd. unfold named in Hnd at 1. rewrite U in Hnd. simpl in Hnd. inversion Hnd as [|? ? Hx Hnd']; subst.
      constructor.
      + intros Hin. destruct (fills_In _ _ _ F _ Hin) as [[H1 H2]|(k & H1 & H2)].
        * apply Hx. apply filter_In. unfold named. rewrite H2. auto.
        * apply (Hfresh k H1). left. auto.
      + apply IH; auto. intros k Hk Hin. apply (Hfresh k Hk). right. auto.
    - simpl in Hnd. unfold named in Hnd at 1. rewrite U in Hnd. simpl in Hnd. inversion Hks as [|? ? Hk Hks']; subst.
      constructor.
      + intros Hin. destruct (fills_In _ _ _ F _ Hin) as [[H1 H2]|(k' & H1 & H2)].
        * apply (Hfresh k (or_introl eq_refl)). right. auto.
        * apply gen_inj in H2. subst k'. auto.
      + apply IH; auto.
        * intros k' Hk' Hin. apply (Hfresh k' (or_intror Hk')). right. auto.
  Qed.

  (* nothing to do on a list without unnamed entries *)
  Lemma label_list_named : forall todo done n,
    Forall (fun y => unnamed y = false) todo -> label_list done todo n = Some (done ++ todo).
  Proof.
    induction todo as [|x rest IH]; intros done n H.
    - simpl. rewrite app_nil_r. reflexivity.
    - rewrite label_list_cons. inversion H as [|? ? Hx Hr]; subst. rewrite Hx. rewrite IH by auto. rewrite <- app_assoc. reflexivity.
  Qed.
End LabelFacts.

(* ------------------------------------------------------------------------- *)
(** * Trees: pre-order list, shape, refill *)

Section NtreeInd.
  Context {A : Type} (P : ntree A -> Prop).
  Hypothesis H : forall x cs, Forall P cs -> P (NT x cs).
  Fixpoint ntree_ind' (t : ntree A) : P t :=
    match t with
    | NT x cs =>
        H x cs ((fix go (l : list (ntree A)) : Forall P l :=
                   match l with
                   | [] => Forall_nil _
                   | c :: r => Forall_cons _ (ntree_ind' c) (go r)
                   end) cs)
    end.
End NtreeInd.

Fixpoint shape {A} (t : ntree A) : ntree unit :=
  match t with NT _ cs => NT tt (map shape cs) end.

Fixpoint refill_forest {A} (cs : list (ntree A)) (l : list A) : option (list (ntree A) * list A) :=
  match cs with
  | [] => Some ([], l)
  | c :: cs' =>
      match refill c l with
      | None => None
      | Some (c', l2) =>
          match refill_forest cs' l2 with
          | None => None
          | Some (r, l3) => Some (c' :: r, l3)
          end
      end
  end.

Lemma refill_eq {A} (x : A) cs l :
  refill (NT x cs) l =
  match l with
  | [] => None
  | y :: l1 => match refill_forest cs l1 with None => None | Some (cs', l2) => Some (NT y cs', l2) end
  end.
Proof.
  destruct l as [|y l1]; [reflexivity|]. simpl.
  match goal with |- match ?a with _ => _ end = match ?b with _ => _ end =>
    assert (E : a = b); [| rewrite E; reflexivity] end.
  clear. revert l1. induction cs as [|c cs IH]; intros l1; simpl; [reflexivity|].
  destruct (refill c l1) as [[c' l2]|]; [|reflexivity]. rewrite IH. reflexivity.
Qed.

Lemma refill_self {A} : forall (t : ntree A) r, refill t (preorder t ++ r) = Some (t, r).
Proof.
  induction t as [x cs IH] using ntree_ind'. intros r. rewrite refill_eq. simpl.
  assert (E : forall r, refill_forest cs (flat_map preorder cs ++ r) = Some (cs, r)).
  { clear x r. induction IH as [|c cs Hc Hcs IHcs]; intros r; simpl; [reflexivity|].
    rewrite <- app_assoc, Hc, IHcs. reflexivity. }
  rewrite E. reflexivity.
Qed.

Lemma refill_spec {A} : forall (t : ntree A) l r,
  List.length l = List.length (preorder t) ->
  exists t', refill t (l ++ r) = Some (t', r) /\ preorder t' = l /\ shape t' = shape t.
Proof.
  induction t as [x cs IH] using ntree_ind'. intros l r Hl. rewrite refill_eq.
  destruct l as [|y l1]; [simpl in Hl; lia|]. simpl in Hl. injection Hl as Hl. simpl.
  assert (E : forall l1 r, List.length l1 = List.length (flat_map preorder cs) ->
            exists cs', refill_forest cs (l1 ++ r) = Some (cs', r)
                        /\ flat_map preorder cs' = l1 /\ map shape cs' = map shape cs).
  { clear x y r l1 Hl. induction IH as [|c cs Hc Hcs IHcs]; intros l1 r Hl; simpl in *.
    - destruct l1; [|simpl in Hl; lia]. exists []. simpl. auto.
    - rewrite app_length in Hl.
      pose (a := List.length (preorder c)).
      assert (Hs : l1 = firstn a l1 ++ skipn a l1) by (symmetry; apply firstn_skipn).
      assert (Ha : List.length (firstn a l1) = a) by (apply firstn_length_le; unfold a; lia).
      assert (Hb : List.length (skipn a l1) = List.length (flat_map preorder cs)).
      { rewrite skipn_length. unfold a. lia. }
      destruct (Hc (firstn a l1) (skipn a l1 ++ r) Ha) as (c' & E1 & P1 & S1).
      destruct (IHcs (skipn a l1) r Hb) as (cs' & E2 & P2 & S2).
      exists (c' :: cs'). rewrite Hs at 1. rewrite <- app_assoc, E1, E2. simpl.
      rewrite P1, P2, S1, S2. rewrite <- Hs. auto. }
  destruct (E l1 r Hl) as (cs' & E1 & P1 & S1). exists (NT y cs'). rewrite E1. simpl.
  rewrite P1, S1. auto.
Qed.

(* ------------------------------------------------------------------------- *)
(** * label_internal on trees *)

Section LabelTree.
  Context {A : Type} (eqb : A -> A -> bool) (unnamed : A -> bool) (gen : nat -> A).
  Hypothesis eqb_spec : forall x y, reflect (x = y) (eqb x y).
  Hypothesis gen_inj : forall i j, gen i = gen j -> i = j.
  Hypothesis gen_named : forall i, unnamed (gen i) = false.

  Notation label_names := (label_names eqb unnamed gen).
  Notation label_internal := (label_internal eqb unnamed gen).

  (* the labelled tree has the shape of the input and its pre-order name list is
     the labelled pre-order name list of the input; in particular the labelling
     never runs out of fuel *)
  Theorem label_internal_spec : forall t,
    exists t', label_internal t = Some t' /\ shape t' = shape t
               /\ label_names (preorder t) = Some (preorder t').
  Proof.
    intros t. unfold Label.label_internal.
    destruct (label_names_spec eqb unnamed gen eqb_spec gen_inj gen_named (preorder t)) as (l' & ks & E & F & _).
    rewrite E. pose proof (fills_length _ _ _ _ _ F) as Hl.
    destruct (refill_spec t l' [] Hl) as (t' & R & P & S). rewrite app_nil_r in R. rewrite R.
    exists t'. rewrite P. auto.
  Qed.

  Theorem label_internal_facts : forall t t',
    label_internal t = Some t' ->
    shape t' = shape t /\
    exists ks, fills unnamed gen (preorder t) ks (preorder t') /\ least_fresh gen (preorder t) 0 ks.
  Proof.
    intros t t' H. destruct (label_internal_spec t) as (t1 & E & S & L).
    rewrite E in H. inversion H; subst t1. split; auto.
    destruct (label_names_spec eqb unnamed gen eqb_spec gen_inj gen_named (preorder t)) as (l' & ks & E' & F & LF).
    rewrite E' in L. inversion L; subst l'. eauto.
  Qed.

  Theorem label_internal_distinct_nonempty : forall t,
    exists t', label_internal t = Some t' /\ shape t' = shape t /\
      (* every node is named *)
      Forall (fun y => unnamed y = false) (preorder t') /\
      (* given names untouched, unnamed nodes receive generated names ... *)
      (exists ks,
         fills unnamed gen (preorder t) ks (preorder t') /\
         (* ... whose indices increase strictly in pre-order and are the least ones
            not naming a node of the input *)
         StronglySorted lt ks /\ least_fresh gen (preorder t) 0 ks) /\
      (* all names pairwise distinct if the given ones are *)
      (NoDup (filter (named unnamed) (preorder t)) -> NoDup (preorder t')).
  Proof.
    intros t. destruct (label_internal_spec t) as (t' & E & S & L). exists t'. split; auto. split; auto.
    destruct (label_internal_facts t t' E) as (_ & ks & F & LF).
    destruct (least_fresh_facts gen _ _ _ LF) as [Sorted Fr].
    split; [eapply fills_named_all; eauto|]. split; [eauto|].
    intros Hnd. eapply fills_NoDup; eauto.
    - apply sorted_lt_NoDup; auto.
    - intros k Hk. rewrite Forall_forall in Fr. apply (Fr k Hk).
  Qed.

  (* position by position *)
  Theorem label_internal_pointwise : forall t t',
    label_internal t = Some t' ->
    Forall2 (fun x y => if unnamed x then exists k, y = gen k else y = x) (preorder t) (preorder t').
  Proof.
    intros t t' H. destruct (label_internal_facts t t' H) as (_ & ks & F & _).
    eapply Forall2_weaken; [|exact (fills_pointwise unnamed gen _ _ _ F)].
    simpl. intros a b. destruct (unnamed a); auto. intros (k & _ & ->). eauto.
  Qed.

  Theorem label_internal_idempotent : forall t t',
    label_internal t = Some t' -> label_internal t' = Some t'.
  Proof.
    intros t t' H. destruct (label_internal_facts t t' H) as (_ & ks & F & _).
    pose proof (fills_named_all _ _ gen_named _ _ _ F) as Hn.
    unfold Label.label_internal, Label.label_names.
    rewrite (label_list_named eqb unnamed gen (preorder t') [] 0 Hn). simpl.
    pose proof (refill_self t' []) as R. rewrite app_nil_r in R. rewrite R. reflexivity.
  Qed.
End LabelTree.

(* ------------------------------------------------------------------------- *)
(** * The instance used by the code: strings, "O"/"S" ++ decimal *)

Lemma append_inj_l : forall p a b : string, (p ++ a)%string = (p ++ b)%string -> a = b.
Proof. induction p as [|c p IH]; simpl; intros a b H; auto. injection H as H. auto. Qed.

Lemma decimal_inj : forall i j, decimal i = decimal j -> i = j.
Proof.
  unfold decimal. intros i j H.
  assert (E : Some (Nat.to_uint i) = Some (Nat.to_uint j)).
  { rewrite <- !NilEmpty.usu. rewrite H. reflexivity. }
  injection E as E. rewrite <- (Unsigned.of_to i), <- (Unsigned.of_to j), E. reflexivity.
Qed.

Lemma gen_name_inj p : forall i j, gen_name p i = gen_name p j -> i = j.
Proof. unfold gen_name. intros i j H. apply append_inj_l in H. apply decimal_inj; auto. Qed.

Lemma gen_O_named : forall i, is_unnamed (gen_name "O" i) = false.
Proof. intros i. reflexivity. Qed.

Lemma gen_S_named : forall i, is_unnamed (gen_name "S" i) = false.
Proof. intros i. reflexivity. Qed.

(* ------------------------------------------------------------------------- *)
(** * get_species_mapping *)

Definition is_uprefix (p name : string) : Prop := exists rest, name = (p ++ String "_" rest)%string.

Definition matches (species : list string) (p : string) (i : nat) : Prop :=
  exists s, nth_error species i = Some s /\ s <> EmptyString /\ lower s = lower p.

Lemma uprefixes_In : forall s p, In p (uprefixes s) <-> is_uprefix p s.
Proof.
  induction s as [|c r IH]; intros p; simpl.
  - split; [tauto|]. intros [rest H]. destruct p; discriminate.
  - rewrite in_app_iff, in_map_iff. split.
    + intros [H|(q & <- & H)].
      * destruct (Ascii.eqb_spec c "_"); [|destruct H]. destruct H as [<-|[]]. subst c. exists r. reflexivity.
      * apply IH in H. destruct H as [rest ->]. exists rest. reflexivity.
    + intros [rest H]. destruct p as [|c' p']; simpl in H.
      * injection H as -> ->. left. rewrite Ascii.eqb_refl. left. reflexivity.
      * injection H as <- ->. right. exists p'. split; auto. apply IH. exists rest. reflexivity.
Qed.

Lemma uprefixes_sorted : forall s,
  StronglySorted (fun a b => String.length a < String.length b) (uprefixes s).
Proof.
  induction s as [|c r IH]; simpl; [constructor|].
  assert (M : StronglySorted (fun a b => String.length a < String.length b) (map (String c) (uprefixes r))).
  { induction IH as [|a l S IHS F]; simpl; constructor; auto.
    rewrite Forall_forall in *. intros x Hx. apply in_map_iff in Hx. destruct Hx as (y & <- & Hy).
    simpl. specialize (F _ Hy). lia. }
  destruct (c =? "_")%char; simpl; auto. constructor; auto.
  rewrite Forall_forall. intros x Hx. apply in_map_iff in Hx. destruct Hx as (y & <- & Hy). simpl. lia.
Qed.

(* index of the last species leaf with a non-empty name whose lower-cased form is [k] *)
Fixpoint last_idx (k : string) (sp : list string) : option nat :=
  match sp with
  | [] => None
  | s :: r =>
      match last_idx k r with
      | Some j => Some (S j)
      | None => if negb (s =? "")%string && (lower s =? k)%string then Some 0 else None
      end
  end.

Lemma dict_get_cons k k' i d :
  dict_get k ((k', i) :: d) = if (k' =? k)%string then Some i else dict_get k d.
Proof. unfold dict_get. simpl. destruct (k' =? k)%string; reflexivity. Qed.

Lemma species_dict_get : forall sp b d k,
  dict_get k (species_dict b sp d) =
  match last_idx k sp with Some j => Some (b + j) | None => dict_get k d end.
Proof.
  induction sp as [|s r IH]; intros b d k; simpl; [reflexivity|].
  rewrite IH. destruct (last_idx k r) as [j|]; [f_equal; lia|].
  destruct (s =? "")%string; simpl; [reflexivity|].
  rewrite dict_get_cons. destruct (lower s =? k)%string; [f_equal; lia | reflexivity].
Qed.

Lemma last_idx_none : forall sp k, last_idx k sp = None ->
  forall j s, nth_error sp j = Some s -> s <> EmptyString -> lower s <> k.
Proof.
  induction sp as [|s0 r IH]; intros k H j s Hn Hs; [destruct j; discriminate|].
  simpl in H. destruct (last_idx k r) eqn:E; [discriminate|].
  destruct j as [|j]; simpl in Hn.
  - injection Hn as ->. destruct (String.eqb_spec s ""); [congruence|]. simpl in H.
    destruct (String.eqb_spec (lower s) k); [discriminate | auto].
  - eapply IH; eauto.
Qed.

Lemma last_idx_some : forall sp k i, last_idx k sp = Some i ->
  (exists s, nth_error sp i = Some s /\ s <> EmptyString /\ lower s = k) /\
  (forall j s, i < j -> nth_error sp j = Some s -> s <> EmptyString -> lower s <> k).
Proof.
  induction sp as [|s0 r IH]; intros k i H; [discriminate|]. simpl in H.
  destruct (last_idx k r) as [j0|] eqn:E.
  - injection H as <-. destruct (IH _ _ E) as [H1 H2]. split; [exact H1|].
    intros j s Hj Hn. destruct j as [|j]; [lia|]. simpl in Hn. apply (H2 j s); auto. lia.
  - destruct (String.eqb_spec s0 ""); simpl in H; [discriminate|].
    destruct (String.eqb_spec (lower s0) k); [|discriminate]. injection H as <-. split.
    + exists s0. simpl. auto.
    + intros j s Hj Hn. destruct j as [|j]; [lia|]. simpl in Hn. eapply last_idx_none; eauto.
Qed.

Lemma first_key_some : forall d ps i, first_key d ps = Some i ->
  exists ps1 p ps2, ps = ps1 ++ p :: ps2 /\ dict_get (lower p) d = Some i
                    /\ forall q, In q ps1 -> dict_get (lower q) d = None.
Proof.
  induction ps as [|p ps IH]; simpl; intros i H; [discriminate|].
  destruct (dict_get (lower p) d) as [i'|] eqn:E.
  - injection H as ->. exists [], p, ps. simpl. tauto.
  - destruct (IH _ H) as (ps1 & p' & ps2 & -> & H1 & H2). exists (p :: ps1), p', ps2. simpl.
    split; auto. split; auto. intros q [<-|Hq]; auto.
Qed.

Lemma first_key_none : forall d ps, first_key d ps = None ->
  forall q, In q ps -> dict_get (lower q) d = None.
Proof.
  induction ps as [|p ps IH]; simpl; intros H q Hq; [tauto|].
  destruct (dict_get (lower p) d) eqn:E; [discriminate|]. destruct Hq as [<-|Hq]; auto.
Qed.

Lemma sorted_split_before {B} (R : B -> B -> Prop) : forall l1 x l2 y,
  StronglySorted R (l1 ++ x :: l2) -> In y (l1 ++ x :: l2) -> ~ R x y -> y <> x -> In y l1.
Proof.
  induction l1 as [|a l1 IH]; simpl; intros x l2 y S Hin Hn Hne.
  - inversion S as [|? ? _ F]; subst. destruct Hin as [<-|Hin]; [congruence|].
    rewrite Forall_forall in F. exfalso. apply Hn. apply F. auto.
  - inversion S as [|? ? S' F]; subst. destruct Hin as [<-|Hin]; auto. right. eapply IH; eauto.
Qed.

Theorem species_prefix_mapping_some : forall species name i,
  species_prefix_mapping species name = Some i ->
  exists p,
    is_uprefix p name /\
    (* the species leaf chosen carries that prefix (up to case) and is the last such leaf *)
    matches species p i /\ (forall j, matches species p j -> j <= i) /\
    (* no shorter underscore-terminated prefix names a species *)
    (forall p', is_uprefix p' name -> String.length p' < String.length p -> forall j, ~ matches species p' j).
Proof.
  unfold species_prefix_mapping. intros species name i H.
  destruct (first_key_some _ _ _ H) as (ps1 & p & ps2 & E & G & N). exists p.
  rewrite species_dict_get in G. simpl in G.
  destruct (last_idx (lower p) species) as [j|] eqn:L; [|discriminate]. injection G as <-.
  destruct (last_idx_some _ _ _ L) as [(s & H1 & H2 & H3) H4].
  split; [apply uprefixes_In; rewrite E; apply in_or_app; simpl; auto|].
  split; [exists s; auto|]. split.
  - intros j' (s' & M1 & M2 & M3). destruct (le_lt_dec j' j); auto. exfalso. eapply H4; eauto.
  - intros p' U Hlen j' (s' & M1 & M2 & M3).
    assert (Hin : In p' ps1).
    { pose proof (uprefixes_sorted name) as S. rewrite E in S.
      apply (sorted_split_before _ ps1 p ps2 p' S).
      - rewrite <- E. apply uprefixes_In; auto.
      - lia.
      - intros ->. lia. }
    specialize (N _ Hin). rewrite species_dict_get in N. simpl in N.
    destruct (last_idx (lower p') species) eqn:L'; [discriminate|].
    eapply last_idx_none; eauto.
Qed.

Theorem species_prefix_mapping_none : forall species name,
  species_prefix_mapping species name = None ->
  forall p, is_uprefix p name -> forall j, ~ matches species p j.
Proof.
  unfold species_prefix_mapping. intros species name H p U j (s & M1 & M2 & M3).
  apply uprefixes_In in U. pose proof (first_key_none _ _ H _ U) as N.
  rewrite species_dict_get in N. simpl in N.
  destruct (last_idx (lower p) species) eqn:L; [discriminate|].
  eapply last_idx_none; eauto.
Qed.

(* ------------------------------------------------------------------------- *)
(** * Dispatch over the generated table *)

(* the documented algorithms (README, [reconcile --help]); [true] = super-reconciliation algorithm *)
Definition documented_algorithms : list (string * bool) :=
  [("exh", false); ("lca", false); ("thl", false);
   ("base_spfs", true); ("ext_spfs", true); ("base_uspfs", true); ("superdtl", true)]%string.

(* what the property demands of a documented algorithm *)
Definition expected_decision (is_super has_syntenies : bool) : decision :=
  if is_super then (if has_syntenies then Run else Error)
  else (if has_syntenies then RunWithWarning else Run).

Definition dispatch_check : bool :=
  forallb (fun e : string * bool =>
             let (key, is_super) := e in
             forallb (fun has_syn => outcome_eqb (dispatch key has_syn) (Decided (expected_decision is_super has_syn)))
                     [true; false])
          documented_algorithms.

Lemma outcome_eqb_eq a b : outcome_eqb a b = true -> a = b.
Proof. destruct a as [|[]], b as [|[]]; simpl; intros; congruence. Qed.

(* by computation over Gen/CliTable.v, re-run by the kernel whenever the table is regenerated *)
Lemma dispatch_check_ok : dispatch_check = true.
Proof. vm_compute. reflexivity. Qed.

Theorem dispatch_documented : forall key is_super, In (key, is_super) documented_algorithms ->
  forall has_syn, dispatch key has_syn = Decided (expected_decision is_super has_syn).
Proof.
  intros key is_super Hin has_syn. pose proof dispatch_check_ok as H. unfold dispatch_check in H.
  rewrite forallb_forall in H. specialize (H _ Hin). simpl in H.
  rewrite !andb_true_iff in H. destruct H as (H1 & H2 & _).
  apply outcome_eqb_eq. destruct has_syn; auto.
Qed.

Theorem decide_error_iff : forall annotation takes_policy has_syn,
  decide annotation takes_policy has_syn = Error <->
  annotation = SuperReconciliationInput /\ has_syn = false.
Proof.
  intros [] p []; unfold decide; simpl; split; intros H; try discriminate; auto; destruct H; discriminate.
Qed.

Theorem dispatch_error_iff : forall key has_syn,
  dispatch key has_syn = Decided Error <->
  exists takes_policy, lookup key cli_table = Some (SuperReconciliationInput, takes_policy) /\ has_syn = false.
Proof.
  intros key has_syn. unfold dispatch. destruct (lookup key cli_table) as [[a p]|]; split.
  - intros H. injection H as H. apply decide_error_iff in H. destruct H as [-> ->]. eauto.
  - intros (p' & H & ->). injection H as -> ->. reflexivity.
  - discriminate.
  - intros (p' & H & _). discriminate.
Qed.
