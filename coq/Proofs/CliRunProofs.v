(** End-to-end theorems for the pipeline model of the [reconcile] command
    ([Model/CliRun.v]): what is written parses back to solutions of the printed minimum
    cost, [--solutions all] writes a superset of [--solutions any], the names in the
    written trees, a super-reconciliation algorithm without syntenies is refused.

    They compose, at the model level, the theorems proved separately for the pieces:
    the solvers (C01-C03, C05, C07: [ThlFinal], [ExhProofs], [LcaProofs], [SpfsFinal],
    [UspfsFinal]), the evaluator ([Model/Recon.v]), the dictionary layer and the Newick
    codec (C11: [SerialProofs], [NewickProofs]), [label_internal] and the dispatch table
    (C12: [LabelProofs]). *)
From Coq Require Import List Bool Arith ZArith NArith String Ascii Lia Permutation DecimalString.
From SR Require Import Base.PathB Base.Ext Model.Entry Model.Recon Model.LcaRec Model.Thl
  Model.Spfs Model.Uspfs Model.Newick Model.Serial Model.Label Gen.CliTable Model.Cli Model.CliRun.
From SR Require Import Proofs.PathFacts Proofs.ReconProofs Proofs.EntryProofs Proofs.DpProofs Proofs.LcaProofs
  Proofs.ExhProofs Proofs.ThlProofs Proofs.ThlFinal Proofs.LabelCostProofs Proofs.SpfsProofs Proofs.SpfsFinal
  Proofs.UspfsProofs Proofs.UspfsFinal Proofs.NewickProofs Proofs.SerialProofs Proofs.LabelProofs.
Import ListNotations.
Local Open Scope string_scope.
Local Open Scope list_scope.



(** * paths *)
Lemma to_bpath_npath p : to_bpath (to_npath p) = Some p.
Proof. unfold to_npath. induction p as [|[|] p IH]; cbn; [reflexivity| |]; now rewrite IH. Qed.

Lemma to_npath_bpath : forall q s, to_bpath q = Some s -> to_npath s = q.
Proof.
  induction q as [|i q IH]; intros s E; cbn in E.
  - now inversion E.
  - destruct i as [|[|i]]; try discriminate; destruct (to_bpath q) as [s'|]; try discriminate;
      inversion E; subst; unfold to_npath; cbn; f_equal; apply (IH s' eq_refl).
Qed.

(** * mappings seen from a subtree *)
Section Maps.
  Context {V : Type}.
  Implicit Types m a b : list (npath * V).

  Lemma at_root_cons v m : at_root (([], v) :: m) = Some v.
  Proof. reflexivity. Qed.

  Lemma sub_map_app i a b : sub_map i (a ++ b) = sub_map i a ++ sub_map i b.
  Proof. unfold sub_map. now rewrite flat_map_app. Qed.

  Lemma sub_map_push_same i m : sub_map i (map (push i) m) = m.
  Proof.
    induction m as [|[p v] m IH]; [reflexivity|]. cbn. rewrite Nat.eqb_refl. cbn. f_equal. exact IH.
  Qed.
  Lemma sub_map_push_other i j m : i <> j -> sub_map i (map (push j) m) = [].
  Proof.
    intros N. induction m as [|[p v] m IH]; [reflexivity|]. cbn.
    destruct (Nat.eqb_spec i j); [contradiction|]. exact IH.
  Qed.

  Lemma sub_map_node0 v a b : sub_map 0 (([], v) :: map (push 0) a ++ map (push 1) b) = a.
  Proof.
    change (([], v) :: map (push 0) a ++ map (push 1) b) with ([([], v)] ++ map (push 0) a ++ map (push 1) b).
    rewrite !sub_map_app, sub_map_push_same, sub_map_push_other by discriminate. cbn. apply app_nil_r.
  Qed.
  Lemma sub_map_node1 v a b : sub_map 1 (([], v) :: map (push 0) a ++ map (push 1) b) = b.
  Proof.
    change (([], v) :: map (push 0) a ++ map (push 1) b) with ([([], v)] ++ map (push 0) a ++ map (push 1) b).
    rewrite !sub_map_app, sub_map_push_same, sub_map_push_other by discriminate. reflexivity.
  Qed.

  Lemma sub_map_In i m q v : In (q, v) (sub_map i m) <-> In (i :: q, v) m.
  Proof.
    unfold sub_map. rewrite in_flat_map. split.
    - intros [[p w] [I H]]. cbn in H. destruct p as [|j p]; [destruct H|].
      destruct (Nat.eqb_spec i j); [|destruct H]. destruct H as [H|[]]. inversion H; subst. exact I.
    - intros I. exists (i :: q, v). split; [exact I|]. cbn. rewrite Nat.eqb_refl. now left.
  Qed.

  Lemma at_root_In m v : at_root m = Some v -> In ([], v) m.
  Proof.
    unfold at_root. intros E.
    match type of E with option_map _ ?x = _ => destruct x as [[p w]|] eqn:F end; cbn in E; [|discriminate].
    inversion E; subst.
    apply find_some in F as [I H]. cbn in H. destruct p; [exact I|discriminate].
  Qed.
End Maps.

(** * unit costs *)
Lemma to_costs_items c : to_costs (cost_items c) = Some c.
Proof. destruct c; reflexivity. Qed.

(** * numbering of the families *)
Lemma index_of_nth : forall tbl i s, NoDup tbl -> nth_error tbl i = Some s -> index_of s tbl = Some i.
Proof.
  induction tbl as [|x tbl IH]; intros i s ND E; [destruct i; discriminate|].
  inversion ND as [|? ? Nx ND']; subst. destruct i as [|i]; cbn in *.
  - inversion E; subst. now rewrite String.eqb_refl.
  - destruct (String.eqb_spec s x) as [->|_].
    + exfalso. apply Nx. eapply nth_error_In; eauto.
    + now rewrite (IH i s ND' E).
Qed.
Lemma nth_index_of : forall tbl s i, index_of s tbl = Some i -> nth_error tbl i = Some s.
Proof.
  induction tbl as [|x tbl IH]; intros s i E; [discriminate|]. cbn in E.
  destruct (String.eqb_spec s x) as [->|_].
  - inversion E; subst. reflexivity.
  - destruct (index_of s tbl) as [j|] eqn:Ej; [|discriminate]. inversion E; subst. cbn. now apply IH.
Qed.

Lemma fam_num_name tbl f s : NoDup tbl -> fam_name tbl f = Some s -> fam_num tbl s = Some f.
Proof.
  unfold fam_name, fam_num. intros ND E. rewrite (index_of_nth tbl _ s ND E). cbn. now rewrite N2Nat.id.
Qed.
Lemma fam_name_num tbl f s : fam_num tbl s = Some f -> fam_name tbl f = Some s.
Proof.
  unfold fam_name, fam_num. destruct (index_of s tbl) as [i|] eqn:E; [|discriminate]. cbn. intros H.
  inversion H; subst. rewrite Nat2N.id. now apply nth_index_of.
Qed.

Lemma mapM_some {A B} (f : A -> option B) : forall l ys, mapM f l = Some ys -> Forall2 (fun x y => f x = Some y) l ys.
Proof.
  induction l as [|x l IH]; intros ys E; cbn in E.
  - inversion E. constructor.
  - destruct (f x) as [y|] eqn:Ex; [|discriminate]. destruct (mapM f l) as [ys'|]; [|discriminate].
    inversion E; subst. constructor; auto.
Qed.
Lemma mapM_of_Forall2 {A B} (f : A -> option B) : forall l ys, Forall2 (fun x y => f x = Some y) l ys -> mapM f l = Some ys.
Proof. induction 1 as [|x y l ys E _ IH]; cbn; [reflexivity|]. now rewrite E, IH. Qed.

Lemma mapM_num_name tbl : NoDup tbl -> forall y names, mapM (fam_name tbl) y = Some names -> mapM (fam_num tbl) names = Some y.
Proof.
  intros ND y names E. apply mapM_some in E. apply mapM_of_Forall2.
  induction E as [|f s y names E _ IH]; constructor; auto. now apply fam_num_name.
Qed.

Lemma mapM_perm {A B} (f : A -> option B) l l' : Permutation l l' ->
  forall ys, mapM f l = Some ys -> exists ys', mapM f l' = Some ys' /\ Permutation ys ys'.
Proof.
  induction 1 as [|x l l' _ IH|x y l|l l' l'' _ IH1 _ IH2]; intros ys E.
  - exists ys. split; auto.
  - cbn in E. destruct (f x) as [b|] eqn:Ex; [|discriminate]. destruct (mapM f l) as [bs|] eqn:El; [|discriminate].
    inversion E; subst. destruct (IH bs eq_refl) as [bs' [E' P]]. exists (b :: bs'). cbn. rewrite Ex, E'. split; auto.
  - cbn in E. destruct (f y) as [b|] eqn:Ey; [|discriminate]. destruct (f x) as [a|] eqn:Ex; [|discriminate].
    destruct (mapM f l) as [bs|] eqn:El; [|discriminate]. inversion E; subst.
    exists (a :: b :: bs). cbn. rewrite Ex, Ey, El. split; [reflexivity|apply perm_swap].
  - destruct (IH1 ys E) as [ys1 [E1 P1]]. destruct (IH2 ys1 E1) as [ys2 [E2 P2]]. exists ys2. split; auto.
    eapply perm_trans; eauto.
Qed.

Lemma fam_table_nodup ls : NoDup (fam_table ls).
Proof. apply NoDup_nodup. Qed.



Ltac dto := repeat match goal with
  | |- context [match to_otree ?a ?b ?c with _ => _ end] => destruct (to_otree a b c)
  | |- context [match to_stree ?a with _ => _ end] => destruct (to_stree a)
  end.

(** * a binary ete3 tree and a reconciliation of the same shape *)
Fixpoint tmatch (t : tree) (r : rtree) : Prop :=
  match t, r with
  | Node _ _ [], RLeaf _ => True
  | Node _ _ [a; b], RNode _ ra rb => tmatch a ra /\ tmatch b rb
  | _, _ => False
  end.

Lemma to_otree_leaf_inv t lm ls sp syn : to_otree t lm ls = Some (OLeaf sp syn) -> exists n c, t = Node n c [].
Proof.
  destruct t as [n c [|a [|b [|x ks]]]]; cbn; try discriminate; eauto.
  dto; discriminate.
Qed.
Lemma to_otree_node_inv t lm ls x y : to_otree t lm ls = Some (ONode x y) ->
  exists n c a b, t = Node n c [a; b] /\
    to_otree a (sub_map 0 lm) (option_map (sub_map 0) ls) = Some x /\
    to_otree b (sub_map 1 lm) (option_map (sub_map 1) ls) = Some y.
Proof.
  destruct t as [n c [|a [|b [|z ks]]]]; cbn; try discriminate.
  - destruct (at_root lm); [|discriminate]. destruct (to_bpath n0); [|discriminate].
    destruct ls; [destruct (at_root l)|]; discriminate.
  - destruct (to_otree a _ _) as [x'|] eqn:Ea; [|discriminate]. destruct (to_otree b _ _) as [y'|] eqn:Eb; [|discriminate].
    intros E. inversion E; subst. exists n, c, a, b. auto.
Qed.

Lemma to_otree_tmatch : forall O t lm ls r, to_otree t lm ls = Some O -> LcaProofs.matches O r -> tmatch t r.
Proof.
  induction O as [sp syn|x IHx y IHy]; intros t lm ls r E M; inversion M; subst.
  - destruct (to_otree_leaf_inv _ _ _ _ _ E) as [n [c ->]]. exact I.
  - destruct (to_otree_node_inv _ _ _ _ _ E) as [n [c [a [b [-> [Ea Eb]]]]]]. cbn. split; eauto.
Qed.

(* erasing the leaf syntenies: what a plain algorithm, and the evaluator of the species mapping, see *)
Fixpoint strip (O : Recon.otree) : Recon.otree :=
  match O with OLeaf sp _ => OLeaf sp [] | ONode a b => ONode (strip a) (strip b) end.

Lemma to_otree_strip : forall O t lm ls, to_otree t lm ls = Some O -> to_otree t lm None = Some (strip O).
Proof.
  induction O as [sp syn|x IHx y IHy]; intros t lm ls E.
  - destruct (to_otree_leaf_inv _ _ _ _ _ E) as [n [c ->]]. cbn in *.
    destruct (at_root lm); [|discriminate]. destruct (to_bpath n0); [|discriminate].
    destruct ls as [m|]; [destruct (at_root m); [|discriminate]|]; cbn in E; inversion E; reflexivity.
  - destruct (to_otree_node_inv _ _ _ _ _ E) as [n [c [a [b [-> [Ea Eb]]]]]]. cbn.
    now rewrite (IHx _ _ _ Ea), (IHy _ _ _ Eb).
Qed.

Lemma cost_strip c : forall O r, cost c (strip O) r = cost c O r.
Proof.
  induction O as [sp syn|x IHx y IHy]; intros [s|s ra rb]; cbn; try reflexivity.
  now rewrite IHx, IHy.
Qed.
Lemma total_cost_strip c O ord t : total_cost c (strip O) ord t = total_cost c O ord t.
Proof. unfold total_cost. now rewrite cost_strip. Qed.

(** * [object_species] of a result: written, then read back *)
Lemma to_rtree_omap : forall r t, tmatch t r -> to_rtree t (omap_of r) = Some r.
Proof.
  induction r as [s|s ra IHa rb IHb]; intros [n c [|a [|b [|z ks]]]] M; cbn in M; try contradiction.
  - cbn. now rewrite to_bpath_npath.
  - destruct M as [Ma Mb]. cbn [to_rtree omap_of]. rewrite at_root_cons, sub_map_node0, sub_map_node1.
    rewrite (IHa _ Ma), (IHb _ Mb), to_bpath_npath. reflexivity.
Qed.

Lemma push_fst {V} i (m : list (npath * V)) : map fst (map (push i) m) = map (cons i) (map fst m).
Proof. rewrite !map_map. reflexivity. Qed.

Lemma keys_nodup_node {V} (v : V) (a b : list (npath * V)) :
  NoDup (map fst a) -> NoDup (map fst b) -> NoDup (map fst (([], v) :: map (push 0) a ++ map (push 1) b)).
Proof.
  intros Ha Hb. cbn. rewrite map_app, !push_fst. constructor.
  - intros I. apply in_app_or in I as [I|I]; apply in_map_iff in I as [? [? _]]; discriminate.
  - apply NoDup_app_disj.
    + apply NoDup_map_inj; [intros ? ? E; now inversion E|exact Ha].
    + apply NoDup_map_inj; [intros ? ? E; now inversion E|exact Hb].
    + intros p I1 I2. apply in_map_iff in I1 as [? [<- _]]. apply in_map_iff in I2 as [? [? _]]. discriminate.
Qed.

Lemma omap_keys_nodup : forall r, NoDup (map fst (omap_of r)).
Proof.
  induction r as [s|s ra IHa rb IHb]; cbn [omap_of].
  - cbn. constructor; [intros []|constructor].
  - now apply keys_nodup_node.
Qed.

Lemma valid_nil t : valid t [] = true.
Proof. reflexivity. Qed.
Lemma valid_cons0 n c a b p : valid (Node n c [a; b]) (0 :: p) = valid a p.
Proof. reflexivity. Qed.
Lemma valid_cons1 n c a b p : valid (Node n c [a; b]) (1 :: p) = valid b p.
Proof. reflexivity. Qed.

Lemma Forall_node {V} (P : npath -> V -> Prop) (Q0 Q1 : npath -> V -> Prop) v (a b : list (npath * V)) :
  P [] v -> (forall p w, Q0 p w -> P (0 :: p) w) -> (forall p w, Q1 p w -> P (1 :: p) w) ->
  Forall (fun pv => Q0 (fst pv) (snd pv)) a -> Forall (fun pv => Q1 (fst pv) (snd pv)) b ->
  Forall (fun pv => P (fst pv) (snd pv)) (([], v) :: map (push 0) a ++ map (push 1) b).
Proof.
  intros H H0 H1 Fa Fb. constructor; [exact H|]. apply Forall_app. split; apply Forall_map.
  - eapply Forall_impl; [|exact Fa]. intros [p w] Hq. cbn in *. auto.
  - eapply Forall_impl; [|exact Fb]. intros [p w] Hq. cbn in *. auto.
Qed.

Lemma omap_keys_valid : forall r t, tmatch t r -> Forall (fun pq => valid t (fst pq) = true) (omap_of r).
Proof.
  induction r as [s|s ra IHa rb IHb]; intros [n c [|a [|b [|z ks]]]] M; cbn in M; try contradiction.
  - repeat constructor.
  - destruct M as [Ma Mb]. cbn [omap_of].
    apply (Forall_node (fun p _ => valid (Node n c [a; b]) p = true) (fun p _ => valid a p = true) (fun p _ => valid b p = true)); auto.
Qed.

(** * species: paths of the binary species tree <-> nodes of the ete3 tree *)
Lemma to_stree_leaf_inv t : to_stree t = Some SLeaf -> exists n c, t = Node n c [].
Proof.
  destruct t as [n c [|a [|b [|x ks]]]]; cbn; try discriminate; eauto.
  dto; discriminate.
Qed.
Lemma to_stree_node_inv t l r : to_stree t = Some (SNode l r) ->
  exists n c a b, t = Node n c [a; b] /\ to_stree a = Some l /\ to_stree b = Some r.
Proof.
  destruct t as [n c [|a [|b [|x ks]]]]; cbn; try discriminate.
  destruct (to_stree a) as [l'|] eqn:Ea; [|discriminate]. destruct (to_stree b) as [r'|] eqn:Eb; [|discriminate].
  intros E. inversion E; subst. exists n, c, a, b. auto.
Qed.

Lemma valid_sp_npath : forall S t s, to_stree t = Some S -> valid_sp S s = true -> valid t (to_npath s) = true.
Proof.
  induction S as [|l IHl r IHr]; intros t s E V.
  - destruct s as [|x s]; [reflexivity|]. destruct x; discriminate.
  - destruct (to_stree_node_inv _ _ _ E) as [n [c [a [b [-> [Ea Eb]]]]]].
    destruct s as [|[|] s]; [reflexivity| |]; cbn in V; unfold to_npath; cbn [map].
    + rewrite valid_cons1. now apply IHr.
    + rewrite valid_cons0. now apply IHl.
Qed.

Lemma valid_bpath_sp : forall S t q s, to_stree t = Some S -> valid t q = true -> to_bpath q = Some s -> valid_sp S s = true.
Proof.
  induction S as [|l IHl r IHr]; intros t q s E V B.
  - destruct (to_stree_leaf_inv _ E) as [n [c ->]]. destruct q as [|i q]; [cbn in B; inversion B; reflexivity|].
    unfold valid in V. cbn in V. destruct i; discriminate.
  - destruct (to_stree_node_inv _ _ _ E) as [n [c [a [b [-> [Ea Eb]]]]]].
    destruct q as [|i q]; [cbn in B; inversion B; reflexivity|].
    destruct i as [|[|i]]; cbn in B; try discriminate; destruct (to_bpath q) as [s'|] eqn:Bq; try discriminate;
      inversion B; subst; cbn.
    + rewrite valid_cons0 in V. eapply IHl; eauto.
    + rewrite valid_cons1 in V. eapply IHr; eauto.
Qed.

Lemma omap_species_valid S St : to_stree St = Some S ->
  forall O r, valid_rec S O r -> Forall (fun pq => valid St (snd pq) = true) (omap_of r).
Proof.
  intros E. induction 1 as [sp syn Hs|a b s ra rb Hs _ _ IHa _ IHb]; cbn [omap_of].
  - repeat constructor. cbn. eapply valid_sp_npath; eauto.
  - apply (Forall_node (fun _ q => valid St q = true) (fun _ q => valid St q = true) (fun _ q => valid St q = true)); auto.
    eapply valid_sp_npath; eauto.
Qed.

(** * the leaves of the solver's object tree sit on species of the solver's species tree *)
Lemma sub_map_values {V} (P : V -> Prop) i (m : list (npath * V)) :
  Forall (fun pv => P (snd pv)) m -> Forall (fun pv => P (snd pv)) (sub_map i m).
Proof.
  rewrite !Forall_forall. intros H [q v] I. apply sub_map_In in I. exact (H _ I).
Qed.

Lemma to_otree_leaves_ok S St : to_stree St = Some S ->
  forall O t lm ls, to_otree t lm ls = Some O -> Forall (fun pq => valid St (snd pq) = true) lm -> leaves_ok S O.
Proof.
  intros E. induction O as [sp syn|x IHx y IHy]; intros t lm ls Eo F.
  - destruct (to_otree_leaf_inv _ _ _ _ _ Eo) as [n [c ->]]. cbn in Eo.
    destruct (at_root lm) as [q|] eqn:Er; [|discriminate]. destruct (to_bpath q) as [s|] eqn:Bq; [|discriminate].
    assert (s = sp) as ->.
    { destruct ls as [m|]; [destruct (at_root m); [|discriminate]|]; cbn in Eo; now inversion Eo. }
    cbn. apply at_root_In in Er. rewrite Forall_forall in F. specialize (F _ Er). cbn in F.
    eapply valid_bpath_sp; eauto.
  - destruct (to_otree_node_inv _ _ _ _ _ Eo) as [n [c [a [b [-> [Ea Eb]]]]]]. cbn. split.
    + eapply IHx; eauto. now apply (sub_map_values (fun q => valid St q = true)).
    + eapply IHy; eauto. now apply (sub_map_values (fun q => valid St q = true)).
Qed.



(** * labelled results: the syntenies as written, then read back and numbered again *)

(* what a synteny becomes: an ordered one comes back verbatim, an unordered one as the list
   [sort_synteny] made of it, i.e. some permutation *)
Definition srel (ord : bool) (y y' : list fam) : Prop := if ord then y = y' else Permutation y y'.
Fixpoint lrel (ord : bool) (t t' : ltree) : Prop :=
  match t, t' with
  | LLeaf s y, LLeaf s' y' => s = s' /\ srel ord y y'
  | LNode s y a b, LNode s' y' a' b' => s = s' /\ srel ord y y' /\ lrel ord a a' /\ lrel ord b b'
  | _, _ => False
  end.

Lemma lrel_true_eq : forall t t', lrel true t t' -> t = t'.
Proof.
  induction t as [s y|s y a IHa b IHb]; intros [s' y'|s' y' a' b'] H; cbn in H; try contradiction.
  - destruct H as [-> ->]. reflexivity.
  - destruct H as [-> [-> [Ha Hb]]]. now rewrite (IHa _ Ha), (IHb _ Hb).
Qed.

Lemma lrel_forget ord : forall t t', lrel ord t t' -> forget t = forget t'.
Proof.
  induction t as [s y|s y a IHa b IHb]; intros [s' y'|s' y' a' b'] H; cbn in H; try contradiction.
  - destruct H as [-> _]. reflexivity.
  - destruct H as [-> [_ [Ha Hb]]]. cbn. now rewrite (IHa _ Ha), (IHb _ Hb).
Qed.
Lemma lrel_lroot ord t t' : lrel ord t t' -> lroot t = lroot t'.
Proof. destruct t, t'; cbn; try contradiction; tauto. Qed.
Lemma lrel_lsyn t t' : lrel false t t' -> Permutation (lsyn t) (lsyn t').
Proof. destruct t, t'; cbn; try contradiction; tauto. Qed.

Lemma subset_perm a a' b b' : Permutation a a' -> Permutation b b' -> subset a b = subset a' b'.
Proof.
  intros Pa Pb. apply eq_true_iff_eq. unfold subset. rewrite !forallb_forall. split; intros H x I.
  - apply (Permutation_in _ (Permutation_sym Pa)) in I. specialize (H x I). apply existsb_exists in H as [z [Iz E]].
    apply existsb_exists. exists z. split; auto. eapply Permutation_in; eauto.
  - apply (Permutation_in _ Pa) in I. specialize (H x I). apply existsb_exists in H as [z [Iz E]].
    apply existsb_exists. exists z. split; auto. eapply Permutation_in; [apply Permutation_sym|]; eauto.
Qed.

Lemma ulab_rec_lrel : forall t t', lrel false t t' -> ulab_rec t = ulab_rec t'.
Proof.
  induction t as [s y|s y a IHa b IHb]; intros [s' y'|s' y' a' b'] H; cbn in H; try contradiction; [reflexivity|].
  destruct H as [-> [Py [Ha Hb]]]. cbn [ulab_rec].
  rewrite (subset_perm y y' (lsyn a) (lsyn a') Py (lrel_lsyn _ _ Ha)).
  rewrite (subset_perm y y' (lsyn b) (lsyn b') Py (lrel_lsyn _ _ Hb)).
  rewrite (lrel_lroot _ _ _ Ha), (lrel_lroot _ _ _ Hb), (IHa _ Ha), (IHb _ Hb). reflexivity.
Qed.

(* the evaluator does not see in which order an unordered synteny is listed *)
Lemma total_cost_lrel c O ord t t' : lrel ord t t' -> total_cost c O ord t' = total_cost c O ord t.
Proof.
  destruct ord; intros H.
  - now rewrite (lrel_true_eq _ _ H).
  - unfold total_cost, labeling_cost, unordered_labeling_cost.
    now rewrite (lrel_forget _ _ _ H), (ulab_rec_lrel _ _ H).
Qed.

Lemma render_back tbl ord y s : NoDup tbl -> render_syn tbl ord y = Some s ->
  exists l y', s = SList l /\ mapM (fam_num tbl) l = Some y' /\ srel ord y y'.
Proof.
  intros ND. unfold render_syn. destruct (mapM (fam_name tbl) y) as [names|] eqn:E; [|discriminate].
  cbn. intros H. inversion H; subst s. pose proof (mapM_num_name tbl ND y names E) as B.
  destruct ord.
  - exists names, y. repeat split; auto.
  - destruct (mapM_perm (fam_num tbl) names (sort_synteny names) (Permutation_sym (sort_synteny_perm names)) y B)
      as [y' [E' P]].
    exists (sort_synteny names), y'. repeat split; auto.
Qed.

Lemma to_ltree_syns tbl ord : NoDup tbl -> forall lt t sy, tmatch t (forget lt) -> syns_of tbl ord lt = Some sy ->
  exists lt', to_ltree (fam_num tbl) t (omap_of (forget lt)) sy = Some lt' /\ lrel ord lt lt'.
Proof.
  intros ND. induction lt as [s y|s y a IHa b IHb]; intros [n c [|ta [|tb [|z ks]]]] sy M E; cbn in M; try contradiction.
  - cbn in E. destruct (render_syn tbl ord y) as [sv|] eqn:R; [|discriminate]. cbn in E. inversion E; subst sy.
    destruct (render_back tbl ord y sv ND R) as [l [y' [-> [Em Sr]]]].
    exists (LLeaf s y'). split; [|cbn; auto].
    cbn. rewrite Em, to_bpath_npath. reflexivity.
  - destruct M as [Ma Mb]. cbn in E.
    destruct (render_syn tbl ord y) as [sv|] eqn:R; [|discriminate].
    destruct (syns_of tbl ord a) as [ma|] eqn:Ea; [|discriminate].
    destruct (syns_of tbl ord b) as [mb|] eqn:Eb; [|discriminate]. inversion E; subst sy.
    destruct (render_back tbl ord y sv ND R) as [l [y' [-> [Em Sr]]]].
    destruct (IHa _ _ Ma eq_refl) as [a' [Ta Ra]]. destruct (IHb _ _ Mb eq_refl) as [b' [Tb Rb]].
    exists (LNode s y' a' b'). split; [|cbn; auto].
    cbn [forget omap_of to_ltree]. rewrite !at_root_cons, !sub_map_node0, !sub_map_node1, Em, Ta, Tb, to_bpath_npath.
    reflexivity.
Qed.

Lemma syns_keys tbl ord : forall lt sy, syns_of tbl ord lt = Some sy -> map fst sy = map fst (omap_of (forget lt)).
Proof.
  induction lt as [s y|s y a IHa b IHb]; intros sy E; cbn in E.
  - destruct (render_syn tbl ord y); [|discriminate]. inversion E; subst sy. reflexivity.
  - destruct (render_syn tbl ord y); [|discriminate].
    destruct (syns_of tbl ord a) as [ma|]; [|discriminate]. destruct (syns_of tbl ord b) as [mb|]; [|discriminate].
    inversion E; subst sy. cbn [forget omap_of]. rewrite !map_cons, !map_app, !push_fst. cbn [fst]. f_equal. f_equal; f_equal; [apply (IHa _ eq_refl)|apply (IHb _ eq_refl)].
Qed.

Lemma syns_lists tbl ord : forall lt sy, syns_of tbl ord lt = Some sy -> Forall (fun ps => exists l, snd ps = SList l) sy.
Proof.
  assert (forall y s, render_syn tbl ord y = Some s -> exists l, s = SList l) as R.
  { intros y s. unfold render_syn. destruct (mapM (fam_name tbl) y); [|discriminate]. cbn. intros E. inversion E. eauto. }
  induction lt as [s y|s y a IHa b IHb]; intros sy E; cbn in E.
  - destruct (render_syn tbl ord y) as [sv|] eqn:Ey; [|discriminate]. inversion E; subst sy. repeat constructor. cbn. eauto.
  - destruct (render_syn tbl ord y) as [sv|] eqn:Ey; [|discriminate].
    destruct (syns_of tbl ord a) as [ma|]; [|discriminate]. destruct (syns_of tbl ord b) as [mb|]; [|discriminate].
    inversion E; subst sy. constructor; [cbn; eauto|]. apply Forall_app. split; apply Forall_map.
    + eapply Forall_impl; [|apply (IHa _ eq_refl)]. intros [p v] H. exact H.
    + eapply Forall_impl; [|apply (IHb _ eq_refl)]. intros [p v] H. exact H.
Qed.



(** * the solvers: every returned solution is valid and has the same evaluated cost *)
Definition sol_rec (s : solution) : rtree := match s with SolR r => r | SolL _ t => forget t end.

(* the ordered solvers index the last family of every leaf synteny *)
Definition needs_nonempty (key : string) : bool := (key =? "base_spfs") || (key =? "ext_spfs").

Lemma run_spfs_sound ext rp c S O sols :
  nn (c_hgt c) -> leaves_wf S O -> run_spfs ext rp c S O = Some sols ->
  exists v, forall s, In s sols -> valid_rec S O (sol_rec s) /\ sol_cost c O s = Some v.
Proof.
  intros Hh W. unfold run_spfs. destruct (Spfs.root_orders O) as [orders|] eqn:Eo; [|discriminate].
  destruct (root_orders_ok S O orders W Eo) as [HO _].
  destruct (spfs S c rp ext orders O) as [e|] eqn:Ee; [|discriminate]. cbn. intros E. inversion E; subst sols.
  exists (val e). intros s I. apply in_map_iff in I as [lt [<- I]].
  destruct (spfs_valid S c rp ext orders O e lt Hh HO Ee I) as [ord [_ [[V _] [_ Tc]]]].
  split; [exact (valid_lab_rec S O lt V)|exact Tc].
Qed.

Lemma run_uspfs_sound ext rp c S O sols :
  nn (c_hgt c) -> leaves_ok S O -> run_uspfs ext rp c S O = Some sols ->
  exists v, forall s, In s sols -> valid_rec S O (sol_rec s) /\ sol_cost c O s = Some v.
Proof.
  intros Hh L. unfold run_uspfs. destruct (uspfs S c rp ext O) as [E|] eqn:Ee; [|discriminate].
  cbn. intros H. inversion H; subst sols. exists (val E). intros s I. apply in_map_iff in I as [t [<- I]].
  destruct (uspfs_valid S c rp ext O Hh L E t Ee I) as [V Tc]. split.
  - exact (uvalid_valid_rec S (ototal O) O [] t V).
  - cbn. rewrite Tc. f_equal.
    rewrite (uspfs_some S c rp ext O Hh L) in Ee. inversion Ee; subst E.
    apply (upd_tags_sound Uspfs.ltree_eqb UspfsProofs.ltree_eqb_spec) in I.
    apply in_uspfs_cands in I as [_ [_ [_ Ev]]]. now rewrite Ev.
Qed.

Lemma run_algo_sound key rp c S O sols :
  nn (c_hgt c) -> leaves_ok S O -> (needs_nonempty key = true -> leaves_wf S O) ->
  run_algo key rp c S O = Some sols ->
  exists v, forall s, In s sols -> valid_rec S O (sol_rec s) /\ sol_cost c O s = Some v.
Proof.
  intros Hh L W. unfold run_algo.
  destruct (String.eqb_spec key "lca") as [->|_].
  { intros E. inversion E; subst sols. exists (cost c O (lca_rec O)). intros s [<-|[]]. split; [|reflexivity].
    exact (proj1 (lca_valid S O L)). }
  destruct (String.eqb_spec key "thl") as [->|_].
  { intros E. inversion E; subst sols. exists (val (reconcile_thl S c rp O)). intros s I.
    apply in_map_iff in I as [r [<- I]]. split; [exact (thl_valid S c rp O r Hh L I)|]. cbn. f_equal.
    apply (upd_tags_sound rtree_eqb rtree_eqb_spec) in I. apply in_thl_candidates in I as [_ [_ [_ Ev]]].
    symmetry. exact Ev. }
  destruct (String.eqb_spec key "exh") as [->|_].
  { intros E. inversion E; subst sols. exists (val (reconcile_exhaustive c rp O)). intros s I.
    apply in_map_iff in I as [r [<- I]].
    apply (upd_tags_sound rtree_eqb rtree_eqb_spec) in I. apply (in_exh_cands c O) in I as [G Ev]. split.
    - now apply (gen_all_spec S O L).
    - cbn. f_equal. symmetry. exact Ev. }
  destruct (String.eqb_spec key "base_spfs") as [->|_]; [apply run_spfs_sound; auto|].
  destruct (String.eqb_spec key "ext_spfs") as [->|_]; [apply run_spfs_sound; auto|].
  destruct (String.eqb_spec key "base_uspfs") as [->|_]; [apply run_uspfs_sound; auto|].
  destruct (String.eqb_spec key "superdtl") as [->|_]; [apply run_uspfs_sound; auto|].
  discriminate.
Qed.

(** * ANY's solution is one of ALL's (inside the region where the DP solvers are exact) *)
Definition cli_region (key : string) (c : Recon.costs) : Prop :=
  if (key =? "lca") || (key =? "exh") then True
  else if key =? "thl" then (0 <= c_floss c)%Z /\ (c_spe c <= c_dup c + 2 * c_floss c)%Z
  else if (key =? "base_spfs") || (key =? "ext_spfs") then coherent_ord c
  else ucoherent c.

Lemma run_spfs_any_all ext c S O sa sl :
  nn (c_hgt c) -> coherent_ord c -> leaves_wf S O ->
  run_spfs ext RANY c S O = Some sa -> run_spfs ext RALL c S O = Some sl -> incl sa sl.
Proof.
  intros Hh Hc W. unfold run_spfs. destruct (Spfs.root_orders O) as [orders|] eqn:Eo; [|discriminate].
  destruct (root_orders_ok S O orders W Eo) as [HO _].
  destruct (spfs_any S c ext orders O Hh HO Hc) as [ea [Ea Ha]]. rewrite Ea.
  destruct (spfs S c RALL ext orders O) as [el|] eqn:El; [|discriminate]. cbn.
  intros E1 E2. inversion E1; subst sa. inversion E2; subst sl. intros s I.
  apply in_map_iff in I as [lt [<- I]]. apply in_map. destruct Ha as [[Et _]|[lt' [Et Opt]]]; rewrite Et in I.
  - destruct I.
  - destruct I as [<-|[]]. now apply (spfs_all_exact S c ext orders O Hh HO Hc el El).
Qed.

Lemma run_uspfs_any_all ext c S O sa sl :
  nn (c_hgt c) -> ucoherent c -> leaves_ok S O ->
  run_uspfs ext RANY c S O = Some sa -> run_uspfs ext RALL c S O = Some sl -> incl sa sl.
Proof.
  intros Hh Hc L. unfold run_uspfs.
  destruct (uspfs_any S c ext O Hh Hc L) as [Ea [t [Eq [Et Opt]]]]. rewrite Eq.
  destruct (uspfs_all_exact S c ext O Hh Hc L) as [El [Eql [_ Ex]]]. rewrite Eql. cbn.
  intros E1 E2. inversion E1; subst sa. inversion E2; subst sl. rewrite Et. intros s [<-|[]].
  apply in_map. now apply Ex.
Qed.

Lemma run_algo_any_all key c S O sa sl :
  nn (c_hgt c) -> cli_region key c -> leaves_ok S O -> (needs_nonempty key = true -> leaves_wf S O) ->
  run_algo key RANY c S O = Some sa -> run_algo key RALL c S O = Some sl -> incl sa sl.
Proof.
  unfold cli_region, run_algo. intros Hh R L W.
  destruct (String.eqb_spec key "lca") as [->|_].
  { intros E1 E2. inversion E1; inversion E2. apply incl_refl. }
  destruct (String.eqb_spec key "thl") as [->|_].
  { cbn in R. destruct R as [Hf Hc]. intros E1 E2. inversion E1; subst sa. inversion E2; subst sl.
    destruct (thl_any S c O Hh Hf Hc L) as [r [Et Opt]]. rewrite Et. intros s [<-|[]]. apply in_map.
    now apply (thl_all_exact S c O Hh Hf Hc L). }
  destruct (String.eqb_spec key "exh") as [->|_].
  { intros E1 E2. inversion E1; subst sa. inversion E2; subst sl.
    destruct (exh_any S c O L) as [r [Et Opt]]. rewrite Et. intros s [<-|[]]. apply in_map.
    now apply (exh_all_exact S c O L). }
  destruct (String.eqb_spec key "base_spfs") as [->|_].
  { cbn in R. apply run_spfs_any_all; auto. }
  destruct (String.eqb_spec key "ext_spfs") as [->|_].
  { cbn in R. apply run_spfs_any_all; auto. }
  destruct (String.eqb_spec key "base_uspfs") as [->|_].
  { cbn in R. apply run_uspfs_any_all; auto. }
  destruct (String.eqb_spec key "superdtl") as [->|_].
  { cbn in R. apply run_uspfs_any_all; auto. }
  discriminate.
Qed.



(** * hypotheses on the object that [read_input] built *)

(* well-formed in the sense of C11 (both trees uniquely named with non-empty names over
   [A-Za-z0-9_], mappings keyed by distinct existing nodes with existing values), and the
   leaf syntenies of a super-reconciliation input are not empty *)
Definition cli_input_wf (inp : any_input) : Prop :=
  wf_any_input well_named inp /\
  match inp with
  | Super si => Forall (fun ps => syn_items (snd ps) <> []) (leafsyn si)
  | Plain _ => True
  end.

Definition result_input (r : routput + soutput) : any_input :=
  match r with inl x => r_in x | inr x => r_in (s_out x) end.

Definition set_policy (x : cli_input) (rp : ret) : cli_input :=
  mkCli (ci_algo x) rp (ci_costs x) (ci_otree x) (ci_stree x) (ci_leafmap x) (ci_leafsyn x).

(** * small facts *)
Lemma Forall2_In_r {A B} (R : A -> B -> Prop) l l' : Forall2 R l l' -> forall y, In y l' -> exists x, In x l /\ R x y.
Proof.
  induction 1 as [|a b l l' H _ IH]; intros y I; [destruct I|]. destruct I as [<-|I].
  - exists a. split; [now left|exact H].
  - destruct (IH y I) as [x [Ix Rx]]. exists x. split; [now right|exact Rx].
Qed.
Lemma Forall2_In_l {A B} (R : A -> B -> Prop) l l' : Forall2 R l l' -> forall x, In x l -> exists y, In y l' /\ R x y.
Proof.
  induction 1 as [|a b l l' H _ IH]; intros x I; [destruct I|]. destruct I as [<-|I].
  - exists b. split; [now left|exact H].
  - destruct (IH x I) as [y [Iy Ry]]. exists y. split; [now right|exact Ry].
Qed.

Lemma number_nonempty tbl : forall ls m, number_syntenies tbl ls = Some m ->
  Forall (fun ps => syn_items (snd ps) <> []) ls -> Forall (fun pv => snd pv <> []) m.
Proof.
  unfold number_syntenies. intros ls m E F. apply mapM_some in E.
  induction E as [|[p s] [q y] ls m E _ IH]; [constructor|]. inversion F as [|? ? Hs F']; subst.
  constructor; [|auto]. cbn in *.
  change (match s with SList l1 => l1 | SSet l2 => l2 end) with (syn_items s) in E.
  destruct (syn_items s) as [|a l]; [now elim Hs|]. cbn in E.
  destruct (fam_num tbl a); [|discriminate]. destruct (mapM (fam_num tbl) l); [|discriminate].
  cbn in E. inversion E. discriminate.
Qed.

Lemma to_otree_leaves_wf S : forall O t lm m, to_otree t lm (Some m) = Some O -> leaves_ok S O ->
  Forall (fun pv => snd pv <> []) m -> leaves_wf S O.
Proof.
  induction O as [sp syn|x IHx y IHy]; intros t lm m E L F.
  - destruct (to_otree_leaf_inv _ _ _ _ _ E) as [n [c ->]]. cbn in E.
    destruct (at_root lm) as [q|]; [|discriminate]. destruct (to_bpath q) as [s|]; [|discriminate].
    destruct (at_root m) as [y|] eqn:Er; [|discriminate]. cbn in E. inversion E; subst.
    cbn. split; [exact L|]. apply at_root_In in Er. rewrite Forall_forall in F. exact (F _ Er).
  - destruct (to_otree_node_inv _ _ _ _ _ E) as [n [c [a [b [-> [Ea Eb]]]]]]. cbn in L. destruct L as [La Lb].
    cbn in Ea, Eb. cbn. split.
    + eapply IHx; eauto. now apply (sub_map_values (fun y : list fam => y <> [])).
    + eapply IHy; eauto. now apply (sub_map_values (fun y : list fam => y <> [])).
Qed.

(** * what a successful run went through *)
Lemma call_algorithm_ok key rp w inp warned m objs :
  call_algorithm key rp w inp = CliOk warned m objs ->
  exists c St ls Ot s0 rest,
    to_costs (Serial.costs (base_of inp)) = Some c /\
    to_stree (Serial.stree (base_of inp)) = Some St /\
    match solver_syntenies key inp with
    | Some sm => option_map Some (number_syntenies (input_table inp) sm)
    | None => Some None
    end = Some ls /\
    to_otree (Serial.otree (base_of inp)) (leafmap (base_of inp)) ls = Some Ot /\
    run_algo key rp c St Ot = Some (s0 :: rest) /\
    sol_cost c Ot s0 = Some m /\
    mapM (write_solution inp (input_table inp)) (s0 :: rest) = Some objs /\
    warned = w.
Proof.
  unfold call_algorithm. cbv zeta. intros H.
  destruct (negb (is_binary (Serial.otree (base_of inp)) && is_binary (Serial.stree (base_of inp)))); [discriminate|].
  match type of H with (if negb ?b then _ else _) = _ => destruct b end; cbn [negb] in H; [|discriminate].
  destruct (to_costs (Serial.costs (base_of inp))) as [c|]; [|discriminate].
  destruct (to_stree (Serial.stree (base_of inp))) as [St|]; [|discriminate].
  match type of H with match ?x with _ => _ end = _ => destruct x as [ls|] eqn:El end; [|discriminate].
  destruct (to_otree (Serial.otree (base_of inp)) (leafmap (base_of inp)) ls) as [Ot|] eqn:Eo; [|discriminate].
  destruct (run_algo key rp c St Ot) as [[|s0 rest]|] eqn:Er; try discriminate.
  destruct (sol_cost c Ot s0) as [v|] eqn:Ec; [|discriminate].
  destruct (mapM (write_solution inp (input_table inp)) (s0 :: rest)) as [os|] eqn:Ew; [|discriminate].
  inversion H; subst. exists c, St, ls, Ot, s0, rest. repeat split; auto.
Qed.

Lemma solver_syntenies_nonempty key inp sm :
  cli_input_wf inp -> solver_syntenies key inp = Some sm -> Forall (fun ps => syn_items (snd ps) <> []) sm.
Proof.
  intros [_ W]. destruct inp as [b|si]; cbn; [discriminate|]. destruct (is_super key); [|discriminate].
  intros E. inversion E; subst. exact W.
Qed.

Lemma needs_nonempty_super key : needs_nonempty key = true -> is_super key = true.
Proof.
  unfold needs_nonempty, is_super. intros H. apply orb_true_iff in H as [H|H]; rewrite H; cbn; auto.
  now rewrite orb_true_r.
Qed.

(* the solver input extracted from a well-formed object satisfies the hypotheses of the solver theorems *)
Lemma solver_input_ok key inp S ls Ot :
  cli_input_wf inp ->
  (is_super key = true -> exists si, inp = Super si) ->
  to_stree (Serial.stree (base_of inp)) = Some S ->
  match solver_syntenies key inp with
  | Some sm => option_map Some (number_syntenies (input_table inp) sm)
  | None => Some None
  end = Some ls ->
  to_otree (Serial.otree (base_of inp)) (leafmap (base_of inp)) ls = Some Ot ->
  leaves_ok S Ot /\ (needs_nonempty key = true -> leaves_wf S Ot).
Proof.
  intros W Hsup Es El Eo.
  assert (leaves_ok S Ot) as L.
  { apply (to_otree_leaves_ok S _ Es _ _ _ _ Eo).
    destruct W as [W _]. apply wf_any_base in W. destruct W as [_ _ _ _ [_ Wl] _].
    eapply Forall_impl; [|exact Wl]. intros pq [_ H]. exact H. }
  split; [exact L|]. intros Hk. pose proof (needs_nonempty_super key Hk) as Hs.
  destruct (Hsup Hs) as [si ->]. cbn in El. rewrite Hs in El.
  destruct (number_syntenies (fam_table (leafsyn si)) (leafsyn si)) as [m|] eqn:En; [|discriminate]. cbn in El.
  inversion El; subst ls.
  apply (to_otree_leaves_wf S _ _ _ _ Eo L). apply (number_nonempty _ _ _ En). exact (proj2 W).
Qed.



(** * one written object, read back and evaluated *)
Section OneObject.
  Variables (inp : any_input) (c : Recon.costs) (S : Recon.stree) (Ot : Recon.otree)
            (ls : option (list (npath * list fam))).
  Hypothesis W : wf_any_input well_named inp.
  Hypothesis Ec : to_costs (Serial.costs (base_of inp)) = Some c.
  Hypothesis Es : to_stree (Serial.stree (base_of inp)) = Some S.
  Hypothesis Eo : to_otree (Serial.otree (base_of inp)) (leafmap (base_of inp)) ls = Some Ot.

  Let tbl := input_table inp.
  Lemma tbl_nodup : NoDup tbl.
  Proof. unfold tbl, input_table. destruct inp; [constructor|apply fam_table_nodup]. Qed.

  Lemma wf_result_map r : valid_rec S Ot r ->
    wf_tmap (Serial.otree (base_of inp)) (Serial.stree (base_of inp)) (omap_of r).
  Proof.
    intros V. split; [apply omap_keys_nodup|].
    pose proof (omap_keys_valid r _ (to_otree_tmatch _ _ _ _ _ Eo (valid_matches _ _ _ V))) as K.
    pose proof (omap_species_valid S _ Es _ _ V) as Q.
    rewrite Forall_forall in *. intros pq I. split; auto.
  Qed.

  Lemma plain_object_back r d : valid_rec S Ot r ->
    write_solution inp tbl (SolR r) = Some d ->
    exists x, parse_back d = Some x /\ result_input x = Plain (base_of inp) /\
              forall num, eval_result num x = Some (cost c Ot r).
  Proof.
    intros V. unfold write_solution. cbn [result_of write_result].
    destruct (nk_output_roundtrip_plain (mkRO inp (omap_of r))) as [dd [Ed Eb]].
    { split; [exact W|]. cbn. now apply wf_result_map. }
    rewrite Ed. cbn. intros E. inversion E; subst d. cbn [parse_back]. rewrite Eb. cbn.
    eexists. split; [reflexivity|]. split; [reflexivity|]. intros num. cbn [eval_result].
    unfold eval_routput. cbn [r_in omap base_of]. rewrite Ec, (to_otree_strip _ _ _ _ Eo).
    rewrite (to_rtree_omap r _ (to_otree_tmatch _ _ _ _ _ Eo (valid_matches _ _ _ V))).
    now rewrite cost_strip.
  Qed.

  Lemma super_object_back ord t d v : valid_rec S Ot (forget t) -> total_cost c Ot ord t = Some v ->
    write_solution inp tbl (SolL ord t) = Some d ->
    exists x, parse_back d = Some x /\ result_input x = Plain (base_of inp) /\
              eval_result (fam_num tbl) x = Some v.
  Proof.
    intros V Tc. unfold write_solution. cbn [result_of].
    destruct (syns_of tbl ord t) as [sy|] eqn:Esy; [|discriminate]. cbn [option_map write_result].
    pose proof (to_otree_tmatch _ _ _ _ _ Eo (valid_matches _ _ _ V)) as M.
    destruct (nk_output_roundtrip_super (mkSO (mkRO inp (omap_of (forget t))) sy ord)) as [dd [Ed Eb]].
    { split; [split; [exact W|cbn; now apply wf_result_map]|]. cbn. split.
      - rewrite (syns_keys _ _ _ _ Esy). apply omap_keys_nodup.
      - pose proof (omap_keys_valid _ _ M) as K. rewrite Forall_forall in *. intros ps I.
        assert (In (fst ps) (map fst (omap_of (forget t)))) as I'.
        { rewrite <- (syns_keys _ _ _ _ Esy). now apply in_map. }
        apply in_map_iff in I' as [pq [E I']]. rewrite <- E. now apply K. }
    rewrite Ed. cbn [option_map]. intros E. inversion E; subst d. cbn [parse_back]. rewrite Eb. cbn [option_map].
    eexists. split; [reflexivity|]. split; [reflexivity|]. cbn [eval_result].
    unfold eval_soutput. cbn [s_out r_in omap base_of syns ordered].
    rewrite (norm_syn_lists _ (syns_lists _ _ _ _ Esy)), Ec, (to_otree_strip _ _ _ _ Eo).
    destruct (to_ltree_syns tbl ord tbl_nodup t _ sy M Esy) as [t' [Et R]]. rewrite Et.
    rewrite total_cost_strip, (total_cost_lrel c Ot ord t t' R). exact Tc.
  Qed.

  Lemma object_back s d v : valid_rec S Ot (sol_rec s) -> sol_cost c Ot s = Some v ->
    write_solution inp tbl s = Some d ->
    exists x, parse_back d = Some x /\ result_input x = Plain (base_of inp) /\
              eval_result (fam_num tbl) x = Some v.
  Proof.
    destruct s as [r|ord t]; cbn [sol_rec sol_cost]; intros V Tc Ew.
    - destruct (plain_object_back r d V Ew) as [x [P [I Ev]]]. exists x. repeat split; auto.
      rewrite Ev. exact Tc.
    - eapply super_object_back; eauto.
  Qed.
End OneObject.



(** * [read_input] *)
Lemma read_input_inv x inp : read_input x = Some inp ->
  exists lm O' S',
    label_object_tree (ci_otree x) = Some O' /\ label_species_tree (ci_stree x) = Some S' /\
    base_of inp = mkRI (tree_of O') (tree_of S') lm (cost_items (ci_costs x)) /\
    (has_syntenies x = true -> exists si, inp = Super si) /\
    (has_syntenies x = false -> exists b, inp = Plain b).
Proof.
  unfold read_input, has_syntenies. intros H.
  match type of H with match ?a with _ => _ end = _ => destruct a as [lm|]; [|discriminate] end.
  match type of H with match ?a with _ => _ end = _ => destruct a as [ls|] eqn:El; [|discriminate] end.
  destruct (label_object_tree (ci_otree x)) as [O'|]; [|discriminate].
  destruct (label_species_tree (ci_stree x)) as [S'|]; [|discriminate].
  inversion H; subst inp. exists lm, O', S'. split; [reflexivity|]. split; [reflexivity|].
  destruct (ci_leafsyn x) as [d|].
  - destruct (parse_synteny_mapping (tree_of (ci_otree x)) d) as [m|]; [|discriminate]. cbn in El. inversion El; subst ls.
    cbn. split; [reflexivity|]. split; [eauto|discriminate].
  - inversion El; subst ls. cbn. split; [reflexivity|]. split; [discriminate|eauto].
Qed.

Lemma read_input_policy x rp : read_input (set_policy x rp) = read_input x.
Proof. reflexivity. Qed.

(** * dispatch: a super-reconciliation algorithm only runs on an input with syntenies *)
Lemma is_super_documented key : is_super key = true -> In (key, true) documented_algorithms.
Proof.
  unfold is_super, documented_algorithms.
  destruct (String.eqb_spec key "base_spfs") as [->|_]; [cbn; tauto|].
  destruct (String.eqb_spec key "ext_spfs") as [->|_]; [cbn; tauto|].
  destruct (String.eqb_spec key "base_uspfs") as [->|_]; [cbn; tauto|].
  destruct (String.eqb_spec key "superdtl") as [->|_]; [cbn; tauto|]. discriminate.
Qed.

Lemma cli_run_ok x warned m objs : cli_run x = CliOk warned m objs ->
  exists inp w, read_input x = Some inp /\
    call_algorithm (ci_algo x) (ci_policy x) w inp = CliOk warned m objs /\
    (is_super (ci_algo x) = true -> exists si, inp = Super si).
Proof.
  unfold cli_run. destruct (dispatch (ci_algo x) (has_syntenies x)) as [|d] eqn:Ed; [discriminate|].
  destruct (read_input x) as [inp|] eqn:Er; [|discriminate]. intros H.
  assert (d <> Error -> is_super (ci_algo x) = true -> exists si, inp = Super si) as Sup.
  { intros Nd Hs. destruct (read_input_inv x inp Er) as [_ [_ [_ [_ [_ [_ [Hsyn _]]]]]]]. apply Hsyn.
    pose proof (dispatch_documented _ _ (is_super_documented _ Hs) (has_syntenies x)) as D.
    rewrite Ed in D. inversion D as [D']. unfold expected_decision in D'.
    destruct (has_syntenies x); [reflexivity|]. now elim Nd. }
  destruct d; [| |discriminate].
  - exists inp, false. repeat split; auto. apply Sup. discriminate.
  - exists inp, true. repeat split; auto. apply Sup. discriminate.
Qed.

Lemma cli_run_costs x inp c : read_input x = Some inp -> to_costs (Serial.costs (base_of inp)) = Some c -> c = ci_costs x.
Proof.
  intros Er Ec. destruct (read_input_inv x inp Er) as [lm [O' [S' [_ [_ [Eb _]]]]]]. rewrite Eb in Ec. cbn [Serial.costs] in Ec.
  rewrite to_costs_items in Ec. now inversion Ec.
Qed.

(** * Theorem 1: every written object parses back to a solution on the re-read input whose
      evaluated cost is the printed minimum cost *)
Theorem cli_objects_parse_back x inp warned m objs :
  read_input x = Some inp -> cli_input_wf inp -> nn (c_hgt (ci_costs x)) ->
  cli_run x = CliOk warned m objs ->
  forall d, In d objs ->
  exists r, parse_back d = Some r /\ result_input r = Plain (base_of inp) /\
            eval_result (fam_num (input_table inp)) r = Some m.
Proof.
  intros Er W Hh H d Id.
  destruct (cli_run_ok x warned m objs H) as [inp' [w [Er' [Hc Sup]]]]. rewrite Er in Er'. inversion Er'; subst inp'.
  destruct (call_algorithm_ok _ _ _ _ _ _ _ Hc) as [c [St [ls [Ot [s0 [rest [Ec [Es [El [Eo [Ea [Em [Ew _]]]]]]]]]]]]].
  pose proof (cli_run_costs x inp c Er Ec) as ->.
  destruct (solver_input_ok (ci_algo x) inp St ls Ot W Sup Es El Eo) as [L Wf].
  destruct (run_algo_sound _ _ _ _ _ _ Hh L Wf Ea) as [v Hv].
  assert (v = m) as ->.
  { destruct (Hv s0 (or_introl eq_refl)) as [_ E]. rewrite Em in E. now inversion E. }
  apply mapM_some in Ew. destruct (Forall2_In_r _ _ _ Ew d Id) as [s [Is Ws]].
  destruct (Hv s Is) as [V Tc].
  exact (object_back inp (ci_costs x) St Ot ls (proj1 W) Ec Es Eo s d m V Tc Ws).
Qed.

(** * Theorem 2: everything written under [--solutions any] is written under [--solutions all],
      and the two runs print the same minimum cost *)
Theorem cli_all_superset_any x inp wa ma oa wl ml ol :
  read_input x = Some inp -> cli_input_wf inp -> nn (c_hgt (ci_costs x)) ->
  cli_region (ci_algo x) (ci_costs x) ->
  cli_run (set_policy x RANY) = CliOk wa ma oa ->
  cli_run (set_policy x RALL) = CliOk wl ml ol ->
  incl oa ol /\ ma = ml.
Proof.
  intros Er W Hh R Ha Hl.
  destruct (cli_run_ok _ _ _ _ Ha) as [i1 [w1 [E1 [C1 Sup]]]]. rewrite read_input_policy, Er in E1. inversion E1; subst i1.
  destruct (cli_run_ok _ _ _ _ Hl) as [i2 [w2 [E2 [C2 _]]]]. rewrite read_input_policy, Er in E2. inversion E2; subst i2.
  cbn [set_policy ci_algo ci_policy] in *.
  destruct (call_algorithm_ok _ _ _ _ _ _ _ C1) as [c [St [ls [Ot [a0 [ra [Ec [Es [El [Eo [Ea [Ema [Ewa _]]]]]]]]]]]]].
  destruct (call_algorithm_ok _ _ _ _ _ _ _ C2) as [c' [St' [ls' [Ot' [l0 [rl [Ec' [Es' [El' [Eo' [Eal [Eml [Ewl _]]]]]]]]]]]]].
  rewrite Ec in Ec'. inversion Ec'; subst c'. rewrite Es in Es'. inversion Es'; subst St'.
  rewrite El in El'. inversion El'; subst ls'. rewrite Eo in Eo'. inversion Eo'; subst Ot'.
  pose proof (cli_run_costs x inp c Er Ec) as ->.
  destruct (solver_input_ok (ci_algo x) inp St ls Ot W Sup Es El Eo) as [L Wf].
  pose proof (run_algo_any_all _ _ _ _ _ _ Hh R L Wf Ea Eal) as Inc.
  apply mapM_some in Ewa. apply mapM_some in Ewl. split.
  - intros d Id. destruct (Forall2_In_r _ _ _ Ewa d Id) as [s [Is Ws]].
    destruct (Forall2_In_l _ _ _ Ewl s (Inc s Is)) as [d' [Id' Ws']]. rewrite Ws in Ws'. now inversion Ws'.
  - destruct (run_algo_sound _ _ _ _ _ _ Hh L Wf Eal) as [v Hv].
    destruct (Hv l0 (or_introl eq_refl)) as [_ E1']. rewrite Eml in E1'.
    destruct (Hv a0 (Inc a0 (or_introl eq_refl))) as [_ E2']. rewrite Ema in E2'. congruence.
Qed.

(** * Theorem 4: a super-reconciliation algorithm on an input without syntenies is refused:
      status 1, nothing written (or, on a malformed file, an exception - nothing written either) *)
Theorem cli_super_without_syntenies x :
  is_super (ci_algo x) = true -> ci_leafsyn x = None ->
  cli_run x = match read_input x with Some _ => CliError | None => CliRaise end.
Proof.
  intros Hs Hn. unfold cli_run.
  pose proof (dispatch_documented _ _ (is_super_documented _ Hs) (has_syntenies x)) as D.
  unfold has_syntenies in *. rewrite Hn in *. rewrite D. cbn. destruct (read_input x); reflexivity.
Qed.

Corollary cli_super_without_syntenies_writes_nothing x warned m objs :
  is_super (ci_algo x) = true -> ci_leafsyn x = None -> cli_run x <> CliOk warned m objs.
Proof. intros Hs Hn. rewrite (cli_super_without_syntenies x Hs Hn). destruct (read_input x); discriminate. Qed.



(** * trees of names as ete3 trees *)
Lemma names_tree_of : forall t : ntree string, names (tree_of t) = Label.preorder t.
Proof.
  apply ntree_ind'. intros x cs IH. cbn. f_equal.
  induction IH as [|c cs Hc _ IHcs]; [reflexivity|]. cbn. now rewrite Hc, IHcs.
Qed.

Definition good_name (n : string) : Prop := n <> "" /\ ok_word n = true.

Lemma ok_tree_of : forall t : ntree string, Forall good_name (Label.preorder t) -> ok_tree (tree_of t) = true.
Proof.
  apply (ntree_ind' (fun t => Forall good_name (Label.preorder t) -> ok_tree (tree_of t) = true)).
  intros x cs IH F. cbn in F. inversion F as [|? ? [Hn Hw] F']; subst. cbn.
  destruct (String.eqb_spec x "") as [->|_]; [now elim Hn|]. rewrite Hw. cbn.
  clear F Hn Hw. induction IH as [|c cs Hc _ IHcs]; [reflexivity|]. cbn in F'. apply Forall_app in F' as [F1 F2].
  cbn. rewrite (Hc F1). cbn. now apply IHcs.
Qed.

Lemma shape_kids {A} (x x' : A) cs cs' : shape (NT x' cs') = shape (NT x cs) -> map shape cs' = map shape cs.
Proof. cbn. intros E. now inversion E. Qed.

Lemma valid_same_shape : forall p (t t' : ntree string), shape t' = shape t -> valid (tree_of t') p = valid (tree_of t) p.
Proof.
  induction p as [|i p IH]; intros [x cs] [x' cs'] E; [reflexivity|].
  apply shape_kids in E. unfold valid. cbn. rewrite !nth_error_map.
  assert (nth_error (map shape cs') i = nth_error (map shape cs) i) as N by now rewrite E.
  rewrite !nth_error_map in N.
  destruct (nth_error cs' i) as [k'|], (nth_error cs i) as [k|]; cbn in N; try discriminate; [|reflexivity].
  inversion N as [Ek]. cbn. exact (IH k k' Ek).
Qed.

(** * generated names are words over the alphabet of the property *)
Lemma list_ascii_app a b : list_ascii_of_string (a ++ b)%string = list_ascii_of_string a ++ list_ascii_of_string b.
Proof. induction a as [|ch a IH]; cbn; [reflexivity|]. now rewrite IH. Qed.
Lemma ok_word_app a b : ok_word (a ++ b)%string = ok_word a && ok_word b.
Proof. unfold ok_word. now rewrite list_ascii_app, forallb_app. Qed.
Lemma ok_word_uint u : ok_word (NilEmpty.string_of_uint u) = true.
Proof. induction u; cbn; auto. Qed.
Lemma ok_word_gen prefix k : ok_word prefix = true -> ok_word (gen_name prefix k) = true.
Proof. intros H. unfold gen_name, decimal. now rewrite ok_word_app, H, ok_word_uint. Qed.

Lemma labelled_good (prefix : string) (t t' : ntree string) :
  (forall i j, gen_name prefix i = gen_name prefix j -> i = j) ->
  (forall i, is_unnamed (gen_name prefix i) = false) -> ok_word prefix = true ->
  Forall (fun n => is_unnamed n = true \/ ok_word n = true) (Label.preorder t) ->
  label_internal String.eqb is_unnamed (gen_name prefix) t = Some t' ->
  Forall good_name (Label.preorder t').
Proof.
  intros Inj Named Hp F E.
  pose proof (label_internal_pointwise String.eqb is_unnamed (gen_name prefix) String.eqb_spec Inj Named t t' E) as P.
  destruct (label_internal_distinct_nonempty String.eqb is_unnamed (gen_name prefix) String.eqb_spec Inj Named t)
    as [t1 [E1 [_ [Nn _]]]]. rewrite E in E1. inversion E1; subst t1. clear E1.
  revert F Nn. induction P as [|a b l l' Hab _ IH]; intros F Nn; [constructor|].
  inversion F as [|? ? Ha F']; subst. inversion Nn as [|? ? Hb Nn']; subst. constructor; [|auto].
  split.
  - intros ->. discriminate.
  - destruct (is_unnamed a) eqn:Ua.
    + destruct Hab as [k ->]. now apply ok_word_gen.
    + subst b. destruct Ha as [Ha|Ha]; [congruence|exact Ha].
Qed.

(** * name lookup *)
Lemma find_name_some t n p : find_name t n = Some p -> name_at t p = Some n /\ valid t p = true.
Proof.
  unfold find_name. intros F. apply find_some in F as [I H]. split; [|now apply levelorder_valid].
  destruct (name_at t p) as [m|]; [|discriminate]. apply String.eqb_eq in H. now subst.
Qed.

Lemma mapM_keys_nodup {A B K K' : Type} (f : A -> option B) (ka : A -> K) (kb : B -> K') (g : K' -> option K) :
  (forall a b, f a = Some b -> g (kb b) = Some (ka a)) ->
  forall l l', mapM f l = Some l' -> NoDup (map ka l) -> NoDup (map kb l').
Proof.
  intros H l l' E. apply mapM_some in E. induction E as [|a b l l' Hab F IH]; intros ND; [constructor|].
  cbn in *. inversion ND as [|? ? Na ND']; subst. constructor; [|auto].
  intros I. apply Na. apply in_map_iff in I as [b' [Eb Ib]].
  destruct (Forall2_In_r _ _ _ F b' Ib) as [a' [Ia Fa]].
  apply in_map_iff. exists a'. split; [|exact Ia].
  pose proof (H _ _ Fa) as G1. pose proof (H _ _ Hab) as G2. rewrite Eb in G1. congruence.
Qed.

(** * hypotheses on the input file, and what [read_input] makes of them *)
Record cli_wf (x : cli_input) : Prop := mk_cli_wf {
  (* given names are words over [A-Za-z0-9_] (a node without a name, or called "NoName", is unnamed) ... *)
  wf_onames : Forall (fun n => is_unnamed n = true \/ ok_word n = true) (Label.preorder (ci_otree x));
  wf_snames : Forall (fun n => is_unnamed n = true \/ ok_word n = true) (Label.preorder (ci_stree x));
  (* ... and pairwise distinct *)
  wf_odistinct : NoDup (filter (named is_unnamed) (Label.preorder (ci_otree x)));
  wf_sdistinct : NoDup (filter (named is_unnamed) (Label.preorder (ci_stree x)));
  (* "leaf_object_species" is given, a JSON object (distinct keys) *)
  wf_leafmap : exists d, ci_leafmap x = Some d /\ NoDup (map fst d);
  (* "leaf_syntenies", when given, is a JSON object whose syntenies are not empty *)
  wf_leafsyn : forall d, ci_leafsyn x = Some d -> NoDup (map fst d) /\ Forall (fun kv => snd kv <> []) d
}.

Lemma is_unnamed_empty : is_unnamed "" = true. Proof. reflexivity. Qed.

Ltac disc := solve [discriminate | cbv beta iota; discriminate | match goal with H : _ = Some _ |- _ => cbv beta iota in H; discriminate H end].

Theorem read_input_wf x inp : cli_wf x -> read_input x = Some inp -> cli_input_wf inp.
Proof.
  intros [Won Wsn Wod Wsd [d [Ed NDd]] Wls]. unfold read_input. rewrite Ed. cbv beta iota zeta.
  destruct (parse_tree_mapping (tree_of (ci_otree x)) (tree_of (ci_stree x)) d) as [lm|] eqn:Elm; [|discriminate].
  match goal with |- match ?a with _ => _ end = _ -> _ => destruct a as [ls|] eqn:El; [|discriminate] end.
  destruct (label_object_tree (ci_otree x)) as [O'|] eqn:EO; [|discriminate].
  destruct (label_species_tree (ci_stree x)) as [S'|] eqn:ES; [|discriminate].
  intros H.
  (* the labelled trees *)
  destruct (label_internal_distinct_nonempty String.eqb is_unnamed (gen_name "O") String.eqb_spec (gen_name_inj "O") gen_O_named (ci_otree x))
    as [O1 [EO1 [ShO [_ [_ NdO]]]]]. unfold label_object_tree in EO. rewrite EO in EO1. inversion EO1; subst O1. clear EO1.
  destruct (label_internal_distinct_nonempty String.eqb is_unnamed (gen_name "S") String.eqb_spec (gen_name_inj "S") gen_S_named (ci_stree x))
    as [S1 [ES1 [ShS [_ [_ NdS]]]]]. unfold label_species_tree in ES. rewrite ES in ES1. inversion ES1; subst S1. clear ES1.
  pose proof (labelled_good "O" _ _ (gen_name_inj "O") gen_O_named eq_refl Won EO) as GO.
  pose proof (labelled_good "S" _ _ (gen_name_inj "S") gen_S_named eq_refl Wsn ES) as GS.
  assert (wf_rinput well_named (mkRI (tree_of O') (tree_of S') lm (cost_items (ci_costs x)))) as Wb.
  { constructor; cbn [Serial.otree Serial.stree leafmap Serial.costs].
    - now apply ok_tree_of.
    - now apply ok_tree_of.
    - rewrite names_tree_of. auto.
    - rewrite names_tree_of. auto.
    - unfold parse_tree_mapping in Elm. split.
      + eapply (mapM_keys_nodup _ fst fst (name_at (tree_of (ci_otree x)))); [|exact Elm|exact NDd].
        intros kv pq. cbv beta. destruct (find_name (tree_of (ci_otree x)) (fst kv)) as [p|] eqn:Fp; [|disc].
        destruct (find_name (tree_of (ci_stree x)) (snd kv)) as [q|]; [|disc]. intros E. inversion E; subst pq. cbn.
        exact (proj1 (find_name_some _ _ _ Fp)).
      + apply mapM_some in Elm. clear NDd Ed H. induction Elm as [|kv pq d' lm' Hf _ IH]; [constructor|]. constructor; [|exact IH].
        destruct (find_name (tree_of (ci_otree x)) (fst kv)) as [p|] eqn:Fp; [|disc].
        destruct (find_name (tree_of (ci_stree x)) (snd kv)) as [q|] eqn:Fq; [|disc]. inversion Hf; subst pq. cbn.
        rewrite (valid_same_shape p _ _ ShO), (valid_same_shape q _ _ ShS).
        split; [exact (proj2 (find_name_some _ _ _ Fp))|exact (proj2 (find_name_some _ _ _ Fq))].
    - cbn. repeat constructor; cbn; intuition discriminate. }
  destruct (ci_leafsyn x) as [ds|] eqn:Eds.
  - destruct (parse_synteny_mapping (tree_of (ci_otree x)) ds) as [m|] eqn:Em; [|disc]. cbn in El. inversion El; subst ls.
    inversion H; subst inp. clear H El. destruct (Wls ds eq_refl) as [NDs Ne]. unfold parse_synteny_mapping in Em.
    split; [split; [exact Wb|]|].
    + cbn [s_base leafsyn Serial.otree]. split.
      * eapply (mapM_keys_nodup _ fst fst (name_at (tree_of (ci_otree x)))); [|exact Em|exact NDs].
        intros kv ps. cbv beta. destruct (find_name (tree_of (ci_otree x)) (fst kv)) as [p|] eqn:Fp; [|disc]. cbn.
        intros E. inversion E; subst ps. cbn. exact (proj1 (find_name_some _ _ _ Fp)).
      * apply mapM_some in Em. clear NDs Ne Eds Wls. induction Em as [|kv ps d' m' Hf _ IH]; [constructor|]. constructor; [|exact IH].
        destruct (find_name (tree_of (ci_otree x)) (fst kv)) as [p|] eqn:Fp; [|disc]. cbn in Hf. inversion Hf; subst ps. cbn.
        rewrite (valid_same_shape p _ _ ShO). exact (proj2 (find_name_some _ _ _ Fp)).
    + cbn [leafsyn]. apply mapM_some in Em. clear NDs Eds Wls. induction Em as [|kv ps d' m' Hf _ IH]; [constructor|].
      inversion Ne as [|? ? Hk Ne']; subst. constructor; auto.
      destruct (find_name (tree_of (ci_otree x)) (fst kv)); [|disc]. cbn in Hf. inversion Hf; subst ps. exact Hk.
  - inversion El; subst ls. inversion H; subst inp. split; [exact Wb|exact I].
Qed.

(** * Theorem 3: the names in every written object *)
Definition obj_base (d : out_obj) : drinput :=
  match d with OutR d => d_base (d_in d) | OutS d => d_base (d_in (d_out d)) end.

Lemma routput_to_dict_trees w x d : routput_to_dict w x = Some d ->
  d_otree (d_base (d_in d)) = w (Serial.otree (base_of (r_in x))) /\
  d_stree (d_base (d_in d)) = w (Serial.stree (base_of (r_in x))).
Proof.
  unfold routput_to_dict. destruct (any_input_to_dict w (r_in x)) as [di|] eqn:Ei; [|discriminate].
  destruct (serialize_tree_mapping _ _ (omap x)); [|discriminate]. intros E. inversion E; subst d. cbn.
  assert (forall b db, rinput_to_dict w b = Some db -> d_otree db = w (Serial.otree b) /\ d_stree db = w (Serial.stree b)) as R.
  { intros b db. unfold rinput_to_dict. destruct (serialize_tree_mapping _ _ (leafmap b)); [|discriminate].
    intros E'. inversion E'. cbn. auto. }
  destruct (r_in x) as [b|si]; cbn in Ei.
  - destruct (rinput_to_dict w b) as [db|] eqn:Eb; [|discriminate]. cbn in Ei. inversion Ei; subst di. cbn. now apply R.
  - unfold sinput_to_dict in Ei. destruct (rinput_to_dict w (s_base si)) as [db|] eqn:Eb; [|discriminate].
    destruct (serialize_synteny_mapping _ (leafsyn si)); [|discriminate]. inversion Ei; subst di. cbn. now apply R.
Qed.

Lemma write_solution_trees inp tbl s d : write_solution inp tbl s = Some d ->
  d_otree (obj_base d) = print_tree (Serial.otree (base_of inp)) /\
  d_stree (obj_base d) = print_tree (Serial.stree (base_of inp)).
Proof.
  unfold write_solution. destruct s as [r|ord t]; cbn [result_of].
  - cbn. destruct (routput_to_dict print_tree (mkRO inp (omap_of r))) as [dd|] eqn:E; [|discriminate].
    cbn. intros H. inversion H; subst d. cbn. exact (routput_to_dict_trees _ _ _ E).
  - destruct (syns_of tbl ord t) as [sy|]; [|discriminate]. cbn. unfold soutput_to_dict. cbn [s_out].
    destruct (routput_to_dict print_tree (mkRO inp (omap_of (forget t)))) as [dd|] eqn:E; [|discriminate].
    destruct (serialize_synteny_mapping _ _); [|discriminate]. cbn. intros H. inversion H; subst d. cbn.
    exact (routput_to_dict_trees _ _ _ E).
Qed.

(* what [label_internal] guarantees for one tree ([prefix] = "O" or "S") *)
Definition labelled (prefix : string) (t t' : ntree string) : Prop :=
  label_internal String.eqb is_unnamed (gen_name prefix) t = Some t' /\
  shape t' = shape t /\
  Forall (fun y => is_unnamed y = false) (Label.preorder t') /\
  Forall2 (fun a b => if is_unnamed a then exists k, b = gen_name prefix k else b = a)
          (Label.preorder t) (Label.preorder t') /\
  (exists ks, fills is_unnamed (gen_name prefix) (Label.preorder t) ks (Label.preorder t') /\
              Sorted.StronglySorted lt ks /\ least_fresh (gen_name prefix) (Label.preorder t) 0 ks) /\
  (NoDup (filter (named is_unnamed) (Label.preorder t)) -> NoDup (Label.preorder t')).

Lemma labelled_intro prefix t t' :
  (forall i j, gen_name prefix i = gen_name prefix j -> i = j) ->
  (forall i, is_unnamed (gen_name prefix i) = false) ->
  label_internal String.eqb is_unnamed (gen_name prefix) t = Some t' -> labelled prefix t t'.
Proof.
  intros Inj Named E.
  destruct (label_internal_distinct_nonempty String.eqb is_unnamed (gen_name prefix) String.eqb_spec Inj Named t)
    as [t1 [E1 [Sh [Nn [Ks Nd]]]]]. rewrite E in E1. inversion E1; subst t1.
  repeat split; auto.
  exact (label_internal_pointwise String.eqb is_unnamed (gen_name prefix) String.eqb_spec Inj Named t t' E).
Qed.

Theorem cli_names x warned m objs : cli_run x = CliOk warned m objs ->
  exists O' S', labelled "O" (ci_otree x) O' /\ labelled "S" (ci_stree x) S' /\
    forall d, In d objs ->
      d_otree (obj_base d) = print_tree (tree_of O') /\ d_stree (obj_base d) = print_tree (tree_of S').
Proof.
  intros H. destruct (cli_run_ok x warned m objs H) as [inp [w [Er [Hc _]]]].
  destruct (read_input_inv x inp Er) as [lm [O' [S' [EO [ES [Eb _]]]]]].
  exists O', S'. split; [apply labelled_intro; [apply gen_name_inj|apply gen_O_named|exact EO]|].
  split; [apply labelled_intro; [apply gen_name_inj|apply gen_S_named|exact ES]|].
  destruct (call_algorithm_ok _ _ _ _ _ _ _ Hc) as [c [St [ls [Ot [s0 [rest [_ [_ [_ [_ [_ [_ [Ew _]]]]]]]]]]]]].
  intros d Id. apply mapM_some in Ew. destruct (Forall2_In_r _ _ _ Ew d Id) as [s [_ Ws]].
  destruct (write_solution_trees _ _ _ _ Ws) as [A B]. rewrite Eb in A, B. exact (conj A B).
Qed.

(* the names one reads in the written Newick strings are those of the labelled trees *)
Lemma written_tree_names (t : ntree string) : Forall good_name (Label.preorder t) ->
  exists u, parse_tree (print_tree (tree_of t)) = Some u /\ names u = Label.preorder t.
Proof.
  intros G. exists (tree_of t). split; [apply newick_roundtrip; now apply ok_tree_of|apply names_tree_of].
Qed.


(** * the evaluator does not depend on how the families are numbered *)
Section Renumber.
  Variable R : fam -> fam -> Prop.
  Hypothesis R_inj : forall a b a' b', R a b -> R a' b' -> (a = a' <-> b = b').

  Lemma fam_eqb_R a b a' b' : R a b -> R a' b' -> fam_eqb a a' = fam_eqb b b'.
  Proof.
    intros H H'. unfold fam_eqb. destruct (N.eqb_spec a a') as [E|N1], (N.eqb_spec b b') as [E'|N2]; auto.
    - elim N2. now apply (R_inj _ _ _ _ H H').
    - elim N1. now apply (R_inj _ _ _ _ H H').
  Qed.

  Lemma mask_of_R : forall rs rs', Forall2 R rs rs' -> forall syn syn', Forall2 R syn syn' ->
    mask_of rs syn = mask_of rs' syn'.
  Proof.
    unfold mask_of. induction 1 as [|r r' rs rs' Hr _ IH]; intros syn syn' Hs; [reflexivity|].
    destruct Hs as [|x x' syn syn' Hx Hs]; [reflexivity|]. cbn [Subseq.mask_from_subseq].
    rewrite (fam_eqb_R _ _ _ _ Hx Hr). destruct (fam_eqb x' r').
    - now rewrite (IH _ _ Hs).
    - now rewrite (IH (x :: syn) (x' :: syn') (Forall2_cons _ _ Hx Hs)).
  Qed.

  Lemma existsb_R x x' : R x x' -> forall z z', Forall2 R z z' -> existsb (fam_eqb x) z = existsb (fam_eqb x') z'.
  Proof. intros Hx. induction 1 as [|a a' z z' Ha _ IH]; [reflexivity|]. cbn. now rewrite (fam_eqb_R _ _ _ _ Hx Ha), IH. Qed.
  Lemma subset_R : forall y y', Forall2 R y y' -> forall z z', Forall2 R z z' -> subset y z = subset y' z'.
  Proof.
    unfold subset. induction 1 as [|a a' y y' Ha _ IH]; intros z z' Hz; [reflexivity|]. cbn.
    now rewrite (existsb_R _ _ Ha _ _ Hz), (IH _ _ Hz).
  Qed.

  Fixpoint lren (t t' : ltree) : Prop :=
    match t, t' with
    | LLeaf s y, LLeaf s' y' => s = s' /\ Forall2 R y y'
    | LNode s y a b, LNode s' y' a' b' => s = s' /\ Forall2 R y y' /\ lren a a' /\ lren b b'
    | _, _ => False
    end.
  Lemma lren_lroot t t' : lren t t' -> lroot t = lroot t'.
  Proof. destruct t, t'; cbn; try contradiction; tauto. Qed.
  Lemma lren_lsyn t t' : lren t t' -> Forall2 R (lsyn t) (lsyn t').
  Proof. destruct t, t'; cbn; try contradiction; tauto. Qed.
  Lemma lren_forget : forall t t', lren t t' -> forget t = forget t'.
  Proof.
    induction t as [s y|s y a IHa b IHb]; intros [s' y'|s' y' a' b'] H; cbn in H; try contradiction.
    - destruct H as [-> _]. reflexivity.
    - destruct H as [-> [_ [Ha Hb]]]. cbn. now rewrite (IHa _ Ha), (IHb _ Hb).
  Qed.

  Lemma olab_rec_R rs rs' : Forall2 R rs rs' -> forall t t' m, lren t t' -> olab_rec rs m t = olab_rec rs' m t'.
  Proof.
    intros Hr. induction t as [s y|s y a IHa b IHb]; intros [s' y'|s' y' a' b'] m H; cbn in H; try contradiction; [reflexivity|].
    destruct H as [-> [_ [Ha Hb]]]. cbn [olab_rec].
    rewrite (mask_of_R _ _ Hr _ _ (lren_lsyn _ _ Ha)), (mask_of_R _ _ Hr _ _ (lren_lsyn _ _ Hb)).
    rewrite (lren_lroot _ _ Ha), (lren_lroot _ _ Hb), (IHa _ _ Ha), (IHb _ _ Hb). reflexivity.
  Qed.
  Lemma ulab_rec_R : forall t t', lren t t' -> ulab_rec t = ulab_rec t'.
  Proof.
    induction t as [s y|s y a IHa b IHb]; intros [s' y'|s' y' a' b'] H; cbn in H; try contradiction; [reflexivity|].
    destruct H as [-> [Hy [Ha Hb]]]. cbn [ulab_rec].
    rewrite (subset_R _ _ Hy _ _ (lren_lsyn _ _ Ha)), (subset_R _ _ Hy _ _ (lren_lsyn _ _ Hb)).
    rewrite (lren_lroot _ _ Ha), (lren_lroot _ _ Hb), (IHa _ Ha), (IHb _ Hb). reflexivity.
  Qed.

  Lemma Forall2_len {A B} (P : A -> B -> Prop) l l' : Forall2 P l l' -> List.length l = List.length l'.
  Proof. induction 1; cbn; auto. Qed.

  Lemma total_cost_R c O ord t t' : lren t t' -> total_cost c O ord t = total_cost c O ord t'.
  Proof.
    intros H. unfold total_cost, labeling_cost. rewrite (lren_forget _ _ H). destruct ord.
    - unfold ordered_labeling_cost. pose proof (lren_lsyn _ _ H) as Hs.
      rewrite (olab_rec_R _ _ Hs t t' _ H). unfold Subseq.subseq_complete.
      now rewrite (Forall2_len _ _ _ Hs).
    - unfold unordered_labeling_cost. now rewrite (ulab_rec_R _ _ H).
  Qed.
End Renumber.

(* a numbering of family names: injective where defined *)
Definition num_inj (num : string -> option fam) : Prop :=
  forall s s' a, num s = Some a -> num s' = Some a -> s = s'.

Lemma fam_num_inj tbl : num_inj (fam_num tbl).
Proof.
  intros s s' a H H'. apply fam_name_num in H. apply fam_name_num in H'. rewrite H in H'. now inversion H'.
Qed.

Definition syn_strings (sy : synmap) : list string := flat_map (fun ps => syn_items (snd ps)) sy.

Lemma syn_strings_sub i sy s : In s (syn_strings (sub_map i sy)) -> In s (syn_strings sy).
Proof.
  unfold syn_strings. rewrite !in_flat_map. intros [[q v] [I H]]. apply sub_map_In in I. eauto.
Qed.
Lemma syn_strings_root sy v s : at_root sy = Some v -> In s (syn_items v) -> In s (syn_strings sy).
Proof.
  intros E I. apply at_root_In in E. unfold syn_strings. apply in_flat_map. exists ([], v). auto.
Qed.

Section TwoNumberings.
  Variables num1 num2 : string -> option fam.
  Hypothesis inj1 : num_inj num1.
  Hypothesis inj2 : num_inj num2.
  Definition Rnum (a b : fam) : Prop := exists s, num1 s = Some a /\ num2 s = Some b.

  Lemma Rnum_inj a b a' b' : Rnum a b -> Rnum a' b' -> (a = a' <-> b = b').
  Proof.
    intros [s [H1 H2]] [s' [H1' H2']]. split; intros E; subst.
    - rewrite (inj1 _ _ _ H1 H1') in H2. congruence.
    - rewrite (inj2 _ _ _ H2 H2') in H1. congruence.
  Qed.

  Lemma mapM_renumber : forall l y1, mapM num1 l = Some y1 -> (forall s, In s l -> num2 s <> None) ->
    exists y2, mapM num2 l = Some y2 /\ Forall2 Rnum y1 y2.
  Proof.
    induction l as [|s l IH]; intros y1 E D; cbn in E.
    - inversion E. exists []. split; [reflexivity|constructor].
    - destruct (num1 s) as [a|] eqn:E1; [|discriminate]. destruct (mapM num1 l) as [y|] eqn:El; [|discriminate].
      inversion E; subst y1. destruct (num2 s) as [b|] eqn:E2; [|now elim (D s (or_introl eq_refl))].
      destruct (IH y eq_refl (fun s' I => D s' (or_intror I))) as [y2 [E2' F]].
      exists (b :: y2). cbn. rewrite E2, E2'. split; [reflexivity|]. constructor; auto. exists s. auto.
  Qed.

  Lemma to_ltree_renumber : forall t1 tr m sy, to_ltree num1 tr m sy = Some t1 ->
    (forall s, In s (syn_strings sy) -> num2 s <> None) ->
    exists t2, to_ltree num2 tr m sy = Some t2 /\ lren Rnum t1 t2.
  Proof.
    induction t1 as [s y|s y a IHa b IHb]; intros [n c [|ta [|tb [|z ks]]]] m sy E D; cbn in E; unfold option_map in E; try discriminate E;
      try solve [repeat (match type of E with context [match ?x with _ => _ end] => destruct x end; try discriminate E)].
    - destruct (at_root m) as [q|] eqn:Em; [|discriminate].
      destruct (at_root sy) as [v|] eqn:Ev; [|discriminate].
      assert (exists l, syn_items v = l /\ (match v with SList l0 | SSet l0 => mapM num1 l0 end) = mapM num1 l
              /\ (match v with SList l0 | SSet l0 => mapM num2 l0 end) = mapM num2 l) as [l [El [M1 M2]]]
        by (destruct v; eexists; repeat split).
      rewrite M1 in E. destruct (mapM num1 l) as [y1|] eqn:E1; [|discriminate].
      destruct (to_bpath q) as [s1|] eqn:Eq; [|discriminate]. cbn in E. inversion E; subst s1 y1.
      destruct (mapM_renumber l y E1) as [y2 [E2 F]].
      { intros s' I. apply D. eapply syn_strings_root; eauto. now rewrite El. }
      exists (LLeaf s y2). cbn. rewrite Em, Ev, M2, E2, Eq. cbn. auto.
    - destruct (at_root m) as [q|] eqn:Em; [|discriminate].
      destruct (at_root sy) as [v|] eqn:Ev; [|discriminate].
      assert (exists l, syn_items v = l /\ (match v with SList l0 | SSet l0 => mapM num1 l0 end) = mapM num1 l
              /\ (match v with SList l0 | SSet l0 => mapM num2 l0 end) = mapM num2 l) as [l [El [M1 M2]]]
        by (destruct v; eexists; repeat split).
      rewrite M1 in E. destruct (mapM num1 l) as [y1|] eqn:E1; [|discriminate].
      destruct (to_ltree num1 ta (sub_map 0 m) (sub_map 0 sy)) as [la|] eqn:Ea; [|discriminate].
      destruct (to_ltree num1 tb (sub_map 1 m) (sub_map 1 sy)) as [lb|] eqn:Eb; [|discriminate].
      destruct (to_bpath q) as [s1|] eqn:Eq; [|discriminate]. cbn in E. inversion E; subst s1 y1 la lb.
      destruct (mapM_renumber l y E1) as [y2 [E2 F]].
      { intros s' I. apply D. eapply syn_strings_root; eauto. now rewrite El. }
      destruct (IHa _ _ _ Ea (fun s' I => D s' (syn_strings_sub _ _ _ I))) as [a2 [Ea2 Ra]].
      destruct (IHb _ _ _ Eb (fun s' I => D s' (syn_strings_sub _ _ _ I))) as [b2 [Eb2 Rb]].
      exists (LNode s y2 a2 b2). cbn. rewrite Em, Ev, M2, E2, Ea2, Eb2, Eq. cbn. auto.
  Qed.

  Theorem eval_numbering_irrelevant x v :
    (forall s, In s (syn_strings (syns x)) -> num2 s <> None) ->
    eval_soutput num1 x = Some v -> eval_soutput num2 x = Some v.
  Proof.
    intros D. unfold eval_soutput.
    destruct (to_costs _) as [c|]; [|discriminate]. destruct (to_otree _ _ None) as [Ot|]; [|discriminate].
    destruct (to_ltree num1 _ _ _) as [t1|] eqn:E1; [|discriminate].
    destruct (to_ltree_renumber _ _ _ _ E1 D) as [t2 [E2 R]]. rewrite E2.
    now rewrite (total_cost_R Rnum Rnum_inj c Ot (ordered x) t1 t2 R).
  Qed.
End TwoNumberings.

(* the numbering an evaluator builds from the object alone: defined on every family that occurs *)
Lemma own_num_defined x s : In s (syn_strings (syns x)) -> fam_num (fam_table (syns x)) s <> None.
Proof.
  intros I. assert (In s (fam_table (syns x))) as I' by (unfold fam_table; now apply nodup_In).
  unfold fam_num. destruct (index_of s (fam_table (syns x))) as [i|] eqn:E; [discriminate|].
  exfalso. clear I. induction (fam_table (syns x)) as [|a l IH]; [destruct I'|]. cbn in E.
  destruct (String.eqb_spec s a) as [->|N]; [discriminate|].
  destruct (index_of s l); [discriminate|]. destruct I' as [->|I']; [now elim N|auto].
Qed.

Corollary eval_own_numbering num r v : num_inj num -> eval_result num r = Some v -> eval_result (own_num r) r = Some v.
Proof.
  destruct r as [x|x]; cbn [eval_result own_num]; [auto|]. intros Hn.
  apply (eval_numbering_irrelevant num _ Hn (fam_num_inj _)). apply own_num_defined.
Qed.

(** * Theorem 1, stated with the evaluator's own numbering of the families: it reads nothing
      but the written line *)
Theorem cli_objects_parse_back_own x inp warned m objs :
  read_input x = Some inp -> cli_input_wf inp -> nn (c_hgt (ci_costs x)) ->
  cli_run x = CliOk warned m objs ->
  forall d, In d objs ->
  exists r, parse_back d = Some r /\ result_input r = Plain (base_of inp) /\
            eval_result (own_num r) r = Some m.
Proof.
  intros Er W Hh H d Id.
  destruct (cli_objects_parse_back x inp warned m objs Er W Hh H d Id) as [r [P [I E]]].
  exists r. repeat split; auto. exact (eval_own_numbering _ r m (fam_num_inj _) E).
Qed.

(** * the same theorems under hypotheses on the input file alone ([cli_wf]) *)
Lemma cli_run_reads x warned m objs : cli_run x = CliOk warned m objs -> exists inp, read_input x = Some inp.
Proof. intros H. destruct (cli_run_ok x warned m objs H) as [inp [_ [E _]]]. eauto. Qed.

Corollary cli_objects_parse_back_wf x warned m objs :
  cli_wf x -> nn (c_hgt (ci_costs x)) ->
  cli_run x = CliOk warned m objs ->
  exists inp, read_input x = Some inp /\
  forall d, In d objs ->
  exists r, parse_back d = Some r /\ result_input r = Plain (base_of inp) /\
            eval_result (own_num r) r = Some m.
Proof.
  intros W Hh H. destruct (cli_run_reads _ _ _ _ H) as [inp Er]. exists inp. split; [exact Er|].
  exact (cli_objects_parse_back_own x inp warned m objs Er (read_input_wf x inp W Er) Hh H).
Qed.

Lemma cli_wf_policy x rp : cli_wf x -> cli_wf (set_policy x rp).
Proof. intros [A B C D E F]. constructor; assumption. Qed.

Corollary cli_all_superset_any_wf x wa ma oa wl ml ol :
  cli_wf x -> nn (c_hgt (ci_costs x)) -> cli_region (ci_algo x) (ci_costs x) ->
  cli_run (set_policy x RANY) = CliOk wa ma oa ->
  cli_run (set_policy x RALL) = CliOk wl ml ol ->
  incl oa ol /\ ma = ml.
Proof.
  intros W Hh R Ha Hl. destruct (cli_run_reads _ _ _ _ Ha) as [inp Er]. rewrite read_input_policy in Er.
  exact (cli_all_superset_any x inp wa ma oa wl ml ol Er (read_input_wf x inp W Er) Hh R Ha Hl).
Qed.

(* the region named by the property text (DESIGN section 9) is inside the region of every algorithm *)
Lemma cli_region_of_coherent key c :
  (0 <= c_floss c)%Z -> (0 <= c_sloss c)%Z -> (c_spe c + 2 * c_sloss c <= c_dup c + 2 * c_floss c)%Z ->
  cli_region key c.
Proof.
  intros Hf Hs Hc. unfold cli_region.
  destruct ((key =? "lca") || (key =? "exh")); [exact I|].
  destruct (key =? "thl"); [split; lia|].
  destruct ((key =? "base_spfs") || (key =? "ext_spfs")); [unfold coherent_ord; repeat split; lia|].
  unfold ucoherent. repeat split; lia.
Qed.

(** * non-vacuity: an input with unnamed ancestors, a "NoName" ancestor and a given name that
      looks like a generated one; six optimal unordered super-reconciliations *)
Definition ex_costs : Recon.costs := {| c_spe := 0; c_dup := 1; c_hgt := Fin 1; c_floss := 1; c_sloss := 1 |}.
Definition ex_input (key : string) (rp : ret) : cli_input :=
  mkCli key rp ex_costs
    (NT "" [NT "O1" [NT "x_1" []; NT "y_1" []]; NT "" [NT "x_2" []; NT "z_1" []]])
    (NT "" [NT "X" []; NT "NoName" [NT "Y" []; NT "Z" []]])
    (Some [("x_1", "X"); ("y_1", "Y"); ("x_2", "X"); ("z_1", "Z")])
    (Some [("x_1", ["a"; "b"; "c"]); ("y_1", ["a"; "c"]); ("x_2", ["b"; "c"]); ("z_1", ["a"; "b"])]).

Example cli_example :
  let x := ex_input "superdtl" RALL in
  cli_wf x /\ nn (c_hgt (ci_costs x)) /\ cli_region (ci_algo x) (ci_costs x) /\
  (exists inp, read_input x = Some inp /\ cli_input_wf inp) /\
  (exists objs, cli_run x = CliOk false (Fin 4) objs /\ List.length objs = 6) /\
  (exists d, cli_run (set_policy x RANY) = CliOk false (Fin 4) [d]) /\
  cli_run (ex_input "superdtl" RALL) <> cli_run (ex_input "ext_spfs" RALL) /\
  cli_run (mkCli "superdtl" RALL ex_costs (ci_otree x) (ci_stree x) (ci_leafmap x) None) = CliError.
Proof.
  cbv zeta.
  assert (cli_wf (ex_input "superdtl" RALL)) as W.
  { constructor; cbn.
    - repeat constructor; (now left) || (now right).
    - repeat constructor; (now left) || (now right).
    - repeat (constructor; [cbn; intuition discriminate|]). constructor.
    - repeat (constructor; [cbn; intuition discriminate|]). constructor.
    - eexists. split; [reflexivity|]. cbn. repeat (constructor; [cbn; intuition discriminate|]). constructor.
    - intros d E. inversion E; subst d. cbn. split.
      + repeat (constructor; [cbn; intuition discriminate|]). constructor.
      + repeat constructor; discriminate. }
  split; [exact W|]. split; [discriminate|]. split; [unfold cli_region, ucoherent; cbn; lia|].
  split.
  { destruct (read_input (ex_input "superdtl" RALL)) as [inp|] eqn:E; [|vm_compute in E; discriminate].
    exists inp. split; [reflexivity|]. exact (read_input_wf _ _ W E). }
  split.
  { destruct (cli_run (ex_input "superdtl" RALL)) as [| | | | |w m objs] eqn:E; try (vm_compute in E; discriminate).
    exists objs. vm_compute in E. inversion E. split; reflexivity. }
  split.
  { destruct (cli_run (set_policy (ex_input "superdtl" RALL) RANY)) as [| | | | |w m objs] eqn:E; try (vm_compute in E; discriminate).
    vm_compute in E. inversion E. eexists. reflexivity. }
  split; [vm_compute; discriminate|vm_compute; reflexivity].
Qed.

(** the full statements of the clauses of C12 proved above, for the property file *)
Definition cli_objects_parse_back_statement : Prop :=
  forall x inp warned m objs,
  read_input x = Some inp -> cli_input_wf inp -> nn (c_hgt (ci_costs x)) ->
  cli_run x = CliOk warned m objs ->
  forall d, In d objs ->
  exists r, parse_back d = Some r /\ result_input r = Plain (base_of inp) /\
            eval_result (fam_num (input_table inp)) r = Some m.
Definition cli_all_superset_any_statement : Prop :=
  forall x inp wa ma oa wl ml ol,
  read_input x = Some inp -> cli_input_wf inp -> nn (c_hgt (ci_costs x)) ->
  cli_region (ci_algo x) (ci_costs x) ->
  cli_run (set_policy x RANY) = CliOk wa ma oa ->
  cli_run (set_policy x RALL) = CliOk wl ml ol ->
  incl oa ol /\ ma = ml.

Print Assumptions cli_objects_parse_back.
Print Assumptions cli_objects_parse_back_own.
Print Assumptions eval_numbering_irrelevant.
Print Assumptions cli_all_superset_any.
Print Assumptions cli_names.
Print Assumptions cli_objects_parse_back_wf.
Print Assumptions cli_all_superset_any_wf.
Print Assumptions cli_region_of_coherent.
Print Assumptions cli_super_without_syntenies.
Print Assumptions read_input_wf.
Print Assumptions cli_example.
