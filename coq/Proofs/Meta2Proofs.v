(** Metamorphic laws of property C09, second part.
    - part 1: adding an outgroup keeps the optimal SET of plain reconciliation when full losses
      cost something ([opt_outgroup_set], [opt_outgroup_iff]); counterexample for [c_floss = 0];
    - part 2: scaling and raising the unit costs for the labelled evaluators and the solution
      notions of the ordered and unordered super-reconciliation solvers;
    - part 3: reordering the children of object-tree nodes, labelled solutions ([lflip]);
    - part 4: bijective renaming of the gene families, unordered model ([oren], [lren]);
    - part 5: relabelling the species tree (exchanging children of species nodes), labelled solutions;
    - part 6: the outgroup, labelled solutions (minimum always, optimal set when [0 < c_floss c]);
    - part 7: bijective renaming of the gene families, ordered model ([lmapf]);
    - part 8: the laws read on the results of [reconcile_thl], [spfs], [uspfs] under ALL; examples.
    Everything is stated on the specification level (valid solutions, the evaluator's cost); the
    solvers inherit the laws through their exactness theorems ([spfs_all_exact], [uspfs_all_exact],
    [superdtl_optimum]). *)
From Coq Require Import List Bool Arith ZArith NArith Lia.
From SR Require Import Base.PathB Base.Ext Model.Subseq Model.Entry Model.Recon Model.LcaRec Model.Thl
  Model.Spfs Model.Uspfs
  Proofs.PathFacts Proofs.ReconProofs Proofs.DpProofs Proofs.SubseqProofs Proofs.LabelCostProofs
  Proofs.LcaProofs Proofs.ExhProofs
  Proofs.ThlProofs Proofs.ThlFinal Proofs.MetaProofs Proofs.SpfsProofs Proofs.SpfsFinal
  Proofs.UspfsProofs Proofs.UspfsFinal.
Import ListNotations.
Local Open Scope Z_scope.

(** * part 1: the outgroup keeps the optimal SET when full losses cost something *)

Definition elt (a b : ext) : Prop := ext_ltb a b = true.

Lemma elt_Fin x y : elt (Fin x) (Fin y) <-> x < y.
Proof. unfold elt; simpl. apply Z.ltb_lt. Qed.

Lemma ext_add_lt_l a a' b b' v : elt a a' -> ele b b' -> ext_add a' b' = Fin v ->
  elt (ext_add a b) (ext_add a' b').
Proof.
  unfold elt, ele. destruct a, a', b, b'; simpl; try congruence; rewrite ?Z.ltb_lt, ?Z.ltb_ge; intros; lia.
Qed.
Lemma ext_add_lt_r a a' b b' v : ele a a' -> elt b b' -> ext_add a' b' = Fin v ->
  elt (ext_add a b) (ext_add a' b').
Proof.
  unfold elt, ele. destruct a, a', b, b'; simpl; try congruence; rewrite ?Z.ltb_lt, ?Z.ltb_ge; intros; lia.
Qed.

Lemma cost_node_valid c oa ob s a b : event s (root a) (root b) <> Inv ->
  cost c (ONode oa ob) (RNode s a b) =
  ext_add (ecost c s (root a) (root b)) (ext_add (cost c oa a) (cost c ob b)).
Proof. intros E. cbn [cost]. destruct (event s (root a) (root b)); congruence. Qed.

(* some node sits on the new root *)
Fixpoint touches (r : rtree) : Prop :=
  match r with RLeaf s => s = [] | RNode s a b => s = [] \/ touches a \/ touches b end.

Lemma root_touches r : root r = [] -> touches r.
Proof. destruct r; simpl; auto. Qed.

Lemma allgood_inside_or_touches r : allgood r -> inside r \/ touches r.
Proof.
  induction r as [s|s a IHa b IHb]; simpl.
  - intros [->|[q ->]]; [right; reflexivity|left; eauto].
  - intros [[->|[q ->]] [Ga Gb]]; [right; left; reflexivity|].
    destruct (IHa Ga) as [Ia|Ta]; [|right; right; left; exact Ta].
    destruct (IHb Gb) as [Ib|Tb]; [|right; right; right; exact Tb].
    left. split; eauto.
Qed.

(* a node on the new root with a child off the new root: pushing it down saves a full loss *)
Lemma push_node_strict c l r :
  0 < c_floss c -> coherent c -> good l -> good r -> event [] l r <> Inv -> l <> [] \/ r <> [] ->
  elt (ecost c [false] (rho l) (rho r)) (ecost c [] l r).
Proof.
  intros Hf Hc Gl Gr Ev NE.
  assert (event [] l r = Dup) as ED.
  { pose proof (event_exhaustive [] l r) as X. destruct (event [] l r) eqn:E; try congruence.
    - exfalso. destruct X as [_ [_ [L [N1 N2]]]].
      destruct Gl as [->|[ql ->]]; [discriminate|]. destruct Gr as [->|[qr ->]]; [destruct ql; discriminate|].
      discriminate.
    - destruct X as [_ [X _]]. destruct l; discriminate.
    - destruct X as [_ [X _]]. destruct r; discriminate. }
  assert (anc [false] (rho l) = true) as Al by now apply rho_good.
  assert (anc [false] (rho r) = true) as Ar by now apply rho_good.
  unfold ecost at 2. rewrite ED.
  assert (dist [false] (rho l) <= len l /\ dist [false] (rho r) <= len r /\
          (l <> [] -> dist [false] (rho l) = len l - 1) /\ (r <> [] -> dist [false] (rho r) = len r - 1)) as [Dl [Dr [Dl' Dr']]].
  { rewrite (dist_anc _ _ Al), (dist_anc _ _ Ar).
    destruct Gl as [->|[ql ->]], Gr as [->|[qr ->]]; unfold len; cbn [rho length]; rewrite ?Nat2Z.inj_succ;
      repeat split; intros; try congruence; lia. }
  rewrite !dist_nil. unfold ecost.
  pose proof (event_exhaustive [false] (rho l) (rho r)) as X.
  destruct (event [false] (rho l) (rho r)) eqn:E2.
  - destruct X as [_ [_ [L [N1 N2]]]].
    assert (l <> []) as Nl.
    { intros ->. cbn [rho] in N1. congruence. }
    assert (r <> []) as Nr.
    { intros ->. cbn [rho] in N2. congruence. }
    rewrite (Dl' Nl), (Dr' Nr). apply elt_Fin. unfold coherent in Hc. nia.
  - apply elt_Fin. destruct NE as [Nl|Nr]; [rewrite (Dl' Nl)|rewrite (Dr' Nr)]; nia.
  - destruct X as [_ [X _]]. congruence.
  - destruct X as [_ [X _]]. congruence.
  - exfalso. apply (event_anc_both [false] (rho l) (rho r)); auto.
Qed.

(* a node inside the old tree is not moved, nor are the roots of its children *)
Lemma push_node_same q l r : event (false :: q) l r <> Inv -> rho l = l /\ rho r = r.
Proof.
  intros Ev.
  assert (l <> [] /\ r <> []) as [Nl Nr].
  { split; intros ->; apply Ev; unfold event; cbn [sanc anc is_prefix path_eqb negb andb orb]; try reflexivity.
    destruct (sanc l (false :: q)); reflexivity. }
  destruct l; [congruence|]. destruct r; [congruence|]. split; reflexivity.
Qed.

Lemma push_strict S c O : nn (c_hgt c) -> 0 < c_floss c -> coherent c ->
  forall r, valid_rec (S_out S) (omap og O) r -> touches r -> cost c (omap og O) r <> PInf ->
  elt (cost c (omap og O) (rmap rho r)) (cost c (omap og O) r).
Proof.
  intros Hh Hf Hc. assert (0 <= c_floss c) as Hf0 by lia.
  induction O as [sp syn|a IHa b IHb]; intros r V T NE;
    inversion V as [? ? Hs|? ? s ra rb Hs He Va Vb]; subst.
  - simpl in T. discriminate.
  - destruct (push_cost S c a Hf0 Hc _ Va) as [Wa La]. destruct (push_cost S c b Hf0 Hc _ Vb) as [Wb Lb].
    destruct (valid_allgood S _ _ Va) as [_ Gl]. destruct (valid_allgood S _ _ Vb) as [_ Gr].
    destruct (valid_allgood S _ _ V) as [_ Gs]. cbn [root] in Gs.
    destruct (push_node c s (root ra) (root rb) Hf0 Hc Gs Gl Gr He) as [Ev Le].
    cbn [omap rmap] in *.
    assert (event (rho s) (root (rmap rho ra)) (root (rmap rho rb)) <> Inv) as Ev' by (now rewrite !root_rho).
    rewrite (cost_node_valid c _ _ _ _ _ He) in NE |- *. rewrite (cost_node_valid c _ _ _ _ _ Ev'), !root_rho.
    pose proof (nn_ecost c s (root ra) (root rb) Hh) as Nx.
    pose proof (cost_nn c (omap og a) Hh ra) as Nxa. pose proof (cost_nn c (omap og b) Hh rb) as Nxb.
    destruct (ecost c s (root ra) (root rb)) as [|x|] eqn:Ex; [exfalso; now apply Nx| |];
      try (exfalso; apply NE; destruct (cost c (omap og a) ra), (cost c (omap og b) rb); reflexivity).
    destruct (cost c (omap og a) ra) as [|xa|] eqn:Ea; [exfalso; now apply Nxa| |];
      try (exfalso; apply NE; destruct (cost c (omap og b) rb); reflexivity).
    destruct (cost c (omap og b) rb) as [|xb|] eqn:Eb; [exfalso; now apply Nxb| |]; try (exfalso; apply NE; reflexivity).
    clear NE.
    assert (cost c (omap og a) ra <> PInf) as NEa by (rewrite Ea; discriminate).
    assert (cost c (omap og b) rb <> PInf) as NEb by (rewrite Eb; discriminate).
    try rewrite Ea in La. try rewrite Eb in Lb.
    destruct Gs as [->|[q ->]].
    + (* the node is on the new root *)
      destruct (root ra) as [|xl l'] eqn:Rl; [|].
      * destruct (root rb) as [|xr r'] eqn:Rr.
        -- (* both children on the new root: the gain comes from below *)
           pose proof (IHa _ Va (root_touches _ Rl) NEa) as Sa. try rewrite Ea in Sa.
           eapply ext_add_lt_r; [exact Le| |reflexivity].
           eapply ext_add_lt_l; [exact Sa|exact Lb|reflexivity].
        -- eapply ext_add_lt_l; [| |reflexivity].
           ++ rewrite <- Ex. apply push_node_strict; auto. right. discriminate.
           ++ apply ext_add_mono; assumption.
      * eapply ext_add_lt_l; [| |reflexivity].
        -- rewrite <- Ex. apply push_node_strict; auto. left. discriminate.
        -- apply ext_add_mono; assumption.
    + (* the node is inside: one of the children touches the new root *)
      destruct T as [T|[T|T]]; [discriminate| |].
      * pose proof (IHa _ Va T NEa) as Sa. try rewrite Ea in Sa.
        eapply ext_add_lt_r; [exact Le| |reflexivity].
        eapply ext_add_lt_l; [exact Sa|exact Lb|reflexivity].
      * pose proof (IHb _ Vb T NEb) as Sb. try rewrite Eb in Sb.
        eapply ext_add_lt_r; [exact Le| |reflexivity].
        eapply ext_add_lt_r; [exact La|exact Sb|reflexivity].
Qed.

Lemma valid_leaves_ok S O r : valid_rec S O r -> leaves_ok S O.
Proof. induction 1; simpl; auto. Qed.

Lemma optimal_finite S c O r : optimal S c O r -> cost c O r <> PInf.
Proof.
  intros [V Opt] E. pose proof (valid_leaves_ok _ _ _ V) as L.
  destruct (lca_valid S O L) as [VL NT]. specialize (Opt _ VL).
  rewrite (cost_costDL c S O _ VL NT), E in Opt. discriminate.
Qed.

(** with [0 < c_floss c] an optimal reconciliation of the enlarged input never uses the new
    root: the optimal set is exactly the image of the original one *)
Theorem opt_outgroup_set S c O r' : nn (c_hgt c) -> 0 < c_floss c -> coherent c ->
  optimal (S_out S) c (omap og O) r' -> exists r, r' = rmap og r /\ optimal S c O r.
Proof.
  intros Hh Hf Hc Opt. pose proof (optimal_finite _ _ _ _ Opt) as NE. pose proof Opt as [V Min].
  destruct (valid_allgood S _ _ V) as [G _].
  destruct (allgood_inside_or_touches _ G) as [I|T].
  - destruct (strip_valid S O _ V I) as [r0 [V0 E0]]. exists r0. split; auto.
    apply opt_outgroup_back; auto. now rewrite E0.
  - exfalso. pose proof (push_strict S c O Hh Hf Hc _ V T NE) as Lt.
    assert (0 <= c_floss c) as Hf0 by lia.
    destruct (push_cost S c O Hf0 Hc _ V) as [W _]. specialize (Min _ W).
    unfold elt in Lt. unfold ele in Min. congruence.
Qed.

Theorem opt_outgroup_iff S c O r' : nn (c_hgt c) -> 0 < c_floss c -> coherent c ->
  (optimal (S_out S) c (omap og O) r' <-> exists r, r' = rmap og r /\ optimal S c O r).
Proof.
  intros Hh Hf Hc. split; [now apply opt_outgroup_set|].
  intros [r [-> Opt]]. apply opt_outgroup_cost; auto. lia.
Qed.

(** with [c_floss c = 0] the optimal set does grow: a duplication on the new root is free of
    loss charges *)
Example outgroup_set_needs_floss :
  let S := SLeaf in
  let O := ONode (OLeaf [] []) (OLeaf [] []) in
  let c := {| c_spe := 0; c_dup := 1; c_hgt := Fin 1; c_floss := 0; c_sloss := 0 |} in
  let r' := RNode [] (RLeaf [false]) (RLeaf [false]) in
  coherent c /\ 0 <= c_floss c /\ optimal (S_out S) c (omap og O) r' /\ ~ exists r, r' = rmap og r.
Proof.
  cbv zeta. split; [unfold coherent; simpl; lia|]. split; [simpl; lia|]. split.
  - assert (leaves_ok (S_out SLeaf) (omap og (ONode (OLeaf [] []) (OLeaf [] [])))) as L by (simpl; auto).
    split.
    + apply (all_recs_spec _ _ L). vm_compute. auto.
    + intros r V. apply (all_recs_spec _ _ L) in V. vm_compute in V.
      repeat (destruct V as [<-|V]; [vm_compute; reflexivity|]). contradiction.
  - intros [[s|s a b] E]; simpl in E; [discriminate|]. injection E as E _ _. discriminate.
Qed.

(** * part 2: scaling and raising the unit costs, labelled evaluators *)

Lemma ext_scale_Fin k z : ext_scale k (Fin z) = Fin (k * z). Proof. reflexivity. Qed.

Lemma labeling_cost_scale k c ordered t :
  labeling_cost (scale_costs k c) ordered t = option_map (Z.mul k) (labeling_cost c ordered t).
Proof.
  unfold labeling_cost, ordered_labeling_cost, unordered_labeling_cost. cbn [scale_costs c_sloss].
  destruct ordered.
  - destruct (olab_rec (lsyn t) (subseq_complete (lsyn t)) t); cbn [option_map]; auto. f_equal. lia.
  - destruct (ulab_rec t); cbn [option_map]; auto. f_equal. lia.
Qed.

(** the evaluator, both models: every unit cost times k gives the total times k *)
Theorem total_cost_scale k c O ordered t :
  total_cost (scale_costs k c) O ordered t = option_map (ext_scale k) (total_cost c O ordered t).
Proof.
  unfold total_cost. rewrite labeling_cost_scale, cost_scale.
  destruct (labeling_cost c ordered t); cbn [option_map]; auto.
  now rewrite ext_scale_add, ext_scale_Fin.
Qed.

Theorem cost_of_scale k c O lt : cost_of (scale_costs k c) O lt = ext_scale k (cost_of c O lt).
Proof. unfold cost_of. rewrite total_cost_scale. destruct (total_cost c O true lt); reflexivity. Qed.

Theorem ucost_scale k c O t : ucost (scale_costs k c) O t = ext_scale k (ucost c O t).
Proof.
  unfold ucost. rewrite cost_scale, ext_scale_add, ext_scale_Fin. cbn [scale_costs c_sloss].
  do 2 f_equal. lia.
Qed.

Lemma ecost_ord_scale k c s m kl kr :
  ecost_ord (scale_costs k c) s m kl kr = ext_scale k (ecost_ord c s m kl kr).
Proof.
  unfold ecost_ord. destruct (olab_node _ _ _ _); [|reflexivity].
  rewrite ecost_scale, ext_scale_add, ext_scale_Fin. cbn [scale_costs c_sloss]. do 2 f_equal. lia.
Qed.

Theorem tcost_scale k c ord O : forall t, tcost (scale_costs k c) ord O t = ext_scale k (tcost c ord O t).
Proof.
  induction O as [sp syn|a IHa b IHb]; intros [s y|s y la lb]; cbn [tcost]; auto.
  - destruct (path_eqb s sp); simpl; auto. f_equal. lia.
  - now rewrite ecost_ord_scale, IHa, IHb, !ext_scale_add.
Qed.

(** the optimal sets are unchanged for k > 0 *)
Theorem optimal_sol_scale k S c extended orders O lt : 0 < k ->
  (optimal_sol S (scale_costs k c) extended orders O lt <-> optimal_sol S c extended orders O lt).
Proof.
  intros Hk. unfold optimal_sol. split; intros [V Opt]; split; auto; intros lt' V'; specialize (Opt lt' V').
  - rewrite !cost_of_scale in Opt. now apply (ele_scale k).
  - rewrite !cost_of_scale. now apply (ele_scale k).
Qed.

Theorem uoptimal_scale k S c extended O t : 0 < k ->
  (uoptimal S (scale_costs k c) extended O t <-> uoptimal S c extended O t).
Proof.
  intros Hk. unfold uoptimal. split; intros [V Opt]; split; auto; intros t' V'; specialize (Opt t' V').
  - rewrite !ucost_scale in Opt. now apply (ele_scale k).
  - rewrite !ucost_scale. now apply (ele_scale k).
Qed.

(* optimal among ALL valid unordered labellings (not only the canonical ones) *)
Definition uall_optimal (S : stree) (c : costs) (extended : bool) (O : otree) (t : ltree) : Prop :=
  uall_sol S extended O t /\ forall t', uall_sol S extended O t' -> ele (ucost c O t) (ucost c O t').

Theorem uall_optimal_scale k S c extended O t : 0 < k ->
  (uall_optimal S (scale_costs k c) extended O t <-> uall_optimal S c extended O t).
Proof.
  intros Hk. unfold uall_optimal. split; intros [V Opt]; split; auto; intros t' V'; specialize (Opt t' V').
  - rewrite !ucost_scale in Opt. now apply (ele_scale k).
  - rewrite !ucost_scale. now apply (ele_scale k).
Qed.

(** ** raising unit costs *)
Lemma lost_runs_nonneg e C P : 0 <= lost_runs e C P.
Proof. unfold lost_runs. lia. Qed.

Lemma olab_spec_nonneg t : 0 <= olab_spec t.
Proof.
  induction t as [s y|s y a IHa b IHb]; cbn [olab_spec]; [lia|].
  assert (0 <= olab_node_spec (event s (lroot a) (lroot b)) y (lsyn a) (lsyn b)); [|lia].
  pose proof (lost_runs_nonneg true (lsyn a) y). pose proof (lost_runs_nonneg false (lsyn a) y).
  pose proof (lost_runs_nonneg true (lsyn b) y). pose proof (lost_runs_nonneg false (lsyn b) y).
  unfold olab_node_spec. destruct (event s (lroot a) (lroot b)); lia.
Qed.

Lemma lossy_01 P C : 0 <= lossy P C <= 1.
Proof. unfold lossy. destruct (subset P C); lia. Qed.

Lemma ulab_spec_nonneg t : 0 <= ulab_spec t.
Proof.
  induction t as [s y|s y a IHa b IHb]; cbn [ulab_spec]; [lia|].
  assert (0 <= ulab_node_spec (event s (lroot a) (lroot b)) y (lsyn a) (lsyn b)); [|lia].
  pose proof (lossy_01 y (lsyn a)). pose proof (lossy_01 y (lsyn b)).
  unfold ulab_node_spec. destruct (event s (lroot a) (lroot b)); lia.
Qed.

(** raising unit costs never lowers the unordered cost of any labelled tree ... *)
Theorem ucost_mono c c' O t : 0 <= c_floss c -> costs_le c c' -> ele (ucost c O t) (ucost c' O t).
Proof.
  intros Hf Le. unfold ucost. apply ext_add_mono; [now apply cost_mono|].
  destruct Le as [_ [_ [_ [_ Hs]]]]. pose proof (ulab_spec_nonneg t). apply ele_Fin. nia.
Qed.

(** ... nor the minimum, over the canonical solutions or over all valid labellings *)
Theorem uopt_monotone S c c' extended O t t' : 0 <= c_floss c -> costs_le c c' ->
  uoptimal S c extended O t -> uoptimal S c' extended O t' -> ele (ucost c O t) (ucost c' O t').
Proof.
  intros Hf Le [V Opt] [V' _]. eapply ele_trans; [apply Opt; exact V'|now apply ucost_mono].
Qed.
Theorem uall_opt_monotone S c c' extended O t t' : 0 <= c_floss c -> costs_le c c' ->
  uall_optimal S c extended O t -> uall_optimal S c' extended O t' -> ele (ucost c O t) (ucost c' O t').
Proof.
  intros Hf Le [V Opt] [V' _]. eapply ele_trans; [apply Opt; exact V'|now apply ucost_mono].
Qed.

(* ordered model: on valid solutions the labelling charge is a count *)
Lemma valid_lab_well_ordered S ord O t : valid_lab S O t -> leaves_ord S ord O -> well_ordered t.
Proof.
  induction 1 as [sp syn V|a b s y la lb V E Sa Sb Va IHa Vb IHb]; intros L; [exact I|].
  destruct L as [La Lb]. cbn [well_ordered]. repeat split; auto.
  - eapply valid_lab_syn_nonempty; eauto.
  - eapply valid_lab_syn_nonempty; eauto.
Qed.

Theorem cost_of_recount c S ord O t : NoDup ord -> leaves_ord S ord O -> valid_ordered S ord O t ->
  cost_of c O t = ext_add (cost c O (forget t)) (Fin (c_sloss c * olab_spec t)).
Proof.
  intros ND L [V E]. unfold cost_of, total_cost, labeling_cost.
  rewrite (ordered_labeling_recount c t); [reflexivity|now rewrite E|].
  eapply valid_lab_well_ordered; eauto.
Qed.

(** raising unit costs never lowers the ordered cost of a valid solution ... *)
Theorem cost_of_mono c c' S ord O t : NoDup ord -> leaves_ord S ord O -> valid_ordered S ord O t ->
  0 <= c_floss c -> costs_le c c' -> ele (cost_of c O t) (cost_of c' O t).
Proof.
  intros ND L V Hf Le. rewrite !(cost_of_recount _ S ord O t ND L V).
  apply ext_add_mono; [now apply cost_mono|].
  destruct Le as [_ [_ [_ [_ Hs]]]]. pose proof (olab_spec_nonneg t). apply ele_Fin. nia.
Qed.

Corollary tcost_mono c c' S ord O t : NoDup ord -> leaves_ord S ord O -> valid_ordered S ord O t ->
  0 <= c_floss c -> costs_le c c' -> ele (tcost c ord O t) (tcost c' ord O t).
Proof.
  intros ND L V Hf Le. pose proof (cost_of_mono c c' S ord O t ND L V Hf Le) as M.
  unfold cost_of in M. now rewrite !(total_cost_tcost _ S ord O t ND V) in M.
Qed.

(** ... nor the minimum *)
Theorem sopt_monotone S c c' extended orders O lt lt' : orders_ok S O orders ->
  0 <= c_floss c -> costs_le c c' ->
  optimal_sol S c extended orders O lt -> optimal_sol S c' extended orders O lt' ->
  ele (cost_of c O lt) (cost_of c' O lt').
Proof.
  intros HO Hf Le [V Opt] [V' _]. eapply ele_trans; [apply Opt; exact V'|].
  destruct V' as [ord [Io [VO _]]]. destruct (HO ord Io) as [ND L].
  now apply (cost_of_mono c c' S ord O lt' ND L VO).
Qed.

(** * part 3: reordering children in the object tree, labelled solutions *)
Fixpoint lflip (p : plan) (t : ltree) : ltree :=
  match p, t with
  | PNode f pl pr, LNode s y a b =>
      let a' := lflip pl a in let b' := lflip pr b in if f then LNode s y b' a' else LNode s y a' b'
  | _, _ => t
  end.

Lemma lroot_lflip p t : lroot (lflip p t) = lroot t.
Proof. destruct p, t; simpl; auto. destruct flip; reflexivity. Qed.
Lemma lsyn_lflip p t : lsyn (lflip p t) = lsyn t.
Proof. destruct p, t; simpl; auto. destruct flip; reflexivity. Qed.

Lemma forget_lflip p : forall t, forget (lflip p t) = rflip p (forget t).
Proof.
  induction p as [|f pl IHl pr IHr]; intros t; [destruct t; reflexivity|].
  destruct t as [s y|s y a b]; [destruct f; reflexivity|].
  simpl. destruct f; cbn [forget]; now rewrite IHl, IHr.
Qed.

Lemma lflip_pinv p : forall t, lflip (pinv p) (lflip p t) = t.
Proof.
  induction p as [|f pl IHl pr IHr]; intros t; [destruct t; reflexivity|].
  destruct t as [s y|s y a b]; [destruct f; reflexivity|]. simpl. destruct f; simpl; now rewrite IHl, IHr.
Qed.

Lemma pinv_pinv p : pinv (pinv p) = p.
Proof. induction p as [|f pl IHl pr IHr]; simpl; auto. destruct f; simpl; now rewrite IHl, IHr. Qed.
Lemma oflip_pinv' p o : oflip p (oflip (pinv p) o) = o.
Proof. rewrite <- (pinv_pinv p) at 1. apply oflip_pinv. Qed.
Lemma lflip_pinv' p t : lflip p (lflip (pinv p) t) = t.
Proof. rewrite <- (pinv_pinv p) at 1. apply lflip_pinv. Qed.

(* the labelling charges are symmetric under exchanging the children together with TrL/TrR *)
Definition ev_swap (e : ev) : ev := match e with TrL => TrR | TrR => TrL | e => e end.
Lemma event_swap' s l r : event s r l = ev_swap (event s l r).
Proof. rewrite event_swap. destruct (event s l r); reflexivity. Qed.

Lemma olab_node_swap e m ml mr : olab_node (ev_swap e) m mr ml = olab_node e m ml mr.
Proof. destruct e; cbn [ev_swap olab_node]; f_equal; lia. Qed.

Lemma olab_rec_lflip rs p : forall t m, olab_rec rs m (lflip p t) = olab_rec rs m t.
Proof.
  induction p as [|f pl IHl pr IHr]; intros t m; [destruct t; reflexivity|].
  destruct t as [s y|s y a b]; [destruct f; reflexivity|].
  cbn [lflip]. destruct f; cbn [olab_rec]; rewrite !lroot_lflip, !lsyn_lflip, !IHl, !IHr; [|reflexivity].
  rewrite event_swap', olab_node_swap.
  destruct (olab_node (event s (lroot a) (lroot b)) m (mask_of rs (lsyn a)) (mask_of rs (lsyn b))); [|reflexivity].
  destruct (olab_rec rs (mask_of rs (lsyn a)) a), (olab_rec rs (mask_of rs (lsyn b)) b); auto.
  f_equal. lia.
Qed.

Lemma ulab_rec_lflip p : forall t, ulab_rec (lflip p t) = ulab_rec t.
Proof.
  induction p as [|f pl IHl pr IHr]; intros t; [destruct t; reflexivity|].
  destruct t as [s y|s y a b]; [destruct f; reflexivity|].
  cbn [lflip]. destruct f; cbn [ulab_rec]; rewrite !lroot_lflip, !lsyn_lflip, !IHl, !IHr; [|reflexivity].
  rewrite event_swap'.
  destruct (event s (lroot a) (lroot b)); cbn [ev_swap]; destruct (ulab_rec a), (ulab_rec b); auto;
    f_equal; lia.
Qed.

Lemma ulab_spec_lflip p : forall t, ulab_spec (lflip p t) = ulab_spec t.
Proof.
  induction p as [|f pl IHl pr IHr]; intros t; [destruct t; reflexivity|].
  destruct t as [s y|s y a b]; [destruct f; reflexivity|].
  cbn [lflip]. destruct f; cbn [ulab_spec]; rewrite !lroot_lflip, !lsyn_lflip, !IHl, !IHr; [|reflexivity].
  rewrite event_swap'. unfold ulab_node_spec.
  destruct (event s (lroot a) (lroot b)); cbn [ev_swap]; lia.
Qed.

(** the evaluator does not see the order of the children, in either model *)
Theorem total_cost_lflip c p O ordered t :
  total_cost c (oflip p O) ordered (lflip p t) = total_cost c O ordered t.
Proof.
  unfold total_cost, labeling_cost, ordered_labeling_cost, unordered_labeling_cost.
  rewrite forget_lflip, cost_rflip, lsyn_lflip, olab_rec_lflip, ulab_rec_lflip. reflexivity.
Qed.

Theorem cost_of_lflip c p O lt : cost_of c (oflip p O) (lflip p lt) = cost_of c O lt.
Proof. unfold cost_of. now rewrite total_cost_lflip. Qed.
Theorem ucost_lflip c p O t : ucost c (oflip p O) (lflip p t) = ucost c O t.
Proof. unfold ucost. now rewrite forget_lflip, cost_rflip, ulab_spec_lflip. Qed.

(** ** ordered solutions *)
Lemma valid_lab_lflip S p : forall O t, valid_lab S O t -> valid_lab S (oflip p O) (lflip p t).
Proof.
  induction p as [|f pl IHl pr IHr]; intros O t V; [destruct O, t; exact V|].
  inversion V as [sp syn Hs|a b s y la lb Hs He Sa Sb Va Vb]; subst; [destruct f; exact V|].
  simpl. destruct f; constructor; auto; rewrite ?lroot_lflip, ?lsyn_lflip; auto.
  rewrite event_swap'. destruct (event s (lroot la) (lroot lb)); simpl; congruence.
Qed.

Lemma lca_rec_oflip p : forall O, lca_rec (oflip p O) = rflip p (lca_rec O).
Proof.
  induction p as [|f pl IHl pr IHr]; intros O; [destruct O; reflexivity|].
  destruct O as [sp syn|a b]; [destruct f; reflexivity|].
  simpl. destruct f; cbn [lca_rec]; rewrite IHl, IHr, !root_rflip; [|reflexivity].
  now rewrite lcp_comm.
Qed.

Lemma leaves_ord_oflip S ord p : forall O, leaves_ord S ord (oflip p O) <-> leaves_ord S ord O.
Proof.
  induction p as [|f pl IHl pr IHr]; intros O; [destruct O; reflexivity|].
  destruct O as [sp syn|a b]; [destruct f; reflexivity|].
  simpl. destruct f; cbn [leaves_ord]; rewrite IHl, IHr; tauto.
Qed.

Lemma orders_ok_oflip S p O orders : orders_ok S (oflip p O) orders <-> orders_ok S O orders.
Proof.
  unfold orders_ok. split; intros H ord Io; destruct (H ord Io) as [ND L]; split; auto;
    now apply (leaves_ord_oflip S ord p O).
Qed.

Lemma sol_lflip S extended orders p O lt :
  sol S extended orders O lt -> sol S extended orders (oflip p O) (lflip p lt).
Proof.
  intros [ord [Io [[V E] M]]]. exists ord. split; auto. split.
  - split; [now apply valid_lab_lflip|now rewrite lsyn_lflip].
  - destruct M as [M|M]; [now left|right]. now rewrite forget_lflip, lca_rec_oflip, M.
Qed.

Lemma sol_lflip_iff S extended orders p O lt :
  sol S extended orders (oflip p O) (lflip p lt) <-> sol S extended orders O lt.
Proof.
  split; [|apply sol_lflip]. intros H. apply (sol_lflip S extended orders (pinv p)) in H.
  now rewrite oflip_pinv, lflip_pinv in H.
Qed.

(** reordering the children of any set of object-tree nodes is a cost-preserving bijection on the
    solutions of the ordered solvers; minimum and optimal set are carried over *)
Theorem optimal_sol_lflip S c extended orders p O lt :
  optimal_sol S c extended orders (oflip p O) (lflip p lt) <-> optimal_sol S c extended orders O lt.
Proof.
  unfold optimal_sol. rewrite sol_lflip_iff. split; intros [V Opt]; split; auto.
  - intros lt' V'. specialize (Opt _ (sol_lflip S extended orders p O lt' V')).
    now rewrite !cost_of_lflip in Opt.
  - intros lt' V'. rewrite cost_of_lflip.
    rewrite <- (lflip_pinv' p lt') in V' |- *. apply (proj1 (sol_lflip_iff S extended orders p O _)) in V'.
    rewrite cost_of_lflip. now apply Opt.
Qed.

(* every solution of the reordered input is the image of one of the original input *)
Lemma sol_lflip_onto S extended orders p O lt' :
  sol S extended orders (oflip p O) lt' -> exists lt, lt' = lflip p lt /\ sol S extended orders O lt.
Proof.
  intros H. exists (lflip (pinv p) lt'). split; [now rewrite lflip_pinv'|].
  apply (sol_lflip_iff S extended orders p). now rewrite lflip_pinv'.
Qed.

(** ** unordered solutions *)
Lemma carriers_oflip f p : forall o, carriers f (oflip p o) = carriers f o.
Proof.
  induction p as [|fl pl IHl pr IHr]; intros o; [destruct o; reflexivity|].
  destruct o as [sp syn|a b]; [destruct fl; reflexivity|].
  simpl. destruct fl; cbn [carriers]; rewrite IHl, IHr; lia.
Qed.

Lemma gained_here_oflip total total' p o f : (forall x, total x = total' x) ->
  gained_here total' (oflip p o) f = gained_here total o f.
Proof.
  intros E. destruct p as [|fl pl pr]; [destruct o; unfold gained_here; now rewrite E|].
  destruct o as [sp syn|a b]; [destruct fl; unfold gained_here; now rewrite E|].
  pose proof (carriers_oflip f (PNode fl pl pr) (ONode a b)) as C.
  unfold gained_here. rewrite C, E. f_equal. cbn [oflip].
  destruct fl; rewrite !carriers_oflip; [apply andb_comm|reflexivity].
Qed.

Lemma uvalid_under_lflip S total total' : (forall x, total x = total' x) ->
  forall o p P t, uvalid_under S total P o t -> uvalid_under S total' P (oflip p o) (lflip p t).
Proof.
  intros E. induction o as [sp syn|a IHa b IHb]; intros p P t V.
  - destruct t as [s y|s y ta tb]; [|destruct p; contradiction].
    assert (oflip p (OLeaf sp syn) = OLeaf sp syn) as -> by (destruct p; reflexivity).
    assert (lflip p (LLeaf s y) = LLeaf s y) as -> by (destruct p; reflexivity).
    cbn [uvalid_under] in *. destruct V as [V1 [V2 [V3 V4]]]. repeat split; auto.
    intros f Hf. destruct (V4 f Hf) as [H|H]; auto. right.
    rewrite <- H. exact (gained_here_oflip total total' PLeaf (OLeaf sp syn) f E).
  - destruct t as [s y|s y ta tb]; [destruct p; contradiction|].
    cbn [uvalid_under] in V. destruct V as [V1 [V2 [V3 [V4 [V5 V6]]]]].
    assert (forall f, In f y -> In f P \/ gained_here total' (oflip p (ONode a b)) f = true) as G.
    { intros f Hf. destruct (V4 f Hf) as [H|H]; auto. right. now rewrite (gained_here_oflip total total' p (ONode a b) f E). }
    destruct p as [|fl pl pr].
    + cbn [oflip lflip uvalid_under]. repeat split; auto.
      * exact (IHa PLeaf y ta V5).
      * exact (IHb PLeaf y tb V6).
    + cbn [oflip lflip] in *. destruct fl; cbn [uvalid_under]; rewrite ?lroot_lflip; repeat split; auto.
      rewrite event_swap'. destruct (event s (lroot ta) (lroot tb)); simpl; congruence.
Qed.

Lemma ototal_oflip p O x : ototal O x = ototal (oflip p O) x.
Proof. unfold ototal. now rewrite carriers_oflip. Qed.

Lemma uvalid_lflip S p O t : uvalid S O t -> uvalid S (oflip p O) (lflip p t).
Proof. apply uvalid_under_lflip. intros x. apply ototal_oflip. Qed.

Lemma uall_sol_lflip S extended p O t : uall_sol S extended O t -> uall_sol S extended (oflip p O) (lflip p t).
Proof.
  intros [V M]. split; [now apply uvalid_lflip|]. intros X. now rewrite forget_lflip, lca_rec_oflip, (M X).
Qed.
Lemma uall_sol_lflip_iff S extended p O t :
  uall_sol S extended (oflip p O) (lflip p t) <-> uall_sol S extended O t.
Proof.
  split; [|apply uall_sol_lflip]. intros H. apply (uall_sol_lflip S extended (pinv p)) in H.
  now rewrite oflip_pinv, lflip_pinv in H.
Qed.

(** the same for the unordered model, among all valid labellings *)
Theorem uall_optimal_lflip S c extended p O t :
  uall_optimal S c extended (oflip p O) (lflip p t) <-> uall_optimal S c extended O t.
Proof.
  unfold uall_optimal. rewrite uall_sol_lflip_iff. split; intros [V Opt]; split; auto.
  - intros t' V'. specialize (Opt _ (uall_sol_lflip S extended p O t' V')). now rewrite !ucost_lflip in Opt.
  - intros t' V'. rewrite ucost_lflip.
    rewrite <- (lflip_pinv' p t') in V' |- *. apply (proj1 (uall_sol_lflip_iff S extended p O _)) in V'.
    rewrite ucost_lflip. now apply Opt.
Qed.

(** ** unordered canonical solutions (what the solver enumerates) *)
Lemma families_oflip p o : Uspfs.families (oflip p o) = Uspfs.families o.
Proof.
  apply ssorted_ext; [apply ssorted_families|apply ssorted_families|].
  intros f. now rewrite !In_families, carriers_oflip.
Qed.

Lemma needed_here_oflip total total' p o f : (forall x, total x = total' x) ->
  needed_here total' (oflip p o) f = needed_here total o f.
Proof.
  intros E. unfold needed_here. rewrite carriers_oflip. f_equal.
  destruct p as [|fl pl pr]; [destruct o; unfold top; now rewrite ?E|].
  destruct o as [sp syn|a b]; [destruct fl; reflexivity|].
  cbn [oflip]. destruct fl; unfold top; rewrite !carriers_oflip, E; [apply andb_comm|reflexivity].
Qed.

Lemma bounded_oflip total total' p o : (forall x, total x = total' x) -> bounded total o -> bounded total' (oflip p o).
Proof. intros E B f. rewrite carriers_oflip, <- E. apply B. Qed.

Lemma u_gain_oflip total total' p o : (forall x, total x = total' x) ->
  u_gain (annotate total' (oflip p o)) = u_gain (annotate total o).
Proof.
  intros E. apply ssorted_ext; [apply ssorted_u_gain|apply ssorted_u_gain|].
  intros f. now rewrite !In_u_gain, (gained_here_oflip total total' p o f E).
Qed.
Lemma u_lca_oflip total total' p o : (forall x, total x = total' x) -> bounded total o ->
  u_lca (annotate total' (oflip p o)) = u_lca (annotate total o).
Proof.
  intros E B. apply ssorted_ext; [apply ssorted_u_lca|apply ssorted_u_lca|].
  intros f. rewrite (In_u_lca total o B), (In_u_lca total' _ (bounded_oflip total total' p o E B)).
  now rewrite (needed_here_oflip total total' p o f E).
Qed.

Lemma ucanon_under_lflip total total' : (forall x, total x = total' x) ->
  forall o p P t, bounded total o -> ucanon_under total P o t -> ucanon_under total' P (oflip p o) (lflip p t).
Proof.
  intros E. induction o as [sp syn|a IHa b IHb]; intros p P t B C.
  - destruct t as [s y|s y ta tb]; [|destruct C as [_ []]].
    assert (lflip p (LLeaf s y) = LLeaf s y) as -> by (destruct p; reflexivity).
    pose proof (u_lca_oflip total total' p (OLeaf sp syn) E B) as Q1.
    pose proof (u_gain_oflip total total' p (OLeaf sp syn) E) as Q2.
    assert (oflip p (OLeaf sp syn) = OLeaf sp syn) as X by (destruct p; reflexivity). rewrite X in *.
    destruct C as [C _]. cbn [ucanon_under]. rewrite Q1, Q2. auto.
  - destruct t as [s y|s y ta tb]; [destruct C as [_ []]|].
    pose proof (u_lca_oflip total total' p (ONode a b) E B) as Q1.
    pose proof (u_gain_oflip total total' p (ONode a b) E) as Q2.
    destruct C as [C [Ca Cb]].
    pose proof (bounded_l total a b B) as Ba. pose proof (bounded_r total a b B) as Bb.
    assert (lsyn (lflip p (LNode s y ta tb)) = y) as Ly by (now rewrite lsyn_lflip).
    destruct p as [|fl pl pr].
    + cbn [oflip lflip] in *. cbn [ucanon_under]. rewrite Q1, Q2. split; auto. split.
      * exact (IHa PLeaf y ta Ba Ca).
      * exact (IHb PLeaf y tb Bb Cb).
    + cbn [oflip lflip] in *. destruct fl; cbn [ucanon_under]; rewrite Q1, Q2; cbn [lsyn] in *; auto.
Qed.

Lemma usol_lflip S extended p O t : usol S extended O t -> usol S extended (oflip p O) (lflip p t).
Proof.
  intros [V [C M]]. split; [now apply uvalid_lflip|]. split.
  - apply (ucanon_under_lflip (ototal O)); auto; [intros x; apply ototal_oflip|apply ototal_bounded].
  - intros X. now rewrite forget_lflip, lca_rec_oflip, (M X).
Qed.
Lemma usol_lflip_iff S extended p O t : usol S extended (oflip p O) (lflip p t) <-> usol S extended O t.
Proof.
  split; [|apply usol_lflip]. intros H. apply (usol_lflip S extended (pinv p)) in H.
  now rewrite oflip_pinv, lflip_pinv in H.
Qed.

Theorem uoptimal_lflip S c extended p O t :
  uoptimal S c extended (oflip p O) (lflip p t) <-> uoptimal S c extended O t.
Proof.
  unfold uoptimal. rewrite usol_lflip_iff. split; intros [V Opt]; split; auto.
  - intros t' V'. specialize (Opt _ (usol_lflip S extended p O t' V')). now rewrite !ucost_lflip in Opt.
  - intros t' V'. rewrite ucost_lflip.
    rewrite <- (lflip_pinv' p t') in V' |- *. apply (proj1 (usol_lflip_iff S extended p O _)) in V'.
    rewrite ucost_lflip. now apply Opt.
Qed.

(** * part 4: renaming the gene families, unordered model.
    Family sets are kept as strictly increasing lists, so a renaming has to re-sort them:
    [lren g] maps every synteny through [g] and sorts it again.  (For a strictly increasing [g]
    re-sorting is the identity, [set_of_map_mono].) *)
Fixpoint oren (g : fam -> fam) (o : otree) : otree :=
  match o with OLeaf sp syn => OLeaf sp (map g syn) | ONode a b => ONode (oren g a) (oren g b) end.
Definition sren (g : fam -> fam) (y : list fam) : list fam := set_of (map g y).
Fixpoint lren (g : fam -> fam) (t : ltree) : ltree :=
  match t with
  | LLeaf s y => LLeaf s (sren g y)
  | LNode s y a b => LNode s (sren g y) (lren g a) (lren g b)
  end.

Lemma lroot_lren g t : lroot (lren g t) = lroot t. Proof. destruct t; reflexivity. Qed.
Lemma lsyn_lren g t : lsyn (lren g t) = sren g (lsyn t). Proof. destruct t; reflexivity. Qed.
Lemma forget_lren g t : forget (lren g t) = forget t.
Proof. induction t as [s y|s y a IHa b IHb]; cbn [lren forget]; congruence. Qed.
Lemma cost_oren c g O : forall r, cost c (oren g O) r = cost c O r.
Proof. induction O as [sp syn|a IHa b IHb]; intros [s|s ra rb]; cbn [oren cost]; auto. now rewrite IHa, IHb. Qed.
Lemma lca_rec_oren g O : lca_rec (oren g O) = lca_rec O.
Proof. induction O as [sp syn|a IHa b IHb]; cbn [oren lca_rec]; congruence. Qed.

Lemma In_sren g y x : In x (sren g y) <-> exists f, g f = x /\ In f y.
Proof. unfold sren. rewrite In_set_of. apply in_map_iff. Qed.
Lemma ssorted_sren g y : ssorted (sren g y).
Proof. apply ssorted_set_of. Qed.

Section Ren.
  Variable g : fam -> fam.
  Hypothesis g_inj : forall x y, g x = g y -> x = y.

  Lemma In_sren_inj y f : In (g f) (sren g y) <-> In f y.
  Proof.
    rewrite In_sren. split; [intros [f' [E I]]; apply g_inj in E; now subst|]. intros I. eauto.
  Qed.

  Lemma subset_sren P C : subset (sren g P) (sren g C) = subset P C.
  Proof.
    apply eq_true_iff_eq. rewrite !subset_spec. split; intros H x Hx.
    - apply In_sren_inj. apply H. now apply In_sren_inj.
    - apply In_sren in Hx as [f [<- I]]. apply In_sren_inj. auto.
  Qed.

  Lemma ulab_spec_lren : forall t, ulab_spec (lren g t) = ulab_spec t.
  Proof.
    induction t as [s y|s y a IHa b IHb]; [reflexivity|].
    cbn [lren ulab_spec]. rewrite IHa, IHb, !lroot_lren, !lsyn_lren.
    unfold ulab_node_spec, lossy. now rewrite !subset_sren.
  Qed.

  (** the cost does not see the names of the families *)
  Theorem ucost_lren c O t : ucost c (oren g O) (lren g t) = ucost c O t.
  Proof. unfold ucost. now rewrite forget_lren, cost_oren, ulab_spec_lren. Qed.

  Lemma existsb_ren f syn : existsb (fam_eqb (g f)) (map g syn) = existsb (fam_eqb f) syn.
  Proof.
    induction syn as [|x syn IH]; cbn [map existsb]; auto. rewrite IH. f_equal.
    unfold fam_eqb. destruct (N.eqb_spec f x) as [->|NE]; [apply N.eqb_refl|].
    apply N.eqb_neq. intros E. apply NE. now apply g_inj.
  Qed.
  Lemma carriers_oren f o : carriers (g f) (oren g o) = carriers f o.
  Proof. induction o as [sp syn|a IHa b IHb]; cbn [oren carriers]; [now rewrite existsb_ren|congruence]. Qed.

  Section Totals.
    Variables total total' : fam -> nat.
    Hypothesis E : forall f, total' (g f) = total f.

    Lemma gained_here_oren o f : gained_here total' (oren g o) (g f) = gained_here total o f.
    Proof.
      unfold gained_here. rewrite carriers_oren, E. f_equal.
      destruct o as [sp syn|a b]; cbn [oren]; [reflexivity|]. now rewrite !carriers_oren, ?E.
    Qed.

    Lemma sren_set_of syn : sren g (set_of syn) = set_of (map g syn).
    Proof.
      apply ssorted_ext; [apply ssorted_sren|apply ssorted_set_of|].
      intros x. rewrite In_sren, In_set_of, in_map_iff. split; intros [f [Ef I]]; exists f; split; auto;
        now apply In_set_of.
    Qed.

    Lemma uvalid_under_lren S : forall o P P' t, (forall f, In f P -> In (g f) P') ->
      uvalid_under S total P o t -> uvalid_under S total' P' (oren g o) (lren g t).
    Proof.
      induction o as [sp syn|a IHa b IHb]; intros P P' [s y|s y ta tb] HP V; cbn [uvalid_under] in V; try contradiction.
      - destruct V as [V1 [V2 [V3 V4]]]. cbn [oren lren uvalid_under]. repeat split; auto.
        + rewrite V3. apply sren_set_of.
        + intros x Hx. apply In_sren in Hx as [f [<- I]]. destruct (V4 f I) as [H|H]; auto.
          right. rewrite <- H. apply (gained_here_oren (OLeaf sp syn)).
      - destruct V as [V1 [V2 [V3 [V4 [V5 V6]]]]]. cbn [oren lren uvalid_under]. rewrite !lroot_lren.
        repeat split; auto.
        + apply ssorted_sren.
        + intros x Hx. apply In_sren in Hx as [f [<- I]]. destruct (V4 f I) as [H|H]; auto.
          right. rewrite <- H. apply (gained_here_oren (ONode a b)).
        + apply (IHa y); auto. intros f I. now apply In_sren_inj.
        + apply (IHb y); auto. intros f I. now apply In_sren_inj.
    Qed.
  End Totals.

  Lemma uvalid_lren S O t : uvalid S O t -> uvalid S (oren g O) (lren g t).
  Proof.
    apply (uvalid_under_lren (ototal O) (ototal (oren g O))); [|intros f []].
    intros f. unfold ototal. apply carriers_oren.
  Qed.

  Lemma uall_sol_lren S extended O t : uall_sol S extended O t -> uall_sol S extended (oren g O) (lren g t).
  Proof.
    intros [V M]. split; [now apply uvalid_lren|]. intros X. now rewrite forget_lren, lca_rec_oren, (M X).
  Qed.
End Ren.

(* round trips of a bijection *)
Lemma oren_oren g h O : (forall x, h (g x) = x) -> oren h (oren g O) = O.
Proof.
  intros H. induction O as [sp syn|a IHa b IHb]; cbn [oren]; [|congruence].
  f_equal. rewrite map_map. rewrite <- (map_id syn) at 2. apply map_ext. auto.
Qed.
Lemma sren_sren g h y : (forall x, g (h x) = x) -> ssorted y -> sren g (sren h y) = y.
Proof.
  intros H Sy. apply ssorted_ext; [apply ssorted_sren|exact Sy|].
  intros x. rewrite In_sren. split.
  - intros [f [<- I]]. apply In_sren in I as [f' [<- I]]. now rewrite H.
  - intros I. exists (h x). split; auto. apply In_sren. eauto.
Qed.
Lemma lren_lren g h t : (forall x, g (h x) = x) -> all_sorted t -> lren g (lren h t) = t.
Proof.
  intros H. induction t as [s y|s y a IHa b IHb]; cbn [all_sorted lsyn lren].
  - intros [Sy _]. now rewrite sren_sren.
  - intros [Sy [Sa Sb]]. now rewrite sren_sren, IHa, IHb.
Qed.

Lemma inv_inj (g h : fam -> fam) : (forall x, h (g x) = x) -> forall x y, g x = g y -> x = y.
Proof. intros H x y E. rewrite <- (H x), <- (H y). now f_equal. Qed.

(** bijective renaming of the families ([g], [h] mutually inverse): a cost-preserving bijection
    between the valid labellings of the two inputs; minimum and optimal set are carried over *)
Theorem uall_sol_lren_iff g h S extended O t : (forall x, h (g x) = x) -> (forall x, g (h x) = x) ->
  all_sorted t -> (uall_sol S extended (oren g O) (lren g t) <-> uall_sol S extended O t).
Proof.
  intros Hhg Hgh St. split; [|apply uall_sol_lren; now apply (inv_inj g h)].
  intros H. apply (uall_sol_lren h (inv_inj h g Hgh)) in H.
  now rewrite (oren_oren g h O Hhg), (lren_lren h g t Hhg St) in H.
Qed.

Theorem uall_sol_lren_onto g h S extended O t' : (forall x, h (g x) = x) -> (forall x, g (h x) = x) ->
  uall_sol S extended (oren g O) t' -> exists t, t' = lren g t /\ uall_sol S extended O t.
Proof.
  intros Hhg Hgh H. exists (lren h t'). pose proof (uvalid_sorted _ _ _ _ _ (proj1 H)) as St. split.
  - now rewrite (lren_lren g h t' Hgh St).
  - apply (uall_sol_lren h (inv_inj h g Hgh)) in H. now rewrite (oren_oren g h O Hhg) in H.
Qed.

Theorem uall_optimal_lren g h S c extended O t : (forall x, h (g x) = x) -> (forall x, g (h x) = x) ->
  uall_optimal S c extended O t -> uall_optimal S c extended (oren g O) (lren g t).
Proof.
  intros Hhg Hgh [V Opt]. pose proof (inv_inj g h Hhg) as Ig. split; [now apply uall_sol_lren|].
  intros t' V'. destruct (uall_sol_lren_onto g h S extended O t' Hhg Hgh V') as [t0 [-> V0]].
  rewrite !(ucost_lren g Ig). now apply Opt.
Qed.

Theorem uall_optimal_lren_back g h S c extended O t' : (forall x, h (g x) = x) -> (forall x, g (h x) = x) ->
  uall_optimal S c extended (oren g O) t' -> exists t, t' = lren g t /\ uall_optimal S c extended O t.
Proof.
  intros Hhg Hgh [V Opt]. pose proof (inv_inj g h Hhg) as Ig.
  destruct (uall_sol_lren_onto g h S extended O t' Hhg Hgh V) as [t0 [-> V0]].
  exists t0. split; auto. split; auto. intros t1 V1.
  specialize (Opt _ (uall_sol_lren g Ig S extended O t1 V1)). now rewrite !(ucost_lren g Ig) in Opt.
Qed.

(* a strictly increasing renaming keeps the sorted representation: no re-sorting needed *)
Lemma sren_mono g y : (forall a b, (a < b)%N -> (g a < g b)%N) -> ssorted y -> sren g y = map g y.
Proof.
  intros Hm Sy. apply ssorted_ext; [apply ssorted_sren| |intros x; unfold sren; apply In_set_of].
  induction y as [|a y IH]; cbn [map ssorted] in *; auto. destruct Sy as [Ha Sy]. split; auto.
  intros x Hx. apply in_map_iff in Hx as [b [<- I]]. auto.
Qed.

(** the same for the canonical solutions the solver enumerates *)
Section RenBij.
  Variables g h : fam -> fam.
  Hypothesis Hhg : forall x, h (g x) = x.
  Hypothesis Hgh : forall x, g (h x) = x.
  Variables total total' : fam -> nat.
  Hypothesis E : forall f, total' (g f) = total f.

  Lemma needed_here_oren o f : needed_here total' (oren g o) (g f) = needed_here total o f.
  Proof.
    pose proof (inv_inj g h Hhg) as Ig.
    unfold needed_here. rewrite (carriers_oren g Ig). f_equal.
    destruct o as [sp syn|a b]; cbn [oren top]; [reflexivity|]. now rewrite !(carriers_oren g Ig), E.
  Qed.
  Lemma bounded_oren o : bounded total o -> bounded total' (oren g o).
  Proof.
    intros B x. rewrite <- (Hgh x), (carriers_oren g (inv_inj g h Hhg)), E. apply B.
  Qed.
  Lemma u_lca_oren o : bounded total o -> u_lca (annotate total' (oren g o)) = sren g (u_lca (annotate total o)).
  Proof.
    intros B. apply ssorted_ext; [apply ssorted_u_lca|apply ssorted_sren|].
    intros x. rewrite (In_u_lca total' _ (bounded_oren o B)), In_sren. split.
    - intros N. exists (h x). split; auto. apply (In_u_lca total o B). now rewrite <- needed_here_oren, Hgh.
    - intros [f [<- I]]. rewrite needed_here_oren. now apply (In_u_lca total o B).
  Qed.
  Lemma u_gain_oren o : u_gain (annotate total' (oren g o)) = sren g (u_gain (annotate total o)).
  Proof.
    pose proof (inv_inj g h Hhg) as Ig.
    apply ssorted_ext; [apply ssorted_u_gain|apply ssorted_sren|].
    intros x. rewrite In_u_gain, In_sren. split.
    - intros N. exists (h x). split; auto. apply In_u_gain.
      now rewrite <- (gained_here_oren g Ig total total' E), Hgh.
    - intros [f [<- I]]. rewrite (gained_here_oren g Ig total total' E). now apply In_u_gain.
  Qed.
  Lemma sren_set_union P Q : sren g (set_union P Q) = set_union (sren g P) (sren g Q).
  Proof.
    apply ssorted_ext; [apply ssorted_sren|apply ssorted_set_union, ssorted_sren|].
    intros x. rewrite In_set_union, !In_sren. split.
    - intros [f [Ef I]]. apply In_set_union in I as [I|I]; [left|right]; eauto.
    - intros [[f [Ef I]]|[f [Ef I]]]; exists f; split; auto; apply In_set_union; auto.
  Qed.

  Lemma ucanon_under_lren : forall o P t, bounded total o -> ucanon_under total P o t ->
    ucanon_under total' (sren g P) (oren g o) (lren g t).
  Proof.
    induction o as [sp syn|a IHa b IHb]; intros P t B C.
    - destruct t as [s y|s y ta tb]; [|destruct C as [_ []]]. destruct C as [C _].
      pose proof (u_lca_oren _ B) as Q1. pose proof (u_gain_oren (OLeaf sp syn)) as Q2. cbn [oren] in Q1, Q2.
      split; [|exact I]. cbn [lren lsyn] in *. rewrite Q1, Q2, <- sren_set_union.
      destruct C as [->| ->]; auto.
    - destruct t as [s y|s y ta tb]; [destruct C as [_ []]|]. destruct C as [C [Ca Cb]].
      pose proof (u_lca_oren _ B) as Q1. pose proof (u_gain_oren (ONode a b)) as Q2. cbn [oren] in Q1, Q2.
      split.
      + cbn [lren lsyn] in *. rewrite Q1, Q2, <- sren_set_union.
        destruct C as [->| ->]; auto.
      + cbn [oren lren]. split; [apply IHa|apply IHb]; auto; [eapply bounded_l|eapply bounded_r]; eauto.
  Qed.
End RenBij.

Lemma usol_lren g h S extended O t : (forall x, h (g x) = x) -> (forall x, g (h x) = x) ->
  usol S extended O t -> usol S extended (oren g O) (lren g t).
Proof.
  intros Hhg Hgh [V [C M]]. pose proof (inv_inj g h Hhg) as Ig. split; [now apply uvalid_lren|]. split.
  - change (@nil fam) with (sren g []).
    apply (ucanon_under_lren g h Hhg Hgh (ototal O)); auto; [|apply ototal_bounded].
    intros f. unfold ototal. now apply carriers_oren.
  - intros X. now rewrite forget_lren, lca_rec_oren, (M X).
Qed.

Theorem usol_lren_onto g h S extended O t' : (forall x, h (g x) = x) -> (forall x, g (h x) = x) ->
  usol S extended (oren g O) t' -> exists t, t' = lren g t /\ usol S extended O t.
Proof.
  intros Hhg Hgh H. exists (lren h t'). pose proof (uvalid_sorted _ _ _ _ _ (proj1 H)) as St. split.
  - now rewrite (lren_lren g h t' Hgh St).
  - apply (usol_lren h g _ _ _ _ Hgh Hhg) in H. now rewrite (oren_oren g h O Hhg) in H.
Qed.

Theorem uoptimal_lren g h S c extended O t : (forall x, h (g x) = x) -> (forall x, g (h x) = x) ->
  uoptimal S c extended O t -> uoptimal S c extended (oren g O) (lren g t).
Proof.
  intros Hhg Hgh [V Opt]. pose proof (inv_inj g h Hhg) as Ig. split; [now apply (usol_lren g h)|].
  intros t' V'. destruct (usol_lren_onto g h S extended O t' Hhg Hgh V') as [t0 [-> V0]].
  rewrite !(ucost_lren g Ig). now apply Opt.
Qed.

Theorem uoptimal_lren_back g h S c extended O t' : (forall x, h (g x) = x) -> (forall x, g (h x) = x) ->
  uoptimal S c extended (oren g O) t' -> exists t, t' = lren g t /\ uoptimal S c extended O t.
Proof.
  intros Hhg Hgh [V Opt]. pose proof (inv_inj g h Hhg) as Ig.
  destruct (usol_lren_onto g h S extended O t' Hhg Hgh V) as [t0 [-> V0]].
  exists t0. split; auto. split; auto. intros t1 V1.
  specialize (Opt _ (usol_lren g h S extended O t1 Hhg Hgh V1)). now rewrite !(ucost_lren g Ig) in Opt.
Qed.

(** * part 5: relabelling the species tree, labelled solutions *)
Fixpoint lmap (g : path -> path) (t : ltree) : ltree :=
  match t with LLeaf s y => LLeaf (g s) y | LNode s y a b => LNode (g s) y (lmap g a) (lmap g b) end.

Lemma lroot_lmap g t : lroot (lmap g t) = g (lroot t). Proof. destruct t; reflexivity. Qed.
Lemma lsyn_lmap g t : lsyn (lmap g t) = lsyn t. Proof. destruct t; reflexivity. Qed.
Lemma forget_lmap g t : forget (lmap g t) = rmap g (forget t).
Proof. induction t as [s y|s y a IHa b IHb]; cbn [lmap forget rmap]; congruence. Qed.
Lemma lmap_id g h t : (forall p, g (h p) = p) -> lmap g (lmap h t) = t.
Proof. intros H. induction t; cbn [lmap]; congruence. Qed.

Lemma carriers_omap g f o : carriers f (omap g o) = carriers f o.
Proof. induction o as [sp syn|a IHa b IHb]; cbn [omap carriers]; congruence. Qed.
Lemma gained_here_omap total g o f : gained_here total (omap g o) f = gained_here total o f.
Proof.
  unfold gained_here. rewrite carriers_omap. f_equal. destruct o; cbn [omap]; auto. now rewrite !carriers_omap.
Qed.
Lemma gained_here_omap_leaf total (g : path -> path) sp syn f :
  gained_here total (OLeaf (g sp) syn) f = gained_here total (OLeaf sp syn) f.
Proof. exact (gained_here_omap total g (OLeaf sp syn) f). Qed.
Lemma gained_here_omap_node total g a b f :
  gained_here total (ONode (omap g a) (omap g b)) f = gained_here total (ONode a b) f.
Proof. exact (gained_here_omap total g (ONode a b) f). Qed.
Lemma families_omap g o : Uspfs.families (omap g o) = Uspfs.families o.
Proof. induction o as [sp syn|a IHa b IHb]; cbn [omap Uspfs.families]; congruence. Qed.
Lemma annot_omap total g o :
  u_lca (annotate total (omap g o)) = u_lca (annotate total o) /\
  u_gain (annotate total (omap g o)) = u_gain (annotate total o).
Proof.
  induction o as [sp syn|a [IHa1 IHa2] b [IHb1 IHb2]].
  - cbn [omap annotate u_lca u_gain]. split; reflexivity.
  - cbn [omap annotate u_lca u_gain]. rewrite IHa1, IHa2, IHb1, IHb2. split; auto.
    change (ONode (omap g a) (omap g b)) with (omap g (ONode a b)).
    rewrite families_omap. apply filter_ext. intros f. apply (gained_here_omap total g (ONode a b) f).
Qed.

Section LIso.
  Variables (S S' : stree) (g g' : path -> path).
  Hypothesis g_anc : forall a b, anc (g a) (g b) = anc a b.
  Hypothesis g_lcp : forall a b, lcp (g a) (g b) = g (lcp a b).
  Hypothesis g_eq : forall a b, path_eqb (g a) (g b) = path_eqb a b.
  Hypothesis g_dist : forall a b, dist (g a) (g b) = dist a b.
  Hypothesis g_valid : forall p, valid_sp S' (g p) = valid_sp S p.
  Hypothesis PP : forall p, g (g' p) = p.
  Hypothesis QQ : forall p, g' (g p) = p.

  Lemma liso_event s l r : event (g s) (g l) (g r) = event s l r.
  Proof. apply iso_event; auto. Qed.
  Lemma liso_event' s l r : event (g' s) (g' l) (g' r) = event s l r.
  Proof. rewrite <- (liso_event (g' s)), !PP. reflexivity. Qed.

  Lemma olab_rec_lmap rs : forall t m, olab_rec rs m (lmap g t) = olab_rec rs m t.
  Proof.
    induction t as [s y|s y a IHa b IHb]; intros m; [reflexivity|].
    cbn [lmap olab_rec]. now rewrite !lroot_lmap, !lsyn_lmap, liso_event, IHa, IHb.
  Qed.
  Lemma ulab_rec_lmap : forall t, ulab_rec (lmap g t) = ulab_rec t.
  Proof.
    induction t as [s y|s y a IHa b IHb]; [reflexivity|].
    cbn [lmap ulab_rec]. now rewrite !lroot_lmap, !lsyn_lmap, liso_event, IHa, IHb.
  Qed.
  Lemma ulab_spec_lmap : forall t, ulab_spec (lmap g t) = ulab_spec t.
  Proof.
    induction t as [s y|s y a IHa b IHb]; [reflexivity|].
    cbn [lmap ulab_spec]. now rewrite !lroot_lmap, !lsyn_lmap, liso_event, IHa, IHb.
  Qed.

  (** the evaluator does not see the relabelling, in either model *)
  Theorem total_cost_lmap c O ordered t : total_cost c (omap g O) ordered (lmap g t) = total_cost c O ordered t.
  Proof.
    unfold total_cost, labeling_cost, ordered_labeling_cost, unordered_labeling_cost.
    rewrite forget_lmap, (iso_cost g g_anc g_lcp g_eq g_dist), lsyn_lmap, olab_rec_lmap, ulab_rec_lmap. reflexivity.
  Qed.
  Theorem cost_of_lmap c O lt : cost_of c (omap g O) (lmap g lt) = cost_of c O lt.
  Proof. unfold cost_of. now rewrite total_cost_lmap. Qed.
  Theorem ucost_lmap c O t : ucost c (omap g O) (lmap g t) = ucost c O t.
  Proof. unfold ucost. now rewrite forget_lmap, (iso_cost g g_anc g_lcp g_eq g_dist), ulab_spec_lmap. Qed.

  Lemma lca_rec_omap O : lca_rec (omap g O) = rmap g (lca_rec O).
  Proof.
    induction O as [sp syn|a IHa b IHb]; cbn [omap lca_rec rmap]; [reflexivity|].
    now rewrite IHa, IHb, !root_rmap, g_lcp.
  Qed.
  Lemma rmap_inj r r' : rmap g r = rmap g r' -> r = r'.
  Proof. intros H. rewrite <- (rmap_id g' g r QQ), <- (rmap_id g' g r' QQ). now f_equal. Qed.

  (* ordered *)
  Lemma valid_lab_lmap O t : valid_lab S O t -> valid_lab S' (omap g O) (lmap g t).
  Proof.
    induction 1 as [sp syn Hs|a b s y la lb Hs He Sa Sb Va IHa Vb IHb]; cbn [omap lmap]; constructor; auto;
      rewrite ?g_valid, ?lroot_lmap, ?lsyn_lmap, ?liso_event; auto.
  Qed.
  Lemma valid_lab_unmap O : forall t', valid_lab S' (omap g O) t' ->
    valid_lab S O (lmap g' t') /\ lmap g (lmap g' t') = t'.
  Proof.
    induction O as [sp syn|a IHa b IHb]; intros t' V;
      inversion V as [? ? Hs|? ? s y la lb Hs He Sa Sb Va Vb]; subst; cbn [lmap].
    - rewrite QQ. split; [|reflexivity]. constructor. now rewrite <- g_valid.
    - destruct (IHa _ Va) as [Wa Ea]. destruct (IHb _ Vb) as [Wb Eb]. split.
      + constructor; auto; rewrite ?lroot_lmap, ?lsyn_lmap, ?liso_event'; auto.
        now rewrite <- g_valid, PP.
      + now rewrite PP, Ea, Eb.
  Qed.

  Lemma sol_lmap extended orders O lt : sol S extended orders O lt -> sol S' extended orders (omap g O) (lmap g lt).
  Proof.
    intros [ord [Io [[V E] M]]]. exists ord. split; auto. split.
    - split; [now apply valid_lab_lmap|now rewrite lsyn_lmap].
    - destruct M as [M|M]; [now left|right]. now rewrite forget_lmap, lca_rec_omap, M.
  Qed.
  Lemma sol_unmap extended orders O lt' : sol S' extended orders (omap g O) lt' ->
    sol S extended orders O (lmap g' lt') /\ lmap g (lmap g' lt') = lt'.
  Proof.
    intros [ord [Io [[V E] M]]]. destruct (valid_lab_unmap O lt' V) as [W R]. split; auto.
    exists ord. split; auto. split.
    - split; auto. now rewrite lsyn_lmap.
    - destruct M as [M|M]; [now left|right]. apply rmap_inj.
      now rewrite <- forget_lmap, R, M, lca_rec_omap.
  Qed.

  Theorem optimal_sol_lmap c extended orders O lt :
    optimal_sol S' c extended orders (omap g O) (lmap g lt) <-> optimal_sol S c extended orders O lt.
  Proof.
    unfold optimal_sol. split; intros [V Opt]; split.
    - destruct (sol_unmap _ _ _ _ V) as [W _]. now rewrite (lmap_id g' g lt QQ) in W.
    - intros lt' V'. specialize (Opt _ (sol_lmap _ _ _ _ V')). now rewrite !cost_of_lmap in Opt.
    - now apply sol_lmap.
    - intros lt' V'. destruct (sol_unmap _ _ _ _ V') as [W R].
      rewrite cost_of_lmap, <- R, cost_of_lmap. now apply Opt.
  Qed.

  (* unordered *)
  Lemma uvalid_under_lmap total : forall o P t, uvalid_under S total P o t -> uvalid_under S' total P (omap g o) (lmap g t).
  Proof.
    induction o as [sp syn|a IHa b IHb]; intros P [s y|s y ta tb] V; cbn [uvalid_under] in V; try contradiction;
      cbn [omap lmap uvalid_under].
    - destruct V as [-> [V2 [V3 V4]]]. split; [reflexivity|]. split; [now rewrite g_valid|]. split; [exact V3|].
      intros f Hf. rewrite gained_here_omap_leaf. auto.
    - destruct V as [V1 [V2 [V3 [V4 [V5 V6]]]]]. rewrite !lroot_lmap, liso_event, g_valid.
      split; [exact V1|]. split; [exact V2|]. split; [exact V3|]. split; [|split; auto].
      intros f Hf. rewrite gained_here_omap_node. auto.
  Qed.
  Lemma uvalid_under_unmap total : forall o P t', uvalid_under S' total P (omap g o) t' ->
    uvalid_under S total P o (lmap g' t') /\ lmap g (lmap g' t') = t'.
  Proof.
    induction o as [sp syn|a IHa b IHb]; intros P [s y|s y ta tb] V; cbn [omap uvalid_under] in V; try contradiction;
      cbn [lmap uvalid_under].
    - destruct V as [-> [V2 [V3 V4]]]. rewrite QQ. split; [|reflexivity].
      split; [reflexivity|]. split; [now rewrite <- g_valid|]. split; [exact V3|].
      intros f Hf. rewrite <- (gained_here_omap_leaf total g). auto.
    - destruct V as [V1 [V2 [V3 [V4 [V5 V6]]]]].
      destruct (IHa _ _ V5) as [Wa Ea]. destruct (IHb _ _ V6) as [Wb Eb].
      rewrite !lroot_lmap, liso_event', PP, Ea, Eb. split; [|reflexivity].
      split; [now rewrite <- g_valid, PP|]. split; [exact V2|]. split; [exact V3|]. split; [|split; auto].
      intros f Hf. rewrite <- (gained_here_omap_node total g). auto.
  Qed.

  Lemma ototal_omap O x : ototal (omap g O) x = ototal O x.
  Proof. unfold ototal. apply carriers_omap. Qed.
  Lemma uvalid_under_total_ext Sx total total' : (forall x, total x = total' x) ->
    forall o P t, uvalid_under Sx total P o t -> uvalid_under Sx total' P o t.
  Proof.
    intros E. assert (forall o f, gained_here total' o f = gained_here total o f) as G.
    { intros o f. unfold gained_here. rewrite E. destruct o; auto. }
    induction o as [sp syn|a IHa b IHb]; intros P [s y|s y ta tb] V; cbn [uvalid_under] in *; try contradiction.
    - destruct V as [V1 [V2 [V3 V4]]]. repeat split; auto. intros f Hf. rewrite G. auto.
    - destruct V as [V1 [V2 [V3 [V4 [V5 V6]]]]]. repeat split; auto. intros f Hf. rewrite G. auto.
  Qed.

  Lemma uvalid_lmap O t : uvalid S O t -> uvalid S' (omap g O) (lmap g t).
  Proof.
    intros V. apply (uvalid_under_total_ext S' (ototal O)); [intros x; symmetry; apply ototal_omap|].
    now apply uvalid_under_lmap.
  Qed.
  Lemma uvalid_unmap O t' : uvalid S' (omap g O) t' -> uvalid S O (lmap g' t') /\ lmap g (lmap g' t') = t'.
  Proof.
    intros V. apply uvalid_under_unmap.
    apply (uvalid_under_total_ext S' (ototal (omap g O))); [apply ototal_omap|exact V].
  Qed.

  Lemma uall_sol_lmap extended O t : uall_sol S extended O t -> uall_sol S' extended (omap g O) (lmap g t).
  Proof.
    intros [V M]. split; [now apply uvalid_lmap|]. intros X. now rewrite forget_lmap, lca_rec_omap, (M X).
  Qed.
  Lemma uall_sol_unmap extended O t' : uall_sol S' extended (omap g O) t' ->
    uall_sol S extended O (lmap g' t') /\ lmap g (lmap g' t') = t'.
  Proof.
    intros [V M]. destruct (uvalid_unmap O t' V) as [W R]. split; auto. split; auto.
    intros X. apply rmap_inj. now rewrite <- forget_lmap, R, (M X), lca_rec_omap.
  Qed.

  Theorem uall_optimal_lmap c extended O t :
    uall_optimal S' c extended (omap g O) (lmap g t) <-> uall_optimal S c extended O t.
  Proof.
    unfold uall_optimal. split; intros [V Opt]; split.
    - destruct (uall_sol_unmap _ _ _ V) as [W _]. now rewrite (lmap_id g' g t QQ) in W.
    - intros t' V'. specialize (Opt _ (uall_sol_lmap _ _ _ V')). now rewrite !ucost_lmap in Opt.
    - now apply uall_sol_lmap.
    - intros t' V'. destruct (uall_sol_unmap _ _ _ V') as [W R].
      rewrite ucost_lmap, <- R, ucost_lmap. now apply Opt.
  Qed.

  Lemma ucanon_under_total_ext total total' : (forall x, total x = total' x) ->
    forall o P t, ucanon_under total P o t -> ucanon_under total' P o t.
  Proof.
    intros E.
    assert (forall o, annotate total' o = annotate total o) as A.
    { assert (forall o f, gained_here total' o f = gained_here total o f) as G.
      { intros o f. unfold gained_here. rewrite E. destruct o; auto. }
      induction o as [sp syn|a IHa b IHb]; cbn [annotate].
      - f_equal. apply filter_ext. intros f. apply G.
      - rewrite IHa, IHb. f_equal. apply filter_ext. intros f. apply G. }
    induction o as [sp syn|a IHa b IHb]; intros P [s y|s y ta tb] [C C']; try contradiction;
      (split; [rewrite A; exact C|]); auto.
    destruct C' as [Ca Cb]. split; auto.
  Qed.
  Lemma ucanon_under_lmap total : forall o P t, ucanon_under total P o t <-> ucanon_under total P (omap g o) (lmap g t).
  Proof.
    induction o as [sp syn|a IHa b IHb]; intros P t.
    - destruct (annot_omap total g (OLeaf sp syn)) as [Q1 Q2]. cbn [omap] in *.
      destruct t as [s y|s y ta tb]; cbn [lmap]; (split; intros [C C']; split); cbn [lsyn] in *; try contradiction.
      + rewrite Q1, Q2. exact C.
      + exact I.
      + rewrite <- Q1, <- Q2. exact C.
      + exact I.
    - destruct (annot_omap total g (ONode a b)) as [Q1 Q2]. cbn [omap] in *.
      destruct t as [s y|s y ta tb]; cbn [lmap]; (split; intros [C C']; split); cbn [lsyn] in *; try contradiction.
      + rewrite Q1, Q2. exact C.
      + destruct C' as [Ca Cb]. split; [now apply IHa|now apply IHb].
      + rewrite <- Q1, <- Q2. exact C.
      + destruct C' as [Ca Cb]. split; [now apply IHa|now apply IHb].
  Qed.

  Lemma usol_lmap extended O t : usol S extended O t -> usol S' extended (omap g O) (lmap g t).
  Proof.
    intros [V [C M]]. split; [now apply uvalid_lmap|]. split.
    - apply (ucanon_under_total_ext (ototal O)); [intros x; symmetry; apply ototal_omap|].
      apply (proj1 (ucanon_under_lmap _ _ _ _)). exact C.
    - intros X. now rewrite forget_lmap, lca_rec_omap, (M X).
  Qed.
  Lemma usol_unmap extended O t' : usol S' extended (omap g O) t' ->
    usol S extended O (lmap g' t') /\ lmap g (lmap g' t') = t'.
  Proof.
    intros [V [C M]]. destruct (uvalid_unmap O t' V) as [W R]. split; auto. split; auto. split.
    - apply (ucanon_under_total_ext (ototal (omap g O)) (ototal O)) in C; [|apply ototal_omap].
      rewrite <- R in C. exact (proj2 (ucanon_under_lmap _ _ _ _) C).
    - intros X. apply rmap_inj. now rewrite <- forget_lmap, R, (M X), lca_rec_omap.
  Qed.

  Theorem uoptimal_lmap c extended O t :
    uoptimal S' c extended (omap g O) (lmap g t) <-> uoptimal S c extended O t.
  Proof.
    unfold uoptimal. split; intros [V Opt]; split.
    - destruct (usol_unmap _ _ _ V) as [W _]. now rewrite (lmap_id g' g t QQ) in W.
    - intros t' V'. specialize (Opt _ (usol_lmap _ _ _ V')). now rewrite !ucost_lmap in Opt.
    - now apply usol_lmap.
    - intros t' V'. destruct (usol_unmap _ _ _ V') as [W R].
      rewrite ucost_lmap, <- R, ucost_lmap. now apply Opt.
  Qed.
End LIso.

(** exchanging the children of any set [f] of species-tree nodes: labelled solvers *)
Section LSFlip.
  Variable f : path -> bool.
  Notation phi := (MetaProofs.phi f).
  Notation psi := (MetaProofs.psi f).

  Theorem total_cost_swap_species c O ordered t :
    total_cost c (omap phi O) ordered (lmap phi t) = total_cost c O ordered t.
  Proof.
    apply total_cost_lmap; intros; unfold MetaProofs.phi;
      [apply pflip_anc|apply pflip_lcp|apply pflip_eq|apply pflip_dist].
  Qed.

  Theorem optimal_sol_swap_species S c extended orders O lt :
    optimal_sol (sflip f [] S) c extended orders (omap phi O) (lmap phi lt) <-> optimal_sol S c extended orders O lt.
  Proof.
    apply (optimal_sol_lmap S (sflip f [] S) phi psi); intros; unfold MetaProofs.phi, MetaProofs.psi;
      [apply pflip_anc|apply pflip_lcp|apply pflip_eq|apply pflip_dist|apply sflip_valid|apply pflip_punflip|apply punflip_pflip].
  Qed.
  Theorem uall_optimal_swap_species S c extended O t :
    uall_optimal (sflip f [] S) c extended (omap phi O) (lmap phi t) <-> uall_optimal S c extended O t.
  Proof.
    apply (uall_optimal_lmap S (sflip f [] S) phi psi); intros; unfold MetaProofs.phi, MetaProofs.psi;
      [apply pflip_anc|apply pflip_lcp|apply pflip_eq|apply pflip_dist|apply sflip_valid|apply pflip_punflip|apply punflip_pflip].
  Qed.
  Theorem uoptimal_swap_species S c extended O t :
    uoptimal (sflip f [] S) c extended (omap phi O) (lmap phi t) <-> uoptimal S c extended O t.
  Proof.
    apply (uoptimal_lmap S (sflip f [] S) phi psi); intros; unfold MetaProofs.phi, MetaProofs.psi;
      [apply pflip_anc|apply pflip_lcp|apply pflip_eq|apply pflip_dist|apply sflip_valid|apply pflip_punflip|apply punflip_pflip].
  Qed.
End LSFlip.

(** * part 6: the outgroup, labelled solutions *)

(* pushing a labelled tree down from the new root: a generic labelling charge [K] per node
   that a speciation pays at most [d] more than a duplication *)
Section LOut.
  Variable K : ev -> list fam -> list fam -> list fam -> Z.
  Variable d : Z.
  Hypothesis HK : forall y la lb, K Spe y la lb <= K Dup y la lb + d.
  Variable c : costs.
  Hypothesis Hf : 0 <= c_floss c.
  Hypothesis Hs : 0 <= c_sloss c.
  Hypothesis Hcoh : c_spe c + d * c_sloss c <= c_dup c + 2 * c_floss c.

  Fixpoint Kspec (t : ltree) : Z :=
    match t with
    | LLeaf _ _ => 0
    | LNode s y a b => K (event s (lroot a) (lroot b)) y (lsyn a) (lsyn b) + Kspec a + Kspec b
    end.
  Definition lcost (O : otree) (t : ltree) : ext := ext_add (cost c O (forget t)) (Fin (c_sloss c * Kspec t)).

  (* charge of one node, labelling included *)
  Definition ncost (s l r : path) (y la lb : list fam) : ext :=
    ext_add (ecost c s l r) (Fin (c_sloss c * K (event s l r) y la lb)).

  Lemma lcost_node oa ob s y a b : event s (lroot a) (lroot b) <> Inv ->
    lcost (ONode oa ob) (LNode s y a b) =
    ext_add (ncost s (lroot a) (lroot b) y (lsyn a) (lsyn b)) (ext_add (lcost oa a) (lcost ob b)).
  Proof.
    intros E. unfold lcost, ncost. cbn [forget Kspec]. rewrite cost_node_valid by (now rewrite !lroot_forget).
    rewrite !lroot_forget.
    destruct (ecost c s (lroot a) (lroot b)), (cost c oa (forget a)), (cost c ob (forget b)); cbn [ext_add]; auto.
    f_equal. lia.
  Qed.

  Lemma Kspec_lmap_eq g : (forall s l r, event (g s) (g l) (g r) = event s l r) -> forall t, Kspec (lmap g t) = Kspec t.
  Proof.
    intros H. induction t as [s y|s y a IHa b IHb]; [reflexivity|].
    cbn [lmap Kspec]. now rewrite !lroot_lmap, !lsyn_lmap, H, IHa, IHb.
  Qed.

  Lemma lpush_node s l r y la lb : good s -> good l -> good r -> event s l r <> Inv ->
    event (rho s) (rho l) (rho r) <> Inv /\ ele (ncost (rho s) (rho l) (rho r) y la lb) (ncost s l r y la lb).
  Proof.
    intros Gs Gl Gr Ev. destruct Gs as [->|[q ->]].
    - assert (event [] l r = Dup) as ED.
      { pose proof (event_exhaustive [] l r) as X. destruct (event [] l r) eqn:E; try congruence.
        - exfalso. destruct X as [_ [_ [L [N1 N2]]]].
          destruct Gl as [->|[ql ->]]; [discriminate|]. destruct Gr as [->|[qr ->]]; [destruct ql; discriminate|].
          discriminate.
        - destruct X as [_ [X _]]. destruct l; discriminate.
        - destruct X as [_ [X _]]. destruct r; discriminate. }
      assert (anc [false] (rho l) = true) as Al by now apply rho_good.
      assert (anc [false] (rho r) = true) as Ar by now apply rho_good.
      split; [now apply event_anc_both|].
      unfold ncost at 2. unfold ecost. rewrite ED. cbn [rho].
      assert (dist [false] (rho l) <= len l /\ dist [false] (rho r) <= len r /\
              (l <> [] -> dist [false] (rho l) = len l - 1) /\ (r <> [] -> dist [false] (rho r) = len r - 1)) as [Dl [Dr [Dl' Dr']]].
      { rewrite (dist_anc _ _ Al), (dist_anc _ _ Ar).
        destruct Gl as [->|[ql ->]], Gr as [->|[qr ->]]; unfold len; cbn [rho length]; rewrite ?Nat2Z.inj_succ;
          repeat split; intros; try congruence; lia. }
      rewrite !dist_nil. unfold ncost, ecost.
      pose proof (event_exhaustive [false] (rho l) (rho r)) as X.
      destruct (event [false] (rho l) (rho r)) eqn:E2.
      + destruct X as [_ [_ [L [N1 N2]]]].
        assert (l <> []) as Nl.
        { intros ->. cbn [rho] in N1. congruence. }
        assert (r <> []) as Nr.
        { intros ->. cbn [rho] in N2. congruence. }
        rewrite (Dl' Nl), (Dr' Nr). cbn [ext_add]. apply ele_Fin. specialize (HK y la lb). nia.
      + cbn [ext_add]. apply ele_Fin. nia.
      + destruct X as [_ [X _]]. congruence.
      + destruct X as [_ [X _]]. congruence.
      + exfalso. apply (event_anc_both [false] (rho l) (rho r)); auto.
    - destruct (push_node_same q l r Ev) as [-> ->]. cbn [rho]. split; [exact Ev|apply ele_refl].
  Qed.

  Lemma lpush_node_strict l r y la lb : 0 < c_floss c -> good l -> good r -> event [] l r <> Inv -> l <> [] \/ r <> [] ->
    elt (ncost [false] (rho l) (rho r) y la lb) (ncost [] l r y la lb).
  Proof.
    intros Hf' Gl Gr Ev NE.
    assert (event [] l r = Dup) as ED.
    { pose proof (event_exhaustive [] l r) as X. destruct (event [] l r) eqn:E; try congruence.
      - exfalso. destruct X as [_ [_ [L [N1 N2]]]].
        destruct Gl as [->|[ql ->]]; [discriminate|]. destruct Gr as [->|[qr ->]]; [destruct ql; discriminate|].
        discriminate.
      - destruct X as [_ [X _]]. destruct l; discriminate.
      - destruct X as [_ [X _]]. destruct r; discriminate. }
    assert (anc [false] (rho l) = true) as Al by now apply rho_good.
    assert (anc [false] (rho r) = true) as Ar by now apply rho_good.
    unfold ncost at 2. unfold ecost. rewrite ED.
    assert (dist [false] (rho l) <= len l /\ dist [false] (rho r) <= len r /\
            (l <> [] -> dist [false] (rho l) = len l - 1) /\ (r <> [] -> dist [false] (rho r) = len r - 1)) as [Dl [Dr [Dl' Dr']]].
    { rewrite (dist_anc _ _ Al), (dist_anc _ _ Ar).
      destruct Gl as [->|[ql ->]], Gr as [->|[qr ->]]; unfold len; cbn [rho length]; rewrite ?Nat2Z.inj_succ;
        repeat split; intros; try congruence; lia. }
    rewrite !dist_nil. unfold ncost, ecost.
    pose proof (event_exhaustive [false] (rho l) (rho r)) as X.
    destruct (event [false] (rho l) (rho r)) eqn:E2.
    - destruct X as [_ [_ [L [N1 N2]]]].
      assert (l <> []) as Nl.
      { intros ->. cbn [rho] in N1. congruence. }
      assert (r <> []) as Nr.
      { intros ->. cbn [rho] in N2. congruence. }
      rewrite (Dl' Nl), (Dr' Nr). cbn [ext_add]. apply elt_Fin. specialize (HK y la lb). nia.
    - cbn [ext_add]. apply elt_Fin. destruct NE as [Nl|Nr]; [rewrite (Dl' Nl)|rewrite (Dr' Nr)]; nia.
    - destruct X as [_ [X _]]. congruence.
    - destruct X as [_ [X _]]. congruence.
    - exfalso. apply (event_anc_both [false] (rho l) (rho r)); auto.
  Qed.

  Lemma lpush_cost S O : forall t, valid_rec (S_out S) (omap og O) (forget t) ->
    ele (lcost (omap og O) (lmap rho t)) (lcost (omap og O) t).
  Proof.
    induction O as [sp syn|a IHa b IHb]; intros [s y|s y ta tb] V; cbn [forget] in V;
      inversion V as [? ? Hs'|? ? s' ra rb Hs' He Va Vb]; subst.
    - cbn [lmap omap og rho]. apply ele_refl.
    - destruct (valid_allgood S _ _ Va) as [_ Gl]. destruct (valid_allgood S _ _ Vb) as [_ Gr].
      destruct (valid_allgood S _ _ V) as [_ Gs]. cbn [root] in Gs. rewrite !lroot_forget in *.
      destruct (lpush_node s (lroot ta) (lroot tb) y (lsyn ta) (lsyn tb) Gs Gl Gr He) as [Ev Le].
      cbn [omap lmap]. rewrite (lcost_node _ _ _ _ _ _ He).
      rewrite lcost_node by (now rewrite !lroot_lmap). rewrite !lroot_lmap, !lsyn_lmap.
      apply ext_add_mono; [exact Le|apply ext_add_mono; auto].
  Qed.

  Lemma nn_lcost O t : nn (c_hgt c) -> nn (lcost O t).
  Proof. intros Hh. unfold lcost. apply nn_add; [now apply cost_nn|apply nn_Fin]. Qed.
  Lemma nn_ncost s l r y la lb : nn (c_hgt c) -> nn (ncost s l r y la lb).
  Proof. intros Hh. unfold ncost. apply nn_add; [now apply nn_ecost|apply nn_Fin]. Qed.

  Lemma lpush_strict S O : nn (c_hgt c) -> 0 < c_floss c ->
    forall t, valid_rec (S_out S) (omap og O) (forget t) -> touches (forget t) -> lcost (omap og O) t <> PInf ->
    elt (lcost (omap og O) (lmap rho t)) (lcost (omap og O) t).
  Proof.
    intros Hh Hf'. induction O as [sp syn|a IHa b IHb]; intros [s y|s y ta tb] V T NE; cbn [forget] in V, T;
      inversion V as [? ? Hs'|? ? s' ra rb Hs' He Va Vb]; subst.
    - simpl in T. discriminate.
    - pose proof (lpush_cost S a _ Va) as La. pose proof (lpush_cost S b _ Vb) as Lb.
      destruct (valid_allgood S _ _ Va) as [_ Gl]. destruct (valid_allgood S _ _ Vb) as [_ Gr].
      destruct (valid_allgood S _ _ V) as [_ Gs]. cbn [root] in Gs. rewrite !lroot_forget in *.
      destruct (lpush_node s (lroot ta) (lroot tb) y (lsyn ta) (lsyn tb) Gs Gl Gr He) as [Ev Le].
      cbn [omap lmap] in *. rewrite (lcost_node _ _ _ _ _ _ He) in NE |- *.
      rewrite lcost_node by (now rewrite !lroot_lmap). rewrite !lroot_lmap, !lsyn_lmap.
      pose proof (nn_ncost s (lroot ta) (lroot tb) y (lsyn ta) (lsyn tb) Hh) as Nx.
      pose proof (nn_lcost (omap og a) ta Hh) as Nxa. pose proof (nn_lcost (omap og b) tb Hh) as Nxb.
      destruct (ncost s (lroot ta) (lroot tb) y (lsyn ta) (lsyn tb)) as [|x|] eqn:Ex; [exfalso; now apply Nx| |];
        try (exfalso; apply NE; destruct (lcost (omap og a) ta), (lcost (omap og b) tb); reflexivity).
      destruct (lcost (omap og a) ta) as [|xa|] eqn:Ea; [exfalso; now apply Nxa| |];
        try (exfalso; apply NE; destruct (lcost (omap og b) tb); reflexivity).
      destruct (lcost (omap og b) tb) as [|xb|] eqn:Eb; [exfalso; now apply Nxb| |]; try (exfalso; apply NE; reflexivity).
      clear NE.
      assert (lcost (omap og a) ta <> PInf) as NEa by (rewrite Ea; discriminate).
      assert (lcost (omap og b) tb <> PInf) as NEb by (rewrite Eb; discriminate).
      destruct Gs as [->|[q ->]].
      + destruct (lroot ta) as [|xl l'] eqn:Rl.
        * destruct (lroot tb) as [|xr r'] eqn:Rr.
          -- assert (touches (forget ta)) as Ta by (apply root_touches; now rewrite lroot_forget).
             pose proof (IHa _ Va Ta NEa) as Sa. try rewrite Ea in Sa.
             eapply ext_add_lt_r; [exact Le| |reflexivity].
             eapply ext_add_lt_l; [exact Sa|exact Lb|reflexivity].
          -- eapply ext_add_lt_l; [| |reflexivity].
             ++ rewrite <- Ex. apply lpush_node_strict; auto. right. discriminate.
             ++ apply ext_add_mono; assumption.
        * eapply ext_add_lt_l; [| |reflexivity].
          -- rewrite <- Ex. apply lpush_node_strict; auto. left. discriminate.
          -- apply ext_add_mono; assumption.
      + destruct T as [T|[T|T]]; [discriminate| |].
        * pose proof (IHa _ Va T NEa) as Sa. try rewrite Ea in Sa.
          eapply ext_add_lt_r; [exact Le| |reflexivity].
          eapply ext_add_lt_l; [exact Sa|exact Lb|reflexivity].
        * pose proof (IHb _ Vb T NEb) as Sb. try rewrite Eb in Sb.
          eapply ext_add_lt_r; [exact Le| |reflexivity].
          eapply ext_add_lt_r; [exact La|exact Sb|reflexivity].
  Qed.
End LOut.

(** ** the two labelling charges as instances *)
Lemma olab_spec_Kspec t : olab_spec t = Kspec olab_node_spec t.
Proof. induction t as [s y|s y a IHa b IHb]; cbn [olab_spec Kspec]; congruence. Qed.
Lemma ulab_spec_Kspec t : ulab_spec t = Kspec ulab_node_spec t.
Proof. induction t as [s y|s y a IHa b IHb]; cbn [ulab_spec Kspec]; congruence. Qed.

Lemma lost_runs_edges C P : lost_runs true C P <= lost_runs false C P + 2.
Proof. unfold lost_runs. pose proof (runs_inner_bounds (lflags C P)). lia. Qed.
Lemma olab_node_spec_gap y la lb : olab_node_spec Spe y la lb <= olab_node_spec Dup y la lb + 2.
Proof.
  unfold olab_node_spec. pose proof (lost_runs_edges la y). pose proof (lost_runs_edges lb y). lia.
Qed.
Lemma ulab_node_spec_gap y la lb : ulab_node_spec Spe y la lb <= ulab_node_spec Dup y la lb + 1.
Proof. unfold ulab_node_spec. pose proof (lossy_01 y la). pose proof (lossy_01 y lb). lia. Qed.

Lemma ucost_lcost c O t : ucost c O t = lcost ulab_node_spec c O t.
Proof. unfold ucost, lcost. now rewrite ulab_spec_Kspec. Qed.

(** ** embedding the solutions of the original input *)
Lemma og_valid_sp S p : valid_sp (S_out S) (og p) = valid_sp S p. Proof. reflexivity. Qed.

Lemma total_cost_og c O ordered t : total_cost c (omap og O) ordered (lmap og t) = total_cost c O ordered t.
Proof. apply total_cost_lmap; [exact og_anc|exact og_lcp|exact og_eq|exact og_dist]. Qed.
Lemma cost_of_og c O lt : cost_of c (omap og O) (lmap og lt) = cost_of c O lt.
Proof. unfold cost_of. now rewrite total_cost_og. Qed.
Lemma ucost_og c O t : ucost c (omap og O) (lmap og t) = ucost c O t.
Proof. apply ucost_lmap; [exact og_anc|exact og_lcp|exact og_eq|exact og_dist]. Qed.
Lemma sol_og S extended orders O lt : sol S extended orders O lt -> sol (S_out S) extended orders (omap og O) (lmap og lt).
Proof. apply sol_lmap; [exact og_anc|exact og_lcp|exact og_eq|apply og_valid_sp]. Qed.
Lemma uall_sol_og S extended O t : uall_sol S extended O t -> uall_sol (S_out S) extended (omap og O) (lmap og t).
Proof. apply uall_sol_lmap; [exact og_anc|exact og_lcp|exact og_eq|apply og_valid_sp]. Qed.
Lemma usol_og S extended O t : usol S extended O t -> usol (S_out S) extended (omap og O) (lmap og t).
Proof. apply usol_lmap; [exact og_anc|exact og_lcp|exact og_eq|apply og_valid_sp]. Qed.
Lemma lca_rec_og O : lca_rec (omap og O) = rmap og (lca_rec O).
Proof. apply lca_rec_omap. exact og_lcp. Qed.

Lemma rmap_og_inj r r' : rmap og r = rmap og r' -> r = r'.
Proof.
  intros H. assert (forall p, tl (og p) = p) as Q by reflexivity.
  rewrite <- (rmap_id (@tl bool) og r Q), <- (rmap_id (@tl bool) og r' Q). now f_equal.
Qed.
Lemma rmap_rho_og r : rmap rho (rmap og r) = rmap og r.
Proof. induction r as [s|s a IHa b IHb]; cbn [rmap]; [reflexivity|]. now rewrite IHa, IHb. Qed.
Lemma lmap_rho_og t : lmap rho (lmap og t) = lmap og t.
Proof. induction t as [s y|s y a IHa b IHb]; cbn [lmap]; [reflexivity|]. now rewrite IHa, IHb. Qed.

(** ** pushing down keeps validity *)
Lemma rho_event s l r : good s -> good l -> good r -> event s l r <> Inv -> event (rho s) (rho l) (rho r) <> Inv.
Proof.
  intros Gs Gl Gr E.
  refine (proj1 (push_node {| c_spe := 0; c_dup := 0; c_hgt := Fin 0; c_floss := 0; c_sloss := 0 |} s l r _ _ Gs Gl Gr E)).
  - simpl. lia.
  - unfold coherent. simpl. lia.
Qed.
Lemma rho_valid_sp S s : good s -> valid_sp (S_out S) s = true -> valid_sp (S_out S) (rho s) = true.
Proof. intros [->|[q ->]] H; [unfold rho, S_out; simpl; destruct S; reflexivity|exact H]. Qed.

Lemma valid_lab_good S O t : valid_lab (S_out S) (omap og O) t -> good (lroot t) /\ allgood (forget t).
Proof.
  intros V. apply valid_lab_rec in V. destruct (valid_allgood S _ _ V) as [A G]. now rewrite lroot_forget in G.
Qed.

Lemma valid_lab_push S O : forall t, valid_lab (S_out S) (omap og O) t -> valid_lab (S_out S) (omap og O) (lmap rho t).
Proof.
  induction O as [sp syn|a IHa b IHb]; intros t V; inversion V as [? ? Hs|? ? s y la lb Hs He Sa Sb Va Vb]; subst.
  - exact V.
  - destruct (valid_lab_good S _ _ Va) as [Gl _]. destruct (valid_lab_good S _ _ Vb) as [Gr _].
    destruct (valid_lab_good S (ONode a b) _ V) as [Gs _]. cbn [lroot] in Gs.
    cbn [lmap omap]. constructor; auto; rewrite ?lroot_lmap, ?lsyn_lmap; auto.
    + now apply rho_valid_sp.
    + now apply rho_event.
Qed.

(* a labelled tree living inside the old tree comes from one of the original input *)
Lemma strip_valid_lab S O : forall t, valid_lab (S_out S) (omap og O) t -> inside (forget t) ->
  exists t0, valid_lab S O t0 /\ lmap og t0 = t.
Proof.
  induction O as [sp syn|a IHa b IHb]; intros t V I; inversion V as [? ? Hs|? ? s y la lb Hs He Sa Sb Va Vb]; subst.
  - exists (LLeaf sp syn). split; [constructor; exact Hs|reflexivity].
  - cbn [forget inside] in I. destruct I as [[q ->] [Ia Ib]].
    destruct (IHa _ Va Ia) as [a0 [Wa Ea]]. destruct (IHb _ Vb Ib) as [b0 [Wb Eb]].
    exists (LNode q y a0 b0). split; [|cbn [lmap]; now rewrite Ea, Eb].
    rewrite <- Ea, <- Eb, !lroot_lmap, ?lsyn_lmap in *. change (false :: q) with (og q) in He.
    rewrite og_event in He. constructor; auto.
Qed.

(** ** ordered solutions *)
Lemma leaves_ord_og S ord O : leaves_ord (S_out S) ord (omap og O) <-> leaves_ord S ord O.
Proof. induction O as [sp syn|a IHa b IHb]; cbn [omap leaves_ord]; [reflexivity|]. now rewrite IHa, IHb. Qed.
Lemma orders_ok_og S O orders : orders_ok S O orders -> orders_ok (S_out S) (omap og O) orders.
Proof. intros H ord Io. destruct (H ord Io) as [ND L]. split; auto. now apply leaves_ord_og. Qed.

Lemma cost_of_lcost c S ord O t : NoDup ord -> leaves_ord S ord O -> valid_ordered S ord O t ->
  cost_of c O t = lcost olab_node_spec c O t.
Proof. intros ND L V. rewrite (cost_of_recount c S ord O t ND L V). unfold lcost. now rewrite olab_spec_Kspec. Qed.

Section OrdOut.
  Variables (S : stree) (c : costs) (extended : bool) (orders : list (list fam)) (O : otree).
  Hypothesis Hc : coherent_ord c.
  Hypothesis HO : orders_ok S O orders.

  Lemma sol_push lt' : sol (S_out S) extended orders (omap og O) lt' ->
    sol (S_out S) extended orders (omap og O) (lmap rho lt') /\
    ele (cost_of c (omap og O) (lmap rho lt')) (cost_of c (omap og O) lt').
  Proof.
    intros [ord [Io [[V E] M]]]. destruct (HO ord Io) as [ND L]. apply leaves_ord_og in L.
    assert (valid_ordered (S_out S) ord (omap og O) (lmap rho lt')) as V'.
    { split; [now apply valid_lab_push|now rewrite lsyn_lmap]. }
    split.
    - exists ord. split; auto. split; auto.
      destruct M as [M|M]; [now left|right]. now rewrite forget_lmap, M, lca_rec_og, rmap_rho_og.
    - rewrite (cost_of_lcost c _ ord _ _ ND L V'), (cost_of_lcost c _ ord _ _ ND L (conj V E)).
      destruct Hc as [H1 [H2 H3]].
      apply (lpush_cost olab_node_spec 2 olab_node_spec_gap c H2 H3 H1 S O). now apply valid_lab_rec.
  Qed.

  Lemma sol_strip lt' : sol (S_out S) extended orders (omap og O) lt' -> inside (forget lt') ->
    exists lt, lt' = lmap og lt /\ sol S extended orders O lt.
  Proof.
    intros [ord [Io [[V E] M]]] I. destruct (strip_valid_lab S O lt' V I) as [t0 [W R]].
    exists t0. split; auto. exists ord. split; auto. split.
    - split; auto. now rewrite <- R, lsyn_lmap in E.
    - destruct M as [M|M]; [now left|right]. apply rmap_og_inj. now rewrite <- forget_lmap, R, M, lca_rec_og.
  Qed.

  (** every solution of the enlarged input is matched by one of the original input that costs no more *)
  Theorem sol_outgroup_no_gain lt' : sol (S_out S) extended orders (omap og O) lt' ->
    exists lt, sol S extended orders O lt /\ ele (cost_of c O lt) (cost_of c (omap og O) lt').
  Proof.
    intros H. destruct (sol_push lt' H) as [H' Le].
    assert (inside (forget (lmap rho lt'))) as I.
    { rewrite forget_lmap. apply rho_inside. destruct H as [ord [_ [[V _] _]]]. now apply (valid_lab_good S O). }
    destruct (sol_strip _ H' I) as [lt [R Slt]]. exists lt. split; auto.
    now rewrite <- (cost_of_og c O lt), <- R.
  Qed.

  (** adding an outgroup keeps the minimum: an optimal solution stays optimal, with the same cost *)
  Theorem optimal_sol_outgroup lt : optimal_sol S c extended orders O lt ->
    optimal_sol (S_out S) c extended orders (omap og O) (lmap og lt) /\
    cost_of c (omap og O) (lmap og lt) = cost_of c O lt.
  Proof.
    intros [V Opt]. split; [|apply cost_of_og]. split; [now apply sol_og|].
    intros lt' V'. destruct (sol_outgroup_no_gain lt' V') as [lt0 [V0 Le]].
    rewrite cost_of_og. eapply ele_trans; [apply Opt; exact V0|exact Le].
  Qed.

  Theorem optimal_sol_outgroup_back lt : optimal_sol (S_out S) c extended orders (omap og O) (lmap og lt) ->
    sol S extended orders O lt -> optimal_sol S c extended orders O lt.
  Proof.
    intros [_ Opt] V. split; auto. intros lt' V'. specialize (Opt _ (sol_og S extended orders O lt' V')).
    now rewrite !cost_of_og in Opt.
  Qed.
End OrdOut.

(** ** a solution of finite cost: the LCA mapping under the same labels *)
Fixpoint lca_relab (t : ltree) : ltree :=
  match t with
  | LLeaf s y => LLeaf s y
  | LNode s y a b =>
      let a' := lca_relab a in let b' := lca_relab b in LNode (lcp (lroot a') (lroot b')) y a' b'
  end.
Lemma lsyn_lca_relab t : lsyn (lca_relab t) = lsyn t. Proof. destruct t; reflexivity. Qed.
Lemma forget_lca_relab S O t : valid_lab S O t -> forget (lca_relab t) = lca_rec O.
Proof.
  induction 1 as [sp syn Hs|a b s y la lb Hs He Sa Sb Va IHa Vb IHb]; [reflexivity|].
  cbn [lca_relab forget lca_rec]. now rewrite <- IHa, <- IHb, !lroot_forget.
Qed.
Lemma valid_lab_lca_relab S O t : valid_lab S O t -> valid_lab S O (lca_relab t).
Proof.
  induction 1 as [sp syn Hs|a b s y la lb Hs He Sa Sb Va IHa Vb IHb]; [now constructor|].
  cbn [lca_relab]. constructor; auto; rewrite ?lsyn_lca_relab; auto.
  - apply (valid_sp_prefix S _ (lroot (lca_relab la))); [apply lcp_prefix_l|].
    rewrite <- lroot_forget. eapply valid_rec_root_valid. apply valid_lab_rec. exact IHa.
  - destruct (event_at_lcp (lroot (lca_relab la)) (lroot (lca_relab lb))) as [E|E]; rewrite E; discriminate.
Qed.

Lemma sol_finite S c extended orders O lt : orders_ok S O orders -> sol S extended orders O lt ->
  exists lt2 z, sol S extended orders O lt2 /\ cost_of c O lt2 = Fin z.
Proof.
  intros HO [ord [Io [[V E] M]]]. destruct (HO ord Io) as [ND L].
  assert (valid_ordered S ord O (lca_relab lt)) as V2.
  { split; [now apply valid_lab_lca_relab|now rewrite lsyn_lca_relab]. }
  exists (lca_relab lt). eexists. split.
  - exists ord. split; auto. split; auto. right. now apply (forget_lca_relab S).
  - rewrite (cost_of_recount c S ord O _ ND L V2), (forget_lca_relab S O lt V).
    destruct (lca_valid S O (leaves_ord_ok S ord O L)) as [VL NT].
    rewrite (cost_costDL c S O _ VL NT). reflexivity.
Qed.

Lemma optimal_sol_finite S c extended orders O lt : orders_ok S O orders ->
  optimal_sol S c extended orders O lt -> cost_of c O lt <> PInf.
Proof.
  intros HO [V Opt] E. destruct (sol_finite S c extended orders O lt HO V) as [lt2 [z [V2 E2]]].
  specialize (Opt _ V2). rewrite E, E2 in Opt. discriminate.
Qed.

(** with [0 < c_floss c] no optimal solution of the enlarged input uses the new root: the optimal
    set of the ordered solvers is exactly the image of the original one *)
Theorem optimal_sol_outgroup_set S c extended orders O lt' :
  nn (c_hgt c) -> 0 < c_floss c -> coherent_ord c -> orders_ok S O orders ->
  optimal_sol (S_out S) c extended orders (omap og O) lt' ->
  exists lt, lt' = lmap og lt /\ optimal_sol S c extended orders O lt.
Proof.
  intros Hh Hf Hc HO Opt. pose proof (orders_ok_og S O orders HO) as HO'.
  pose proof (optimal_sol_finite _ _ _ _ _ _ HO' Opt) as NE. pose proof Opt as [Slt' Min].
  pose proof Slt' as [ord [Io [[V E] M]]]. destruct (valid_lab_good S O lt' V) as [_ G].
  destruct (allgood_inside_or_touches _ G) as [I|T].
  - destruct (sol_strip S extended orders O lt' Slt' I) as [lt [R Slt]].
    exists lt. split; auto. apply (optimal_sol_outgroup_back S c extended orders O lt); auto. now rewrite <- R.
  - exfalso.
    destruct (sol_push S c extended orders O Hc HO lt' Slt') as [[ord2 [Io2 [V2 M2]]] _].
    destruct (HO' ord Io) as [ND L]. destruct (HO' ord2 Io2) as [ND2 L2].
    specialize (Min _ (ex_intro _ ord2 (conj Io2 (conj V2 M2)))).
    rewrite (cost_of_lcost c _ ord _ _ ND L (conj V E)) in Min, NE.
    rewrite (cost_of_lcost c _ ord2 _ _ ND2 L2 V2) in Min.
    destruct Hc as [H1 [H2 H3]].
    pose proof (lpush_strict olab_node_spec 2 olab_node_spec_gap c H2 H3 H1 S O Hh Hf lt' (valid_lab_rec _ _ _ V) T NE) as Lt.
    unfold elt in Lt. unfold ele in Min. congruence.
Qed.

Theorem optimal_sol_outgroup_iff S c extended orders O lt' :
  nn (c_hgt c) -> 0 < c_floss c -> coherent_ord c -> orders_ok S O orders ->
  (optimal_sol (S_out S) c extended orders (omap og O) lt' <->
   exists lt, lt' = lmap og lt /\ optimal_sol S c extended orders O lt).
Proof.
  intros Hh Hf Hc HO. split; [now apply optimal_sol_outgroup_set|].
  intros [lt [-> Opt]]. now apply optimal_sol_outgroup.
Qed.

(** ** unordered solutions *)
Lemma uvalid_under_push S total : forall o P t, uvalid_under (S_out S) total P (omap og o) t ->
  uvalid_under (S_out S) total P (omap og o) (lmap rho t).
Proof.
  induction o as [sp syn|a IHa b IHb]; intros P [s y|s y ta tb] V; cbn [omap uvalid_under] in V; try contradiction.
  - cbn [lmap omap uvalid_under]. destruct V as [V1 V2]. rewrite V1. cbn [og rho]. split; [reflexivity|exact V2].
  - pose proof (uvalid_valid_rec (S_out S) total (omap og (ONode a b)) P (LNode s y ta tb) V) as VR.
    destruct V as [V1 [V2 [V3 [V4 [V5 V6]]]]].
    destruct (valid_allgood S _ _ VR) as [_ Gs]. cbn [forget root] in Gs.
    destruct (valid_allgood S _ _ (uvalid_valid_rec _ _ _ _ _ V5)) as [_ Gl].
    destruct (valid_allgood S _ _ (uvalid_valid_rec _ _ _ _ _ V6)) as [_ Gr]. rewrite forget_root in Gl, Gr.
    cbn [lmap omap uvalid_under]. rewrite !lroot_lmap.
    split; [now apply rho_valid_sp|]. split; [now apply rho_event|]. split; [exact V3|]. split; [exact V4|].
    split; [now apply IHa|now apply IHb].
Qed.

Lemma strip_uvalid_under S total : forall o P t, uvalid_under (S_out S) total P (omap og o) t -> inside (forget t) ->
  exists t0, uvalid_under S total P o t0 /\ lmap og t0 = t.
Proof.
  induction o as [sp syn|a IHa b IHb]; intros P [s y|s y ta tb] V I; cbn [omap uvalid_under] in V; try contradiction.
  - destruct V as [-> [V2 [V3 V4]]]. exists (LLeaf sp y). split; [|reflexivity].
    cbn [uvalid_under]. split; [reflexivity|]. split; [exact V2|]. split; [exact V3|].
    intros f Hf. rewrite <- (gained_here_omap_leaf total og). auto.
  - destruct V as [V1 [V2 [V3 [V4 [V5 V6]]]]]. cbn [forget inside] in I. destruct I as [[q ->] [Ia Ib]].
    destruct (IHa _ _ V5 Ia) as [a0 [Wa Ea]]. destruct (IHb _ _ V6 Ib) as [b0 [Wb Eb]].
    exists (LNode q y a0 b0). split; [|cbn [lmap]; now rewrite Ea, Eb].
    rewrite <- Ea, <- Eb, !lroot_lmap in V2. change (false :: q) with (og q) in V2. rewrite og_event in V2.
    cbn [uvalid_under]. split; [exact V1|]. split; [exact V2|]. split; [exact V3|]. split; [|split; auto].
    intros f Hf. rewrite <- (gained_here_omap_node total og). auto.
Qed.

Lemma ototal_og O x : ototal (omap og O) x = ototal O x.
Proof. unfold ototal. apply carriers_omap. Qed.

Lemma uvalid_push S O t : uvalid (S_out S) (omap og O) t -> uvalid (S_out S) (omap og O) (lmap rho t).
Proof. apply uvalid_under_push. Qed.
Lemma uvalid_strip S O t : uvalid (S_out S) (omap og O) t -> inside (forget t) ->
  exists t0, uvalid S O t0 /\ lmap og t0 = t.
Proof.
  intros V I. apply (uvalid_under_total_ext _ _ (ototal O) (ototal_og O)) in V.
  now apply strip_uvalid_under.
Qed.
Lemma uvalid_good S O t : uvalid (S_out S) (omap og O) t -> allgood (forget t) /\ valid_rec (S_out S) (omap og O) (forget t).
Proof. intros V. apply uvalid_valid_rec in V. split; auto. now destruct (valid_allgood S _ _ V). Qed.

Lemma ucanon_under_lmap_t g total : forall o P t, ucanon_under total P o (lmap g t) <-> ucanon_under total P o t.
Proof.
  induction o as [sp syn|a IHa b IHb]; intros P [s y|s y ta tb]; cbn [lmap ucanon_under lsyn]; try tauto.
  now rewrite IHa, IHb.
Qed.

Section UnordOut.
  Variables (S : stree) (c : costs) (extended : bool) (O : otree).
  Hypothesis Hc : ucoherent c.

  Lemma ucost_push t' : uvalid (S_out S) (omap og O) t' ->
    ele (ucost c (omap og O) (lmap rho t')) (ucost c (omap og O) t').
  Proof.
    intros V. rewrite !ucost_lcost. destruct Hc as [H1 [H2 H3]].
    assert (c_spe c + 1 * c_sloss c <= c_dup c + 2 * c_floss c) as H4 by lia.
    apply (lpush_cost ulab_node_spec 1 ulab_node_spec_gap c H1 H2 H4 S O). now apply uvalid_good.
  Qed.

  Lemma uall_sol_push t' : uall_sol (S_out S) extended (omap og O) t' -> uall_sol (S_out S) extended (omap og O) (lmap rho t').
  Proof.
    intros [V M]. split; [now apply uvalid_push|]. intros X. now rewrite forget_lmap, (M X), lca_rec_og, rmap_rho_og.
  Qed.
  Lemma uall_sol_strip t' : uall_sol (S_out S) extended (omap og O) t' -> inside (forget t') ->
    exists t, t' = lmap og t /\ uall_sol S extended O t.
  Proof.
    intros [V M] I. destruct (uvalid_strip S O t' V I) as [t0 [W R]]. exists t0. split; auto. split; auto.
    intros X. apply rmap_og_inj. now rewrite <- forget_lmap, R, (M X), lca_rec_og.
  Qed.

  Theorem uall_sol_outgroup_no_gain t' : uall_sol (S_out S) extended (omap og O) t' ->
    exists t, uall_sol S extended O t /\ ele (ucost c O t) (ucost c (omap og O) t').
  Proof.
    intros H. pose proof (uall_sol_push t' H) as H'.
    assert (inside (forget (lmap rho t'))) as I.
    { rewrite forget_lmap. apply rho_inside. now apply (uvalid_good S O), H. }
    destruct (uall_sol_strip _ H' I) as [t [R St]]. exists t. split; auto.
    rewrite <- (ucost_og c O t), <- R. apply ucost_push, H.
  Qed.

  (** adding an outgroup keeps the minimum of the unordered model, over all valid labellings ... *)
  Theorem uall_optimal_outgroup t : uall_optimal S c extended O t ->
    uall_optimal (S_out S) c extended (omap og O) (lmap og t) /\ ucost c (omap og O) (lmap og t) = ucost c O t.
  Proof.
    intros [V Opt]. split; [|apply ucost_og]. split; [now apply uall_sol_og|].
    intros t' V'. destruct (uall_sol_outgroup_no_gain t' V') as [t0 [V0 Le]].
    rewrite ucost_og. eapply ele_trans; [apply Opt; exact V0|exact Le].
  Qed.
  Theorem uall_optimal_outgroup_back t : uall_optimal (S_out S) c extended (omap og O) (lmap og t) ->
    uall_sol S extended O t -> uall_optimal S c extended O t.
  Proof.
    intros [_ Opt] V. split; auto. intros t' V'. specialize (Opt _ (uall_sol_og S extended O t' V')).
    now rewrite !ucost_og in Opt.
  Qed.

  (* ... and over the canonical solutions the solver enumerates *)
  Lemma usol_push t' : usol (S_out S) extended (omap og O) t' -> usol (S_out S) extended (omap og O) (lmap rho t').
  Proof.
    intros [V [C M]]. split; [now apply uvalid_push|]. split; [now apply ucanon_under_lmap_t|].
    intros X. now rewrite forget_lmap, (M X), lca_rec_og, rmap_rho_og.
  Qed.
  Lemma usol_strip t' : usol (S_out S) extended (omap og O) t' -> inside (forget t') ->
    exists t, t' = lmap og t /\ usol S extended O t.
  Proof.
    intros [V [C M]] I. destruct (uvalid_strip S O t' V I) as [t0 [W R]]. exists t0. split; auto. split; auto. split.
    - apply (ucanon_under_total_ext _ (ototal O) (ototal_og O)) in C. rewrite <- R in C.
      exact (proj2 (ucanon_under_lmap og _ _ _ _) C).
    - intros X. apply rmap_og_inj. now rewrite <- forget_lmap, R, (M X), lca_rec_og.
  Qed.
  Theorem usol_outgroup_no_gain t' : usol (S_out S) extended (omap og O) t' ->
    exists t, usol S extended O t /\ ele (ucost c O t) (ucost c (omap og O) t').
  Proof.
    intros H. pose proof (usol_push t' H) as H'.
    assert (inside (forget (lmap rho t'))) as I.
    { rewrite forget_lmap. apply rho_inside. now apply (uvalid_good S O), H. }
    destruct (usol_strip _ H' I) as [t [R St]]. exists t. split; auto.
    rewrite <- (ucost_og c O t), <- R. apply ucost_push, H.
  Qed.
  Theorem uoptimal_outgroup t : uoptimal S c extended O t ->
    uoptimal (S_out S) c extended (omap og O) (lmap og t) /\ ucost c (omap og O) (lmap og t) = ucost c O t.
  Proof.
    intros [V Opt]. split; [|apply ucost_og]. split; [now apply usol_og|].
    intros t' V'. destruct (usol_outgroup_no_gain t' V') as [t0 [V0 Le]].
    rewrite ucost_og. eapply ele_trans; [apply Opt; exact V0|exact Le].
  Qed.
  Theorem uoptimal_outgroup_back t : uoptimal (S_out S) c extended (omap og O) (lmap og t) ->
    usol S extended O t -> uoptimal S c extended O t.
  Proof.
    intros [_ Opt] V. split; auto. intros t' V'. specialize (Opt _ (usol_og S extended O t' V')).
    now rewrite !ucost_og in Opt.
  Qed.

  (** with [0 < c_floss c] the optimal sets are exactly the images of the original ones *)
  Hypothesis Hh : nn (c_hgt c).
  Hypothesis Hf : 0 < c_floss c.

  Lemma ucost_push_strict t' : uvalid (S_out S) (omap og O) t' -> touches (forget t') -> ucost c (omap og O) t' <> PInf ->
    elt (ucost c (omap og O) (lmap rho t')) (ucost c (omap og O) t').
  Proof.
    intros V T NE. rewrite !ucost_lcost in *. destruct Hc as [H1 [H2 H3]].
    assert (c_spe c + 1 * c_sloss c <= c_dup c + 2 * c_floss c) as H4 by lia.
    apply (lpush_strict ulab_node_spec 1 ulab_node_spec_gap c H1 H2 H4 S O Hh Hf); auto. now apply uvalid_good.
  Qed.

  Theorem uall_optimal_outgroup_set t' : uall_optimal (S_out S) c extended (omap og O) t' ->
    exists t, t' = lmap og t /\ uall_optimal S c extended O t.
  Proof.
    intros Opt. pose proof Opt as [V Min].
    destruct (uvalid_good S O t' (proj1 V)) as [G VR].
    assert (ucost c (omap og O) t' <> PInf) as NE.
    { intros E. pose proof (valid_leaves_ok _ _ _ VR) as L.
      destruct (ufinite_sol_exists (S_out S) c extended (omap og O) L) as [t2 [z [[V2 [_ M2]] E2]]].
      specialize (Min t2 (conj V2 M2)). rewrite E, E2 in Min. discriminate. }
    destruct (allgood_inside_or_touches _ G) as [I|T].
    - destruct (uall_sol_strip t' V I) as [t [R St]]. exists t. split; auto.
      apply uall_optimal_outgroup_back; auto. now rewrite <- R.
    - exfalso. pose proof (ucost_push_strict t' (proj1 V) T NE) as Lt.
      specialize (Min _ (uall_sol_push t' V)). unfold elt in Lt. unfold ele in Min. congruence.
  Qed.

  Theorem uoptimal_outgroup_set t' : uoptimal (S_out S) c extended (omap og O) t' ->
    exists t, t' = lmap og t /\ uoptimal S c extended O t.
  Proof.
    intros Opt. pose proof Opt as [V Min].
    destruct (uvalid_good S O t' (proj1 V)) as [G VR].
    assert (ucost c (omap og O) t' <> PInf) as NE.
    { intros E. pose proof (valid_leaves_ok _ _ _ VR) as L.
      destruct (ufinite_sol_exists (S_out S) c extended (omap og O) L) as [t2 [z [V2 E2]]].
      specialize (Min t2 V2). rewrite E, E2 in Min. discriminate. }
    destruct (allgood_inside_or_touches _ G) as [I|T].
    - destruct (usol_strip t' V I) as [t [R St]]. exists t. split; auto.
      apply uoptimal_outgroup_back; auto. now rewrite <- R.
    - exfalso. pose proof (ucost_push_strict t' (proj1 V) T NE) as Lt.
      specialize (Min _ (usol_push t' V)). unfold elt in Lt. unfold ele in Min. congruence.
  Qed.
End UnordOut.

(** * part 7: renaming the gene families, ordered model (orders are lists: no re-sorting) *)
Fixpoint lmapf (g : fam -> fam) (t : ltree) : ltree :=
  match t with
  | LLeaf s y => LLeaf s (map g y)
  | LNode s y a b => LNode s (map g y) (lmapf g a) (lmapf g b)
  end.
Lemma lroot_lmapf g t : lroot (lmapf g t) = lroot t. Proof. destruct t; reflexivity. Qed.
Lemma lsyn_lmapf g t : lsyn (lmapf g t) = map g (lsyn t). Proof. destruct t; reflexivity. Qed.
Lemma forget_lmapf g t : forget (lmapf g t) = forget t.
Proof. induction t as [s y|s y a IHa b IHb]; cbn [lmapf forget]; congruence. Qed.
Lemma lmapf_lmapf g h t : (forall x, h (g x) = x) -> lmapf h (lmapf g t) = t.
Proof.
  intros H. assert (forall y, map h (map g y) = y) as M.
  { intros y. rewrite map_map. rewrite <- (map_id y) at 2. apply map_ext. auto. }
  induction t as [s y|s y a IHa b IHb]; cbn [lmapf]; rewrite M; congruence.
Qed.

Section RenOrd.
  Variable g : fam -> fam.
  Hypothesis g_inj : forall x y, g x = g y -> x = y.

  Lemma fam_eqb_ren x y : fam_eqb (g x) (g y) = fam_eqb x y.
  Proof.
    unfold fam_eqb. destruct (N.eqb_spec x y) as [->|NE]; [apply N.eqb_refl|].
    apply N.eqb_neq. intros E. apply NE. now apply g_inj.
  Qed.
  Lemma mask_of_ren rs : forall syn, mask_of (map g rs) (map g syn) = mask_of rs syn.
  Proof.
    unfold mask_of. induction rs as [|r rs IH]; intros syn; cbn [map mask_from_subseq]; [reflexivity|].
    destruct syn as [|x syn]; cbn [map]; [reflexivity|]. rewrite fam_eqb_ren.
    destruct (fam_eqb x r); [now rewrite IH|]. now rewrite <- (IH (x :: syn)).
  Qed.
  Lemma olab_rec_lmapf rs : forall t m, olab_rec (map g rs) m (lmapf g t) = olab_rec rs m t.
  Proof.
    induction t as [s y|s y a IHa b IHb]; intros m; [reflexivity|].
    cbn [lmapf olab_rec]. now rewrite !lroot_lmapf, !lsyn_lmapf, !mask_of_ren, IHa, IHb.
  Qed.

  (** the ordered evaluator does not see the names of the families *)
  Theorem total_cost_lmapf c O t : total_cost c (oren g O) true (lmapf g t) = total_cost c O true t.
  Proof.
    unfold total_cost, labeling_cost, ordered_labeling_cost.
    rewrite forget_lmapf, cost_oren, lsyn_lmapf, olab_rec_lmapf.
    unfold subseq_complete. now rewrite map_length.
  Qed.
  Theorem cost_of_lmapf c O lt : cost_of c (oren g O) (lmapf g lt) = cost_of c O lt.
  Proof. unfold cost_of. now rewrite total_cost_lmapf. Qed.

  Lemma valid_lab_lmapf S O t : valid_lab S O t -> valid_lab S (oren g O) (lmapf g t).
  Proof.
    induction 1 as [sp syn Hs|a b s y la lb Hs He Sa Sb Va IHa Vb IHb]; cbn [oren lmapf]; constructor; auto;
      rewrite ?lroot_lmapf, ?lsyn_lmapf; auto; now apply Subseq_map.
  Qed.
  Lemma sol_lmapf S extended orders O lt : sol S extended orders O lt ->
    sol S extended (map (map g) orders) (oren g O) (lmapf g lt).
  Proof.
    intros [ord [Io [[V E] M]]]. exists (map g ord). split; [now apply in_map|]. split.
    - split; [now apply valid_lab_lmapf|]. now rewrite lsyn_lmapf, E.
    - destruct M as [M|M]; [now left|right]. now rewrite forget_lmapf, lca_rec_oren.
  Qed.
End RenOrd.

Lemma map_map_id (g h : fam -> fam) (orders : list (list fam)) : (forall x, h (g x) = x) ->
  map (map h) (map (map g) orders) = orders.
Proof.
  intros H. rewrite map_map. rewrite <- (map_id orders) at 2. apply map_ext. intros y.
  rewrite map_map. rewrite <- (map_id y) at 2. apply map_ext. auto.
Qed.

Theorem sol_lmapf_onto g h S extended orders O lt' : (forall x, h (g x) = x) -> (forall x, g (h x) = x) ->
  sol S extended (map (map g) orders) (oren g O) lt' -> exists lt, lt' = lmapf g lt /\ sol S extended orders O lt.
Proof.
  intros Hhg Hgh H. exists (lmapf h lt'). split; [now rewrite lmapf_lmapf|].
  apply (sol_lmapf h) in H. now rewrite map_map_id, oren_oren in H.
Qed.

(** bijective renaming of the families: a cost-preserving bijection between the solutions of the
    ordered solvers (root orders renamed alongside); minimum and optimal set are carried over *)
Theorem optimal_sol_lmapf g h S c extended orders O lt : (forall x, h (g x) = x) -> (forall x, g (h x) = x) ->
  optimal_sol S c extended orders O lt -> optimal_sol S c extended (map (map g) orders) (oren g O) (lmapf g lt).
Proof.
  intros Hhg Hgh [V Opt]. pose proof (inv_inj g h Hhg) as Ig. split; [now apply sol_lmapf|].
  intros lt' V'. destruct (sol_lmapf_onto g h S extended orders O lt' Hhg Hgh V') as [lt0 [-> V0]].
  rewrite !(cost_of_lmapf g Ig). now apply Opt.
Qed.
Theorem optimal_sol_lmapf_back g h S c extended orders O lt' : (forall x, h (g x) = x) -> (forall x, g (h x) = x) ->
  optimal_sol S c extended (map (map g) orders) (oren g O) lt' ->
  exists lt, lt' = lmapf g lt /\ optimal_sol S c extended orders O lt.
Proof.
  intros Hhg Hgh [V Opt]. pose proof (inv_inj g h Hhg) as Ig.
  destruct (sol_lmapf_onto g h S extended orders O lt' Hhg Hgh V) as [lt0 [-> V0]].
  exists lt0. split; auto. split; auto. intros lt1 V1.
  specialize (Opt _ (sol_lmapf g S extended orders O lt1 V1)). now rewrite !(cost_of_lmapf g Ig) in Opt.
Qed.

(** * part 8: the laws on the solvers' results (through the exactness theorems) *)
Lemma leaves_ok_og S O : leaves_ok (S_out S) (omap og O) <-> leaves_ok S O.
Proof. induction O as [sp syn|a IHa b IHb]; cbn [omap leaves_ok]; [reflexivity|]. now rewrite IHa, IHb. Qed.

(** [reconcile_thl] under ALL: the results for the enlarged input are exactly the images *)
Theorem thl_outgroup_set S c O r' : nn (c_hgt c) -> 0 < c_floss c -> coherent c -> leaves_ok S O ->
  (In r' (tags (reconcile_thl (S_out S) c RALL (omap og O))) <->
   exists r, r' = rmap og r /\ In r (tags (reconcile_thl S c RALL O))).
Proof.
  intros Hh Hf Hc L. assert (0 <= c_floss c) as Hf0 by lia.
  rewrite (thl_all_exact (S_out S) c (omap og O) Hh Hf0 Hc (proj2 (leaves_ok_og S O) L)).
  rewrite (opt_outgroup_iff S c O r' Hh Hf Hc). split; intros [r [E H]]; exists r; split; auto;
    now apply (thl_all_exact S c O Hh Hf0 Hc L).
Qed.

(** the ordered solvers under ALL *)
Theorem spfs_outgroup_set S c extended orders O e e' lt' :
  nn (c_hgt c) -> 0 < c_floss c -> coherent_ord c -> orders_ok S O orders ->
  spfs S c RALL extended orders O = Some e -> spfs (S_out S) c RALL extended orders (omap og O) = Some e' ->
  (In lt' (tags e') <-> exists lt, lt' = lmap og lt /\ In lt (tags e)).
Proof.
  intros Hh Hf Hc HO Es Es'.
  rewrite (spfs_all_exact _ c extended orders _ Hh (orders_ok_og S O orders HO) Hc e' Es').
  rewrite (optimal_sol_outgroup_iff S c extended orders O lt' Hh Hf Hc HO).
  split; intros [lt [E H]]; exists lt; split; auto; now apply (spfs_all_exact S c extended orders O Hh HO Hc e Es).
Qed.

Theorem spfs_swap_object_children S c extended orders p O e e' lt :
  nn (c_hgt c) -> coherent_ord c -> orders_ok S O orders ->
  spfs S c RALL extended orders O = Some e -> spfs S c RALL extended orders (oflip p O) = Some e' ->
  (In (lflip p lt) (tags e') <-> In lt (tags e)).
Proof.
  intros Hh Hc HO Es Es'.
  rewrite (spfs_all_exact _ c extended orders _ Hh (proj2 (orders_ok_oflip S p O orders) HO) Hc e' Es').
  rewrite (spfs_all_exact S c extended orders O Hh HO Hc e Es). apply optimal_sol_lflip.
Qed.

Theorem spfs_scale k S c extended orders O e e' lt :
  0 < k -> nn (c_hgt c) -> coherent_ord c -> orders_ok S O orders ->
  spfs S c RALL extended orders O = Some e -> spfs S (scale_costs k c) RALL extended orders O = Some e' ->
  (In lt (tags e') <-> In lt (tags e)).
Proof.
  intros Hk Hh Hc HO Es Es'.
  assert (nn (c_hgt (scale_costs k c))) as Hh' by (cbn [scale_costs c_hgt]; destruct (c_hgt c); [congruence|discriminate|discriminate]).
  assert (coherent_ord (scale_costs k c)) as Hc'.
  { destruct Hc as [H1 [H2 H3]]. unfold coherent_ord. cbn [scale_costs c_spe c_dup c_floss c_sloss]. repeat split; nia. }
  rewrite (spfs_all_exact S _ extended orders O Hh' HO Hc' e' Es').
  rewrite (spfs_all_exact S c extended orders O Hh HO Hc e Es). now apply optimal_sol_scale.
Qed.

(** the unordered solvers under ALL *)
Theorem uspfs_outgroup_set S c extended O : nn (c_hgt c) -> 0 < c_floss c -> ucoherent c -> leaves_ok S O ->
  exists E E', uspfs S c RALL extended O = Some E /\ uspfs (S_out S) c RALL extended (omap og O) = Some E' /\
    forall t', In t' (tags E') <-> exists t, t' = lmap og t /\ In t (tags E).
Proof.
  intros Hh Hf Hc L.
  destruct (uspfs_all_exact S c extended O Hh Hc L) as [E [Es [_ X]]].
  destruct (uspfs_all_exact (S_out S) c extended (omap og O) Hh Hc (proj2 (leaves_ok_og S O) L)) as [E' [Es' [_ X']]].
  exists E, E'. split; auto. split; auto. intros t'. rewrite X'. split.
  - intros H. destruct (uoptimal_outgroup_set S c extended O Hc Hh Hf t' H) as [t [R Ot]].
    exists t. split; auto. now apply X.
  - intros [t [-> H]]. apply uoptimal_outgroup; auto. now apply X.
Qed.

Theorem uspfs_swap_object_children S c extended p O : nn (c_hgt c) -> ucoherent c -> leaves_ok S O ->
  exists E E', uspfs S c RALL extended O = Some E /\ uspfs S c RALL extended (oflip p O) = Some E' /\
    forall t, In (lflip p t) (tags E') <-> In t (tags E).
Proof.
  intros Hh Hc L.
  assert (leaves_ok S (oflip p O)) as L'.
  { clear -L. revert O L. induction p as [|f pl IHl pr IHr]; intros O L; [destruct O; exact L|].
    destruct O as [sp syn|a b]; [destruct f; exact L|]. destruct L as [La Lb].
    simpl. destruct f; cbn [leaves_ok]; auto. }
  destruct (uspfs_all_exact S c extended O Hh Hc L) as [E [Es [_ X]]].
  destruct (uspfs_all_exact S c extended (oflip p O) Hh Hc L') as [E' [Es' [_ X']]].
  exists E, E'. split; auto. split; auto. intros t. rewrite X, X'. apply uoptimal_lflip.
Qed.

(** * non-vacuity: the hypotheses are satisfiable, the optimal sets are not empty *)
Example outgroup_set_example :
  let S := SLeaf in
  let O := ONode (OLeaf [] []) (OLeaf [] []) in
  let c := {| c_spe := 0; c_dup := 1; c_hgt := Fin 1; c_floss := 1; c_sloss := 0 |} in
  nn (c_hgt c) /\ 0 < c_floss c /\ coherent c /\
  optimal (S_out S) c (omap og O) (rmap og (RNode [] (RLeaf []) (RLeaf []))) /\
  ~ optimal (S_out S) c (omap og O) (RNode [] (RLeaf [false]) (RLeaf [false])).
Proof.
  cbv zeta. split; [discriminate|]. split; [simpl; lia|]. split; [unfold coherent; simpl; lia|].
  assert (leaves_ok (S_out SLeaf) (omap og (ONode (OLeaf [] []) (OLeaf [] [])))) as L by (simpl; auto).
  split.
  - split.
    + apply (all_recs_spec _ _ L). vm_compute. auto.
    + intros r V. apply (all_recs_spec _ _ L) in V. vm_compute in V.
      repeat (destruct V as [<-|V]; [vm_compute; reflexivity|]). contradiction.
  - intros [_ Opt].
    assert (valid_rec (S_out SLeaf) (omap og (ONode (OLeaf [] []) (OLeaf [] [])))
              (RNode [false] (RLeaf [false]) (RLeaf [false]))) as V.
    { apply (all_recs_spec _ _ L). vm_compute. auto. }
    specialize (Opt _ V). vm_compute in Opt. discriminate.
Qed.

Example labelled_outgroup_example :
  let S := SNode SLeaf SLeaf in
  let O := ONode (OLeaf [false] [1; 2]%N) (ONode (OLeaf [true] [1]%N) (OLeaf [true] [2]%N)) in
  let c := {| c_spe := 0; c_dup := 1; c_hgt := Fin 1; c_floss := 1; c_sloss := 1 |} in
  let orders := [[1; 2]%N] in
  nn (c_hgt c) /\ 0 < c_floss c /\ coherent_ord c /\ ucoherent c /\ orders_ok S O orders /\ leaves_ok S O /\
  (exists lt, optimal_sol (S_out S) c true orders (omap og O) (lmap og lt)) /\
  (exists t, uoptimal (S_out S) c true (omap og O) (lmap og t)).
Proof.
  cbv zeta.
  set (S := SNode SLeaf SLeaf).
  set (O := ONode (OLeaf [false] [1; 2]%N) (ONode (OLeaf [true] [1]%N) (OLeaf [true] [2]%N))).
  set (c := {| c_spe := 0; c_dup := 1; c_hgt := Fin 1; c_floss := 1; c_sloss := 1 |}).
  assert (nn (c_hgt c)) as Hh by discriminate.
  assert (coherent_ord c) as Hc by (unfold coherent_ord; simpl; lia).
  assert (ucoherent c) as Hu by (unfold ucoherent; simpl; lia).
  assert (orders_ok S O [[1; 2]%N]) as HO.
  { intros ord [<-|[]]. split.
    - repeat constructor; simpl; intuition discriminate.
    - simpl. repeat split; try discriminate; repeat constructor. }
  assert (leaves_ok S O) as L by (simpl; auto).
  split; auto. split; [simpl; lia|]. split; auto. split; auto. split; auto. split; auto. split.
  - destruct (spfs S c RALL true [[1; 2]%N] O) as [e|] eqn:Es; [|vm_compute in Es; discriminate].
    destruct (tags e) as [|lt l] eqn:Et; [vm_compute in Es; injection Es as <-; vm_compute in Et; discriminate|].
    exists lt. apply optimal_sol_outgroup; auto.
    apply (spfs_all_exact S c true _ O Hh HO Hc e Es). rewrite Et. now left.
  - destruct (uspfs_all_exact S c true O Hh Hu L) as [E [Es [_ X]]].
    destruct (tags E) as [|t l] eqn:Et; [vm_compute in Es; injection Es as <-; vm_compute in Et; discriminate|].
    exists t. apply uoptimal_outgroup; auto. apply X. now left.
Qed.

(** * assumptions of the main theorems *)
Print Assumptions opt_outgroup_iff.
Print Assumptions outgroup_set_needs_floss.
Print Assumptions total_cost_scale.
Print Assumptions optimal_sol_scale.
Print Assumptions uoptimal_scale.
Print Assumptions uall_optimal_scale.
Print Assumptions uopt_monotone.
Print Assumptions uall_opt_monotone.
Print Assumptions tcost_mono.
Print Assumptions sopt_monotone.
Print Assumptions total_cost_lflip.
Print Assumptions optimal_sol_lflip.
Print Assumptions uall_optimal_lflip.
Print Assumptions uoptimal_lflip.
Print Assumptions uall_optimal_lren_back.
Print Assumptions uoptimal_lren.
Print Assumptions uoptimal_lren_back.
Print Assumptions optimal_sol_swap_species.
Print Assumptions uall_optimal_swap_species.
Print Assumptions uoptimal_swap_species.
Print Assumptions optimal_sol_outgroup_iff.
Print Assumptions uall_optimal_outgroup.
Print Assumptions uall_optimal_outgroup_set.
Print Assumptions uoptimal_outgroup.
Print Assumptions uoptimal_outgroup_set.
Print Assumptions optimal_sol_lmapf.
Print Assumptions optimal_sol_lmapf_back.
Print Assumptions thl_outgroup_set.
Print Assumptions spfs_outgroup_set.
Print Assumptions spfs_swap_object_children.
Print Assumptions spfs_scale.
Print Assumptions uspfs_outgroup_set.
Print Assumptions uspfs_swap_object_children.
Print Assumptions labelled_outgroup_example.
