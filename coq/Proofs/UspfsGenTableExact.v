(** Stage 3, exact layer, of the tie of [Gen/UspfsGen.v] (part of Proofs/UspfsGenProofs.v): [_compute_uspfs_table] as
    generated = the table [TableO.utab_o] (every cell of every object node), for the enumeration orders of the code, given
    what ONE call of [_compute_uspfs_entry] does ([Statements.entry_eq_statement]). *)
From Coq Require Import List Bool Arith ZArith NArith Lia Permutation.
From SR Require Gen.UspfsGen Model.Recon Model.Uspfs Base.PathB Base.Ext Model.Entry Model.LcaRec Model.Thl Proofs.PathFacts Proofs.EntryProofs Proofs.EntryGenProofs Proofs.TableGenProofs Gen.EntryGen Gen.TableGen Gen.EvalGen Proofs.ThlProofs Proofs.UspfsProofs Proofs.ThlGenProofs Proofs.EvalGenProofs Gen.ThlGen.
From SR Require Import Gen.UspfsGen Proofs.UspfsGenCommon Proofs.UspfsGenStatements.

Module TableExact.
Import SR.Base.PathB SR.Base.Ext SR.Model.Entry SR.Model.Recon SR.Model.LcaRec SR.Model.Thl SR.Model.Uspfs SR.Proofs.PathFacts SR.Proofs.EntryProofs SR.Proofs.EntryGenProofs SR.Proofs.EvalGenProofs SR.Proofs.TableGenProofs SR.Proofs.ThlGenProofs.
Import SR.Proofs.UspfsGenCommon.Common SR.Proofs.UspfsGenCommon.ModelO SR.Proofs.UspfsGenCommon.TableO SR.Proofs.UspfsGenCommon.Embed.
Import SR.Proofs.UspfsGenStatements.Statements.
Import ListNotations.
Module CM := SR.Proofs.UspfsGenCommon.Common.
Local Open Scope Z_scope.

(** * generic list facts *)
Lemma existsb_eqb_In {X} (eqb : X -> X -> bool) (spec : forall a b, reflect (a = b) (eqb a b)) (l : list X) k :
  existsb (eqb k) l = true <-> In k l.
Proof.
  rewrite existsb_exists. split.
  - intros [x [Hi Hx]]. destruct (spec k x); [now subst|discriminate].
  - intros Hi. exists k. split; [exact Hi|]. destruct (spec k k); congruence.
Qed.
Lemma existsb_eqb_notIn {X} (eqb : X -> X -> bool) (spec : forall a b, reflect (a = b) (eqb a b)) (l : list X) k :
  existsb (eqb k) l = false <-> ~ In k l.
Proof.
  rewrite <- (existsb_eqb_In eqb spec l k). destruct (existsb (eqb k) l); split; intros H; try congruence.
  all: try (exfalso; now apply H).
Qed.
Lemma NoDup_app_l3 {X} (l1 l2 : list X) : NoDup (l1 ++ l2) -> NoDup l1.
Proof.
  induction l1 as [|x l1 IH]; cbn; intros H; [constructor|]. inversion H as [|? ? Hx Hl]; subst.
  constructor; [intros Hi; apply Hx; rewrite in_app_iff; now left|auto].
Qed.
Lemma NoDup_app_r3 {X} (l1 l2 : list X) : NoDup (l1 ++ l2) -> NoDup l2.
Proof. induction l1 as [|x l1 IH]; cbn; intros H; [exact H|]. inversion H; subst. auto. Qed.
Lemma NoDup_app_disj3 {X} (l1 l2 : list X) x : NoDup (l1 ++ l2) -> In x l1 -> In x l2 -> False.
Proof.
  induction l1 as [|y l1 IH]; cbn; intros H H1 H2; [destruct H1|]. inversion H as [|? ? Hy Hl]; subst.
  destruct H1 as [->|H1]; [apply Hy; rewrite in_app_iff; now right|eauto].
Qed.

(** the batch depends on the readers of the children through their values only *)
Lemma uone_o_ext S c (sub sub' : uassign -> ext) lossless s kind d :
  (forall k, sub k = sub' k) -> uone_o S c sub lossless s kind d = uone_o S c sub' lossless s kind d.
Proof. intros E. unfold uone_o. now rewrite (E (d, false)), (E (d, true)). Qed.
Lemma uchoices_o_ext S c rp (sub sub' : uassign -> ext) lossless s kind ds :
  (forall k, sub k = sub' k) -> uchoices_o S c rp sub lossless s kind ds = uchoices_o S c rp sub' lossless s kind ds.
Proof.
  intros E. unfold uchoices_o.
  assert (F : flat_map (uone_o S c sub lossless s kind) ds = flat_map (uone_o S c sub' lossless s kind) ds).
  { apply flat_map_ext. intros d. now apply uone_o_ext. }
  now rewrite F.
Qed.
Lemma ubatch_o_ext S c rp (subA subA' subB subB' : uassign -> ext) la lb s kind ds :
  (forall k, subA k = subA' k) -> (forall k, subB k = subB' k) ->
  ubatch_o S c rp subA subB la lb s kind ds = ubatch_o S c rp subA' subB' la lb s kind ds.
Proof.
  intros EA EB. unfold ubatch_o.
  now rewrite (uchoices_o_ext S c rp subA subA' la s kind ds EA), (uchoices_o_ext S c rp subB subB' lb s kind ds EB).
Qed.

Section Table3X.
  Context {lca node_id : Type} (nid_eqb : node_id -> node_id -> bool).
  Hypothesis nid_eqb_spec : forall a b, reflect (a = b) (nid_eqb a b).
  Notation key := (@UG.key path node_id).
  Notation keqb := (UG.key_eqb path_eqb nid_eqb).
  Notation caeqb := (UG.ChildrenAssignment_eqb path_eqb).
  Notation tstate := (TG.table_state key ca).
  Notation tree := (EV.TreeNode node_id).
  Notation kspec := (keqb_spec3 nid_eqb nid_eqb_spec).
  Notation inv3 := (@inv3 node_id).
  Notation gsem3 := (gsem3 nid_eqb).
  Notation sub_of := (sub_of nid_eqb).
  Variable lcaobj : lca.
  Notation DIST := (fun (_ : lca) => dist).
  Notation ANC := (fun (_ : lca) => anc).
  Notation sid := (@UG.STree_id path).
  Notation oids l := (map (@EV.TreeNode_id node_id) l).

  (** ** the chain [table[k1][k2]] *)
  Lemma rd3_getitem rp (tb : tstate) k1 : inv3 rp tb ->
    UG.table_res (TG.gen_table_getitem keqb tb k1) = UG.Ok (tb, TG.Proxy_TableProxy (TG.mk_tproxy tb [k1])).
  Proof.
    intros [W [D _]]. rewrite (gen_table_getitem_eq keqb kspec tb k1 W) by (intros E; rewrite E in D; discriminate).
    now rewrite D.
  Qed.
  Lemma rd3_sub1 rp (tb : tstate) k1 k2 : inv3 rp tb ->
    UG.table_res (TG.gen_Proxy_getitem keqb (TG.Proxy_TableProxy (TG.mk_tproxy tb [k1])) k2) =
      UG.Ok (TG.Proxy_TableProxy (TG.mk_tproxy tb [k1]), TG.Proxy_TableProxy (TG.mk_tproxy tb [k1; k2])).
  Proof.
    intros [W [D _]]. rewrite Proxy_getitem_table, (gen_tproxy_getitem_eq keqb kspec tb [k1] k2 W) by (cbn; lia).
    cbn [length]. now rewrite D.
  Qed.

  (** ** T1: [table[k1][k2][k3] = Candidate(0)] on a cell that reads as the default entry *)
  Lemma leaf_write rp (tb : tstate) (i : node_id) (s : path) (b : bool) : inv3 rp tb ->
    gsem3 tb i s b = default_entry MIN ->
    exists tb',
      UG.table_res (TG.gen_Proxy_setitem keqb caeqb (TG.Proxy_TableProxy (TG.mk_tproxy tb [inl (inl i); inl (inr s)])) (inr (kind_of b))
                      (EG.mk_Candidate (Fin 0) None)) =
        UG.Ok (TG.Proxy_TableProxy (TG.mk_tproxy tb' [inl (inl i); inl (inr s)]), tt) /\
      inv3 rp tb' /\
      gsem3 tb' i s b = emap tag_ca {| val := Fin 0; tags := [] |} /\
      (forall n x b', (n, x, b') <> (i, s, b) -> gsem3 tb' n x b' = gsem3 tb n x b').
  Proof.
    intros I E0. pose proof I as [W [D [M R]]].
    destruct (gen_tproxy_setitem_spec keqb caeqb kspec tb [inl (inl i); inl (inr s)] (inr (kind_of b)) (EG.mk_Candidate (Fin 0) None) W
                ltac:(rewrite D; reflexivity))
      as [tb' [E [P1 [P2 [P3 [W' [Sk So]]]]]]].
    cbn [app] in *. exists tb'. split.
    { cbn [TG.gen_Proxy_setitem].
      match goal with |- context [TG.gen_tproxy_setitem ?a ?b ?p ?q ?r] =>
        replace (TG.gen_tproxy_setitem a b p q r) with (TG.Ok (TG.mk_tproxy tb' [inl (inl i); inl (inr s)], tt))
          by (symmetry; exact E) end.
      reflexivity. }
    split; [repeat split; auto; congruence|].
    assert (Hf : has_fin [EG.mk_Candidate (A := ca) (Fin 0) None] = true) by reflexivity.
    rewrite Hf in Sk. split.
    - unfold CM.gsem3, ck3, kn, ks, kk. rewrite Sk, M, R. cbn [cmp]. rewrite crp_prc.
      change (sem keqb tb [inl (inl i); inl (inr s); inr (kind_of b)]) with (gsem3 tb i s b). rewrite E0.
      destruct rp; reflexivity.
    - intros n x b' Hne. unfold CM.gsem3, sem. rewrite So, P1; [reflexivity|rewrite D; reflexivity|].
      unfold ck3, kn, ks, kk. intros Eq. inversion Eq as [[E1 E2 E3]]. apply Hne. subst.
      f_equal. rewrite <- (kind_b_of b'), <- (kind_b_of b). now rewrite E3.
  Qed.

  (** ** T2: one internal object node: the loop over the allowed species *)
  Hypothesis HE : entry_eq_statement nid_eqb lcaobj.
  Variables (rp : ret) (S : stree) (c : costs) (ST : @UG.STree path) (leafsp : node_id -> path) (syn : node_id -> list fam) (O : tree).
  Variables (lsets : list (node_id * list fam)) (LS : node_id -> list fam).
  Let sin : EV.sin_state fam path lca node_id := EV.mk_sin O lcaobj leafsp (stsocc c) syn.
  Notation lev := (sids3 (UG.STree_levelorder ST)).
  Notation FOR2 := (UG.gen_compute_uspfs_table_for2 N.eqb path_eqb nid_eqb ANC DIST (fun _ => ST) sin lsets).

  Section Node.
    Variables (nid : node_id) (L R : tree) (EA EB : uassign -> entry utag).
    Hypothesis N1 : nid <> EV.TreeNode_id L.
    Hypothesis N2 : nid <> EV.TreeNode_id R.
    Hypothesis D0 : UG.dict_get nid_eqb lsets nid = Some (LS nid).
    Hypothesis D1 : UG.dict_get nid_eqb lsets (EV.TreeNode_id L) = Some (LS (EV.TreeNode_id L)).
    Hypothesis D2 : UG.dict_get nid_eqb lsets (EV.TreeNode_id R) = Some (LS (EV.TreeNode_id R)).
    Notation la := (UG.gset_subset N.eqb (LS nid) (LS (EV.TreeNode_id L))).
    Notation lb := (UG.gset_subset N.eqb (LS nid) (LS (EV.TreeNode_id R))).
    Notation bat x k := (ubatch_o S c rp (fun k' => val (EA k')) (fun k' => val (EB k')) la lb x k lev).

    (** the rows of the two children are complete *)
    Definition child_ok (tb : tstate) : Prop :=
      (forall x k, gsem3 tb (EV.TreeNode_id L) x k = emap tag_ca (EA (x, k))) /\
      (forall x k, gsem3 tb (EV.TreeNode_id R) x k = emap tag_ca (EB (x, k))).

    Lemma child_ok_frame tb tb' :
      (forall n x k, n <> nid -> gsem3 tb' n x k = gsem3 tb n x k) -> child_ok tb -> child_ok tb'.
    Proof.
      intros F1 [HA HB]. split; intros.
      - rewrite F1 by congruence. apply HA.
      - rewrite F1 by congruence. apply HB.
    Qed.

    Lemma child_ok_batch tb x k : child_ok tb ->
      ubatch_o S c rp (sub_of tb (EV.TreeNode_id L)) (sub_of tb (EV.TreeNode_id R)) la lb x k lev = bat x k.
    Proof.
      intros [HA HB]. apply ubatch_o_ext; intros [y k']; unfold CM.sub_of; cbn [fst snd]; [rewrite HA|rewrite HB]; reflexivity.
    Qed.

    Lemma species_loop : forall xs tb, inv3 rp tb -> (forall rs, In rs xs -> rs_ok S rs) -> NoDup (sids3 xs) ->
      child_ok tb ->
      (forall x k, In x (sids3 xs) -> gsem3 tb nid x k = default_entry MIN) ->
      exists tb', FOR2 (EV.TreeNode_node nid L R) xs tb = UG.Next tb' /\ inv3 rp tb' /\
        (forall rs k, In rs xs -> gsem3 tb' nid (sid rs) k = emap tag_ca (ufirst_write rp (bat (sid rs) k))) /\
        (forall n x k, n <> nid \/ ~ In x (sids3 xs) -> gsem3 tb' n x k = gsem3 tb n x k).
    Proof.
      induction xs as [|rs xs IH]; intros tb I Hrs ND HC H0.
      - exists tb. split; [reflexivity|]. split; [exact I|]. split; [intros ? ? []|]. reflexivity.
      - cbn [sids3 map] in ND. inversion ND as [|? ? Nx ND']; subst. cbn [UG.gen_compute_uspfs_table_for2].
        change (EV.sin_species_lca sin) with lcaobj. change (EV.sin_costs sin) with (stsocc c).
        assert (E0 : forall k, gsem3 tb nid (sid rs) k = emap tag_ca (default_entry MIN)).
        { intros k. apply H0. now left. }
        pose proof (HE rp S c rs ST nid L R tb lsets (LS nid) (LS (EV.TreeNode_id L)) (LS (EV.TreeNode_id R))
                      (default_entry MIN) (default_entry MIN) (Hrs rs (or_introl eq_refl)) I D0 D1 D2 (E0 false) (E0 true)) as X.
        cbv beta zeta in X. rewrite (child_ok_batch tb (sid rs) false HC), (child_ok_batch tb (sid rs) true HC), !cell_upd3_default in X.
        destruct X as [tb1 [E1 [I1 [Sf1 [St1 So1]]]]].
        rewrite E1.
        assert (HC1 : child_ok tb1).
        { apply (child_ok_frame tb tb1); [|exact HC].
          intros n x k Hn. apply So1. intros Eq. inversion Eq. congruence. }
        destruct (IH tb1 I1 (fun r Hr => Hrs r (or_intror Hr)) ND' HC1) as [tb' [E' [I' [Sk' So']]]].
        { intros x k Hx. rewrite So1; [apply H0; now right|]. intros Eq. inversion Eq. subst. contradiction. }
        exists tb'. split; [exact E'|]. split; [exact I'|]. split.
        + intros r k [<-|Hr]; [|now apply Sk'].
          rewrite So' by (right; exact Nx). destruct k; [exact St1|exact Sf1].
        + intros n x k H. cbn [sids3 map In] in H. rewrite So'; [rewrite So1; [reflexivity|]|].
          * destruct H as [H|H]; [congruence|]. intros Eq. inversion Eq. subst. apply H. now left.
          * destruct H as [H|H]; [left; exact H|]. right. intros Hi. apply H. now right.
    Qed.
  End Node.

  (** ** T3: the loop over the object nodes, children first; the whole table *)
  Variable AS : @UG.STree path -> tree -> list (@UG.STree path).
  Notation FOR1 := (UG.gen_compute_uspfs_table_for1 N.eqb path_eqb nid_eqb ANC DIST (fun _ => ST) sin lsets AS UG.SyntenyAssignment_LCA).
  Notation TC := (utab_o S c rp leafsp lev (fun v => sids3 (AS ST v)) LS).

  Lemma root_in_postorder3 (t : tree) : In t (UG.TreeNode_postorder t).
  Proof. destruct t; cbn; [now left|]. rewrite !in_app_iff. right; right. now left. Qed.

  Lemma object_loop3 (t : tree) : forall rest tb, inv3 rp tb -> NoDup (oids (UG.TreeNode_postorder t)) ->
    (forall u, In u (UG.TreeNode_postorder t) -> EV.TreeNode_is_leaf u = false -> allowed_ok S ST AS u) ->
    (forall u, In u (UG.TreeNode_postorder t) -> UG.dict_get nid_eqb lsets (EV.TreeNode_id u) = Some (LS (EV.TreeNode_id u))) ->
    (forall n, In n (oids (UG.TreeNode_postorder t)) -> forall s k, gsem3 tb n s k = default_entry MIN) ->
    exists tb', FOR1 (UG.TreeNode_postorder t ++ rest) tb = FOR1 rest tb' /\ inv3 rp tb' /\
      (forall u, In u (UG.TreeNode_postorder t) -> forall s k, gsem3 tb' (EV.TreeNode_id u) s k = emap tag_ca (TC u (s, k))) /\
      (forall n s k, ~ In n (oids (UG.TreeNode_postorder t)) -> gsem3 tb' n s k = gsem3 tb n s k).
  Proof.
    induction t as [i|i a IHa b IHb]; intros rest tb I ND HAL HD H0.
    - (* a leaf: the cell of its species and of the kind LCA receives the candidate 0 *)
      cbn [UG.TreeNode_postorder app UG.gen_compute_uspfs_table_for1 EV.TreeNode_is_leaf]. cbv zeta.
      change (EV.sin_leaf_object_species sin) with leafsp. cbn [EV.TreeNode_id].
      rewrite (rd3_getitem rp tb _ I), (rd3_sub1 rp tb _ _ I).
      destruct (leaf_write rp tb i (leafsp i) false I) as [tb' [E [I' [Sk So]]]].
      { apply H0. now left. }
      change (kind_of false) with UG.SyntenyAssignment_LCA in E.
      match goal with |- context [UG.table_res (TG.gen_Proxy_setitem ?a ?b ?p ?k ?cd)] =>
        replace (UG.table_res (TG.gen_Proxy_setitem a b p k cd))
          with (UG.Ok (R := TG.Proxy key ca * unit) (TG.Proxy_TableProxy (TG.mk_tproxy tb' [inl (inl i); inl (inr (leafsp i))]), tt))
          by (symmetry; exact E) end.
      cbn [TG.Proxy_parent TG.tproxy_parent].
      exists tb'. split; [reflexivity|]. split; [exact I'|]. split.
      + intros u [<-|[]] s k. cbn [EV.TreeNode_id utab_o].
        destruct (uassign_eqb (s, k) (leafsp i, false)) eqn:Es.
        * unfold uassign_eqb in Es. cbn [fst snd] in Es. apply andb_true_iff in Es as [E1 E2].
          destruct (path_eqb_spec s (leafsp i)) as [->|]; [|discriminate]. destruct k; [discriminate|]. exact Sk.
        * rewrite So; [exact (H0 i (or_introl eq_refl) s k)|].
          intros Eq. inversion Eq. subst. unfold uassign_eqb in Es. cbn [fst snd Bool.eqb] in Es. rewrite andb_true_r in Es.
          destruct (path_eqb_spec (leafsp i) (leafsp i)); [discriminate|congruence].
      + intros n s k Hn. apply So. intros Eq. inversion Eq. apply Hn. now left.
    - (* an internal node: its subtrees, then every allowed species *)
      cbn [UG.TreeNode_postorder] in *. rewrite !map_app in ND, H0. cbn [map] in ND, H0.
      rewrite <- !app_assoc. cbn [app].
      pose proof (NoDup_app_l3 _ _ ND) as NDa. pose proof (NoDup_app_r3 _ _ ND) as NDb'.
      pose proof (NoDup_app_l3 _ _ NDb') as NDb.
      destruct (IHa (UG.TreeNode_postorder b ++ EV.TreeNode_node i a b :: rest) tb I NDa) as [tb1 [E1 [I1 [Sa Fa]]]].
      { intros u Hu. apply HAL. rewrite in_app_iff. now left. }
      { intros u Hu. apply HD. rewrite in_app_iff. now left. }
      { intros n Hn. apply H0. rewrite in_app_iff. now left. }
      rewrite E1.
      assert (Hdisj : forall n, In n (oids (UG.TreeNode_postorder a)) -> In n (oids (UG.TreeNode_postorder b)) -> False).
      { intros n H1 H2. eapply (NoDup_app_disj3 _ _ n ND H1). rewrite in_app_iff. now left. }
      destruct (IHb (EV.TreeNode_node i a b :: rest) tb1 I1 NDb) as [tb2 [E2 [I2 [Sb Fb]]]].
      { intros u Hu. apply HAL. rewrite !in_app_iff. right. now left. }
      { intros u Hu. apply HD. rewrite !in_app_iff. right. now left. }
      { intros n Hn s k. rewrite Fa; [apply H0; rewrite !in_app_iff; right; now left|]. intros Ha. exact (Hdisj n Ha Hn). }
      rewrite E2. cbn [UG.gen_compute_uspfs_table_for1 EV.TreeNode_is_leaf].
      assert (Ni_a : ~ In i (oids (UG.TreeNode_postorder a))).
      { intros H. eapply (NoDup_app_disj3 _ _ i ND H). rewrite in_app_iff. right. now left. }
      assert (Ni_b : ~ In i (oids (UG.TreeNode_postorder b))).
      { intros H. eapply (NoDup_app_disj3 _ _ i NDb' H). now left. }
      assert (Ia : In (EV.TreeNode_id a) (oids (UG.TreeNode_postorder a))) by (apply in_map, root_in_postorder3).
      assert (Ib : In (EV.TreeNode_id b) (oids (UG.TreeNode_postorder b))) by (apply in_map, root_in_postorder3).
      destruct (HAL (EV.TreeNode_node i a b)) as [Hrs NDs].
      { rewrite !in_app_iff. right; right. now left. }
      { reflexivity. }
      assert (Hi0 : forall s k, gsem3 tb2 i s k = default_entry MIN).
      { intros s k. rewrite Fb, Fa by assumption. apply H0. rewrite !in_app_iff. right; right. now left. }
      destruct (species_loop i a b (TC a) (TC b)
                  ltac:(intros E; apply Ni_a; now rewrite E) ltac:(intros E; apply Ni_b; now rewrite E)
                  (HD (EV.TreeNode_node i a b) ltac:(rewrite !in_app_iff; right; right; now left))
                  (HD a ltac:(rewrite !in_app_iff; left; apply root_in_postorder3))
                  (HD b ltac:(rewrite !in_app_iff; right; left; apply root_in_postorder3))
                  (AS ST (EV.TreeNode_node i a b)) tb2 I2 Hrs NDs)
        as [tb3 [E3 [I3 [Sk3 So3]]]].
      { split.
        - intros x k. rewrite Fb by (intros H; exact (Hdisj _ Ia H)). exact (Sa a (root_in_postorder3 a) x k).
        - intros x k. exact (Sb b (root_in_postorder3 b) x k). }
      { intros x k _. apply Hi0. }
      change (EV.sin_species_lca sin) with lcaobj. cbv beta. rewrite E3.
      exists tb3. split; [reflexivity|]. split; [exact I3|]. split.
      + intros u Hu s k. rewrite !in_app_iff in Hu. destruct Hu as [Hu|[Hu|[<-|[]]]].
        * rewrite So3 by (left; intros E; apply Ni_a; rewrite <- E; now apply in_map).
          rewrite Fb by (intros H; eapply Hdisj; [apply in_map; exact Hu|exact H]). now apply Sa.
        * rewrite So3 by (left; intros E; apply Ni_b; rewrite <- E; now apply in_map). now apply Sb.
        * cbn [EV.TreeNode_id utab_o fst snd].
          destruct (existsb (path_eqb s) (sids3 (AS ST (EV.TreeNode_node i a b)))) eqn:Es.
          -- apply (existsb_eqb_In path_eqb path_eqb_spec) in Es.
             unfold sids3 in Es. apply in_map_iff in Es as [rs [<- Hr]]. exact (Sk3 rs k Hr).
          -- apply (existsb_eqb_notIn path_eqb path_eqb_spec) in Es. rewrite So3 by (right; exact Es). apply Hi0.
      + intros n s k Hn. rewrite !map_app, !in_app_iff in Hn. cbn [In map EV.TreeNode_id] in Hn.
        rewrite So3 by (left; intros ->; apply Hn; right; right; now left).
        rewrite Fb, Fa; [reflexivity| |]; intros H; apply Hn; tauto.
  Qed.

  (** ** the whole table *)
  Theorem table_eq_section : NoDup (oids (UG.TreeNode_postorder O)) ->
    (forall u, In u (UG.TreeNode_postorder O) -> EV.TreeNode_is_leaf u = false -> allowed_ok S ST AS u) ->
    (forall u, In u (UG.TreeNode_postorder O) -> UG.dict_get nid_eqb lsets (EV.TreeNode_id u) = Some (LS (EV.TreeNode_id u))) ->
    exists tb, UG.gen_compute_uspfs_table N.eqb path_eqb nid_eqb ANC DIST (fun _ => ST) sin lsets AS (prc rp) = UG.Ok tb /\ inv3 rp tb /\
      (forall u, In u (UG.TreeNode_postorder O) -> forall s k, gsem3 tb (EV.TreeNode_id u) s k = emap tag_ca (TC u (s, k))) /\
      (forall n s k, ~ In n (oids (UG.TreeNode_postorder O)) -> gsem3 tb n s k = default_entry MIN).
  Proof.
    intros ND HAL HD. unfold UG.gen_compute_uspfs_table.
    destruct (gen_table_init_eq (K := key) (A := ca) keqb [TG.mk_DictDimension; TG.mk_DictDimension; TG.mk_DictDimension]
                EG.MergePolicy_MIN (prc rp)) as [t0 [E0 [M0 [R0 [D0 [W0 L0]]]]]].
    rewrite E0. cbn [UG.table_res]. cbv zeta.
    assert (I0 : inv3 rp t0) by (repeat split; auto; now rewrite D0).
    assert (G0 : forall n s k, gsem3 t0 n s k = default_entry MIN).
    { intros n s k. unfold CM.gsem3, sem. now rewrite L0, M0. }
    destruct (object_loop3 O [] t0 I0 ND HAL HD (fun n _ s k => G0 n s k)) as [tb [E [I [Sc F]]]].
    change (EV.sin_object_tree sin) with O. rewrite app_nil_r in E. rewrite E. cbn [UG.gen_compute_uspfs_table_for1].
    exists tb. split; [reflexivity|]. split; [exact I|]. split; [exact Sc|].
    intros n s k Hn. now rewrite F.
  Qed.
End Table3X.

Theorem gen_compute_uspfs_table_eq {lca node_id : Type} (nid_eqb : node_id -> node_id -> bool) (nid_eqb_spec : forall a b, reflect (a = b) (nid_eqb a b)) (lcaobj : lca) :
  Statements.entry_eq_statement nid_eqb lcaobj -> Statements.table_eq_statement nid_eqb lcaobj.
Proof.
  intros HE. unfold Statements.table_eq_statement. intros rp S c ST leafsp syn O AS lsets LS ND HAL HD.
  exact (table_eq_section nid_eqb nid_eqb_spec lcaobj HE rp S c ST leafsp syn O lsets LS AS ND HAL HD).
Qed.

Check @leaf_write. Check @species_loop. Check @object_loop3. Check @gen_compute_uspfs_table_eq.
Print Assumptions gen_compute_uspfs_table_eq.
End TableExact.
