(** Part [ModelPerm] of Proofs/UspfsGenProofs.v: one cell of the USPFS table up to the enumeration order of the species. *)
From Coq Require Import List Bool Arith ZArith NArith Lia Permutation.
From SR Require Gen.UspfsGen Model.Recon Model.Uspfs Base.PathB Base.Ext Model.Entry Model.LcaRec Model.Thl Proofs.PathFacts Proofs.EntryProofs Proofs.EntryGenProofs Proofs.TableGenProofs Gen.EntryGen Gen.TableGen Gen.EvalGen Proofs.ThlProofs Proofs.UspfsProofs Proofs.ThlGenProofs Proofs.EvalGenProofs Gen.ThlGen Proofs.UspfsGenCommon Proofs.UspfsGenStatements.

(* ====================================================================== *)
Module ModelPerm.
(** One cell of the USPFS table up to the enumeration order of the species.
    [ModelO.ucell_o] takes the enumeration of the species ([ds]) and the two value readers ([subA], [subB]) as
    arguments.  Here: the cell only depends on the readers on the cells of the enumerated species ([ucell_o_ext]), and
    on the enumeration as a set ([ucell_o_sim]: same value under every retention policy, same tags as sets under
    ALL, hence a permutation of the tags since the tag lists are duplicate-free). *)

Import SR.Base.PathB SR.Base.Ext SR.Model.Entry SR.Model.Recon SR.Model.LcaRec SR.Model.Thl SR.Model.Uspfs SR.Proofs.EntryProofs SR.Proofs.ThlProofs SR.Proofs.UspfsProofs SR.Proofs.ThlGenProofs.
Import SR.Proofs.UspfsGenCommon.ModelO.
Module Statements := SR.Proofs.UspfsGenStatements.Statements.
Import ListNotations.
Local Open Scope Z_scope.

(* ------------------------------------------------------------------ *)
(** * M3: the readers only matter on the cells of the enumerated species *)
Lemma uone_o_ext S c (f g : uassign -> ext) ll s kind d :
  (forall k, fst k = d -> f k = g k) -> uone_o S c f ll s kind d = uone_o S c g ll s kind d.
Proof. intros E. unfold uone_o. now rewrite (E (d, false) eq_refl), (E (d, true) eq_refl). Qed.

Lemma flat_map_ext_mem {A B} (f g : A -> list B) l : (forall x, In x l -> f x = g x) -> flat_map f l = flat_map g l.
Proof.
  induction l as [|x l IH]; intros E; cbn [flat_map]; [reflexivity|].
  rewrite (E x (or_introl eq_refl)), IH; [reflexivity|]. intros y Hy. apply E. now right.
Qed.

Lemma uchoices_o_ext S c rp (f g : uassign -> ext) ll s kind ds :
  (forall k, In (fst k) ds -> f k = g k) -> uchoices_o S c rp f ll s kind ds = uchoices_o S c rp g ll s kind ds.
Proof.
  intros E. unfold uchoices_o.
  rewrite (flat_map_ext_mem (uone_o S c f ll s kind) (uone_o S c g ll s kind) ds); [reflexivity|].
  intros d Hd. apply uone_o_ext. intros k <-. auto.
Qed.

Theorem ucell_o_ext S c rp (subA subA' subB subB' : uassign -> ext) la lb s kind ds :
  (forall k, In (fst k) ds -> subA k = subA' k) -> (forall k, In (fst k) ds -> subB k = subB' k) ->
  ucell_o S c rp subA subB la lb s kind ds = ucell_o S c rp subA' subB' la lb s kind ds.
Proof.
  intros EA EB. unfold ucell_o, ubatch_o.
  now rewrite (uchoices_o_ext S c rp subA subA' la s kind ds EA), (uchoices_o_ext S c rp subB subB' lb s kind ds EB).
Qed.

(* ------------------------------------------------------------------ *)
(** * M4: the enumeration only matters as a set *)

(** candidate lists with the same members *)
Lemma csim_of_sameset {X} rp (cs cs' : list (ext * option X)) : tagged cs -> tagged cs' -> sameset cs cs' -> csim rp cs cs'.
Proof.
  intros T T' Sm. split; [exact T|]. split; [exact T'|]. split; [|intros _; exact Sm].
  intros v. split; intros [o I]; exists o; now apply Sm.
Qed.

Lemma In_upick i (f : path -> list (nat * (ext * option uassign))) ds x :
  In x (upick_o i (flat_map f ds)) <-> exists d, In d ds /\ In (i, x) (f d).
Proof.
  unfold upick_o. rewrite in_map_iff. split.
  - intros [[j y] [E H]]. cbn [snd] in E. subst y. apply filter_In in H as [H1 H2]. cbn [fst] in H2.
    apply Nat.eqb_eq in H2. subst j. apply in_flat_map in H1. exact H1.
  - intros [k [Hk H]]. exists (i, x). split; [reflexivity|]. apply filter_In. split; [apply in_flat_map; eauto|].
    cbn [fst]. apply Nat.eqb_refl.
Qed.

(** every candidate a species contributes carries a cell of that species *)
Lemma uone_tagged S c (f : uassign -> ext) ll s kind d i v o : In (i, (v, o)) (uone_o S c f ll s kind d) -> exists t, o = Some t.
Proof.
  unfold uone_o.
  repeat match goal with |- context [if ?b then _ else _] => destruct b end; cbn [app In map];
    intuition (try congruence); match goal with H : _ = (i, (v, o)) |- _ => inversion H; eauto end.
Qed.

Lemma upick_sim S c rp (f g : uassign -> ext) ll s kind ds ds' i :
  sameset ds ds' -> (forall k, In (fst k) ds -> f k = g k) ->
  csim rp (upick_o i (flat_map (uone_o S c f ll s kind) ds)) (upick_o i (flat_map (uone_o S c g ll s kind) ds')).
Proof.
  intros Sk E.
  assert (forall d, In d ds -> uone_o S c f ll s kind d = uone_o S c g ll s kind d) as E1.
  { intros d Hd. apply uone_o_ext. intros k <-. auto. }
  apply csim_of_sameset.
  - intros v o I. apply In_upick in I as [d [_ I]]. apply uone_tagged in I. exact I.
  - intros v o I. apply In_upick in I as [d [_ I]]. apply uone_tagged in I. exact I.
  - intros x. rewrite !In_upick. split; intros [d [Hd I]]; exists d.
    + split; [now apply Sk|]. now rewrite <- (E1 d Hd).
    + apply Sk in Hd. split; [exact Hd|]. now rewrite (E1 d Hd).
Qed.

(** the aggregators *)
Lemma uaggp_sim rp l l' : csim rp l l' -> esim rp (uaggp rp l) (uaggp rp l').
Proof. intros C. unfold uaggp. now apply (upd_sim uassign_eqb uassign_eqb_spec). Qed.

(** the five aggregators of a child, one by one *)
Lemma uchoices_o_sim S c rp (f g : uassign -> ext) ll s kind ds ds' :
  sameset ds ds' -> (forall k, In (fst k) ds -> f k = g k) ->
  esim rp (uc_left (uchoices_o S c rp f ll s kind ds)) (uc_left (uchoices_o S c rp g ll s kind ds')) /\
  esim rp (uc_right (uchoices_o S c rp f ll s kind ds)) (uc_right (uchoices_o S c rp g ll s kind ds')) /\
  esim rp (uc_conserved (uchoices_o S c rp f ll s kind ds)) (uc_conserved (uchoices_o S c rp g ll s kind ds')) /\
  esim rp (uc_segment (uchoices_o S c rp f ll s kind ds)) (uc_segment (uchoices_o S c rp g ll s kind ds')) /\
  esim rp (uc_separate (uchoices_o S c rp f ll s kind ds)) (uc_separate (uchoices_o S c rp g ll s kind ds')).
Proof.
  intros Sk E. unfold uchoices_o. cbn [uc_left uc_right uc_conserved uc_segment uc_separate].
  split; [|split; [|split; [|split]]]; apply uaggp_sim; now apply upick_sim.
Qed.

(** one combination of two aggregators *)
Lemma ucomb2_sim rp k (a b a' b' : entry uassign) : esim rp a a' -> esim rp b b' -> csim rp (ucomb2 rp k a b) (ucomb2 rp k a' b').
Proof.
  intros [V1 [N1 S1]] [V2 [N2 S2]]. unfold ucomb2. apply cands_sim. unfold combine.
  apply (upd_sim utag_eqb utag_eqb_spec). rewrite <- V1, <- V2.
  change (csim rp (pairs a b (ucomb k (val a) (val b))) (pairs a' b' (ucomb k (val a) (val b)))).
  repeat split.
  - intros v o I. apply In_pairs in I as [x [y [_ [_ E]]]]. inversion E. eauto.
  - intros v o I. apply In_pairs in I as [x [y [_ [_ E]]]]. inversion E. eauto.
  - intros [o I]. apply In_pairs in I as [x [y [Ia [Ib E]]]]. inversion E; subst.
    destruct (tags a') as [|x' l1] eqn:T1; [rewrite (proj2 N1 eq_refl) in Ia; destruct Ia|].
    destruct (tags b') as [|y' l2] eqn:T2; [rewrite (proj2 N2 eq_refl) in Ib; destruct Ib|].
    exists (Some (x', y')). apply In_pairs. exists x', y'. rewrite T1, T2. repeat split; now left.
  - intros [o I]. apply In_pairs in I as [x [y [Ia [Ib E]]]]. inversion E; subst.
    destruct (tags a) as [|x' l1] eqn:T1; [rewrite (proj1 N1 eq_refl) in Ia; destruct Ia|].
    destruct (tags b) as [|y' l2] eqn:T2; [rewrite (proj1 N2 eq_refl) in Ib; destruct Ib|].
    exists (Some (x', y')). apply In_pairs. exists x', y'. rewrite T1, T2. repeat split; now left.
  - intros I. apply In_pairs in I as [u [w [Ia [Ib ->]]]]. apply In_pairs. exists u, w.
    repeat split; [now apply (S1 H)|now apply (S2 H)].
  - intros I. apply In_pairs in I as [u [w [Ia [Ib ->]]]]. apply In_pairs. exists u, w.
    repeat split; [now apply (S1 H)|now apply (S2 H)].
Qed.

(** the batch of the six combinations *)
Lemma ubatch_o_sim S c rp (subA subA' subB subB' : uassign -> ext) la lb s kind ds ds' :
  sameset ds ds' ->
  (forall k, In (fst k) ds -> subA k = subA' k) -> (forall k, In (fst k) ds -> subB k = subB' k) ->
  csim rp (ubatch_o S c rp subA subB la lb s kind ds) (ubatch_o S c rp subA' subB' la lb s kind ds').
Proof.
  intros SD EA EB. unfold ubatch_o. cbv zeta.
  destruct (uchoices_o_sim S c rp subA subA' la s kind ds ds' SD EA) as [A0 [A1 [A2 [A3 A4]]]].
  destruct (uchoices_o_sim S c rp subB subB' lb s kind ds ds' SD EB) as [B0 [B1 [B2 [B3 B4]]]].
  repeat apply csim_app; apply ucomb2_sim; assumption.
Qed.

(** writing a batch into a cell that does not exist yet *)
Lemma ufirst_write_upd rp b :
  ufirst_write rp b = update utag_eqb MIN rp (default_entry MIN) (if Thl.has_finite b then b else []).
Proof. unfold ufirst_write. now destruct (Thl.has_finite b). Qed.

Lemma ufirst_write_sim rp b b' : csim rp b b' -> esim rp (ufirst_write rp b) (ufirst_write rp b').
Proof.
  intros C. rewrite !ufirst_write_upd. apply (upd_sim utag_eqb utag_eqb_spec).
  pose proof C as [_ [_ [V _]]]. rewrite (has_finite_vsame b b' V). destruct (Thl.has_finite b'); [exact C|apply csim_nil].
Qed.

(** the main theorem; no hypothesis on the costs is needed: the candidates of one [ucomb2] all carry the same value
    whatever that value is *)
Theorem ucell_o_sim : Statements.ucell_o_sim_statement.
Proof.
  unfold Statements.ucell_o_sim_statement. intros S c rp subA subA' subB subB' la lb s kind ds ds' SD EA EB.
  unfold ucell_o. apply ufirst_write_sim. now apply ubatch_o_sim.
Qed.

(* ------------------------------------------------------------------ *)
(** * M5: what [esim] says *)
Corollary ucell_o_sim_val S c rp (subA subA' subB subB' : uassign -> ext) la lb s kind ds ds' :
  sameset ds ds' ->
  (forall k, In (fst k) ds -> subA k = subA' k) -> (forall k, In (fst k) ds -> subB k = subB' k) ->
  val (ucell_o S c rp subA subB la lb s kind ds) = val (ucell_o S c rp subA' subB' la lb s kind ds').
Proof. intros SD EA EB. exact (proj1 (ucell_o_sim S c rp subA subA' subB subB' la lb s kind ds ds' SD EA EB)). Qed.

Corollary ucell_o_sim_tags_empty S c rp (subA subA' subB subB' : uassign -> ext) la lb s kind ds ds' :
  sameset ds ds' ->
  (forall k, In (fst k) ds -> subA k = subA' k) -> (forall k, In (fst k) ds -> subB k = subB' k) ->
  (tags (ucell_o S c rp subA subB la lb s kind ds) = [] <-> tags (ucell_o S c rp subA' subB' la lb s kind ds') = []).
Proof. intros SD EA EB. exact (proj1 (proj2 (ucell_o_sim S c rp subA subA' subB subB' la lb s kind ds ds' SD EA EB))). Qed.

Corollary ucell_o_sim_tags S c (subA subA' subB subB' : uassign -> ext) la lb s kind ds ds' :
  sameset ds ds' ->
  (forall k, In (fst k) ds -> subA k = subA' k) -> (forall k, In (fst k) ds -> subB k = subB' k) ->
  sameset (tags (ucell_o S c RALL subA subB la lb s kind ds)) (tags (ucell_o S c RALL subA' subB' la lb s kind ds')).
Proof.
  intros SD EA EB.
  exact (proj2 (proj2 (ucell_o_sim S c RALL subA subA' subB subB' la lb s kind ds ds' SD EA EB)) eq_refl).
Qed.

(** under ALL the tag list of a cell is duplicate-free, whatever was enumerated *)
Lemma ufirst_write_all_nodup b : NoDup (tags (ufirst_write RALL b)).
Proof. rewrite ufirst_write_upd. apply (entry_tags_all_nodup utag_eqb utag_eqb_spec MIN). Qed.

Lemma ucell_o_all_nodup S c (subA subB : uassign -> ext) la lb s kind ds : NoDup (tags (ucell_o S c RALL subA subB la lb s kind ds)).
Proof. unfold ucell_o. apply ufirst_write_all_nodup. Qed.

Corollary ucell_o_sim_tags_perm S c (subA subA' subB subB' : uassign -> ext) la lb s kind ds ds' :
  sameset ds ds' ->
  (forall k, In (fst k) ds -> subA k = subA' k) -> (forall k, In (fst k) ds -> subB k = subB' k) ->
  Permutation (tags (ucell_o S c RALL subA subB la lb s kind ds)) (tags (ucell_o S c RALL subA' subB' la lb s kind ds')).
Proof.
  intros SD EA EB. apply NoDup_Permutation; [apply ucell_o_all_nodup|apply ucell_o_all_nodup|].
  exact (ucell_o_sim_tags S c subA subA' subB subB' la lb s kind ds ds' SD EA EB).
Qed.

(** the same, stated for the model's [ucell]: any duplicate-free or not enumeration of the species with the same members as
    [snodes S], and any readers that agree with the tables on the cells of these species *)
Corollary ucell_enum_sim S c rp ta tb (subA subB : uassign -> ext) la lb s kind ds :
  sameset (snodes S) ds ->
  (forall k, In (fst k) (snodes S) -> val (uread ta k) = subA k) -> (forall k, In (fst k) (snodes S) -> val (uread tb k) = subB k) ->
  esim rp (ucell S c rp ta tb la lb s kind) (ucell_o S c rp subA subB la lb s kind ds).
Proof.
  intros SD EA EB. rewrite (ucell_o_eq S c rp ta tb la lb s kind).
  exact (ucell_o_sim S c rp (fun k => val (uread ta k)) subA (fun k => val (uread tb k)) subB la lb s kind (snodes S) ds SD EA EB).
Qed.

Print Assumptions ucell_o_eq.
Print Assumptions ucell_o_ext.
Print Assumptions ucell_o_sim.
Print Assumptions ucell_o_sim_val.
Print Assumptions ucell_o_sim_tags_empty.
Print Assumptions ucell_o_sim_tags.
Print Assumptions ucell_o_all_nodup.
Print Assumptions ucell_o_sim_tags_perm.
Print Assumptions ucell_enum_sim.
End ModelPerm.
