(** review C, item 11: generated unordered solvers = exactly the minimum-cost valid solutions *)
From Coq Require Import List Bool Arith ZArith NArith Lia Permutation.
From SR Require Import Base.PathB Base.Ext Model.Subseq Model.Entry Model.Recon Model.LcaRec Model.Thl Model.Spfs Model.Uspfs
  Proofs.SubseqProofs Proofs.PathFacts Proofs.ReconProofs Proofs.LabelCostProofs Proofs.ThlProofs
  Proofs.SpfsProofs Proofs.SpfsFinal Proofs.UspfsProofs Proofs.UspfsFinal Proofs.AllAnyProofs.
From SR Require Gen.UspfsGen Proofs.UspfsGenStage1 Proofs.UspfsGenProofs Proofs.UspfsGenLink
  Proofs.EvalGenProofs Proofs.EntryGenProofs Proofs.UspfsGenCommon.
Import ListNotations.
Local Open Scope Z_scope.
(** * B (review item 11), C03: the generated unordered solvers return exactly the minimum-cost valid solutions *)
Module PartB_C03.
Import SR.Proofs.EntryGenProofs SR.Proofs.EvalGenProofs.
Import SR.Proofs.UspfsGenCommon.Common SR.Proofs.UspfsGenCommon.Embed.
Import SR.Proofs.UspfsGenLink.UspfsLink.

Section C03.
  Context {lca node_id olca : Type} (nid_eqb : node_id -> node_id -> bool).
  Hypothesis nid_eqb_spec : forall a b, reflect (a = b) (nid_eqb a b).
  Notation tree := (EV.TreeNode node_id).
  Notation spout := (@UG.spout_state fam path lca node_id).
  Variables (lcaobj : lca) (S : stree) (c : costs) (leafsp : node_id -> path) (syn : node_id -> list fam) (O : tree).
  Variables (missing : node_id -> path) (missing_syn : node_id -> list fam) (ord_infos : list ca -> list ca).
  Variables (fam_order sort_synteny_fn : list fam -> list fam).
  Variable oeqb : spout -> spout -> bool.
  Variables (olca_of : tree -> olca) (olca_call : olca -> list node_id -> node_id)
            (syn_items : (node_id -> list fam) -> list (node_id * list fam)) (node_order : list node_id -> list node_id).
  Notation ST := (sembed3 S []).
  Notation ot := (otree_of leafsp syn).
  Notation sin := (EV.mk_sin O lcaobj leafsp (stsocc c) syn).
  Notation DIST := (fun (_ : lca) => dist).
  Notation ANC := (fun (_ : lca) => anc).
  Notation SANC := (fun (_ : lca) => sanc).
  Notation COMP := (fun (_ : lca) => comparable).
  Notation LCP := (fun (_ : lca) => lcp).
  Notation LT := (lt_out nid_eqb O missing missing_syn).
  Notation WW := (W nid_eqb S c leafsp syn O missing missing_syn ord_infos fam_order sort_synteny_fn oeqb
                    olca_of olca_call syn_items node_order).

  (** the specification: [t] is a canonical valid labelling (base variant: on the LCA mapping) whose cost is minimal
      among ALL valid labellings, canonical or not *)
  Definition umin_sol (extended : bool) (t : ltree) : Prop :=
    usol S extended (ot O) t /\ forall t', uall_sol S extended (ot O) t' -> ele (ucost c (ot O) t) (ucost c (ot O) t').

  (* the model half, in the form the two corollaries use *)
  Lemma model_exact extended : WW -> ucoherent c ->
    exists E, uspfs S c RALL extended (ot O) = Some E /\ tags E <> [] /\ NoDup (tags E) /\
      forall t, In t (tags E) <-> umin_sol extended t.
  Proof.
    intros [Hh [_ [_ [Lv _]]]] Hc.
    destruct (uspfs_all_exact_global S c extended (ot O) Hh Hc Lv) as [E [HE [ND Ex]]].
    destruct (uspfs_all_nonempty S c extended (ot O) Hh Hc Lv) as [E' [HE' NE]].
    rewrite HE in HE'. injection HE' as <-. exists E. auto.
  Qed.

  Lemma finish (R : UG.res (list spout)) E :
    (exists outs, R = UG.Ok outs /\ Permutation (map LT outs) (tags E) /\ (outs = [] <-> tags E = [])) ->
    tags E <> [] -> NoDup (tags E) -> forall P : ltree -> Prop, (forall t, In t (tags E) <-> P t) ->
    exists outs, R = UG.Ok outs /\ outs <> [] /\ NoDup (map LT outs) /\ forall t, In t (map LT outs) <-> P t.
  Proof.
    intros [outs [Eo [Pm Em]]] NE ND P Ex. exists outs. split; [exact Eo|]. split; [|split].
    - intros X. apply NE. now apply Em.
    - eapply Permutation_NoDup; [apply Permutation_sym; exact Pm|exact ND].
    - intros t. rewrite <- Ex. split; intros H; [eapply Permutation_in; [exact Pm|exact H]|
        eapply Permutation_in; [apply Permutation_sym; exact Pm|exact H]].
  Qed.

  (** [usreconcile_extended_uspfs], generated code, ALL policy: it succeeds, and its outputs read as labelled trees are,
      without repetition, exactly the minimum-cost valid unordered solutions (at least one) *)
  Theorem c03_gen_extended_optimum : WW -> ucoherent c ->
    exists outs,
      UG.gen_usreconcile_extended_uspfs (fam := fam) N.eqb path_eqb nid_eqb ANC LCP DIST (fun _ => ST) olca_of olca_call syn_items fam_order
        node_order SANC COMP oeqb missing missing_syn ord_infos sort_synteny_fn sin (prc RALL) = UG.Ok outs /\
      outs <> [] /\ NoDup (map LT outs) /\
      forall t, In t (map LT outs) <-> umin_sol true t.
  Proof.
    intros HW Hc. destruct (model_exact true HW Hc) as [E [HE [NE [ND Ex]]]].
    pose proof (gen_usreconcile_extended_uspfs_model nid_eqb nid_eqb_spec lcaobj S c leafsp syn O missing missing_syn ord_infos
                  fam_order sort_synteny_fn oeqb olca_of olca_call syn_items node_order HW) as M.
    rewrite HE in M. exact (finish _ E M NE ND _ Ex).
  Qed.

  (** [usreconcile_base_uspfs]: the same among the labellings of the LCA species mapping *)
  Theorem c03_gen_base_optimum : WW -> ucoherent c ->
    exists outs,
      UG.gen_usreconcile_base_uspfs (fam := fam) N.eqb path_eqb nid_eqb ANC LCP DIST (fun _ => ST) olca_of olca_call syn_items fam_order
        node_order SANC COMP oeqb missing missing_syn ord_infos sort_synteny_fn sin (prc RALL) = UG.Ok outs /\
      outs <> [] /\ NoDup (map LT outs) /\
      forall t, In t (map LT outs) <-> umin_sol false t.
  Proof.
    intros HW Hc. destruct (model_exact false HW Hc) as [E [HE [NE [ND Ex]]]].
    pose proof (gen_usreconcile_base_uspfs_model nid_eqb nid_eqb_spec lcaobj S c leafsp syn O missing missing_syn ord_infos
                  fam_order sort_synteny_fn oeqb olca_of olca_call syn_items node_order HW) as M.
    rewrite HE in M. exact (finish _ E M NE ND _ Ex).
  Qed.
End C03.

Print Assumptions c03_gen_extended_optimum.
Print Assumptions c03_gen_base_optimum.

(* the hypotheses are satisfiable: the instance of [UspfsLink.Ex] *)
Example c03_hyps_satisfiable :
  W Nat.eqb Ex.S0 Ex.c0 Ex.leafsp0 Ex.syn0 Ex.O0 Ex.miss0 Ex.msyn0 Ex.ord0 Ex.fam_order0 Ex.sort0 Ex.oeqb0 (fun _ => tt)
    Ex.E1.olca_call1 Ex.E1.items1 Ex.E1.order1 /\ ucoherent Ex.c0.
Proof. split; [exact Ex.W_satisfiable|vm_compute; repeat split; discriminate]. Qed.
Print Assumptions c03_hyps_satisfiable.
End PartB_C03.
