(** [tree_from_triples] (BUILD) as generated in [Gen/BuildGen.v] from [src/superrec2/utils/trees.py]
    by [translator/build_gen.py] is equal to the hand-written model [Model/Triples.v]
    ([tree_from_triples] = [build] at fuel [length leaves]), error cases included.

    Representation.  Leaf names are values of any type [A] compared with [eqb]; the model takes
    naturals: [enc : A -> nat] is any encoding under which [eqb] is equality ([Henc]; for [A = nat],
    [eqb = Nat.eqb] it is the identity: [gen_tree_from_triples_nat_eq]).  A triple is the Coq triple of
    its names.  An ete3 tree is built by [Tree()] / [Tree(name=x)] ([B.Tree_node None []] /
    [B.Tree_node (Some x) []]) and [add_child] (append to the children): the generated function
    returns a [B.Tree A].  The model's [tree] embeds into that type by [emb]: [Leaf a] is the node
    named [a] without children, [Node cs] the unnamed node with the embedded children ([emb] is
    injective: [emb_inj]).  The theorem says: the generated tree with its names encoded ([tmap]) IS
    the embedding of the model's tree -- in particular every leaf is named, every internal node
    unnamed, and the order of the children is the model's.

    Fuel.  The generated recursion runs on fuel [S (length leaves)] and tests it on entry, the model on
    [length leaves] and tests it only when there are at least three leaves.  [rec_eq] shows
    [gen_rec (S f) = build f] whenever [build f] does not run out of fuel; [build_sound]
    (Proofs/TriplesProofs.v) shows the model never does on duplicate-free leaves and triples over
    them ([gen_tree_from_triples_sound]). *)
From Coq Require Import List Bool Arith ZArith NArith Lia ZifyBool Permutation.
From SR Require Import Model.DisjointSet Model.Triples Proofs.DisjointSetProofs Proofs.DsuGenProofs
  Proofs.DsuBinaryGenProofs.
From SR Require Proofs.TriplesProofs.
From SR Require Gen.DsuGen Gen.BuildGen.
Import ListNotations.
Module B := SR.Gen.BuildGen.
Module G := SR.Gen.DsuGen.

Notation nats := (map N.to_nat).

Definition cerrB (e : B.err) : err :=
  match e with B.IndexError => IndexError | B.OutOfFuel => OutOfFuel | B.KeyError => KeyError end.

Lemma cerrB_dsu (e : G.err) : cerrB (B.dsu_err e) = cerr e.
Proof. destruct e; reflexivity. Qed.

(* the model's trees inside the trees the generated code builds *)
Fixpoint emb (t : tree) : B.Tree nat :=
  match t with
  | Leaf a => B.Tree_node (Some a) []
  | Node cs => B.Tree_node None (map emb cs)
  end.

Lemma emb_inj : forall t t', emb t = emb t' -> t = t'.
Proof.
  fix IH 1. intros [a|cs] [a'|cs'] H; cbn in H; try discriminate.
  - injection H as ->. reflexivity.
  - injection H as H. f_equal. revert cs' H.
    induction cs as [|c cs IHcs]; intros [|c' cs'] H; cbn in H; try discriminate; [reflexivity|].
    injection H as Hc Hcs. f_equal; [apply IH; exact Hc|apply IHcs; exact Hcs].
Qed.

Definition CM (r : res (option tree)) : res (option (B.Tree nat)) :=
  match r with Ok o => Ok (option_map emb o) | Err e => Err e end.

Section Tie.
Context {A : Type} (eqb : A -> A -> bool) (enc : A -> nat).
Hypothesis Henc : forall a b, eqb a b = (enc a =? enc b).

Notation encs := (map enc).

Definition enct (t : A * A * A) : triple := let '(a, b, c) := t in (enc a, enc b, enc c).

(* a built tree with its names encoded *)
Fixpoint tmap (t : B.Tree A) : B.Tree nat :=
  match t with B.Tree_node n cs => B.Tree_node (option_map enc n) (map tmap cs) end.

Definition CG (r : B.res (option (B.Tree A))) : res (option (B.Tree nat)) :=
  match r with B.Ok o => Ok (option_map tmap o) | B.Err e => Err (cerrB e) end.

Definition CF (fl : B.flow (B.Tree A) (option (B.Tree A))) : res (option (B.Tree nat)) :=
  match fl with
  | B.Next r => Ok (Some (tmap r))
  | B.Ret r => Ok (option_map tmap r)
  | B.Fail e => Err (cerrB e)
  end.

(* ------------------------------------------------------------------ *)
(** * leaf_index *)

Lemma adict_get_set : forall (d : list (A * N)) y v x,
  B.adict_get eqb (B.adict_set eqb d y v) x = if eqb x y then Some v else B.adict_get eqb d x.
Proof.
  induction d as [|[k' v'] d IH]; intros y v x; cbn [B.adict_set B.adict_get].
  - reflexivity.
  - destruct (eqb y k') eqn:Ey; cbn [B.adict_get]; [|rewrite IH]; rewrite !Henc in *;
      destruct (Nat.eqb_spec (enc y) (enc k')); try discriminate;
      destruct (Nat.eqb_spec (enc x) (enc k')); destruct (Nat.eqb_spec (enc x) (enc y)); try reflexivity; congruence.
Qed.

Lemma enum_dict_get : forall xs (d : list (A * N)) i x,
  B.adict_get eqb (B.enum_dict9 eqb d i xs) x =
    match index_of (enc x) (encs xs) with
    | Some j => Some (i + N.of_nat j)%N
    | None => B.adict_get eqb d x
    end.
Proof.
  induction xs as [|y xs IH]; intros d i x; cbn [B.enum_dict9 map index_of]; [reflexivity|].
  rewrite IH. destruct (index_of (enc x) (encs xs)) as [j|].
  - f_equal. lia.
  - rewrite adict_get_set, Henc. destruct (enc x =? enc y); [f_equal; lia|reflexivity].
Qed.

Lemma leaf_index_get leaves x :
  B.adict_get eqb (B.enum_dict9 eqb [] 0%N leaves) x = option_map N.of_nat (index_of (enc x) (encs leaves)).
Proof. rewrite enum_dict_get. destruct (index_of (enc x) (encs leaves)); reflexivity. Qed.

(* ------------------------------------------------------------------ *)
(** * the loop over the triples *)

Lemma for1_eq leaves : forall ts s,
  match B.gen_tree_from_triples_for1 eqb (B.enum_dict9 eqb [] 0%N leaves) ts s with
  | B.Next s' => unite_triples (encs leaves) (map enct ts) (st s) = Ok (st s')
  | B.Ret _ => False
  | B.Fail e => unite_triples (encs leaves) (map enct ts) (st s) = Err (cerrB e)
  end.
Proof.
  induction ts as [|[[a b] c] ts IH]; intros s; [reflexivity|].
  cbn [B.gen_tree_from_triples_for1 map enct unite_triples]. unfold lookup.
  rewrite !leaf_index_get.
  destruct (index_of (enc a) (encs leaves)) as [ia|]; cbn [option_map bind]; [|reflexivity].
  destruct (index_of (enc b) (encs leaves)) as [ib|]; cbn [option_map bind]; [|reflexivity].
  pose proof (unite_cases s (N.of_nat ia) (N.of_nat ib)) as U. rewrite !Nat2N.id in U.
  destruct (G.gen_dsu_unite s (N.of_nat ia) (N.of_nat ib)) as [[s1 r]|e]; rewrite U; cbn [B.dsu_res bind].
  - apply IH.
  - now rewrite cerrB_dsu.
Qed.

(* ------------------------------------------------------------------ *)
(** * group_leaves, group_triples *)

Lemma gets_eq (xs : list A) : forall g,
  get_all (encs xs) (nats g) = match B.list_gets9 xs g with Some l => Ok (encs l) | None => Err IndexError end.
Proof.
  induction g as [|i g IH]; [reflexivity|]. cbn [map get_all B.list_gets9]. unfold get. rewrite nth_error_map.
  destruct (nth_error xs (N.to_nat i)) as [v|]; cbn [option_map bind]; [|reflexivity].
  rewrite IH. destruct (B.list_gets9 xs g); reflexivity.
Qed.

Lemma mem_eq (c : A) (l : list A) : existsb (fun y' => eqb y' c) l = mem (enc c) (encs l).
Proof.
  unfold mem. induction l as [|y l IH]; [reflexivity|]. cbn [existsb map]. now rewrite IH, Henc, Nat.eqb_sym.
Qed.

Lemma filter_eq (l : list A) (ts : list (A * A * A)) :
  map enct (filter (fun triple : A * A * A =>
                      let '(c'1, c'2, c'3) := triple in
                      (existsb (fun y' => eqb y' c'1) l && existsb (fun y' => eqb y' c'2) l) &&
                      existsb (fun y' => eqb y' c'3) l) ts) =
    filter (inside (encs l)) (map enct ts).
Proof.
  induction ts as [|[[a b] c] ts IH]; [reflexivity|]. cbn [filter map enct inside].
  rewrite !mem_eq. destruct (mem (enc a) (encs l) && mem (enc b) (encs l) && mem (enc c) (encs l)); cbn [map enct]; now rewrite IH.
Qed.

(* ------------------------------------------------------------------ *)
(** * the loop over the groups (the local [fix] of the generated function) *)

Definition loop2 (rec : list A -> list (A * A * A) -> B.res (option (B.Tree A))) (leaves : list A)
    (triples : list (A * A * A)) :=
  fix gen_tree_from_triples_for2 (it' : list (list N)) (root : B.Tree A) {struct it'}
      : B.flow (B.Tree A) (option (B.Tree A)) :=
    match it' with
    | nil => B.Next root
    | cons group it'' =>
        match B.list_gets9 leaves group with
        | None => B.Fail B.IndexError
        | Some group_leaves =>
            let group_triples :=
              filter (fun triple : A * A * A =>
                        let '(c'1, c'2, c'3) := triple in
                        andb (andb (existsb (fun y' => eqb y' c'1) group_leaves)
                                   (existsb (fun y' => eqb y' c'2) group_leaves))
                             (existsb (fun y' => eqb y' c'3) group_leaves)) triples in
            match rec group_leaves group_triples with
            | B.Err e' => B.Fail e'
            | B.Ok t'4 =>
                let subtree := t'4 in
                match subtree with
                | None => B.Ret None
                | Some subtree =>
                    let root := B.Tree_add_child root subtree in
                    gen_tree_from_triples_for2 it'' root
                end
            end
        end
    end.

Lemma loop2_eq rec_g rec_m leaves triples :
  (forall l ts, rec_m (encs l) (map enct ts) <> Err OutOfFuel ->
                CG (rec_g l ts) = CM (rec_m (encs l) (map enct ts))) ->
  forall gs cs acc, map tmap cs = map emb acc ->
    build_groups rec_m (encs leaves) (map enct triples) (map nats gs) acc <> Err OutOfFuel ->
    CF (loop2 rec_g leaves triples gs (B.Tree_node None cs)) =
      CM (build_groups rec_m (encs leaves) (map enct triples) (map nats gs) acc).
Proof.
  intros Hrec. induction gs as [|g gs IH]; intros cs acc Hcs Hne.
  - cbn. now rewrite Hcs.
  - cbn [loop2 map build_groups] in *. rewrite gets_eq in *.
    destruct (B.list_gets9 leaves g) as [l|]; cbn [bind] in *; [|reflexivity].
    cbv zeta. rewrite <- filter_eq in *.
    set (ts' := filter _ triples) in *.
    specialize (Hrec l ts').
    destruct (rec_m (encs l) (map enct ts')) as [o|e] eqn:Em; cbn [bind] in *.
    + assert (CG (rec_g l ts') = CM (Ok o)) as H by (apply Hrec; discriminate).
      destruct (rec_g l ts') as [o'|e']; cbn in H; [|discriminate]. injection H as H.
      destruct o as [s|], o' as [s'|]; cbn in H; try discriminate; [|reflexivity].
      injection H as H. cbn [B.Tree_add_child]. apply IH; [|exact Hne].
      rewrite !map_app. cbn [map]. now rewrite Hcs, H.
    + assert (e <> OutOfFuel) as Ne by (intros ->; apply Hne; reflexivity).
      assert (CG (rec_g l ts') = CM (Err e)) as H by (apply Hrec; congruence).
      destruct (rec_g l ts') as [o'|e']; cbn in H; [discriminate|]. injection H as <-. reflexivity.
Qed.

(* ------------------------------------------------------------------ *)
(** * tree_from_triples *)

Lemma len3 {X} (a b c : X) rest k : (k = 1 \/ k = 2)%N -> N.eqb (N.of_nat (length (a :: b :: c :: rest))) k = false.
Proof. intros H. apply N.eqb_neq. cbn [length]. lia. Qed.

Lemma rec_eq : forall f leaves triples,
  build f (encs leaves) (map enct triples) <> Err OutOfFuel ->
  CG (B.gen_tree_from_triples_rec eqb (S f) leaves triples) = CM (build f (encs leaves) (map enct triples)).
Proof.
  induction f as [|f IH]; intros leaves triples Hne;
    (destruct leaves as [|a [|b [|c rest]]]; [reflexivity|reflexivity|reflexivity|]).
  - exfalso. apply Hne. reflexivity.
  - remember (a :: b :: c :: rest) as leaves eqn:EL.
    assert (build (S f) (encs leaves) (map enct triples) =
            (d <- unite_triples (encs leaves) (map enct triples) (make (length (encs leaves))) ;;
             if (len d <=? 1)%Z then Ok None
             else ' (_, gs) <- to_list d ;; build_groups (build f) (encs leaves) (map enct triples) gs [])) as EB
      by (subst leaves; reflexivity).
    rewrite EB in *. clear EB.
    cbn [B.gen_tree_from_triples_rec]. cbv zeta beta.
    replace (B.is_empty leaves) with false by (subst leaves; reflexivity). cbn [negb].
    rewrite ?(N.eqb_sym 1%N), ?(N.eqb_sym 2%N).      (* ([1 == len(leaves)] as well as [len(leaves) == 1]) *)
    rewrite !(fun k H => eq_trans (f_equal (fun l => N.eqb (N.of_nat (length l)) k) EL) (len3 a b c rest k H))
      by (auto).
    clear a b c rest EL.
    (* DisjointSet(len(leaves)) *)
    unfold G.gen_dsu_init. cbn [B.dsu_res].
    set (s0 := G.mk_dsu _ _ _).
    assert (st s0 = make (length (encs leaves))) as Es0.
    { unfold s0, st, make. cbn [G.dsu_parent G.dsu_rank G.dsu_groups].
      rewrite nats_of_nats, nats_repeat, Nat2N.id, map_length, nat_N_Z. reflexivity. }
    rewrite <- Es0 in *.
    (* the loop over the triples *)
    pose proof (for1_eq leaves triples s0) as F1.
    destruct (B.gen_tree_from_triples_for1 eqb (B.enum_dict9 eqb [] 0%N leaves) triples s0) as [s1|r|e];
      [|contradiction|rewrite F1; reflexivity].
    rewrite F1 in *. cbn [bind] in *.
    (* len(partition) <= 1 *)
    rewrite gen_dsu_len_eq. cbn [B.dsu_res]. unfold len in *.
    change (groups (st s1)) with (G.dsu_groups s1) in *.
    (* (any way of writing the test: [len <= 1], [len < 2], ..) *)
    try match goal with
        | |- context [if ?c then B.Ok None else _] =>
            replace c with (G.dsu_groups s1 <=? 1)%Z by (destruct (Z.leb_spec (G.dsu_groups s1) 1); lia)
        end.
    destruct (G.dsu_groups s1 <=? 1)%Z; [reflexivity|].
    (* partition.to_list() *)
    pose proof (gen_dsu_to_list_eq s1) as TL.
    destruct (G.gen_dsu_to_list s1) as [[s2 gs]|e]; cbn [cres cpair fst snd] in TL; rewrite <- TL in *;
      cbn [B.dsu_res bind] in *; [|cbn [CG CM]; now rewrite cerrB_dsu].
    unfold cpair in *. cbn [fst snd] in *.
    (* the loop over the groups *)
    pose proof (loop2_eq (B.gen_tree_from_triples_rec eqb (S f)) (build f) leaves triples IH gs [] [] eq_refl Hne) as L2.
    unfold loop2 in L2.
    match goal with
    | |- CG (match ?X with B.Next _ => _ | B.Ret _ => _ | B.Fail _ => _ end) = _ =>
        match type of L2 with CF ?Y = _ => change X with Y end
    end.
    rewrite <- L2.
    match goal with |- CG (match ?X with B.Next _ => _ | B.Ret _ => _ | B.Fail _ => _ end) = _ => destruct X end;
      reflexivity.
Qed.

Theorem gen_tree_from_triples_eq (leaves : list A) (triples : list (A * A * A)) :
  tree_from_triples (encs leaves) (map enct triples) <> Err OutOfFuel ->
  CG (B.gen_tree_from_triples eqb leaves triples) = CM (tree_from_triples (encs leaves) (map enct triples)).
Proof.
  unfold B.gen_tree_from_triples, tree_from_triples. rewrite map_length. apply rec_eq.
Qed.

(* the hypothesis holds, and the result is a tree displaying every triple or [None], whenever the
   leaves are distinct and every triple is a proper triple over them (Proofs/TriplesProofs.v) *)
Corollary gen_tree_from_triples_sound (leaves : list A) (triples : list (A * A * A)) :
  NoDup (encs leaves) ->
  (forall tr, In tr (map enct triples) -> TriplesProofs.proper (encs leaves) tr) ->
  B.gen_tree_from_triples eqb leaves triples = B.Ok None /\
    tree_from_triples (encs leaves) (map enct triples) = Ok None
  \/ exists t t', B.gen_tree_from_triples eqb leaves triples = B.Ok (Some t) /\ tmap t = emb t' /\
       tree_from_triples (encs leaves) (map enct triples) = Ok (Some t') /\
       Permutation (leaves_of t') (encs leaves) /\
       forall tr, In tr (map enct triples) -> TriplesProofs.displays t' tr.
Proof.
  intros ND PR.
  destruct (TriplesProofs.build_sound (encs leaves) (map enct triples) ND PR) as [E|(t' & E & P & D)];
    pose proof (gen_tree_from_triples_eq leaves triples) as H; rewrite E in H;
    specialize (H ltac:(discriminate));
    destruct (B.gen_tree_from_triples eqb leaves triples) as [[t|]|e]; cbn in H; try discriminate.
  - left. split; [reflexivity|exact E].
  - right. injection H as H. exists t, t'. repeat split; assumption.
Qed.

End Tie.

(* names that are naturals: no encoding *)
Lemma tmap_id : forall t : B.Tree nat, tmap (fun x => x) t = t.
Proof.
  fix IH 1. intros [n cs]. cbn. f_equal; [destruct n; reflexivity|].
  induction cs as [|c cs IHcs]; [reflexivity|]. cbn. now rewrite IH, IHcs.
Qed.

Lemma enct_id (ts : list triple) : map (enct (fun x => x)) ts = ts.
Proof. induction ts as [|[[a b] c] ts IH]; [reflexivity|]. cbn. now rewrite IH. Qed.

Theorem gen_tree_from_triples_nat_eq (leaves : list nat) (triples : list triple) :
  tree_from_triples leaves triples <> Err OutOfFuel ->
  match B.gen_tree_from_triples Nat.eqb leaves triples with
  | B.Ok o => Ok o
  | B.Err e => Err (cerrB e)
  end = CM (tree_from_triples leaves triples).
Proof.
  intros H.
  pose proof (gen_tree_from_triples_eq Nat.eqb (fun x => x) (fun a b => eq_refl) leaves triples) as E.
  rewrite map_id, enct_id in E. specialize (E H). rewrite <- E.
  destruct (B.gen_tree_from_triples Nat.eqb leaves triples) as [[t|]|e]; cbn; [rewrite tmap_id| |]; reflexivity.
Qed.

(* the hypotheses are satisfiable and the generated code runs: leaves 0..3 with the triples 01|2 and
   01|3 give the tree ((0,1),2,3) *)
Example gen_tree_from_triples_example :
  let leaves := [0; 1; 2; 3] in
  let triples := [(0, 1, 2); (0, 1, 3)] in
  NoDup leaves /\ (forall tr, In tr triples -> TriplesProofs.proper leaves tr) /\
  tree_from_triples leaves triples <> Err OutOfFuel /\
  B.gen_tree_from_triples Nat.eqb leaves triples =
    B.Ok (Some (emb (Node [Node [Leaf 0; Leaf 1]; Leaf 2; Leaf 3]))).
Proof.
  cbv zeta. split; [repeat constructor; cbn; intuition lia|]. split.
  - intros tr [<-|[<-|[]]]; cbn; repeat split; try lia; auto.
  - split; [vm_compute; discriminate|vm_compute; reflexivity].
Qed.

Print Assumptions gen_tree_from_triples_eq.
Print Assumptions gen_tree_from_triples_sound.
Print Assumptions gen_tree_from_triples_nat_eq.
Print Assumptions gen_tree_from_triples_example.
