(** review C, item 4: reconcile_thl under ANY *)
From Coq Require Import List Bool ZArith NArith Lia Permutation.
From SR Require Import Base.PathB Base.Ext Model.Entry Model.Recon Model.Thl
  Proofs.PathFacts Proofs.EntryProofs Proofs.ReconProofs Proofs.ExhProofs Proofs.ThlProofs Proofs.EntryGenProofs Proofs.EvalGenProofs
  Proofs.TableGenProofs Proofs.DpProofs Proofs.ThlGenProofs Proofs.AllAnyProofs Proofs.ThlFinal.
From SR Require Gen.EntryGen Gen.TableGen Gen.EvalGen Gen.ThlGen.
Import ListNotations.
Local Open Scope Z_scope.

Module PartCthl.

(* ------------------------------------------------------------------ *)
(** * Entries under ANY against entries under ALL
    [esub e e']: the same value, tags empty together, every tag of [e] is a tag of [e'].
    [csub cs cs']: candidate lists, all tagged, with the same values, [cs] included in [cs']. *)
Section Sub.
  Context {X : Type} (eqb : X -> X -> bool).
  Hypothesis eqb_spec : forall x y, reflect (x = y) (eqb x y).

  Definition esub (e e' : entry X) : Prop :=
    val e = val e' /\ (tags e = [] <-> tags e' = []) /\ (forall t, In t (tags e) -> In t (tags e')).
  Definition csub (cs cs' : list (ext * option X)) : Prop :=
    tagged cs /\ tagged cs' /\ vsame cs cs' /\ (forall x, In x cs -> In x cs').

  Notation upd rp cs := (update eqb MIN rp (default_entry MIN) cs).

  Lemma upd_val_any_all cs cs' : vsame cs cs' -> val (upd RANY cs) = val (upd RALL cs').
  Proof.
    intros V. rewrite (upd_val_vsame eqb RANY cs cs' V).
    apply (upd_val_set eqb cs' cs' (fun x => iff_refl _) RANY RALL).
  Qed.

  Lemma upd_sub cs cs' : csub cs cs' -> esub (upd RANY cs) (upd RALL cs').
  Proof.
    intros [Tg [Tg' [V I]]]. pose proof (upd_val_any_all cs cs' V) as Ev. split; [exact Ev|]. split.
    - rewrite (upd_tags_empty eqb eqb_spec RANY cs ltac:(discriminate) Tg),
        (upd_tags_empty eqb eqb_spec RALL cs' ltac:(discriminate) Tg'), <- Ev.
      now rewrite (V (val (upd RANY cs))).
    - intros t Ht. destruct (entry_tags_any eqb MIN cs) as [[E _]|[u [E Hu]]]; cbv zeta in *.
      + rewrite E in Ht. destruct Ht.
      + rewrite E in Ht. destruct Ht as [<-|[]].
        apply (entry_tags_all eqb eqb_spec MIN cs' u). cbv zeta. rewrite <- Ev. now apply I.
  Qed.

  Lemma csub_app a a' b b' : csub a a' -> csub b b' -> csub (a ++ b) (a' ++ b').
  Proof.
    intros [T1 [T1' [V1 S1]]] [T2 [T2' [V2 S2]]]. repeat split.
    - intros v o I. apply in_app_or in I as [I|I]; eauto.
    - intros v o I. apply in_app_or in I as [I|I]; eauto.
    - intros [o I]. apply in_app_or in I as [I|I].
      + destruct (proj1 (V1 v) (ex_intro _ o I)) as [o' I']. exists o'. apply in_or_app. now left.
      + destruct (proj1 (V2 v) (ex_intro _ o I)) as [o' I']. exists o'. apply in_or_app. now right.
    - intros [o I]. apply in_app_or in I as [I|I].
      + destruct (proj2 (V1 v) (ex_intro _ o I)) as [o' I']. exists o'. apply in_or_app. now left.
      + destruct (proj2 (V2 v) (ex_intro _ o I)) as [o' I']. exists o'. apply in_or_app. now right.
    - intros x I. apply in_app_or in I as [I|I]; apply in_or_app; [left; now apply S1|right; now apply S2].
  Qed.

  Lemma csub_nil : csub [] [].
  Proof. split; [intros ? ? []|]. split; [intros ? ? []|]. split; [intros v; split; intros [? []]|intros ? []]. Qed.

  Lemma cands_sub (e e' : entry X) : esub e e' -> csub (cands e) (cands e').
  Proof.
    intros [Ev [Ee Es]]. unfold cands. repeat split.
    - intros v o I. apply in_map_iff in I as [t [E _]]. inversion E. eauto.
    - intros v o I. apply in_map_iff in I as [t [E _]]. inversion E. eauto.
    - intros [o I]. apply in_map_iff in I as [t [E I]]. inversion E; subst.
      destruct (tags e') as [|t' l'] eqn:E'; [rewrite (proj2 Ee eq_refl) in I; destruct I|].
      exists (Some t'). apply in_map_iff. exists t'. split; [now rewrite Ev|now left].
    - intros [o I]. apply in_map_iff in I as [t [E I]]. inversion E; subst.
      destruct (tags e) as [|t' l'] eqn:E'; [rewrite (proj1 Ee eq_refl) in I; destruct I|].
      exists (Some t'). apply in_map_iff. exists t'. split; [now rewrite Ev|now left].
    - intros x I. apply in_map_iff in I as [t [<- I]]. apply in_map_iff. exists t. split; [now rewrite Ev|now apply Es].
  Qed.
End Sub.

Lemma agg_sub xs f g : (forall x, In x xs -> f x = g x) -> esub (agg RANY xs f) (agg RALL xs g).
Proof.
  intros E. unfold agg. apply (upd_sub path_eqb path_eqb_spec'). repeat split.
  - intros v o I. apply in_map_iff in I as [x [H _]]. inversion H. eauto.
  - intros v o I. apply in_map_iff in I as [x [H _]]. inversion H. eauto.
  - intros [o I]. apply in_map_iff in I as [x [H I]]. inversion H; subst. exists (Some x). apply in_map_iff. exists x.
    split; [now rewrite E|exact I].
  - intros [o I]. apply in_map_iff in I as [x [H I]]. inversion H; subst. exists (Some x). apply in_map_iff. exists x.
    split; [now rewrite E|exact I].
  - intros y I. apply in_map_iff in I as [x [<- I]]. apply in_map_iff. exists x. split; [now rewrite E|exact I].
Qed.

Lemma comb_sub k (E1 E2 E1' E2' : entry path) : esub E1 E1' -> esub E2 E2' ->
  esub (combine tag_eqb MIN RANY E1 E2 (event_comb k (val E1) (val E2)))
       (combine tag_eqb MIN RALL E1' E2' (event_comb k (val E1') (val E2'))).
Proof.
  intros [V1 [N1 S1]] [V2 [N2 S2]]. unfold combine. apply (upd_sub tag_eqb tag_eqb_spec). rewrite <- V1, <- V2.
  fold (pairs E1 E2 (event_comb k (val E1) (val E2))) (pairs E1' E2' (event_comb k (val E1) (val E2))).
  repeat split.
  - intros v o I. apply In_pairs in I as [a [b [_ [_ E]]]]. inversion E. eauto.
  - intros v o I. apply In_pairs in I as [a [b [_ [_ E]]]]. inversion E. eauto.
  - intros [o I]. apply In_pairs in I as [a [b [Ia [Ib E]]]]. inversion E; subst.
    destruct (tags E1') as [|a' l1] eqn:T1; [rewrite (proj2 N1 eq_refl) in Ia; destruct Ia|].
    destruct (tags E2') as [|b' l2] eqn:T2; [rewrite (proj2 N2 eq_refl) in Ib; destruct Ib|].
    exists (Some (a', b')). apply In_pairs. exists a', b'. rewrite T1, T2. repeat split; now left.
  - intros [o I]. apply In_pairs in I as [a [b [Ia [Ib E]]]]. inversion E; subst.
    destruct (tags E1) as [|a' l1] eqn:T1; [rewrite (proj1 N1 eq_refl) in Ia; destruct Ia|].
    destruct (tags E2) as [|b' l2] eqn:T2; [rewrite (proj1 N2 eq_refl) in Ib; destruct Ib|].
    exists (Some (a', b')). apply In_pairs. exists a', b'. rewrite T1, T2. repeat split; now left.
  - intros x I. apply In_pairs in I as [a [b [Ia [Ib ->]]]]. apply In_pairs. exists a, b.
    repeat split; [now apply S1|now apply S2].
Qed.

Lemma spe_batch_sub c A B A' B' s xl xr : (forall x, A x = A' x /\ B x = B' x) ->
  csub (spe_batch_o c RANY A B s xl xr) (spe_batch_o c RALL A' B' s xl xr).
Proof.
  intros E. unfold spe_batch_o. apply csub_app; apply cands_sub; apply comb_sub; apply agg_sub;
    intros x Hx; destruct (E x) as [Ea Eb]; now rewrite ?Ea, ?Eb.
Qed.

Lemma dt_batch_sub c A B A' B' s xc xs : (forall x, A x = A' x /\ B x = B' x) ->
  csub (dt_batch_o c RANY A B s xc xs) (dt_batch_o c RALL A' B' s xc xs).
Proof.
  intros E. unfold dt_batch_o. repeat apply csub_app; apply cands_sub; apply comb_sub; apply agg_sub;
    intros x Hx; destruct (E x) as [Ea Eb]; now rewrite ?Ea, ?Eb.
Qed.

Lemma cell_sub1 b b' : csub b b' -> esub (cell_upd RANY (default_entry MIN) b) (cell_upd RALL (default_entry MIN) b').
Proof.
  intros C. rewrite !cell_upd_default. apply (upd_sub tag_eqb tag_eqb_spec).
  pose proof C as [_ [_ [V _]]]. rewrite (has_finite_vsame b b' V). destruct (Thl.has_finite b'); [exact C|apply csub_nil].
Qed.

Lemma cell_sub2 b1 b1' b2 b2' : csub b1 b1' -> csub b2 b2' ->
  esub (cell_upd RANY (cell_upd RANY (default_entry MIN) b1) b2) (cell_upd RALL (cell_upd RALL (default_entry MIN) b1') b2').
Proof.
  intros C1 C2. rewrite (e2_applied RANY b1 b2), (e2_applied RALL b1' b2'). apply (upd_sub tag_eqb tag_eqb_spec). unfold applied.
  pose proof C1 as [_ [_ [V1 _]]]. pose proof C2 as [_ [_ [V2 _]]].
  rewrite (has_finite_vsame b1 b1' V1), (has_finite_vsame b2 b2' V2).
  apply csub_app; [destruct (Thl.has_finite b1')|destruct (Thl.has_finite b2')]; auto using csub_nil.
Qed.

Lemma esub_refl_notags {X} (e : entry X) : tags e = [] -> esub e e.
Proof. intros E. repeat split; auto. Qed.

(** (a) every cell of the table the code computes under ANY against the cell it computes under ALL *)
Theorem tcell_any_all {node_id} c ST (leafsp : node_id -> path) (t : EV.TreeNode node_id) : forall s,
  esub (tcell c RANY ST leafsp t s) (tcell c RALL ST leafsp t s).
Proof.
  induction t as [i|i a IHa b IHb]; intros s.
  - cbn [tcell]. repeat split; auto.
  - cbn [tcell]. destruct (find_sp s (T.STree_postorder ST)) as [rs|]; [|repeat split; auto].
    assert (E : forall x, val (tcell c RANY ST leafsp a x) = val (tcell c RALL ST leafsp a x) /\
                          val (tcell c RANY ST leafsp b x) = val (tcell c RALL ST leafsp b x)).
    { intros x. split; [apply (IHa x)|apply (IHb x)]. }
    unfold cell_o. destruct rs as [x|x SL SR].
    + apply cell_sub1. now apply dt_batch_sub.
    + apply cell_sub2; [now apply spe_batch_sub|now apply dt_batch_sub].
Qed.
Print Assumptions tcell_any_all.

(* ------------------------------------------------------------------ *)
(** * Decoding the ANY table of the code; the result entry *)
Section AnyModel.
  Context {lca node_id : Type} (nid_eqb : node_id -> node_id -> bool).
  Hypothesis nid_eqb_spec : forall a b, reflect (a = b) (nid_eqb a b).
  Notation tree := (EV.TreeNode node_id).
  Notation mi := (T.MappingInfo path).
  Notation dict := (list (node_id * path)).
  Notation oids l := (map (@EV.TreeNode_id node_id) l).
  Variables (S : stree) (c : costs) (leafsp : node_id -> path) (syn : node_id -> list fam) (missing : node_id -> path).
  Variable ord : list mi -> list mi.
  Hypothesis Hh : nn (c_hgt c).
  Hypothesis ord_same : forall l, sameset (ord l) l.
  Notation ST := (sembed S []).
  Notation OT := (otree_of leafsp syn).
  Notation dfun := (T.dict_fun nid_eqb missing).
  Variable O : tree.
  Hypothesis ids_distinct : NoDup (oids (T.TreeNode_postorder O)).
  (** the table computed under ANY and the table computed under ALL *)
  Variables GA GL : node_id -> path -> entry mi.
  Hypothesis GA_table : forall u, In u (T.TreeNode_postorder O) -> forall x, GA (EV.TreeNode_id u) x = emap tag_mi (tcell c RANY ST leafsp u x).
  Hypothesis GL_table : forall u, In u (T.TreeNode_postorder O) -> forall x, GL (EV.TreeNode_id u) x = emap tag_mi (tcell c RALL ST leafsp u x).

  Lemma child_l (t a b : tree) i : In (EV.TreeNode_node i a b) (T.TreeNode_postorder t) -> In a (T.TreeNode_postorder t).
  Proof.
    intros Ht. eapply subtree_in; [exact Ht|]. cbn [T.TreeNode_postorder]. rewrite !in_app_iff. left. apply root_in_postorder.
  Qed.
  Lemma child_r (t a b : tree) i : In (EV.TreeNode_node i a b) (T.TreeNode_postorder t) -> In b (T.TreeNode_postorder t).
  Proof.
    intros Ht. eapply subtree_in; [exact Ht|]. cbn [T.TreeNode_postorder]. rewrite !in_app_iff. right; left. apply root_in_postorder.
  Qed.

  (** (b) every dictionary decoded from the ANY table is decoded from the ALL table *)
  Lemma decode_any_all (t : tree) : In t (T.TreeNode_postorder O) -> forall s d,
    In d (decode_g ord GA t s) -> In d (decode_g ord GL t s).
  Proof.
    induction t as [i|i a IHa b IHb]; intros Ht s d H.
    - pose proof (GA_table _ Ht s) as Ga. pose proof (GL_table _ Ht s) as Gl. cbn [EV.TreeNode_id] in Ga, Gl.
      cbn [decode_g] in *. rewrite Ga in H. rewrite Gl. cbn [emap val tcell] in *. exact H.
    - pose proof (child_l O a b i Ht) as Ha. pose proof (child_r O a b i Ht) as Hb.
      pose proof (GA_table _ Ht s) as Ga. pose proof (GL_table _ Ht s) as Gl. cbn [EV.TreeNode_id] in Ga, Gl.
      cbn [decode_g] in *. rewrite Ga in H. rewrite Gl. cbn [emap tags] in *.
      apply in_flat_map in H as [m [Hm H]]. apply in_flat_map. exists m. split.
      + apply (proj2 (ord_same _ m)). apply (proj1 (ord_same _ m)) in Hm. apply in_map_iff in Hm as [lr [<- Hlr]]. apply in_map.
        now apply (tcell_any_all c ST leafsp (EV.TreeNode_node i a b) s).
      + destruct (T.MappingInfo_left m) as [l|]; [|destruct H]. destruct (T.MappingInfo_right m) as [r|]; [|destruct H].
        apply in_flat_map in H as [dl [Hdl H]]. apply in_map_iff in H as [dr [<- Hdr]].
        apply in_flat_map. exists dl. split; [now apply IHa|].
        apply (in_map (fun dr0 => dr0 ++ dl ++ [(i, s)])). now apply IHb.
  Qed.

  (** a finite cell of the ANY table decodes to something *)
  Lemma decode_any_nonempty (t : tree) : In t (T.TreeNode_postorder O) -> forall s, In s (snodes S) ->
    val (tcell c RANY ST leafsp t s) <> PInf -> exists d, In d (decode_g ord GA t s).
  Proof.
    induction t as [i|i a IHa b IHb]; intros Ht s Hs NE.
    - pose proof (GA_table _ Ht s) as Ga. cbn [EV.TreeNode_id] in Ga.
      cbn [decode_g]. rewrite Ga. cbn [emap val tcell] in *.
      destruct (path_eqb s (leafsp i)); cbn in *; [eexists; now left|congruence].
    - pose proof (child_l O a b i Ht) as Ha. pose proof (child_r O a b i Ht) as Hb.
      pose proof (GA_table _ Ht s) as Ga. cbn [EV.TreeNode_id] in Ga.
      remember (EV.TreeNode_node i a b) as t eqn:Et.
      (* a tag of the cell *)
      destruct (tcell_model S c RANY leafsp syn Hh t s Hs) as [Ev [Ee _]].
      assert (NT : tags (tcell c RANY ST leafsp t s) <> []).
      { intros E0. apply Ee in E0. rewrite Ev in NE.
        apply (decode_nonempty S c RANY (OT t) Hh ltac:(discriminate) s Hs NE).
        subst t. cbn [otree_of thl_table decode] in *. now rewrite E0. }
      destruct (tags (tcell c RANY ST leafsp t s)) as [|[l r] tl] eqn:Etags; [congruence|]. clear NT.
      assert (Hlr : In (l, r) (tags (tcell c RANY ST leafsp t s))) by (rewrite Etags; now left).
      pose proof (tcell_any_all c ST leafsp t s) as [Ev2 [_ Hsub]].
      pose proof (Hsub _ Hlr) as Hlr2.
      destruct (tcell_model S c RALL leafsp syn Hh t s Hs) as [Ev3 [_ Ss]]. apply (Ss eq_refl) in Hlr2.
      subst t. cbn [otree_of thl_table] in Hlr2, Ev3.
      remember (thl_table S c RALL (OT a)) as ta eqn:Eta. remember (thl_table S c RALL (OT b)) as tb eqn:Etb.
      assert (NA : forall x, nn (val (tread ta x))) by (intros; subst ta; apply table_nn; auto).
      assert (NB : forall x, nn (val (tread tb x))) by (intros; subst tb; apply table_nn; auto).
      apply (tread_node_tags S c RALL ta tb Hh NA NB s) in Hlr2 as [_ Hc].
      destruct (cell_tag_value S c RALL ta tb s Hh NA NB RALL_not_none l r Hc) as [Il [Ir [F V]]].
      assert (val (tread ta l) <> PInf /\ val (tread tb r) <> PInf) as [Fa Fb].
      { rewrite V in F. split; intros X; rewrite X in F.
        - destruct (ocost c s l r); discriminate.
        - destruct (ocost c s l r), (val (tread ta l)); discriminate. }
      assert (Fa' : val (tcell c RANY ST leafsp a l) <> PInf).
      { rewrite (proj1 (tcell_any_all c ST leafsp a l)), (tcell_model_value S c RALL leafsp syn Hh a l Il). now subst ta. }
      assert (Fb' : val (tcell c RANY ST leafsp b r) <> PInf).
      { rewrite (proj1 (tcell_any_all c ST leafsp b r)), (tcell_model_value S c RALL leafsp syn Hh b r Ir). now subst tb. }
      destruct (IHa Ha l Il Fa') as [dl Hdl]. destruct (IHb Hb r Ir Fb') as [dr Hdr].
      exists (dr ++ dl ++ [(i, s)]). cbn [decode_g]. rewrite Ga. cbn [emap tags].
      apply in_flat_map. exists (tag_mi (l, r)). split; [apply (proj2 (ord_same _ _)), in_map; exact Hlr|].
      cbn [tag_mi T.MappingInfo_left T.MappingInfo_right fst snd].
      apply in_flat_map. exists dl. split; [exact Hdl|].
      apply (in_map (fun dr0 => dr0 ++ dl ++ [(i, s)])). exact Hdr.
  Qed.

  (** ** the result entry *)
  Hypothesis Hf : 0 <= c_floss c.
  Hypothesis Hc : coherent c.
  Hypothesis L : leaves_ok S (OT O).
  Variables (lcaobj : lca).
  Notation tout := (T.tout_state path lca node_id).
  Notation rto := (rt_out (lca := lca) nid_eqb missing O).
  Notation CA := (map (cmap rto) (thl_candidates_o nid_eqb lcaobj c ST leafsp O ord missing syn GA)).
  Notation CM := (thl_candidates S c RALL (OT O)).
  Notation VM := (val (reconcile_thl S c RALL (OT O))).

  (** every candidate the ANY run offers to the result entry is a candidate of the model under ALL *)
  Lemma any_cands_model v o : In (v, o) CA -> In (v, o) CM.
  Proof.
    intros I. apply In_cands_o in I as [s [d [Hs [Hd [-> ->]]]]]. apply In_cands_model.
    exists s, (rtree_of (dfun d) O). split; [exact Hs|]. split; [|auto].
    apply (decode_model nid_eqb nid_eqb_spec S c leafsp syn missing ord Hh ord_same O ids_distinct GL GL_table O (root_in_postorder O) s Hs).
    apply (in_map (fun d => rtree_of (dfun d) O)). now apply (decode_any_all O (root_in_postorder O)).
  Qed.

  (** the optimum of the model is the cost of a candidate of the ANY run *)
  Lemma any_cands_best : exists r, In (VM, Some r) CA.
  Proof.
    pose proof (entry_value_finite S c (OT O) Hh Hf Hc L RALL RALL_not_none) as NV.
    destruct (upd_attained rtree_eqb RALL _ NV) as [ot Io].
    destruct (thl_candidates_some _ _ _ _ _ _ Io) as [y ->].
    pose proof Io as Io'. apply in_thl_candidates in Io' as [s [Hs [Hy Ev]]].
    destruct (decode_cost S c RALL (OT O) Hh RALL_not_none Hf Hc L s y Hy) as [Cy _].
    fold (reconcile_thl S c RALL (OT O)) in Ev.
    assert (NE : val (tcell c RANY ST leafsp O s) <> PInf).
    { rewrite (proj1 (tcell_any_all c ST leafsp O s)), (tcell_model_value S c RALL leafsp syn Hh O s Hs), <- Cy, <- Ev. exact NV. }
    destruct (decode_any_nonempty O (root_in_postorder O) s Hs NE) as [d Hd].
    exists (rtree_of (dfun d) O). apply In_cands_o. exists s, d. split; [exact Hs|]. split; [exact Hd|]. split; [|reflexivity].
    rewrite Ev, Cy. symmetry.
    assert (Hm : In (rtree_of (dfun d) O) (decode (thl_table S c RALL (OT O)) s)).
    { apply (decode_model nid_eqb nid_eqb_spec S c leafsp syn missing ord Hh ord_same O ids_distinct GL GL_table O (root_in_postorder O) s Hs).
      apply (in_map (fun d => rtree_of (dfun d) O)). now apply (decode_any_all O (root_in_postorder O)). }
    apply (decode_cost S c RALL (OT O) Hh RALL_not_none Hf Hc L s _ Hm).
  Qed.

  Lemma any_value : val (update rtree_eqb MIN RANY (default_entry MIN) CA) = VM.
  Proof.
    apply ele_antisym.
    - destruct any_cands_best as [r Hr]. exact (upd_le rtree_eqb RANY _ _ _ Hr).
    - destruct (ext_eqb (val (update rtree_eqb MIN RANY (default_entry MIN) CA)) PInf) eqn:Ep.
      + apply ext_eqb_eq in Ep. rewrite Ep. apply ele_PInf.
      + assert (NV : val (update rtree_eqb MIN RANY (default_entry MIN) CA) <> PInf) by (intros X; rewrite X in Ep; discriminate).
        destruct (upd_attained rtree_eqb RANY _ NV) as [ot Io]. apply any_cands_model in Io.
        exact (upd_le rtree_eqb RALL _ _ _ Io).
  Qed.

  (** (c) the entry under ANY holds exactly one reconciliation, one of those the model holds under ALL *)
  Theorem any_result : exists r, tags (update rtree_eqb MIN RANY (default_entry MIN) CA) = [r] /\
    In r (tags (reconcile_thl S c RALL (OT O))).
  Proof.
    destruct (entry_tags_any rtree_eqb MIN CA) as [[_ No]|[t [Et It]]]; cbv zeta in *.
    - exfalso. destruct any_cands_best as [r Hr]. apply (No r). now rewrite any_value.
    - exists t. split; [exact Et|]. rewrite any_value in It. apply any_cands_model in It.
      unfold reconcile_thl. now apply (entry_tags_all rtree_eqb rtree_eqb_spec MIN CM t).
  Qed.
End AnyModel.

(** [reconcile_thl] under ANY: the generated code returns exactly one reconciliation; it is one of the reconciliations
    of the model under ALL, that is an optimal one *)
Theorem gen_reconcile_thl_any {lca node_id : Type} (nid_eqb : node_id -> node_id -> bool)
    (S : stree) (c : costs) (leafsp : node_id -> path) (syn : node_id -> list fam) (missing : node_id -> path)
    (ord : list (T.MappingInfo path) -> list (T.MappingInfo path)) (O : EV.TreeNode node_id) (lcaobj : lca)
    (oeqb : T.tout_state path lca node_id -> T.tout_state path lca node_id -> bool) :
  (forall a b, reflect (a = b) (nid_eqb a b)) -> nn (c_hgt c) -> (forall l, sameset (ord l) l) ->
  NoDup (map (@EV.TreeNode_id node_id) (T.TreeNode_postorder O)) ->
  (forall a b, rtree_eqb (rt_out nid_eqb missing O a) (rt_out nid_eqb missing O b) = oeqb a b) ->
  0 <= c_floss c -> c_spe c <= c_dup c + 2 * c_floss c -> leaves_ok S (otree_of leafsp syn O) ->
  exists o,
    T.gen_reconcile_thl path_eqb nid_eqb (fun _ => anc) (fun _ => sanc) (fun _ => comparable) (fun _ => lcp) (fun _ => dist)
      (fun _ => sembed S []) oeqb missing ord (EV.mk_rin O lcaobj leafsp (stsocc c)) (prc RANY) = T.Ok [o] /\
    In (rt_out nid_eqb missing O o) (tags (reconcile_thl S c RALL (otree_of leafsp syn O))) /\
    optimal S c (otree_of leafsp syn O) (rt_out nid_eqb missing O o).
Proof.
  intros nid_eqb_spec Hh ord_same ids_distinct oeqb_rt Hf Hc L.
  destruct (gen_reconcile_thl_eq nid_eqb nid_eqb_spec lcaobj c RANY (sembed S []) leafsp O (postorder_ids_nodup S []) ord
              (fun l m H => proj1 (ord_same l m) H) oeqb missing syn ids_distinct) as [tba [_ [Ska Ea]]].
  destruct (gen_reconcile_thl_eq nid_eqb nid_eqb_spec lcaobj c RALL (sembed S []) leafsp O (postorder_ids_nodup S []) ord
              (fun l m H => proj1 (ord_same l m) H) oeqb missing syn ids_distinct) as [tbl [_ [Skl _]]].
  destruct (any_result nid_eqb nid_eqb_spec S c leafsp syn missing ord Hh ord_same O ids_distinct
              (gsem nid_eqb tba) (gsem nid_eqb tbl) Ska Skl Hf Hc L lcaobj) as [r [Er Ir]].
  match type of Er with tags (update _ _ _ _ (map _ ?cs)) = _ =>
    pose proof (update_emap oeqb rtree_eqb (rt_out nid_eqb missing O) oeqb_rt MIN RANY cs (default_entry MIN)) as E2 end.
  change (emap (rt_out nid_eqb missing O) (default_entry MIN)) with (@default_entry rtree MIN) in E2.
  rewrite E2 in Er. cbn [emap tags] in Er. rewrite Ea.
  match type of Er with map _ ?l = _ => destruct l as [|o [|o' l']] end; cbn [map] in Er; try discriminate.
  inversion Er as [Eo]. exists o. split; [reflexivity|]. rewrite Eo. split; [exact Ir|].
  now apply (thl_all_exact S c (otree_of leafsp syn O) Hh Hf Hc L).
Qed.
Print Assumptions gen_reconcile_thl_any.
Print Assumptions decode_any_all.
Print Assumptions decode_any_nonempty.
Print Assumptions any_result.
Check tcell_any_all.
Check decode_any_all.
Check decode_any_nonempty.
Check any_result.
Check gen_reconcile_thl_any.

End PartCthl.
