(** C04, clause "has finite cost", for EVERY cost vector the solvers accept (any integers for the
    finite unit costs, transfer cost finite or +inf; no coherence hypothesis): every solution returned
    by the models of [reconcile_lca], [reconcile_thl], [reconcile_exhaustive], base/extended SPFS and
    base/extended USPFS has a finite evaluated cost.

    Why it holds when the transfer cost is +inf: a table cell only keeps tags of candidates whose value
    is the (finite) value of the cell, and every candidate of a transfer family carries the summand
    [c_hgt c]; so a decoded node is a transfer only if [c_hgt c] is finite.  For the exhaustive solver
    the transfer-free LCA reconciliation is one of the candidates and has a finite cost, so the minimum
    is finite. *)
From Coq Require Import List Bool Arith ZArith Lia.
From SR Require Import Base.PathB Base.Ext Model.Subseq Model.Entry Model.Recon Model.LcaRec Model.Thl
  Model.Spfs Model.Uspfs
  Proofs.PathFacts Proofs.ReconProofs Proofs.EntryProofs Proofs.DpProofs Proofs.LcaProofs Proofs.ExhProofs
  Proofs.ThlProofs Proofs.ThlFinal Proofs.SubseqProofs Proofs.LabelCostProofs
  Proofs.SpfsProofs Proofs.SpfsFinal Proofs.UspfsProofs Proofs.UspfsFinal.
Import ListNotations.
Local Open Scope Z_scope.

(** * one node *)
Lemma ecost_fin c s l r : nn (c_hgt c) -> event s l r <> Inv ->
  (c_hgt c = PInf -> anc s l = true /\ anc s r = true) -> exists z, ecost c s l r = Fin z.
Proof.
  intros Hn He Ha. unfold ecost. destruct (event s l r) eqn:E; try congruence; eauto.
  - destruct (c_hgt c) as [|h|] eqn:Eh; [exfalso; now apply Hn|simpl; eauto|].
    destruct (Ha eq_refl) as [_ B]. destruct (event_TrL_inv _ _ _ E) as [_ [B' _]]. congruence.
  - destruct (c_hgt c) as [|h|] eqn:Eh; [exfalso; now apply Hn|simpl; eauto|].
    destruct (Ha eq_refl) as [B _]. destruct (event_TrR_inv _ _ _ E) as [_ [B' _]]. congruence.
Qed.

Lemma cost_node_fin c oa ob s ra rb za zb :
  event s (root ra) (root rb) <> Inv -> (exists z, ecost c s (root ra) (root rb) = Fin z) ->
  cost c oa ra = Fin za -> cost c ob rb = Fin zb ->
  exists z, cost c (ONode oa ob) (RNode s ra rb) = Fin z.
Proof.
  intros Ev [z Ez] Ca Cb. cbn [cost]. rewrite Ez, Ca, Cb.
  destruct (event s (root ra) (root rb)); try congruence; simpl; eauto.
Qed.

Lemma nn_le_Fin a z : nn a -> ele a (Fin z) -> exists z', a = Fin z'.
Proof. unfold nn, ele. destruct a; simpl; try congruence; eauto. Qed.

Lemma is_inf_false_Fin a : ext_is_inf a = false -> exists z, a = Fin z.
Proof. destruct a; simpl; try discriminate; eauto. Qed.

(** * the LCA reconciliation *)
Theorem lca_finite c S O : leaves_ok S O -> cost c O (lca_rec O) = Fin (costDL c (lca_rec O)).
Proof. intros L. destruct (lca_valid S O L) as [V N]. now apply (cost_costDL c S O). Qed.

(** * the general DTL solver *)
Theorem decode_finite S c rp O : nn (c_hgt c) -> leaves_ok S O ->
  forall s r, In r (decode (thl_table S c rp O) s) -> exists z, cost c O r = Fin z.
Proof.
  intros Hh. induction O as [sp syn|a IHa b IHb]; intros L s r H.
  - cbn [thl_table decode tread] in H. destruct (path_eqb_spec s sp) as [->|N]; simpl in H.
    + destruct H as [<-|[]]. exists 0. simpl. now rewrite path_eqb_refl.
    + destruct H.
  - destruct L as [La Lb]. pose proof H as H0. cbn [thl_table decode] in H.
    apply in_flat_map in H as [[l r'] [Ht H]]. apply in_flat_map in H as [ra [Ha H]].
    apply in_map_iff in H as [rb [<- Hb]]. cbn [fst snd] in *.
    apply tread_node_tags in Ht as [Is Ht]; auto using table_nn.
    destruct (cell_tag_sound S c rp _ _ s Hh (table_nn S c rp a Hh) (table_nn S c rp b Hh) l r' Ht)
      as [Il [Ir [F X]]].
    destruct (IHa La l ra Ha) as [za Ca]. destruct (IHb Lb r' rb Hb) as [zb Cb].
    destruct (decode_valid S c rp a Hh La l ra Ha) as [_ Ra].
    destruct (decode_valid S c rp b Hh Lb r' rb Hb) as [_ Rb].
    destruct (decode_valid S c rp (ONode a b) Hh (conj La Lb) s _ H0) as [Vr _].
    inversion Vr as [|? ? ? ? ? _ Ev _ _]; subst.
    apply (cost_node_fin c a b s ra rb za zb); auto.
    apply ecost_fin; auto. intros Eh.
    destruct X as [[E V]|[[E1 [E2 V]]|[[E1 [E2 V]]|[E1 [E2 V]]]]].
    + now apply spe_cfg_anc.
    + auto.
    + exfalso. rewrite V in F. unfold vTR in F. rewrite Eh in F. simpl in F. discriminate.
    + exfalso. rewrite V in F. unfold vTL in F. rewrite Eh in F. simpl in F. discriminate.
Qed.

(* every returned reconciliation has a finite cost, which is the value of the result *)
Theorem thl_finite S c rp O r : nn (c_hgt c) -> leaves_ok S O ->
  In r (tags (reconcile_thl S c rp O)) ->
  exists z, cost c O r = Fin z /\ val (reconcile_thl S c rp O) = Fin z.
Proof.
  intros Hh L H. unfold reconcile_thl in *.
  apply (upd_tags_sound rtree_eqb rtree_eqb_spec) in H.
  apply in_thl_candidates in H as [s [_ [Ir Ev]]].
  destruct (decode_finite S c rp O Hh L s r Ir) as [z Ez]. exists z. split; auto. now rewrite Ev.
Qed.

(** * the exhaustive solver *)
Theorem exh_finite S c rp O r : nn (c_hgt c) -> leaves_ok S O ->
  In r (tags (reconcile_exhaustive c rp O)) ->
  exists z, cost c O r = Fin z /\ val (reconcile_exhaustive c rp O) = Fin z.
Proof.
  intros Hh L H. destruct (exh_value S c rp O L) as [LB _].
  unfold reconcile_exhaustive in *. fold (exh_cands c O) in *.
  apply (upd_tags_sound rtree_eqb rtree_eqb_spec) in H. apply in_exh_cands in H as [_ Ev].
  destruct (lca_valid S O L) as [VL _]. specialize (LB _ VL). rewrite (lca_finite c S O L) in LB.
  rewrite Ev in LB |- *. destruct (nn_le_Fin _ _ (cost_nn c O Hh r) LB) as [z Ez]. exists z. auto.
Qed.

(** * base / extended SPFS *)
Lemma ofams_hgt_inf c s m kl kr v : In (true, v) (ofams c s m kl kr) -> c_hgt c = PInf -> v <> PInf ->
  anc s (fst kl) = true /\ anc s (fst kr) = true.
Proof.
  unfold ofams. cbn [In]. intros H Eh NE.
  repeat (destruct H as [H|H]; [apply pair_eq_inv in H as [G V]|]); try destruct H.
  - now apply spe_cfg_anc.
  - now apply andb_true_iff in G.
  - now apply andb_true_iff in G.
  - exfalso. apply NE. rewrite <- V, Eh. reflexivity.
  - exfalso. apply NE. rewrite <- V, Eh. reflexivity.
Qed.

Theorem sdecode_finite S c rp extended ord : nn (c_hgt c) -> forall o, leaves_ord S ord o ->
  forall is_root k t, In (Some t) (sdecode ord (spfs_table S c rp extended ord is_root o) k) ->
  exists z, cost c o (forget t) = Fin z.
Proof.
  intros Hh. induction o as [sp syn|a IHa b IHb]; intros L is_root k t H.
  - destruct (sdecode_valid S c rp extended ord Hh _ L is_root k _ H) as [t' [E [V _]]].
    inversion E; subst t'. inversion V; subst. exists 0. simpl. now rewrite path_eqb_refl.
  - pose proof L as [La Lb]. pose proof H as H0. rewrite spfs_table_node in H. cbn [sdecode] in H.
    rewrite <- spfs_table_node in H.
    apply in_flat_map in H as [[kl kr] [Ht H]]. apply in_flat_map in H as [oa [Ha H]].
    apply in_map_iff in H as [ob [E Hb]]. cbn [fst snd] in *.
    destruct (sdecode_valid S c rp extended ord Hh a La false kl oa Ha) as [ta [-> [_ [Ra _]]]].
    destruct (sdecode_valid S c rp extended ord Hh b Lb false kr ob Hb) as [tb [-> [_ [Rb _]]]].
    destruct (subseq_from_mask (snd k) ord) as [y|]; [|discriminate]. inversion E; subst t. clear E.
    destruct (IHa La false kl ta Ha) as [za Ca]. destruct (IHb Lb false kr tb Hb) as [zb Cb].
    destruct (node_tag_sound S c rp extended ord Hh a b is_root k kl kr L Ht) as [_ [Hc [_ [_ [_ [_ Ev]]]]]].
    pose proof (stable_nn S c rp extended ord Hh a false) as NA.
    pose proof (stable_nn S c rp extended ord Hh b false) as NB.
    pose proof (stable_keys_ok S c rp extended ord Hh a false La) as KA.
    pose proof (stable_keys_ok S c rp extended ord Hh b false Lb) as KB.
    destruct (scell_tag_sound S c rp _ _ (fst k) (snd k) Hh (fun k => NA k La) (fun k => NB k Lb) kl kr Hc) as [F Sp].
    destruct (cand_spec_fam S c _ _ (fst k) (snd k) Hh KA KB kl kr _ Sp) as [_ [_ [_ [_ [v [Iv Ecell]]]]]].
    cbn [forget]. apply (cost_node_fin c a b (fst k) (forget ta) (forget tb) za zb); auto;
      rewrite !lroot_forget, Ra, Rb; auto.
    apply ecost_fin; auto. intros Eh. apply (ofams_hgt_inf c (fst k) (snd k) kl kr v Iv Eh).
    intros Ev'. rewrite Ecell, Ev' in F. simpl in F. discriminate.
Qed.

(* every returned labelled tree has a finite total cost, which is the value of the result *)
Theorem spfs_finite S c rp extended orders O e lt : nn (c_hgt c) -> orders_ok S O orders ->
  spfs S c rp extended orders O = Some e -> In lt (tags e) ->
  exists z, total_cost c O true lt = Some (Fin z) /\ val e = Fin z.
Proof.
  intros Hh HO E H. destruct (spfs_some S c rp extended orders O Hh HO) as [l [El Il]].
  unfold spfs in E. rewrite El in E. cbn [option_map] in E. inversion E; subst e. clear E.
  apply (upd_tags_sound ltree_eqb ltree_eqb_spec) in H. apply Il in H.
  destruct (candidate_sound S c rp extended orders O Hh HO _ H) as [ord [s [t [v [E [Io [_ [Id [Tc _]]]]]]]]].
  inversion E; subst. clear E.
  destruct (HO ord Io) as [_ L].
  destruct (sdecode_finite S c rp extended ord Hh O L true _ _ Id) as [z Ez].
  unfold total_cost in Tc |- *. rewrite Ez in Tc |- *.
  destruct (labeling_cost c true t) as [k|]; [|discriminate]. cbn [option_map ext_add] in Tc |- *.
  inversion Tc as [Ev]. exists (z + k). auto.
Qed.

(** * base / extended USPFS *)
Lemma ufams_hgt_inf S c s k i j l r : In (k, i, j) (ufams c) ->
  ucond S s i l = true -> ucond S s j r = true -> c_hgt c = PInf -> k <> PInf ->
  anc s l = true /\ anc s r = true.
Proof.
  unfold ufams. cbn [In]. intros H Cl Cr Eh NE.
  repeat (destruct H as [H|H]; [injection H as <- <- <-; cbn [ucond] in Cl, Cr|]); try contradiction.
  - apply andb_true_iff in Cl as [_ Cl]. apply andb_true_iff in Cr as [_ Cr].
    split; eapply in_side_anc; eauto.
  - apply andb_true_iff in Cl as [_ Cl]. apply andb_true_iff in Cr as [_ Cr].
    split; eapply in_side_anc; eauto.
  - auto.
  - auto.
Qed.

Section UDecodeFinite.
  Variables (S : stree) (c : costs) (rp : ret) (extended : bool) (total : fam -> nat).
  Hypothesis Hh : nn (c_hgt c).
  Notation tab := (utab S c rp extended total).

  Theorem udecode_finite : forall o, leaves_ok S o -> bounded total o ->
    forall P k t, ucovers total P o ->
    In t (udecode (tab o) (annotate total o) k P) -> exists z, cost c o (forget t) = Fin z.
  Proof.
    induction o as [sp syn|a IHa b IHb]; intros L B P k t Cv H.
    - rewrite udecode_leaf in H. destruct (uassign_eqb_spec k (sp, false)) as [->|NE]; [|destruct H].
      destruct H as [<-|[]]. exists 0. simpl. now rewrite path_eqb_refl.
    - destruct L as [La Lb]. apply udecode_node in H as [l [r [ta [tb [It [Ia [Ib ->]]]]]]].
      rewrite utab_node in It. apply uread_node_tags in It as [Is It]; auto using utab_nn.
      cbv beta in It.
      destruct (ucell_tag_sound S c rp _ _ _ _ _ _ Hh (utab_nn S c rp extended total Hh a)
                  (utab_nn S c rp extended total Hh b) l r It) as [Il [Ir [F [k0 [i [j [If [Cl [Cr Ecell]]]]]]]]].
      pose proof (bounded_l total a b B) as Ba. pose proof (bounded_r total a b B) as Bb.
      destruct (udecode_valid S c rp extended total Hh a La Ba _ l ta (ucontent_covers_l total P a b (snd k) B Cv) Ia)
        as [_ [Ra _]].
      destruct (udecode_valid S c rp extended total Hh b Lb Bb _ r tb (ucontent_covers_r total P a b (snd k) B Cv) Ib)
        as [_ [Rb _]].
      destruct (IHa La Ba _ l ta (ucontent_covers_l total P a b (snd k) B Cv) Ia) as [za Ca].
      destruct (IHb Lb Bb _ r tb (ucontent_covers_r total P a b (snd k) B Cv) Ib) as [zb Cb].
      assert (event (fst k) (fst l) (fst r) <> Inv) as Ev by (eapply ufams_event; eauto).
      cbn [forget]. apply (cost_node_fin c a b (fst k) (forget ta) (forget tb) za zb); auto;
        rewrite !forget_root, Ra, Rb; auto.
      apply ecost_fin; auto. intros Eh. apply (ufams_hgt_inf S c (fst k) k0 i j (fst l) (fst r) If Cl Cr Eh).
      intros Ek. rewrite Ecell in F. unfold ufval in F. rewrite Ek in F. simpl in F. discriminate.
  Qed.
End UDecodeFinite.

(* every returned labelled tree has a finite total cost, which is the value of the result *)
Theorem uspfs_finite S c rp extended O E t : nn (c_hgt c) -> leaves_ok S O ->
  uspfs S c rp extended O = Some E -> In t (tags E) ->
  exists z, total_cost c O false t = Some (Fin z) /\ ucost c O t = Fin z /\ val E = Fin z.
Proof.
  intros Hh L. rewrite (uspfs_some S c rp extended O Hh L). intros [= <-] H.
  apply (upd_tags_sound Uspfs.ltree_eqb UspfsProofs.ltree_eqb_spec) in H.
  apply in_uspfs_cands in H as [s [_ [It Ev]]].
  pose proof (udecode_root_valid S c rp extended O Hh L s t It) as [V _].
  rewrite udecode_root_anc in It.
  destruct (udecode_finite S c rp extended (ototal O) Hh O L (ototal_bounded O) [] (s, false) t (root_covers O []) It)
    as [z Ez].
  exists (z + c_sloss c * ulab_spec t).
  assert (ucost c O t = Fin (z + c_sloss c * ulab_spec t)) as Eu by (unfold ucost; rewrite Ez; reflexivity).
  rewrite (total_cost_events c O t (uvalid_events S _ O [] t V)), Ev, Eu. auto.
Qed.

Print Assumptions lca_finite.
Print Assumptions thl_finite.
Print Assumptions exh_finite.
Print Assumptions spfs_finite.
Print Assumptions uspfs_finite.
