(** Proofs about [Model/Subseq.v] (property C18). *)
From Coq Require Import List Bool Arith ZArith NArith Lia.
From SR Require Import Model.Subseq.
Import ListNotations.
Local Open Scope Z_scope.

(* ------------------------------------------------------------------ *)
(** * Specification side: flags and runs *)

(* bits of [n] at positions [0 .. k-1] *)
Definition bits (n : N) (k : nat) : list bool :=
  map (fun i => N.testbit n (N.of_nat i)) (seq 0 k).

(* for the set bits of [parent] in increasing order: does [child] have that bit? *)
Definition flags (child parent : N) : list bool :=
  let k := N.to_nat (N.size parent) in
  map snd (filter fst (combine (bits parent k) (bits child k))).

(* number of maximal runs of [false]; [prev] is the flag preceding the list *)
Fixpoint runs_from (prev : bool) (l : list bool) : nat :=
  match l with
  | [] => 0
  | f :: l' => (if negb f && prev then 1 else 0) + runs_from f l'
  end.
Definition runs_all (l : list bool) : nat := runs_from true l.

(* runs touching neither end: started after a [true], with a [true] later *)
Fixpoint runs_inner_from (prev : bool) (l : list bool) : nat :=
  match l with
  | [] => 0
  | f :: l' => (if negb f && prev && existsb (fun x => x) l' then 1 else 0) + runs_inner_from f l'
  end.
Definition runs_inner (l : list bool) : nat := runs_inner_from false l.

Definition contained (child parent : N) : bool := N.eqb (N.ldiff child parent) 0.

Definition seg_dist_specf (child parent : N) (edges : bool) : Z :=
  if contained child parent
  then Z.of_nat (if edges then runs_all (flags child parent) else runs_inner (flags child parent))
  else -1.

(* ------------------------------------------------------------------ *)
(** * (A) the loop is a fold of the run automaton over the flags *)

Fixpoint flags_pos (p : positive) (c : N) : list bool :=
  match p with
  | xH => [N.odd c]
  | xO q => flags_pos q (N.div2 c)
  | xI q => N.odd c :: flags_pos q (N.div2 c)
  end.
Fixpoint conflict (p : positive) (c : N) : bool :=
  match p with
  | xH => false
  | xO q => N.odd c || conflict q (N.div2 c)
  | xI q => conflict q (N.div2 c)
  end.

Lemma seg_loop_fold p : forall c st,
  seg_loop p c st = if conflict p c then None else Some (fold_left step (flags_pos p c) st).
Proof.
  induction p as [q IH|q IH|]; intros c st; simpl.
  - rewrite IH. reflexivity.
  - destruct (N.odd c); simpl; auto.
  - reflexivity.
Qed.

(* ------------------------------------------------------------------ *)
(** * (B) list level: the automaton counts runs *)

Lemma fold_step_all l : forall s d,
  fold_left step l (s, d) =
  (match l with [] => s | _ => negb (last l true) end, d + Z.of_nat (runs_from (negb s) l)).
Proof.
  induction l as [|f l IH]; intros s d; simpl.
  - f_equal. lia.
  - destruct f; simpl.
    + rewrite IH. destruct l; simpl; f_equal; lia.
    + destruct s; simpl; rewrite IH; destruct l; simpl; f_equal; lia.
Qed.

Fixpoint trail (prev : bool) (l : list bool) : nat :=
  match l with
  | [] => 0
  | f :: l' => if f then trail true l'
               else if existsb (fun x => x) l' then trail false l'
               else if prev then 1 else 0
  end.

Lemma runs_all_false prev l : existsb (fun x => x) l = false ->
  runs_from false l = 0%nat /\ runs_inner_from prev l = 0%nat.
Proof.
  revert prev; induction l as [|f l IH]; intros prev; simpl; auto.
  destruct f; simpl; [discriminate|]. intros H. rewrite H. destruct (IH false H) as [A B].
  rewrite A, B. rewrite andb_false_r. auto.
Qed.

Lemma runs_split l : forall prev, runs_from prev l = (runs_inner_from prev l + trail prev l)%nat.
Proof.
  induction l as [|f l IH]; intros prev; simpl; auto.
  destruct f; simpl.
  - apply IH.
  - destruct (existsb (fun x => x) l) eqn:E.
    + rewrite andb_true_r. rewrite IH. lia.
    + rewrite andb_false_r. destruct (runs_all_false false l E) as [A B]. rewrite A, B.
      destruct prev; simpl; lia.
Qed.

Lemma trail_last l : forall prev, existsb (fun x => x) l = true ->
  trail prev l = if last l true then 0%nat else 1%nat.
Proof.
  induction l as [|f l IH]; intros prev; simpl; [discriminate|].
  destruct f; simpl.
  - intros _. destruct l as [|g l]; [reflexivity|].
    destruct (existsb (fun x => x) (g :: l)) eqn:E.
    + rewrite (IH true eq_refl). reflexivity.
    + clear IH. revert E. generalize (g :: l) as m. intros m.
      assert (forall m, m <> [] -> existsb (fun x => x) m = false -> trail true m = 1%nat /\ last m true = false) as K.
      { clear. induction m as [|h m IH]; [congruence|]. intros _. simpl. destruct h; simpl; [discriminate|].
        intros E. rewrite E. destruct m as [|k m]; [auto|]. split; [reflexivity|].
        destruct (IH ltac:(congruence) E) as [_ L]. exact L. }
      intros E. destruct m as [|k m]; [simpl; reflexivity|].
      destruct (K (k :: m) ltac:(congruence) E) as [A B]. rewrite A.
      change (last (true :: k :: m) true) with (last (k :: m) true). rewrite B. reflexivity.
  - intros E. rewrite E. rewrite (IH false E). destruct l; [discriminate|reflexivity].
Qed.

Lemma automaton_edges l :
  let '(s, d) := fold_left step l (false, 0) in d = Z.of_nat (runs_all l).
Proof. rewrite fold_step_all. unfold runs_all. simpl. lia. Qed.

Lemma automaton_inner l : existsb (fun x => x) l = true ->
  let '(s, d) := fold_left step l (true, 0) in
  (if s then d - 1 else d) = Z.of_nat (runs_inner l).
Proof.
  intros E. rewrite fold_step_all. unfold runs_inner. simpl negb.
  rewrite runs_split, (trail_last l false E).
  destruct l as [|f l]; [discriminate|].
  destruct (last (f :: l) true); simpl negb; cbv iota; lia.
Qed.

Lemma runs_from_prev l : (runs_from false l <= runs_from true l <= runs_from false l + 1)%nat.
Proof. destruct l as [|f l]; simpl; [lia|]. destruct f; simpl; lia. Qed.
Lemma runs_inner_prev l : (runs_inner_from false l <= runs_inner_from true l <= runs_inner_from false l + 1)%nat.
Proof. destruct l as [|f l]; simpl; [lia|]. destruct f; simpl; [lia|]. destruct (existsb (fun x => x) l); simpl; lia. Qed.
Lemma trail_le1 l : forall prev, (trail prev l <= 1)%nat.
Proof. induction l as [|f l IH]; intros prev; simpl; [lia|]. destruct f; [apply IH|]. destruct (existsb (fun x => x) l); [apply IH|destruct prev; lia]. Qed.

(* inner runs differ from all runs by at most the two end runs *)
Lemma runs_inner_bounds l : (runs_inner l <= runs_all l <= runs_inner l + 2)%nat.
Proof.
  unfold runs_inner, runs_all.
  pose proof (runs_split l true) as S1. pose proof (runs_split l false) as S0.
  pose proof (trail_le1 l true). pose proof (trail_le1 l false).
  pose proof (runs_from_prev l). pose proof (runs_inner_prev l). lia.
Qed.

(* ------------------------------------------------------------------ *)
(** * (C) bit level: conflict <-> not contained *)

Lemma conflict_zero p : conflict p 0%N = false.
Proof. induction p; simpl; auto. Qed.

Lemma Ndouble_eq0 n : Pos.Ndouble n = 0%N <-> n = 0%N.
Proof. destruct n; simpl; split; congruence. Qed.
Lemma Nsucc_double_neq0 n : Pos.Nsucc_double n <> 0%N.
Proof. destruct n; simpl; congruence. Qed.

Lemma conflict_ldiff p : forall c, (N.size c <= N.size (Npos p))%N ->
  (conflict p c = true <-> N.ldiff c (Npos p) <> 0%N).
Proof.
  induction p as [q IH|q IH|]; intros [|c'] Hs.
  - rewrite conflict_zero. simpl. split; congruence.
  - destruct c' as [c''|c''|]; cbn [conflict N.odd N.div2 N.ldiff Pos.ldiff].
    + rewrite (IH (Npos c'')) by (simpl in *; lia). simpl. rewrite Ndouble_eq0. reflexivity.
    + rewrite (IH (Npos c'')) by (simpl in *; lia). simpl. rewrite Ndouble_eq0. reflexivity.
    + rewrite conflict_zero. split; congruence.
  - rewrite conflict_zero. simpl. split; congruence.
  - destruct c' as [c''|c''|]; cbn [conflict N.odd N.div2 N.ldiff Pos.ldiff orb].
    + split; [intros _; apply Nsucc_double_neq0|auto].
    + rewrite (IH (Npos c'')) by (simpl in *; lia). simpl. rewrite Ndouble_eq0. reflexivity.
    + simpl. split; [congruence|auto].
  - simpl. split; congruence.
  - destruct c' as [c''|c''|]; simpl in Hs; try lia. simpl. split; congruence.
Qed.

Lemma size_gt_ldiff c p : (N.size p < N.size c)%N -> N.ldiff c p <> 0%N.
Proof.
  intros H E.
  assert (c <> 0%N) as Hc by (intros ->; simpl in H; lia).
  pose proof (N.size_log2 c Hc) as S.
  assert (N.testbit c (N.log2 c) = true) as Tc by (apply N.bit_log2; auto).
  assert (N.testbit p (N.log2 c) = false) as Tp.
  { destruct p as [|pp]; [apply N.bits_0|]. apply N.bits_above_log2.
    pose proof (N.size_log2 (Npos pp) ltac:(congruence)). lia. }
  assert (N.testbit (N.ldiff c p) (N.log2 c) = true) as T by (rewrite N.ldiff_spec, Tc, Tp; reflexivity).
  rewrite E, N.bits_0 in T. discriminate.
Qed.

(* a non-empty contained child keeps at least one parent element *)
Lemma flags_exists p : forall c, conflict p c = false ->
  (N.size c <= N.size (Npos p))%N -> c <> 0%N ->
  existsb (fun x => x) (flags_pos p c) = true.
Proof.
  induction p as [q IH|q IH|]; intros [|c'] K Hs Hc; try congruence.
  - destruct c' as [c''|c''|]; cbn [flags_pos N.odd existsb orb]; auto.
    cbn [conflict N.div2] in *. apply IH; simpl in *; try lia; try congruence.
  - destruct c' as [c''|c''|]; cbn [conflict N.odd orb] in K; try discriminate.
    cbn [flags_pos N.div2] in *. apply IH; simpl in *; try lia; try congruence.
  - destruct c' as [c''|c''|]; simpl in Hs; try lia. reflexivity.
Qed.

(* ------------------------------------------------------------------ *)
(** * (D) the flags read off the digits are the testbit flags *)

Lemma bits_S n k : bits n (S k) = N.odd n :: bits (N.div2 n) k.
Proof.
  unfold bits. cbn [seq map]. rewrite N.bit0_odd. f_equal.
  rewrite <- seq_shift, map_map. apply map_ext. intros i.
  rewrite Nat2N.inj_succ, N.testbit_succ_r_div2 by lia. reflexivity.
Qed.

Definition flags_k (k : nat) (child parent : N) : list bool :=
  map snd (filter fst (combine (bits parent k) (bits child k))).

Lemma size_nat_xO q : N.to_nat (N.size (Npos q~0)) = S (N.to_nat (N.size (Npos q))).
Proof. simpl. lia. Qed.
Lemma size_nat_xI q : N.to_nat (N.size (Npos q~1)) = S (N.to_nat (N.size (Npos q))).
Proof. simpl. lia. Qed.

Lemma flags_pos_flags p : forall c, flags_pos p c = flags c (Npos p).
Proof.
  unfold flags. induction p as [q IH|q IH|]; intros c.
  - rewrite size_nat_xI, !bits_S. change (N.odd (N.pos q~1)) with true.
    change (N.div2 (N.pos q~1)) with (N.pos q).
    cbn [combine filter fst map snd flags_pos]. f_equal. apply IH.
  - rewrite size_nat_xO, !bits_S. change (N.odd (N.pos q~0)) with false.
    change (N.div2 (N.pos q~0)) with (N.pos q).
    cbn [combine filter fst map snd flags_pos]. apply IH.
  - change (N.to_nat (N.size 1)) with 1%nat. rewrite !bits_S. reflexivity.
Qed.

(* ------------------------------------------------------------------ *)
(** * Segment distance = specification *)

Theorem seg_dist_correct child parent edges :
  child <> 0%N -> seg_dist child parent edges = seg_dist_specf child parent edges.
Proof.
  intros Hc. unfold seg_dist, seg_dist_specf, contained.
  destruct (N.ltb_spec (N.size parent) (N.size child)) as [L|L].
  - pose proof (size_gt_ldiff _ _ L) as E. apply N.eqb_neq in E. now rewrite E.
  - destruct parent as [|p].
    + destruct child; [congruence|]. simpl in L. lia.
    + rewrite seg_loop_fold. pose proof (conflict_ldiff p child L) as C.
      destruct (conflict p child) eqn:K.
      * assert (N.ldiff child (N.pos p) <> 0%N) as E by (apply C; auto).
        apply N.eqb_neq in E. now rewrite E.
      * assert (N.ldiff child (N.pos p) = 0%N) as E.
        { destruct (N.eq_dec (N.ldiff child (N.pos p)) 0) as [E|E]; auto.
          apply C in E. discriminate. }
        rewrite E. cbn [N.eqb]. rewrite <- flags_pos_flags.
        pose proof (flags_exists p child K L Hc) as Ex.
        destruct edges; simpl negb.
        -- pose proof (automaton_edges (flags_pos p child)) as A.
           destruct (fold_left step (flags_pos p child) (false, 0)) as [s d].
           rewrite andb_false_r. exact A.
        -- pose proof (automaton_inner (flags_pos p child) Ex) as A.
           destruct (fold_left step (flags_pos p child) (true, 0)) as [s d].
           rewrite andb_true_r. exact A.
Qed.

(* -1 exactly when not contained *)
Corollary seg_dist_minus_one child parent edges :
  child <> 0%N -> (seg_dist child parent edges = -1 <-> contained child parent = false).
Proof.
  intros Hc. rewrite seg_dist_correct by auto. unfold seg_dist_specf.
  destruct (contained child parent); split; try congruence; lia.
Qed.

(* the excluded branch, made explicit: an empty child with ends excluded
   yields -1 although it is contained in every parent *)
Lemma seg_dist_empty_child parent : seg_dist 0 parent false = -1.
Proof.
  unfold seg_dist. destruct parent as [|p]; [reflexivity|].
  replace (N.size (N.pos p) <? N.size 0)%N with false by (symmetry; apply N.ltb_ge; simpl; lia).
  rewrite seg_loop_fold, conflict_zero.
  assert (forall q d, fold_left step (flags_pos q 0) (true, d) = (true, d)) as F.
  { induction q as [q IH|q IH|]; intros d; simpl; auto. }
  simpl negb. rewrite F. reflexivity.
Qed.

(* ------------------------------------------------------------------ *)
(** * Mask round trips *)

Section MaskProofs.
  Context {A : Type} (eqb : A -> A -> bool).
  Hypothesis eqb_spec : forall x y, reflect (x = y) (eqb x y).

  Inductive Subseq : list A -> list A -> Prop :=
  | sub_nil l : Subseq [] l
  | sub_take x c p : Subseq c p -> Subseq (x :: c) (x :: p)
  | sub_skip x c p : Subseq c p -> Subseq c (x :: p).

  Lemma Subseq_tail x c p : Subseq (x :: c) p -> Subseq c p.
  Proof.
    induction p as [|y p IH]; intros H; inversion H; subst.
    - now apply sub_skip.
    - apply sub_skip. now apply IH.
  Qed.

  Lemma Subseq_in c p : Subseq c p -> forall x, In x c -> In x p.
  Proof. induction 1; simpl; intros y; intuition. Qed.

  Lemma from_mask_double m (pv : A) ps :
    subseq_from_mask (N.double m) (pv :: ps) = subseq_from_mask m ps.
  Proof. destruct m; reflexivity. Qed.
  Lemma from_mask_succ_double m (pv : A) ps :
    subseq_from_mask (N.succ_double m) (pv :: ps) = option_map (cons pv) (subseq_from_mask m ps).
  Proof. destruct m; reflexivity. Qed.

  Theorem mask_roundtrip_1 (parent : list A) : forall child, Subseq child parent ->
    subseq_from_mask (mask_from_subseq eqb child parent) parent = Some child.
  Proof.
    induction parent as [|pv ps IH]; intros child H.
    - inversion H; subst. reflexivity.
    - destruct child as [|cv cs]; [reflexivity|].
      cbn [mask_from_subseq]. destruct (eqb_spec cv pv) as [->|Hne].
      + rewrite from_mask_succ_double, IH; [reflexivity|].
        inversion H; subst; auto. eapply Subseq_tail; eauto.
      + rewrite from_mask_double. apply IH. inversion H; subst; congruence.
  Qed.

  Lemma from_pos_nonempty p : forall (parent l : list A), from_pos p parent = Some l -> l <> [].
  Proof.
    induction p as [q IH|q IH|]; intros [|pv ps] l; simpl; try discriminate.
    - destruct (from_pos q ps); simpl; congruence.
    - apply IH.
    - congruence.
  Qed.

  Lemma from_mask_subseq (parent : list A) : forall m child,
    subseq_from_mask m parent = Some child -> Subseq child parent.
  Proof.
    induction parent as [|pv ps IH]; intros [|p] child; simpl; try discriminate.
    - intros [= <-]. constructor.
    - destruct p; discriminate.
    - intros [= <-]. constructor.
    - destruct p as [q|q|]; simpl.
      + specialize (IH (Npos q)). simpl in IH. destruct (from_pos q ps); simpl; [|discriminate].
        intros [= <-]. constructor. now apply IH.
      + intros H. apply sub_skip. now apply (IH (Npos q)).
      + intros [= <-]. constructor. constructor.
  Qed.

  Theorem mask_roundtrip_2 (parent : list A) : NoDup parent -> forall m child,
    subseq_from_mask m parent = Some child -> mask_from_subseq eqb child parent = m.
  Proof.
    induction parent as [|pv ps IH]; intros ND [|p] child; simpl; try discriminate.
    - intros [= <-]. reflexivity.
    - destruct p; discriminate.
    - intros [= <-]. reflexivity.
    - inversion ND as [|? ? Hnotin ND']; subst.
      destruct p as [q|q|]; simpl.
      + destruct (from_pos q ps) as [l|] eqn:E; simpl; [|discriminate]. intros [= <-].
        destruct (eqb_spec pv pv); [|congruence].
        rewrite (IH ND' (Npos q) l E). reflexivity.
      + intros E. pose proof (from_pos_nonempty _ _ _ E) as Hne.
        destruct child as [|cv cs]; [congruence|].
        destruct (eqb_spec cv pv) as [->|_].
        * exfalso. apply Hnotin. eapply (Subseq_in _ _ (from_mask_subseq ps (Npos q) _ E)). now left.
        * rewrite (IH ND' (Npos q) _ E). reflexivity.
      + intros [= <-]. destruct (eqb_spec pv pv); [|congruence].
        destruct ps; reflexivity.
  Qed.

  (* masks below 2^|parent| always decode *)
  Lemma from_mask_defined (parent : list A) : forall m, (N.size_nat m <= length parent)%nat ->
    exists child, subseq_from_mask m parent = Some child.
  Proof.
    induction parent as [|pv ps IH]; intros [|p] H; simpl in *; eauto.
    - destruct p; simpl in H; lia.
    - destruct p as [q|q|]; simpl in *.
      + destruct (IH (Npos q)) as [l E]; [simpl; lia|]. simpl in E. rewrite E. simpl. eauto.
      + apply (IH (Npos q)). simpl; lia.
      + eauto.
  Qed.

  Lemma ones_succ n : N.ones (N.succ n) = N.succ_double (N.ones n).
  Proof.
    rewrite !N.ones_equiv, N.succ_double_spec, N.pow_succ_r'.
    pose proof (N.pow_nonzero 2 n ltac:(lia)). lia.
  Qed.

  Theorem complete_mask (l : list A) : subseq_from_mask (subseq_complete l) l = Some l.
  Proof.
    unfold subseq_complete. induction l as [|x l IH]; [reflexivity|].
    cbn [length]. rewrite Nat2N.inj_succ, ones_succ, from_mask_succ_double, IH. reflexivity.
  Qed.
End MaskProofs.
