(** Complements to [Proofs/CliRunProofs.v] (property C12):
    - the input file may leave out "leaf_object_species": the species of the object leaves then
      come from the <species>_<id> naming convention ([species_mapping]); [cli_wf_any] is the
      hypothesis on the input FILE covering both cases, [read_input_wf_any] discharges
      [cli_input_wf], and the whole-command theorems follow under [cli_wf_any];
    - [cli_written_names_distinct]: what one reads in the two Newick strings of every written
      object;
    - [cli_objects_nodup]: one JSON object per solution, no object twice. *)
From Coq Require Import List Bool Arith ZArith NArith String Ascii Lia Permutation.
From SR Require Import Base.PathB Base.Ext Model.Entry Model.Recon Model.LcaRec Model.Thl
  Model.Spfs Model.Uspfs Model.Newick Model.Serial Model.Label Gen.CliTable Model.Cli Model.CliRun.
From SR Require Import Proofs.PathFacts Proofs.ReconProofs Proofs.EntryProofs Proofs.DpProofs Proofs.LcaProofs
  Proofs.ExhProofs Proofs.ThlProofs Proofs.ThlFinal Proofs.LabelCostProofs Proofs.SpfsProofs Proofs.SpfsFinal
  Proofs.UspfsProofs Proofs.UspfsFinal Proofs.NewickProofs Proofs.SerialProofs Proofs.LabelProofs
  Proofs.CliRunProofs.
Import ListNotations.
Local Open Scope string_scope.
Local Open Scope list_scope.

(** * the root paths of a tree are pairwise distinct *)
Lemma pre_go_nodup l : Forall (fun k => NoDup (Serial.preorder k)) l -> forall i, NoDup (pre_go i l).
Proof.
  induction 1 as [|k l Hk _ IH]; intros i; cbn [pre_go]; [constructor|].
  apply NoDup_app_disj.
  - apply NoDup_map_inj; [intros a b E; now inversion E|exact Hk].
  - apply IH.
  - intros p I1 I2. apply in_map_iff in I1 as [q [<- _]].
    apply pre_go_In in I2 as [j [k' [p' [E _]]]]. inversion E. lia.
Qed.

Lemma preorder_nodup : forall t, NoDup (Serial.preorder t).
Proof.
  induction t as [n c ks IH] using tree_ind'. rewrite preorder_node. constructor.
  - intros I. apply pre_go_In in I as [j [k [p' [E _]]]]. discriminate.
  - now apply pre_go_nodup.
Qed.

Lemma leaf_paths_nodup t : NoDup (leaf_paths t).
Proof. unfold leaf_paths. apply NoDup_filter, preorder_nodup. Qed.
Lemma leaf_paths_valid t p : In p (leaf_paths t) -> valid t p = true.
Proof. unfold leaf_paths. intros I. apply filter_In in I as [I _]. now apply preorder_valid. Qed.

(** * [get_species_mapping] builds a mapping keyed by distinct existing leaves of the object
      tree, with existing leaves of the species tree as values -- for ALL pairs of trees *)
Lemma flat_map_keys_nodup {A B} (f : A -> list (A * B)) (l : list A) :
  (forall a kv, In kv (f a) -> fst kv = a) -> (forall a, List.length (f a) <= 1) ->
  NoDup l -> NoDup (map fst (flat_map f l)).
Proof.
  intros Hk Hl. induction 1 as [|a l Na ND IH]; cbn [flat_map]; [constructor|].
  rewrite map_app. apply NoDup_app_disj; [|exact IH|].
  - specialize (Hl a). pose proof (Hk a) as Hka. destruct (f a) as [|kv [|kv' r]]; cbn in *; try lia;
      repeat constructor. intros [].
  - intros k I1 I2. apply in_map_iff in I1 as [kv [<- I1]]. rewrite (Hk a kv I1) in I2.
    apply in_map_iff in I2 as [kv' [E I2]]. apply in_flat_map in I2 as [a' [Ia' I2]].
    rewrite (Hk a' kv' I2) in E. subst a'. contradiction.
Qed.

Lemma species_mapping_entry O S p kv :
  In kv (match name_at O p with
         | Some n => match species_prefix_mapping
                             (map (fun p => match name_at S p with Some n => n | None => "" end) (leaf_paths S)) n with
                     | Some i => match nth_error (leaf_paths S) i with Some q => [(p, q)] | None => [] end
                     | None => []
                     end
         | None => []
         end) -> fst kv = p /\ In (snd kv) (leaf_paths S).
Proof.
  destruct (name_at O p) as [n|]; [|intros []].
  destruct (species_prefix_mapping _ n) as [i|]; [|intros []].
  destruct (nth_error (leaf_paths S) i) as [q|] eqn:E; [|intros []].
  intros [<-|[]]. split; [reflexivity|]. cbn. eapply nth_error_In; eauto.
Qed.

Theorem species_mapping_wf O S : wf_tmap O S (species_mapping O S).
Proof.
  unfold species_mapping. cbv zeta. split.
  - apply flat_map_keys_nodup; [| |apply leaf_paths_nodup].
    + intros p kv I. exact (proj1 (species_mapping_entry O S p kv I)).
    + intros p. destruct (name_at O p) as [n|]; [|cbn; lia].
      destruct (species_prefix_mapping _ n) as [i|]; [|cbn; lia].
      destruct (nth_error (leaf_paths S) i); cbn; lia.
  - apply Forall_forall. intros kv I. apply in_flat_map in I as [p [Ip I]].
    destruct (species_mapping_entry O S p kv I) as [E Iq]. destruct kv as [p' q]. cbn in E, Iq |- *. subst p'. split.
    + now apply leaf_paths_valid.
    + now apply leaf_paths_valid.
Qed.

(* every pair of the mapping is what [get_species_mapping] says: an object LEAF whose name is
   mapped, through [species_prefix_mapping] over the names of the species leaves in leaf order,
   to the index of that species LEAF *)
Theorem species_mapping_spec O S p q : In (p, q) (species_mapping O S) ->
  In p (leaf_paths O) /\
  exists n i, name_at O p = Some n /\
    species_prefix_mapping
      (map (fun p => match name_at S p with Some n => n | None => "" end) (leaf_paths S)) n = Some i /\
    nth_error (leaf_paths S) i = Some q.
Proof.
  unfold species_mapping. cbv zeta. intros I. apply in_flat_map in I as [p' [Ip I]].
  destruct (name_at O p') as [n|] eqn:En; [|destruct I].
  destruct (species_prefix_mapping _ n) as [i|] eqn:Ei; [|destruct I].
  destruct (nth_error (leaf_paths S) i) as [q'|] eqn:Eq; [|destruct I].
  destruct I as [E|[]]. inversion E; subst p' q'. split; [exact Ip|]. exists n, i. auto.
Qed.

(** * hypotheses on the input file, with or without "leaf_object_species" *)
Record cli_wf_any (x : cli_input) : Prop := mk_cli_wf_any {
  (* given names are words over [A-Za-z0-9_] (a node without a name, or called "NoName", is unnamed) ... *)
  wfa_onames : Forall (fun n => is_unnamed n = true \/ ok_word n = true) (Label.preorder (ci_otree x));
  wfa_snames : Forall (fun n => is_unnamed n = true \/ ok_word n = true) (Label.preorder (ci_stree x));
  (* ... and pairwise distinct *)
  wfa_odistinct : NoDup (filter (named is_unnamed) (Label.preorder (ci_otree x)));
  wfa_sdistinct : NoDup (filter (named is_unnamed) (Label.preorder (ci_stree x)));
  (* "leaf_object_species", WHEN GIVEN, is a JSON object (distinct keys); when it is not, the
     species of the leaves come from the <species>_<id> naming convention: nothing to require *)
  wfa_leafmap : forall d, ci_leafmap x = Some d -> NoDup (map fst d);
  (* "leaf_syntenies", when given, is a JSON object whose syntenies are not empty *)
  wfa_leafsyn : forall d, ci_leafsyn x = Some d -> NoDup (map fst d) /\ Forall (fun kv => snd kv <> []) d
}.

(* the record, spelled out *)
Lemma cli_wf_any_unfold x : cli_wf_any x <->
  Forall (fun n => is_unnamed n = true \/ ok_word n = true) (Label.preorder (ci_otree x)) /\
  Forall (fun n => is_unnamed n = true \/ ok_word n = true) (Label.preorder (ci_stree x)) /\
  NoDup (filter (named is_unnamed) (Label.preorder (ci_otree x))) /\
  NoDup (filter (named is_unnamed) (Label.preorder (ci_stree x))) /\
  (forall d, ci_leafmap x = Some d -> NoDup (map fst d)) /\
  (forall d, ci_leafsyn x = Some d -> NoDup (map fst d) /\ Forall (fun kv => snd kv <> []) d).
Proof.
  split.
  - intros [A B C D E F]. auto 7.
  - intros [A [B [C [D [E F]]]]]. now constructor.
Qed.

Lemma cli_wf_any_of_wf x : cli_wf x -> cli_wf_any x.
Proof.
  intros [A B C D [d [Ed Nd]] F]. constructor; auto. intros d' E. rewrite Ed in E. now inversion E; subst.
Qed.

(* the naming-convention path: no "leaf_object_species" entry in the file *)
Lemma cli_wf_any_convention x :
  Forall (fun n => is_unnamed n = true \/ ok_word n = true) (Label.preorder (ci_otree x)) ->
  Forall (fun n => is_unnamed n = true \/ ok_word n = true) (Label.preorder (ci_stree x)) ->
  NoDup (filter (named is_unnamed) (Label.preorder (ci_otree x))) ->
  NoDup (filter (named is_unnamed) (Label.preorder (ci_stree x))) ->
  ci_leafmap x = None ->
  (forall d, ci_leafsyn x = Some d -> NoDup (map fst d) /\ Forall (fun kv => snd kv <> []) d) ->
  cli_wf_any x.
Proof. intros A B C D E F. constructor; auto. intros d Ed. rewrite E in Ed. discriminate. Qed.

Lemma cli_wf_any_policy x rp : cli_wf_any x -> cli_wf_any (set_policy x rp).
Proof. intros [A B C D E F]. constructor; auto. Qed.

(* the leaf mapping [read_input] builds, on the trees as read *)
Lemma leafmap_wf x lm : (forall d, ci_leafmap x = Some d -> NoDup (map fst d)) ->
  match ci_leafmap x with
  | Some d => parse_tree_mapping (tree_of (ci_otree x)) (tree_of (ci_stree x)) d
  | None => Some (species_mapping (tree_of (ci_otree x)) (tree_of (ci_stree x)))
  end = Some lm ->
  wf_tmap (tree_of (ci_otree x)) (tree_of (ci_stree x)) lm.
Proof.
  intros Hd. destruct (ci_leafmap x) as [d|].
  - intros Elm. specialize (Hd d eq_refl). unfold parse_tree_mapping in Elm. split.
    + eapply (mapM_keys_nodup _ fst fst (name_at (tree_of (ci_otree x)))); [|exact Elm|exact Hd].
      intros kv pq. cbv beta. destruct (find_name (tree_of (ci_otree x)) (fst kv)) as [p|] eqn:Fp; [|disc].
      destruct (find_name (tree_of (ci_stree x)) (snd kv)) as [q|]; [|disc]. intros E. inversion E; subst pq. cbn.
      exact (proj1 (find_name_some _ _ _ Fp)).
    + apply mapM_some in Elm. clear Hd. induction Elm as [|kv pq d' lm' Hf _ IH]; [constructor|]. constructor; [|exact IH].
      destruct (find_name (tree_of (ci_otree x)) (fst kv)) as [p|] eqn:Fp; [|disc].
      destruct (find_name (tree_of (ci_stree x)) (snd kv)) as [q|] eqn:Fq; [|disc]. inversion Hf; subst pq. cbn.
      split; [exact (proj2 (find_name_some _ _ _ Fp))|exact (proj2 (find_name_some _ _ _ Fq))].
  - intros E. inversion E; subst lm. apply species_mapping_wf.
Qed.

Theorem read_input_wf_any x inp : cli_wf_any x -> read_input x = Some inp -> cli_input_wf inp.
Proof.
  intros [Won Wsn Wod Wsd Wlm Wls]. unfold read_input.
  match goal with |- match ?a with _ => _ end = _ -> _ => destruct a as [lm|] eqn:Elm; [|discriminate] end.
  pose proof (leafmap_wf x lm Wlm Elm) as [NDlm Vlm]. clear Elm.
  match goal with |- match ?a with _ => _ end = _ -> _ => destruct a as [ls|] eqn:El; [|discriminate] end.
  destruct (label_object_tree (ci_otree x)) as [O'|] eqn:EO; [|discriminate].
  destruct (label_species_tree (ci_stree x)) as [S'|] eqn:ES; [|discriminate].
  intros H.
  destruct (label_internal_distinct_nonempty String.eqb is_unnamed (gen_name "O") String.eqb_spec (gen_name_inj "O") gen_O_named (ci_otree x))
    as [O1 [EO1 [ShO [_ [_ NdO]]]]]. unfold label_object_tree in EO. rewrite EO in EO1. inversion EO1; subst O1. clear EO1.
  destruct (label_internal_distinct_nonempty String.eqb is_unnamed (gen_name "S") String.eqb_spec (gen_name_inj "S") gen_S_named (ci_stree x))
    as [S1 [ES1 [ShS [_ [_ NdS]]]]]. unfold label_species_tree in ES. rewrite ES in ES1. inversion ES1; subst S1. clear ES1.
  pose proof (labelled_good "O" _ _ (gen_name_inj "O") gen_O_named eq_refl Won EO) as GO.
  pose proof (labelled_good "S" _ _ (gen_name_inj "S") gen_S_named eq_refl Wsn ES) as GS.
  assert (wf_rinput well_named (mkRI (tree_of O') (tree_of S') lm (cost_items (ci_costs x)))) as Wb.
  { constructor; cbn [Serial.otree Serial.stree leafmap Serial.costs].
    - now apply ok_tree_of.
    - now apply ok_tree_of.
    - rewrite names_tree_of. auto.
    - rewrite names_tree_of. auto.
    - split; [exact NDlm|]. eapply Forall_impl; [|exact Vlm]. intros pq [Vp Vq].
      rewrite (valid_same_shape (fst pq) _ _ ShO), (valid_same_shape (snd pq) _ _ ShS). auto.
    - cbn. repeat constructor; cbn; intuition discriminate. }
  destruct (ci_leafsyn x) as [ds|] eqn:Eds.
  - destruct (parse_synteny_mapping (tree_of (ci_otree x)) ds) as [m|] eqn:Em; [|disc]. cbn in El. inversion El; subst ls.
    inversion H; subst inp. clear H El. destruct (Wls ds eq_refl) as [NDs Ne]. unfold parse_synteny_mapping in Em.
    split; [split; [exact Wb|]|].
    + cbn [s_base leafsyn Serial.otree]. split.
      * eapply (mapM_keys_nodup _ fst fst (name_at (tree_of (ci_otree x)))); [|exact Em|exact NDs].
        intros kv ps. cbv beta. destruct (find_name (tree_of (ci_otree x)) (fst kv)) as [p|] eqn:Fp; [|disc]. cbn.
        intros E. inversion E; subst ps. cbn. exact (proj1 (find_name_some _ _ _ Fp)).
      * apply mapM_some in Em. clear NDs Ne Eds Wls. induction Em as [|kv ps d' m' Hf _ IH]; [constructor|]. constructor; [|exact IH].
        destruct (find_name (tree_of (ci_otree x)) (fst kv)) as [p|] eqn:Fp; [|disc]. cbn in Hf. inversion Hf; subst ps. cbn.
        rewrite (valid_same_shape p _ _ ShO). exact (proj2 (find_name_some _ _ _ Fp)).
    + cbn [leafsyn]. apply mapM_some in Em. clear NDs Eds Wls. induction Em as [|kv ps d' m' Hf _ IH]; [constructor|].
      inversion Ne as [|? ? Hk Ne']; subst. constructor; auto.
      destruct (find_name (tree_of (ci_otree x)) (fst kv)); [|disc]. cbn in Hf. inversion Hf; subst ps. exact Hk.
  - inversion El; subst ls. inversion H; subst inp. split; [exact Wb|exact I].
Qed.

(* the naming-convention path, spelled out: the file has no "leaf_object_species" entry *)
Corollary read_input_wf_convention x inp :
  Forall (fun n => is_unnamed n = true \/ ok_word n = true) (Label.preorder (ci_otree x)) ->
  Forall (fun n => is_unnamed n = true \/ ok_word n = true) (Label.preorder (ci_stree x)) ->
  NoDup (filter (named is_unnamed) (Label.preorder (ci_otree x))) ->
  NoDup (filter (named is_unnamed) (Label.preorder (ci_stree x))) ->
  ci_leafmap x = None ->
  (forall d, ci_leafsyn x = Some d -> NoDup (map fst d) /\ Forall (fun kv => snd kv <> []) d) ->
  read_input x = Some inp ->
  cli_input_wf inp /\
  leafmap (base_of inp) = species_mapping (tree_of (ci_otree x)) (tree_of (ci_stree x)).
Proof.
  intros A B C D E F R. split.
  - exact (read_input_wf_any x inp (cli_wf_any_convention x A B C D E F) R).
  - destruct (read_input_inv x inp R) as [lm [O' [S' [_ [_ [Eb _]]]]]]. rewrite Eb. cbn.
    revert R. unfold read_input. rewrite E.
    destruct (match ci_leafsyn x with Some d => _ | None => _ end) as [ls|]; [|discriminate].
    destruct (label_object_tree (ci_otree x)); [|discriminate].
    destruct (label_species_tree (ci_stree x)); [|discriminate].
    intros R. inversion R; subst inp. destruct ls; cbn in Eb; inversion Eb; reflexivity.
Qed.

(** * the whole-command theorems under [cli_wf_any] *)
Corollary cli_objects_parse_back_wf_any x warned m objs :
  cli_wf_any x -> nn (c_hgt (ci_costs x)) -> cli_run x = CliOk warned m objs ->
  exists inp, read_input x = Some inp /\
    forall d, In d objs ->
    exists r, parse_back d = Some r /\ result_input r = Plain (base_of inp) /\
              eval_result (own_num r) r = Some m.
Proof.
  intros W Hh H. destruct (cli_run_reads x warned m objs H) as [inp Er]. exists inp. split; [exact Er|].
  exact (cli_objects_parse_back_own x inp warned m objs Er (read_input_wf_any x inp W Er) Hh H).
Qed.

Corollary cli_all_superset_any_wf_any x wa ma oa wl ml ol :
  cli_wf_any x -> nn (c_hgt (ci_costs x)) -> cli_region (ci_algo x) (ci_costs x) ->
  cli_run (set_policy x RANY) = CliOk wa ma oa ->
  cli_run (set_policy x RALL) = CliOk wl ml ol ->
  incl oa ol /\ ma = ml.
Proof.
  intros W Hh Hr Ha Hl. destruct (cli_run_reads _ _ _ _ Ha) as [inp Er]. rewrite read_input_policy in Er.
  exact (cli_all_superset_any x inp wa ma oa wl ml ol Er (read_input_wf_any x inp W Er) Hh Hr Ha Hl).
Qed.

(** * the names one reads in every written object *)
Theorem cli_written_names_distinct x warned m objs :
  cli_wf_any x -> cli_run x = CliOk warned m objs ->
  forall d, In d objs ->
  exists uo us,
    parse_tree (d_otree (obj_base d)) = Some uo /\ parse_tree (d_stree (obj_base d)) = Some us /\
    NoDup (names uo) /\ NoDup (names us) /\
    Forall good_name (names uo) /\ Forall good_name (names us) /\
    Forall2 (fun a b => if is_unnamed a then exists k, b = gen_name "O" k else b = a)
            (Label.preorder (ci_otree x)) (names uo) /\
    Forall2 (fun a b => if is_unnamed a then exists k, b = gen_name "S" k else b = a)
            (Label.preorder (ci_stree x)) (names us).
Proof.
  intros [Won Wsn Wod Wsd _ _] H d Id.
  destruct (cli_names x warned m objs H) as [O' [S' [LO [LS Hd]]]].
  destruct (Hd d Id) as [EO ES]. rewrite EO, ES.
  destruct LO as [EO' [_ [_ [PO [_ NO]]]]]. destruct LS as [ES' [_ [_ [PS [_ NS]]]]].
  pose proof (labelled_good "O" _ _ (gen_name_inj "O") gen_O_named eq_refl Won EO') as GO.
  pose proof (labelled_good "S" _ _ (gen_name_inj "S") gen_S_named eq_refl Wsn ES') as GS.
  destruct (written_tree_names O' GO) as [uo [Po No]]. destruct (written_tree_names S' GS) as [us [Ps Ns]].
  exists uo, us. rewrite No, Ns. repeat split; auto.
Qed.

Corollary cli_written_names_distinct_wf x warned m objs :
  cli_wf x -> cli_run x = CliOk warned m objs ->
  forall d, In d objs ->
  exists uo us,
    parse_tree (d_otree (obj_base d)) = Some uo /\ parse_tree (d_stree (obj_base d)) = Some us /\
    NoDup (names uo) /\ NoDup (names us) /\
    Forall good_name (names uo) /\ Forall good_name (names us) /\
    Forall2 (fun a b => if is_unnamed a then exists k, b = gen_name "O" k else b = a)
            (Label.preorder (ci_otree x)) (names uo) /\
    Forall2 (fun a b => if is_unnamed a then exists k, b = gen_name "S" k else b = a)
            (Label.preorder (ci_stree x)) (names us).
Proof. intros W. apply cli_written_names_distinct. now apply cli_wf_any_of_wf. Qed.

(** * one JSON object per solution: the written objects are pairwise distinct *)

(* the tag list of a fresh entry is duplicate-free under every policy *)
Lemma fresh_entry_tags_nodup {T} (eqb : T -> T -> bool) (spec : forall x y, reflect (x = y) (eqb x y)) mp rp cs :
  NoDup (tags (update eqb mp rp (default_entry mp) cs)).
Proof.
  destruct rp.
  - rewrite entry_tags_none. constructor.
  - destruct (entry_tags_any eqb mp cs) as [[E _]|[t [E _]]]; rewrite E; repeat constructor. intros [].
  - now apply entry_tags_all_nodup.
Qed.

(* the solvers never return a solution twice *)
Lemma run_algo_nodup key rp c S O sols : run_algo key rp c S O = Some sols -> NoDup sols.
Proof.
  assert (forall l : list rtree, NoDup l -> NoDup (map SolR l)) as IR
    by (intros l; apply NoDup_map_inj; intros a b E; now inversion E).
  assert (forall o (l : list ltree), NoDup l -> NoDup (map (SolL o) l)) as IL
    by (intros o l; apply NoDup_map_inj; intros a b E; now inversion E).
  unfold run_algo.
  destruct (key =? "lca"). { intros E. inversion E. repeat constructor. intros []. }
  destruct (key =? "thl").
  { intros E. inversion E. apply IR. unfold reconcile_thl. apply (fresh_entry_tags_nodup rtree_eqb rtree_eqb_spec). }
  destruct (key =? "exh").
  { intros E. inversion E. apply IR. unfold reconcile_exhaustive. apply (fresh_entry_tags_nodup rtree_eqb rtree_eqb_spec). }
  assert (forall e, run_spfs e rp c S O = Some sols -> NoDup sols) as HS.
  { intros e. unfold run_spfs. destruct (Spfs.root_orders O) as [orders|]; [|discriminate]. unfold spfs.
    destruct (Spfs.all_some (spfs_candidates S c rp e orders O)) as [cs|]; [|cbn; discriminate]. cbn. intros E. inversion E. apply IL.
    apply (fresh_entry_tags_nodup Spfs.ltree_eqb SpfsProofs.ltree_eqb_spec). }
  assert (forall e, run_uspfs e rp c S O = Some sols -> NoDup sols) as HU.
  { intros e. unfold run_uspfs, uspfs. destruct (Uspfs.all_some (uspfs_candidates S c rp e O)) as [cs|]; [|cbn; discriminate]. cbn. intros E. inversion E. apply IL.
    apply (fresh_entry_tags_nodup Uspfs.ltree_eqb UspfsProofs.ltree_eqb_spec). }
  destruct (key =? "base_spfs"); [apply HS|]. destruct (key =? "ext_spfs"); [apply HS|].
  destruct (key =? "base_uspfs"); [apply HU|]. destruct (key =? "superdtl"); [apply HU|]. discriminate.
Qed.

(* an unordered solution comes from the unordered solver, which lists every synteny in
   increasing order of the family numbers *)
Lemma run_algo_unordered_sorted key rp c S O sols t :
  nn (c_hgt c) -> leaves_ok S O -> run_algo key rp c S O = Some sols -> In (SolL false t) sols -> all_sorted t.
Proof.
  intros Hh L. unfold run_algo.
  destruct (key =? "lca"). { intros E. inversion E. intros [X|[]]. discriminate. }
  destruct (key =? "thl"). { intros E. inversion E. intros I. apply in_map_iff in I as [r [X _]]. discriminate. }
  destruct (key =? "exh"). { intros E. inversion E. intros I. apply in_map_iff in I as [r [X _]]. discriminate. }
  assert (forall e, run_spfs e rp c S O = Some sols -> In (SolL false t) sols -> all_sorted t) as HS.
  { intros e. unfold run_spfs. destruct (Spfs.root_orders O) as [orders|]; [|discriminate].
    destruct (spfs S c rp e orders O) as [en|]; [|discriminate]. cbn. intros E. inversion E.
    intros I. apply in_map_iff in I as [r [X _]]. discriminate. }
  assert (forall e, run_uspfs e rp c S O = Some sols -> In (SolL false t) sols -> all_sorted t) as HU.
  { intros e. unfold run_uspfs. destruct (uspfs_valid_full S c rp e O Hh L) as [en [Ee Ht]]. rewrite Ee. cbn.
    intros E. inversion E. intros I. apply in_map_iff in I as [t' [X I]]. inversion X; subst t'.
    exact (proj1 (proj2 (proj2 (Ht t I)))). }
  destruct (key =? "base_spfs"); [apply HS|]. destruct (key =? "ext_spfs"); [apply HS|].
  destruct (key =? "base_uspfs"); [apply HU|]. destruct (key =? "superdtl"); [apply HU|]. discriminate.
Qed.

(* two labelled trees with sorted syntenies that are permutations of the same tree are equal *)
Lemma ssorted_perm a b : ssorted a -> ssorted b -> Permutation a b -> a = b.
Proof.
  intros Sa Sb P. apply ssorted_ext; auto. intros f. split; intros I.
  - eapply Permutation_in; eauto.
  - eapply Permutation_in; [apply Permutation_sym|]; eauto.
Qed.

Lemma lrel_sorted_eq : forall t1 t2 t', all_sorted t1 -> all_sorted t2 -> lrel false t1 t' -> lrel false t2 t' -> t1 = t2.
Proof.
  induction t1 as [s1 y1|s1 y1 a1 IHa b1 IHb]; intros [s2 y2|s2 y2 a2 b2] [s' y'|s' y' a' b'] A1 A2 R1 R2;
    cbn in R1, R2; try contradiction.
  - destruct R1 as [-> P1], R2 as [-> P2]. cbn in A1, A2. f_equal.
    apply ssorted_perm; try tauto. eapply Permutation_trans; [exact P1|now apply Permutation_sym].
  - destruct R1 as [-> [P1 [Ra1 Rb1]]], R2 as [-> [P2 [Ra2 Rb2]]]. cbn in A1, A2.
    destruct A1 as [Y1 [Aa1 Ab1]], A2 as [Y2 [Aa2 Ab2]]. f_equal.
    + apply ssorted_perm; auto. eapply Permutation_trans; [exact P1|now apply Permutation_sym].
    + eapply IHa; eauto.
    + eapply IHb; eauto.
Qed.

Lemma mapM_nodup {A B} (f : A -> option B) : forall l l', mapM f l = Some l' -> NoDup l ->
  (forall a b y, In a l -> In b l -> f a = Some y -> f b = Some y -> a = b) -> NoDup l'.
Proof.
  intros l l' E. apply mapM_some in E. induction E as [|a y l l' Ha F IH]; intros ND Inj; [constructor|].
  inversion ND as [|? ? Na ND']; subst. constructor.
  - intros I. destruct (Forall2_In_r _ _ _ F y I) as [b [Ib Hb]]. apply Na.
    rewrite (Inj a b y (or_introl eq_refl) (or_intror Ib) Ha Hb). exact Ib.
  - apply IH; auto. intros a' b' y' Ia Ib. apply Inj; now right.
Qed.

Section OneObjectInj.
  Variables (inp : any_input) (c : Recon.costs) (S : Recon.stree) (Ot : Recon.otree)
            (ls : option (list (npath * list fam))).
  Hypothesis W : wf_any_input well_named inp.
  Hypothesis Es : to_stree (Serial.stree (base_of inp)) = Some S.
  Hypothesis Eo : to_otree (Serial.otree (base_of inp)) (leafmap (base_of inp)) ls = Some Ot.
  Let tbl := input_table inp.

  (* the same line is written for two solutions only if they are the same solution (an unordered
     one up to the order in which its syntenies are listed) *)
  Lemma write_solution_inj s1 s2 d :
    valid_rec S Ot (sol_rec s1) -> valid_rec S Ot (sol_rec s2) ->
    write_solution inp tbl s1 = Some d -> write_solution inp tbl s2 = Some d ->
    match s1, s2 with
    | SolR r1, SolR r2 => r1 = r2
    | SolL o1 t1, SolL o2 t2 => o1 = o2 /\ exists t', lrel o1 t1 t' /\ lrel o1 t2 t'
    | _, _ => False
    end.
  Proof.
    assert (forall r, valid_rec S Ot r -> tmatch (Serial.otree (base_of inp)) r) as TM
      by (intros r V; exact (to_otree_tmatch _ _ _ _ _ Eo (valid_matches _ _ _ V))).
    assert (forall r dd, valid_rec S Ot r -> routput_to_dict print_tree (mkRO inp (omap_of r)) = Some dd ->
              routput_from_dict parse_tree dd = Some (mkRO (Plain (base_of inp)) (omap_of r))) as BR.
    { intros r dd V E. destruct (nk_output_roundtrip_plain (mkRO inp (omap_of r))) as [d0 [Ed Eb]].
      { split; [exact W|]. cbn. exact (wf_result_map inp S Ot ls Es Eo r V). }
      rewrite E in Ed. inversion Ed; subst d0. exact Eb. }
    assert (forall o t sy dd, valid_rec S Ot (forget t) -> syns_of tbl o t = Some sy ->
              soutput_to_dict print_tree (mkSO (mkRO inp (omap_of (forget t))) sy o) = Some dd ->
              soutput_from_dict parse_tree dd = Some (mkSO (mkRO (Plain (base_of inp)) (omap_of (forget t))) sy o)) as BS.
    { intros o t sy dd V Esy E. pose proof (TM _ V) as M.
      destruct (nk_output_roundtrip_super (mkSO (mkRO inp (omap_of (forget t))) sy o)) as [d0 [Ed Eb]].
      { split; [split; [exact W|cbn; exact (wf_result_map inp S Ot ls Es Eo _ V)]|]. cbn. split.
        - rewrite (syns_keys _ _ _ _ Esy). apply omap_keys_nodup.
        - pose proof (omap_keys_valid _ _ M) as K. rewrite Forall_forall in *. intros ps I.
          assert (In (fst ps) (map fst (omap_of (forget t)))) as I'.
          { rewrite <- (syns_keys _ _ _ _ Esy). now apply in_map. }
          apply in_map_iff in I' as [pq [E' I']]. rewrite <- E'. now apply K. }
      rewrite E in Ed. inversion Ed; subst d0. rewrite Eb. cbn [s_out r_in omap syns ordered].
      now rewrite (norm_syn_lists _ (syns_lists _ _ _ _ Esy)). }
    intros V1 V2. unfold write_solution.
    destruct s1 as [r1|o1 t1], s2 as [r2|o2 t2]; cbn [result_of sol_rec] in *.
    - cbn [write_result].
      destruct (routput_to_dict print_tree (mkRO inp (omap_of r1))) as [d1|] eqn:E1; [|discriminate].
      destruct (routput_to_dict print_tree (mkRO inp (omap_of r2))) as [d2|] eqn:E2; [|discriminate].
      cbn. intros H1 H2. inversion H1; subst d. inversion H2; subst d2.
      pose proof (BR _ _ V1 E1) as B1. pose proof (BR _ _ V2 E2) as B2. rewrite B1 in B2. inversion B2 as [Eq].
      pose proof (to_rtree_omap r1 _ (TM _ V1)) as T1. pose proof (to_rtree_omap r2 _ (TM _ V2)) as T2.
      rewrite Eq in T1. rewrite T1 in T2. now inversion T2.
    - destruct (syns_of tbl o2 t2); [|discriminate]. cbn.
      destruct (routput_to_dict _ _); [|discriminate]. destruct (soutput_to_dict _ _); [|discriminate].
      cbn. intros H1 H2. rewrite <- H1 in H2. discriminate.
    - destruct (syns_of tbl o1 t1); [|discriminate]. cbn.
      destruct (soutput_to_dict _ _); [|discriminate]. destruct (routput_to_dict _ _); [|discriminate].
      cbn. intros H1 H2. rewrite <- H1 in H2. discriminate.
    - destruct (syns_of tbl o1 t1) as [sy1|] eqn:Y1; [|discriminate].
      destruct (syns_of tbl o2 t2) as [sy2|] eqn:Y2; [|discriminate]. cbn [option_map write_result].
      destruct (soutput_to_dict print_tree (mkSO (mkRO inp (omap_of (forget t1))) sy1 o1)) as [d1|] eqn:E1; [|discriminate].
      destruct (soutput_to_dict print_tree (mkSO (mkRO inp (omap_of (forget t2))) sy2 o2)) as [d2|] eqn:E2; [|discriminate].
      cbn. intros H1 H2. inversion H1; subst d. inversion H2; subst d2.
      pose proof (BS _ _ _ _ V1 Y1 E1) as B1. pose proof (BS _ _ _ _ V2 Y2 E2) as B2. rewrite B1 in B2.
      inversion B2 as [[Em Ey Eord]]. subst o2 sy2. split; [reflexivity|].
      assert (NoDup tbl) as NDt by (unfold tbl, input_table; destruct inp; [constructor|apply fam_table_nodup]).
      destruct (to_ltree_syns tbl o1 NDt t1 _ sy1 (TM _ V1) Y1) as [t1' [T1 R1]].
      destruct (to_ltree_syns tbl o1 NDt t2 _ sy1 (TM _ V2) Y2) as [t2' [T2 R2]].
      rewrite Em in T1. rewrite T1 in T2. inversion T2; subst t2'. exists t1'. auto.
  Qed.
End OneObjectInj.

Theorem cli_objects_nodup x inp warned m objs :
  read_input x = Some inp -> cli_input_wf inp -> nn (c_hgt (ci_costs x)) ->
  cli_run x = CliOk warned m objs -> NoDup objs.
Proof.
  intros Er W Hh H.
  destruct (cli_run_ok x warned m objs H) as [inp' [w [Er' [Hc Sup]]]]. rewrite Er in Er'. inversion Er'; subst inp'.
  destruct (call_algorithm_ok _ _ _ _ _ _ _ Hc) as [c [St [ls [Ot [s0 [rest [Ec [Es [El [Eo [Ea [Em [Ew _]]]]]]]]]]]]].
  pose proof (cli_run_costs x inp c Er Ec) as ->.
  destruct (solver_input_ok (ci_algo x) inp St ls Ot W Sup Es El Eo) as [L Wf].
  destruct (run_algo_sound _ _ _ _ _ _ Hh L Wf Ea) as [v Hv].
  apply (mapM_nodup _ _ _ Ew (run_algo_nodup _ _ _ _ _ _ Ea)).
  intros s1 s2 d I1 I2 W1 W2.
  pose proof (write_solution_inj inp St Ot ls (proj1 W) Es Eo s1 s2 d (proj1 (Hv _ I1)) (proj1 (Hv _ I2)) W1 W2) as Inj.
  destruct s1 as [r1|o1 t1], s2 as [r2|o2 t2]; try contradiction.
  - now subst.
  - destruct Inj as [<- [t' [R1 R2]]]. f_equal. destruct o1.
    + now rewrite (lrel_true_eq _ _ R1), (lrel_true_eq _ _ R2).
    + apply (lrel_sorted_eq t1 t2 t'); auto.
      * exact (run_algo_unordered_sorted _ _ _ _ _ _ _ Hh L Ea I1).
      * exact (run_algo_unordered_sorted _ _ _ _ _ _ _ Hh L Ea I2).
Qed.

(* ... and there are exactly as many objects as solutions the solver returned: [objs] is the list
   of the [to_dict()]s of the solver's (pairwise distinct) results, in order *)
Theorem cli_objects_count x warned m objs : cli_run x = CliOk warned m objs ->
  exists inp St ls Ot sols,
    read_input x = Some inp /\
    to_stree (Serial.stree (base_of inp)) = Some St /\
    to_otree (Serial.otree (base_of inp)) (leafmap (base_of inp)) ls = Some Ot /\
    run_algo (ci_algo x) (ci_policy x) (ci_costs x) St Ot = Some sols /\ NoDup sols /\
    mapM (write_solution inp (input_table inp)) sols = Some objs /\
    List.length objs = List.length sols.
Proof.
  intros H. destruct (cli_run_ok x warned m objs H) as [inp [w [Er [Hc _]]]].
  destruct (call_algorithm_ok _ _ _ _ _ _ _ Hc) as [c [St [ls [Ot [s0 [rest [Ec [Es [El [Eo [Ea [Em [Ew Ewn]]]]]]]]]]]]].
  pose proof (cli_run_costs x inp c Er Ec) as ->.
  exists inp, St, ls, Ot, (s0 :: rest). repeat split; auto.
  - exact (run_algo_nodup _ _ _ _ _ _ Ea).
  - apply mapM_some in Ew. clear -Ew. induction Ew; cbn; auto.
Qed.

Corollary cli_objects_nodup_wf_any x warned m objs :
  cli_wf_any x -> nn (c_hgt (ci_costs x)) -> cli_run x = CliOk warned m objs -> NoDup objs.
Proof.
  intros W Hh H. destruct (cli_run_reads x warned m objs H) as [inp Er].
  exact (cli_objects_nodup x inp warned m objs Er (read_input_wf_any x inp W Er) Hh H).
Qed.

(** * non-vacuity: the input of [cli_example] WITHOUT its "leaf_object_species" entry; the leaf
      names x_1, y_1, x_2, z_1 follow the convention for the species X, Y, Z (case-insensitive) *)
Definition ex_input_convention (key : string) (rp : ret) : cli_input :=
  mkCli key rp ex_costs
    (NT "" [NT "O1" [NT "x_1" []; NT "y_1" []]; NT "" [NT "x_2" []; NT "z_1" []]])
    (NT "" [NT "X" []; NT "NoName" [NT "Y" []; NT "Z" []]])
    None
    (Some [("x_1", ["a"; "b"; "c"]); ("y_1", ["a"; "c"]); ("x_2", ["b"; "c"]); ("z_1", ["a"; "b"])]).

Example cli_example_convention :
  let x := ex_input_convention "superdtl" RALL in
  ci_leafmap x = None /\ cli_wf_any x /\ ~ cli_wf x /\
  nn (c_hgt (ci_costs x)) /\ cli_region (ci_algo x) (ci_costs x) /\
  (exists inp, read_input x = Some inp /\ cli_input_wf inp /\
     leafmap (base_of inp) = [([0; 0], [0]); ([0; 1], [1; 0]); ([1; 0], [0]); ([1; 1], [1; 1])]) /\
  read_input x = read_input (ex_input "superdtl" RALL) /\
  cli_run x = cli_run (ex_input "superdtl" RALL) /\
  (exists objs, cli_run x = CliOk false (Fin 4) objs /\ List.length objs = 6 /\ NoDup objs) /\
  (exists d, cli_run (set_policy x RANY) = CliOk false (Fin 4) [d]) /\
  (* a leaf whose name follows no species: KeyError in the solver, nothing written *)
  cli_run (mkCli "lca" RALL ex_costs (NT "" [NT "x_1" []; NT "w_1" []]) (ci_stree x) None None) = CliRaise.
Proof.
  cbv zeta.
  assert (cli_wf_any (ex_input_convention "superdtl" RALL)) as W.
  { apply cli_wf_any_convention; cbn.
    - repeat constructor; (now left) || (now right).
    - repeat constructor; (now left) || (now right).
    - repeat (constructor; [cbn; intuition discriminate|]). constructor.
    - repeat (constructor; [cbn; intuition discriminate|]). constructor.
    - reflexivity.
    - intros d E. inversion E; subst d. cbn. split.
      + repeat (constructor; [cbn; intuition discriminate|]). constructor.
      + repeat constructor; discriminate. }
  split; [reflexivity|]. split; [exact W|].
  split; [intros [_ _ _ _ [d [E _]] _]; discriminate E|].
  split; [discriminate|]. split; [unfold cli_region, ucoherent; cbn; lia|].
  split.
  { destruct (read_input (ex_input_convention "superdtl" RALL)) as [inp|] eqn:E; [|vm_compute in E; discriminate].
    exists inp. split; [reflexivity|]. split; [exact (read_input_wf_any _ _ W E)|].
    vm_compute in E. inversion E. reflexivity. }
  split; [vm_compute; reflexivity|]. split; [vm_compute; reflexivity|].
  split.
  { destruct (cli_run (ex_input_convention "superdtl" RALL)) as [| | | | |w m objs] eqn:E; try (vm_compute in E; discriminate).
    exists objs. pose proof (cli_objects_nodup_wf_any _ _ _ _ W (fun X => match X with eq_refl => I end) E) as ND.
    vm_compute in E. inversion E. subst. split; [reflexivity|]. split; [reflexivity|exact ND]. }
  split.
  { destruct (cli_run (set_policy (ex_input_convention "superdtl" RALL) RANY)) as [| | | | |w m objs] eqn:E; try (vm_compute in E; discriminate).
    vm_compute in E. inversion E. eexists. reflexivity. }
  vm_compute. reflexivity.
Qed.

Print Assumptions species_mapping_wf.
Print Assumptions read_input_wf_any.
Print Assumptions read_input_wf_convention.
Print Assumptions cli_objects_parse_back_wf_any.
Print Assumptions cli_all_superset_any_wf_any.
Print Assumptions cli_written_names_distinct.
Print Assumptions cli_objects_nodup.
Print Assumptions cli_objects_count.
Print Assumptions cli_example_convention.
