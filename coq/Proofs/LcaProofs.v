(** C07 — the LCA reconciliation is valid, optimal among transfer-free
    reconciliations, and the unique optimum when losses cost something. *)
From Coq Require Import List Bool Arith ZArith Lia.
From SR Require Import Base.PathB Base.Ext Model.Recon Model.LcaRec Proofs.PathFacts Proofs.ReconProofs.
Import ListNotations.
Local Open Scope Z_scope.

(** transfer-free reconciliations and their integer cost *)
Fixpoint no_transfer (r : rtree) : Prop :=
  match r with
  | RLeaf _ => True
  | RNode s a b =>
      (event s (root a) (root b) = Spe \/ event s (root a) (root b) = Dup) /\ no_transfer a /\ no_transfer b
  end.

Fixpoint costDL (c : costs) (r : rtree) : Z :=
  match r with
  | RLeaf _ => 0
  | RNode s a b =>
    let l := root a in let rr := root b in
    match event s l rr with
    | Spe => c_spe c + costDL c a + costDL c b + c_floss c * (dist s l + dist s rr - 2)
    | _ => c_dup c + costDL c a + costDL c b + c_floss c * (dist s l + dist s rr)
    end
  end.

Lemma cost_costDL c S O r : valid_rec S O r -> no_transfer r -> cost c O r = Fin (costDL c r).
Proof.
  induction 1 as [sp syn Hs|a b s ra rb Hs He Va IHa Vb IHb]; intros NT.
  - simpl. now rewrite path_eqb_refl.
  - destruct NT as [E [Na Nb]]. cbn [cost costDL]. unfold ecost. rewrite (IHa Na), (IHb Nb).
    destruct E as [E|E]; rewrite E; simpl; f_equal; lia.
Qed.

(** the LCA mapping *)
Fixpoint leaf_species (o : otree) : list path :=
  match o with OLeaf sp _ => [sp] | ONode a b => leaf_species a ++ leaf_species b end.
Fixpoint lcp_list (l : list path) : path :=
  match l with [] => [] | [p] => p | p :: l' => lcp p (lcp_list l') end.

Lemma lcp_assoc a b c : lcp a (lcp b c) = lcp (lcp a b) c.
Proof.
  revert b c; induction a as [|x a IH]; intros [|y b] [|z c]; simpl; auto.
  - destruct (Bool.eqb x y); reflexivity.
  - destruct x, y, z; simpl; auto; now rewrite IH.
Qed.
Lemma lcp_idem a : lcp a a = a.
Proof. induction a as [|x a IH]; simpl; auto. now rewrite eqb_reflx, IH. Qed.

Lemma lcp_list_cons p l : l <> [] -> lcp_list (p :: l) = lcp p (lcp_list l).
Proof. destruct l; [congruence|reflexivity]. Qed.

Lemma lcp_list_app l1 l2 : l1 <> [] -> l2 <> [] -> lcp_list (l1 ++ l2) = lcp (lcp_list l1) (lcp_list l2).
Proof.
  intros N1 N2. induction l1 as [|p l1 IH]; [congruence|].
  destruct l1 as [|q l1].
  - simpl app. now rewrite lcp_list_cons.
  - change ((p :: q :: l1) ++ l2) with (p :: ((q :: l1) ++ l2)).
    rewrite lcp_list_cons by (simpl; congruence).
    rewrite IH by congruence. rewrite lcp_assoc.
    now rewrite <- (lcp_list_cons p (q :: l1)) by congruence.
Qed.

Lemma leaf_species_nonempty o : leaf_species o <> [].
Proof. induction o; simpl; [congruence|]. destruct (leaf_species o1); simpl; congruence. Qed.

(** every internal node sits on the LCA of the species of the leaves below it *)
Theorem lca_root o : root (lca_rec o) = lcp_list (leaf_species o).
Proof.
  induction o as [sp syn|a IHa b IHb]; simpl; auto.
  rewrite lcp_list_app by apply leaf_species_nonempty. now rewrite IHa, IHb.
Qed.

Lemma valid_sp_prefix S p q : anc p q = true -> valid_sp S q = true -> valid_sp S p = true.
Proof.
  revert S q; induction p as [|x p IH]; intros S q; simpl; [destruct S; auto|].
  destruct q as [|y q]; [discriminate|]. rewrite andb_true_iff. intros [E A]. apply eqb_prop in E; subst y.
  destruct S; simpl; [destruct x; discriminate|]. destruct x; eauto.
Qed.

Lemma valid_rec_root_valid S O r : valid_rec S O r -> valid_sp S (root r) = true.
Proof. destruct 1; simpl; auto. Qed.

Theorem lca_valid S O : leaves_ok S O -> valid_rec S O (lca_rec O) /\ no_transfer (lca_rec O).
Proof.
  induction O as [sp syn|a IHa b IHb]; simpl; intros L.
  - split; [now constructor|exact I].
  - destruct L as [La Lb]. destruct (IHa La) as [Va Na]. destruct (IHb Lb) as [Vb Nb].
    pose proof (event_at_lcp (root (lca_rec a)) (root (lca_rec b))) as E.
    split; [|repeat split; auto].
    constructor; auto.
    + eapply valid_sp_prefix; [apply lcp_prefix_l|]. eapply valid_rec_root_valid; eauto.
    + destruct E as [E|E]; rewrite E; discriminate.
Qed.

Lemma event_not_Spe_cost c s a b :
  event s (root a) (root b) <> Spe ->
  costDL c (RNode s a b) = c_dup c + costDL c a + costDL c b + c_floss c * (dist s (root a) + dist s (root b)).
Proof. simpl. destruct (event s (root a) (root b)); congruence. Qed.

(* shape agreement, without the species-tree constraints *)
Inductive matches : otree -> rtree -> Prop :=
| m_leaf sp syn : matches (OLeaf sp syn) (RLeaf sp)
| m_node a b s ra rb : matches a ra -> matches b rb -> matches (ONode a b) (RNode s ra rb).
Lemma valid_matches S O r : valid_rec S O r -> matches O r.
Proof. induction 1; constructor; auto. Qed.

(** key inequality, with its equality case *)
Theorem lca_key c o r :
  0 <= c_dup c -> 0 <= c_floss c -> c_spe c <= c_dup c + 2 * c_floss c ->
  matches o r -> no_transfer r ->
  anc (root r) (root (lca_rec o)) = true /\
  costDL c (lca_rec o) + c_floss c * (len (root (lca_rec o)) - len (root r)) <= costDL c r /\
  (0 < c_floss c ->
   costDL c r = costDL c (lca_rec o) + c_floss c * (len (root (lca_rec o)) - len (root r)) ->
   r = lca_rec o).
Proof.
  intros Hd Hf Hs M. induction M as [sp syn | a b s ra rb Ma IHa Mb IHb]; intros V.
  - simpl. split; [apply is_prefix_refl|]. split; [lia|auto].
  - destruct V as [E [Va Vb]].
    destruct (IHa Va) as [Aa [Ca Ua]]. destruct (IHb Vb) as [Ab [Cb Ub]]. clear IHa IHb.
    remember (root ra) as la. remember (root rb) as lb.
    remember (root (lca_rec a)) as ma. remember (root (lca_rec b)) as mb.
    destruct (event_SD _ _ _ E) as [Sa Sb].
    assert (anc s ma = true) as Sma by (exact (is_prefix_trans _ _ _ Sa Aa)).
    assert (anc s mb = true) as Smb by (exact (is_prefix_trans _ _ _ Sb Ab)).
    assert (anc s (lcp ma mb) = true) as Sm by (apply lcp_greatest; auto).
    cbn [lca_rec root]. rewrite <- Heqma, <- Heqmb. split; [exact Sm|].
    pose proof (len_anc _ _ Sm) as Lm.
    pose proof (len_anc _ _ Aa) as La. pose proof (len_anc _ _ Ab) as Lb.
    pose proof (len_anc _ _ Sa) as Lsa. pose proof (len_anc _ _ Sb) as Lsb.
    assert (anc (lcp ma mb) ma = true) as Mma by apply lcp_prefix_l.
    assert (anc (lcp ma mb) mb = true) as Mmb by apply lcp_prefix_r.
    (* once the children coincide with the LCA ones and the lengths agree, the trees are equal *)
    assert (forall (Ea : ra = lca_rec a) (Eb : rb = lca_rec b), len (lcp ma mb) = len s ->
            RNode s ra rb = RNode (lcp ma mb) (lca_rec a) (lca_rec b)) as Fin_eq.
    { intros Ea Eb El. subst ra rb. f_equal.
      apply is_prefix_antisym; auto.
      (* s is a prefix of the lcp and has the same length *)
      apply is_prefix_spec in Sm as [d Hd']. rewrite Hd' in El. unfold len in El. rewrite app_length in El.
      destruct d; [rewrite app_nil_r in Hd'; rewrite Hd'; apply is_prefix_refl|simpl in El; lia]. }
    destruct E as [E|E].
    + (* r is a speciation at s *)
      destruct (event_Spe_inv _ _ _ E) as [Es [N1 N2]].
      assert (lcp ma mb = s) as Em by (rewrite Es; apply lcp_extend; auto).
      assert (event (lcp ma mb) ma mb = Spe) as EM.
      { destruct (event_at_lcp ma mb) as [H|H]; auto. exfalso.
        unfold event in H.
        destruct (sanc ma (lcp ma mb) || sanc mb (lcp ma mb)); [discriminate|].
        rewrite lcp_prefix_l, lcp_prefix_r in H. simpl in H.
        rewrite path_eqb_refl in H. simpl in H.
        unfold comparable in H.
        destruct (anc ma mb) eqn:X.
        * destruct (prefixes_comparable la lb mb) as [Y|Y]; auto; [|congruence|congruence].
          eapply is_prefix_trans; eauto.
        * destruct (anc mb ma) eqn:Y; simpl in H; try discriminate.
          destruct (prefixes_comparable la lb ma) as [Z|Z]; auto; [|congruence|congruence].
          eapply is_prefix_trans; eauto. }
      cbn [costDL]. rewrite <- Heqla, <- Heqlb, <- Heqma, <- Heqmb. rewrite E, EM.
      rewrite (dist_anc _ _ Sa), (dist_anc _ _ Sb), (dist_anc _ _ Mma), (dist_anc _ _ Mmb).
      rewrite Em in *. split; [nia|].
      intros Fp Eq. apply Fin_eq; [apply Ua; auto; nia|apply Ub; auto; nia|reflexivity].
    + (* r is a duplication at s *)
      rewrite (event_not_Spe_cost c s ra rb) by (rewrite <- Heqla, <- Heqlb; congruence). rewrite <- Heqla, <- Heqlb.
      rewrite (dist_anc _ _ Sa), (dist_anc _ _ Sb).
      destruct (event_at_lcp ma mb) as [EM|EM].
      * cbn [costDL]. rewrite <- Heqma, <- Heqmb. rewrite EM.
        rewrite (dist_anc _ _ Mma), (dist_anc _ _ Mmb). split; [nia|].
        intros Fp Eq. apply Fin_eq; [apply Ua; auto; nia|apply Ub; auto; nia|nia].
      * rewrite (event_not_Spe_cost c (lcp ma mb) (lca_rec a) (lca_rec b)) by (rewrite <- Heqma, <- Heqmb; congruence).
        rewrite <- Heqma, <- Heqmb.
        rewrite (dist_anc _ _ Mma), (dist_anc _ _ Mmb). split; [nia|].
        intros Fp Eq. apply Fin_eq; [apply Ua; auto; nia|apply Ub; auto; nia|nia].
Qed.

(** optimal among transfer-free reconciliations *)
Theorem lca_optimal c S O r :
  0 <= c_dup c -> 0 <= c_floss c -> c_spe c <= c_dup c + 2 * c_floss c ->
  leaves_ok S O -> valid_rec S O r -> no_transfer r ->
  ele (cost c O (lca_rec O)) (cost c O r).
Proof.
  intros Hd Hf Hs L V NT. destruct (lca_valid S O L) as [VL NL].
  rewrite (cost_costDL c S O _ VL NL), (cost_costDL c S O r V NT). apply ele_Fin.
  destruct (lca_key c O r Hd Hf Hs (valid_matches _ _ _ V) NT) as [A [C _]].
  pose proof (len_anc _ _ A). nia.
Qed.

(** transfers forbidden by an infinite cost: optimal among all valid reconciliations *)
Fixpoint no_transferb (r : rtree) : bool :=
  match r with
  | RLeaf _ => true
  | RNode s a b =>
      match event s (root a) (root b) with Spe | Dup => true | _ => false end
      && no_transferb a && no_transferb b
  end.
Lemma no_transferb_spec r : no_transferb r = true -> no_transfer r.
Proof.
  induction r as [s|s a IHa b IHb]; simpl; auto.
  rewrite !andb_true_iff. intros [[E Ha] Hb]. repeat split; auto.
  destruct (event s (root a) (root b)); auto; discriminate.
Qed.

Lemma ext_add_PInf_r x : ext_add x PInf = PInf. Proof. destruct x; reflexivity. Qed.

Lemma cost_transfer_inf c S O r :
  c_hgt c = PInf -> valid_rec S O r -> no_transferb r = false -> cost c O r = PInf.
Proof.
  intros H. induction 1 as [sp syn Hs|a b s ra rb Hs He Va IHa Vb IHb]; intros NT.
  - discriminate.
  - cbn [cost no_transferb] in *. unfold ecost.
    destruct (event s (root ra) (root rb)) eqn:E; try congruence; cbn [andb] in NT.
    + destruct (no_transferb ra) eqn:Xa; cbn [andb] in NT.
      * rewrite (IHb NT). destruct (cost c a ra); reflexivity.
      * rewrite (IHa eq_refl). reflexivity.
    + destruct (no_transferb ra) eqn:Xa; cbn [andb] in NT.
      * rewrite (IHb NT). destruct (cost c a ra); reflexivity.
      * rewrite (IHa eq_refl). reflexivity.
    + rewrite H. reflexivity.
    + rewrite H. reflexivity.
Qed.

Theorem lca_optimal_all c S O r :
  0 <= c_dup c -> 0 <= c_floss c -> c_spe c <= c_dup c + 2 * c_floss c -> c_hgt c = PInf ->
  leaves_ok S O -> valid_rec S O r ->
  ele (cost c O (lca_rec O)) (cost c O r).
Proof.
  intros Hd Hf Hs Hh L V. destruct (no_transferb r) eqn:NT.
  - apply (lca_optimal c S O r); auto. now apply no_transferb_spec.
  - rewrite (cost_transfer_inf c S O r Hh V NT). apply ele_PInf.
Qed.

(** with a positive loss cost the LCA reconciliation is the only optimum *)
Theorem lca_unique c S O r :
  0 <= c_dup c -> 0 < c_floss c -> c_spe c <= c_dup c + 2 * c_floss c ->
  leaves_ok S O -> valid_rec S O r -> no_transfer r ->
  cost c O r = cost c O (lca_rec O) -> r = lca_rec O.
Proof.
  intros Hd Hf Hs L V NT Eq. destruct (lca_valid S O L) as [VL NL].
  rewrite (cost_costDL c S O _ VL NL), (cost_costDL c S O r V NT) in Eq. inversion Eq as [Eq'].
  destruct (lca_key c O r Hd ltac:(lia) Hs (valid_matches _ _ _ V) NT) as [A [C U]].
  pose proof (len_anc _ _ A). apply U; auto. nia.
Qed.

Theorem lca_unique_all c S O r :
  0 <= c_dup c -> 0 < c_floss c -> c_spe c <= c_dup c + 2 * c_floss c -> c_hgt c = PInf ->
  leaves_ok S O -> valid_rec S O r ->
  cost c O r = cost c O (lca_rec O) -> r = lca_rec O.
Proof.
  intros Hd Hf Hs Hh L V Eq. destruct (no_transferb r) eqn:NT.
  - apply (lca_unique c S O r); auto. now apply no_transferb_spec.
  - exfalso. rewrite (cost_transfer_inf c S O r Hh V NT) in Eq.
    destruct (lca_valid S O L) as [VL NL]. rewrite (cost_costDL c S O _ VL NL) in Eq. discriminate.
Qed.
