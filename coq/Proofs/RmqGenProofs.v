(** The functions of [Gen/RmqGen.v] -- generated from [src/superrec2/utils/range_min_query.py]
    by [translator/rmq_gen.py] -- are equal to the hand-written model [Model/Rmq.v].

    Python's [<] on elements is the parameter [ltb] of the generated code; the model is
    parametrised by [leb] and computes [min(a, b)] as [if leb a b then a else b]; it is
    instantiated with [leb_of a b = negb (ltb b a)] ("[b < a] is false"), which makes the two
    [min] agree for every [ltb] ([py_min_eq]).  The generated state is the record of the one
    attribute [sparse_table], of the model's type [table].

    - [gen_rmq_ilog2_eq]: [_ilog2] is the model's [ilog2] on positive ints.
    - [gen_rmq_init_eq]: for all [data], [__init__] returns the model's table, and
      [IndexError] exactly when the model's [build] returns [None] (empty data).
    - [gen_rmq_query_eq]: for all tables (well-formed or not) and all [start], [stop],
      [__call__] leaves the object unchanged and answers what the model's [query] answers
      ([None] -> [QNone], a value -> [QVal], any exception -> [QErr]). *)
From Coq Require Import List Bool Arith ZArith NArith Lia.
From SR Require Import Model.Rmq Proofs.RmqProofs.
From SR Require Gen.RmqGen.
Import ListNotations.
Module G := SR.Gen.RmqGen.

Local Arguments Nat.pow : simpl never.
Local Arguments N.pow : simpl never.
Local Arguments Z.pow : simpl never.
Local Arguments Z.sub : simpl never.
Local Arguments Z.add : simpl never.
Local Arguments Z.of_N : simpl never.
Local Arguments N.to_nat : simpl never.
Local Arguments Z.to_nat : simpl never.

(* ------------------------------------------------------------------ *)
(** * Lists and integers *)

Lemma nth_error_mid {X} (pre : list X) x post i : i = length pre ->
  nth_error (pre ++ x :: post) i = Some x.
Proof. intros ->. induction pre as [|y pre IH]; [reflexivity|exact IH]. Qed.

Lemma list_set_mid {X} (pre : list X) x post i v : i = length pre ->
  G.list_set (pre ++ x :: post) i v = Some (pre ++ v :: post).
Proof.
  intros ->. induction pre as [|y pre IH]; [reflexivity|]. cbn [app length G.list_set]. now rewrite IH.
Qed.

Lemma zget_nonneg {X} (l : list X) (z : Z) : (0 <= z)%Z -> G.zget l z = nth_error l (Z.to_nat z).
Proof.
  intros H. unfold G.zget, G.zpos. destruct (Z.leb_spec 0 z); [reflexivity|lia].
Qed.

Lemma pow2_nat (x : N) : N.to_nat (N.pow 2 x) = 2 ^ N.to_nat x.
Proof. rewrite N2Nat.inj_pow. reflexivity. Qed.

Lemma log2_nat (m : N) : m <> 0%N -> N.to_nat (N.log2 m) = Nat.log2 (N.to_nat m).
Proof.
  intros Hm. symmetry. apply Nat.log2_unique; [lia|].
  destruct (N.log2_spec m ltac:(lia)) as [L U].
  rewrite <- N2Nat.inj_succ, <- !pow2_nat. lia.
Qed.

(* [_ilog2] on a positive int *)
Lemma ilog2_pos (m : N) : m <> 0%N ->
  G.gen__ilog2 (Z.of_N m) = G.Ok (Z.of_nat (Nat.log2 (N.to_nat m))).
Proof.
  intros Hm. unfold G.gen__ilog2. rewrite Zabs2N.id, (N.size_log2 m Hm), <- (log2_nat m Hm). f_equal. lia.
Qed.

(* [_ilog2] against the model's [ilog2] (which the model uses for positive values only);
   on 0 Python returns [0.bit_length() - 1 = -1] *)
Theorem gen_rmq_ilog2_eq (m : N) : m <> 0%N ->
  G.gen__ilog2 (Z.of_N m) = G.Ok (Z.of_nat (ilog2 (N.to_nat m))).
Proof. exact (ilog2_pos m). Qed.

Theorem gen_rmq_ilog2_zero : G.gen__ilog2 0%Z = G.Ok (-1)%Z.
Proof. reflexivity. Qed.

Lemma get2_inv {A} (row : list (option A)) i j l r : get2 row i j = Some (l, r) ->
  nth_error row i = Some (Some l) /\ nth_error row j = Some (Some r).
Proof.
  unfold get2. destruct (nth_error row i) as [[x|]|]; try discriminate.
  destruct (nth_error row j) as [[y|]|]; try discriminate. intros H. injection H as -> ->. auto.
Qed.

Section RmqGen.
  Context {A : Type} (ltb : A -> A -> bool).

  (* "a <= b" read off Python's [<]: [b < a] is false *)
  Definition leb_of (a b : A) : bool := negb (ltb b a).

  Lemma py_min_eq a b : G.py_min ltb a b = pymin leb_of a b.
  Proof. unfold G.py_min, pymin, leb_of. destruct (ltb b a); reflexivity. Qed.

  Notation blank n := (repeat (@None A) n).

  (* ---------------------------------------------------------------- *)
  (** * __init__ *)

  (* the cells written by the inner loop do not depend on the cells left untouched *)
  Lemma fill_row_rest (prev : list (option A)) h : forall cnt i rest,
    fill_row leb_of prev h i cnt rest =
      option_map (fun c => c ++ blank rest) (fill_row leb_of prev h i cnt 0).
  Proof.
    induction cnt as [|c IH]; intros i rest; cbn [fill_row]; [reflexivity|].
    destruct (get2 prev i (i + h)) as [[l r]|]; [|reflexivity].
    rewrite (IH (S i) rest). destruct (fill_row leb_of prev h (S i) c 0); reflexivity.
  Qed.

  (* the inner loop [for i in range(..)] at [depth = |pre| + 1], started at [i = |done|]:
     row [depth - 1] is [prev], row [depth] is [done ++ todo ++ tail], [todo] is overwritten *)
  Lemma for2_eq : forall cnt pre prev post done todo tail (i depth : N) cells,
    N.to_nat depth = S (length pre) -> N.to_nat i = length done -> length todo = cnt ->
    fill_row leb_of prev (2 ^ length pre) (length done) cnt 0 = Some cells ->
    G.gen_rmq_init_for2 ltb depth cnt i (pre ++ prev :: (done ++ todo ++ tail) :: post)
      = G.Next (pre ++ prev :: (done ++ cells ++ tail) :: post).
  Proof.
    induction cnt as [|c IH]; intros pre prev post done todo tail i depth cells Hd Hi Ht Hf.
    - destruct todo; [|discriminate]. cbn in Hf. injection Hf as <-. reflexivity.
    - destruct todo as [|o todo]; [discriminate|]. cbn [fill_row] in Hf.
      destruct (get2 prev (length done) (length done + 2 ^ length pre)) as [[l r]|] eqn:Eg; [|discriminate].
      destruct (fill_row leb_of prev (2 ^ length pre) (S (length done)) c 0) as [cells'|] eqn:Ef; [|discriminate].
      cbn [option_map] in Hf. injection Hf as <-.
      apply get2_inv in Eg. destruct Eg as [El Er].
      cbn [G.gen_rmq_init_for2].
      assert (G.zget (pre ++ prev :: (done ++ (o :: todo) ++ tail) :: post) (Z.sub (Z.of_N depth) 1) = Some prev) as Hz.
      { rewrite zget_nonneg by lia. apply nth_error_mid. lia. }
      rewrite Hz, Hi, El.
      destruct (Z.ltb_spec (Z.sub (Z.of_N depth) 1) 0) as [?|_]; [lia|].
      replace (N.to_nat (N.add i (N.pow 2 (Z.to_N (Z.sub (Z.of_N depth) 1)))))
        with (length done + 2 ^ length pre).
      2:{ rewrite N2Nat.inj_add, pow2_nat, Hi. f_equal. f_equal. lia. }
      rewrite Er.
      replace (pre ++ prev :: (done ++ (o :: todo) ++ tail) :: post)
        with ((pre ++ [prev]) ++ (done ++ o :: todo ++ tail) :: post) by (rewrite <- app_assoc; reflexivity).
      rewrite (nth_error_mid (pre ++ [prev])) by (rewrite app_length; cbn [length]; lia).
      unfold G.nset. rewrite Hi, (list_set_mid done) by reflexivity.
      rewrite (list_set_mid (pre ++ [prev])) by (rewrite app_length; cbn [length]; lia).
      rewrite py_min_eq.
      replace ((pre ++ [prev]) ++ (done ++ Some (pymin leb_of l r) :: todo ++ tail) :: post)
        with (pre ++ prev :: ((done ++ [Some (pymin leb_of l r)]) ++ todo ++ tail) :: post)
        by (rewrite <- !app_assoc; reflexivity).
      rewrite (IH pre prev post (done ++ [Some (pymin leb_of l r)]) todo tail (N.succ i) depth cells').
      + rewrite <- !app_assoc. reflexivity.
      + exact Hd.
      + rewrite app_length, N2Nat.inj_succ, Hi. cbn [length]. lia.
      + cbn [length] in Ht. lia.
      + rewrite app_length. cbn [length]. rewrite Nat.add_1_r. exact Ef.
  Qed.

  (* the outer loop [for depth in range(1, levels)], started at [depth = |pre| + 1] with the
     [k] rows still to fill all blank *)
  Lemma for1_eq n : forall k pre prev (depth : N) rs,
    N.to_nat depth = S (length pre) ->
    rows leb_of n prev (length pre) k = Some rs ->
    G.gen_rmq_init_for1 ltb (N.of_nat n) k depth (pre ++ prev :: repeat (blank n) k)
      = G.Next (pre ++ prev :: rs).
  Proof.
    induction k as [|k IH]; intros pre prev depth rs Hd Hr.
    - cbn in Hr. injection Hr as <-. reflexivity.
    - cbn [rows] in Hr. remember (n + 1 - 2 ^ S (length pre)) as cnt eqn:Ecnt.
      destruct (fill_row leb_of prev (2 ^ length pre) 0 cnt (n - cnt)) as [row|] eqn:Ef; [|discriminate].
      destruct (rows leb_of n row (S (length pre)) k) as [rs'|] eqn:Er; [|discriminate].
      cbn [option_map] in Hr. injection Hr as <-.
      rewrite fill_row_rest in Ef.
      destruct (fill_row leb_of prev (2 ^ length pre) 0 cnt 0) as [cells|] eqn:Ec; [|discriminate].
      cbn [option_map] in Ef. injection Ef as <-.
      cbn [G.gen_rmq_init_for1 repeat].
      match goal with |- context [G.gen_rmq_init_for2 ltb depth ?c 0%N _] => replace c with cnt end.
      2:{ pose proof (pow2_nat depth) as P. rewrite Hd in P. lia. }
      assert (cnt <= n) as Hle.
      { pose proof (RmqProofs.pow2_pos (S (length pre))). lia. }
      replace (blank n) with (blank cnt ++ blank (n - cnt)) at 1
        by (rewrite <- repeat_app; f_equal; lia).
      pose proof (for2_eq cnt pre prev (repeat (blank n) k) [] (blank cnt) (blank (n - cnt)) 0%N depth cells
                    Hd eq_refl (repeat_length _ _) Ec) as H2.
      cbn [app] in H2. rewrite H2.
      replace (pre ++ prev :: (cells ++ blank (n - cnt)) :: repeat (blank n) k)
        with ((pre ++ [prev]) ++ (cells ++ blank (n - cnt)) :: repeat (blank n) k)
        by (rewrite <- app_assoc; reflexivity).
      rewrite (IH (pre ++ [prev]) (cells ++ blank (n - cnt)) (N.succ depth) rs').
      + rewrite <- app_assoc. reflexivity.
      + rewrite app_length, N2Nat.inj_succ, Hd. cbn [length]. lia.
      + rewrite app_length. cbn [length]. rewrite Nat.add_1_r. exact Er.
  Qed.

  Theorem gen_rmq_init_eq (data : list A) :
    G.gen_rmq_init ltb data =
      match build leb_of data with
      | Some t => G.Ok (G.mk_rmq t)
      | None => G.Err G.IndexError
      end.
  Proof.
    destruct data as [|a0 xs] eqn:E; [reflexivity|]. rewrite <- E.
    assert (data <> []) as Hne by (rewrite E; discriminate).
    destruct (build_defined leb_of data Hne) as [t Ht]. rewrite Ht.
    rewrite (build_unfold leb_of data Hne) in Ht.
    destruct (rows leb_of (length data) (map Some data) 0 (Nat.log2 (length data) + 1 - 1)) as [rs|] eqn:Er;
      [|discriminate].
    cbn [option_map] in Ht. injection Ht as <-.
    unfold G.gen_rmq_init. cbv zeta.
    assert (N.of_nat (length data) <> 0%N) as Hn by (rewrite E; cbn [length]; lia).
    rewrite (ilog2_pos _ Hn), Nat2N.id.
    remember (Nat.log2 (length data)) as lg eqn:Elg.
    match goal with |- context [repeat (blank ?m) ?c] => replace c with (S lg) by lia end.
    match goal with |- context [G.gen_rmq_init_for1 ltb _ ?c 1%N _] => replace c with lg by lia end.
    replace (lg + 1 - 1) with lg in Er by lia.
    cbn [repeat]. unfold G.nset. change (N.to_nat 0) with 0. cbn [G.list_set].
    pose proof (for1_eq (length data) lg [] (map Some data) 1%N rs eq_refl Er) as H1.
    cbn [app] in H1. rewrite H1. reflexivity.
  Qed.

  (* ---------------------------------------------------------------- *)
  (** * __call__ *)

  (* the model's answer read off the generated result *)
  Definition qres_of (r : G.res (@G.rmq_state A * option A)) : qres :=
    match r with
    | G.Ok (_, None) => QNone
    | G.Ok (_, Some a) => QVal a
    | G.Err _ => QErr
    end.

  Theorem gen_rmq_query_eq (t : table) (start stop : N) :
    qres_of (G.gen_rmq_query ltb (G.mk_rmq t) start stop) = query leb_of t (N.to_nat start) (N.to_nat stop) /\
    (forall s' r, G.gen_rmq_query ltb (G.mk_rmq t) start stop = G.Ok (s', r) -> s' = G.mk_rmq t).
  Proof.
    unfold G.gen_rmq_query, query, ilog2. cbv zeta beta.
    destruct (N.leb_spec stop start) as [Hle|Hlt].
    { destruct (Nat.leb_spec (N.to_nat stop) (N.to_nat start)); [|lia].
      split; [reflexivity|]. intros s' r Hs. injection Hs as <- _. reflexivity. }
    destruct (Nat.leb_spec (N.to_nat stop) (N.to_nat start)); [lia|].
    replace (Z.sub (Z.of_N stop) (Z.of_N start)) with (Z.of_N (N.sub stop start)) by lia.
    rewrite (ilog2_pos (N.sub stop start)) by lia.
    replace (N.to_nat (N.sub stop start)) with (N.to_nat stop - N.to_nat start) by lia.
    remember (Nat.log2 (N.to_nat stop - N.to_nat start)) as d eqn:Ed.
    assert (2 ^ d <= N.to_nat stop - N.to_nat start) as Hpow
      by (subst d; apply Nat.log2_spec; lia).
    rewrite (zget_nonneg t) by lia. rewrite Nat2Z.id.
    destruct (nth_error t d) as [row|]; [|split; [reflexivity|discriminate]].
    destruct (Z.ltb_spec (Z.of_nat d) 0) as [?|_]; [lia|].
    assert (N.to_nat (N.pow 2 (Z.to_N (Z.of_nat d))) = 2 ^ d) as Hp.
    { rewrite pow2_nat. f_equal. lia. }
    rewrite (zget_nonneg row) by lia.
    replace (Z.to_nat (Z.sub (Z.of_N stop) (Z.of_N (N.pow 2 (Z.to_N (Z.of_nat d))))))
      with (N.to_nat stop - 2 ^ d) by lia.
    unfold get2.
    destruct (nth_error row (N.to_nat start)) as [c1|]; [|split; [reflexivity|discriminate]].
    destruct (nth_error row (N.to_nat stop - 2 ^ d)) as [c2|];
      [|split; [destruct c1; reflexivity|discriminate]].
    destruct c1 as [l|]; [|split; [reflexivity|discriminate]].
    destruct c2 as [r|]; [|split; [reflexivity|discriminate]].
    cbn [qres_of]. rewrite py_min_eq. split; [reflexivity|].
    intros s' r' Hs. injection Hs as <- _. reflexivity.
  Qed.

  (* ---------------------------------------------------------------- *)
  (** * Consequence: with a total preorder, the generated class answers range-minimum queries *)

  Corollary gen_rmq_correct :
    (forall x y z, leb_of x y = true -> leb_of y z = true -> leb_of x z = true) ->
    (forall x y, leb_of x y = true \/ leb_of y x = true) ->
    forall (data : list A) (i j : N), (i < j)%N -> N.to_nat j <= length data ->
    exists s m, G.gen_rmq_init ltb data = G.Ok s /\
                G.gen_rmq_query ltb s i j = G.Ok (s, Some m) /\
                is_min_of leb_of data (N.to_nat i) (N.to_nat j) m.
  Proof.
    intros Htr Htot data i j Hij Hj.
    assert (data <> []) as Hne by (destruct data; [cbn in Hj; lia|discriminate]).
    destruct (build_defined leb_of data Hne) as [t Ht].
    destruct (rmq_correct leb_of Htr Htot data t (N.to_nat i) (N.to_nat j) Ht ltac:(lia)) as [m [Hq Hm]].
    exists (G.mk_rmq t), m. pose proof (gen_rmq_init_eq data) as Hi. rewrite Ht in Hi.
    split; [exact Hi|]. split; [|exact Hm].
    destruct (gen_rmq_query_eq t i j) as [Q S]. rewrite Hq in Q.
    destruct (G.gen_rmq_query ltb (G.mk_rmq t) i j) as [[s' [a|]]|e]; cbn in Q; try discriminate.
    injection Q as ->. rewrite (S s' (Some m) eq_refl). reflexivity.
  Qed.
End RmqGen.

(* the hypotheses of [gen_rmq_correct] are satisfiable: Python ints with their [<] *)
Example gen_rmq_correct_nat :
  exists s m, G.gen_rmq_init Nat.ltb [3; 1; 2; 5; 0] = G.Ok s /\
              G.gen_rmq_query Nat.ltb s 1%N 4%N = G.Ok (s, Some m) /\
              is_min_of (leb_of Nat.ltb) [3; 1; 2; 5; 0] 1 4 m.
Proof.
  apply (gen_rmq_correct Nat.ltb); unfold leb_of.
  - intros x y z. destruct (Nat.ltb_spec y x), (Nat.ltb_spec z y), (Nat.ltb_spec z x); cbn; (discriminate || lia || auto).
  - intros x y. destruct (Nat.ltb_spec y x), (Nat.ltb_spec x y); cbn; auto. lia.
  - reflexivity.
  - cbn. lia.
Qed.

Print Assumptions gen_rmq_ilog2_eq.
Print Assumptions gen_rmq_init_eq.
Print Assumptions gen_rmq_query_eq.
Print Assumptions gen_rmq_correct.
