(** Metamorphic laws of the specification optimum (C09) and cross-algorithm
    relations (C10) for plain reconciliation. *)
From Coq Require Import List Bool Arith ZArith Lia.
From SR Require Import Base.PathB Base.Ext Model.Entry Model.Recon Model.LcaRec Model.Thl
  Proofs.PathFacts Proofs.ReconProofs Proofs.DpProofs Proofs.LcaProofs Proofs.ExhProofs
  Proofs.ThlProofs Proofs.ThlFinal.
Import ListNotations.
Local Open Scope Z_scope.

(** * scaling all unit costs *)
Definition ext_scale (k : Z) (x : ext) : ext := match x with Fin z => Fin (k * z) | o => o end.
Definition scale_costs (k : Z) (c : costs) : costs :=
  {| c_spe := k * c_spe c; c_dup := k * c_dup c; c_hgt := ext_scale k (c_hgt c);
     c_floss := k * c_floss c; c_sloss := k * c_sloss c |}.

Lemma ext_scale_add k a b : ext_scale k (ext_add a b) = ext_add (ext_scale k a) (ext_scale k b).
Proof. destruct a, b; simpl; auto. f_equal. lia. Qed.

Lemma ecost_scale k c s l r : ecost (scale_costs k c) s l r = ext_scale k (ecost c s l r).
Proof.
  unfold ecost. destruct (event s l r); cbn [scale_costs c_spe c_dup c_hgt c_floss ext_scale]; auto;
    try (f_equal; lia); rewrite ext_scale_add; simpl; do 2 f_equal; lia.
Qed.

Theorem cost_scale k c O : forall r, cost (scale_costs k c) O r = ext_scale k (cost c O r).
Proof.
  induction O as [sp syn|a IHa b IHb]; intros [s|s ra rb]; simpl; auto.
  - destruct (path_eqb s sp); simpl; auto. f_equal. lia.
  - destruct (event s (root ra) (root rb)) eqn:E; auto;
      rewrite ecost_scale, IHa, IHb, !ext_scale_add; reflexivity.
Qed.

Lemma ele_scale k a b : 0 < k -> (ele (ext_scale k a) (ext_scale k b) <-> ele a b).
Proof.
  intros Hk. unfold ele. destruct a, b; simpl; try tauto. rewrite !Z.ltb_ge. split; intros; nia.
Qed.

(** multiplying every unit cost by k > 0 multiplies every cost by k and keeps the optimal set *)
Theorem opt_scale k S c O r : 0 < k -> (optimal S (scale_costs k c) O r <-> optimal S c O r).
Proof.
  intros Hk. unfold optimal. split; intros [V Opt]; split; auto; intros r' V'; specialize (Opt r' V').
  - rewrite !cost_scale in Opt. now apply (ele_scale k).
  - rewrite !cost_scale. now apply (ele_scale k).
Qed.

(** * raising unit costs *)
Definition costs_le (c c' : costs) : Prop :=
  c_spe c <= c_spe c' /\ c_dup c <= c_dup c' /\ ele (c_hgt c) (c_hgt c') /\ c_floss c <= c_floss c' /\ c_sloss c <= c_sloss c'.

Lemma spe_dist_ge s l r : event s l r = Spe -> 1 <= dist s l /\ 1 <= dist s r.
Proof.
  intros E. destruct (event_SD s l r) as [Al Ar]; [left; auto|].
  destruct (event_Spe_inv _ _ _ E) as [L [N1 N2]].
  rewrite (dist_anc _ _ Al), (dist_anc _ _ Ar).
  assert (s <> l) as Nl by (intros X; rewrite <- X in N1; congruence).
  assert (s <> r) as Nr by (intros X; rewrite <- X in N2; congruence).
  assert (forall x, anc s x = true -> s <> x -> len s < len x) as Lt.
  { intros x A N. apply is_prefix_spec in A as [d ->]. unfold len. rewrite app_length.
    destruct d; [exfalso; apply N; now rewrite app_nil_r|simpl; lia]. }
  pose proof (Lt l Al Nl). pose proof (Lt r Ar Nr). lia.
Qed.

Lemma ecost_mono c c' s l r : 0 <= c_floss c -> costs_le c c' -> ele (ecost c s l r) (ecost c' s l r).
Proof.
  intros Hf [H1 [H2 [H3 [H4 H5]]]]. unfold ecost. destruct (event s l r) eqn:E; try apply ele_refl.
  - destruct (spe_dist_ge _ _ _ E). apply ele_Fin. nia.
  - pose proof (dist_nonneg s l). pose proof (dist_nonneg s r). apply ele_Fin. nia.
  - apply ext_add_mono; auto. pose proof (dist_nonneg s l). apply ele_Fin. nia.
  - apply ext_add_mono; auto. pose proof (dist_nonneg s r). apply ele_Fin. nia.
Qed.

(** raising unit costs never lowers the cost of a reconciliation ... *)
Theorem cost_mono c c' O : 0 <= c_floss c -> costs_le c c' -> forall r, ele (cost c O r) (cost c' O r).
Proof.
  intros Hf Le. induction O as [sp syn|a IHa b IHb]; intros [s|s ra rb]; cbn [cost]; try apply ele_refl.
  destruct (event s (root ra) (root rb)) eqn:E; try apply ele_refl;
    (apply ext_add_mono; [now apply ecost_mono|apply ext_add_mono; auto]).
Qed.

(** ... nor the minimum *)
Theorem opt_monotone S c c' O r r' : 0 <= c_floss c -> costs_le c c' ->
  optimal S c O r -> optimal S c' O r' -> ele (cost c O r) (cost c' O r').
Proof.
  intros Hf Le [V Opt] [V' _]. eapply ele_trans; [apply Opt; exact V'|now apply cost_mono].
Qed.

(** * reordering children in the object tree *)
Inductive plan := PLeaf | PNode (flip : bool) (l r : plan).

Fixpoint oflip (p : plan) (o : otree) : otree :=
  match p, o with
  | PNode f pl pr, ONode a b =>
      let a' := oflip pl a in let b' := oflip pr b in if f then ONode b' a' else ONode a' b'
  | _, _ => o
  end.
Fixpoint rflip (p : plan) (r : rtree) : rtree :=
  match p, r with
  | PNode f pl pr, RNode s a b =>
      let a' := rflip pl a in let b' := rflip pr b in if f then RNode s b' a' else RNode s a' b'
  | _, _ => r
  end.
Fixpoint pinv (p : plan) : plan :=
  match p with
  | PLeaf => PLeaf
  | PNode f pl pr => if f then PNode true (pinv pr) (pinv pl) else PNode false (pinv pl) (pinv pr)
  end.

Lemma root_rflip p r : root (rflip p r) = root r.
Proof. destruct p, r; simpl; auto. destruct flip; reflexivity. Qed.

Lemma event_swap s l r :
  event s r l = match event s l r with TrL => TrR | TrR => TrL | e => e end.
Proof.
  unfold event. rewrite (orb_comm (sanc r s)), (andb_comm (anc s r)), (lcp_comm r l).
  unfold comparable. rewrite (orb_comm (anc r l)).
  destruct (sanc l s || sanc r s); auto. destruct (anc s l) eqn:A, (anc s r) eqn:B; simpl; auto.
  destruct (path_eqb s (lcp l r) && negb (anc l r || anc r l)); auto.
Qed.
Lemma ecost_swap c s l r : ecost c s r l = ecost c s l r.
Proof.
  unfold ecost. rewrite event_swap. destruct (event s l r); auto; f_equal; lia.
Qed.

Lemma oflip_pinv p : forall o, oflip (pinv p) (oflip p o) = o.
Proof.
  induction p as [|f pl IHl pr IHr]; intros o; [destruct o; reflexivity|].
  destruct o as [sp syn|a b]; [destruct f; reflexivity|]. simpl. destruct f; simpl; now rewrite IHl, IHr.
Qed.
Lemma rflip_pinv p : forall r, rflip (pinv p) (rflip p r) = r.
Proof.
  induction p as [|f pl IHl pr IHr]; intros r; [destruct r; reflexivity|].
  destruct r as [s|s a b]; [destruct f; reflexivity|]. simpl. destruct f; simpl; now rewrite IHl, IHr.
Qed.

Lemma valid_rflip S p : forall O r, valid_rec S O r -> valid_rec S (oflip p O) (rflip p r).
Proof.
  induction p as [|f pl IHl pr IHr]; intros O r V; [destruct O, r; exact V|].
  inversion V as [sp syn Hs|a b s ra rb Hs He Va Vb]; subst; [destruct f; exact V|].
  simpl. destruct f; constructor; auto; rewrite !root_rflip; auto.
  rewrite event_swap. destruct (event s (root ra) (root rb)); congruence.
Qed.

Lemma cost_rflip c p : forall O r, cost c (oflip p O) (rflip p r) = cost c O r.
Proof.
  induction p as [|f pl IHl pr IHr]; intros O r; [destruct O, r; reflexivity|].
  destruct O as [sp syn|a b], r as [s|s ra rb]; try (destruct f; reflexivity).
  simpl. destruct f; cbn [cost]; rewrite !root_rflip, ?IHl, ?IHr; auto.
  rewrite event_swap, ecost_swap.
  destruct (event s (root ra) (root rb)); auto; f_equal; apply ext_add_comm.
Qed.

(** reordering the children of any set of object-tree nodes is a cost-preserving bijection
    on valid reconciliations; minimum and optimal set are carried over *)
Theorem opt_swap_object_children S c p O r : optimal S c (oflip p O) (rflip p r) <-> optimal S c O r.
Proof.
  unfold optimal. split; intros [V Opt]; split.
  - apply (valid_rflip S (pinv p)) in V. now rewrite oflip_pinv, rflip_pinv in V.
  - intros r' V'. specialize (Opt _ (valid_rflip S p O r' V')). now rewrite !cost_rflip in Opt.
  - now apply valid_rflip.
  - intros r' V'. rewrite cost_rflip.
    pose proof (cost_rflip c (pinv p) (oflip p O) r') as Q. rewrite oflip_pinv in Q. rewrite <- Q.
    apply Opt. apply (valid_rflip S (pinv p)) in V'. now rewrite oflip_pinv in V'.
Qed.

(** * the general solver never does worse than the LCA reconciliation, and equals it
    when transfers are forbidden (C10) *)
Theorem dtl_le_lca S c O r : leaves_ok S O -> optimal S c O r -> ele (cost c O r) (cost c O (lca_rec O)).
Proof. intros L [_ Opt]. apply Opt. exact (proj1 (lca_valid S O L)). Qed.

Theorem dtl_eq_lca_no_transfer S c O r :
  0 <= c_dup c -> 0 <= c_floss c -> coherent c -> c_hgt c = PInf ->
  leaves_ok S O -> optimal S c O r -> cost c O r = cost c O (lca_rec O).
Proof.
  intros Hd Hf Hc Hh L [V Opt]. apply ele_antisym.
  - apply Opt. exact (proj1 (lca_valid S O L)).
  - now apply (lca_optimal_all c S O r).
Qed.

Corollary thl_le_lca S c O r :
  nn (c_hgt c) -> 0 <= c_floss c -> coherent c -> leaves_ok S O ->
  In r (tags (reconcile_thl S c RALL O)) -> ele (cost c O r) (cost c O (lca_rec O)).
Proof. intros Hh Hf Hc L H. apply (dtl_le_lca S); auto. now apply (thl_all_exact S c O Hh Hf Hc L). Qed.

Corollary thl_eq_lca_no_transfer S c O r :
  0 <= c_dup c -> 0 <= c_floss c -> coherent c -> c_hgt c = PInf -> leaves_ok S O ->
  In r (tags (reconcile_thl S c RALL O)) -> cost c O r = cost c O (lca_rec O).
Proof.
  intros Hd Hf Hc Hh L H. apply (dtl_eq_lca_no_transfer S); auto.
  apply (thl_all_exact S c O); auto. rewrite Hh. apply nn_PInf.
Qed.

(** * path isomorphisms: relabelling the species tree *)
Fixpoint omap (g : path -> path) (o : otree) : otree :=
  match o with OLeaf sp syn => OLeaf (g sp) syn | ONode a b => ONode (omap g a) (omap g b) end.
Fixpoint rmap (g : path -> path) (r : rtree) : rtree :=
  match r with RLeaf s => RLeaf (g s) | RNode s a b => RNode (g s) (rmap g a) (rmap g b) end.

Section Iso.
  Variable g : path -> path.
  Hypothesis g_anc : forall a b, anc (g a) (g b) = anc a b.
  Hypothesis g_lcp : forall a b, lcp (g a) (g b) = g (lcp a b).
  Hypothesis g_eq : forall a b, path_eqb (g a) (g b) = path_eqb a b.
  Hypothesis g_dist : forall a b, dist (g a) (g b) = dist a b.

  Lemma iso_event s l r : event (g s) (g l) (g r) = event s l r.
  Proof. unfold event, sanc, comparable. now rewrite g_lcp, !g_anc, !g_eq. Qed.
  Lemma iso_ecost c s l r : ecost c (g s) (g l) (g r) = ecost c s l r.
  Proof. unfold ecost. now rewrite iso_event, !g_dist. Qed.
  Lemma root_rmap r : root (rmap g r) = g (root r).
  Proof. destruct r; reflexivity. Qed.
  Lemma iso_cost c O : forall r, cost c (omap g O) (rmap g r) = cost c O r.
  Proof.
    induction O as [sp syn|a IHa b IHb]; intros [s|s ra rb]; cbn [omap rmap cost]; auto.
    - now rewrite g_eq.
    - now rewrite !root_rmap, iso_event, iso_ecost, IHa, IHb.
  Qed.
End Iso.

(** exchanging the children of an arbitrary set of species-tree nodes *)
Section SFlip.
  Variable f : path -> bool.      (* the species nodes whose two children are exchanged *)

  Fixpoint pflip (acc p : path) : path :=
    match p with [] => [] | b :: p' => xorb b (f acc) :: pflip (acc ++ [b]) p' end.
  Fixpoint punflip (acc p : path) : path :=
    match p with [] => [] | b :: p' => let b0 := xorb b (f acc) in b0 :: punflip (acc ++ [b0]) p' end.
  Fixpoint sflip (acc : path) (S : stree) : stree :=
    match S with
    | SLeaf => SLeaf
    | SNode l r =>
        if f acc then SNode (sflip (acc ++ [true]) r) (sflip (acc ++ [false]) l)
        else SNode (sflip (acc ++ [false]) l) (sflip (acc ++ [true]) r)
    end.

  Lemma xorb_cancel b x : xorb (xorb b x) x = b. Proof. destruct b, x; reflexivity. Qed.

  Lemma punflip_pflip p : forall acc, punflip acc (pflip acc p) = p.
  Proof. induction p as [|b p IH]; intros acc; simpl; auto. now rewrite xorb_cancel, IH. Qed.
  Lemma pflip_punflip p : forall acc, pflip acc (punflip acc p) = p.
  Proof. induction p as [|b p IH]; intros acc; simpl; auto. now rewrite IH, xorb_cancel. Qed.

  Lemma pflip_length p : forall acc, length (pflip acc p) = length p.
  Proof. induction p as [|b p IH]; intros acc; simpl; auto. Qed.

  Lemma eqb_xorb a b x : Bool.eqb (xorb a x) (xorb b x) = Bool.eqb a b.
  Proof. destruct a, b, x; reflexivity. Qed.

  Lemma pflip_anc a : forall acc b, anc (pflip acc a) (pflip acc b) = anc a b.
  Proof.
    induction a as [|x a IH]; intros acc [|y b]; simpl; auto.
    rewrite eqb_xorb. destruct (Bool.eqb x y) eqn:E; simpl; auto.
    apply eqb_prop in E. subst. apply IH.
  Qed.
  Lemma pflip_eq a : forall acc b, path_eqb (pflip acc a) (pflip acc b) = path_eqb a b.
  Proof.
    induction a as [|x a IH]; intros acc [|y b]; simpl; auto.
    rewrite eqb_xorb. destruct (Bool.eqb x y) eqn:E; simpl; auto.
    apply eqb_prop in E. subst. apply IH.
  Qed.
  Lemma pflip_lcp a : forall acc b, lcp (pflip acc a) (pflip acc b) = pflip acc (lcp a b).
  Proof.
    induction a as [|x a IH]; intros acc [|y b]; simpl; auto.
    rewrite eqb_xorb. destruct (Bool.eqb x y) eqn:E; simpl; auto.
    apply eqb_prop in E. subst. now rewrite IH.
  Qed.
  Lemma pflip_dist acc a b : dist (pflip acc a) (pflip acc b) = dist a b.
  Proof. unfold dist, len. now rewrite pflip_lcp, !pflip_length. Qed.

  Lemma sflip_valid S : forall acc p, valid_sp (sflip acc S) (pflip acc p) = valid_sp S p.
  Proof.
    induction S as [|l IHl r IHr]; intros acc p; destruct p as [|b p]; cbn [sflip pflip valid_sp]; auto.
    - destruct b, (f acc); reflexivity.
    - destruct (f acc); reflexivity.
    - destruct (f acc) eqn:F; destruct b; cbn [xorb valid_sp]; rewrite ?IHl, ?IHr; reflexivity.
  Qed.

  Definition phi := pflip [].
  Definition psi := punflip [].

  Lemma valid_rmap_flip S O r : valid_rec S O r -> valid_rec (sflip [] S) (omap phi O) (rmap phi r).
  Proof.
    induction 1 as [sp syn Hs|a b s ra rb Hs He Va IHa Vb IHb]; simpl.
    - constructor. unfold phi. now rewrite sflip_valid.
    - constructor; auto.
      + unfold phi. now rewrite sflip_valid.
      + rewrite !root_rmap. unfold phi.
        rewrite (iso_event (pflip []) (fun a b => pflip_anc a [] b) (fun a b => pflip_lcp a [] b) (fun a b => pflip_eq a [] b)).
        exact He.
  Qed.

  Lemma flip_cost c O r : cost c (omap phi O) (rmap phi r) = cost c O r.
  Proof.
    apply iso_cost; intros; unfold phi.
    - apply pflip_anc. - apply pflip_lcp. - apply pflip_eq. - apply pflip_dist.
  Qed.

  Lemma omap_id g h O : (forall p, g (h p) = p) -> omap g (omap h O) = O.
  Proof. intros H. induction O; simpl; congruence. Qed.
  Lemma rmap_id g h r : (forall p, g (h p) = p) -> rmap g (rmap h r) = r.
  Proof. intros H. induction r; simpl; congruence. Qed.

  (* every valid reconciliation of the flipped input is the image of one of the original input *)
  Lemma valid_rmap_unflip S O : forall r', valid_rec (sflip [] S) (omap phi O) r' ->
    valid_rec S O (rmap psi r') /\ rmap phi (rmap psi r') = r'.
  Proof.
    assert (forall p, phi (psi p) = p) as PP by (intros; apply pflip_punflip).
    induction O as [sp syn|a IHa b IHb]; intros r' V; inversion V as [? ? Hs|? ? s ra rb Hs He Va Vb]; subst; simpl.
    - unfold psi, phi. rewrite punflip_pflip. split; [|reflexivity].
      constructor. unfold phi in Hs. now rewrite sflip_valid in Hs.
    - destruct (IHa _ Va) as [Wa Ea]. destruct (IHb _ Vb) as [Wb Eb]. split.
      + constructor; auto.
        * rewrite <- (PP s) in Hs. unfold phi in Hs. now rewrite sflip_valid in Hs.
        * rewrite <- (PP s), <- Ea, <- Eb, !root_rmap in He. unfold phi in He.
          rewrite (iso_event (pflip []) (fun a b => pflip_anc a [] b) (fun a b => pflip_lcp a [] b) (fun a b => pflip_eq a [] b)) in He.
          rewrite !root_rmap. exact He.
      + now rewrite PP, Ea, Eb.
  Qed.

  (** exchanging the children of any set of species-tree nodes is a cost-preserving bijection
      on valid reconciliations; minimum and optimal set are carried over *)
  Theorem opt_swap_species_children S c O r :
    optimal (sflip [] S) c (omap phi O) (rmap phi r) <-> optimal S c O r.
  Proof.
    assert (forall p, psi (phi p) = p) as QQ by (intros; apply punflip_pflip).
    unfold optimal. split; intros [V Opt]; split.
    - destruct (valid_rmap_unflip S O _ V) as [W _]. now rewrite (rmap_id psi phi r QQ) in W.
    - intros r' V'. specialize (Opt _ (valid_rmap_flip S O r' V')). now rewrite !flip_cost in Opt.
    - now apply valid_rmap_flip.
    - intros r' V'. destruct (valid_rmap_unflip S O _ V') as [W E].
      rewrite flip_cost, <- E, flip_cost. now apply Opt.
  Qed.
End SFlip.

(** * adding an outgroup species that carries no object *)
Definition og (p : path) : path := false :: p.
Definition S_out (S : stree) : stree := SNode S SLeaf.

Lemma og_anc a b : anc (og a) (og b) = anc a b. Proof. reflexivity. Qed.
Lemma og_lcp a b : lcp (og a) (og b) = og (lcp a b). Proof. reflexivity. Qed.
Lemma og_eq a b : path_eqb (og a) (og b) = path_eqb a b. Proof. reflexivity. Qed.
Lemma og_dist a b : dist (og a) (og b) = dist a b.
Proof. unfold dist, len, og. change (lcp (false :: a) (false :: b)) with (false :: lcp a b). cbn [length]. rewrite !Nat2Z.inj_succ. lia. Qed.

Lemma og_cost c O r : cost c (omap og O) (rmap og r) = cost c O r.
Proof. apply iso_cost; [exact og_anc|exact og_lcp|exact og_eq|exact og_dist]. Qed.
Lemma og_event s l r : event (og s) (og l) (og r) = event s l r.
Proof. apply iso_event; [exact og_anc|exact og_lcp|exact og_eq]. Qed.

Lemma og_valid S O r : valid_rec S O r -> valid_rec (S_out S) (omap og O) (rmap og r).
Proof.
  induction 1 as [sp syn Hs|a b s ra rb Hs He Va IHa Vb IHb]; simpl; constructor; auto.
  rewrite !root_rmap, og_event. exact He.
Qed.

(* species of the enlarged tree that a node can sit on: the new root or the old tree *)
Definition good (s : path) : Prop := s = [] \/ exists q, s = false :: q.
Fixpoint allgood (r : rtree) : Prop :=
  match r with RLeaf s => good s | RNode s a b => good s /\ allgood a /\ allgood b end.

Lemma good_anc s x : anc s x = true -> good x -> good s.
Proof.
  intros A [->|[q ->]].
  - destruct s; [now left|discriminate].
  - destruct s as [|b s]; [now left|]. simpl in A. apply andb_true_iff in A as [E _].
    apply eqb_prop in E. subst. right. eauto.
Qed.

Lemma valid_allgood S O r : valid_rec (S_out S) (omap og O) r -> allgood r /\ good (root r).
Proof.
  revert r. induction O as [sp syn|a IHa b IHb]; intros r V; inversion V as [? ? Hs|? ? s ra rb Hs He Va Vb]; subst.
  - simpl. split; right; eauto.
  - destruct (IHa _ Va) as [Ga Gra]. destruct (IHb _ Vb) as [Gb Grb].
    assert (good s) as Gs.
    { pose proof (event_exhaustive s (root ra) (root rb)) as X.
      destruct (event s (root ra) (root rb)); try congruence.
      - destruct X as [A _]. eapply good_anc; eauto.
      - destruct X as [A _]. eapply good_anc; eauto.
      - destruct X as [A _]. eapply good_anc; eauto.
      - destruct X as [A _]. eapply good_anc; eauto. }
    simpl. auto.
Qed.

(* push the nodes of the new root down onto the old root *)
Definition rho (p : path) : path := match p with [] => [false] | _ => p end.

Lemma dist_nil x : dist [] x = len x.
Proof. unfold dist. simpl. unfold len. simpl. lia. Qed.

Lemma rho_good s : good s -> anc [false] (rho s) = true.
Proof. intros [->|[q ->]]; reflexivity. Qed.

Lemma len_rho_nil : len (rho []) - 1 = 0. Proof. reflexivity. Qed.

Lemma push_node c s l r :
  0 <= c_floss c -> coherent c -> good s -> good l -> good r -> event s l r <> Inv ->
  event (rho s) (rho l) (rho r) <> Inv /\ ele (ecost c (rho s) (rho l) (rho r)) (ecost c s l r).
Proof.
  intros Hf Hc Gs Gl Gr Ev. destruct Gs as [->|[q ->]].
  - (* a node on the new root: it is a duplication, and moves to the old root *)
    assert (event [] l r = Dup) as ED.
    { pose proof (event_exhaustive [] l r) as X. destruct (event [] l r) eqn:E; try congruence.
      - exfalso. destruct X as [_ [_ [L [N1 N2]]]].
        destruct Gl as [->|[ql ->]]; [discriminate|]. destruct Gr as [->|[qr ->]]; [destruct ql; discriminate|].
        discriminate.
      - destruct X as [_ [X _]]. destruct l; discriminate.
      - destruct X as [_ [X _]]. destruct r; discriminate. }
    assert (anc [false] (rho l) = true) as Al by now apply rho_good.
    assert (anc [false] (rho r) = true) as Ar by now apply rho_good.
    split; [now apply event_anc_both|].
    unfold ecost at 2. rewrite ED. cbn [rho].
    assert (dist [false] (rho l) <= len l /\ dist [false] (rho r) <= len r /\
            (l <> [] -> dist [false] (rho l) = len l - 1) /\ (r <> [] -> dist [false] (rho r) = len r - 1)) as [Dl [Dr [Dl' Dr']]].
    { rewrite (dist_anc _ _ Al), (dist_anc _ _ Ar).
      destruct Gl as [->|[ql ->]], Gr as [->|[qr ->]]; unfold len; cbn [rho length]; rewrite ?Nat2Z.inj_succ;
        repeat split; intros; try congruence; lia. }
    rewrite !dist_nil. unfold ecost.
    pose proof (event_exhaustive [false] (rho l) (rho r)) as X.
    destruct (event [false] (rho l) (rho r)) eqn:E2.
    + (* speciation below: both children strictly below the old root *)
      destruct X as [_ [_ [L [N1 N2]]]].
      assert (l <> []) as Nl.
      { intros ->. cbn [rho] in N1. congruence. }
      assert (r <> []) as Nr.
      { intros ->. cbn [rho] in N2. congruence. }
      rewrite (Dl' Nl), (Dr' Nr). apply ele_Fin. unfold coherent in Hc. nia.
    + apply ele_Fin. nia.
    + destruct X as [_ [X _]]. congruence.
    + destruct X as [_ [X _]]. congruence.
    + exfalso. apply (event_anc_both [false] (rho l) (rho r)); auto.
  - (* a node inside the old tree: its children cannot be on the new root *)
    assert (l <> [] /\ r <> []) as [Nl Nr].
    { split; intros ->; apply Ev; unfold event; cbn [sanc anc is_prefix path_eqb negb andb orb]; try reflexivity.
      destruct (sanc l (false :: q)); reflexivity. }
    destruct l as [|bl l]; [congruence|]. destruct r as [|br r]; [congruence|].
    cbn [rho]. split; [exact Ev|apply ele_refl].
Qed.

Lemma root_rho r : root (rmap rho r) = rho (root r). Proof. apply root_rmap. Qed.

Lemma push_cost S c O : 0 <= c_floss c -> coherent c ->
  forall r, valid_rec (S_out S) (omap og O) r ->
  valid_rec (S_out S) (omap og O) (rmap rho r) /\ ele (cost c (omap og O) (rmap rho r)) (cost c (omap og O) r).
Proof.
  intros Hf Hc. induction O as [sp syn|a IHa b IHb]; intros r V;
    inversion V as [? ? Hs|? ? s ra rb Hs He Va Vb]; subst.
  - simpl. split; [constructor; auto|apply ele_refl].
  - destruct (IHa _ Va) as [Wa La]. destruct (IHb _ Vb) as [Wb Lb].
    destruct (valid_allgood S _ _ Va) as [_ Gl]. destruct (valid_allgood S _ _ Vb) as [_ Gr].
    destruct (valid_allgood S _ _ V) as [_ Gs]. cbn [root] in Gs.
    destruct (push_node c s (root ra) (root rb) Hf Hc Gs Gl Gr He) as [Ev Le].
    cbn [omap rmap]. split.
    + constructor; auto; [|now rewrite !root_rho].
      destruct Gs as [->|[q ->]]; [unfold rho, S_out; simpl; destruct S; reflexivity|exact Hs].
    + cbn [cost]. rewrite !root_rho.
      destruct (event (rho s) (rho (root ra)) (rho (root rb))) eqn:E1; try congruence;
      destruct (event s (root ra) (root rb)) eqn:E2; try congruence;
        (apply ext_add_mono; [exact Le|apply ext_add_mono; assumption]).
Qed.

(* a reconciliation living inside the old tree comes from one of the original input *)
Fixpoint inside (r : rtree) : Prop :=
  match r with RLeaf s => exists q, s = false :: q | RNode s a b => (exists q, s = false :: q) /\ inside a /\ inside b end.

Lemma rho_inside r : allgood r -> inside (rmap rho r).
Proof.
  induction r as [s|s a IHa b IHb]; simpl.
  - intros [->|[q ->]]; simpl; eauto.
  - intros [[->|[q ->]] [Ga Gb]]; simpl; split; eauto.
Qed.

Lemma strip_valid S O : forall r, valid_rec (S_out S) (omap og O) r -> inside r ->
  exists r0, valid_rec S O r0 /\ rmap og r0 = r.
Proof.
  induction O as [sp syn|a IHa b IHb]; intros r V I; inversion V as [? ? Hs|? ? s ra rb Hs He Va Vb]; subst.
  - exists (RLeaf sp). split; [constructor; exact Hs|reflexivity].
  - destruct I as [[q ->] [Ia Ib]].
    destruct (IHa _ Va Ia) as [a0 [Wa Ea]]. destruct (IHb _ Vb Ib) as [b0 [Wb Eb]].
    exists (RNode q a0 b0). split; [|simpl; now rewrite Ea, Eb].
    constructor; auto. rewrite <- Ea, <- Eb, !root_rmap in He. change (false :: q) with (og q) in He.
    now rewrite og_event in He.
Qed.

(** every valid reconciliation of the enlarged input is matched by one of the original input
    that costs no more (inside the coherent region) *)
Theorem outgroup_no_gain S c O : 0 <= c_floss c -> coherent c ->
  forall r', valid_rec (S_out S) (omap og O) r' ->
  exists r, valid_rec S O r /\ ele (cost c O r) (cost c (omap og O) r').
Proof.
  intros Hf Hc r' V. destruct (push_cost S c O Hf Hc r' V) as [W Le].
  destruct (valid_allgood S _ _ V) as [G _].
  destruct (strip_valid S O _ W (rho_inside _ G)) as [r0 [V0 E0]].
  exists r0. split; auto. rewrite <- (og_cost c O r0), E0. exact Le.
Qed.

(** adding an outgroup that carries no object keeps the minimum: an optimal reconciliation of
    the original input stays optimal, with the same cost *)
Theorem opt_outgroup_cost S c O r : 0 <= c_floss c -> coherent c ->
  optimal S c O r -> optimal (S_out S) c (omap og O) (rmap og r) /\
                     cost c (omap og O) (rmap og r) = cost c O r.
Proof.
  intros Hf Hc [V Opt]. split; [|apply og_cost]. split; [now apply og_valid|].
  intros r' V'. destruct (outgroup_no_gain S c O Hf Hc r' V') as [r0 [V0 Le]].
  rewrite og_cost. eapply ele_trans; [apply Opt; exact V0|exact Le].
Qed.

(* conversely an optimal reconciliation of the enlarged input that lives in the old tree is optimal there *)
Theorem opt_outgroup_back S c O r : optimal (S_out S) c (omap og O) (rmap og r) -> valid_rec S O r -> optimal S c O r.
Proof.
  intros [_ Opt] V. split; auto. intros r' V'. specialize (Opt _ (og_valid S O r' V')). now rewrite !og_cost in Opt.
Qed.
