(** [DisjointSet.binary] as generated in [Gen/DsuGen.v] (section [Binary]: the local function
    [_binary] -> [gen_dsu_binary_aux], the method -> [gen_dsu_binary]) from
    [src/superrec2/utils/disjoint_set.py] by [translator/dsu_gen.py] is equal to the hand-written
    model [Model/DisjointSet.v] ([binary_aux], [binary]) for ALL states, group lists, optional
    representatives and for EVERY iteration order of the set [set(self.find(i) ...)], error cases
    included -- as lists: the order of the enumeration is fixed by the source once the order of
    [list(set(..))] is.

    Representation.  Objects are values: the generated state [G.dsu_state] holds Python ints as [N]
    ([st] of Proofs/DsuGenProofs.v converts, injectively, to the model's [dsu]); [deepcopy(partition)]
    is the value itself; the returned list of objects is the list of their states at return time.
    The order of [list(set(xs))] is the Section variable [ord : list N -> list N] of the generated
    file, applied to the list of the inserted items in insertion order (with duplicates); the
    model's [ord : list nat -> list nat] is [ord_nat ord] -- the same function through the bijection
    [N.to_nat].  The generated [_binary] recurses on fuel [S (length groups)]; the equality below
    shows that this fuel never runs out (the model is structurally recursive). *)
From Coq Require Import List Bool Arith ZArith NArith Lia.
From SR Require Import Model.DisjointSet Proofs.DisjointSetProofs Proofs.DsuGenProofs.
From SR Require Gen.DsuGen.
Import ListNotations.
Module G := SR.Gen.DsuGen.

Notation nats := (map N.to_nat).

Definition onat (o : option N) : option nat := option_map N.to_nat o.

(* the model's order parameter that corresponds to the generated file's [ord] *)
Definition ord_nat (ord : list N -> list N) (l : list nat) : list nat := nats (ord (map N.of_nat l)).

Lemma of_nats (l : list N) : map N.of_nat (nats l) = l.
Proof. induction l as [|x l IH]; cbn; [reflexivity|]. now rewrite N2Nat.id, IH. Qed.

Lemma ord_nat_nats ord (l : list N) : ord_nat ord (nats l) = nats (ord l).
Proof. unfold ord_nat. now rewrite of_nats. Qed.

(* what a call of the generated [unite] inside another function amounts to *)
Lemma unite_cases (s : G.dsu_state) (a b : N) :
  match G.gen_dsu_unite s a b with
  | G.Ok (s1, r) => unite (st s) (N.to_nat a) (N.to_nat b) = Ok (st s1, r)
  | G.Err e => unite (st s) (N.to_nat a) (N.to_nat b) = Err (cerr e)
  end.
Proof.
  pose proof (gen_dsu_unite_eq s a b) as H.
  destruct (G.gen_dsu_unite s a b) as [[s1 r]|e]; cbn in H; symmetry; exact H.
Qed.

(* ------------------------------------------------------------------ *)
(** * _binary *)

Ltac unite_step d :=
  match goal with
  | |- context [G.gen_dsu_unite ?s ?a ?b] =>
      let H := fresh "U" in
      pose proof (unite_cases s a b) as H;
      destruct (G.gen_dsu_unite s a b) as [[d ?]|?]; rewrite H; cbn [bind]; [|reflexivity]
  end.

Ltac rec_step IH s a b :=
  let E := fresh "E" in
  pose proof (IH s a b) as E; cbn [onat option_map] in E; rewrite <- E; clear E;
  match goal with
  | |- context [G.gen_dsu_binary_aux_rec ?fu s ?r a b] =>
      destruct (G.gen_dsu_binary_aux_rec fu s r a b) as [?r|?e]; cbn [cres bind]; [|reflexivity]
  end.

Lemma binary_aux_rec_eq : forall gs fuel s f sd, length gs < fuel ->
  cres (map st) (G.gen_dsu_binary_aux_rec fuel s gs f sd) =
    binary_aux (nats gs) (st s) (onat f) (onat sd).
Proof.
  induction gs as [|g rest IH]; intros [|fuel] s f sd Hf; try (cbn in Hf; lia).
  - destruct f, sd; reflexivity.
  - cbn [length] in Hf.
    assert (forall s1 a b, cres (map st) (G.gen_dsu_binary_aux_rec fuel s1 rest a b) =
              binary_aux (nats rest) (st s1) (onat a) (onat b)) as IH'
      by (intros; apply IH; lia).
    cbn [G.gen_dsu_binary_aux_rec map binary_aux G.is_empty negb].
    cbv zeta beta. change (N.to_nat 0) with 0. cbn [nth_error skipn].
    destruct f as [f|], sd as [sd|]; cbn [onat option_map opt_lt_l opt_gt_l].
    + (* both chosen *)
      unite_step d. rec_step IH' d (Some f) (Some sd).
      unite_step d0. rec_step IH' d0 (Some f) (Some sd).
      now rewrite map_app.
    + (* first chosen, second not *)
      unite_step d. rec_step IH' d (Some f) (@None N).
      rewrite ltb_nats. destruct (N.ltb f g).
      * rec_step IH' s (Some f) (Some g).
        now rewrite map_app.
      * cbn [cres bind]. now rewrite map_app.
    + (* second chosen, first not *)
      rewrite ltb_nats. destruct (N.ltb g sd).
      * rec_step IH' s (Some g) (Some sd).
        unite_step d. rec_step IH' d (@None N) (Some sd).
        now rewrite map_app.
      * cbn [bind]. unite_step d. rec_step IH' d (@None N) (Some sd).
        reflexivity.
    + (* none chosen *)
      rec_step IH' s (Some g) (@None N).
      rec_step IH' s (@None N) (Some g).
      now rewrite map_app.
Qed.

Theorem gen_dsu_binary_aux_eq (s : G.dsu_state) (gs : list N) (f sd : option N) :
  cres (map st) (G.gen_dsu_binary_aux s gs f sd) = binary_aux (nats gs) (st s) (onat f) (onat sd).
Proof. unfold G.gen_dsu_binary_aux. apply binary_aux_rec_eq. lia. Qed.

(* the fuel never runs out: [OutOfFuel] is only ever passed on from [unite] (i.e. from [find]) *)
Corollary gen_dsu_binary_aux_fuel (s : G.dsu_state) (gs : list N) (f sd : option N) :
  G.gen_dsu_binary_aux s gs f sd = G.Err G.OutOfFuel ->
  binary_aux (nats gs) (st s) (onat f) (onat sd) = Err OutOfFuel.
Proof. intros H. rewrite <- gen_dsu_binary_aux_eq, H. reflexivity. Qed.

(* ------------------------------------------------------------------ *)
(** * binary *)

(* the translated [self.find(i) for i in range(len(self.parent))], consumed by [set] *)
Lemma binary_for1_eq : forall cnt idx p rk g acc,
  match G.gen_dsu_binary_for1 cnt idx p rk g acc with
  | G.Next (p', rk', g', acc') =>
      exists rs, find_all (seq (N.to_nat idx) cnt) (st (G.mk_dsu p rk g)) = Ok (st (G.mk_dsu p' rk' g'), rs) /\
                 nats acc' = nats acc ++ rs
  | G.Ret _ => False
  | G.Fail e => find_all (seq (N.to_nat idx) cnt) (st (G.mk_dsu p rk g)) = Err (cerr e)
  end.
Proof.
  induction cnt as [|cnt IH]; intros idx p rk g acc.
  - cbn. exists []. split; [reflexivity|]. now rewrite app_nil_r.
  - cbn [G.gen_dsu_binary_for1 seq find_all].
    pose proof (find_cases (G.mk_dsu p rk g) idx) as Hf.
    destruct (G.gen_dsu_find (G.mk_dsu p rk g) idx) as [[[p1 rk1 g1] r]|e]; rewrite Hf; cbn [bind]; [|reflexivity].
    specialize (IH (N.succ idx) p1 rk1 g1 (acc ++ [r])). rewrite N2Nat.inj_succ in IH.
    destruct (G.gen_dsu_binary_for1 cnt (N.succ idx) p1 rk1 g1 (acc ++ [r])) as [[[[p' rk'] g'] acc']|x|e].
    + destruct IH as (rs & F & A). rewrite F. cbn [bind]. exists (N.to_nat r :: rs). split; [reflexivity|].
      rewrite A, map_app, <- app_assoc. reflexivity.
    + contradiction.
    + rewrite IH. reflexivity.
Qed.

Theorem gen_dsu_binary_eq (ord : list N -> list N) (s : G.dsu_state) :
  cres (cpair (map st)) (G.gen_dsu_binary ord s) = binary (ord_nat ord) (st s).
Proof.
  destruct s as [p rk g]. unfold G.gen_dsu_binary, binary. cbv zeta.
  change (parent (st (G.mk_dsu p rk g))) with (nats p). rewrite map_length, Nat2N.id.
  pose proof (binary_for1_eq (length p) 0%N p rk g []) as H. change (N.to_nat 0) with 0 in H.
  destruct (G.gen_dsu_binary_for1 (length p) 0%N p rk g []) as [[[[p' rk'] g'] acc']|x|e]; [|contradiction|].
  - destruct H as (rs & F & A). rewrite F. cbn [bind]. cbn [map app] in A. subst rs.
    rewrite ord_nat_nats.
    pose proof (gen_dsu_binary_aux_eq (G.mk_dsu p' rk' g') (ord acc') None None) as B. cbn [onat option_map] in B.
    rewrite <- B.
    destruct (G.gen_dsu_binary_aux (G.mk_dsu p' rk' g') (ord acc') None None) as [bs|e]; reflexivity.
  - rewrite H. reflexivity.
Qed.

(* ------------------------------------------------------------------ *)
(** * Consequence: on reachable states, for every set order, the generated [binary] returns each
      two-block coarsening of the current partition exactly once (Proofs/DisjointSetProofs.v:
      [dsu_binary]) *)

(* [list(set(xs))] on ints: the distinct items of xs in some order *)
Definition set_orderN (ord : list N -> list N) : Prop :=
  forall l, NoDup (ord l) /\ forall x, In x (ord l) <-> In x l.

Lemma NoDup_nats (l : list N) : NoDup l -> NoDup (nats l).
Proof.
  induction 1 as [|x l Hx ND IH]; cbn; constructor; [|exact IH].
  intros I. apply in_map_iff in I. destruct I as (y & E & I). apply N2Nat.inj in E. subst. contradiction.
Qed.

Lemma set_order_nat ord : set_orderN ord -> set_order (ord_nat ord).
Proof.
  intros H l. unfold ord_nat. destruct (H (map N.of_nat l)) as [ND IN]. split; [apply NoDup_nats; exact ND|].
  intros x. rewrite in_map_iff. split.
  - intros (y & <- & I). apply IN in I. apply in_map_iff in I. destruct I as (z & <- & I). now rewrite Nat2N.id.
  - intros I. exists (N.of_nat x). split; [apply Nat2N.id|]. apply IN. apply in_map. exact I.
Qed.

Corollary gen_dsu_binary_total n ps (ord : list N -> list N) (s : G.dsu_state) :
  reachable n ps (st s) -> set_orderN ord ->
  exists s' bs, G.gen_dsu_binary ord s = G.Ok (s', bs) /\ reachable n ps (st s') /\
    (forall b, In b bs -> len (st b) = 2%Z /\
        exists c, two_colouring n (eqv ps) c /\ represents n (st b) (fun x y => c x = c y)) /\
    (forall c, two_colouring n (eqv ps) c ->
        exists b, In b bs /\ represents n (st b) (fun x y => c x = c y)) /\
    (forall i j bi bj R, nth_error bs i = Some bi -> nth_error bs j = Some bj ->
        represents n (st bi) R -> represents n (st bj) R -> i = j).
Proof.
  intros R SO.
  destruct (dsu_binary n ps (st s) (ord_nat ord) R (set_order_nat ord SO)) as (d1 & bs & B & R1 & P1 & P2 & P3).
  pose proof (gen_dsu_binary_eq ord s) as H. rewrite B in H.
  destruct (G.gen_dsu_binary ord s) as [[s1 l1]|e]; cbn in H; [|discriminate].
  injection H as <- <-. exists s1, l1. split; [reflexivity|]. split; [exact R1|]. split; [|split].
  - intros b I. apply P1. apply in_map. exact I.
  - intros c TC. destruct (P2 c TC) as (b & I & Rb). apply in_map_iff in I. destruct I as (b' & <- & I).
    exists b'. split; assumption.
  - intros i j bi bj Rr Hi Hj Ri Rj. apply (P3 i j (st bi) (st bj) Rr); try assumption;
      rewrite nth_error_map; [rewrite Hi|rewrite Hj]; reflexivity.
Qed.

(* the distinct items in increasing order: what CPython's [list(set(xs))] gives for small ints *)
Definition sorted_distinctN (l : list N) : list N :=
  map N.of_nat (sorted_distinct (nats l)).

Lemma sorted_distinctN_order : set_orderN sorted_distinctN.
Proof.
  intros l. unfold sorted_distinctN. destruct (sorted_distinct_order (nats l)) as [ND IN]. split.
  - apply FinFun.Injective_map_NoDup; [|exact ND]. intros a b E. apply Nat2N.inj. exact E.
  - intros x. rewrite in_map_iff. split.
    + intros (y & <- & I). apply IN in I. apply in_map_iff in I. destruct I as (z & <- & I). now rewrite N2Nat.id.
    + intros I. exists (N.to_nat x). split; [apply N2Nat.id|]. apply IN. apply in_map. exact I.
Qed.

(* the hypotheses are satisfiable, and the generated code runs: DisjointSet(4), unite(1, 3), binary()
   lists the three ways of merging the groups {0}, {1, 3}, {2} into two *)
Example gen_dsu_binary_example :
  exists s s' bo s'' bs,
    G.gen_dsu_init 4 = G.Ok s /\ G.gen_dsu_unite s 1 3 = G.Ok (s', bo) /\ reachable 4 [(1, 3)] (st s') /\
    set_orderN sorted_distinctN /\
    G.gen_dsu_binary sorted_distinctN s' = G.Ok (s'', bs) /\
    map (fun b => match G.gen_dsu_to_list b with G.Ok (_, l) => l | G.Err _ => [] end) bs =
      [ [[0; 1; 3]; [2]]; [[0; 2]; [1; 3]]; [[0]; [1; 2; 3]] ]%N.
Proof.
  eexists. eexists. eexists. eexists. eexists.
  split; [reflexivity|]. split; [reflexivity|].
  split; [exact (R_unite 4 [] (make 4) 1 3 _ _ (R_make 4) ltac:(lia) ltac:(lia) eq_refl)|].
  split; [exact sorted_distinctN_order|].
  split; [vm_compute; reflexivity|]. vm_compute. reflexivity.
Qed.

Print Assumptions gen_dsu_binary_aux_eq.
Print Assumptions gen_dsu_binary_eq.
Print Assumptions gen_dsu_binary_total.
Print Assumptions gen_dsu_binary_example.
