(** The functions of [Gen/SubseqGen.v] -- regenerated from
    [src/superrec2/utils/subsequences.py] by [translator/subseq_gen.py] on every run --
    are equal to the hand-written model [Model/Subseq.v], for all inputs, error cases
    included.  The fuel of the translated [while] loop is the one the generated function
    computes itself ([N.size_nat child]); the equalities show [OutOfFuel] never comes out. *)
From Coq Require Import List Bool Arith ZArith NArith Lia ZifyBool ZifyNat ZifyN.
From SR Require Import Model.Subseq Gen.SubseqGen.
Import ListNotations.

(* ------------------------------------------------------------------ *)
(** * subseq_complete *)

Theorem gen_subseq_complete_eq {A : Type} (l : list A) :
  gen_subseq_complete l = Ok (Z.of_N (subseq_complete l)).
Proof.
  unfold gen_subseq_complete, subseq_complete. f_equal.
  generalize (N.of_nat (length l)) as n. intros n.
  rewrite Z.shiftl_1_l, N.ones_equiv.
  pose proof (N.pow_nonzero 2 n ltac:(discriminate)) as Hnz.
  rewrite N2Z.inj_pred by lia. rewrite N2Z.inj_pow. change (Z.of_N 2) with 2%Z. lia.
Qed.

(* ------------------------------------------------------------------ *)
(** * mask_from_subseq *)

Lemma shiftl_double (m i : N) : N.shiftl (N.double m) i = N.shiftl m (N.succ i).
Proof.
  replace (N.double m) with (N.shiftl m 1) by (destruct m; reflexivity).
  rewrite N.shiftl_shiftl, N.add_1_l. reflexivity.
Qed.

Lemma shiftl_succ_double (m i : N) :
  N.shiftl (N.succ_double m) i = N.lor (N.shiftl 1 i) (N.shiftl m (N.succ i)).
Proof.
  replace (N.succ_double m) with (N.lor 1 (N.shiftl m 1)) by (destruct m; reflexivity).
  rewrite N.shiftl_lor, N.shiftl_shiftl, N.add_1_l. reflexivity.
Qed.

Lemma nth_error_mid {A : Type} (pre : list A) (x : A) (suf : list A) :
  nth_error (pre ++ x :: suf) (N.to_nat (N.of_nat (length pre))) = Some x.
Proof. rewrite Nat2N.id. induction pre as [|y pre IH]; [reflexivity|exact IH]. Qed.

Lemma length_snoc {A : Type} (pre : list A) (x : A) :
  N.add (N.of_nat (length pre)) 1 = N.of_nat (length (pre ++ [x])).
Proof. rewrite app_length. cbn [length]. lia. Qed.

Section MaskGen.
  Context {A : Type} (eqb : A -> A -> bool).

  (* the loop, started in the middle: [pre] = the part of [child] already matched
     ([child_i = |pre|]), [idx] = position in the parent, [mask] = bits set so far *)
  Lemma mask_loop (child : list A) : forall (it pre suf : list A) (idx mask : N),
    child = pre ++ suf ->
    exists ci, gen_mask_from_subseq_for1 eqb child it idx (N.of_nat (length pre)) mask
             = Next (ci, N.lor mask (N.shiftl (mask_from_subseq eqb suf it) idx)).
  Proof.
    induction it as [|pv ps IH]; intros pre suf idx mask Hc.
    - exists (N.of_nat (length pre)). cbn [gen_mask_from_subseq_for1 mask_from_subseq].
      rewrite N.shiftl_0_l, N.lor_0_r. reflexivity.
    - cbn [gen_mask_from_subseq_for1]. destruct suf as [|cv cs].
      + (* child exhausted: break *)
        assert (length child = length pre) as Hl by (rewrite Hc, app_nil_r; reflexivity).
        match goal with |- context [if ?c then _ else _] => destruct c eqn:Hbrk end; [|exfalso; lia].
        exists (N.of_nat (length pre)). cbn [mask_from_subseq].
        rewrite N.shiftl_0_l, N.lor_0_r. reflexivity.
      + assert (length child = (length pre + S (length cs))%nat) as Hl
          by (rewrite Hc, app_length; reflexivity).
        match goal with |- context [if ?c then _ else _] => destruct c eqn:Hbrk end; [exfalso; lia|].
        assert (nth_error child (N.to_nat (N.of_nat (length pre))) = Some cv) as Hn
          by (rewrite Hc; apply nth_error_mid).
        rewrite Hn. cbn [mask_from_subseq].
        destruct (eqb cv pv).
        * rewrite length_snoc with (x := cv).
          destruct (IH (pre ++ [cv]) cs (N.succ idx) (N.lor mask (N.shiftl 1 idx))) as [ci Hci].
          { rewrite Hc, <- app_assoc. reflexivity. }
          exists ci. rewrite Hci, shiftl_succ_double, N.lor_assoc. reflexivity.
        * destruct (IH pre (cv :: cs) (N.succ idx) mask Hc) as [ci Hci].
          exists ci. rewrite Hci, shiftl_double. reflexivity.
  Qed.

  Theorem gen_mask_from_subseq_eq (child parent : list A) :
    gen_mask_from_subseq eqb child parent = Ok (mask_from_subseq eqb child parent).
  Proof.
    unfold gen_mask_from_subseq. cbv zeta.
    destruct (mask_loop child parent [] child 0%N 0%N eq_refl) as [ci Hci].
    cbn [length N.of_nat] in Hci. rewrite Hci, N.lor_0_l, N.shiftl_0_r. reflexivity.
  Qed.
End MaskGen.

(* ------------------------------------------------------------------ *)
(** * subseq_from_mask *)

Section FromMaskGen.
  Context {A : Type}.

  (* one iteration of the translated [while child:] loop *)
  Lemma while1_S (parent : list A) fuel child acc i : child <> 0%N ->
    gen_subseq_from_mask_while1 parent (S fuel) child acc i =
      if N.odd child
      then match nth_error parent (N.to_nat i) with
           | None => Fail IndexError
           | Some x => gen_subseq_from_mask_while1 parent fuel (N.div2 child) (acc ++ [x]) (N.add i 1)
           end
      else gen_subseq_from_mask_while1 parent fuel (N.div2 child) acc (N.add i 1).
  Proof. intros Hc. destruct child as [|[q|q|]]; [congruence|reflexivity..]. Qed.

  Lemma while1_0 (parent : list A) fuel acc i :
    gen_subseq_from_mask_while1 parent fuel 0%N acc i = Next (0%N, acc, i).
  Proof. destruct fuel; reflexivity. Qed.

  (* past the end of [parent] every non-empty mask ends in IndexError *)
  Lemma while1_oob (parent : list A) : forall (p : positive) fuel acc i,
    (Pos.size_nat p <= fuel)%nat -> (length parent <= N.to_nat i)%nat ->
    gen_subseq_from_mask_while1 parent fuel (Npos p) acc i = Fail IndexError.
  Proof.
    induction p as [q IH|q IH|]; intros fuel acc i Hf Hi;
      (destruct fuel as [|fuel]; [cbn [Pos.size_nat] in Hf; lia|]);
      rewrite while1_S by discriminate; cbn [N.odd N.div2].
    - apply nth_error_None in Hi. rewrite Hi. reflexivity.
    - apply IH; [cbn [Pos.size_nat] in Hf|]; lia.
    - apply nth_error_None in Hi. rewrite Hi. reflexivity.
  Qed.

  Lemma while1_from_pos : forall (p : positive) (pre suf acc : list A) fuel,
    (Pos.size_nat p <= fuel)%nat ->
    exists i', gen_subseq_from_mask_while1 (pre ++ suf) fuel (Npos p) acc (N.of_nat (length pre)) =
      match from_pos p suf with
      | Some l => Next (0%N, acc ++ l, i')
      | None => Fail IndexError
      end.
  Proof.
    induction p as [q IH|q IH|]; intros pre suf acc fuel Hf;
      (destruct fuel as [|fuel]; [cbn [Pos.size_nat] in Hf; lia|]);
      cbn [Pos.size_nat] in Hf; rewrite while1_S by discriminate; cbn [N.odd N.div2];
      destruct suf as [|pv ps]; cbn [from_pos].
    - exists 0%N. rewrite app_nil_r.
      replace (nth_error pre (N.to_nat (N.of_nat (length pre)))) with (@None A); [reflexivity|].
      symmetry. apply nth_error_None. lia.
    - rewrite nth_error_mid, (length_snoc pre pv).
      replace (pre ++ pv :: ps) with ((pre ++ [pv]) ++ ps) by (rewrite <- app_assoc; reflexivity).
      destruct (IH (pre ++ [pv]) ps (acc ++ [pv]) fuel ltac:(lia)) as [i' Hi']. exists i'. rewrite Hi'.
      destruct (from_pos q ps) as [l|]; cbn [option_map]; [rewrite <- app_assoc|]; reflexivity.
    - exists 0%N. apply while1_oob; [lia|]. rewrite app_nil_r. lia.
    - rewrite (length_snoc pre pv).
      replace (pre ++ pv :: ps) with ((pre ++ [pv]) ++ ps) by (rewrite <- app_assoc; reflexivity).
      destruct (IH (pre ++ [pv]) ps acc fuel ltac:(lia)) as [i' Hi']. exists i'. exact Hi'.
    - exists 0%N. rewrite app_nil_r.
      replace (nth_error pre (N.to_nat (N.of_nat (length pre)))) with (@None A); [reflexivity|].
      symmetry. apply nth_error_None. lia.
    - rewrite nth_error_mid, while1_0. eexists. reflexivity.
  Qed.

  Theorem gen_subseq_from_mask_eq (m : N) (parent : list A) :
    gen_subseq_from_mask m parent =
      match subseq_from_mask m parent with Some l => Ok l | None => Err IndexError end.
  Proof.
    unfold gen_subseq_from_mask, subseq_from_mask. cbv zeta. destruct m as [|p].
    - rewrite while1_0. reflexivity.
    - destruct (while1_from_pos p [] parent [] (N.size_nat (Npos p)) (le_n _)) as [i' Hi'].
      cbn [app length N.of_nat] in Hi'. rewrite Hi'.
      destruct (from_pos p parent); reflexivity.
  Qed.
End FromMaskGen.

(* ------------------------------------------------------------------ *)
(** * subseq_segment_dist *)

(* one iteration of the translated [for _ in range(parent.bit_length())] loop *)
Lemma for1_S cnt c p s d :
  gen_subseq_segment_dist_for1 (S cnt) c p s d =
    if N.odd c && negb (N.odd p) then Ret (-1)%Z
    else let '(s', d') := if N.odd p then step (s, d) (N.odd c) else (s, d) in
         gen_subseq_segment_dist_for1 cnt (N.div2 c) (N.div2 p) s' d'.
Proof. destruct c as [|[qc|qc|]], p as [|[qp|qp|]], s; reflexivity. Qed.

Lemma size_nat_digit (q : positive) (b : bool) :
  N.to_nat (N.size (Npos (if b then q~1 else q~0))) = S (N.to_nat (N.size (Npos q))).
Proof. destruct b; cbn [N.size Pos.size]; lia. Qed.

Lemma for1_seg_loop : forall (p : positive) (c : N) (s : bool) (d : Z),
  exists c' p', gen_subseq_segment_dist_for1 (N.to_nat (N.size (Npos p))) c (Npos p) s d =
    match seg_loop p c (s, d) with
    | None => Ret (-1)%Z
    | Some (s', d') => Next (c', p', s', d')
    end.
Proof.
  induction p as [q IH|q IH|]; intros c s d.
  - rewrite (size_nat_digit q true), for1_S. cbn [N.odd N.div2 negb seg_loop].
    rewrite andb_false_r. destruct (step (s, d) (N.odd c)) as [s' d']. apply IH.
  - rewrite (size_nat_digit q false), for1_S. cbn [N.odd N.div2 negb seg_loop].
    rewrite andb_true_r. destruct (N.odd c); [exists 0%N, 0%N; reflexivity|apply IH].
  - change (N.to_nat (N.size 1)) with 1%nat. rewrite for1_S. cbn [N.odd N.div2 negb seg_loop].
    rewrite andb_false_r. destruct (step (s, d) (N.odd c)) as [s' d'].
    eexists. eexists. reflexivity.
Qed.

Theorem gen_subseq_segment_dist_eq (child parent : N) (edges : bool) :
  gen_subseq_segment_dist child parent edges = Ok (seg_dist child parent edges).
Proof.
  unfold gen_subseq_segment_dist, seg_dist. cbv zeta beta.
  destruct (N.ltb (N.size parent) (N.size child)); [reflexivity|].
  destruct parent as [|p].
  - destruct edges; reflexivity.
  - destruct (for1_seg_loop p child (negb edges) 0%Z) as (c' & p' & Hloop). rewrite Hloop.
    destruct (seg_loop p child (negb edges, 0%Z)) as [[s' d']|]; [|reflexivity].
    destruct (s' && negb edges); reflexivity.
Qed.

Print Assumptions gen_subseq_complete_eq.
Print Assumptions gen_mask_from_subseq_eq.
Print Assumptions gen_subseq_from_mask_eq.
Print Assumptions gen_subseq_segment_dist_eq.
