(** Proofs about Model/Wrap.v (C15): the greedy wrapper keeps the words, respects the
    width except for single over-long words; [balanced_wrap] returns a greedy wrapping
    for a width not above the requested one, with the same number of lines and minimal
    badness among the widths it tried. *)
From Coq Require Import String Ascii List Bool Arith Lia.
From SR Require Import Model.Escape Model.Wrap.
Import ListNotations.

(** * joining *)
Lemma join_with_cons : forall sep x r, r <> [] ->
  join_with sep (x :: r) = x ++ sep ++ join_with sep r.
Proof. intros sep x r H. destruct r; [contradiction | reflexivity]. Qed.

Lemma join_with_app : forall sep a b, a <> [] -> b <> [] ->
  join_with sep (a ++ b) = join_with sep a ++ sep ++ join_with sep b.
Proof.
  intros sep a b Ha Hb. induction a as [| x a IH]; [contradiction |].
  destruct a as [| y a].
  - simpl app. rewrite join_with_cons by assumption. reflexivity.
  - change ((x :: y :: a) ++ b) with (x :: ((y :: a) ++ b)).
    rewrite join_with_cons by (simpl; discriminate).
    rewrite IH by discriminate.
    rewrite (join_with_cons sep x (y :: a)) by discriminate.
    rewrite <- !app_assoc. reflexivity.
Qed.

Lemma join_with_snoc : forall sep a x, a <> [] ->
  join_with sep (a ++ [x]) = join_with sep a ++ sep ++ x.
Proof. intros. rewrite join_with_app by (assumption || discriminate). reflexivity. Qed.

Lemma line_len_snoc : forall cur x, cur <> [] ->
  line_len (cur ++ [x]) = line_len cur + 1 + length x.
Proof.
  intros cur x H. unfold line_len, line_text. rewrite join_with_snoc by assumption.
  rewrite !app_length. simpl. lia.
Qed.

(** the text of a wrapping, with the line breaks read as spaces, is the text of its words *)
Lemma join_concat : forall sep (ls : list line), Forall (fun l => l <> []) ls ->
  join_with sep (map (join_with sep) ls) = join_with sep (concat ls).
Proof.
  intros sep ls H. induction H as [| l ls Hl Hls IH]; [reflexivity |].
  destruct ls as [| l2 ls].
  - simpl. rewrite app_nil_r. reflexivity.
  - change (map (join_with sep) (l :: l2 :: ls))
      with (join_with sep l :: map (join_with sep) (l2 :: ls)).
    rewrite join_with_cons by (simpl; discriminate). rewrite IH.
    change (concat (l :: l2 :: ls)) with (l ++ concat (l2 :: ls)).
    assert (Hc : concat (l2 :: ls) <> []).
    { inversion Hls as [| ? ? H2 _]; subst. simpl. destruct l2; [contradiction | discriminate]. }
    rewrite join_with_app by assumption. reflexivity.
Qed.

(** * words of a text *)
Definition word_ok (x : word) : Prop := x <> [] /\ ~ In sp x.

Lemma split_sp_word : forall x, ~ In sp x -> split_sp x = [x].
Proof.
  induction x as [| c x IH]; intro H; [reflexivity |].
  simpl. destruct (Ascii.eqb_spec c sp) as [-> | _].
  - exfalso. apply H. left. reflexivity.
  - rewrite IH by (intro; apply H; right; assumption). reflexivity.
Qed.

Lemma split_sp_app : forall x r, ~ In sp x ->
  split_sp (x ++ sp :: r) = x :: split_sp r.
Proof.
  induction x as [| c x IH]; intros r H.
  - simpl. change (Ascii.eqb sp sp) with true. reflexivity.
  - simpl. destruct (Ascii.eqb_spec c sp) as [-> | _].
    + exfalso. apply H. left. reflexivity.
    + rewrite IH by (intro; apply H; right; assumption). reflexivity.
Qed.

Theorem words_of_join : forall ws, Forall word_ok ws ->
  words_of (join_with [sp] ws) = ws.
Proof.
  unfold words_of. induction 1 as [| x ws [Hne Hsp] Hws IH]; [reflexivity |].
  destruct ws as [| y ws].
  - simpl join_with. rewrite split_sp_word by assumption. simpl.
    destruct x; [contradiction | reflexivity].
  - rewrite join_with_cons by discriminate. simpl app.
    rewrite split_sp_app by assumption. simpl filter.
    destruct x as [| c x]; [contradiction |]. simpl. f_equal. exact IH.
Qed.

(** * the greedy wrapper *)
Lemma greedy_aux_concat : forall w ws cur n,
  concat (greedy_aux w cur n ws) = cur ++ ws.
Proof.
  induction ws as [| x r IH]; intros cur n; simpl.
  - destruct cur; simpl; [reflexivity | rewrite !app_nil_r; reflexivity].
  - destruct cur as [| c cur].
    + rewrite IH. reflexivity.
    + destruct (n + 1 + length x <=? w).
      * rewrite IH, <- app_assoc. reflexivity.
      * simpl. rewrite IH. reflexivity.
Qed.

Theorem greedy_keeps_words : forall w ws, concat (greedy w ws) = ws.
Proof. intros. unfold greedy. rewrite greedy_aux_concat. reflexivity. Qed.

Lemma greedy_aux_nonempty : forall w ws cur n,
  Forall (fun l => l <> []) (greedy_aux w cur n ws).
Proof.
  induction ws as [| x r IH]; intros cur n; simpl.
  - destruct cur; constructor; [discriminate | constructor].
  - destruct cur as [| c cur]; [apply IH |].
    destruct (n + 1 + length x <=? w); [apply IH |].
    constructor; [discriminate | apply IH].
Qed.

Lemma greedy_nonempty : forall w ws, Forall (fun l => l <> []) (greedy w ws).
Proof. intros. apply greedy_aux_nonempty. Qed.

Definition fits (w : nat) (l : line) : Prop := line_len l <= w \/ exists x, l = [x].

Lemma greedy_aux_width : forall w ws cur,
  (cur = [] \/ fits w cur) ->
  Forall (fits w) (greedy_aux w cur (line_len cur) ws).
Proof.
  induction ws as [| x r IH]; intros cur Hc; simpl.
  - destruct cur; constructor; [| constructor].
    destruct Hc as [E | F]; [discriminate | exact F].
  - destruct cur as [| c cur].
    + change (length x) with (line_len [x]). apply IH. right. right. exists x. reflexivity.
    + destruct (Nat.leb_spec (line_len (c :: cur) + 1 + length x) w) as [Hle | Hgt].
      * rewrite <- line_len_snoc by discriminate. apply IH. right. left.
        rewrite line_len_snoc by discriminate. exact Hle.
      * constructor.
        -- destruct Hc as [E | F]; [discriminate | exact F].
        -- change (length x) with (line_len [x]). apply IH. right. right. exists x. reflexivity.
Qed.

(** no line exceeds the width unless it is a single word *)
Theorem greedy_width : forall w ws, Forall (fits w) (greedy w ws).
Proof. intros. unfold greedy. apply (greedy_aux_width w ws []). left. reflexivity. Qed.

(** * the balancing loop *)
(** widths [balanced_wrap] looks at: from the requested one downwards, as long as the
    number of lines stays that of the requested width, never below 1 *)
Definition tried (w0 : nat) (ws : list word) (v : nat) : Prop :=
  1 <= v <= w0 /\ forall u, v <= u <= w0 -> length (greedy u ws) = length (greedy w0 ws).

Lemma bw_loop_spec : forall ws w0 width best bb,
  1 <= width <= w0 ->
  (forall u, width <= u <= w0 -> length (greedy u ws) = length (greedy w0 ws)) ->
  (exists wb, width <= wb <= w0 /\ best = greedy wb ws) ->
  bb = badness best ->
  (forall u, width <= u <= w0 -> bb <= badness (greedy u ws)) ->
  exists w', tried w0 ws w' /\
    bw_loop ws (length (greedy w0 ws)) width best bb = greedy w' ws /\
    forall v, tried w0 ws v -> badness (greedy w' ws) <= badness (greedy v ws).
Proof.
  intros ws w0 width. induction width as [| k IH]; intros best bb Hw Hlen Hbest Hbb Hmin; [lia |].
  simpl. destruct k as [| k].
  - (* width = 1: the loop stops *)
    destruct Hbest as [wb [Hwb ->]]. exists wb. split; [| split].
    + split; [lia |]. intros u Hu. apply Hlen. lia.
    + reflexivity.
    + intros v [Hv _]. rewrite <- Hbb. apply Hmin. lia.
  - destruct (Nat.eqb_spec (length (greedy (S k) ws)) (length (greedy w0 ws))) as [El | Nl].
    + (* same number of lines: go on with the better of the two *)
      assert (Hlen' : forall u, S k <= u <= w0 -> length (greedy u ws) = length (greedy w0 ws)).
      { intros u Hu. destruct (Nat.eq_dec u (S k)) as [-> | Hne]; [exact El | apply Hlen; lia]. }
      destruct (Nat.ltb_spec (badness (greedy (S k) ws)) bb) as [Hlt | Hge].
      * apply IH; [lia | exact Hlen' | exists (S k); split; [lia | reflexivity] | reflexivity |].
        intros u Hu. destruct (Nat.eq_dec u (S k)) as [-> | Hne]; [lia |].
        specialize (Hmin u). lia.
      * apply IH; [lia | exact Hlen' | | exact Hbb |].
        -- destruct Hbest as [wb [Hwb E]]. exists wb. split; [lia | exact E].
        -- intros u Hu. destruct (Nat.eq_dec u (S k)) as [-> | Hne]; [exact Hge |].
           apply Hmin. lia.
    + (* the number of lines changes: the loop breaks *)
      destruct Hbest as [wb [Hwb ->]]. exists wb. split; [| split].
      * split; [lia |]. intros u Hu. apply Hlen. lia.
      * reflexivity.
      * intros v [Hv Hv2]. rewrite <- Hbb. apply Hmin.
        destruct (le_lt_dec (S (S k)) v) as [Hle | Hlt]; [lia |].
        exfalso. apply Nl. apply Hv2. lia.
Qed.

(** the loop returns a greedy wrapping for one of the widths it tried, of minimal badness among them *)
Theorem balanced_wrap_badness : forall w ws, 1 <= w ->
  exists w', tried w ws w' /\
    balanced_wrap_lines w ws = greedy w' ws /\
    forall v, tried w ws v -> badness (balanced_wrap_lines w ws) <= badness (greedy v ws).
Proof.
  intros w ws Hw. unfold balanced_wrap_lines.
  destruct (bw_loop_spec ws w w (greedy w ws) (badness (greedy w ws))) as [w' [Ht [E Hm]]].
  - lia.
  - intros u Hu. replace u with w by lia. reflexivity.
  - exists w. split; [lia | reflexivity].
  - reflexivity.
  - intros u Hu. replace u with w by lia. apply Nat.le_refl.
  - exists w'. rewrite E. auto.
Qed.

Theorem wrap_lines_eq_greedy : forall w ws, 1 <= w ->
  length (balanced_wrap_lines w ws) = length (greedy w ws).
Proof.
  intros w ws Hw. destruct (balanced_wrap_badness w ws Hw) as [w' [[Hr Hl] [E _]]].
  rewrite E. apply Hl. lia.
Qed.

Theorem wrap_keeps_words : forall w ws, 1 <= w -> concat (balanced_wrap_lines w ws) = ws.
Proof.
  intros w ws Hw. destruct (balanced_wrap_badness w ws Hw) as [w' [_ [E _]]].
  rewrite E. apply greedy_keeps_words.
Qed.

Theorem wrap_width : forall w ws, 1 <= w -> Forall (fits w) (balanced_wrap_lines w ws).
Proof.
  intros w ws Hw. destruct (balanced_wrap_badness w ws Hw) as [w' [[Hr _] [E _]]].
  rewrite E. eapply Forall_impl; [| apply greedy_width].
  intros l [H | H]; [left; lia | right; exact H].
Qed.

Lemma wrap_lines_nonempty : forall w ws, 1 <= w -> Forall (fun l => l <> []) (balanced_wrap_lines w ws).
Proof.
  intros w ws Hw. destruct (balanced_wrap_badness w ws Hw) as [w' [_ [E _]]].
  rewrite E. apply greedy_nonempty.
Qed.

Theorem wrap_empty : forall w, balanced_wrap [] w = Some [] /\ greedy w [] = [].
Proof. intro w. split; reflexivity. Qed.

(** * text level: [balanced_wrap] on a text of words *)
Theorem balanced_wrap_text : forall w ws, 1 <= w -> ws <> [] -> Forall word_ok ws ->
  balanced_wrap (join_with [sp] ws) w
  = Some (join_with [nl] (map line_text (balanced_wrap_lines w ws))).
Proof.
  intros w ws Hw Hne Hok. unfold balanced_wrap.
  rewrite (words_of_join ws Hok).
  destruct (join_with [sp] ws) eqn:E.
  - exfalso. destruct ws as [| x r]; [contradiction |].
    inversion Hok as [| ? ? [Hx _] _]; subst.
    destruct r; simpl in E; [contradiction |].
    destruct x; [contradiction | discriminate].
  - destruct w; [lia |]. destruct ws; [contradiction | reflexivity].
Qed.

(** read with spaces for the line breaks, the wrapped text is the original text *)
Theorem wrap_text_keeps_words : forall w ws, 1 <= w ->
  join_with [sp] (map line_text (balanced_wrap_lines w ws)) = join_with [sp] ws.
Proof.
  intros w ws Hw. unfold line_text.
  rewrite join_concat by (apply wrap_lines_nonempty; assumption).
  rewrite wrap_keeps_words by assumption. reflexivity.
Qed.

(** a line of several words contains a space; a single word of the domain does not *)
Lemma fits_text : forall w l, Forall word_ok l -> fits w l ->
  length (line_text l) <= w \/ ~ In sp (line_text l).
Proof.
  intros w l Hok [H | [x ->]]; [left; exact H | right].
  inversion Hok as [| ? ? [_ Hx] _]; subst. exact Hx.
Qed.

Example wrap_example :
  balanced_wrap_s "aa, bb, cc, dd" 9 = Some (String.concat (String "010"%char EmptyString) ["aa, bb,"; "cc, dd"]%string)
  /\ tw_wrap_s "aa, bb, cc, dd" 9 = Some ["aa, bb,"; "cc, dd"]%string
  /\ tw_wrap_s "a bcdefghij k" 3 = Some ["a"; "bcdefghij"; "k"]%string
  /\ balanced_wrap_s "a" 0 = None.
Proof. repeat split. Qed.
