(** Stage 3 of the tie of [Gen/UspfsGen.v], model side and packaging (parts [TableModel] and [TableFinal] of
    Proofs/UspfsGenProofs.v): the table [TableO.utab_o] (enumeration orders of the generated code) against the hand-written
    model [Uspfs.uspfs_table], and the generated [_compute_uspfs_table] against the model's table. *)
From Coq Require Import List Bool Arith ZArith NArith Lia Permutation.
From SR Require Gen.UspfsGen Model.Recon Model.Uspfs Base.PathB Base.Ext Model.Entry Model.LcaRec Model.Thl Proofs.PathFacts Proofs.EntryProofs Proofs.EntryGenProofs Proofs.TableGenProofs Gen.EntryGen Gen.TableGen Gen.EvalGen Proofs.ThlProofs Proofs.UspfsProofs Proofs.ThlGenProofs Proofs.EvalGenProofs Gen.ThlGen Proofs.ReconProofs Proofs.LcaProofs Proofs.UspfsGenCommon Proofs.UspfsGenStatements.

(* ====================================================================== *)
Module TableModel.
(** Stage 3, model side: the table [TableO.utab_o] (species enumerated in the orders of the generated code, lossless flags
    decided on the sets the code holds) agrees with the hand-written model [Uspfs.uspfs_table] cell by cell up to the order of
    enumeration ([esim]: same value, tags empty together, same tags as a set under ALL).  Purely about the two Gallina models.
    One side condition is genuinely needed: [nn (c_hgt c)] -- the code keeps a cell iff its batch has a finite candidate, the
    model iff the value of the cell is finite; with a transfer cost of -inf the two differ.  The leaves need NOT sit at
    species of [S] here (a leaf cell is read the same way by both sides). *)

Import SR.Base.PathB SR.Base.Ext SR.Model.Entry SR.Model.Recon SR.Model.LcaRec SR.Model.Thl SR.Model.Uspfs SR.Proofs.EntryProofs SR.Proofs.ReconProofs SR.Proofs.LcaProofs SR.Proofs.ThlProofs SR.Proofs.UspfsProofs SR.Proofs.ThlGenProofs SR.Proofs.EvalGenProofs.
Import SR.Proofs.UspfsGenCommon.Common SR.Proofs.UspfsGenCommon.ModelO SR.Proofs.UspfsGenCommon.TableO SR.Proofs.UspfsGenStatements.Statements.
Import ListNotations.
Local Open Scope Z_scope.

(* ------------------------------------------------------------------ *)
(** * small facts *)
Lemma gset_mem_In x l : UG.gset_mem N.eqb x l = true <-> In x l.
Proof.
  induction l as [|y l IH]; cbn [UG.gset_mem In]; [split; [discriminate|intros []]|].
  rewrite orb_true_iff, IH, N.eqb_eq. split; intros [H|H]; auto.
Qed.

Lemma gset_subset_spec a b : UG.gset_subset N.eqb a b = true <-> forall x, In x a -> In x b.
Proof.
  unfold UG.gset_subset. rewrite forallb_forall. split; intros H x Hx.
  - apply gset_mem_In. now apply H.
  - apply gset_mem_In. now apply H.
Qed.

(** the comparison of the code on two sets with the members of two sets of the model *)
Lemma gset_subset_sameset a a' b b' : sameset a a' -> sameset b b' -> UG.gset_subset N.eqb a b = subset a' b'.
Proof.
  intros Sa Sb. apply Bool.eq_iff_eq_true. rewrite gset_subset_spec, subset_spec. split; intros H x Hx.
  - apply Sb. apply H. now apply Sa.
  - apply Sb. apply H. now apply Sa.
Qed.

Lemma existsb_path_sameset s l l' : sameset l l' -> existsb (path_eqb s) l = existsb (path_eqb s) l'.
Proof. intros Sl. apply Bool.eq_iff_eq_true. rewrite !existsb_path_In. apply Sl. Qed.

Lemma default_tags_nodup : NoDup (tags (default_entry MIN (T := utag))).
Proof. cbn. constructor. Qed.

Lemma ufirst_write_all_nodup cs : NoDup (tags (ufirst_write RALL cs)).
Proof.
  unfold ufirst_write. destruct (Thl.has_finite cs); [|apply default_tags_nodup].
  apply (entry_tags_all_nodup utag_eqb utag_eqb_spec MIN).
Qed.

Section Post.
  Context {node_id : Type}.
  Notation tree := (EV.TreeNode node_id).
  Lemma post_sub (t u v : tree) : In u (UG.TreeNode_postorder t) -> In v (UG.TreeNode_postorder u) -> In v (UG.TreeNode_postorder t).
  Proof.
    induction t as [i|i a IHa b IHb]; cbn [UG.TreeNode_postorder]; intros Hu Hv.
    - destruct Hu as [<-|[]]. exact Hv.
    - rewrite !in_app_iff in *. destruct Hu as [Hu|[Hu|[<-|[]]]]; [left; eauto|right; left; eauto|].
      cbn [UG.TreeNode_postorder] in Hv. now rewrite !in_app_iff in Hv.
  Qed.
  Lemma self_post (t : tree) : In t (UG.TreeNode_postorder t).
  Proof. destruct t; cbn; [now left|]. rewrite !in_app_iff. right; right. now left. Qed.
End Post.

(* ------------------------------------------------------------------ *)
Section TableModel.
  Context {node_id : Type}.
  Variables (S : stree) (c : costs) (rp : ret) (extended : bool).
  Variables (leafsp : node_id -> path) (syn : node_id -> list fam) (total : fam -> nat) (lev : list path).
  Variables (AS : EV.TreeNode node_id -> list path) (LS : node_id -> list fam).
  Notation tree := (EV.TreeNode node_id).
  Notation cellC := (utab_o S c rp leafsp lev AS LS).
  Notation ot := (otree_of leafsp syn).
  Notation tabM := (utab S c rp extended total).

  Lemma utab_o_leaf i k :
    cellC (EV.TreeNode_leaf i) k = if uassign_eqb k (leafsp i, false) then {| val := Fin 0; tags := [] |} else default_entry MIN.
  Proof. reflexivity. Qed.
  Lemma utab_o_node i a b k :
    cellC (EV.TreeNode_node i a b) k
    = if existsb (path_eqb (fst k)) (AS (EV.TreeNode_node i a b))
      then ucell_o S c rp (fun k' => val (cellC a k')) (fun k' => val (cellC b k'))
             (UG.gset_subset N.eqb (LS i) (LS (EV.TreeNode_id a))) (UG.gset_subset N.eqb (LS i) (LS (EV.TreeNode_id b)))
             (fst k) (snd k) lev
      else default_entry MIN.
  Proof. reflexivity. Qed.

  Hypothesis SIM : ucell_o_sim_statement.
  Hypothesis Hh : nn (c_hgt c).
  Hypothesis H_lev : sameset lev (snodes S).

  (** the two tables, cell by cell, for a tree all of whose nodes satisfy the hypotheses on the callback and on the sets *)
  Lemma table_model t :
    (forall u, In u (UG.TreeNode_postorder t) -> EV.TreeNode_is_leaf u = false -> sameset (AS u) (uallowed S extended (ot u))) ->
    (forall v, In v (UG.TreeNode_postorder t) -> sameset (LS (EV.TreeNode_id v)) (u_lca (annotate total (ot v)))) ->
    forall k, esim rp (cellC t k) (uread (tabM (ot t)) k).
  Proof.
    induction t as [i|i a IHa b IHb]; intros HAS HLS k.
    - rewrite utab_o_leaf. cbn [otree_of]. rewrite utab_leaf. cbn [uread]. apply esim_refl.
    - assert (Ia : forall u, In u (UG.TreeNode_postorder a) -> In u (UG.TreeNode_postorder (EV.TreeNode_node i a b))).
      { intros u Hu. cbn [UG.TreeNode_postorder]. rewrite !in_app_iff. now left. }
      assert (Ib : forall u, In u (UG.TreeNode_postorder b) -> In u (UG.TreeNode_postorder (EV.TreeNode_node i a b))).
      { intros u Hu. cbn [UG.TreeNode_postorder]. rewrite !in_app_iff. right. now left. }
      assert (Ca : forall k', esim rp (cellC a k') (uread (tabM (ot a)) k')).
      { apply IHa; [intros u Hu; apply HAS; auto|intros v Hv; apply HLS; auto]. }
      assert (Cb : forall k', esim rp (cellC b k') (uread (tabM (ot b)) k')).
      { apply IHb; [intros u Hu; apply HAS; auto|intros v Hv; apply HLS; auto]. }
      clear IHa IHb.
      pose proof (HAS _ (self_post _) eq_refl) as Hsp.
      pose proof (HLS _ (self_post _)) as Ht. pose proof (HLS a (Ia a (self_post a))) as Ha.
      pose proof (HLS b (Ib b (self_post b))) as Hb.
      cbn [EV.TreeNode_id] in Ht.
      rewrite utab_o_node.
      rewrite (gset_subset_sameset _ _ _ _ Ht Ha), (gset_subset_sameset _ _ _ _ Ht Hb).
      rewrite (existsb_path_sameset (fst k) _ _ Hsp).
      remember (EV.TreeNode_node i a b) as t eqn:Et.
      assert (Eot : ot t = ONode (ot a) (ot b)) by (subst t; reflexivity).
      rewrite Eot in *. clear Et Hsp.
      fold (uflag total (ONode (ot a) (ot b)) (ot a)). fold (uflag total (ONode (ot a) (ot b)) (ot b)).
      rewrite utab_node, uread_node.
      remember (tabM (ot a)) as Ta eqn:ETa. remember (tabM (ot b)) as Tb eqn:ETb.
      remember (uflag total (ONode (ot a) (ot b)) (ot a)) as la eqn:Ela.
      remember (uflag total (ONode (ot a) (ot b)) (ot b)) as lb eqn:Elb.
      assert (NA : forall k', nn (val (uread Ta k'))) by (subst Ta; apply utab_nn; exact Hh).
      assert (NB : forall k', nn (val (uread Tb k'))) by (subst Tb; apply utab_nn; exact Hh).
      (* the cell of the code against the cell of the model *)
      assert (Hcell : esim rp (ucell_o S c rp (fun k' => val (cellC a k')) (fun k' => val (cellC b k')) la lb (fst k) (snd k) lev)
                              (ucell S c rp Ta Tb la lb (fst k) (snd k))).
      { rewrite (ucell_o_eq S c rp Ta Tb la lb (fst k) (snd k)). apply SIM; [exact H_lev| |].
        - intros k' _. exact (proj1 (Ca k')).
        - intros k' _. exact (proj1 (Cb k')). }
      destruct (existsb (path_eqb (fst k)) (uallowed S extended (ONode (ot a) (ot b)))); cbn [andb]; [|apply esim_refl].
      destruct (ext_is_inf (val (ucell S c rp Ta Tb la lb (fst k) (snd k)))) eqn:F; cbn [negb]; [|exact Hcell].
      (* allowed but infinite: the model drops the row; the code holds an entry of infinite value without a tag *)
      assert (Ev : val (ucell S c rp Ta Tb la lb (fst k) (snd k)) = PInf).
      { apply nn_inf_PInf; [|exact F]. apply ucell_nn; assumption. }
      assert (Et : tags (ucell S c rp Ta Tb la lb (fst k) (snd k)) = []).
      { destruct (tags (ucell S c rp Ta Tb la lb (fst k) (snd k))) as [|[l r] tl] eqn:E; [reflexivity|]. exfalso.
        destruct (ucell_tag_sound S c rp Ta Tb la lb (fst k) (snd k) Hh NA NB l r) as [_ [_ [F' _]]]; [rewrite E; now left|].
        congruence. }
      destruct Hcell as [V [N A]]. split; [|split].
      + rewrite V, Ev. reflexivity.
      + cbn [default_entry tags]. split; [reflexivity|]. intros _. now apply N.
      + intros R. rewrite Et in A. cbn [default_entry tags]. exact (A R).
  Qed.

  Variable O : tree.
  Hypothesis H_AS : forall u, In u (UG.TreeNode_postorder O) -> EV.TreeNode_is_leaf u = false -> sameset (AS u) (uallowed S extended (ot u)).
  Hypothesis H_LS : forall v, In v (UG.TreeNode_postorder O) -> sameset (LS (EV.TreeNode_id v)) (u_lca (annotate total (ot v))).

  Lemma utab_o_model_sec u : In u (UG.TreeNode_postorder O) -> forall k,
    esim rp (cellC u k) (uread (uspfs_table S c rp extended (ot u) (annotate total (ot u))) k).
  Proof.
    intros Hu k. apply (table_model u).
    - intros v Hv. apply H_AS. eapply post_sub; eauto.
    - intros v Hv. apply H_LS. eapply post_sub; eauto.
  Qed.
End TableModel.

(** TM1: every cell of the table of the code is the model's cell up to the order of enumeration *)
Theorem utab_o_model : ucell_o_sim_statement ->
  forall {node_id} S c rp extended (leafsp : node_id -> path) syn (total : fam -> nat) lev
         (AS : EV.TreeNode node_id -> list path) (LS : node_id -> list fam) (O : EV.TreeNode node_id),
  nn (c_hgt c) -> sameset lev (snodes S) ->
  (forall u, In u (UG.TreeNode_postorder O) -> EV.TreeNode_is_leaf u = false ->
     sameset (AS u) (uallowed S extended (otree_of leafsp syn u))) ->
  (forall v, In v (UG.TreeNode_postorder O) ->
     sameset (LS (EV.TreeNode_id v)) (u_lca (annotate total (otree_of leafsp syn v)))) ->
  forall u, In u (UG.TreeNode_postorder O) -> forall k,
    esim rp (utab_o S c rp leafsp lev AS LS u k)
            (uread (uspfs_table S c rp extended (otree_of leafsp syn u) (annotate total (otree_of leafsp syn u))) k).
Proof.
  intros SIM node_id S c rp extended leafsp syn total lev AS LS O Hh Hlev HAS HLS u Hu k.
  exact (utab_o_model_sec S c rp extended leafsp syn total lev AS LS SIM Hh Hlev O HAS HLS u Hu k).
Qed.

Section Corollaries.
  Context {node_id : Type}.
  Variables (S : stree) (c : costs) (extended : bool).
  Variables (leafsp : node_id -> path) (syn : node_id -> list fam) (total : fam -> nat) (lev : list path).
  Variables (AS : EV.TreeNode node_id -> list path) (LS : node_id -> list fam) (O : EV.TreeNode node_id).
  Notation ot := (otree_of leafsp syn).
  Hypothesis SIM : ucell_o_sim_statement.
  Hypothesis Hh : nn (c_hgt c).
  Hypothesis H_lev : sameset lev (snodes S).
  Hypothesis H_AS : forall u, In u (UG.TreeNode_postorder O) -> EV.TreeNode_is_leaf u = false -> sameset (AS u) (uallowed S extended (ot u)).
  Hypothesis H_LS : forall v, In v (UG.TreeNode_postorder O) -> sameset (LS (EV.TreeNode_id v)) (u_lca (annotate total (ot v))).

  Corollary utab_o_model_val rp u k : In u (UG.TreeNode_postorder O) ->
    val (utab_o S c rp leafsp lev AS LS u k) = val (uread (uspfs_table S c rp extended (ot u) (annotate total (ot u))) k).
  Proof. intros Hu. exact (proj1 (utab_o_model SIM S c rp extended leafsp syn total lev AS LS O Hh H_lev H_AS H_LS u Hu k)). Qed.

  Corollary utab_o_model_tags_empty rp u k : In u (UG.TreeNode_postorder O) ->
    (tags (utab_o S c rp leafsp lev AS LS u k) = [] <-> tags (uread (uspfs_table S c rp extended (ot u) (annotate total (ot u))) k) = []).
  Proof. intros Hu. exact (proj1 (proj2 (utab_o_model SIM S c rp extended leafsp syn total lev AS LS O Hh H_lev H_AS H_LS u Hu k))). Qed.

  (** under ALL both sides are duplicate-free *)
  Lemma utab_o_all_nodup t k : NoDup (tags (utab_o S c RALL leafsp lev AS LS t k)).
  Proof.
    destruct t as [i|i a b].
    - rewrite utab_o_leaf. destruct (uassign_eqb k _); cbn; constructor.
    - rewrite utab_o_node. destruct (existsb _ _); [|apply default_tags_nodup]. unfold ucell_o. apply ufirst_write_all_nodup.
  Qed.

  Lemma uread_all_nodup o k : NoDup (tags (uread (uspfs_table S c RALL extended o (annotate total o)) k)).
  Proof.
    fold (utab S c RALL extended total o). destruct o as [sp sy|a b].
    - rewrite utab_leaf. cbn [uread]. destruct (uassign_eqb k _); cbn; constructor.
    - rewrite utab_node, uread_node. destruct (_ && _); [|apply default_tags_nodup].
      rewrite ucell_eq. apply ufirst_write_all_nodup.
  Qed.

  Corollary utab_o_model_tags_perm u k : In u (UG.TreeNode_postorder O) ->
    Permutation (tags (utab_o S c RALL leafsp lev AS LS u k))
                (tags (uread (uspfs_table S c RALL extended (ot u) (annotate total (ot u))) k)).
  Proof.
    intros Hu. apply NoDup_Permutation; [apply utab_o_all_nodup|apply uread_all_nodup|].
    exact (proj2 (proj2 (utab_o_model SIM S c RALL extended leafsp syn total lev AS LS O Hh H_lev H_AS H_LS u Hu k)) eq_refl).
  Qed.
End Corollaries.

Print Assumptions utab_o_model.
Print Assumptions utab_o_model_val.
Print Assumptions utab_o_model_tags_empty.
Print Assumptions utab_o_model_tags_perm.
End TableModel.

(* ====================================================================== *)
Module TableFinal.
(** Stage 3, packaged: the table the generated [_compute_uspfs_table] builds against [Uspfs.uspfs_table]: every cell has
    the model's value for every retention policy, empty tags exactly when the model's are, and under ALL the model's tags up
    to a permutation.  Generic in the species callback; instance for the callback of [usreconcile_extended_uspfs].
    The two statements of [Proofs/UspfsGenStatements.v] the proof rests on ([ucell_o_sim_statement], [table_eq_statement])
    are PREMISES of the theorems (proved in their own parts). *)

Import SR.Base.PathB SR.Base.Ext SR.Model.Entry SR.Model.Recon SR.Model.LcaRec SR.Model.Thl SR.Model.Uspfs SR.Proofs.PathFacts SR.Proofs.EntryProofs SR.Proofs.EntryGenProofs SR.Proofs.EvalGenProofs SR.Proofs.TableGenProofs SR.Proofs.ReconProofs SR.Proofs.ThlProofs SR.Proofs.LcaProofs SR.Proofs.UspfsProofs SR.Proofs.ThlGenProofs.
Import SR.Proofs.UspfsGenCommon.Common SR.Proofs.UspfsGenCommon.ModelO SR.Proofs.UspfsGenCommon.TableO SR.Proofs.UspfsGenCommon.Embed SR.Proofs.UspfsGenStatements.Statements.
Import TableModel.
Import ListNotations.
Local Open Scope Z_scope.

Section Final3.
  Context {lca node_id : Type} (nid_eqb : node_id -> node_id -> bool).
  Variable lcaobj : lca.
  Variables (S : stree) (c : costs) (leafsp : node_id -> path) (syn : node_id -> list fam) (O : EV.TreeNode node_id).
  Notation tree := (EV.TreeNode node_id).
  Notation DIST := (fun (_ : lca) => dist).
  Notation ANC := (fun (_ : lca) => anc).
  Notation ST := (sembed3 S []).
  Notation oids l := (map (@EV.TreeNode_id node_id) l).
  Notation ot := (otree_of leafsp syn).
  Notation gsem3 := (gsem3 nid_eqb).

  (** the species callback of [usreconcile_extended_uspfs]: every species, in post-order *)
  Definition species_ext (species : @UG.STree path) (_ : tree) : list (@UG.STree path) := UG.STree_postorder species.

  (** what [lca_sets[node]] answers ([[]] for a missing key: never read under the hypotheses below) *)
  Definition LS_of (lsets : list (node_id * list fam)) (i : node_id) : list fam :=
    match UG.dict_get nid_eqb lsets i with Some l => l | None => [] end.

  (** ** well-formed inputs (not needed by the theorems below; for the callback of the base variant, whose species
      [root (lca_rec (ot u))] is a species of [S] only when the leaves sit at species of [S]) *)
  Definition leaves_valid (t : tree) : Prop :=
    forall i, In (EV.TreeNode_leaf i) (UG.TreeNode_postorder t) -> valid_sp S (leafsp i) = true.

  Lemma leaves_ok_sub (t u : tree) : leaves_valid t -> In u (UG.TreeNode_postorder t) -> leaves_ok S (ot u).
  Proof.
    intros Hl Hu. assert (Hlu : leaves_valid u) by (intros j Hj; apply Hl; eapply post_sub; eauto). clear Hl Hu.
    induction u as [i|i a IHa b IHb]; cbn [otree_of leaves_ok].
    - apply Hlu. cbn. now left.
    - split; [apply IHa|apply IHb]; intros j Hj; apply Hlu; cbn [UG.TreeNode_postorder]; rewrite !in_app_iff; [now left|right; now left].
  Qed.

  (** ** Stage 3: every cell of the generated table against the model's table, for any species callback that allows, at
      every internal node, the species of the model (as a set) as distinct nodes standing for species of [S], and any
      dictionary of LCA sets holding, for every object node, the members of the model's LCA set *)
  Theorem gen_compute_uspfs_table_model :
    ucell_o_sim_statement -> table_eq_statement nid_eqb lcaobj ->
    forall (extended : bool) (AS : @UG.STree path -> tree -> list (@UG.STree path)) (rp : ret) (lsets : list (node_id * list fam)),
    nn (c_hgt c) -> NoDup (oids (UG.TreeNode_postorder O)) ->
    (forall u, In u (UG.TreeNode_postorder O) -> EV.TreeNode_is_leaf u = false -> allowed_ok S ST AS u) ->
    (forall u, In u (UG.TreeNode_postorder O) -> EV.TreeNode_is_leaf u = false ->
       sameset (sids3 (AS ST u)) (uallowed S extended (ot u))) ->
    (forall v, In v (UG.TreeNode_postorder O) ->
       exists l, UG.dict_get nid_eqb lsets (EV.TreeNode_id v) = Some l /\ sameset l (u_lca (annotate (ototal (ot O)) (ot v)))) ->
    exists tb,
      UG.gen_compute_uspfs_table N.eqb path_eqb nid_eqb ANC DIST (fun _ => ST) (EV.mk_sin O lcaobj leafsp (stsocc c) syn) lsets AS (prc rp)
        = UG.Ok tb /\
      inv3 rp tb /\
      forall u, In u (UG.TreeNode_postorder O) -> forall s k,
        let cellM := uread (uspfs_table S c rp extended (ot u) (annotate (ototal (ot O)) (ot u))) (s, k) in
        val (gsem3 tb (EV.TreeNode_id u) s k) = val cellM /\
        (tags (gsem3 tb (EV.TreeNode_id u) s k) = [] <-> tags cellM = []) /\
        (rp = RALL -> exists l, tags (gsem3 tb (EV.TreeNode_id u) s k) = map tag_ca l /\ Permutation l (tags cellM)).
  Proof.
    intros SIM TEQ extended AS rp lsets Hh ND Hok Hmodel Hsets.
    assert (HLS : forall v, In v (UG.TreeNode_postorder O) ->
              UG.dict_get nid_eqb lsets (EV.TreeNode_id v) = Some (LS_of lsets (EV.TreeNode_id v)) /\
              sameset (LS_of lsets (EV.TreeNode_id v)) (u_lca (annotate (ototal (ot O)) (ot v)))).
    { intros v Hv. destruct (Hsets v Hv) as [l [E Hl]]. unfold LS_of. rewrite E. auto. }
    destruct (TEQ rp S c ST leafsp syn O AS lsets (LS_of lsets) ND Hok (fun u Hu => proj1 (HLS u Hu))) as [tb [E [I [Hc _]]]].
    exists tb. split; [exact E|]. split; [exact I|]. intros u Hu s k cellM.
    rewrite (Hc u Hu s k). cbn [emap val tags].
    assert (Hlev : sameset (sids3 (UG.STree_levelorder ST)) (snodes S)) by apply lev_sameset.
    assert (HLS2 : forall v, In v (UG.TreeNode_postorder O) ->
              sameset (LS_of lsets (EV.TreeNode_id v)) (u_lca (annotate (ototal (ot O)) (ot v)))) by (intros v Hv; apply HLS; exact Hv).
    split; [|split].
    - exact (utab_o_model_val S c extended leafsp syn (ototal (ot O)) _ (fun v => sids3 (AS ST v)) (LS_of lsets) O
               SIM Hh Hlev Hmodel HLS2 rp u (s, k) Hu).
    - pose proof (utab_o_model_tags_empty S c extended leafsp syn (ototal (ot O)) _ (fun v => sids3 (AS ST v)) (LS_of lsets) O
               SIM Hh Hlev Hmodel HLS2 rp u (s, k) Hu) as [H1 H2].
      split; [intros H; apply H1; now apply map_eq_nil in H|intros H; now rewrite (H2 H)].
    - intros ->. eexists. split; [reflexivity|].
      exact (utab_o_model_tags_perm S c extended leafsp syn (ototal (ot O)) _ (fun v => sids3 (AS ST v)) (LS_of lsets) O
               SIM Hh Hlev Hmodel HLS2 u (s, k) Hu).
  Qed.

  (** ** the extended variant: every species, in post-order *)
  Theorem gen_compute_uspfs_table_extended :
    ucell_o_sim_statement -> table_eq_statement nid_eqb lcaobj ->
    forall (rp : ret) (lsets : list (node_id * list fam)),
    nn (c_hgt c) -> NoDup (oids (UG.TreeNode_postorder O)) ->
    (forall v, In v (UG.TreeNode_postorder O) ->
       exists l, UG.dict_get nid_eqb lsets (EV.TreeNode_id v) = Some l /\ sameset l (u_lca (annotate (ototal (ot O)) (ot v)))) ->
    exists tb,
      UG.gen_compute_uspfs_table N.eqb path_eqb nid_eqb ANC DIST (fun _ => ST) (EV.mk_sin O lcaobj leafsp (stsocc c) syn) lsets species_ext (prc rp)
        = UG.Ok tb /\
      inv3 rp tb /\
      forall u, In u (UG.TreeNode_postorder O) -> forall s k,
        let cellM := uread (uspfs_table S c rp true (ot u) (annotate (ototal (ot O)) (ot u))) (s, k) in
        val (gsem3 tb (EV.TreeNode_id u) s k) = val cellM /\
        (tags (gsem3 tb (EV.TreeNode_id u) s k) = [] <-> tags cellM = []) /\
        (rp = RALL -> exists l, tags (gsem3 tb (EV.TreeNode_id u) s k) = map tag_ca l /\ Permutation l (tags cellM)).
  Proof.
    intros SIM TEQ rp lsets Hh ND Hsets.
    apply (gen_compute_uspfs_table_model SIM TEQ true species_ext rp lsets Hh ND); [| |exact Hsets].
    - intros u _ _. split; [intros rs; apply post_rs_ok|apply post_nodup].
    - intros u _ _. exact (post_sameset S).
  Qed.
End Final3.

Print Assumptions gen_compute_uspfs_table_model.
Print Assumptions gen_compute_uspfs_table_extended.

(** * Non-vacuity: a concrete instance satisfying the hypotheses, with the generated code evaluated *)
Module Example3.
  Definition S1 : stree := SNode SLeaf (SNode SLeaf SLeaf).
  Definition O1 : EV.TreeNode nat := EV.TreeNode_node 0%nat (EV.TreeNode_leaf 1%nat) (EV.TreeNode_node 2%nat (EV.TreeNode_leaf 3%nat) (EV.TreeNode_leaf 4%nat)).
  Definition leafsp1 (i : nat) : path := match i with 1%nat => [false] | 3%nat => [true; false] | _ => [true; true] end.
  Definition syn1 (i : nat) : list fam := match i with 1%nat => [1; 2]%N | 3%nat => [2; 3]%N | _ => [1; 3]%N end.
  Definition c1 : costs := {| c_spe := 0; c_dup := 1; c_hgt := Fin 1; c_floss := 1; c_sloss := 1 |}.
  (** the dictionary of LCA sets, as a literal (the members of the model's sets, listed in another order) *)
  Definition lsets1 : list (nat * list fam) :=
    [(0%nat, [2; 1]%N); (2%nat, [3; 1; 2]%N); (4%nat, [3; 1]%N); (3%nat, [2; 3]%N); (1%nat, [2; 1]%N)].

  Lemma sameset_dec (a b : list fam) : UG.gset_subset N.eqb a b = true -> UG.gset_subset N.eqb b a = true -> sameset a b.
  Proof. intros H1 H2 x. split; [apply (proj1 (gset_subset_spec a b) H1)|apply (proj1 (gset_subset_spec b a) H2)]. Qed.

  Example hyps :
    nn (c_hgt c1) /\ NoDup (map (@EV.TreeNode_id nat) (UG.TreeNode_postorder O1)) /\
    (forall v, In v (UG.TreeNode_postorder O1) ->
       exists l, UG.dict_get Nat.eqb lsets1 (EV.TreeNode_id v) = Some l /\
                 sameset l (u_lca (annotate (ototal (otree_of leafsp1 syn1 O1)) (otree_of leafsp1 syn1 v)))).
  Proof.
    split; [discriminate|]. split.
    - cbn. repeat constructor; cbn; intuition congruence.
    - intros v H. cbn in H.
      repeat (destruct H as [H|H]; [subst v; eexists; split; [vm_compute; reflexivity|apply sameset_dec; vm_compute; reflexivity]|]).
      destruct H.
  Qed.

  Definition table1 (rp : ret) :=
    UG.gen_compute_uspfs_table N.eqb path_eqb Nat.eqb (fun (_ : unit) => anc) (fun _ => dist) (fun _ => sembed3 S1 [])
      (EV.mk_sin O1 tt leafsp1 (stsocc c1) syn1) lsets1 species_ext (prc rp).

  (** the packaged theorem on this instance: its hypotheses hold *)
  Example extended_instance : ucell_o_sim_statement -> table_eq_statement Nat.eqb tt -> forall rp,
    exists tb, table1 rp = UG.Ok tb /\ inv3 rp tb /\
      forall s k, val (gsem3 Nat.eqb tb 0%nat s k)
                  = val (uread (uspfs_table S1 c1 rp true (otree_of leafsp1 syn1 O1) (annotate_top (otree_of leafsp1 syn1 O1))) (s, k)).
  Proof.
    intros SIM TEQ rp. destruct hyps as [Hh [ND Hs]].
    destruct (gen_compute_uspfs_table_extended Nat.eqb tt S1 c1 leafsp1 syn1 O1 SIM TEQ rp lsets1 Hh ND Hs) as [tb [E [I Hc]]].
    exists tb. split; [exact E|]. split; [exact I|]. intros s k.
    exact (proj1 (Hc O1 (self_post O1) s k)).
  Qed.

  (** the generated code, run: the root cell at the root species and the kind LCA has the model's value and (here) as many
      tags as the model's *)
  Example run_all :
    match table1 RALL with
    | UG.Ok tb => let e := gsem3 Nat.eqb tb 0%nat [] false in
                  let eM := uread (uspfs_table S1 c1 RALL true (otree_of leafsp1 syn1 O1) (annotate_top (otree_of leafsp1 syn1 O1))) ([], false) in
                  ext_eqb (val e) (val eM) && Nat.eqb (length (tags e)) (length (tags eM)) && negb (ext_is_inf (val e))
    | UG.Err _ => false
    end = true.
  Proof. vm_compute. reflexivity. Qed.

  (** every cell of every object node, at every species of [S1] and both kinds, for the three retention policies: the
      value of the model, and as many tags *)
  Definition cells_agree (rp : ret) : bool :=
    match table1 rp with
    | UG.Ok tb =>
        forallb (fun u => forallb (fun s => forallb (fun k =>
          let e := gsem3 Nat.eqb tb (EV.TreeNode_id u) s k in
          let eM := uread (uspfs_table S1 c1 rp true (otree_of leafsp1 syn1 u)
                             (annotate (ototal (otree_of leafsp1 syn1 O1)) (otree_of leafsp1 syn1 u))) (s, k) in
          ext_eqb (val e) (val eM) && Nat.eqb (length (tags e)) (length (tags eM))) [false; true]) (snodes S1))
          (UG.TreeNode_postorder O1)
    | UG.Err _ => false
    end.
  Example run_cells : cells_agree RNONE && cells_agree RANY && cells_agree RALL = true.
  Proof. vm_compute. reflexivity. Qed.
End Example3.
End TableFinal.
