(** review C, item 12 *)
From Coq Require Import List Bool Arith ZArith NArith Lia.
From SR Require Import Base.PathB Base.Ext Model.Subseq Model.Recon
  Proofs.SubseqProofs Proofs.PathFacts Proofs.ReconProofs Proofs.LabelCostProofs Proofs.SpfsProofs.
Import ListNotations.
Local Open Scope Z_scope.

Module PartD.

(* every leaf of the input tree carries at least one family *)
Fixpoint leaves_nonempty (o : otree) : Prop :=
  match o with
  | OLeaf _ syn => syn <> []
  | ONode a b => leaves_nonempty a /\ leaves_nonempty b
  end.

(* non-emptiness travels up: a child synteny is a subsequence of its parent's *)
Theorem valid_lab_lsyn_nonempty : forall S O t,
  valid_lab S O t -> leaves_nonempty O -> lsyn t <> [].
Proof.
  intros S O t V. induction V as [sp syn V|a b s y la lb V E Sa Sb Va IHa Vb IHb]; intros L.
  - exact L.
  - destruct L as [La _]. cbn [lsyn]. intros Hy. subst y. apply (IHa La).
    now apply Subseq_nil_inv.
Qed.
Print Assumptions valid_lab_lsyn_nonempty.

(* the bridging theorem: validity + non-empty leaf syntenies give [well_ordered] *)
Theorem valid_lab_well_ordered : forall S O t,
  valid_lab S O t -> leaves_nonempty O -> well_ordered t.
Proof.
  intros S O t V. induction V as [sp syn V|a b s y la lb V E Sa Sb Va IHa Vb IHb]; intros L.
  - exact I.
  - destruct L as [La Lb]. cbn [well_ordered].
    split; [exact E|]. split; [eapply valid_lab_lsyn_nonempty; eauto|].
    split; [eapply valid_lab_lsyn_nonempty; eauto|].
    split; [exact Sa|]. split; [exact Sb|]. split; [now apply IHa|now apply IHb].
Qed.
Print Assumptions valid_lab_well_ordered.

(* the hypothesis is necessary below an internal node *)
Theorem well_ordered_leaves_nonempty : forall S a b t,
  valid_lab S (ONode a b) t -> well_ordered t -> leaves_nonempty (ONode a b).
Proof.
  assert (H : forall S O t, valid_lab S O t -> well_ordered t -> lsyn t <> [] -> leaves_nonempty O).
  { intros S O t V. induction V as [sp syn V|a b s y la lb V E Sa Sb Va IHa Vb IHb]; intros W N.
    - exact N.
    - cbn [well_ordered] in W. destruct W as [_ [Na [Nb [_ [_ [Wa Wb]]]]]].
      split; [now apply IHa|now apply IHb]. }
  intros S a b t V W. inversion V as [|a' b' s y la lb Vs E Sa Sb Va Vb]; subst.
  cbn [well_ordered] in W. destruct W as [_ [Na [Nb [_ [_ [Wa Wb]]]]]].
  split; [eapply H; eauto|eapply H; eauto].
Qed.
Print Assumptions well_ordered_leaves_nonempty.

(* the input hypothesis of the ordered solver implies ours *)
Theorem leaves_ord_nonempty : forall S ord O, leaves_ord S ord O -> leaves_nonempty O.
Proof.
  intros S ord O. induction O as [sp syn|a IHa b IHb]; cbn [leaves_ord leaves_nonempty].
  - intros [_ [N _]]. exact N.
  - intros [La Lb]. split; auto.
Qed.
Print Assumptions leaves_ord_nonempty.

(* recount for every valid labelled solution with non-empty leaf syntenies and a duplicate-free
   root order *)
Theorem c06_ordered_recount_valid : forall c S O t,
  valid_lab S O t -> leaves_nonempty O -> NoDup (lsyn t) ->
  ordered_labeling_cost c t = Some (c_sloss c * olab_spec t).
Proof.
  intros c S O t V L ND. apply ordered_labeling_recount; [exact ND|].
  eapply valid_lab_well_ordered; eauto.
Qed.
Print Assumptions c06_ordered_recount_valid.

Theorem c06_ordered_recount_valid_ordered : forall c S ord O t,
  NoDup ord -> valid_ordered S ord O t -> leaves_nonempty O ->
  ordered_labeling_cost c t = Some (c_sloss c * olab_spec t).
Proof.
  intros c S ord O t ND [V E] L. eapply c06_ordered_recount_valid; eauto. now rewrite E.
Qed.
Print Assumptions c06_ordered_recount_valid_ordered.

(* number of losses on a branch = length of the species path below *)
Theorem c06_chain_length : forall s d, length (chain s d) = length d.
Proof. exact chain_length. Qed.
Print Assumptions c06_chain_length.

(* non-vacuity: the labelled tree of [C06_example] *)
Example partD_example :
  let S := SNode (SNode SLeaf SLeaf) SLeaf in
  let O := ONode (ONode (OLeaf [false; false] [1;2]%N) (OLeaf [false; true] [2;3]%N)) (OLeaf [true] [1;3]%N) in
  let t := LNode [] [1;2;3]%N (LNode [false] [1;2;3]%N (LLeaf [false; false] [1;2]%N) (LLeaf [false; true] [2;3]%N))
                 (LLeaf [true] [1;3]%N) in
  valid_lab S O t /\ leaves_nonempty O /\ NoDup (lsyn t).
Proof.
  cbv zeta. split; [|split].
  - repeat (constructor; try reflexivity; try discriminate).
  - cbn. repeat split; discriminate.
  - repeat constructor; simpl; intuition discriminate.
Qed.
Print Assumptions partD_example.

End PartD.
