(** review C, item 9: the speciation-cost bound of C07 is needed *)
From Coq Require Import String Ascii List Bool Arith ZArith Lia.
From SR Require Import Base.PathB Base.Ext Model.Recon Model.LcaRec
  Proofs.PathFacts Proofs.ReconProofs Proofs.LcaProofs.
Import ListNotations.
Module PartE.
Local Open Scope Z_scope.

(** The hypothesis [c_spe c <= c_dup c + 2 * c_floss c] of [C07_lca_optimal*] cannot be dropped.
    The event of a node is derived from the mapping ([event]): the LCA reconciliation makes every
    node a speciation whenever it can, and a dear speciation is avoided by mapping the node higher,
    as a duplication followed by losses. *)

(** ** Witness 1: one cherry below the root.  Species tree ((A,B),C), object tree (a:A, b:B). *)
Definition S1 : stree := SNode (SNode SLeaf SLeaf) SLeaf.
Definition O1 : otree := ONode (OLeaf [false; false] []) (OLeaf [false; true] []).
(* LCA: the root at (A,B), a speciation *)
Definition rl1 : rtree := RNode [false] (RLeaf [false; false]) (RLeaf [false; true]).
(* the alternative: the root at the species root, a duplication with four losses *)
Definition r1 : rtree := RNode [] (RLeaf [false; false]) (RLeaf [false; true]).
Definition c1 : costs := {| c_spe := 10; c_dup := 1; c_hgt := PInf; c_floss := 1; c_sloss := 1 |}.

Lemma O1_leaves_ok : leaves_ok S1 O1.
Proof. simpl. split; reflexivity. Qed.
Lemma r1_valid : valid_rec S1 O1 r1.
Proof.
  apply v_node; [reflexivity | vm_compute; discriminate | apply v_leaf; reflexivity ..].
Qed.
Lemma r1_no_transfer : no_transfer r1.
Proof. simpl. split; [right; vm_compute; reflexivity | split; exact I]. Qed.

(* every hypothesis of C07_lca_optimal and of C07_lca_optimal_all (the transfer cost is infinite)
   but the bound on the speciation cost; the conclusion fails *)
Example c07_spe_needed :
  0 <= c_dup c1 /\ 0 <= c_floss c1 /\ 0 <= c_sloss c1 /\ c_hgt c1 = PInf /\
  c_spe c1 > c_dup c1 + 2 * c_floss c1 /\
  leaves_ok S1 O1 /\ valid_rec S1 O1 r1 /\ no_transfer r1 /\
  lca_rec O1 = rl1 /\
  cost c1 O1 r1 = Fin 5 /\ cost c1 O1 (lca_rec O1) = Fin 10 /\
  ext_ltb (cost c1 O1 r1) (cost c1 O1 (lca_rec O1)) = true /\
  ~ ele (cost c1 O1 (lca_rec O1)) (cost c1 O1 r1).
Proof.
  split; [vm_compute; discriminate |]. split; [vm_compute; discriminate |].
  split; [vm_compute; discriminate |]. split; [reflexivity |]. split; [vm_compute; reflexivity |].
  split; [exact O1_leaves_ok |]. split; [exact r1_valid |]. split; [exact r1_no_transfer |].
  split; [vm_compute; reflexivity |]. split; [vm_compute; reflexivity |].
  split; [vm_compute; reflexivity |]. split; [vm_compute; reflexivity |].
  unfold ele. vm_compute. discriminate.
Qed.
Print Assumptions c07_spe_needed.

(* the statement of C07_lca_optimal without the bound on c_spe is false *)
Theorem c07_optimal_without_spe_bound_false :
  ~ (forall c S O r, 0 <= c_dup c -> 0 <= c_floss c ->
       leaves_ok S O -> valid_rec S O r -> no_transfer r ->
       ele (cost c O (lca_rec O)) (cost c O r)).
Proof.
  intros H.
  assert (K : ele (cost c1 O1 (lca_rec O1)) (cost c1 O1 r1)).
  { apply (H c1 S1 O1 r1); [vm_compute; discriminate | vm_compute; discriminate
      | exact O1_leaves_ok | exact r1_valid | exact r1_no_transfer]. }
  unfold ele in K. vm_compute in K. discriminate.
Qed.
Print Assumptions c07_optimal_without_spe_bound_false.

(* the same for C07_lca_optimal_all (no transfer-freeness hypothesis, infinite transfer cost) *)
Theorem c07_optimal_all_without_spe_bound_false :
  ~ (forall c S O r, 0 <= c_dup c -> 0 <= c_floss c -> c_hgt c = PInf ->
       leaves_ok S O -> valid_rec S O r ->
       ele (cost c O (lca_rec O)) (cost c O r)).
Proof.
  intros H.
  assert (K : ele (cost c1 O1 (lca_rec O1)) (cost c1 O1 r1)).
  { apply (H c1 S1 O1 r1); [vm_compute; discriminate | vm_compute; discriminate | reflexivity
      | exact O1_leaves_ok | exact r1_valid]. }
  unfold ele in K. vm_compute in K. discriminate.
Qed.
Print Assumptions c07_optimal_all_without_spe_bound_false.

(* the LCA reconciliation is not the minimum of the model's own enumeration of all valid
   reconciliations ([all_recs], complete by ReconProofs.all_recs_spec) *)
Example c07_spe_needed_enum :
  In r1 (all_recs S1 O1) /\
  forallb (fun r => ext_leb (cost c1 O1 (lca_rec O1)) (cost c1 O1 r)) (all_recs S1 O1) = false /\
  forallb (fun r => ext_leb (cost c1 O1 r1) (cost c1 O1 r)) (all_recs S1 O1) = true.
Proof. split; [vm_compute; left; reflexivity | split; vm_compute; reflexivity]. Qed.
Print Assumptions c07_spe_needed_enum.

(* parametric: on this instance the LCA reconciliation loses for EVERY cost vector with
   c_dup + 4 c_floss < c_spe *)
Theorem c07_cherry_parametric : forall c, c_dup c + 4 * c_floss c < c_spe c ->
  cost c O1 r1 = Fin (c_dup c + 4 * c_floss c) /\ cost c O1 (lca_rec O1) = Fin (c_spe c) /\
  ext_ltb (cost c O1 r1) (cost c O1 (lca_rec O1)) = true.
Proof.
  intros c H.
  assert (A : cost c O1 r1 = Fin (c_dup c + 4 * c_floss c)).
  { rewrite (cost_costDL c S1 O1 r1 r1_valid r1_no_transfer). f_equal.
    change (costDL c r1) with (c_dup c + 0 + 0 + c_floss c * (2 + 2)). lia. }
  assert (B : cost c O1 (lca_rec O1) = Fin (c_spe c)).
  { destruct (lca_valid S1 O1 O1_leaves_ok) as [V N].
    rewrite (cost_costDL c S1 O1 _ V N). f_equal.
    change (costDL c (lca_rec O1)) with (c_spe c + 0 + 0 + c_floss c * (1 + 1 - 2)). lia. }
  rewrite A, B. repeat split. simpl. apply Z.ltb_lt. exact H.
Qed.
Print Assumptions c07_cherry_parametric.

(** ** Witness 2: the bound is tight over the integers.  c_spe = c_dup + 2 c_floss + 1.
    Species tree ((A,B),C), object tree (c:C, (a:A, b:B)).  LCA: two speciations, 2 c_spe = 8.
    Alternative: both nodes at the species root, two duplications and five losses, 7. *)
Definition O2 : otree := ONode (OLeaf [true] []) (ONode (OLeaf [false; false] []) (OLeaf [false; true] [])).
Definition r2 : rtree := RNode [] (RLeaf [true]) (RNode [] (RLeaf [false; false]) (RLeaf [false; true])).
Definition c2 : costs := {| c_spe := 4; c_dup := 1; c_hgt := PInf; c_floss := 1; c_sloss := 1 |}.

Lemma O2_leaves_ok : leaves_ok S1 O2.
Proof. simpl. repeat split; reflexivity. Qed.
Lemma r2_valid : valid_rec S1 O2 r2.
Proof.
  apply v_node; [reflexivity | vm_compute; discriminate | apply v_leaf; reflexivity | exact r1_valid].
Qed.
Lemma r2_no_transfer : no_transfer r2.
Proof. simpl. split; [right; vm_compute; reflexivity | split; [exact I | exact r1_no_transfer]]. Qed.

Example c07_spe_bound_tight :
  0 <= c_dup c2 /\ 0 <= c_floss c2 /\ c_hgt c2 = PInf /\
  c_spe c2 = c_dup c2 + 2 * c_floss c2 + 1 /\
  leaves_ok S1 O2 /\ valid_rec S1 O2 r2 /\ no_transfer r2 /\
  cost c2 O2 r2 = Fin 7 /\ cost c2 O2 (lca_rec O2) = Fin 8 /\
  ~ ele (cost c2 O2 (lca_rec O2)) (cost c2 O2 r2).
Proof.
  split; [vm_compute; discriminate |]. split; [vm_compute; discriminate |].
  split; [reflexivity |]. split; [vm_compute; reflexivity |].
  split; [exact O2_leaves_ok |]. split; [exact r2_valid |]. split; [exact r2_no_transfer |].
  split; [vm_compute; reflexivity |]. split; [vm_compute; reflexivity |].
  unfold ele. vm_compute. discriminate.
Qed.
Print Assumptions c07_spe_bound_tight.

End PartE.
