(** [reconcile_thl]: validity (no cost hypothesis), optimality, exactness of the
    ALL policy and the ANY policy (inside the coherent region).  C01 / C04 / C05. *)
From Coq Require Import List Bool Arith ZArith Lia.
From SR Require Import Base.PathB Base.Ext Model.Entry Model.Recon Model.LcaRec Model.Thl
  Proofs.PathFacts Proofs.ReconProofs Proofs.EntryProofs Proofs.DpProofs Proofs.LcaProofs
  Proofs.ExhProofs Proofs.ThlProofs.
Import ListNotations.
Local Open Scope Z_scope.

Definition optimal (S : stree) (c : costs) (O : otree) (r : rtree) : Prop :=
  valid_rec S O r /\ forall r', valid_rec S O r' -> ele (cost c O r) (cost c O r').

(* cost vectors of the property: non-negative finite unit costs, transfer cost finite or +inf *)
Definition costs_ok (c : costs) : Prop :=
  0 <= c_spe c /\ 0 <= c_dup c /\ 0 <= c_floss c /\ nn (c_hgt c).

Lemma nn_min a b : nn a -> nn b -> nn (ext_min a b).
Proof. intros Ha Hb. destruct (ext_min_cases a b) as [E|E]; now rewrite E. Qed.
Lemma nn_guard b v : nn v -> nn (guard b v).
Proof. destruct b; simpl; auto. intros _. apply nn_PInf. Qed.
Lemma nn_ocost c s l r : nn (c_hgt c) -> nn (ocost c s l r).
Proof.
  intros Hh. unfold ocost. repeat apply nn_min; apply nn_guard; try apply nn_Fin;
    apply nn_add; auto using nn_Fin.
Qed.
Lemma nn_ecost c s l r : nn (c_hgt c) -> nn (ecost c s l r).
Proof.
  intros Hh. unfold ecost. destruct (event s l r); try apply nn_Fin; try apply nn_PInf;
    apply nn_add; auto using nn_Fin.
Qed.
Lemma cost_nn c O : nn (c_hgt c) -> forall r, nn (cost c O r).
Proof.
  intros Hh. induction O as [sp syn|a IHa b IHb]; intros [s|s ra rb]; simpl; try apply nn_PInf.
  - destruct (path_eqb s sp); [apply nn_Fin|apply nn_PInf].
  - destruct (event s (root ra) (root rb)) eqn:E; try apply nn_PInf;
      (apply nn_add; [apply nn_ecost; auto|apply nn_add; auto]).
Qed.

Lemma ext_sum_tight2 k a b a' b' :
  nn k -> nn a -> nn b -> ele a a' -> ele b b' ->
  ext_add k (ext_add a b) = ext_add k (ext_add a' b') -> ext_add k (ext_add a' b') <> PInf ->
  a = a' /\ b = b'.
Proof.
  unfold nn, ele. destruct k, a, b, a', b'; simpl; try congruence; rewrite ?Z.ltb_ge; intros.
  match goal with H : Fin _ = Fin _ |- _ => inversion H end. split; f_equal; lia.
Qed.

Section Complete.
  Variables (S : stree) (c : costs).
  Hypothesis Hh : nn (c_hgt c).
  Hypothesis Hf : 0 <= c_floss c.
  Hypothesis Hc : coherent c.

  Lemma Tval_nn O s : In s (snodes S) -> nn (Tval c S O s).
  Proof.
    intros I. rewrite <- (table_value S c RALL O Hh RALL_not_none s I). now apply table_nn.
  Qed.

  (** under ALL every reconciliation that is optimal for its own root is decoded *)
  Theorem decode_complete O : leaves_ok S O -> forall r,
    valid_rec S O r -> cost c O r <> PInf -> cost c O r = Tval c S O (root r) ->
    In r (decode (thl_table S c RALL O) (root r)).
  Proof.
    intros L r V. revert L. induction V as [sp syn Hs|a b s ra rb Hs He Va IHa Vb IHb]; intros L NE E.
    - cbn [thl_table decode tread root]. rewrite path_eqb_refl. simpl. now left.
    - destruct L as [La Lb]. cbn [root] in *.
      pose proof (valid_root_in _ _ _ Va) as Il. pose proof (valid_root_in _ _ _ Vb) as Ir.
      assert (In s (snodes S)) as Is by (now apply snodes_valid).
      set (l := root ra) in *. set (r' := root rb) in *.
      assert (cost c (ONode a b) (RNode s ra rb) =
              ext_add (ocost c s l r') (ext_add (cost c a ra) (cost c b rb))) as Ecost.
      { cbn [cost]. fold l r'. rewrite (ocost_ecost c s l r' Hf Hc). destruct (event s l r'); congruence. }
      pose proof (Tval_lower c S a ra Hf Hc Va) as La'. pose proof (Tval_lower c S b rb Hf Hc Vb) as Lb'.
      fold l in La'. fold r' in Lb'.
      assert (ele (Tval c S (ONode a b) s) (ext_add (ocost c s l r') (ext_add (Tval c S a l) (Tval c S b r')))) as LB.
      { cbn [Tval]. unfold node_val.
        eapply ele_trans; [apply (minl_le _ (snodes S) l Il)|]. cbv beta.
        apply (minl_le (fun r0 => ext_add (ocost c s l r0) (ext_add (Tval c S a l) (Tval c S b r0))) (snodes S) r' Ir). }
      assert (ext_add (ocost c s l r') (ext_add (Tval c S a l) (Tval c S b r')) =
              ext_add (ocost c s l r') (ext_add (cost c a ra) (cost c b rb))) as Eq.
      { apply ele_antisym.
        - apply ext_add_mono; [apply ele_refl|apply ext_add_mono; auto].
        - rewrite <- Ecost, E. exact LB. }
      destruct (ext_sum_tight2 _ _ _ _ _ (nn_ocost c s l r' Hh) (Tval_nn a l Il) (Tval_nn b r' Ir) La' Lb' Eq) as [Ea Eb].
      { rewrite <- Ecost. exact NE. }
      assert (cost c a ra <> PInf /\ cost c b rb <> PInf) as [Fa Fb].
      { rewrite Ecost in NE. split; intros X; rewrite X in NE; apply NE.
        - destruct (ocost c s l r'); reflexivity.
        - destruct (ocost c s l r'), (cost c a ra); reflexivity. }
      specialize (IHa La Fa (eq_sym Ea)). specialize (IHb Lb Fb (eq_sym Eb)). fold l in IHa. fold r' in IHb.
      cbn [thl_table decode]. apply in_flat_map. exists (l, r'). split.
      + apply tread_node_tags; auto using table_nn. split; auto.
        apply cell_tag_complete; auto using table_nn.
        * rewrite <- (tread_node_val S c RALL _ _ Hh (table_nn S c RALL a Hh) (table_nn S c RALL b Hh) s Is).
          change (TNode _ _ _) with (thl_table S c RALL (ONode a b)).
          rewrite (table_value S c RALL (ONode a b) Hh RALL_not_none s Is), <- E. exact NE.
        * rewrite <- (tread_node_val S c RALL _ _ Hh (table_nn S c RALL a Hh) (table_nn S c RALL b Hh) s Is).
          change (TNode _ _ _) with (thl_table S c RALL (ONode a b)).
          rewrite (table_value S c RALL (ONode a b) Hh RALL_not_none s Is), <- E, Ecost.
          rewrite !(table_value S c RALL _ Hh RALL_not_none) by auto. now rewrite Ea, Eb.
      + cbn [fst snd]. apply in_flat_map. exists ra. split; auto. apply in_map_iff. exists rb. auto.
  Qed.
End Complete.

(** * candidates of the final entry *)
Lemma in_thl_candidates S c rp O v r :
  In (v, Some r) (thl_candidates S c rp O) <->
  exists s, In s (snodes S) /\ In r (decode (thl_table S c rp O) s) /\ v = cost c O r.
Proof.
  unfold thl_candidates. rewrite in_flat_map. split.
  - intros [s [Is H]]. apply in_map_iff in H as [x [E Ix]]. inversion E; subst. eauto.
  - intros [s [Is [Ir ->]]]. exists s. split; auto. apply in_map_iff. eauto.
Qed.
Lemma thl_candidates_some S c rp O v ot : In (v, ot) (thl_candidates S c rp O) -> exists r, ot = Some r.
Proof.
  unfold thl_candidates. rewrite in_flat_map. intros [s [_ H]]. apply in_map_iff in H as [x [E _]].
  inversion E. eauto.
Qed.

(** C04 for thl: whatever the policy and the (non-negative or not) costs, every returned
    reconciliation is valid *)
Theorem thl_valid S c rp O r : nn (c_hgt c) -> leaves_ok S O ->
  In r (tags (reconcile_thl S c rp O)) -> valid_rec S O r.
Proof.
  intros Hh L H. unfold reconcile_thl in H.
  apply (upd_tags_sound rtree_eqb rtree_eqb_spec) in H.
  apply in_thl_candidates in H as [s [_ [Ir _]]]. eapply decode_valid; eauto.
Qed.

Section Final.
  Variables (S : stree) (c : costs) (O : otree).
  Hypothesis Hh : nn (c_hgt c).
  Hypothesis Hf : 0 <= c_floss c.
  Hypothesis Hc : coherent c.
  Hypothesis L : leaves_ok S O.

  (* a valid reconciliation of finite cost exists (the LCA one) *)
  Lemma finite_valid_exists : exists r z, valid_rec S O r /\ cost c O r = Fin z.
  Proof.
    destruct (lca_valid S O L) as [V N]. exists (lca_rec O), (costDL c (lca_rec O)). split; auto.
    now apply (cost_costDL c S O).
  Qed.

  Lemma fin_of_le a z : nn a -> ele a (Fin z) -> a <> PInf.
  Proof. unfold nn, ele. destruct a; simpl; congruence. Qed.

  Section Policy.
    Variable rp : ret.
    Hypothesis Hrp : rp <> RNONE.
    Let T := thl_table S c rp O.
    Let E := reconcile_thl S c rp O.

    (* every valid reconciliation is matched by a candidate that costs no more *)
    Lemma candidate_below r' : valid_rec S O r' -> cost c O r' <> PInf ->
      exists x, In (cost c O x, Some x) (thl_candidates S c rp O) /\ ele (cost c O x) (cost c O r').
    Proof.
      intros V NE. pose proof (Tval_lower c S O r' Hf Hc V) as LB.
      pose proof (valid_root_in _ _ _ V) as Ir.
      assert (val (tread T (root r')) <> PInf) as NT.
      { unfold T. rewrite (table_value S c rp O Hh Hrp _ Ir). intros X. rewrite X in LB.
        apply NE. now apply ele_PInf_inv. }
      pose proof (decode_nonempty S c rp O Hh Hrp _ Ir NT) as ND.
      destruct (decode T (root r')) as [|x dx] eqn:D; [unfold T in D; congruence|].
      assert (In x (decode T (root r'))) as Ix by (rewrite D; now left).
      destruct (decode_cost S c rp O Hh Hrp Hf Hc L _ _ Ix) as [Cx _].
      exists x. split.
      - apply in_thl_candidates. exists (root r'). auto.
      - rewrite Cx. unfold T. rewrite (table_value S c rp O Hh Hrp _ Ir). exact LB.
    Qed.

    Lemma entry_value_finite : val E <> PInf.
    Proof.
      destruct finite_valid_exists as [r1 [z [V1 C1]]].
      destruct (candidate_below r1 V1) as [x [Ix Lx]]; [rewrite C1; discriminate|].
      pose proof (upd_le rtree_eqb rp _ _ _ Ix) as Lv. fold E in Lv. unfold reconcile_thl in E.
      rewrite C1 in Lx. apply (fin_of_le _ z).
      - apply upd_nn. intros w ot I. destruct (thl_candidates_some _ _ _ _ _ _ I) as [y ->].
        apply in_thl_candidates in I as [_ [_ [_ ->]]]. now apply cost_nn.
      - eapply ele_trans; eauto.
    Qed.

    (* a candidate achieving the entry's value is an optimal reconciliation *)
    Lemma best_candidate_optimal x : In (val E, Some x) (thl_candidates S c rp O) -> optimal S c O x.
    Proof.
      intros I. pose proof I as I0. apply in_thl_candidates in I as [s [Is [Ix Ev]]].
      destruct (decode_valid S c rp O Hh L s x Ix) as [Vx _]. split; auto.
      intros r' V'. destruct (ext_eqb (cost c O r') PInf) eqn:Ep.
      - apply ext_eqb_eq in Ep. rewrite Ep. apply ele_PInf.
      - assert (cost c O r' <> PInf) as NE by (intros X; rewrite X in Ep; discriminate).
        destruct (candidate_below r' V' NE) as [y [Iy Ly]].
        rewrite <- Ev. eapply ele_trans; [|exact Ly].
        exact (upd_le rtree_eqb rp _ _ _ Iy).
    Qed.
  End Policy.

  (** ALL: exactly the optimal reconciliations, each once *)
  Theorem thl_all_exact r : In r (tags (reconcile_thl S c RALL O)) <-> optimal S c O r.
  Proof.
    split.
    - intros H. apply (best_candidate_optimal RALL RALL_not_none).
      now apply (upd_tags_sound rtree_eqb rtree_eqb_spec) in H.
    - intros [V Opt].
      destruct finite_valid_exists as [r1 [z [V1 C1]]].
      assert (cost c O r <> PInf) as NE.
      { apply (fin_of_le _ z); [now apply cost_nn|]. rewrite <- C1. now apply Opt. }
      pose proof (valid_root_in _ _ _ V) as Ir.
      (* optimal overall, hence optimal for its own root *)
      assert (cost c O r = Tval c S O (root r)) as ET.
      { apply ele_antisym; [|now apply Tval_lower].
        assert (Tval c S O (root r) <> PInf) as NT.
        { intros X. pose proof (Tval_lower c S O r Hf Hc V) as LB. rewrite X in LB.
          apply NE. now apply ele_PInf_inv. }
        destruct (Tval_attained c S O Hf Hc _ Ir L NT) as [r2 [V2 [_ C2]]]. rewrite <- C2. now apply Opt. }
      pose proof (decode_complete S c Hh Hf Hc O L r V NE ET) as Dr.
      assert (In (cost c O r, Some r) (thl_candidates S c RALL O)) as Ic.
      { apply in_thl_candidates. exists (root r). auto. }
      apply (upd_tags_complete rtree_eqb rtree_eqb_spec).
      replace (val (update rtree_eqb MIN RALL (default_entry MIN) (thl_candidates S c RALL O))) with (cost c O r); auto.
      apply ele_antisym; [|exact (upd_le rtree_eqb RALL _ _ _ Ic)].
      pose proof (entry_value_finite RALL RALL_not_none) as NV.
      destruct (upd_attained rtree_eqb RALL _ NV) as [ot Io].
      destruct (thl_candidates_some _ _ _ _ _ _ Io) as [y ->].
      destruct (best_candidate_optimal RALL RALL_not_none y Io) as [Vy _].
      pose proof Io as Io'. apply in_thl_candidates in Io' as [_ [_ [_ Ev]]].
      unfold reconcile_thl in Ev. rewrite Ev. now apply Opt.
  Qed.

  Theorem thl_all_nodup : NoDup (tags (reconcile_thl S c RALL O)).
  Proof. apply (entry_tags_all_nodup rtree_eqb rtree_eqb_spec). Qed.

  (** ANY: exactly one reconciliation, and it is optimal *)
  Theorem thl_any : exists r, tags (reconcile_thl S c RANY O) = [r] /\ optimal S c O r.
  Proof.
    assert (RANY <> RNONE) as N by discriminate.
    pose proof (entry_value_finite RANY N) as NV.
    destruct (upd_attained rtree_eqb RANY _ NV) as [ot Io].
    destruct (thl_candidates_some _ _ _ _ _ _ Io) as [y ->].
    destruct (entry_tags_any rtree_eqb MIN (thl_candidates S c RANY O)) as [[_ No]|[t [Et It]]].
    - exfalso. eapply No. exact Io.
    - exists t. split; [exact Et|]. now apply (best_candidate_optimal RANY N).
  Qed.

  (** the result is never empty on a well-formed input *)
  Corollary thl_all_nonempty : tags (reconcile_thl S c RALL O) <> [].
  Proof.
    pose proof (entry_value_finite RALL RALL_not_none) as NV.
    destruct (upd_attained rtree_eqb RALL _ NV) as [ot Io].
    destruct (thl_candidates_some _ _ _ _ _ _ Io) as [y ->].
    apply (upd_tags_nonempty rtree_eqb rtree_eqb_spec RALL _ y RALL_not_none Io).
  Qed.
End Final.
