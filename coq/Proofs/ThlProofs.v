(** Refinement of the faithful THL table ([Model/Thl.v]: aggregator entries,
    [combine], proxy writes) to the clean table [Tval] of [DpProofs.v], soundness
    and completeness of the decoding, and the theorems of C01/C04/C05 for
    [reconcile_thl]. *)
From Coq Require Import List Bool Arith ZArith Lia.
From SR Require Import Base.PathB Base.Ext Model.Entry Model.Recon Model.Thl
  Proofs.PathFacts Proofs.ReconProofs Proofs.EntryProofs Proofs.DpProofs.
Import ListNotations.
Local Open Scope Z_scope.

(** * generic facts about MIN entries *)
Lemma better_MIN a b : better MIN a b = ext_ltb a b. Proof. reflexivity. Qed.
Lemma nw_MIN a b : nw MIN a b <-> ele a b. Proof. reflexivity. Qed.

Lemma tag_eqb_spec a b : reflect (a = b) (tag_eqb a b).
Proof.
  destruct a as [a1 a2], b as [b1 b2]. unfold tag_eqb. simpl.
  destruct (path_eqb_spec a1 b1); simpl; [|constructor; congruence].
  destruct (path_eqb_spec a2 b2); constructor; congruence.
Qed.

Section Generic.
  Context {T : Type} (T_eqb : T -> T -> bool).
  Hypothesis T_eqb_spec : forall x y, reflect (x = y) (T_eqb x y).

  Notation upd := (update T_eqb MIN).

  (* value: below every candidate, and attained (or the initial value) *)
  Lemma upd_le rp cs v ot : In (v, ot) cs -> ele (val (upd rp (default_entry MIN) cs)) v.
  Proof. intros H. exact (val_nw_seen T_eqb MIN rp (default_entry MIN) cs v ot H). Qed.

  Lemma upd_attained rp cs : val (upd rp (default_entry MIN) cs) <> PInf ->
    exists ot, In (val (upd rp (default_entry MIN) cs), ot) cs.
  Proof.
    intros H. destruct (entry_value T_eqb MIN rp cs (default_entry MIN)) as [[E|I] _].
    - simpl in E. congruence.
    - apply in_map_iff in I as [[v ot] [E I]]. simpl in E. subst v. eauto.
  Qed.

  (* tags are tags of candidates achieving the value, whatever the policy *)
  Lemma upd_tags_sound rp cs t : In t (tags (upd rp (default_entry MIN) cs)) ->
    In (val (upd rp (default_entry MIN) cs), Some t) cs.
  Proof.
    destruct rp.
    - rewrite entry_tags_none. intros [].
    - destruct (entry_tags_any T_eqb MIN cs) as [[E _]|[u [E I]]]; rewrite E.
      + intros [].
      + intros [<-|[]]. exact I.
    - apply (entry_tags_all T_eqb T_eqb_spec).
  Qed.

  Lemma upd_tags_complete cs t :
    In (val (upd RALL (default_entry MIN) cs), Some t) cs -> In t (tags (upd RALL (default_entry MIN) cs)).
  Proof. apply (entry_tags_all T_eqb T_eqb_spec). Qed.

  (* unless the policy is NONE, an optimal tagged candidate leaves a tag *)
  Lemma upd_tags_nonempty rp cs t : rp <> RNONE ->
    In (val (upd rp (default_entry MIN) cs), Some t) cs -> tags (upd rp (default_entry MIN) cs) <> [].
  Proof.
    intros N I. destruct rp; [congruence| |].
    - destruct (entry_tags_any T_eqb MIN cs) as [[E No]|[u [E _]]].
      + exfalso. eapply No; eauto.
      + rewrite E. discriminate.
    - intros E. apply upd_tags_complete in I. rewrite E in I. destruct I.
  Qed.
End Generic.

Lemma nonempty_in {X} (l : list X) : l <> [] -> exists x, In x l.
Proof. destruct l as [|x l]; [congruence|]. intros _. exists x. now left. Qed.

(** * aggregators *)
Section Agg.
  Variables (rp : ret) (xs : list path) (f : path -> ext).
  Let A := agg rp xs f.

  Lemma agg_le x : In x xs -> ele (val A) (f x).
  Proof.
    intros H. unfold A, agg. eapply upd_le. apply in_map_iff. exists x. split; eauto.
  Qed.

  Lemma agg_tags_sound x : In x (tags A) -> In x xs /\ f x = val A.
  Proof.
    intros H. apply (upd_tags_sound path_eqb path_eqb_spec) in H.
    apply in_map_iff in H as [y [E I]]. inversion E; subst. auto.
  Qed.

  Lemma agg_tags_complete x : rp = RALL -> In x xs -> f x = val A -> In x (tags A).
  Proof.
    intros -> I E. unfold A, agg. apply (upd_tags_complete path_eqb path_eqb_spec).
    apply in_map_iff. exists x. split; auto. f_equal. exact E.
  Qed.

  Lemma agg_attained : xs <> [] -> exists x, In x xs /\ f x = val A.
  Proof.
    intros N. destruct (ext_eqb (val A) PInf) eqn:E.
    - apply ext_eqb_eq in E. destruct (nonempty_in xs N) as [x Ix]. exists x. split; [exact Ix|].
      pose proof (agg_le x Ix) as L. rewrite E in *.
      apply ele_antisym; [apply ele_PInf|exact L].
    - assert (val A <> PInf) as NE by (intros X; rewrite X in E; discriminate).
      destruct (upd_attained path_eqb rp _ NE) as [ot I].
      apply in_map_iff in I as [y [Ey Iy]]. inversion Ey; subst. exists y. auto.
  Qed.

  Lemma agg_tags_nonempty : rp <> RNONE -> xs <> [] -> tags A <> [].
  Proof.
    intros N NE. destruct (agg_attained NE) as [x [I E]].
    apply (upd_tags_nonempty path_eqb path_eqb_spec rp _ x N).
    apply in_map_iff. exists x. split; auto. f_equal. exact E.
  Qed.
End Agg.

(** * one [combine] of two aggregators, iterated as candidates *)
Section Comb.
  Variables (rp : ret) (k : ext) (A B : entry path).
  Let C := combine tag_eqb MIN rp A B (event_comb k (val A) (val B)).
  Let v := ext_add (ext_add k (val A)) (val B).

  Lemma comb_sound w l r : In (w, Some (l, r)) (cands C) -> In l (tags A) /\ In r (tags B) /\ w = v.
  Proof.
    unfold cands. intros H. apply in_map_iff in H as [[l' r'] [E I]]. inversion E; subst. clear E.
    unfold C, combine in *. apply (upd_tags_sound tag_eqb tag_eqb_spec) in I.
    apply (In_pairs (U := tag)) in I as [a [b [Ha [Hb E]]]]. unfold event_comb in E.
    inversion E; subst. repeat split; auto.
  Qed.

  Lemma comb_all_same w ot : In (w, ot) (cands C) -> w = v.
  Proof.
    unfold cands. intros H. apply in_map_iff in H as [[l r] [E I]]. inversion E; subst.
    assert (In (val C, Some (l, r)) (cands C)) as X by (apply in_map_iff; exists (l, r); auto).
    apply comb_sound in X. tauto.
  Qed.

  Lemma comb_nonempty : rp <> RNONE -> tags A <> [] -> tags B <> [] -> exists t, In (v, Some t) (cands C).
  Proof.
    intros N NA NB. destruct (tags A) as [|a ta] eqn:EA; [congruence|]. destruct (tags B) as [|b tb] eqn:EB; [congruence|].
    assert (tags C <> []) as NC.
    { unfold C, combine. rewrite EA, EB. cbn [flat_map map app].
      (* the first candidate has the common value, which is the optimum *)
      set (cs := event_comb k (val A) (val B) a b :: _).
      apply (upd_tags_nonempty tag_eqb tag_eqb_spec rp cs (a, b) N).
      assert (forall w ot, In (w, ot) cs -> w = v) as Same.
      { intros w ot I. assert (In (w, ot) (pairs A B (event_comb k (val A) (val B)))) as I'.
        { unfold pairs. rewrite EA, EB. exact I. }
        apply (In_pairs (U := tag)) in I' as [x [y [_ [_ E]]]]. unfold event_comb in E. now inversion E. }
      assert (val (update tag_eqb MIN rp (default_entry MIN) cs) = v) as ->.
      { destruct (ext_eqb (val (update tag_eqb MIN rp (default_entry MIN) cs)) PInf) eqn:E.
        - apply ext_eqb_eq in E. rewrite E.
          pose proof (upd_le tag_eqb rp cs v (Some (a, b)) ltac:(now left)) as L. rewrite E in L.
          apply ele_antisym; [exact L|apply ele_PInf].
        - assert (val (update tag_eqb MIN rp (default_entry MIN) cs) <> PInf) as NE by (intros X; rewrite X in E; discriminate).
          destruct (upd_attained tag_eqb rp cs NE) as [ot I]. now apply Same in I. }
      now left. }
    destruct (tags C) as [|t tc] eqn:ET; [congruence|]. exists t.
    assert (In (val C, Some t) (cands C)) as X by (unfold cands; rewrite ET; now left).
    destruct t as [l r]. pose proof (comb_sound _ _ _ X) as [_ [_ E]]. now rewrite <- E.
  Qed.
End Comb.

Section CombAll.
  Variables (k : ext) (A B : entry path).
  Let C := combine tag_eqb MIN RALL A B (event_comb k (val A) (val B)).
  Let v := ext_add (ext_add k (val A)) (val B).

  Lemma comb_complete l r : In l (tags A) -> In r (tags B) -> In (v, Some (l, r)) (cands C).
  Proof.
    intros Hl Hr.
    assert (In (l, r) (tags C)) as I.
    { unfold C. apply (combine_tags_all tag_eqb tag_eqb_spec). cbv zeta. exists l, r. repeat split; auto.
      unfold event_comb at 1. f_equal.
      (* all pairs have the same value, which is therefore the optimum *)
      pose proof (combine_opt tag_eqb MIN RALL A B (event_comb k (val A) (val B))) as CO. cbv zeta in CO.
      destruct CO as [[E|I] Le].
      - specialize (Le l r Hl Hr). cbn [event_comb fst init_val] in *.
        rewrite <- E in Le |- *. clear E. revert Le.
        generalize (ext_add (ext_add k (val A)) (val B)). intros [|z|]; simpl; congruence.
      - apply in_map_iff in I as [[w ot] [E I]]. simpl in E. subst w.
        apply (In_pairs (U := tag)) in I as [a [b [_ [_ E]]]]. unfold event_comb in E. now inversion E. }
    unfold cands. apply in_map_iff. exists (l, r). split; auto. f_equal.
    assert (In (val C, Some (l, r)) (cands C)) as X by (apply in_map_iff; exists (l, r); auto).
    apply (comb_sound RALL k A B) in X. tauto.
  Qed.
End CombAll.

(** * values never are [-inf] *)
Definition nn (x : ext) : Prop := x <> NInf.
Lemma nn_add a b : nn a -> nn b -> nn (ext_add a b).
Proof. unfold nn. destruct a, b; simpl; congruence. Qed.
Lemma nn_Fin z : nn (Fin z). Proof. discriminate. Qed.
Lemma nn_PInf : nn PInf. Proof. discriminate. Qed.
Lemma nn_inf_PInf x : nn x -> ext_is_inf x = true -> x = PInf.
Proof. unfold nn. destruct x; simpl; congruence. Qed.

Lemma upd_nn {T} (eqb : T -> T -> bool) rp cs :
  (forall w ot, In (w, ot) cs -> nn w) -> nn (val (update eqb MIN rp (default_entry MIN) cs)).
Proof.
  intros H. destruct (entry_value eqb MIN rp cs (default_entry MIN)) as [[E|I] _].
  - rewrite <- E. apply nn_PInf.
  - apply in_map_iff in I as [[w ot] [E I]]. simpl in E. rewrite <- E. eauto.
Qed.

Lemma has_finite_false_PInf {T} (cs : list (ext * option T)) w ot :
  (forall w ot, In (w, ot) cs -> nn w) -> Thl.has_finite cs = false -> In (w, ot) cs -> w = PInf.
Proof.
  intros N H I. apply nn_inf_PInf; [eauto|]. unfold Thl.has_finite in H.
  destruct (ext_is_inf w) eqn:E; auto. exfalso.
  assert (existsb (fun c : ext * option T => negb (ext_is_inf (fst c))) cs = true) as X.
  { apply existsb_exists. exists (w, ot). split; auto. simpl. now rewrite E. }
  congruence.
Qed.

Lemma has_finite_true_ex {T} (cs : list (ext * option T)) :
  Thl.has_finite cs = true -> exists w ot, In (w, ot) cs /\ ext_is_inf w = false.
Proof.
  unfold Thl.has_finite. intros H. apply existsb_exists in H as [[w ot] [I E]].
  exists w, ot. split; auto. simpl in E. now apply negb_true_iff in E.
Qed.

(** * a cell written by two batches through the proxy *)
Section TwoBatches.
  Variables (rp : ret) (B1 B2 : list (ext * option tag)).
  Hypothesis NN : forall w ot, In (w, ot) (B1 ++ B2) -> nn w.
  Let e0 := default_entry MIN (T := tag).
  Let e2 := cell_upd rp (cell_upd rp e0 B1) B2.

  Lemma NN1 w ot : In (w, ot) B1 -> nn w. Proof. intros H. eapply NN. apply in_or_app; eauto. Qed.
  Lemma NN2 w ot : In (w, ot) B2 -> nn w. Proof. intros H. eapply NN. apply in_or_app; eauto. Qed.

  (* the cell is the entry fed the batches that hold a finite value *)
  Definition applied : list (ext * option tag) :=
    (if Thl.has_finite B1 then B1 else []) ++ (if Thl.has_finite B2 then B2 else []).
  Lemma e2_applied : e2 = update tag_eqb MIN rp e0 applied.
  Proof.
    unfold e2, cell_upd, applied. destruct (Thl.has_finite B1), (Thl.has_finite B2); cbn [app];
      rewrite ?app_nil_r; try reflexivity.
    apply (update_app tag_eqb).
  Qed.

  Lemma in_applied w ot : In (w, ot) (B1 ++ B2) -> w <> PInf -> In (w, ot) applied.
  Proof.
    intros I N. unfold applied. apply in_app_or in I as [I|I]; apply in_or_app; [left|right].
    - destruct (Thl.has_finite B1) eqn:F; auto. exfalso. apply N.
      exact (has_finite_false_PInf B1 w ot NN1 F I).
    - destruct (Thl.has_finite B2) eqn:F; auto. exfalso. apply N.
      exact (has_finite_false_PInf B2 w ot NN2 F I).
  Qed.
  Lemma applied_in w ot : In (w, ot) applied -> In (w, ot) (B1 ++ B2).
  Proof.
    unfold applied. intros I. apply in_app_or in I as [I|I]; apply in_or_app; [left|right].
    - destruct (Thl.has_finite B1); [auto|destruct I].
    - destruct (Thl.has_finite B2); [auto|destruct I].
  Qed.

  Lemma cu2_le w ot : In (w, ot) (B1 ++ B2) -> ele (val e2) w.
  Proof.
    intros I. destruct (ext_eqb w PInf) eqn:E.
    - apply ext_eqb_eq in E. subst. apply ele_PInf.
    - rewrite e2_applied. eapply upd_le. apply in_applied; eauto.
      intros X. subst. discriminate.
  Qed.

  Lemma cu2_attained : val e2 <> PInf -> exists ot, In (val e2, ot) (B1 ++ B2).
  Proof.
    rewrite e2_applied. intros H. destruct (upd_attained tag_eqb rp applied H) as [ot I].
    exists ot. now apply applied_in.
  Qed.

  Lemma cu2_tags_sound t : In t (tags e2) -> In (val e2, Some t) (B1 ++ B2).
  Proof.
    rewrite e2_applied. intros H. apply applied_in.
    now apply (upd_tags_sound tag_eqb tag_eqb_spec).
  Qed.

  Lemma cu2_nn : nn (val e2).
  Proof. rewrite e2_applied. apply upd_nn. intros w ot I. eapply NN. apply applied_in; eauto. Qed.

  (* a cell with a tag has a finite value *)
  Lemma cu2_tags_finite t : In t (tags e2) -> ext_is_inf (val e2) = false.
  Proof.
    intros H. pose proof (cu2_tags_sound t H) as I.
    destruct (ext_is_inf (val e2)) eqn:E; auto. exfalso.
    pose proof (nn_inf_PInf _ cu2_nn E) as P.
    (* the value is +inf: no batch was applied, so there is no tag *)
    assert (applied = []) as A0.
    { unfold applied. destruct (Thl.has_finite B1) eqn:F1.
      - destruct (has_finite_true_ex _ F1) as [w [ot [Iw Ew]]].
        pose proof (cu2_le w ot ltac:(apply in_or_app; auto)) as L. rewrite P in L.
        destruct w; simpl in *; try discriminate.
      - destruct (Thl.has_finite B2) eqn:F2; auto.
        destruct (has_finite_true_ex _ F2) as [w [ot [Iw Ew]]].
        pose proof (cu2_le w ot ltac:(apply in_or_app; auto)) as L. rewrite P in L.
        destruct w; simpl in *; try discriminate. }
    rewrite e2_applied, A0 in H. destruct H.
  Qed.
End TwoBatches.

Section TwoBatchesAll.
  Variables (B1 B2 : list (ext * option tag)).
  Hypothesis NN : forall w ot, In (w, ot) (B1 ++ B2) -> nn w.
  Let e2 := cell_upd RALL (cell_upd RALL (default_entry MIN) B1) B2.

  Lemma cu2_tags_complete t : val e2 <> PInf -> In (val e2, Some t) (B1 ++ B2) -> In t (tags e2).
  Proof.
    unfold e2. rewrite (e2_applied RALL B1 B2). intros N I.
    apply (upd_tags_complete tag_eqb tag_eqb_spec).
    apply (in_applied B1 B2 NN); auto.
  Qed.
End TwoBatchesAll.

(** * one cell of the table *)
Lemma ele_min_glb x a b : ele x a -> ele x b -> ele x (ext_min a b).
Proof. intros H1 H2. destruct (ext_min_cases a b) as [E|E]; rewrite E; auto. Qed.

Lemma under_In S s x : In x (under S s) <-> In x (snodes S) /\ anc s x = true.
Proof. unfold under. rewrite filter_In. tauto. Qed.
Lemma separate_In S s x : In x (separate_from S s) <-> In x (snodes S) /\ separate s x = true.
Proof. unfold separate_from, separate. rewrite filter_In. tauto. Qed.

Section CellProofs.
  Variables (S : stree) (c : costs) (rp : ret) (ta tb : ttree) (s : path).
  Let A x := val (tread ta x).
  Let B x := val (tread tb x).
  Hypothesis Hh : nn (c_hgt c).
  Hypothesis NA : forall x, nn (A x).
  Hypothesis NB : forall x, nn (B x).

  Let fl1 x := Fin (c_floss c * (dist s x - 1)).
  Let fl0 x := Fin (c_floss c * dist s x).
  Let ls := s ++ [false].
  Let rs := s ++ [true].

  (* candidate values of the four families for children placed at l, r *)
  Definition vS l r := ext_add (ext_add (Fin (c_spe c)) (ext_add (A l) (fl1 l))) (ext_add (B r) (fl1 r)).
  Definition vD l r := ext_add (ext_add (Fin (c_dup c)) (ext_add (A l) (fl0 l))) (ext_add (B r) (fl0 r)).
  Definition vTR l r := ext_add (ext_add (c_hgt c) (A l)) (ext_add (B r) (fl0 r)).
  Definition vTL l r := ext_add (ext_add (c_hgt c) (ext_add (A l) (fl0 l))) (B r).

  Lemma vS_eq l r : vS l r = ext_add (Fin (c_spe c + c_floss c * (dist s l + dist s r - 2))) (ext_add (A l) (B r)).
  Proof. unfold vS, fl1. destruct (A l), (B r); simpl; auto; f_equal; lia. Qed.
  Lemma vD_eq l r : vD l r = ext_add (Fin (c_dup c + c_floss c * (dist s l + dist s r))) (ext_add (A l) (B r)).
  Proof. unfold vD, fl0. destruct (A l), (B r); simpl; auto; f_equal; lia. Qed.
  Lemma vTR_eq l r : vTR l r = ext_add (ext_add (c_hgt c) (Fin (c_floss c * dist s r))) (ext_add (A l) (B r)).
  Proof. unfold vTR, fl0. destruct (c_hgt c), (A l), (B r); simpl; auto; f_equal; lia. Qed.
  Lemma vTL_eq l r : vTL l r = ext_add (ext_add (c_hgt c) (Fin (c_floss c * dist s l))) (ext_add (A l) (B r)).
  Proof. unfold vTL, fl0. destruct (c_hgt c), (A l), (B r); simpl; auto; f_equal; lia. Qed.

  (* the speciation batch, empty on a leaf species *)
  Definition B1 : list (ext * option tag) := if sleaf S s then [] else spe_batch S c rp ta tb s.
  Definition B2 : list (ext * option tag) := dt_batch S c rp ta tb s.

  Lemma cell_two_batches : cell S c rp ta tb s = cell_upd rp (cell_upd rp (default_entry MIN) B1) B2.
  Proof. unfold cell, B1, B2. destruct (sleaf S s); reflexivity. Qed.

  (* generic step: a combination of two aggregators over species lists *)
  Section OneComb.
    Variables (k : ext) (xs ys : list path) (f g : path -> ext).
    Let A' := agg rp xs f.
    Let B' := agg rp ys g.
    Let C' := combine tag_eqb MIN rp A' B' (event_comb k (val A') (val B')).

    Lemma onecomb_sound w l r : In (w, Some (l, r)) (cands C') ->
      In l xs /\ In r ys /\ w = ext_add (ext_add k (f l)) (g r).
    Proof.
      intros H. apply comb_sound in H as [Hl [Hr E]].
      apply agg_tags_sound in Hl as [Il El]. apply agg_tags_sound in Hr as [Ir Er].
      repeat split; auto. rewrite E, El, Er. reflexivity.
    Qed.

    Lemma onecomb_some w ot : In (w, ot) (cands C') -> exists t, ot = Some t.
    Proof. unfold cands. intros H. apply in_map_iff in H as [t [E _]]. inversion E. eauto. Qed.

    Lemma onecomb_lower l r : rp <> RNONE -> In l xs -> In r ys ->
      exists t, In (ext_add (ext_add k (val A')) (val B'), Some t) (cands C') /\
                ele (ext_add (ext_add k (val A')) (val B')) (ext_add (ext_add k (f l)) (g r)).
    Proof.
      intros N Il Ir.
      destruct (comb_nonempty rp k A' B' N) as [t It].
      - apply agg_tags_nonempty; auto. intros X. rewrite X in Il. destruct Il.
      - apply agg_tags_nonempty; auto. intros X. rewrite X in Ir. destruct Ir.
      - exists t. split; auto.
        apply ext_add_mono; [apply ext_add_mono; [apply ele_refl|]|]; apply agg_le; auto.
    Qed.
  End OneComb.

  Lemma nn_f0 x : nn (ext_add (A x) (fl0 x)). Proof. apply nn_add; [apply NA|apply nn_Fin]. Qed.
  Lemma nn_f1 x : nn (ext_add (A x) (fl1 x)). Proof. apply nn_add; [apply NA|apply nn_Fin]. Qed.
  Lemma nn_g0 x : nn (ext_add (B x) (fl0 x)). Proof. apply nn_add; [apply NB|apply nn_Fin]. Qed.
  Lemma nn_g1 x : nn (ext_add (B x) (fl1 x)). Proof. apply nn_add; [apply NB|apply nn_Fin]. Qed.

  (** what the batches contain *)
  Lemma B1_sound w l r : In (w, Some (l, r)) B1 ->
    In l (snodes S) /\ In r (snodes S) /\ spe_cfg s l r = true /\ w = vS l r.
  Proof.
    unfold B1. destruct (sleaf S s); [intros []|]. unfold spe_batch. intros H.
    apply in_app_or in H as [H|H]; apply onecomb_sound in H as [Il [Ir E]];
      apply under_In in Il as [Il Al]; apply under_In in Ir as [Ir Ar]; repeat split; auto.
    - unfold spe_cfg, in_left, in_right. now rewrite Al, Ar.
    - unfold spe_cfg, in_left, in_right. rewrite Al, Ar. now rewrite orb_true_r.
  Qed.

  Lemma B2_sound w l r : In (w, Some (l, r)) B2 ->
    In l (snodes S) /\ In r (snodes S) /\
    ((anc s l = true /\ anc s r = true /\ w = vD l r) \/
     (separate s l = true /\ anc s r = true /\ w = vTR l r) \/
     (anc s l = true /\ separate s r = true /\ w = vTL l r)).
  Proof.
    unfold B2, dt_batch. intros H.
    apply in_app_or in H as [H|H]; [|apply in_app_or in H as [H|H]];
      apply onecomb_sound in H as [Il [Ir E]].
    - apply under_In in Il as [Il Al]; apply under_In in Ir as [Ir Ar]. repeat split; auto.
    - apply separate_In in Il as [Il Al]; apply under_In in Ir as [Ir Ar]. repeat split; auto.
    - apply under_In in Il as [Il Al]; apply separate_In in Ir as [Ir Ar]. repeat split; auto.
  Qed.

  Lemma batches_some w ot : In (w, ot) (B1 ++ B2) -> exists t, ot = Some t.
  Proof.
    intros H. apply in_app_or in H as [H|H].
    - unfold B1 in H. destruct (sleaf S s); [destruct H|]. unfold spe_batch in H.
      apply in_app_or in H as [H|H]; eapply onecomb_some; eauto.
    - unfold B2, dt_batch in H.
      apply in_app_or in H as [H|H]; [|apply in_app_or in H as [H|H]]; eapply onecomb_some; eauto.
  Qed.

  Lemma batches_nn w ot : In (w, ot) (B1 ++ B2) -> nn w.
  Proof.
    intros H. destruct (batches_some _ _ H) as [[l r] ->].
    apply in_app_or in H as [H|H].
    - apply B1_sound in H as [_ [_ [_ ->]]]. unfold vS.
      apply nn_add; [apply nn_add; [apply nn_Fin|apply nn_f1]|apply nn_g1].
    - apply B2_sound in H as [_ [_ [[_ [_ ->]]|[[_ [_ ->]]|[_ [_ ->]]]]]]; unfold vD, vTR, vTL.
      + apply nn_add; [apply nn_add; [apply nn_Fin|apply nn_f0]|apply nn_g0].
      + apply nn_add; [apply nn_add; [exact Hh|apply NA]|apply nn_g0].
      + apply nn_add; [apply nn_add; [exact Hh|apply nn_f0]|apply NB].
  Qed.

  Notation cellv := (val (cell S c rp ta tb s)).

  Lemma cell_nn : nn cellv.
  Proof. rewrite cell_two_batches. apply cu2_nn. exact batches_nn. Qed.

  (** soundness of a tag: it comes from an applicable family whose value is the cell's *)
  Lemma cell_tag_sound l r : In (l, r) (tags (cell S c rp ta tb s)) ->
    In l (snodes S) /\ In r (snodes S) /\ ext_is_inf cellv = false /\
    ((spe_cfg s l r = true /\ cellv = vS l r) \/
     (anc s l = true /\ anc s r = true /\ cellv = vD l r) \/
     (separate s l = true /\ anc s r = true /\ cellv = vTR l r) \/
     (anc s l = true /\ separate s r = true /\ cellv = vTL l r)).
  Proof.
    rewrite cell_two_batches. intros H.
    pose proof (cu2_tags_finite rp B1 B2 batches_nn _ H) as F.
    apply (cu2_tags_sound rp B1 B2) in H.
    apply in_app_or in H as [H|H].
    - apply B1_sound in H as [Il [Ir [Cf E]]]. repeat split; auto.
    - apply B2_sound in H as [Il [Ir X]]. repeat split; auto.
  Qed.
End CellProofs.

(** * lower bound and completeness for one cell *)
Lemma ext_add_min_l a b x : ext_add (ext_min a b) x = ext_min (ext_add a x) (ext_add b x).
Proof.
  unfold ext_min. destruct a, b, x; simpl; try reflexivity;
    repeat match goal with |- context [Z.ltb ?u ?v] => destruct (Z.ltb_spec u v) end;
    try reflexivity; try lia.
Qed.

Lemma guard_add b v x : ext_add (guard b v) x = guard b (ext_add v x).
Proof. destruct b; simpl; auto. Qed.

Lemma valid_sp_not_leaf S s b y : valid_sp S (s ++ b :: y) = true -> sleaf S s = false.
Proof.
  revert S; induction s as [|x s IH]; intros S; simpl.
  - destruct S; [destruct b; discriminate|reflexivity].
  - destruct S; [destruct x; discriminate|]. destruct x; apply IH.
Qed.

(* tight sums *)
Lemma ext_sum_tight k a b a' b' :
  nn k -> nn a -> nn b ->
  ele a a' -> ele b b' ->
  ext_add (ext_add k a) b = ext_add (ext_add k a') b' -> ext_add (ext_add k a') b' <> PInf ->
  a = a' /\ b = b'.
Proof.
  unfold nn, ele. destruct k, a, b, a', b'; simpl; try congruence; rewrite ?Z.ltb_ge; intros.
  match goal with H : Fin _ = Fin _ |- _ => inversion H end. split; f_equal; lia.
Qed.

Section CellProofs2.
  Variables (S : stree) (c : costs) (rp : ret) (ta tb : ttree) (s : path).
  Let A x := val (tread ta x).
  Let B x := val (tread tb x).
  Hypothesis Hh : nn (c_hgt c).
  Hypothesis NA : forall x, nn (A x).
  Hypothesis NB : forall x, nn (B x).
  Hypothesis Hrp : rp <> RNONE.

  Notation cellv := (val (cell S c rp ta tb s)).
  Notation b1 := (B1 S c rp ta tb s).
  Notation b2 := (B2 S c rp ta tb s).
  Notation VS := (vS c ta tb s).
  Notation VD := (vD c ta tb s).
  Notation VTR := (vTR c ta tb s).
  Notation VTL := (vTL c ta tb s).

  Lemma cell_le_batch w ot : In (w, ot) (b1 ++ b2) -> ele cellv w.
  Proof. rewrite cell_two_batches. apply cu2_le. apply batches_nn; auto. Qed.

  Lemma cell_le_S l r : In l (snodes S) -> In r (snodes S) -> spe_cfg s l r = true -> ele cellv (VS l r).
  Proof.
    intros Il Ir Cf.
    assert (sleaf S s = false) as NL.
    { unfold spe_cfg, in_left, in_right in Cf. apply orb_true_iff in Cf as [H|H]; apply andb_true_iff in H as [H _];
        apply anc_snoc_inv in H as [y ->]; apply snodes_valid in Il; eapply valid_sp_not_leaf; eauto. }
    unfold spe_cfg, in_left, in_right in Cf. apply orb_true_iff in Cf as [H|H]; apply andb_true_iff in H as [H1 H2].
    - destruct (onecomb_lower rp (Fin (c_spe c)) (under S (s ++ [false])) (under S (s ++ [true]))
                  (fun x => ext_add (A x) (Fin (c_floss c * (dist s x - 1))))
                  (fun x => ext_add (B x) (Fin (c_floss c * (dist s x - 1)))) l r Hrp) as [t [It Le]];
        try (apply under_In; auto).
      eapply ele_trans; [|exact Le]. apply (cell_le_batch _ (Some t)).
      apply in_or_app. left. unfold B1. rewrite NL. unfold spe_batch. apply in_or_app. left. exact It.
    - destruct (onecomb_lower rp (Fin (c_spe c)) (under S (s ++ [true])) (under S (s ++ [false]))
                  (fun x => ext_add (A x) (Fin (c_floss c * (dist s x - 1))))
                  (fun x => ext_add (B x) (Fin (c_floss c * (dist s x - 1)))) l r Hrp) as [t [It Le]];
        try (apply under_In; auto).
      eapply ele_trans; [|exact Le]. apply (cell_le_batch _ (Some t)).
      apply in_or_app. left. unfold B1. rewrite NL. unfold spe_batch. apply in_or_app. right. exact It.
  Qed.

  Lemma cell_le_D l r : In l (snodes S) -> In r (snodes S) -> anc s l = true -> anc s r = true -> ele cellv (VD l r).
  Proof.
    intros Il Ir Al Ar.
    destruct (onecomb_lower rp (Fin (c_dup c)) (under S s) (under S s)
                (fun x => ext_add (A x) (Fin (c_floss c * dist s x)))
                (fun x => ext_add (B x) (Fin (c_floss c * dist s x))) l r Hrp) as [t [It Le]];
      try (apply under_In; auto).
    eapply ele_trans; [|exact Le]. apply (cell_le_batch _ (Some t)).
    apply in_or_app. right. unfold B2, dt_batch. apply in_or_app. left. exact It.
  Qed.

  Lemma cell_le_TR l r : In l (snodes S) -> In r (snodes S) -> separate s l = true -> anc s r = true -> ele cellv (VTR l r).
  Proof.
    intros Il Ir Al Ar.
    destruct (onecomb_lower rp (c_hgt c) (separate_from S s) (under S s)
                (fun x => A x)
                (fun x => ext_add (B x) (Fin (c_floss c * dist s x))) l r Hrp) as [t [It Le]];
      try (apply under_In; auto); try (apply separate_In; auto).
    eapply ele_trans; [|exact Le]. apply (cell_le_batch _ (Some t)).
    apply in_or_app. right. unfold B2, dt_batch. apply in_or_app. right. apply in_or_app. left. exact It.
  Qed.

  Lemma cell_le_TL l r : In l (snodes S) -> In r (snodes S) -> anc s l = true -> separate s r = true -> ele cellv (VTL l r).
  Proof.
    intros Il Ir Al Ar.
    destruct (onecomb_lower rp (c_hgt c) (under S s) (separate_from S s)
                (fun x => ext_add (A x) (Fin (c_floss c * dist s x)))
                (fun x => B x) l r Hrp) as [t [It Le]];
      try (apply under_In; auto); try (apply separate_In; auto).
    eapply ele_trans; [|exact Le]. apply (cell_le_batch _ (Some t)).
    apply in_or_app. right. unfold B2, dt_batch. apply in_or_app. right. apply in_or_app. right. exact It.
  Qed.

  (** the cell is below the optimiser's charge of every placement of the children *)
  Theorem cell_lower l r : In l (snodes S) -> In r (snodes S) ->
    ele cellv (ext_add (ocost c s l r) (ext_add (A l) (B r))).
  Proof.
    intros Il Ir. unfold ocost. rewrite !ext_add_min_l, !guard_add.
    repeat apply ele_min_glb.
    - destruct (spe_cfg s l r) eqn:E; [|apply ele_PInf]. cbn [guard].
      rewrite <- (vS_eq c ta tb s). now apply cell_le_S.
    - destruct (anc s l && anc s r) eqn:E; [|apply ele_PInf]. cbn [guard].
      apply andb_true_iff in E as [E1 E2]. rewrite <- (vD_eq c ta tb s). now apply cell_le_D.
    - destruct (anc s l && separate s r) eqn:E; [|apply ele_PInf]. cbn [guard].
      apply andb_true_iff in E as [E1 E2]. unfold A, B. rewrite <- (vTL_eq c ta tb s Hh). now apply cell_le_TL.
    - destruct (separate s l && anc s r) eqn:E; [|apply ele_PInf]. cbn [guard].
      apply andb_true_iff in E as [E1 E2]. unfold A, B. rewrite <- (vTR_eq c ta tb s Hh). now apply cell_le_TR.
  Qed.

  (* each applicable family dominates the optimiser's charge *)
  Lemma ocost_le_S l r : spe_cfg s l r = true -> ele (ext_add (ocost c s l r) (ext_add (A l) (B r))) (VS l r).
  Proof.
    intros E. rewrite (vS_eq c ta tb s). apply ext_add_mono; [|apply ele_refl]. unfold ocost. rewrite E. apply ext_min_le_l.
  Qed.
  Lemma ocost_le_D l r : anc s l = true -> anc s r = true -> ele (ext_add (ocost c s l r) (ext_add (A l) (B r))) (VD l r).
  Proof.
    intros E1 E2. rewrite (vD_eq c ta tb s). apply ext_add_mono; [|apply ele_refl]. unfold ocost. rewrite E1, E2.
    eapply ele_trans; [apply ext_min_le_r|apply ext_min_le_l].
  Qed.
  Lemma ocost_le_TL l r : anc s l = true -> separate s r = true -> ele (ext_add (ocost c s l r) (ext_add (A l) (B r))) (VTL l r).
  Proof.
    intros E1 E2. rewrite (vTL_eq c ta tb s Hh). apply ext_add_mono; [|apply ele_refl]. unfold ocost. rewrite E1, E2.
    eapply ele_trans; [apply ext_min_le_r|]. eapply ele_trans; [apply ext_min_le_r|apply ext_min_le_l].
  Qed.
  Lemma ocost_le_TR l r : separate s l = true -> anc s r = true -> ele (ext_add (ocost c s l r) (ext_add (A l) (B r))) (VTR l r).
  Proof.
    intros E1 E2. rewrite (vTR_eq c ta tb s Hh). apply ext_add_mono; [|apply ele_refl]. unfold ocost. rewrite E1, E2.
    eapply ele_trans; [apply ext_min_le_r|]. eapply ele_trans; [apply ext_min_le_r|apply ext_min_le_r].
  Qed.

  (** for a tag, the cell value is exactly the optimiser's charge plus the children's values *)
  Theorem cell_tag_value l r : In (l, r) (tags (cell S c rp ta tb s)) ->
    In l (snodes S) /\ In r (snodes S) /\ ext_is_inf cellv = false /\
    cellv = ext_add (ocost c s l r) (ext_add (A l) (B r)).
  Proof.
    intros H. destruct (cell_tag_sound S c rp ta tb s Hh NA NB l r H) as [Il [Ir [F X]]].
    repeat split; auto. apply ele_antisym; [now apply cell_lower|].
    destruct X as [[E V]|[[E1 [E2 V]]|[[E1 [E2 V]]|[E1 [E2 V]]]]]; rewrite V.
    - now apply ocost_le_S.
    - now apply ocost_le_D.
    - now apply ocost_le_TR.
    - now apply ocost_le_TL.
  Qed.

  (** the value of the cell: the clean recurrence *)
  Theorem cell_value : cellv = node_val c S A B s.
  Proof.
    apply ele_antisym.
    - unfold node_val.
      assert (forall {X} (f : X -> ext) l v, (forall x, In x l -> ele v (f x)) -> ele v (minl f l)) as glb.
      { intros X f l v H. induction l as [|y l IH]; simpl; [apply ele_PInf|].
        apply ele_min_glb; [apply H; now left|apply IH; intros x Hx; apply H; now right]. }
      apply glb. intros l Il. apply glb. intros r Ir. now apply cell_lower.
    - destruct (ext_eqb cellv PInf) eqn:E; [apply ext_eqb_eq in E; rewrite E; apply ele_PInf|].
      assert (cellv <> PInf) as NE by (intros X; rewrite X in E; discriminate).
      rewrite cell_two_batches in NE.
      destruct (cu2_attained rp b1 b2 NE) as [ot I]. rewrite <- cell_two_batches in I.
      destruct (batches_some S c rp ta tb s _ _ I) as [[l r] ->].
      assert (In l (snodes S) /\ In r (snodes S) /\
              ele (ext_add (ocost c s l r) (ext_add (A l) (B r))) cellv) as [Il [Ir Le]].
      { apply in_app_or in I as [I|I].
        - apply B1_sound in I as [Il [Ir [Cf V]]]. repeat split; auto. rewrite V. now apply ocost_le_S.
        - apply B2_sound in I as [Il [Ir [[E1 [E2 V]]|[[E1 [E2 V]]|[E1 [E2 V]]]]]]; repeat split; auto; rewrite V.
          + now apply ocost_le_D.
          + now apply ocost_le_TR.
          + now apply ocost_le_TL. }
      eapply ele_trans; [|exact Le]. unfold node_val.
      eapply ele_trans; [apply (minl_le _ (snodes S) l Il)|]. cbv beta.
      apply (minl_le (fun r0 => ext_add (ocost c s l r0) (ext_add (A l) (B r0))) (snodes S) r Ir).
  Qed.
End CellProofs2.

(** * completeness of the tags under ALL *)
Section OneCombAll.
  Variables (k : ext) (xs ys : list path) (f g : path -> ext).
  Hypothesis Nk : nn k.
  Hypothesis Nf : forall x, nn (f x).
  Hypothesis Ng : forall x, nn (g x).
  Let A' := agg RALL xs f.
  Let B' := agg RALL ys g.
  Let C' := combine tag_eqb MIN RALL A' B' (event_comb k (val A') (val B')).

  Lemma agg_nn_f : nn (val A').
  Proof. apply upd_nn. intros w ot I. apply in_map_iff in I as [x [E _]]. inversion E. apply Nf. Qed.
  Lemma agg_nn_g : nn (val B').
  Proof. apply upd_nn. intros w ot I. apply in_map_iff in I as [x [E _]]. inversion E. apply Ng. Qed.

  Lemma onecomb_tight l r v : In l xs -> In r ys ->
    ele v (ext_add (ext_add k (val A')) (val B')) ->
    v = ext_add (ext_add k (f l)) (g r) -> v <> PInf ->
    In (v, Some (l, r)) (cands C').
  Proof.
    intros Il Ir Le E NE.
    pose proof (agg_le RALL xs f l Il) as La. pose proof (agg_le RALL ys g r Ir) as Lb.
    assert (ext_add (ext_add k (val A')) (val B') = ext_add (ext_add k (f l)) (g r)) as Eq.
    { apply ele_antisym; [apply ext_add_mono; [apply ext_add_mono; [apply ele_refl|]|]; assumption|].
      rewrite <- E. exact Le. }
    destruct (ext_sum_tight k (val A') (val B') (f l) (g r) Nk agg_nn_f agg_nn_g La Lb Eq) as [Ea Eb].
    { rewrite <- E. exact NE. }
    rewrite E, <- Eq. apply comb_complete; apply agg_tags_complete; auto.
  Qed.
End OneCombAll.

Section CellAll.
  Variables (S : stree) (c : costs) (ta tb : ttree) (s : path).
  Let A x := val (tread ta x).
  Let B x := val (tread tb x).
  Hypothesis Hh : nn (c_hgt c).
  Hypothesis NA : forall x, nn (A x).
  Hypothesis NB : forall x, nn (B x).

  Notation cellv := (val (cell S c RALL ta tb s)).
  Notation b1 := (B1 S c RALL ta tb s).
  Notation b2 := (B2 S c RALL ta tb s).

  Lemma RALL_not_none : RALL <> RNONE. Proof. discriminate. Qed.

  Lemma cell_in_batch_tag l r : cellv <> PInf -> In (cellv, Some (l, r)) (b1 ++ b2) ->
    In (l, r) (tags (cell S c RALL ta tb s)).
  Proof.
    rewrite cell_two_batches. apply cu2_tags_complete. apply batches_nn; auto.
  Qed.

  Lemma nnA1 x : nn (ext_add (A x) (Fin (c_floss c * (dist s x - 1)))). Proof. apply nn_add; [apply NA|apply nn_Fin]. Qed.
  Lemma nnB1 x : nn (ext_add (B x) (Fin (c_floss c * (dist s x - 1)))). Proof. apply nn_add; [apply NB|apply nn_Fin]. Qed.
  Lemma nnA0 x : nn (ext_add (A x) (Fin (c_floss c * dist s x))). Proof. apply nn_add; [apply NA|apply nn_Fin]. Qed.
  Lemma nnB0 x : nn (ext_add (B x) (Fin (c_floss c * dist s x))). Proof. apply nn_add; [apply NB|apply nn_Fin]. Qed.

  Lemma le_batch w t : In (w, Some t) (b1 ++ b2) -> ele cellv w.
  Proof. apply (cell_le_batch S c RALL ta tb s Hh NA NB). Qed.

  Lemma fam_S l r : In l (snodes S) -> In r (snodes S) -> spe_cfg s l r = true ->
    cellv = vS c ta tb s l r -> cellv <> PInf -> In (cellv, Some (l, r)) (b1 ++ b2).
  Proof.
    intros Il Ir Cf V NE.
    assert (sleaf S s = false) as NL.
    { unfold spe_cfg, in_left, in_right in Cf. apply orb_true_iff in Cf as [H|H]; apply andb_true_iff in H as [H _];
        apply anc_snoc_inv in H as [y ->]; apply snodes_valid in Il; eapply valid_sp_not_leaf; eauto. }
    apply in_or_app. left. unfold B1. rewrite NL. unfold spe_batch.
    unfold spe_cfg, in_left, in_right in Cf. apply orb_true_iff in Cf as [H|H]; apply andb_true_iff in H as [H1 H2];
      apply in_or_app; [left|right].
    - assert (In l (under S (s ++ [false]))) as Ul by (apply under_In; auto).
      assert (In r (under S (s ++ [true]))) as Ur by (apply under_In; auto).
      apply (onecomb_tight (Fin (c_spe c)) _ _ _ _ (nn_Fin _) nnA1 nnB1 l r cellv Ul Ur); auto.
      destruct (onecomb_lower RALL (Fin (c_spe c)) (under S (s ++ [false])) (under S (s ++ [true]))
                  (fun x => ext_add (A x) (Fin (c_floss c * (dist s x - 1))))
                  (fun x => ext_add (B x) (Fin (c_floss c * (dist s x - 1)))) l r RALL_not_none Ul Ur) as [t [It _]].
      apply (le_batch _ t).
      apply in_or_app. left. unfold B1. rewrite NL. unfold spe_batch. apply in_or_app. left. exact It.
    - assert (In l (under S (s ++ [true]))) as Ul by (apply under_In; auto).
      assert (In r (under S (s ++ [false]))) as Ur by (apply under_In; auto).
      apply (onecomb_tight (Fin (c_spe c)) _ _ _ _ (nn_Fin _) nnA1 nnB1 l r cellv Ul Ur); auto.
      destruct (onecomb_lower RALL (Fin (c_spe c)) (under S (s ++ [true])) (under S (s ++ [false]))
                  (fun x => ext_add (A x) (Fin (c_floss c * (dist s x - 1))))
                  (fun x => ext_add (B x) (Fin (c_floss c * (dist s x - 1)))) l r RALL_not_none Ul Ur) as [t [It _]].
      apply (le_batch _ t).
      apply in_or_app. left. unfold B1. rewrite NL. unfold spe_batch. apply in_or_app. right. exact It.
  Qed.

  Lemma fam_D l r : In l (snodes S) -> In r (snodes S) -> anc s l = true -> anc s r = true ->
    cellv = vD c ta tb s l r -> cellv <> PInf -> In (cellv, Some (l, r)) (b1 ++ b2).
  Proof.
    intros Il Ir Al Ar V NE.
    assert (In l (under S s)) as Ul by (apply under_In; auto).
    assert (In r (under S s)) as Ur by (apply under_In; auto).
    apply in_or_app. right. unfold B2, dt_batch. apply in_or_app. left.
    apply (onecomb_tight (Fin (c_dup c)) _ _ _ _ (nn_Fin _) nnA0 nnB0 l r cellv Ul Ur); auto.
    destruct (onecomb_lower RALL (Fin (c_dup c)) (under S s) (under S s)
                (fun x => ext_add (A x) (Fin (c_floss c * dist s x)))
                (fun x => ext_add (B x) (Fin (c_floss c * dist s x))) l r RALL_not_none Ul Ur) as [t [It _]].
    apply (le_batch _ t).
    apply in_or_app. right. unfold B2, dt_batch. apply in_or_app. left. exact It.
  Qed.

  Lemma fam_TL l r : In l (snodes S) -> In r (snodes S) -> anc s l = true -> separate s r = true ->
    cellv = vTL c ta tb s l r -> cellv <> PInf -> In (cellv, Some (l, r)) (b1 ++ b2).
  Proof.
    intros Il Ir Al Ar V NE.
    assert (In l (under S s)) as Ul by (apply under_In; auto).
    assert (In r (separate_from S s)) as Ur by (apply separate_In; auto).
    apply in_or_app. right. unfold B2, dt_batch. apply in_or_app. right. apply in_or_app. right.
    apply (onecomb_tight (c_hgt c) _ _ _ _ Hh nnA0 NB l r cellv Ul Ur); auto.
    destruct (onecomb_lower RALL (c_hgt c) (under S s) (separate_from S s)
                (fun x => ext_add (A x) (Fin (c_floss c * dist s x)))
                (fun x => B x) l r RALL_not_none Ul Ur) as [t [It _]].
    apply (le_batch _ t).
    apply in_or_app. right. unfold B2, dt_batch. apply in_or_app. right. apply in_or_app. right. exact It.
  Qed.

  Lemma fam_TR l r : In l (snodes S) -> In r (snodes S) -> separate s l = true -> anc s r = true ->
    cellv = vTR c ta tb s l r -> cellv <> PInf -> In (cellv, Some (l, r)) (b1 ++ b2).
  Proof.
    intros Il Ir Al Ar V NE.
    assert (In l (separate_from S s)) as Ul by (apply separate_In; auto).
    assert (In r (under S s)) as Ur by (apply under_In; auto).
    apply in_or_app. right. unfold B2, dt_batch. apply in_or_app. right. apply in_or_app. left.
    apply (onecomb_tight (c_hgt c) _ _ _ _ Hh NA nnB0 l r cellv Ul Ur); auto.
    destruct (onecomb_lower RALL (c_hgt c) (separate_from S s) (under S s)
                (fun x => A x)
                (fun x => ext_add (B x) (Fin (c_floss c * dist s x))) l r RALL_not_none Ul Ur) as [t [It _]].
    apply (le_batch _ t).
    apply in_or_app. right. unfold B2, dt_batch. apply in_or_app. right. apply in_or_app. left. exact It.
  Qed.

  Theorem cell_tag_complete l r : In l (snodes S) -> In r (snodes S) -> cellv <> PInf ->
    cellv = ext_add (ocost c s l r) (ext_add (A l) (B r)) -> In (l, r) (tags (cell S c RALL ta tb s)).
  Proof.
    intros Il Ir NE E. apply cell_in_batch_tag; auto.
    assert (forall b v, ocost c s l r = guard b v -> b = true /\ cellv = ext_add v (ext_add (A l) (B r))) as G.
    { intros b v Eo. rewrite Eo in E. destruct b; [split; auto|]. exfalso. apply NE. rewrite E. reflexivity. }
    unfold ocost in G.
    destruct (ext_min_cases (guard (spe_cfg s l r) (Fin (c_spe c + c_floss c * (dist s l + dist s r - 2))))
      (ext_min (guard (anc s l && anc s r) (Fin (c_dup c + c_floss c * (dist s l + dist s r))))
        (ext_min (guard (anc s l && separate s r) (ext_add (c_hgt c) (Fin (c_floss c * dist s l))))
                 (guard (separate s l && anc s r) (ext_add (c_hgt c) (Fin (c_floss c * dist s r))))))) as [E1|E1];
      rewrite E1 in G; [|
    destruct (ext_min_cases (guard (anc s l && anc s r) (Fin (c_dup c + c_floss c * (dist s l + dist s r))))
        (ext_min (guard (anc s l && separate s r) (ext_add (c_hgt c) (Fin (c_floss c * dist s l))))
                 (guard (separate s l && anc s r) (ext_add (c_hgt c) (Fin (c_floss c * dist s r)))))) as [E2|E2];
      rewrite E2 in G; [|
    destruct (ext_min_cases (guard (anc s l && separate s r) (ext_add (c_hgt c) (Fin (c_floss c * dist s l))))
                 (guard (separate s l && anc s r) (ext_add (c_hgt c) (Fin (c_floss c * dist s r))))) as [E3|E3];
      rewrite E3 in G]].
    - destruct (G _ _ eq_refl) as [Cf V]. unfold A, B in V. rewrite <- (vS_eq c ta tb s) in V. now apply fam_S.
    - destruct (G _ _ eq_refl) as [Cf V]. unfold A, B in V. rewrite <- (vD_eq c ta tb s) in V.
      apply andb_true_iff in Cf as [Al Ar]. now apply fam_D.
    - destruct (G _ _ eq_refl) as [Cf V]. unfold A, B in V. rewrite <- (vTL_eq c ta tb s Hh) in V.
      apply andb_true_iff in Cf as [Al Ar]. now apply fam_TL.
    - destruct (G _ _ eq_refl) as [Cf V]. unfold A, B in V. rewrite <- (vTR_eq c ta tb s Hh) in V.
      apply andb_true_iff in Cf as [Al Ar]. now apply fam_TR.
  Qed.
End CellAll.

(** * the whole table *)
Lemma row_lookup_spec {X} (P : X -> bool) (key : X -> path) (e : X -> entry tag) (l : list X) s v :
  row_lookup (flat_map (fun x => if P x then [] else [(key x, e x)]) l) s = Some v ->
  exists x, In x l /\ key x = s /\ P x = false /\ v = e x.
Proof.
  induction l as [|y l IH]; simpl; [discriminate|].
  destruct (P y) eqn:Py; simpl.
  - intros H. destruct (IH H) as [x [I R]]. exists x. split; auto.
  - destruct (path_eqb_spec s (key y)) as [->|N].
    + intros [= <-]. exists y. auto.
    + intros H. destruct (IH H) as [x [I R]]. exists x. split; auto.
Qed.

Lemma row_lookup_found (P : path -> bool) (e : path -> entry tag) (l : list path) s :
  In s l -> P s = false ->
  row_lookup (flat_map (fun x => if P x then [] else [(x, e x)]) l) s = Some (e s).
Proof.
  induction l as [|y l IH]; simpl; [tauto|]. intros I Ps.
  destruct (P y) eqn:Py; simpl.
  - destruct I as [->|I]; [congruence|auto].
  - destruct (path_eqb_spec s y) as [->|N]; [reflexivity|]. destruct I as [->|I]; [congruence|auto].
Qed.

Section TableNode.
  Variables (S : stree) (c : costs) (rp : ret) (ta tb : ttree).
  Hypothesis Hh : nn (c_hgt c).
  Hypothesis NA : forall x, nn (val (tread ta x)).
  Hypothesis NB : forall x, nn (val (tread tb x)).
  Let T := TNode (node_row S c rp ta tb) ta tb.

  Lemma tread_node_some s e : row_lookup (node_row S c rp ta tb) s = Some e ->
    In s (snodes S) /\ e = cell S c rp ta tb s /\ ext_is_inf (val e) = false.
  Proof.
    unfold node_row. intros H.
    apply (row_lookup_spec (fun x => ext_is_inf (val (cell S c rp ta tb x))) (fun x => x)) in H
      as [x [I [<- [F ->]]]]. auto.
  Qed.

  Lemma tread_node_val s : In s (snodes S) -> val (tread T s) = val (cell S c rp ta tb s).
  Proof.
    intros I. unfold T. cbn [tread]. destruct (ext_is_inf (val (cell S c rp ta tb s))) eqn:F.
    - destruct (row_lookup (node_row S c rp ta tb) s) as [e|] eqn:L.
      + apply tread_node_some in L as [_ [-> F']]. congruence.
      + simpl. symmetry. apply nn_inf_PInf; auto. apply cell_nn; auto.
    - unfold node_row.
      rewrite (row_lookup_found (fun x => ext_is_inf (val (cell S c rp ta tb x))) (cell S c rp ta tb) _ s I F).
      reflexivity.
  Qed.

  Lemma tread_node_nn s : nn (val (tread T s)).
  Proof.
    unfold T. cbn [tread]. destruct (row_lookup (node_row S c rp ta tb) s) as [e|] eqn:L.
    - apply tread_node_some in L as [_ [-> _]]. apply cell_nn; auto.
    - apply nn_PInf.
  Qed.

  Lemma tread_node_tags s t : In t (tags (tread T s)) <->
    In s (snodes S) /\ In t (tags (cell S c rp ta tb s)).
  Proof.
    unfold T. cbn [tread]. split.
    - destruct (row_lookup (node_row S c rp ta tb) s) as [e|] eqn:L; [|intros []].
      apply tread_node_some in L as [I [-> _]]. auto.
    - intros [I H]. unfold node_row.
      assert (ext_is_inf (val (cell S c rp ta tb s)) = false) as F.
      { rewrite cell_two_batches in *. eapply cu2_tags_finite; eauto. apply batches_nn; auto. }
      rewrite (row_lookup_found (fun x => ext_is_inf (val (cell S c rp ta tb x))) (cell S c rp ta tb) _ s I F).
      exact H.
  Qed.
End TableNode.

Lemma tread_leaf_nn sp s : nn (val (tread (TLeaf sp) s)).
Proof. simpl. destruct (path_eqb s sp); simpl; discriminate. Qed.

Lemma table_nn S c rp O : nn (c_hgt c) -> forall s, nn (val (tread (thl_table S c rp O) s)).
Proof.
  intros Hh. induction O as [sp syn|a IHa b IHb]; intros s.
  - apply tread_leaf_nn.
  - cbn [thl_table]. apply tread_node_nn; auto.
Qed.

(** the table holds the clean recurrence *)
Theorem table_value S c rp O : nn (c_hgt c) -> rp <> RNONE ->
  forall s, In s (snodes S) -> val (tread (thl_table S c rp O) s) = Tval c S O s.
Proof.
  intros Hh Hrp. induction O as [sp syn|a IHa b IHb]; intros s Is.
  - simpl. destruct (path_eqb s sp); reflexivity.
  - cbn [thl_table Tval]. rewrite tread_node_val by (auto using table_nn).
    rewrite cell_value by (auto using table_nn). unfold node_val.
    apply minl_ext. intros l Il. apply minl_ext. intros r Ir. now rewrite IHa, IHb.
Qed.

(** * decoding *)
Lemma applicable_valid s l r :
  (spe_cfg s l r = true \/ (anc s l = true /\ anc s r = true) \/
   (separate s l = true /\ anc s r = true) \/ (anc s l = true /\ separate s r = true)) ->
  event s l r <> Inv.
Proof.
  intros H.
  assert ((anc s l = true /\ anc s r = true) \/ (separate s l = true /\ anc s r = true) \/
          (anc s l = true /\ separate s r = true)) as H'.
  { destruct H as [H|H]; auto. left. now apply spe_cfg_anc. }
  clear H. unfold event, separate in *. destruct H' as [[Al Ar]|[[Sl Ar]|[Al Sr]]].
  - rewrite (sanc_false_of_anc _ _ Al), (sanc_false_of_anc _ _ Ar), Al, Ar. simpl.
    destruct (path_eqb s (lcp l r) && negb (comparable l r)); discriminate.
  - apply andb_true_iff in Sl as [S1 S2]. apply negb_true_iff in S1, S2.
    rewrite (sanc_false_of_anc _ _ Ar). unfold sanc. rewrite S2, S1, Ar. simpl. discriminate.
  - apply andb_true_iff in Sr as [S1 S2]. apply negb_true_iff in S1, S2.
    rewrite (sanc_false_of_anc _ _ Al). unfold sanc. rewrite S2, S1, Al. simpl. discriminate.
Qed.

(** every decoded reconciliation is valid and rooted where asked (no hypothesis on the costs
    beyond "the transfer cost is not -inf") *)
Theorem decode_valid S c rp O : nn (c_hgt c) -> leaves_ok S O ->
  forall s r, In r (decode (thl_table S c rp O) s) -> valid_rec S O r /\ root r = s.
Proof.
  intros Hh. induction O as [sp syn|a IHa b IHb]; intros L s r H.
  - cbn [thl_table decode tread] in H. destruct (path_eqb_spec s sp) as [->|N]; simpl in H.
    + destruct H as [<-|[]]. split; [now constructor|reflexivity].
    + destruct H.
  - destruct L as [La Lb]. cbn [thl_table decode] in H.
    apply in_flat_map in H as [[l r'] [Ht H]]. apply in_flat_map in H as [ra [Ha H]].
    apply in_map_iff in H as [rb [<- Hb]]. cbn [fst snd] in *.
    apply tread_node_tags in Ht as [Is Ht]; auto using table_nn.
    destruct (cell_tag_sound S c rp _ _ s Hh (table_nn S c rp a Hh) (table_nn S c rp b Hh) l r' Ht)
      as [Il [Ir [F X]]].
    destruct (IHa La l ra Ha) as [Va Ra]. destruct (IHb Lb r' rb Hb) as [Vb Rb].
    split; [|reflexivity]. constructor; auto; [now apply snodes_valid|].
    rewrite Ra, Rb. apply applicable_valid. tauto.
Qed.

(** inside the coherent region a decoded reconciliation costs exactly the cell it was decoded from *)
Theorem decode_cost S c rp O : nn (c_hgt c) -> rp <> RNONE -> 0 <= c_floss c -> coherent c -> leaves_ok S O ->
  forall s r, In r (decode (thl_table S c rp O) s) ->
  cost c O r = val (tread (thl_table S c rp O) s) /\ In s (snodes S).
Proof.
  intros Hh Hrp Hf Hc. induction O as [sp syn|a IHa b IHb]; intros L s r H.
  - cbn [thl_table decode tread] in *. destruct (path_eqb_spec s sp) as [->|N]; simpl in H.
    + destruct H as [<-|[]]. simpl. rewrite path_eqb_refl. split; auto. now apply snodes_valid.
    + destruct H.
  - destruct L as [La Lb]. pose proof H as H0. cbn [thl_table decode] in H.
    apply in_flat_map in H as [[l r'] [Ht H]]. apply in_flat_map in H as [ra [Ha H]].
    apply in_map_iff in H as [rb [<- Hb]]. cbn [fst snd] in *.
    apply tread_node_tags in Ht as [Is Ht]; auto using table_nn.
    destruct (cell_tag_value S c rp _ _ s Hh (table_nn S c rp a Hh) (table_nn S c rp b Hh) Hrp l r' Ht)
      as [Il [Ir [F V]]].
    destruct (IHa La l ra Ha) as [Ca _]. destruct (IHb Lb r' rb Hb) as [Cb _].
    destruct (decode_valid S c rp a Hh La l ra Ha) as [_ Ra].
    destruct (decode_valid S c rp b Hh Lb r' rb Hb) as [_ Rb].
    split; auto. cbn [thl_table]. rewrite tread_node_val by (auto using table_nn). rewrite V.
    cbn [cost]. rewrite Ra, Rb, Ca, Cb, (ocost_ecost c s l r' Hf Hc).
    destruct (decode_valid S c rp (ONode a b) Hh (conj La Lb) s _ H0) as [Vr _].
    inversion Vr as [|? ? ? ? ? _ Ev _ _]. rewrite Ra, Rb in Ev.
    destruct (event s l r'); congruence.
Qed.

(** a finite cell decodes to something *)
Theorem decode_nonempty S c rp O : nn (c_hgt c) -> rp <> RNONE ->
  forall s, In s (snodes S) -> val (tread (thl_table S c rp O) s) <> PInf ->
  decode (thl_table S c rp O) s <> [].
Proof.
  intros Hh Hrp. induction O as [sp syn|a IHa b IHb]; intros s Is NE.
  - cbn [thl_table decode tread] in *. destruct (path_eqb s sp); simpl in *; congruence.
  - cbn [thl_table] in *. rewrite tread_node_val in NE by (auto using table_nn).
    (* a finite cell has a tag, whose sub-cells are finite *)
    assert (exists l r, In (l, r) (tags (cell S c rp (thl_table S c rp a) (thl_table S c rp b) s))) as [l [r Ht]].
    { rewrite cell_two_batches in *.
      destruct (cu2_attained rp _ _ NE) as [ot I].
      destruct (batches_some S c rp _ _ s _ _ I) as [t ->].
      assert (tags (cell_upd rp (cell_upd rp (default_entry MIN) (B1 S c rp (thl_table S c rp a) (thl_table S c rp b) s))
                (B2 S c rp (thl_table S c rp a) (thl_table S c rp b) s)) <> []) as NT.
      { rewrite e2_applied in *. apply (upd_tags_nonempty tag_eqb tag_eqb_spec rp _ t Hrp).
        apply in_applied; auto. apply batches_nn; auto using table_nn. }
      destruct (tags _) as [|[l r] tl] eqn:E; [congruence|]. exists l, r. now left. }
    destruct (cell_tag_value S c rp _ _ s Hh (table_nn S c rp a Hh) (table_nn S c rp b Hh) Hrp l r Ht)
      as [Il [Ir [F V]]].
    assert (val (tread (thl_table S c rp a) l) <> PInf /\ val (tread (thl_table S c rp b) r) <> PInf) as [Fa Fb].
    { rewrite V in F. split; intros X; rewrite X in F.
      - destruct (ocost c s l r); discriminate.
      - destruct (ocost c s l r), (val (tread (thl_table S c rp a) l)); discriminate. }
    specialize (IHa l Il Fa). specialize (IHb r Ir Fb).
    cbn [decode]. intros E.
    destruct (decode (thl_table S c rp a) l) as [|ra da] eqn:Da; [congruence|].
    destruct (decode (thl_table S c rp b) r) as [|rb db] eqn:Db; [congruence|].
    assert (In (RNode s ra rb) (flat_map (fun lr : tag =>
        flat_map (fun ra0 => map (fun rb0 => RNode s ra0 rb0) (decode (thl_table S c rp b) (snd lr)))
          (decode (thl_table S c rp a) (fst lr)))
        (tags (tread (TNode (node_row S c rp (thl_table S c rp a) (thl_table S c rp b)) (thl_table S c rp a) (thl_table S c rp b)) s)))) as X.
    { apply in_flat_map. exists (l, r). split.
      - apply tread_node_tags; auto using table_nn.
      - cbn [fst snd]. rewrite Da, Db. simpl. now left. }
    rewrite E in X. destruct X.
Qed.
