(** Stage 5 of the tie of [Gen/UspfsGen.v] (part of Proofs/UspfsGenProofs.v): the generated unordered super-reconciliation
    solvers against the hand-written model [Model/Uspfs.v], under the ALL policy.

    Part 0: [Decode.rcat] as a set / up to a permutation; [in_uspfs_candidates]; [udecode_node_eq].
    Part A: the synteny the code stores for a node, [sort_synteny_fn (fam_order set)], is EQUAL to the sorted list of the model
            ([uset_content]) when [fam_order] returns a permutation and [sort_synteny_fn] sorts duplicate-free lists
            ([= Uspfs.set_of]) -- the sets of the code are duplicate-free lists with the members of the model's sets.
    Part B: [decode_model]: on a table whose cells read as [emap tag_ca (utab_o ..)] (what the exact layer gives:
            [Decode.gen_uspfs_of_table], [UspfsGenMain.table_eq]) the decoder [Decode.udecode_g] never fails and its outputs,
            read as labelled trees ([lt_at]), are the trees of the model's [udecode] AS SETS, for every ancestor set with the
            members of the model's ([ord_infos]: [sameset]); [decode_model_perm]: up to a PERMUTATION when [ord_infos] returns
            a permutation; [decode_model_table] / [decode_model_table_perm]: for the table the generated table function
            returns, at every node ([tags_ok3], [leaf_tags_ok] hold);
            [candidates_model]: the candidates of [_uspfs] against [uspfs_candidates] (the code fails, on the AssertionError
            of the evaluator, iff a candidate of the model is [None]); [gen_uspfs_model]: [_uspfs], generic in the callback.
    Part C: the record [W] and the closed theorems [gen_usreconcile_extended_uspfs_model],
            [gen_usreconcile_base_uspfs_model] ([stage1_link]: STAGE 1 in the form the link uses).
    Part D: [Ex]: an instance satisfying [W] (a family gained below the root), the generated code run against the model
            (one solution; four solutions listed in different orders when every unit cost is 0), the theorems applied. *)
From Coq Require Import List Bool Arith ZArith NArith Lia Permutation.
From SR Require Gen.UspfsGen Model.Recon Model.Uspfs Base.PathB Base.Ext Model.Entry Model.LcaRec Model.Thl Proofs.PathFacts Proofs.EntryProofs Proofs.EntryGenProofs Proofs.TableGenProofs Gen.EntryGen Gen.TableGen Gen.EvalGen Proofs.ThlProofs Proofs.UspfsProofs Proofs.ThlGenProofs Proofs.EvalGenProofs Gen.ThlGen Proofs.ReconProofs Proofs.LcaProofs.
From SR Require Proofs.UspfsGenCommon Proofs.UspfsGenStatements Proofs.UspfsGenStage1 Proofs.UspfsGenEntry Proofs.UspfsGenModelPerm Proofs.UspfsGenTableExact Proofs.UspfsGenTableModel Proofs.UspfsGenProofs Proofs.UspfsGenDecode.

Module UspfsLink.
Import SR.Base.PathB SR.Base.Ext SR.Model.Entry SR.Model.Recon SR.Model.LcaRec SR.Model.Thl SR.Model.Uspfs SR.Proofs.PathFacts SR.Proofs.EntryProofs SR.Proofs.EntryGenProofs SR.Proofs.EvalGenProofs SR.Proofs.TableGenProofs SR.Proofs.ReconProofs SR.Proofs.ThlProofs SR.Proofs.LcaProofs SR.Proofs.UspfsProofs SR.Proofs.ThlGenProofs.
Import SR.Proofs.UspfsGenCommon.Common SR.Proofs.UspfsGenCommon.ModelO SR.Proofs.UspfsGenCommon.TableO SR.Proofs.UspfsGenCommon.Embed SR.Proofs.UspfsGenStatements.Statements.
Import ListNotations.
Local Open Scope Z_scope.
Module S1 := SR.Proofs.UspfsGenStage1.Stage1.
Module MP := SR.Proofs.UspfsGenModelPerm.ModelPerm.
Module TM := SR.Proofs.UspfsGenTableModel.TableModel.
Module TF := SR.Proofs.UspfsGenTableModel.TableFinal.
Module GM := SR.Proofs.UspfsGenProofs.UspfsGenMain.
Module DC := SR.Proofs.UspfsGenDecode.Decode.

(* ------------------------------------------------------------------ *)
(** * Part 0: sequential concatenations as sets *)
Lemma rcat_in {X Y} (f : X -> UG.res (list Y)) l : forall r, DC.rcat f l = UG.Ok r ->
  (forall x, In x l -> exists a, f x = UG.Ok a) /\
  forall y, In y r <-> exists x a, In x l /\ f x = UG.Ok a /\ In y a.
Proof.
  induction l as [|x l IH]; intros r E; cbn [DC.rcat] in E.
  - inversion E; subst. split; [intros x []|]. intros y. split; [intros []|intros [x [a [[] _]]]].
  - destruct (f x) as [a|] eqn:Ex; [|discriminate]. destruct (DC.rcat f l) as [r'|]; [|discriminate]. inversion E; subst. clear E.
    destruct (IH r' eq_refl) as [A Bq]. split.
    + intros x' [<-|I]; eauto.
    + intros y. rewrite in_app_iff, (Bq y). split.
      * intros [H|[x' [a' [I [E' H]]]]]; [exists x, a; split; [now left|auto]|exists x', a'; split; [now right|auto]].
      * intros [x' [a' [[<-|I] [E' H]]]]; [left; congruence|right; eauto].
Qed.

Lemma rcat_err {X Y} (f : X -> UG.res (list Y)) l e : DC.rcat f l = UG.Err e -> exists x, In x l /\ f x = UG.Err e.
Proof.
  induction l as [|x l IH]; cbn [DC.rcat]; [discriminate|].
  destruct (f x) as [a|e'] eqn:Ex.
  - destruct (DC.rcat f l) as [r'|e'']; [discriminate|]. intros E. inversion E; subst. destruct (IH eq_refl) as [x' [I E']].
    exists x'. split; [now right|exact E'].
  - intros E. inversion E; subst. exists x. split; [now left|exact Ex].
Qed.

Lemma all_some_none {X} (l : list (option X)) : In None l -> all_some l = None.
Proof.
  induction l as [|[x|] l IH]; cbn [all_some In]; [intros []| |reflexivity].
  intros [H|H]; [discriminate|]. now rewrite (IH H).
Qed.
Lemma all_some_in {X} (l : list (option X)) l' : all_some l = Some l' ->
  (forall x, In x l -> exists y, x = Some y) /\ forall y, In y l' <-> In (Some y) l.
Proof.
  intros E. assert (H : forall x, In x l -> exists y, x = Some y).
  { intros [y|] I; [eauto|]. apply all_some_none in I. congruence. }
  split; [exact H|]. destruct (all_some_spec l H) as [l2 [E2 I2]]. rewrite E in E2. inversion E2; subst l2.
  intros y. rewrite I2. rewrite in_map_iff. split; [intros Hy; exists y; auto|intros [z [Ez Hz]]; now inversion Ez; subst].
Qed.

Lemma perm_map_nil {X Y} (f : X -> Y) (l : list X) (l' : list Y) : Permutation (map f l) l' -> (l = [] <-> l' = []).
Proof.
  intros P. split.
  - intros ->. now apply Permutation_nil in P.
  - intros ->. apply Permutation_sym, Permutation_nil in P. now destruct l.
Qed.

(** concatenations up to a permutation *)
Lemma rcat_flat {X Y} (f : X -> UG.res (list Y)) (g : X -> list Y) l :
  (forall x, In x l -> f x = UG.Ok (g x)) -> DC.rcat f l = UG.Ok (flat_map g l).
Proof.
  induction l as [|x l IH]; intros H; cbn [DC.rcat flat_map]; [reflexivity|].
  rewrite (H x (or_introl eq_refl)), IH; [reflexivity|]. intros y Hy. apply H. now right.
Qed.
Lemma flat_map_map0 {X Y Z} (f : X -> Y) (g : Y -> list Z) l : flat_map g (map f l) = flat_map (fun x => g (f x)) l.
Proof. induction l as [|x l IH]; cbn [map flat_map]; [reflexivity|]. now rewrite IH. Qed.
Lemma map_flat_map0 {X Y Z} (f : Y -> Z) (g : X -> list Y) l : map f (flat_map g l) = flat_map (fun x => map f (g x)) l.
Proof. induction l as [|x l IH]; cbn [map flat_map]; [reflexivity|]. now rewrite map_app, IH. Qed.
Lemma perm_flat_map_ext {X Y} (f g : X -> list Y) l :
  (forall x, In x l -> Permutation (f x) (g x)) -> Permutation (flat_map f l) (flat_map g l).
Proof.
  induction l as [|x l IH]; intros H; cbn [flat_map]; [constructor|].
  apply Permutation_app; [apply H; now left|apply IH; intros y Hy; apply H; now right].
Qed.
Lemma perm_prod {X Y Z} (F : X -> Y -> Z) l l' m m' : Permutation l l' -> Permutation m m' ->
  Permutation (flat_map (fun x => map (F x) m) l) (flat_map (fun x => map (F x) m') l').
Proof.
  intros Pl Pm. eapply Permutation_trans; [apply Permutation_flat_map; exact Pl|].
  apply perm_flat_map_ext. intros x _. now apply Permutation_map.
Qed.

(** the decoder of the model at an internal node, as a list *)
Lemma udecode_node_eq S c rp extended total a b k P :
  udecode (utab S c rp extended total (ONode a b)) (annotate total (ONode a b)) k P =
  flat_map (fun lr : utag =>
      flat_map (fun ta => map (fun tb => LNode (fst k) (ucontent total P (ONode a b) (snd k)) ta tb)
                              (udecode (utab S c rp extended total b) (annotate total b) (snd lr) (ucontent total P (ONode a b) (snd k))))
               (udecode (utab S c rp extended total a) (annotate total a) (fst lr) (ucontent total P (ONode a b) (snd k))))
    (tags (uread (utab S c rp extended total (ONode a b)) k)).
Proof. rewrite utab_node. reflexivity. Qed.

Lemma find_sid (l : list (@UG.STree path)) s : In s (sids3 l) ->
  exists rs, find (fun n => path_eqb (UG.STree_id n) s) l = Some rs /\ In rs l /\ UG.STree_id rs = s.
Proof.
  induction l as [|x l IH]; cbn [sids3 map In find]; [intros []|].
  destruct (path_eqb_spec (UG.STree_id x) s) as [E|NE].
  - intros _. exists x. auto.
  - intros [E|I]; [congruence|]. destruct (IH I) as [rs [E1 [E2 E3]]]. exists rs. auto.
Qed.

Lemma in_uspfs_candidates S c rp extended O x : In x (uspfs_candidates S c rp extended O) <->
  exists s lt, In s (snodes S) /\
    In lt (udecode (utab S c rp extended (ototal O) O) (annotate_top O) (s, false) (u_lca (annotate_top O))) /\
    x = option_map (fun v => (v, Some lt)) (total_cost c O false lt).
Proof.
  unfold uspfs_candidates. cbv zeta. rewrite in_flat_map. split.
  - intros [s [Hs H]]. apply in_map_iff in H as [lt [<- Hlt]]. exists s, lt. auto.
  - intros [s [lt [Hs [Hlt ->]]]]. exists s. split; [exact Hs|]. apply in_map_iff. exists lt. auto.
Qed.

(* ------------------------------------------------------------------ *)
(** * Part A: the synteny the code stores is the sorted list of the model *)
Section Syn.
  Variables (fam_order sort_synteny_fn : list fam -> list fam).
  Hypothesis fam_perm : forall l, Permutation l (fam_order l).
  Hypothesis sort_spec : forall l, NoDup l -> sort_synteny_fn l = set_of l.

  Lemma usynteny_sorted (X Y : list fam) : NoDup X -> sameset X Y -> ssorted Y -> DC.usynteny fam_order sort_synteny_fn X = Y.
  Proof.
    intros N Sm Sy. unfold DC.usynteny. rewrite sort_spec by (eapply Permutation_NoDup; [apply fam_perm|exact N]).
    apply ssorted_ext; [apply ssorted_set_of|exact Sy|]. intros x. rewrite In_set_of, <- (Sm x). split.
    - apply Permutation_in, Permutation_sym, fam_perm.
    - apply Permutation_in, fam_perm.
  Qed.

  Lemma uset_content {node_id} (LS GS : node_id -> list fam) total (o : otree) k asyn P i :
    NoDup asyn -> sameset asyn P -> NoDup (LS i) -> sameset (LS i) (u_lca (annotate total o)) ->
    sameset (GS i) (u_gain (annotate total o)) ->
    NoDup (DC.uset LS GS k asyn i) /\ sameset (DC.uset LS GS k asyn i) (ucontent total P o k) /\
    DC.usynteny fam_order sort_synteny_fn (DC.uset LS GS k asyn i) = ucontent total P o k.
  Proof.
    intros N0 S0 NL SL SG.
    assert (A : NoDup (DC.uset LS GS k asyn i) /\ sameset (DC.uset LS GS k asyn i) (ucontent total P o k)).
    { unfold DC.uset, ucontent. destruct k.
      - split; [now apply (S1.NoDup_gset_union N.eqb N.eqb_spec)|]. intros x.
        rewrite (S1.In_gset_union N.eqb N.eqb_spec), In_set_union, (S0 x), (SG x). reflexivity.
      - split; [exact NL|exact SL]. }
    destruct A as [A1 A2]. split; [exact A1|]. split; [exact A2|]. apply usynteny_sorted; [exact A1|exact A2|].
    unfold ucontent. destruct k; [apply ssorted_set_union, ssorted_u_gain|apply ssorted_u_lca].
  Qed.
End Syn.

(* ------------------------------------------------------------------ *)
(** * Part B: the code against the model, for a species callback [AS] that answers the allowed species of the model *)
Section Link.
  Context {lca node_id : Type} (nid_eqb : node_id -> node_id -> bool).
  Hypothesis nid_eqb_spec : forall a b, reflect (a = b) (nid_eqb a b).
  Notation tree := (EV.TreeNode node_id).
  Notation gsem3 := (gsem3 nid_eqb).
  Notation oids l := (map (@EV.TreeNode_id node_id) l).
  Notation post := (@UG.TreeNode_postorder node_id).
  Notation tid := (@EV.TreeNode_id node_id).
  Variables (lcaobj : lca) (S : stree) (c : costs) (leafsp : node_id -> path) (syn : node_id -> list fam) (O : tree).
  Variables (missing : node_id -> path) (missing_syn : node_id -> list fam) (ord_infos : list ca -> list ca).
  Variables (fam_order sort_synteny_fn : list fam -> list fam).
  Notation ST := (sembed3 S []).
  Notation ot := (otree_of leafsp syn).
  Notation lev := (sids3 (UG.STree_levelorder ST)).
  Notation sin := (EV.mk_sin O lcaobj leafsp (stsocc c) syn).
  Notation DIST := (fun (_ : lca) => dist).
  Notation ANC := (fun (_ : lca) => anc).
  Notation SANC := (fun (_ : lca) => sanc).
  Notation COMP := (fun (_ : lca) => comparable).
  Notation LCP := (fun (_ : lca) => lcp).
  Variables (extended : bool) (AS : @UG.STree path -> tree -> list (@UG.STree path)).
  Notation AS' := (fun u : tree => sids3 (AS ST u)).

  (** the well-formedness hypotheses *)
  Hypothesis Hh : nn (c_hgt c).
  Hypothesis ord_same : forall l, sameset (ord_infos l) l.
  Hypothesis fam_perm : forall l, Permutation l (fam_order l).
  Hypothesis sort_spec : forall l, NoDup l -> sort_synteny_fn l = set_of l.

  Lemma ord_incl : forall l m, In m (ord_infos l) -> In m l.
  Proof. intros l m. apply ord_same. Qed.

  Lemma lev_same : sameset lev (snodes S).
  Proof. apply lev_sameset. Qed.

  (** ** dictionaries kept as the lists of their stores *)
  Definition dget {V} (mis : node_id -> V) (d : list (node_id * V)) (n : node_id) : V :=
    match UG.dict_get nid_eqb d n with Some v => v | None => mis n end.
  Lemma ug_get_app {V} (d1 d2 : list (node_id * V)) k :
    UG.dict_get nid_eqb (d1 ++ d2) k = match UG.dict_get nid_eqb d1 k with Some v => Some v | None => UG.dict_get nid_eqb d2 k end.
  Proof. induction d1 as [|[k' v] d1 IH]; cbn; [reflexivity|]. destruct (nid_eqb k k'); auto. Qed.
  Lemma ug_get_none {V} (d : list (node_id * V)) k : ~ In k (map fst d) -> UG.dict_get nid_eqb d k = None.
  Proof.
    induction d as [|[k' v] d IH]; cbn; [reflexivity|]. intros H.
    destruct (nid_eqb_spec k k') as [->|NE]; [exfalso; apply H; now left|]. apply IH. intros Hk. apply H. now right.
  Qed.
  Lemma ug_get_some {V} (d : list (node_id * V)) k : In k (map fst d) -> exists v, UG.dict_get nid_eqb d k = Some v.
  Proof.
    induction d as [|[k' v] d IH]; cbn; [intros []|]. intros H.
    destruct (nid_eqb_spec k k') as [->|NE]; [eauto|]. destruct H as [H|H]; [congruence|auto].
  Qed.

  Lemma dget_merge {V} (mis : node_id -> V) (dl dr : list (node_id * V)) i v (A B : list node_id) :
    NoDup (A ++ B ++ [i]) -> sameset (map fst dl) A -> sameset (map fst dr) B ->
    dget mis (dr ++ dl ++ [(i, v)]) i = v /\
    (forall n, In n A -> dget mis (dr ++ dl ++ [(i, v)]) n = dget mis dl n) /\
    (forall n, In n B -> dget mis (dr ++ dl ++ [(i, v)]) n = dget mis dr n).
  Proof.
    intros NDx Kl Kr. destruct (S1.nodup_app_inv _ _ NDx) as [_ [NBi DA]]. destruct (S1.nodup_app_inv _ _ NBi) as [_ [_ DB]].
    unfold dget. split; [|split].
    - rewrite !ug_get_app, (ug_get_none dr i), (ug_get_none dl i).
      + cbn. destruct (nid_eqb_spec i i); congruence.
      + intros H. apply Kl in H. apply (DA i H). rewrite in_app_iff. right. now left.
      + intros H. apply Kr in H. apply (DB i H). now left.
    - intros n Hn. rewrite !ug_get_app, (ug_get_none dr n).
      + destruct (ug_get_some dl n (proj2 (Kl n) Hn)) as [w ->]. reflexivity.
      + intros H. apply Kr in H. apply (DA n Hn). rewrite in_app_iff. now left.
    - intros n Hn. rewrite !ug_get_app. destruct (ug_get_some dr n (proj2 (Kr n) Hn)) as [w ->]. reflexivity.
  Qed.

  (** the labelled tree two dictionaries denote on a subtree *)
  Definition lt_at (t : tree) (d : @DC.dout node_id) : ltree :=
    ltree_of (UG.dict_fun nid_eqb missing (fst d)) (UG.dict_fun_syn nid_eqb missing_syn (snd d)) t.
  Lemma lt_at_dget t d : lt_at t d = ltree_of (dget missing (fst d)) (dget missing_syn (snd d)) t.
  Proof. reflexivity. Qed.

  Lemma ltree_of_ext f f' g g' (t : tree) : (forall n, In n (oids (post t)) -> f n = f' n /\ g n = g' n) ->
    ltree_of f g t = ltree_of f' g' t.
  Proof.
    induction t as [i|i a IHa b IHb]; intros E; cbn [ltree_of UG.TreeNode_postorder] in *.
    - destruct (E i (or_introl eq_refl)) as [-> ->]. reflexivity.
    - rewrite !map_app in E. cbn [map EV.TreeNode_id] in E.
      destruct (E i) as [-> ->]; [rewrite !in_app_iff; right; right; now left|]. f_equal.
      + apply IHa. intros n Hn. apply E. rewrite !in_app_iff. now left.
      + apply IHb. intros n Hn. apply E. rewrite !in_app_iff. right. now left.
  Qed.

  Lemma ltree_merge i (a b : tree) s y (dl dr : @DC.dout node_id) :
    NoDup (oids (post a) ++ oids (post b) ++ [i]) ->
    sameset (map fst (fst dl)) (oids (post a)) -> sameset (map fst (snd dl)) (oids (post a)) ->
    sameset (map fst (fst dr)) (oids (post b)) -> sameset (map fst (snd dr)) (oids (post b)) ->
    lt_at (EV.TreeNode_node i a b) (fst dr ++ fst dl ++ [(i, s)], snd dr ++ snd dl ++ [(i, y)]) = LNode s y (lt_at a dl) (lt_at b dr).
  Proof.
    intros NDx K1 K2 K3 K4. rewrite !lt_at_dget. cbn [fst snd ltree_of].
    destruct (dget_merge missing (fst dl) (fst dr) i s _ _ NDx K1 K3) as [E1 [E2 E3]].
    destruct (dget_merge missing_syn (snd dl) (snd dr) i y _ _ NDx K2 K4) as [F1 [F2 F3]].
    rewrite E1, F1. f_equal; apply ltree_of_ext; intros n Hn; auto.
  Qed.

  Lemma lt_at_leaf i s y : lt_at (EV.TreeNode_leaf i) ([(i, s)], [(i, y)]) = LLeaf s y.
  Proof.
    rewrite lt_at_dget. cbn [fst snd ltree_of]. unfold dget. cbn [UG.dict_get]. destruct (nid_eqb_spec i i); [reflexivity|congruence].
  Qed.
  (** ** L2: the decoder *)
  Section DecodeModel.
  Variables (total : fam -> nat) (LS GS : node_id -> list fam) (G : node_id -> path -> bool -> entry ca).
  Notation UA v := (annotate total (ot v)).
  Notation TC := (utab_o S c RALL leafsp lev AS' LS).
  Notation UDG := (DC.udecode_g ord_infos fam_order sort_synteny_fn LS GS G).
  Notation tabM o := (utab S c RALL extended total o).
  Notation USET := (DC.uset LS GS).
  Notation USYN := (DC.usynteny fam_order sort_synteny_fn).

  (** what the hypotheses say about the nodes of a subtree: the cells read as those of [utab_o]; the callback answers the
      allowed species of the model; the two dictionaries read as duplicate-free lists of the members of the model's sets *)
  Definition cells_ok (t : tree) : Prop :=
    forall u, In u (post t) -> forall x k, G (tid u) x k = emap tag_ca (TC u (x, k)).
  Definition allowed_model (t : tree) : Prop :=
    forall u, In u (post t) -> EV.TreeNode_is_leaf u = false -> sameset (AS' u) (uallowed S extended (ot u)).
  Definition sets_model (t : tree) : Prop :=
    forall u, In u (post t) ->
      NoDup (LS (tid u)) /\ sameset (LS (tid u)) (u_lca (UA u)) /\ sameset (GS (tid u)) (u_gain (UA u)).

  Theorem decode_model (t : tree) : NoDup (oids (post t)) -> cells_ok t -> allowed_model t -> sets_model t ->
    forall (k : uassign) asyn P, NoDup asyn -> sameset asyn P ->
    exists outs, UDG t (fst k) (snd k) asyn = UG.Ok outs /\
      sameset (map (lt_at t) outs) (udecode (tabM (ot t)) (UA t) k P) /\
      (forall d, In d outs -> sameset (map fst (fst d)) (oids (post t)) /\ sameset (map fst (snd d)) (oids (post t))).
  Proof.
    induction t as [i|i a IHa b IHb]; intros NDt HG HAS HS [s k] asyn P N0 S0; cbn [fst snd] in *.
    - destruct (HS _ (or_introl eq_refl)) as [NL [SL SG]]. cbn [EV.TreeNode_id] in NL, SL, SG.
      destruct (uset_content fam_order sort_synteny_fn fam_perm sort_spec LS GS total (ot (EV.TreeNode_leaf i)) k asyn P i N0 S0 NL SL SG)
        as [_ [_ Ey]].
      cbn [DC.udecode_g otree_of]. rewrite udecode_leaf.
      pose proof (HG _ (or_introl eq_refl) s k) as HGi. cbn [EV.TreeNode_id utab_o] in HGi. rewrite HGi.
      destruct (uassign_eqb_spec (s, k) (leafsp i, false)) as [E|NE].
      + inversion E; subst s k. cbn [emap val ext_is_inf]. eexists. split; [reflexivity|]. split.
        * cbn [map]. rewrite lt_at_leaf, Ey. cbn [otree_of ucontent annotate u_lca]. intros x; tauto.
        * intros d [<-|[]]. cbn [fst snd map UG.TreeNode_postorder EV.TreeNode_id]. split; intros x; tauto.
      + cbn [emap default_entry val tags init_val ext_is_inf map]. rewrite (DC.ord_nil ord_infos ord_incl).
        exists []. split; [reflexivity|]. split; [intros x; cbn; tauto|intros d []].
    - remember (EV.TreeNode_node i a b) as t eqn:Et.
      assert (Ept : post t = post a ++ post b ++ [t]) by (subst t; reflexivity).
      assert (Eot : ot t = ONode (ot a) (ot b)) by (subst t; reflexivity).
      assert (NDx : NoDup (oids (post a) ++ oids (post b) ++ [i])).
      { rewrite Ept, !map_app in NDt. subst t. exact NDt. }
      destruct (S1.nodup_app_inv _ _ NDx) as [NDa [NDbi _]]. destruct (S1.nodup_app_inv _ _ NDbi) as [NDb _].
      assert (Ia : forall u, In u (post a) -> In u (post t)) by (intros u Hu; rewrite Ept, !in_app_iff; now left).
      assert (Ib : forall u, In u (post b) -> In u (post t)) by (intros u Hu; rewrite Ept, !in_app_iff; right; now left).
      assert (It : In t (post t)) by (rewrite Ept, !in_app_iff; right; right; now left).
      destruct (HS t It) as [NL [SL SG]]. replace (tid t) with i in NL, SL, SG by (subst t; reflexivity).
      destruct (uset_content fam_order sort_synteny_fn fam_perm sort_spec LS GS total (ot t) k asyn P i N0 S0 NL SL SG)
        as [N1 [S1' Ey]].
      specialize (IHa NDa (fun u Hu => HG u (Ia u Hu)) (fun u Hu => HAS u (Ia u Hu)) (fun u Hu => HS u (Ia u Hu))).
      specialize (IHb NDb (fun u Hu => HG u (Ib u Hu)) (fun u Hu => HAS u (Ib u Hu)) (fun u Hu => HS u (Ib u Hu))).
      assert (PM : sameset (tags (TC t (s, k))) (tags (uread (tabM (ot t)) (s, k)))).
      { refine (proj2 (proj2 (TM.utab_o_model MP.ucell_o_sim S c RALL extended leafsp syn total lev AS' LS t Hh lev_same HAS
                                 (fun v Hv => proj1 (proj2 (HS v Hv))) t It (s, k))) eq_refl). }
      assert (HGt : G i s k = emap tag_ca (TC t (s, k))).
      { replace i with (tid t) by (subst t; reflexivity). apply HG. exact It. }
      remember (USET k asyn i) as A' eqn:EA.
      remember (ucontent total P (ot t) k) as P' eqn:EP.
      remember (fun info : ca =>
                match UG.ChildrenAssignment_left info with
                | None => UG.Err UG.AttributeError
                | Some l =>
                    match UDG a (UG.ObjectAssignment_species l) (kind_b (UG.ObjectAssignment_synteny l)) A' with
                    | UG.Err e => UG.Err e
                    | UG.Ok dl =>
                        match UG.ChildrenAssignment_right info with
                        | None => UG.Err UG.AttributeError
                        | Some r =>
                            match UDG b (UG.ObjectAssignment_species r) (kind_b (UG.ObjectAssignment_synteny r)) A' with
                            | UG.Err e => UG.Err e
                            | UG.Ok dr => UG.Ok (DC.prod3 i s (USYN A') dl dr)
                            end
                        end
                    end
                end) as per eqn:Eper.
      assert (Edec : UDG t s k asyn = DC.rcat per (ord_infos (tags (G i s k)))).
      { subst t per A'. reflexivity. }
      assert (Hper : forall l r, In (l, r) (tags (TC t (s, k))) ->
                exists dl dr, per (tag_ca (l, r)) = UG.Ok (DC.prod3 i s P' dl dr) /\
                  sameset (map (lt_at a) dl) (udecode (tabM (ot a)) (UA a) l P') /\
                  sameset (map (lt_at b) dr) (udecode (tabM (ot b)) (UA b) r P') /\
                  (forall d, In d dl -> sameset (map fst (fst d)) (oids (post a)) /\ sameset (map fst (snd d)) (oids (post a))) /\
                  (forall d, In d dr -> sameset (map fst (fst d)) (oids (post b)) /\ sameset (map fst (snd d)) (oids (post b)))).
      { intros l r _.
        destruct (IHa l A' P' N1 S1') as [dl [E1 [Sa Ka]]]. destruct (IHb r A' P' N1 S1') as [dr [E2 [Sb Kb]]].
        exists dl, dr. split; [|auto].
        rewrite Eper. cbn [tag_ca oa_of UG.ChildrenAssignment_left UG.ChildrenAssignment_right UG.ObjectAssignment_species
                           UG.ObjectAssignment_synteny fst snd]. rewrite !kind_b_of, E1, E2, Ey. reflexivity. }
      assert (Hin : forall info, In info (ord_infos (tags (G i s k))) <-> exists lr, info = tag_ca lr /\ In lr (tags (TC t (s, k)))).
      { intros info. rewrite (ord_same _ info), HGt. cbn [emap tags]. rewrite in_map_iff.
        split; intros [lr [E H]]; exists lr; auto. }
      destruct (DC.rcat_ok per (ord_infos (tags (G i s k)))) as [outs Eouts].
      { intros info Hi. apply Hin in Hi as [[l r] [-> H]]. destruct (Hper l r H) as [dl [dr [E _]]]. eauto. }
      exists outs. split; [now rewrite Edec|].
      pose proof (proj2 (rcat_in per _ outs Eouts)) as Iouts.
      assert (Emodel : forall x, In x (udecode (tabM (ot t)) (UA t) (s, k) P) <->
                exists l r ta tb, In (l, r) (tags (TC t (s, k))) /\ In ta (udecode (tabM (ot a)) (UA a) l P') /\
                  In tb (udecode (tabM (ot b)) (UA b) r P') /\ x = LNode s P' ta tb).
      { intros x. rewrite EP, Eot. rewrite udecode_node. cbn [fst snd].
        split; intros [l [r [ta [tb [Ht H]]]]]; exists l, r, ta, tb; (split; [|exact H]).
        - apply PM. rewrite Eot. exact Ht.
        - apply PM in Ht. rewrite Eot in Ht. exact Ht. }
      split.
      + intros x. rewrite Emodel, in_map_iff. split.
        * intros [d [<- Hd]]. apply Iouts in Hd as [info [a' [Hi [Ea' Hd]]]].
          apply Hin in Hi as [[l r] [-> H]]. destruct (Hper l r H) as [dl [dr [E [Sa [Sb [K1 K2]]]]]].
          rewrite E in Ea'. inversion Ea'; subst a'. clear Ea'. unfold DC.prod3 in Hd.
          apply in_flat_map in Hd as [d1 [H1 Hd]]. apply in_map_iff in Hd as [d2 [<- H2]].
          exists l, r, (lt_at a d1), (lt_at b d2). split; [exact H|]. split; [|split].
          -- apply Sa. now apply in_map.
          -- apply Sb. now apply in_map.
          -- subst t. apply ltree_merge; [exact NDx|apply (K1 d1 H1)|apply (K1 d1 H1)|apply (K2 d2 H2)|apply (K2 d2 H2)].
        * intros [l [r [ta [tb [H [Ha [Hb ->]]]]]]]. destruct (Hper l r H) as [dl [dr [E [Sa [Sb [K1 K2]]]]]].
          pose proof (proj2 (Sa ta) Ha) as Ha'. pose proof (proj2 (Sb tb) Hb) as Hb'.
          apply in_map_iff in Ha' as [d1 [Eoa H1]]. apply in_map_iff in Hb' as [d2 [Eob H2]]. subst ta tb.
          exists (fst d2 ++ fst d1 ++ [(i, s)], snd d2 ++ snd d1 ++ [(i, P')]). split.
          -- subst t. apply ltree_merge; [exact NDx|apply (K1 d1 H1)|apply (K1 d1 H1)|apply (K2 d2 H2)|apply (K2 d2 H2)].
          -- apply Iouts. exists (tag_ca (l, r)), (DC.prod3 i s P' dl dr). split; [apply Hin; eauto|]. split; [exact E|].
             unfold DC.prod3. apply in_flat_map. exists d1. split; [exact H1|]. apply in_map_iff. exists d2. auto.
      + intros d Hd. apply Iouts in Hd as [info [a' [Hi [Ea' Hd]]]].
        apply Hin in Hi as [[l r] [-> H]]. destruct (Hper l r H) as [dl [dr [E [_ [_ [K1 K2]]]]]].
        rewrite E in Ea'. inversion Ea'; subst a'. clear Ea'. unfold DC.prod3 in Hd.
        apply in_flat_map in Hd as [d1 [H1 Hd]]. apply in_map_iff in Hd as [d2 [<- H2]].
        destruct (K1 d1 H1) as [A1 A2]. destruct (K2 d2 H2) as [B1 B2]. rewrite Ept. cbn [fst snd].
        split; intros x; rewrite !map_app, !in_app_iff; [rewrite (A1 x), (B1 x)|rewrite (A2 x), (B2 x)]; subst t; cbn; tauto.
  Qed.

  (** the same up to a PERMUTATION when the tags of a cell are enumerated without repetition *)
  Theorem decode_model_perm (t : tree) : (forall l, Permutation (ord_infos l) l) ->
    NoDup (oids (post t)) -> cells_ok t -> allowed_model t -> sets_model t ->
    forall (k : uassign) asyn P, NoDup asyn -> sameset asyn P ->
    exists outs, UDG t (fst k) (snd k) asyn = UG.Ok outs /\
      Permutation (map (lt_at t) outs) (udecode (tabM (ot t)) (UA t) k P) /\
      (forall d, In d outs -> sameset (map fst (fst d)) (oids (post t)) /\ sameset (map fst (snd d)) (oids (post t))).
  Proof.
    intros ord_perm.
    induction t as [i|i a IHa b IHb]; intros NDt HG HAS HS [s k] asyn P N0 S0; cbn [fst snd] in *.
    - destruct (HS _ (or_introl eq_refl)) as [NL [SL SG]]. cbn [EV.TreeNode_id] in NL, SL, SG.
      destruct (uset_content fam_order sort_synteny_fn fam_perm sort_spec LS GS total (ot (EV.TreeNode_leaf i)) k asyn P i N0 S0 NL SL SG)
        as [_ [_ Ey]].
      cbn [DC.udecode_g otree_of]. rewrite udecode_leaf.
      pose proof (HG _ (or_introl eq_refl) s k) as HGi. cbn [EV.TreeNode_id utab_o] in HGi. rewrite HGi.
      destruct (uassign_eqb_spec (s, k) (leafsp i, false)) as [E|NE].
      + inversion E; subst s k. cbn [emap val ext_is_inf]. eexists. split; [reflexivity|]. split.
        * cbn [map]. rewrite lt_at_leaf, Ey. cbn [otree_of ucontent annotate u_lca]. apply Permutation_refl.
        * intros d [<-|[]]. cbn [fst snd map UG.TreeNode_postorder EV.TreeNode_id]. split; intros x; tauto.
      + cbn [emap default_entry val tags init_val ext_is_inf map]. rewrite (DC.ord_nil ord_infos ord_incl).
        exists []. split; [reflexivity|]. split; [constructor|intros d []].
    - remember (EV.TreeNode_node i a b) as t eqn:Et.
      assert (Ept : post t = post a ++ post b ++ [t]) by (subst t; reflexivity).
      assert (Eot : ot t = ONode (ot a) (ot b)) by (subst t; reflexivity).
      assert (NDx : NoDup (oids (post a) ++ oids (post b) ++ [i])).
      { rewrite Ept, !map_app in NDt. subst t. exact NDt. }
      destruct (S1.nodup_app_inv _ _ NDx) as [NDa [NDbi _]]. destruct (S1.nodup_app_inv _ _ NDbi) as [NDb _].
      assert (Ia : forall u, In u (post a) -> In u (post t)) by (intros u Hu; rewrite Ept, !in_app_iff; now left).
      assert (Ib : forall u, In u (post b) -> In u (post t)) by (intros u Hu; rewrite Ept, !in_app_iff; right; now left).
      assert (It : In t (post t)) by (rewrite Ept, !in_app_iff; right; right; now left).
      destruct (HS t It) as [NL [SL SG]]. replace (tid t) with i in NL, SL, SG by (subst t; reflexivity).
      destruct (uset_content fam_order sort_synteny_fn fam_perm sort_spec LS GS total (ot t) k asyn P i N0 S0 NL SL SG)
        as [N1 [S1' Ey]].
      specialize (IHa NDa (fun u Hu => HG u (Ia u Hu)) (fun u Hu => HAS u (Ia u Hu)) (fun u Hu => HS u (Ia u Hu))).
      specialize (IHb NDb (fun u Hu => HG u (Ib u Hu)) (fun u Hu => HAS u (Ib u Hu)) (fun u Hu => HS u (Ib u Hu))).
      assert (PM : Permutation (tags (TC t (s, k))) (tags (uread (tabM (ot t)) (s, k)))).
      { exact (TM.utab_o_model_tags_perm S c extended leafsp syn total lev AS' LS t MP.ucell_o_sim Hh lev_same HAS
                 (fun v Hv => proj1 (proj2 (HS v Hv))) t (s, k) It). }
      assert (HGt : G i s k = emap tag_ca (TC t (s, k))).
      { replace i with (tid t) by (subst t; reflexivity). apply HG. exact It. }
      remember (USET k asyn i) as A' eqn:EA.
      remember (ucontent total P (ot t) k) as P' eqn:EP.
      remember (fun info : ca =>
                match UG.ChildrenAssignment_left info with
                | None => UG.Err UG.AttributeError
                | Some l =>
                    match UDG a (UG.ObjectAssignment_species l) (kind_b (UG.ObjectAssignment_synteny l)) A' with
                    | UG.Err e => UG.Err e
                    | UG.Ok dl =>
                        match UG.ChildrenAssignment_right info with
                        | None => UG.Err UG.AttributeError
                        | Some r =>
                            match UDG b (UG.ObjectAssignment_species r) (kind_b (UG.ObjectAssignment_synteny r)) A' with
                            | UG.Err e => UG.Err e
                            | UG.Ok dr => UG.Ok (DC.prod3 i s (USYN A') dl dr)
                            end
                        end
                    end
                end) as per eqn:Eper.
      assert (Edec : UDG t s k asyn = DC.rcat per (ord_infos (tags (G i s k)))).
      { subst t per A'. reflexivity. }
      (* the outputs of the two children as functions of the assignment *)
      remember (fun l : uassign => match UDG a (fst l) (snd l) A' with UG.Ok d => d | UG.Err _ => [] end) as DL eqn:EDL.
      remember (fun r : uassign => match UDG b (fst r) (snd r) A' with UG.Ok d => d | UG.Err _ => [] end) as DR eqn:EDR.
      assert (HDL : forall l, UDG a (fst l) (snd l) A' = UG.Ok (DL l) /\
                Permutation (map (lt_at a) (DL l)) (udecode (tabM (ot a)) (UA a) l P') /\
                (forall d, In d (DL l) -> sameset (map fst (fst d)) (oids (post a)) /\ sameset (map fst (snd d)) (oids (post a)))).
      { intros l. destruct (IHa l A' P' N1 S1') as [dl [E1 H]]. rewrite EDL, E1. auto. }
      assert (HDR : forall r, UDG b (fst r) (snd r) A' = UG.Ok (DR r) /\
                Permutation (map (lt_at b) (DR r)) (udecode (tabM (ot b)) (UA b) r P') /\
                (forall d, In d (DR r) -> sameset (map fst (fst d)) (oids (post b)) /\ sameset (map fst (snd d)) (oids (post b)))).
      { intros r. destruct (IHb r A' P' N1 S1') as [dr [E2 H]]. rewrite EDR, E2. auto. }
      clear EDL EDR IHa IHb.
      remember (fun lr : utag => DC.prod3 i s P' (DL (fst lr)) (DR (snd lr))) as g eqn:Eg.
      assert (Hper : forall lr, per (tag_ca lr) = UG.Ok (g lr)).
      { intros [l r]. rewrite Eper, Eg.
        cbn [tag_ca oa_of UG.ChildrenAssignment_left UG.ChildrenAssignment_right UG.ObjectAssignment_species
                           UG.ObjectAssignment_synteny fst snd].
        rewrite !kind_b_of, (proj1 (HDL l)), (proj1 (HDR r)), Ey. reflexivity. }
      remember (fun info : ca => match per info with UG.Ok d => d | UG.Err _ => [] end) as g' eqn:Eg'.
      assert (Hg' : forall lr, g' (tag_ca lr) = g lr) by (intros lr; rewrite Eg', Hper; reflexivity).
      remember (tags (TC t (s, k))) as TG eqn:ETG.
      assert (EL : ord_infos (tags (G i s k)) = ord_infos (map tag_ca TG)) by (rewrite HGt, ETG; reflexivity).
      assert (Eouts : DC.rcat per (ord_infos (map tag_ca TG)) = UG.Ok (flat_map g' (ord_infos (map tag_ca TG)))).
      { apply rcat_flat. intros info Hi. apply ord_incl, in_map_iff in Hi as [lr [<- _]]. now rewrite Hg', Hper. }
      exists (flat_map g' (ord_infos (map tag_ca TG))). split; [now rewrite Edec, EL|].
      assert (Kg : forall lr d, In d (g lr) -> sameset (map fst (fst d)) (oids (post t)) /\ sameset (map fst (snd d)) (oids (post t))).
      { intros [l r] d Hd. rewrite Eg in Hd. unfold DC.prod3 in Hd. cbn [fst snd] in Hd.
        apply in_flat_map in Hd as [d1 [H1 Hd]]. apply in_map_iff in Hd as [d2 [<- H2]].
        destruct (proj2 (proj2 (HDL l)) d1 H1) as [A1 A2]. destruct (proj2 (proj2 (HDR r)) d2 H2) as [B1 B2]. rewrite Ept. cbn [fst snd].
        split; intros x; rewrite !map_app, !in_app_iff; [rewrite (A1 x), (B1 x)|rewrite (A2 x), (B2 x)]; subst t; cbn; tauto. }
      split.
      + (* the outputs, read as labelled trees, along the permutations of the tags *)
        eapply Permutation_trans.
        { apply Permutation_map. apply Permutation_flat_map. apply ord_perm. }
        rewrite flat_map_map0, (MP.flat_map_ext_mem (fun lr => g' (tag_ca lr)) g TG (fun lr _ => Hg' lr)), map_flat_map0.
        eapply Permutation_trans; [apply Permutation_flat_map; exact PM|].
        rewrite Eot, udecode_node_eq. cbn [fst snd]. rewrite <- Eot, <- EP.
        apply perm_flat_map_ext. intros [l r] _. cbn [fst snd]. rewrite Eg. cbn [fst snd]. unfold DC.prod3.
        rewrite map_flat_map0.
        rewrite (MP.flat_map_ext_mem _ (fun d1 => map (fun d2 => LNode s P' (lt_at a d1) (lt_at b d2)) (DR r)) (DL l)).
        2:{ intros d1 H1. rewrite map_map. apply map_ext_in. intros d2 H2. subst t.
            apply ltree_merge; [exact NDx|apply (proj2 (proj2 (HDL l)) d1 H1)|apply (proj2 (proj2 (HDL l)) d1 H1)
                               |apply (proj2 (proj2 (HDR r)) d2 H2)|apply (proj2 (proj2 (HDR r)) d2 H2)]. }
        assert (E3 : flat_map (fun d1 => map (fun d2 => LNode s P' (lt_at a d1) (lt_at b d2)) (DR r)) (DL l) =
                     flat_map (fun x => map (fun y => LNode s P' x y) (map (lt_at b) (DR r))) (map (lt_at a) (DL l))).
        { rewrite flat_map_map0. apply flat_map_ext. intros d1. now rewrite map_map. }
        rewrite E3. apply (perm_prod (fun x y => LNode s P' x y)); [apply (HDL l)|apply (HDR r)].
      + intros d Hd. apply in_flat_map in Hd as [info [Hi Hd]]. apply ord_incl, in_map_iff in Hi as [lr [<- _]].
        rewrite Hg' in Hd. exact (Kg lr d Hd).
  Qed.
  End DecodeModel.
  (** ** L3: the table the generated table function returns, and the candidates *)
  Notation spout := (@UG.spout_state fam path lca node_id).
  (** the labelled tree an output denotes *)
  Definition lt_out (o : spout) : ltree :=
    ltree_of (UG.dict_fun nid_eqb missing (UG.spout_object_species o)) (UG.dict_fun_syn nid_eqb missing_syn (UG.spout_syntenies o)) O.

  Section Cands.
  Variables (LS GS : node_id -> list fam).
  Notation total := (ototal (ot O)).
  Notation UA v := (annotate total (ot v)).
  Notation TC := (utab_o S c RALL leafsp lev AS' LS).
  Notation tabM o := (utab S c RALL extended total o).
  Notation COMPUTE ls := (UG.gen_compute_uspfs_table (fam := fam) N.eqb path_eqb nid_eqb ANC DIST (fun _ => ST) sin ls AS (prc RALL)).
  Hypothesis ND : NoDup (oids (post O)).
  Hypothesis HASok : forall u, In u (post O) -> EV.TreeNode_is_leaf u = false -> allowed_ok S ST AS u.
  Hypothesis HASm : allowed_model O.
  Hypothesis Hsets : sets_model total LS GS O.

  (** the facts about a table with the cells of [utab_o] the exact layer needs: no decoding error *)
  Lemma table_tags_ok G : cells_ok LS G O -> DC.tags_ok3 G O /\ DC.leaf_tags_ok G O.
  Proof.
    intros HG. split.
    - intros u Hu x k tg Htg. rewrite (HG u Hu) in Htg. cbn [emap tags] in Htg. apply in_map_iff in Htg as [lr [<- _]].
      cbn [tag_ca UG.ChildrenAssignment_left UG.ChildrenAssignment_right]. eauto.
    - intros i Hi x k _. rewrite (HG _ Hi). cbn [emap tags utab_o]. now destruct (uassign_eqb _ _).
  Qed.

  Lemma sets_model_sub u : In u (post O) -> sets_model total LS GS u.
  Proof. intros Hu v Hv. apply Hsets. eapply TM.post_sub; eauto. Qed.
  Lemma allowed_model_sub u : In u (post O) -> allowed_model u.
  Proof. intros Hu v Hv. apply HASm. eapply TM.post_sub; eauto. Qed.
  Lemma nodup_sub (t u : tree) : NoDup (oids (post t)) -> In u (post t) -> NoDup (oids (post u)).
  Proof.
    induction t as [i|i a IHa b IHb]; cbn [UG.TreeNode_postorder]; intros NDt Hu.
    - destruct Hu as [<-|[]]. exact NDt.
    - rewrite !in_app_iff in Hu. rewrite !map_app in NDt.
      destruct (S1.nodup_app_inv _ _ NDt) as [NDa [NDbi _]]. destruct (S1.nodup_app_inv _ _ NDbi) as [NDb _].
      destruct Hu as [Hu|[Hu|[<-|[]]]]; [now apply IHa|now apply IHb|].
      cbn [UG.TreeNode_postorder]. now rewrite !map_app.
  Qed.

  (** (A): for every dictionary [lsets] that reads as [LS], the generated table function returns a table on which the decoder
      never fails, and its outputs, read as labelled trees, are those of the model's decoder (as sets), at every node, for
      every assignment and every ancestor set with the members of the model's *)
  Theorem decode_model_table lsets :
    (forall u, In u (post O) -> UG.dict_get nid_eqb lsets (tid u) = Some (LS (tid u))) ->
    exists tb, COMPUTE lsets = UG.Ok tb /\ inv3 RALL tb /\ DC.tags_ok3 (gsem3 tb) O /\ DC.leaf_tags_ok (gsem3 tb) O /\
      forall u, In u (post O) -> forall (k : uassign) asyn P, NoDup asyn -> sameset asyn P ->
        exists outs, DC.udecode_g ord_infos fam_order sort_synteny_fn LS GS (gsem3 tb) u (fst k) (snd k) asyn = UG.Ok outs /\
          sameset (map (lt_at u) outs) (udecode (uspfs_table S c RALL extended (ot u) (UA u)) (UA u) k P).
  Proof.
    intros Hd.
    destruct (GM.table_eq nid_eqb nid_eqb_spec lcaobj RALL S c ST leafsp syn O AS lsets LS ND HASok Hd) as [tb [E [I [Hc _]]]].
    exists tb. split; [exact E|]. split; [exact I|].
    destruct (table_tags_ok (gsem3 tb) Hc) as [T1 T2]. split; [exact T1|]. split; [exact T2|].
    intros u Hu k asyn P N0 S0.
    destruct (decode_model total LS GS (gsem3 tb) u (nodup_sub O u ND Hu) (fun v Hv => Hc v (TM.post_sub O u v Hu Hv))
                (allowed_model_sub u Hu) (sets_model_sub u Hu) k asyn P N0 S0) as [outs [Ed [Sd _]]].
    exists outs. split; [exact Ed|exact Sd].
  Qed.

  (** ... and up to a PERMUTATION when the tags of a cell are enumerated without repetition *)
  Theorem decode_model_table_perm lsets : (forall l, Permutation (ord_infos l) l) ->
    (forall u, In u (post O) -> UG.dict_get nid_eqb lsets (tid u) = Some (LS (tid u))) ->
    exists tb, COMPUTE lsets = UG.Ok tb /\ inv3 RALL tb /\
      forall u, In u (post O) -> forall (k : uassign) asyn P, NoDup asyn -> sameset asyn P ->
        exists outs, DC.udecode_g ord_infos fam_order sort_synteny_fn LS GS (gsem3 tb) u (fst k) (snd k) asyn = UG.Ok outs /\
          Permutation (map (lt_at u) outs) (udecode (uspfs_table S c RALL extended (ot u) (UA u)) (UA u) k P).
  Proof.
    intros ord_perm Hd.
    destruct (GM.table_eq nid_eqb nid_eqb_spec lcaobj RALL S c ST leafsp syn O AS lsets LS ND HASok Hd) as [tb [E [I [Hc _]]]].
    exists tb. split; [exact E|]. split; [exact I|].
    intros u Hu k asyn P N0 S0.
    destruct (decode_model_perm total LS GS (gsem3 tb) u ord_perm (nodup_sub O u ND Hu) (fun v Hv => Hc v (TM.post_sub O u v Hu Hv))
                (allowed_model_sub u Hu) (sets_model_sub u Hu) k asyn P N0 S0) as [outs [Ed [Sd _]]].
    exists outs. split; [exact Ed|exact Sd].
  Qed.

  Notation MKO := (DC.mk_out lcaobj c leafsp syn O).
  Notation OCOSTS := (DC.ocosts nid_eqb lcaobj c leafsp syn O missing missing_syn).
  Notation COST := (DC.cost_of3 nid_eqb c leafsp syn O missing missing_syn).
  Notation SCANDS G := (DC.species_cands nid_eqb lcaobj c leafsp syn O ord_infos fam_order sort_synteny_fn LS GS missing missing_syn G).
  Notation UCANDS G := (DC.uspfs_cands nid_eqb lcaobj c ST leafsp syn O ord_infos fam_order sort_synteny_fn LS GS missing missing_syn G).
  Notation sid := (@UG.STree_id path).
  Notation MC := (uspfs_candidates S c RALL extended (ot O)).

  Lemma lt_out_mk d : lt_out (MKO d) = lt_at O d.
  Proof. reflexivity. Qed.
  Lemma cost_lt_at d : COST d = total_cost c (ot O) false (lt_at O d).
  Proof. reflexivity. Qed.

  Lemma ocosts_ok outs a : OCOSTS outs = UG.Ok a ->
    (forall d, In d outs -> exists v, COST d = Some v) /\
    forall p, In p a <-> exists d v, In d outs /\ COST d = Some v /\ p = (v, Some (MKO d)).
  Proof.
    unfold DC.ocosts. intros E. apply rcat_in in E as [A Bq]. split.
    - intros d Hd. destruct (A d Hd) as [a' Ea]. destruct (COST d) as [v|]; [eauto|discriminate].
    - intros p. rewrite (Bq p). split.
      + intros [d [a' [Hd [Ea Hp]]]]. destruct (COST d) as [v|] eqn:Ec; [|discriminate]. inversion Ea; subst a'.
        destruct Hp as [<-|[]]. exists d, v. auto.
      + intros [d [v [Hd [Ec ->]]]]. exists d, [(v, Some (MKO d))]. split; [exact Hd|]. rewrite Ec. split; [reflexivity|now left].
  Qed.
  Lemma ocosts_err outs e : OCOSTS outs = UG.Err e -> e = UG.AssertionError /\ exists d, In d outs /\ COST d = None.
  Proof.
    unfold DC.ocosts. intros E. apply rcat_err in E as [d [Hd E]].
    destruct (COST d) eqn:Ec; [discriminate|]. inversion E. split; [reflexivity|]. exists d. auto.
  Qed.

  (** a candidate of the model: a root species, a decoded labelled tree and its cost *)
  Definition mcands (q : ext * option ltree) : Prop :=
    exists s lt v, In s (snodes S) /\
      In lt (udecode (tabM (ot O)) (annotate_top (ot O)) (s, false) (u_lca (annotate_top (ot O)))) /\
      total_cost c (ot O) false lt = Some v /\ q = (v, Some lt).

  (** (B): the candidates of the code (every species of the species tree in level order, every decoded output with its cost),
      read as labelled trees, against the candidates of the model; the code fails (on the AssertionError of the evaluator)
      iff some candidate of the model is [None] *)
  Theorem candidates_model G : cells_ok LS G O ->
    match UCANDS G with
    | UG.Ok cs => exists l', all_some MC = Some l' /\ csim RALL (map (cmap lt_out) cs) l'
    | UG.Err e => e = UG.AssertionError /\ all_some MC = None
    end.
  Proof.
    intros HG.
    destruct (Hsets O (TM.self_post O)) as [NL [SL _]].
    assert (HX : forall x, exists outs, SCANDS G x = OCOSTS outs /\
               sameset (map (lt_at O) outs)
                       (udecode (tabM (ot O)) (annotate_top (ot O)) (sid x, false) (u_lca (annotate_top (ot O))))).
    { intros x. destruct (decode_model total LS GS G O ND HG HASm Hsets (sid x, false) (LS (tid O)) (u_lca (UA O)) NL SL)
        as [outs [Ed [Sd _]]]. cbn [fst snd] in Ed. exists outs. split; [|exact Sd]. unfold DC.species_cands. now rewrite Ed. }
    assert (Hsp : forall s, In s (snodes S) <-> exists x, In x (UG.STree_levelorder ST) /\ sid x = s).
    { intros s. rewrite <- (lev_same s). unfold sids3. rewrite in_map_iff. split; intros [x [H1 H2]]; exists x; auto. }
    unfold DC.uspfs_cands.
    match goal with |- match DC.rcat ?f ?l with UG.Ok _ => _ | UG.Err _ => _ end => destruct (DC.rcat f l) as [cs|e] eqn:ER end.
    - apply rcat_in in ER as [Aok Bq].
      assert (Hsome : forall x, In x MC -> exists y, x = Some y).
      { intros q Hq. apply in_uspfs_candidates in Hq as [s [lt [Hs [Hlt ->]]]]. apply Hsp in Hs as [x [Hx <-]].
        destruct (HX x) as [outs [Es Sd]]. pose proof (proj2 (Sd lt) Hlt) as Hlt'. apply in_map_iff in Hlt' as [d [<- Hd]].
        destruct (Aok x Hx) as [a Ea]. rewrite Es in Ea. apply ocosts_ok in Ea as [Ac _]. destruct (Ac d Hd) as [v Ev].
        rewrite cost_lt_at in Ev. rewrite Ev. cbn [option_map]. eauto. }
      destruct (all_some_spec MC Hsome) as [l' [El Il]]. exists l'. split; [exact El|].
      assert (HC : forall q, In q (map (cmap lt_out) cs) <-> mcands q).
      { intros q. rewrite in_map_iff. split.
        - intros [p [<- Hp]]. apply Bq in Hp as [x [a [Hx [Ea Hp]]]]. destruct (HX x) as [outs [Es Sd]]. rewrite Es in Ea.
          apply ocosts_ok in Ea as [_ Ia]. apply Ia in Hp as [d [v [Hd [Ev ->]]]].
          exists (sid x), (lt_at O d), v. split; [apply Hsp; eauto|]. split; [|split; [now rewrite <- cost_lt_at|reflexivity]].
          apply Sd. now apply in_map.
        - intros [s [lt [v [Hs [Hlt [Ev ->]]]]]]. apply Hsp in Hs as [x [Hx <-]]. destruct (HX x) as [outs [Es Sd]].
          pose proof (proj2 (Sd _) Hlt) as Hlt'. apply in_map_iff in Hlt' as [d [<- Hd]]. destruct (Aok x Hx) as [a Ea].
          exists (v, Some (MKO d)). split; [reflexivity|]. apply Bq. exists x, a. split; [exact Hx|]. split; [exact Ea|].
          rewrite Es in Ea. apply ocosts_ok in Ea as [_ Ia]. apply Ia. exists d, v. rewrite cost_lt_at. auto. }
      assert (HM : forall q, In q l' <-> mcands q).
      { intros q. rewrite (proj2 (all_some_in MC l' El) q), in_uspfs_candidates. split.
        - intros [s [lt [Hs [Hlt Eq]]]]. destruct (total_cost c (ot O) false lt) as [v|] eqn:Ev; [|discriminate].
          cbn [option_map] in Eq. inversion Eq; subst q. exists s, lt, v. auto.
        - intros [s [lt [v [Hs [Hlt [Ev ->]]]]]]. exists s, lt. rewrite Ev. cbn [option_map]. auto. }
      apply MP.csim_of_sameset.
      + intros v o Hq. apply HC in Hq as [s [lt [w [_ [_ [_ Eq]]]]]]. inversion Eq. eauto.
      + intros v o Hq. apply HM in Hq as [s [lt [w [_ [_ [_ Eq]]]]]]. inversion Eq. eauto.
      + intros q. now rewrite HC, HM.
    - apply rcat_err in ER as [x [Hx Ex]]. destruct (HX x) as [outs [Es Sd]]. rewrite Es in Ex.
      apply ocosts_err in Ex as [-> [d [Hd Ec]]]. split; [reflexivity|]. apply all_some_none.
      apply in_uspfs_candidates. exists (sid x), (lt_at O d). rewrite <- cost_lt_at, Ec. cbn [option_map].
      split; [apply Hsp; eauto|]. split; [|reflexivity]. apply Sd. now apply in_map.
  Qed.

  (** ** L4: [_uspfs] *)
  Context {olca : Type}.
  Variable oeqb : spout -> spout -> bool.
  Hypothesis sloss_nn : 0 <= c_sloss c.
  Hypothesis oeqb_lt : forall a b, ltree_eqb (lt_out a) (lt_out b) = oeqb a b.
  Variables (olca_of : tree -> olca) (olca_call : olca -> list node_id -> node_id)
            (syn_items : (node_id -> list fam) -> list (node_id * list fam)) (node_order : list node_id -> list node_id).
  Variables (lsets gsets : list (node_id * list fam)).
  Notation GAIN := (UG.gen_compute_gain_sets (fam := fam) (sp := path) (lca := lca) N.eqb nid_eqb olca_of olca_call syn_items node_order sin).
  Notation LCAS := (UG.gen_compute_lca_sets (fam := fam) (sp := path) (lca := lca) N.eqb nid_eqb sin).
  Notation USPFS := (UG.gen_uspfs (fam := fam) N.eqb path_eqb nid_eqb ANC LCP DIST (fun _ => ST) olca_of olca_call syn_items fam_order node_order
                       SANC COMP oeqb missing missing_syn ord_infos sort_synteny_fn sin (prc RALL) AS).
  Hypothesis Eg : GAIN = UG.Ok gsets.
  Hypothesis El : LCAS gsets = UG.Ok lsets.
  Hypothesis Hd : DC.sets_ok nid_eqb LS GS lsets gsets O.

  Theorem gen_uspfs_model :
    match uspfs S c RALL extended (ot O) with
    | None => USPFS = UG.Err UG.AssertionError
    | Some e => exists outs, USPFS = UG.Ok outs /\ Permutation (map lt_out outs) (tags e) /\ (outs = [] <-> tags e = [])
    end.
  Proof.
    destruct (DC.gen_uspfs_of_table nid_eqb nid_eqb_spec lcaobj c RALL ST leafsp syn O ord_infos fam_order sort_synteny_fn LS GS lsets gsets
                oeqb missing missing_syn sloss_nn olca_of olca_call syn_items node_order AS S
                (GM.table_eq nid_eqb nid_eqb_spec lcaobj) ND HASok Eg El Hd) as [tb [_ [_ [Hc [_ E]]]]].
    rewrite E. pose proof (candidates_model (gsem3 tb) Hc) as C. unfold uspfs.
    destruct (UCANDS (gsem3 tb)) as [cs|e].
    - destruct C as [l' [El' C]]. rewrite El'. cbn [option_map]. eexists. split; [reflexivity|].
      match goal with |- ?A /\ _ => assert (PP : A); [|split; [exact PP|exact (perm_map_nil _ _ _ PP)]] end.
      apply (upd_sim ltree_eqb ltree_eqb_spec) in C as [_ [_ Ss]]. specialize (Ss eq_refl).
      pose proof (update_emap oeqb ltree_eqb lt_out oeqb_lt MIN RALL cs (default_entry MIN)) as E2.
      change (emap lt_out (default_entry MIN)) with (@default_entry ltree MIN) in E2.
      rewrite E2 in Ss. cbn [emap tags] in Ss.
      apply NoDup_Permutation; [| |exact Ss].
      + match goal with |- NoDup (map ?f (tags ?e)) => change (NoDup (tags (emap f e))) end.
        rewrite <- E2. apply (entry_tags_all_nodup ltree_eqb ltree_eqb_spec).
      + apply (entry_tags_all_nodup ltree_eqb ltree_eqb_spec).
    - destruct C as [-> El']. now rewrite El'.
  Qed.
  End Cands.
End Link.

(* ------------------------------------------------------------------ *)
(** * Part C: the two entry points *)
Section Final.
  Context {lca node_id olca : Type} (nid_eqb : node_id -> node_id -> bool).
  Hypothesis nid_eqb_spec : forall a b, reflect (a = b) (nid_eqb a b).
  Notation tree := (EV.TreeNode node_id).
  Notation spout := (@UG.spout_state fam path lca node_id).
  Notation oids l := (map (@EV.TreeNode_id node_id) l).
  Notation post := (@UG.TreeNode_postorder node_id).
  Notation tid := (@EV.TreeNode_id node_id).
  Variables (lcaobj : lca) (S : stree) (c : costs) (leafsp : node_id -> path) (syn : node_id -> list fam) (O : tree).
  Variables (missing : node_id -> path) (missing_syn : node_id -> list fam) (ord_infos : list ca -> list ca).
  Variables (fam_order sort_synteny_fn : list fam -> list fam).
  Variable oeqb : spout -> spout -> bool.
  Variables (olca_of : tree -> olca) (olca_call : olca -> list node_id -> node_id)
            (syn_items : (node_id -> list fam) -> list (node_id * list fam)) (node_order : list node_id -> list node_id).
  Notation ST := (sembed3 S []).
  Notation ot := (otree_of leafsp syn).
  Notation sin := (EV.mk_sin O lcaobj leafsp (stsocc c) syn).
  Notation DIST := (fun (_ : lca) => dist).
  Notation ANC := (fun (_ : lca) => anc).
  Notation SANC := (fun (_ : lca) => sanc).
  Notation COMP := (fun (_ : lca) => comparable).
  Notation LCP := (fun (_ : lca) => lcp).
  Notation LT := (lt_out nid_eqb O missing missing_syn).
  Notation GAIN := (UG.gen_compute_gain_sets (fam := fam) (sp := path) (lca := lca) N.eqb nid_eqb olca_of olca_call syn_items node_order sin).
  Notation LCAS := (UG.gen_compute_lca_sets (fam := fam) (sp := path) (lca := lca) N.eqb nid_eqb sin).

  (** the well-formedness hypotheses W: a transfer cost that is not -inf, a non-negative segmental-loss cost, distinct node
      identifiers, leaves at species of [S]; the tags of a cell are enumerated in some order; [output_eqb] decides the equality
      of the labelled trees; the object-tree LCA structure answers lowest common ancestors, sets of nodes / of families are
      iterated in some order, the items of [leaf_syntenies] are those of the leaves; [sort_synteny] sorts *)
  Definition W : Prop :=
    nn (c_hgt c) /\ 0 <= c_sloss c /\
    NoDup (oids (post O)) /\
    leaves_ok S (ot O) /\
    (forall l, sameset (ord_infos l) l) /\
    (forall a b : spout, ltree_eqb (LT a) (LT b) = oeqb a b) /\
    S1.olca_ok olca_of olca_call O /\ S1.order_ok node_order /\ S1.items_ok syn_items O syn /\
    (forall l, Permutation l (fam_order l)) /\
    (forall l, NoDup l -> sort_synteny_fn l = set_of l).

  Lemma leaves_ok_sub (t u : tree) : leaves_ok S (ot t) -> In u (post t) -> leaves_ok S (ot u).
  Proof.
    induction t as [i|i a IHa b IHb]; cbn [UG.TreeNode_postorder]; intros L H.
    - destruct H as [<-|[]]. exact L.
    - cbn [otree_of leaves_ok] in L. destruct L as [La Lb]. rewrite !in_app_iff in H.
      destruct H as [H|[H|[<-|[]]]]; [auto|auto|]. cbn [otree_of leaves_ok]. auto.
  Qed.

  (** STAGE 1 in the form the link uses: both dictionaries are computed, have every node of [O] as a key, and read as
      duplicate-free lists of the members of the model's sets *)
  Lemma stage1_link : NoDup (oids (post O)) -> S1.olca_ok olca_of olca_call O -> S1.order_ok node_order -> S1.items_ok syn_items O syn ->
    exists g r, GAIN = UG.Ok g /\ LCAS g = UG.Ok r /\
      DC.sets_ok nid_eqb (TF.LS_of nid_eqb r) (TF.LS_of nid_eqb g) r g O /\
      sets_model leafsp syn (ototal (ot O)) (TF.LS_of nid_eqb r) (TF.LS_of nid_eqb g) O.
  Proof.
    intros ND Holca Hord Hitems.
    destruct (S1.gain_lca_sets_code nid_eqb nid_eqb_spec olca_of olca_call syn_items node_order O lcaobj leafsp (stsocc c) syn
                ND Holca Hord Hitems) as [g [r [Eg [Er H]]]].
    exists g, r. split; [exact Eg|]. split; [exact Er|].
    assert (B : forall v, In v (post O) ->
              exists lg ll, @UG.dict_get node_id (list fam) nid_eqb g (tid v) = Some lg /\ @UG.dict_get node_id (list fam) nid_eqb r (tid v) = Some ll /\
                NoDup ll /\ sameset ll (u_lca (annotate (ototal (ot O)) (ot v))) /\ sameset lg (u_gain (annotate (ototal (ot O)) (ot v)))).
    { intros v Hv. destruct (S1.post_nsub O v Hv) as [p Hp].
      destruct (H p v Hp) as [lg [ll [ua [Dg [Dl [Hu [_ [Nl [Ig [Il _]]]]]]]]]].
      unfold annotate_top in Hu. rewrite (usub_annotate _ p (ot O) _ (S1.osub_ot_some leafsp syn O p v Hp)) in Hu.
      inversion Hu; subst ua. exists lg, ll. auto. }
    split.
    - intros u Hu. destruct (B u Hu) as [lg [ll [Dg [Dl _]]]]. unfold TF.LS_of. now rewrite Dg, Dl.
    - intros u Hu. destruct (B u Hu) as [lg [ll [Dg [Dl [Nl [Sl Sg]]]]]]. unfold TF.LS_of. rewrite Dg, Dl. auto.
  Qed.

  (** [usreconcile_extended_uspfs] *)
  Theorem gen_usreconcile_extended_uspfs_model : W ->
    match uspfs S c RALL true (ot O) with
    | None =>
        UG.gen_usreconcile_extended_uspfs (fam := fam) N.eqb path_eqb nid_eqb ANC LCP DIST (fun _ => ST) olca_of olca_call syn_items fam_order
          node_order SANC COMP oeqb missing missing_syn ord_infos sort_synteny_fn sin (prc RALL) = UG.Err UG.AssertionError
    | Some e =>
        exists outs,
          UG.gen_usreconcile_extended_uspfs (fam := fam) N.eqb path_eqb nid_eqb ANC LCP DIST (fun _ => ST) olca_of olca_call syn_items fam_order
            node_order SANC COMP oeqb missing missing_syn ord_infos sort_synteny_fn sin (prc RALL) = UG.Ok outs /\
          Permutation (map LT outs) (tags e) /\ (outs = [] <-> tags e = [])
    end.
  Proof.
    intros [Hh [Hs [ND [Lv [Hord [Heq [Holca [Hno [Hit [Hfo Hso]]]]]]]]]].
    rewrite DC.gen_usreconcile_extended_uspfs_eq.
    destruct (stage1_link ND Holca Hno Hit) as [g [r [Eg [Er [Hd Hm]]]]].
    pose proof (gen_uspfs_model nid_eqb nid_eqb_spec lcaobj S c leafsp syn O missing missing_syn ord_infos fam_order sort_synteny_fn true
                  (fun (species : @UG.STree path) (_ : tree) => UG.STree_postorder species) Hh Hord Hfo Hso
                  (TF.LS_of nid_eqb r) (TF.LS_of nid_eqb g) ND) as M.
    specialize (M ltac:(intros u _ _; split; [intros rs; apply post_rs_ok|apply post_nodup])
                  ltac:(intros u _ _; exact (post_sameset S)) Hm olca oeqb Hs Heq olca_of olca_call syn_items node_order r g Eg Er Hd).
    exact M.
  Qed.

  (** [usreconcile_base_uspfs] *)
  Theorem gen_usreconcile_base_uspfs_model : W ->
    match uspfs S c RALL false (ot O) with
    | None =>
        UG.gen_usreconcile_base_uspfs (fam := fam) N.eqb path_eqb nid_eqb ANC LCP DIST (fun _ => ST) olca_of olca_call syn_items fam_order
          node_order SANC COMP oeqb missing missing_syn ord_infos sort_synteny_fn sin (prc RALL) = UG.Err UG.AssertionError
    | Some e =>
        exists outs,
          UG.gen_usreconcile_base_uspfs (fam := fam) N.eqb path_eqb nid_eqb ANC LCP DIST (fun _ => ST) olca_of olca_call syn_items fam_order
            node_order SANC COMP oeqb missing missing_syn ord_infos sort_synteny_fn sin (prc RALL) = UG.Ok outs /\
          Permutation (map LT outs) (tags e) /\ (outs = [] <-> tags e = [])
    end.
  Proof.
    intros [Hh [Hs [ND [Lv [Hord [Heq [Holca [Hno [Hit [Hfo Hso]]]]]]]]]].
    destruct (DC.gen_usreconcile_base_uspfs_eq nid_eqb nid_eqb_spec lcaobj c RALL ST leafsp syn O ord_infos fam_order sort_synteny_fn oeqb
                missing missing_syn olca_of olca_call syn_items node_order ND) as [d [Hdd E]].
    rewrite E.
    destruct (stage1_link ND Holca Hno Hit) as [g [r [Eg [Er [Hd Hm]]]]].
    pose proof (gen_uspfs_model nid_eqb nid_eqb_spec lcaobj S c leafsp syn O missing missing_syn ord_infos fam_order sort_synteny_fn false
                  (fun (_ : @UG.STree path) (obj : tree) => UG.base_species path_eqb nid_eqb ST d obj) Hh Hord Hfo Hso
                  (TF.LS_of nid_eqb r) (TF.LS_of nid_eqb g) ND) as M.
    assert (HAS : forall u, In u (post O) ->
              exists rs, UG.base_species path_eqb nid_eqb ST d u = [rs] /\ In rs (UG.STree_postorder ST) /\
                         UG.STree_id rs = root (lca_rec (ot u))).
    { intros u Hu. pose proof (leaves_ok_sub O u Lv Hu) as Lu.
      pose proof (lca_root_allowed S false (ot u) Lu (root (lca_rec (ot u))) (or_introl eq_refl)) as V.
      apply snodes_valid, (post_sameset S) in V. destruct (find_sid _ _ V) as [rs [E1 [E2 E3]]].
      exists rs. split; [|auto]. exact (DC.base_species_eq nid_eqb ST d u _ rs (Hdd u Hu) E1). }
    assert (HA1 : forall u, In u (post O) -> EV.TreeNode_is_leaf u = false ->
              allowed_ok S ST (fun (_ : @UG.STree path) (obj : tree) => UG.base_species path_eqb nid_eqb ST d obj) u).
    { intros u Hu _. unfold allowed_ok. destruct (HAS u Hu) as [rs [E1 [H2 _]]]. rewrite E1. split.
      - intros rs' [<-|[]]. now apply post_rs_ok.
      - cbn. constructor; [intros []|constructor]. }
    assert (HA2 : allowed_model S leafsp syn false (fun (_ : @UG.STree path) (obj : tree) => UG.base_species path_eqb nid_eqb ST d obj) O).
    { intros u Hu _. cbv beta. destruct (HAS u Hu) as [rs [E1 [_ H3]]]. rewrite E1. cbn [sids3 map uallowed]. rewrite H3. intros x; tauto. }
    specialize (M HA1 HA2 Hm olca oeqb Hs Heq olca_of olca_call syn_items node_order r g Eg Er Hd).
    exact M.
  Qed.
End Final.

(* ------------------------------------------------------------------ *)
(** * Part D: the hypotheses are satisfiable: the instance of [Stage1.Example1] -- root 0 = (1 = (leaf 2, leaf 3), leaf 4);
    family 1 is carried by the leaves 2 and 3 (gained at the internal node 1, below the root), family 2 by the leaves 2 and 4
    (gained at the root), family 3 by the leaf 3 --, a species tree with two leaves *)
Module Ex.
  Module E1 := S1.Example1.
  Definition S0 : stree := SNode SLeaf SLeaf.
  Definition c0 : costs := {| c_spe := 0; c_dup := 1; c_hgt := Fin 1; c_floss := 1; c_sloss := 1 |}.
  Definition O0 : EV.TreeNode nat := E1.O1.
  Definition leafsp0 : nat -> path := E1.leafsp1.
  Definition syn0 : nat -> list fam := E1.syn1.
  Definition miss0 (_ : nat) : path := [].
  Definition msyn0 (_ : nat) : list fam := [].
  Definition ord0 (l : list ca) : list ca := rev l.
  (** a set of families is iterated in the reverse order of its list; [sort_synteny] is an insertion sort (it keeps
      repetitions: it is [set_of] on duplicate-free lists only) *)
  Definition fam_order0 (l : list fam) : list fam := rev l.
  Fixpoint insert0 (x : fam) (l : list fam) : list fam :=
    match l with [] => [x] | y :: l' => if N.ltb x y then x :: l else y :: insert0 x l' end.
  Definition sort0 (l : list fam) : list fam := fold_right insert0 [] l.
  Definition oeqb0 (a b : @UG.spout_state fam path unit nat) : bool :=
    ltree_eqb (lt_out Nat.eqb O0 miss0 msyn0 a) (lt_out Nat.eqb O0 miss0 msyn0 b).

  Lemma insert0_set_add x l : ~ In x l -> insert0 x l = set_add x l.
  Proof.
    induction l as [|y l IH]; intros H; cbn [insert0 set_add]; [reflexivity|].
    destruct (N.ltb x y); [reflexivity|]. destruct (N.eqb_spec x y) as [->|NE]; [exfalso; apply H; now left|].
    rewrite IH; [reflexivity|]. intros I. apply H. now right.
  Qed.
  Lemma sort0_spec l : NoDup l -> sort0 l = set_of l.
  Proof.
    induction 1 as [|x l Hx _ IH]; [reflexivity|]. unfold sort0, set_of in *. cbn [fold_right]. rewrite IH.
    apply insert0_set_add. fold (set_of l). now rewrite In_set_of.
  Qed.

  Lemma W_costs c : nn (c_hgt c) -> 0 <= c_sloss c ->
    W Nat.eqb S0 c leafsp0 syn0 O0 miss0 msyn0 ord0 fam_order0 sort0 oeqb0 (fun _ => tt) E1.olca_call1 E1.items1 E1.order1.
  Proof.
    intros H1 H2. unfold W. split; [exact H1|]. split; [exact H2|]. split; [exact E1.ids_distinct1|].
    split; [cbn; repeat split; reflexivity|]. split; [intros l x; unfold ord0; symmetry; apply in_rev|]. split; [intros a b; reflexivity|].
    split; [exact E1.olca_ok1|]. split; [exact E1.order_ok1|]. split; [exact E1.items_ok1|].
    split; [intros l; apply Permutation_rev|exact sort0_spec].
  Qed.
  Example W_satisfiable :
    W Nat.eqb S0 c0 leafsp0 syn0 O0 miss0 msyn0 ord0 fam_order0 sort0 oeqb0 (fun _ => tt) E1.olca_call1 E1.items1 E1.order1.
  Proof. apply W_costs; [discriminate|vm_compute; discriminate]. Qed.

  Notation GEN_EXT := (UG.gen_usreconcile_extended_uspfs (fam := fam) N.eqb path_eqb Nat.eqb (fun _ : unit => anc) (fun _ => lcp) (fun _ => dist)
                         (fun _ => sembed3 S0 []) (fun _ => tt) E1.olca_call1 E1.items1 fam_order0 E1.order1 (fun _ => sanc) (fun _ => comparable)
                         oeqb0 miss0 msyn0 ord0 sort0 (EV.mk_sin O0 tt leafsp0 (stsocc c0) syn0) (prc RALL)).
  Notation GEN_BASE := (UG.gen_usreconcile_base_uspfs (fam := fam) N.eqb path_eqb Nat.eqb (fun _ : unit => anc) (fun _ => lcp) (fun _ => dist)
                         (fun _ => sembed3 S0 []) (fun _ => tt) E1.olca_call1 E1.items1 fam_order0 E1.order1 (fun _ => sanc) (fun _ => comparable)
                         oeqb0 miss0 msyn0 ord0 sort0 (EV.mk_sin O0 tt leafsp0 (stsocc c0) syn0) (prc RALL)).
  Notation LT0 := (lt_out Nat.eqb O0 miss0 msyn0).

  (** the instance evaluated: the model and the generated code (one solution, of cost 2, for both variants: family 1 is gained
      at the internal node, placed at the species [false]), and the two theorems applied to it *)
  Definition sol0 : ltree :=
    LNode [] [2%N] (LNode [false] [1%N; 2%N] (LLeaf [false] [1%N; 2%N]) (LLeaf [false] [1%N; 3%N])) (LLeaf [true] [2%N]).

  Example instance_extended_evaluated :
    option_map (@tags ltree) (uspfs S0 c0 RALL true (otree_of leafsp0 syn0 O0)) = Some [sol0] /\
    (match GEN_EXT with UG.Ok outs => Some (map LT0 outs) | UG.Err _ => None end) = Some [sol0].
  Proof. split; vm_compute; reflexivity. Qed.

  Example instance_base_evaluated :
    option_map (@tags ltree) (uspfs S0 c0 RALL false (otree_of leafsp0 syn0 O0)) = Some [sol0] /\
    (match GEN_BASE with UG.Ok outs => Some (map LT0 outs) | UG.Err _ => None end) = Some [sol0].
  Proof. split; vm_compute; reflexivity. Qed.

  Example instance_extended_theorem : exists outs, GEN_EXT = UG.Ok outs /\ map LT0 outs = [sol0].
  Proof.
    pose proof (gen_usreconcile_extended_uspfs_model Nat.eqb Nat.eqb_spec tt S0 c0 leafsp0 syn0 O0 miss0 msyn0 ord0 fam_order0 sort0 oeqb0
                  (fun _ => tt) E1.olca_call1 E1.items1 E1.order1 W_satisfiable) as M.
    remember (uspfs S0 c0 RALL true (otree_of leafsp0 syn0 O0)) as r eqn:Er. vm_compute in Er. subst r.
    destruct M as [outs [E [P _]]]. exists outs. split; [exact E|].
    cbn [tags] in P. apply Permutation_sym, Permutation_length_1_inv in P. exact P.
  Qed.

  Example instance_base_theorem : exists outs, GEN_BASE = UG.Ok outs /\ map LT0 outs = [sol0].
  Proof.
    pose proof (gen_usreconcile_base_uspfs_model Nat.eqb Nat.eqb_spec tt S0 c0 leafsp0 syn0 O0 miss0 msyn0 ord0 fam_order0 sort0 oeqb0
                  (fun _ => tt) E1.olca_call1 E1.items1 E1.order1 W_satisfiable) as M.
    remember (uspfs S0 c0 RALL false (otree_of leafsp0 syn0 O0)) as r eqn:Er. vm_compute in Er. subst r.
    destruct M as [outs [E [P _]]]. exists outs. split; [exact E|].
    cbn [tags] in P. apply Permutation_sym, Permutation_length_1_inv in P. exact P.
  Qed.

  (** the same instance with every unit cost 0: four solutions (the root at any species; the internal node at the root or at
      [false]), which the code and the model list in different orders *)
  Definition cz : costs := {| c_spe := 0; c_dup := 0; c_hgt := Fin 0; c_floss := 0; c_sloss := 0 |}.
  Notation GEN_EXTZ := (UG.gen_usreconcile_extended_uspfs (fam := fam) N.eqb path_eqb Nat.eqb (fun _ : unit => anc) (fun _ => lcp) (fun _ => dist)
                         (fun _ => sembed3 S0 []) (fun _ => tt) E1.olca_call1 E1.items1 fam_order0 E1.order1 (fun _ => sanc) (fun _ => comparable)
                         oeqb0 miss0 msyn0 ord0 sort0 (EV.mk_sin O0 tt leafsp0 (stsocc cz) syn0) (prc RALL)).
  Definition solz (s1 s2 : path) : ltree :=
    LNode s1 [2%N] (LNode s2 [1%N; 2%N] (LLeaf [false] [1%N; 2%N]) (LLeaf [false] [1%N; 3%N])) (LLeaf [true] [2%N]).

  Example W_satisfiable_z :
    W Nat.eqb S0 cz leafsp0 syn0 O0 miss0 msyn0 ord0 fam_order0 sort0 oeqb0 (fun _ => tt) E1.olca_call1 E1.items1 E1.order1.
  Proof. apply W_costs; [discriminate|vm_compute; discriminate]. Qed.

  Example instance_zero_evaluated :
    option_map (@tags ltree) (uspfs S0 cz RALL true (otree_of leafsp0 syn0 O0)) =
      Some [solz [] [false]; solz [] []; solz [false] [false]; solz [true] [false]] /\
    (match GEN_EXTZ with UG.Ok outs => Some (map LT0 outs) | UG.Err _ => None end) =
      Some [solz [] []; solz [] [false]; solz [false] [false]; solz [true] [false]].
  Proof. split; vm_compute; reflexivity. Qed.

  Example instance_zero_theorem : exists outs, GEN_EXTZ = UG.Ok outs /\ length outs = 4%nat /\
    Permutation (map LT0 outs) [solz [] [false]; solz [] []; solz [false] [false]; solz [true] [false]].
  Proof.
    pose proof (gen_usreconcile_extended_uspfs_model Nat.eqb Nat.eqb_spec tt S0 cz leafsp0 syn0 O0 miss0 msyn0 ord0 fam_order0 sort0 oeqb0
                  (fun _ => tt) E1.olca_call1 E1.items1 E1.order1 W_satisfiable_z) as M.
    remember (uspfs S0 cz RALL true (otree_of leafsp0 syn0 O0)) as r eqn:Er. vm_compute in Er. subst r.
    destruct M as [outs [E [P _]]]. exists outs. split; [exact E|]. cbn [tags] in P. split; [|exact P].
    apply Permutation_length in P. rewrite map_length in P. exact P.
  Qed.
End Ex.

Print Assumptions decode_model.
Print Assumptions decode_model_perm.
Print Assumptions decode_model_table.
Print Assumptions decode_model_table_perm.
Print Assumptions candidates_model.
Print Assumptions gen_uspfs_model.
Print Assumptions gen_usreconcile_extended_uspfs_model.
Print Assumptions gen_usreconcile_base_uspfs_model.
Print Assumptions Ex.W_satisfiable.
Print Assumptions Ex.instance_extended_evaluated.
Print Assumptions Ex.instance_base_evaluated.
Print Assumptions Ex.instance_extended_theorem.
Print Assumptions Ex.instance_base_theorem.
Print Assumptions Ex.W_satisfiable_z.
Print Assumptions Ex.instance_zero_evaluated.
Print Assumptions Ex.instance_zero_theorem.
End UspfsLink.
