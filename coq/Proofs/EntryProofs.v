(** Proofs about [Model/Entry.v] (property C16). *)
From Coq Require Import List Bool ZArith Lia.
From SR Require Import Base.Ext Model.Entry.
Import ListNotations.

(* [a] is at least as good as [b] *)
Definition nw (mp : merge) (a b : ext) : Prop := better mp b a = false.
Definition best (mp : merge) (a b : ext) : ext := if better mp b a then b else a.

Lemma better_irrefl mp v : better mp v v = false.
Proof. destruct mp; simpl; apply ext_ltb_irrefl. Qed.
Lemma better_asym mp a b : better mp a b = true -> better mp b a = false.
Proof. destruct mp; simpl; apply ext_ltb_asym. Qed.
Lemma better_trans mp a b c : better mp a b = true -> better mp b c = true -> better mp a c = true.
Proof. destruct mp; simpl; eauto using ext_ltb_trans. Qed.
Lemma better_tricho mp a b : better mp a b = true \/ a = b \/ better mp b a = true.
Proof. destruct mp; simpl; [|destruct (ext_tricho b a) as [H|[H|H]]; auto]; apply ext_tricho. Qed.

Lemma nw_refl mp a : nw mp a a.
Proof. apply better_irrefl. Qed.
Lemma nw_trans mp a b c : nw mp a b -> nw mp b c -> nw mp a c.
Proof.
  unfold nw; intros H1 H2.
  destruct (better mp c a) eqn:E; auto. exfalso.
  destruct (better_tricho mp a b) as [X|[X|X]].
  - rewrite (better_trans mp c a b E X) in H2. discriminate.
  - subst. congruence.
  - congruence.
Qed.
Lemma nw_antisym mp a b : nw mp a b -> nw mp b a -> a = b.
Proof. unfold nw; intros H1 H2. destruct (better_tricho mp a b) as [X|[X|X]]; congruence. Qed.

Lemma best_nw_l mp a b : nw mp (best mp a b) a.
Proof. unfold nw, best. destruct (better mp b a) eqn:E; [apply better_asym; auto|apply better_irrefl]. Qed.
Lemma best_nw_r mp a b : nw mp (best mp a b) b.
Proof. unfold nw, best. destruct (better mp b a) eqn:E; [apply better_irrefl|exact E]. Qed.
Lemma best_in mp a b : best mp a b = a \/ best mp a b = b.
Proof. unfold best; destruct (better mp b a); auto. Qed.

Lemma fold_best_nw mp vs : forall a v, In v (a :: vs) -> nw mp (fold_left (best mp) vs a) v.
Proof.
  induction vs as [|x vs IH]; intros a v H; simpl.
  - destruct H as [<-|[]]. apply nw_refl.
  - destruct H as [<-|[<-|H]].
    + eapply nw_trans; [apply IH; left; reflexivity|apply best_nw_l].
    + eapply nw_trans; [apply IH; left; reflexivity|apply best_nw_r].
    + apply IH. right; auto.
Qed.
Lemma fold_best_in mp vs : forall a, In (fold_left (best mp) vs a) (a :: vs).
Proof.
  induction vs as [|x vs IH]; intros a; simpl; auto.
  destruct (IH (best mp a x)) as [H|H]; [|right; right; exact H].
  destruct (best_in mp a x) as [E|E]; [left|right; left];
    (transitivity (best mp a x); [symmetry; exact E|exact H]).
Qed.

Section EntryProofs.
  Context {T : Type} (T_eqb : T -> T -> bool).
  Hypothesis T_eqb_spec : forall x y, reflect (x = y) (T_eqb x y).

  Notation entry := (entry T).
  Notation update1 := (update1 T_eqb).
  Notation update := (update T_eqb).
  Notation add_tag := (add_tag T_eqb).
  Notation mem := (mem T_eqb).

  Lemma mem_In t l : mem t l = true <-> In t l.
  Proof.
    induction l as [|x l IH]; simpl; [split; [discriminate|tauto]|].
    rewrite orb_true_iff, IH. destruct (T_eqb_spec t x); split; intros [H|H]; auto; try discriminate; congruence.
  Qed.
  Lemma In_add_tag t u l : In t (add_tag u l) <-> In t l \/ t = u.
  Proof.
    unfold Entry.add_tag. destruct (mem u l) eqn:E.
    - apply mem_In in E. split; [auto|intros [H | ->]; auto].
    - rewrite in_app_iff; simpl. split.
      + intros [H|[H|[]]]; subst; auto.
      + intros [H|H]; subst; auto.
  Qed.
  Lemma NoDup_add_tag u l : NoDup l -> NoDup (add_tag u l).
  Proof.
    unfold Entry.add_tag. destruct (mem u l) eqn:E; auto. intros ND.
    assert (~ In u l) as NI by (intros H; apply mem_In in H; congruence).
    clear E. induction ND as [|x l Hx ND IH]; simpl.
    - constructor; [tauto|constructor].
    - constructor.
      + rewrite in_app_iff; simpl. intros [H|[H|[]]]; [tauto|subst; apply NI; now left].
      + apply IH. intros H; apply NI; now right.
  Qed.

  Lemma entry_eta (e : entry) : e = {| val := val e; tags := tags e |}.
  Proof. destruct e; reflexivity. Qed.

  Definition tags_eq (rp : ret) (ot : option T) (l : list T) : list T :=
    match ot, rp with
    | Some t, RALL => add_tag t l
    | Some t, RANY => match l with [] => [t] | _ => l end
    | _, _ => l
    end.
  Definition tags_new (rp : ret) (ot : option T) : list T :=
    match ot, rp with
    | Some t, RALL | Some t, RANY => [t]
    | _, _ => []
    end.

  (* one candidate: equal value / strictly better / neither *)
  Lemma update1_cases mp rp e v ot :
    (val e = v /\ update1 mp rp e (v, ot) = {| val := v; tags := tags_eq rp ot (tags e) |}) \/
    (better mp v (val e) = true /\ update1 mp rp e (v, ot) = {| val := v; tags := tags_new rp ot |}) \/
    (val e <> v /\ better mp v (val e) = false /\ update1 mp rp e (v, ot) = e).
  Proof.
    unfold Entry.update1. destruct (ext_eqb (val e) v) eqn:E.
    - left. apply ext_eqb_eq in E. split; auto.
      destruct ot as [u|]; [destruct rp|]; simpl.
      + rewrite E, better_irrefl. rewrite (entry_eta e) at 1. now rewrite E.
      + destruct (tags e) eqn:Tg; simpl; rewrite ?E, better_irrefl; auto.
        rewrite (entry_eta e) at 1. now rewrite E, Tg.
      + rewrite better_irrefl. reflexivity.
      + rewrite E, better_irrefl. rewrite (entry_eta e) at 1. now rewrite E.
    - assert (val e <> v) as NE by (intros X; apply ext_eqb_eq in X; congruence).
      destruct (better mp v (val e)) eqn:B; [right; left|right; right]; auto.
  Qed.

  Lemma val_update1 mp rp e c : val (update1 mp rp e c) = best mp (val e) (fst c).
  Proof.
    destruct c as [v ot]. unfold best. simpl fst.
    destruct (update1_cases mp rp e v ot) as [[E U]|[[B U]|[E [B U]]]]; rewrite U; simpl.
    - subst v. now rewrite better_irrefl.
    - now rewrite B.
    - now rewrite B.
  Qed.

  Lemma val_update mp rp cs : forall e,
    val (update mp rp e cs) = fold_left (best mp) (map fst cs) (val e).
  Proof.
    induction cs as [|c cs IH]; intros e; simpl; auto.
    unfold Entry.update in *. simpl. rewrite IH, val_update1; auto.
  Qed.

  (** the value is the optimum of the initial value and all candidates offered *)
  Theorem entry_value mp rp cs e :
    In (val (update mp rp e cs)) (val e :: map fst cs) /\
    forall v, In v (val e :: map fst cs) -> better mp v (val (update mp rp e cs)) = false.
  Proof.
    rewrite val_update. split; [apply fold_best_in|apply fold_best_nw].
  Qed.

  Lemma update_app mp rp e xs ys : update mp rp (update mp rp e xs) ys = update mp rp e (xs ++ ys).
  Proof. unfold Entry.update. now rewrite fold_left_app. Qed.

  (** every split of a history into batches gives the same entry *)
  Theorem update_batches mp rp e (bs : list (list (ext * option T))) :
    fold_left (update mp rp) bs e = update mp rp e (concat bs).
  Proof.
    revert e; induction bs as [|b bs IH]; intros e; simpl; auto.
    rewrite IH, update_app. reflexivity.
  Qed.

  Lemma update_snoc mp rp e cs c : update mp rp e (cs ++ [c]) = update1 mp rp (update mp rp e cs) c.
  Proof. unfold Entry.update. now rewrite fold_left_app. Qed.

  (* the current value is at least as good as every candidate seen *)
  Lemma val_nw_seen mp rp e cs v ot : In (v, ot) cs -> nw mp (val (update mp rp e cs)) v.
  Proof.
    intros H. apply (proj2 (entry_value mp rp cs e)). right. apply in_map_iff. now exists (v, ot).
  Qed.

  (** ALL: the tags are exactly the tags of the candidates achieving the value *)
  Theorem entry_tags_all mp cs t :
    let e := update mp RALL (default_entry mp) cs in
    In t (tags e) <-> In (val e, Some t) cs.
  Proof.
    induction cs as [|c cs IH] using rev_ind; simpl.
    - tauto.
    - simpl in IH. rewrite update_snoc. destruct c as [v ot].
      remember (update mp RALL (default_entry mp) cs) as e eqn:He.
      assert (forall w o, In (w, o) cs -> nw mp (val e) w) as Seen
        by (intros w o H; subst e; eapply val_nw_seen; eauto).
      destruct (update1_cases mp RALL e v ot) as [[E U]|[[B U]|[E [B U]]]]; rewrite U; simpl.
      + subst v. rewrite in_app_iff. simpl. destruct ot as [u|]; simpl.
        * rewrite In_add_tag, IH. split.
          -- intros [H | ->]; auto.
          -- intros [H|[H|[]]]; auto. inversion H; auto.
        * rewrite IH. split; [auto|]. intros [H|[H|[]]]; auto. discriminate.
      + rewrite in_app_iff. simpl. split.
        * destruct ot as [u|]; simpl; [intros [->|[]]; auto|tauto].
        * intros [H|[H|[]]].
          -- exfalso. apply Seen in H. unfold nw in H. congruence.
          -- inversion H; subst. simpl. auto.
      + rewrite in_app_iff, IH. simpl. split; [auto|].
        intros [H|[H|[]]]; auto. inversion H; subst. congruence.
  Qed.

  Theorem entry_tags_all_nodup mp cs : NoDup (tags (update mp RALL (default_entry mp) cs)).
  Proof.
    induction cs as [|c cs IH] using rev_ind; simpl; [constructor|].
    rewrite update_snoc. destruct c as [v ot].
    destruct (update1_cases mp RALL (update mp RALL (default_entry mp) cs) v ot)
      as [[E U]|[[B U]|[E [B U]]]]; rewrite U; simpl; auto.
    - destruct ot; simpl; auto. now apply NoDup_add_tag.
    - destruct ot; simpl; repeat constructor; simpl; tauto.
  Qed.

  (** ANY: no tag iff no optimal candidate is tagged; otherwise exactly one tag,
      that of some optimal candidate *)
  Theorem entry_tags_any mp cs :
    let e := update mp RANY (default_entry mp) cs in
    (tags e = [] /\ forall t, ~ In (val e, Some t) cs) \/
    (exists t, tags e = [t] /\ In (val e, Some t) cs).
  Proof.
    induction cs as [|c cs IH] using rev_ind; simpl.
    - left; split; auto.
    - simpl in IH. rewrite update_snoc. destruct c as [v ot].
      remember (update mp RANY (default_entry mp) cs) as e eqn:He.
      assert (forall w o, In (w, o) cs -> nw mp (val e) w) as Seen
        by (intros w o H; subst e; eapply val_nw_seen; eauto).
      destruct (update1_cases mp RANY e v ot) as [[E U]|[[B U]|[E [B U]]]]; rewrite U; simpl.
      + subst v. destruct IH as [[Tg No]|[u [Tg Hu]]]; rewrite Tg.
        * destruct ot as [t|]; simpl.
          -- right. exists t. split; auto. apply in_or_app; right; now left.
          -- left. split; auto. intros t H. apply in_app_or in H as [H|[H|[]]]; [eapply No; eauto|discriminate].
        * right. exists u. split; [destruct ot; reflexivity|apply in_or_app; auto].
      + destruct ot as [t|]; simpl.
        * right. exists t. split; auto. apply in_or_app; right; now left.
        * left. split; auto. intros t H. apply in_app_or in H as [H|[H|[]]]; [|discriminate].
          apply Seen in H. unfold nw in H. congruence.
      + destruct IH as [[Tg No]|[u [Tg Hu]]].
        * left. split; auto. intros t H. apply in_app_or in H as [H|[H|[]]]; [eapply No; eauto|].
          inversion H; subst. congruence.
        * right. exists u. split; auto. apply in_or_app; auto.
  Qed.

  (** NONE: never any tag *)
  Theorem entry_tags_none mp cs : tags (update mp RNONE (default_entry mp) cs) = [].
  Proof.
    induction cs as [|c cs IH] using rev_ind; simpl; auto.
    rewrite update_snoc. destruct c as [v ot].
    destruct (update1_cases mp RNONE (update mp RNONE (default_entry mp) cs) v ot)
      as [[E U]|[[B U]|[E [B U]]]]; rewrite U; simpl; auto.
    - rewrite IH. destruct ot; reflexivity.
    - destruct ot; reflexivity.
  Qed.

  (** the behaviour before the repair (D1), kept as a refuted statement:
      with the old loop an improving untagged candidate left stale tags *)
  Definition update1_old (mp : merge) (rp : ret) (e : entry) (c : ext * option T) : entry :=
    let '(v, ot) := c in
    let e1 :=
      if ext_eqb (val e) v then
        match ot with
        | Some t =>
            match rp with
            | RALL => {| val := v; tags := add_tag t (tags e) |}
            | RANY => match tags e with [] => {| val := v; tags := [t] |} | _ => e end
            | RNONE => e
            end
        | None => e
        end
      else e in
    if better mp v (val e1) then
      {| val := v;
         tags := match ot, rp with
                 | Some t, RALL | Some t, RANY => [t]
                 | _, _ => tags e1       (* the defect: tags kept *)
                 end |}
    else e1.

  Theorem stale_tags_refuted (a : T) :
    let e := fold_left (update1_old MIN RALL) [(Fin 2, Some a); (Fin 1, None)] (default_entry MIN) in
    In a (tags e) /\ ~ In (val e, Some a) [(Fin 2, Some a); (Fin 1, None)].
  Proof.
    simpl. unfold update1_old; simpl. split; [now left|].
    intros [H|[H|[]]]; inversion H.
  Qed.
End EntryProofs.

(** * combine *)
Section Combine.
  Context {T U : Type} (U_eqb : U -> U -> bool).
  Hypothesis U_eqb_spec : forall x y, reflect (x = y) (U_eqb x y).

  Definition pairs (e1 e2 : entry T) (f : T -> T -> ext * option U) : list (ext * option U) :=
    flat_map (fun a => map (fun b => f a b) (tags e2)) (tags e1).

  Lemma In_pairs e1 e2 f c :
    In c (pairs e1 e2 f) <-> exists a b, In a (tags e1) /\ In b (tags e2) /\ c = f a b.
  Proof.
    unfold pairs. rewrite in_flat_map. split.
    - intros [a [Ha H]]. apply in_map_iff in H as [b [<- Hb]]. eauto.
    - intros [a [b [Ha [Hb ->]]]]. exists a. split; auto. apply in_map_iff. eauto.
  Qed.

  (** value of a combination: optimum of the default value and of [f] over all
      pairs of retained tags; tags under ALL: those of the optimal pairs *)
  Theorem combine_opt mp rp (e1 e2 : entry T) f :
    let r := combine U_eqb mp rp e1 e2 f in
    In (val r) (init_val mp :: map fst (pairs e1 e2 f)) /\
    (forall a b, In a (tags e1) -> In b (tags e2) -> better mp (fst (f a b)) (val r) = false).
  Proof.
    simpl. unfold combine. fold (pairs e1 e2 f).
    destruct (entry_value U_eqb mp rp (pairs e1 e2 f) (default_entry mp)) as [H1 H2].
    split; [exact H1|]. intros a b Ha Hb. apply H2. right. apply in_map_iff.
    exists (f a b). split; auto. apply In_pairs. eauto.
  Qed.

  Theorem combine_tags_all mp (e1 e2 : entry T) f u :
    let r := combine U_eqb mp RALL e1 e2 f in
    In u (tags r) <-> exists a b, In a (tags e1) /\ In b (tags e2) /\ f a b = (val r, Some u).
  Proof.
    simpl. unfold combine. fold (pairs e1 e2 f).
    rewrite (entry_tags_all U_eqb U_eqb_spec mp (pairs e1 e2 f) u), In_pairs.
    split; intros [a [b [Ha [Hb E]]]]; exists a, b; auto.
  Qed.

  (* an entry without retained tags combines to the infinitely bad default *)
  Theorem combine_no_tags mp rp (e1 e2 : entry T) (f : T -> T -> ext * option U) :
    tags e1 = [] \/ tags e2 = [] -> combine U_eqb mp rp e1 e2 f = default_entry mp.
  Proof.
    unfold combine. intros [H|H]; rewrite H; simpl; auto.
    induction (tags e1); simpl; auto.
  Qed.
End Combine.

(** * tables *)
Section TableProofs.
  Context {T : Type} (T_eqb : T -> T -> bool).

  Lemma key_eqb_spec a b : reflect (a = b) (key_eqb a b).
  Proof.
    revert b; induction a as [|x a IH]; intros [|y b]; simpl; try (constructor; congruence).
    destruct (Nat.eqb_spec x y); simpl; [|constructor; congruence].
    destruct (IH b); constructor; congruence.
  Qed.

  Lemma lookup_store_same (tb : table) k (e : entry T) : lookup (store tb k e) k = Some e.
  Proof.
    induction tb as [|[k' e'] tb IH]; simpl.
    - destruct (key_eqb_spec k k); congruence.
    - destruct (key_eqb_spec k k') as [->|N]; simpl.
      + destruct (key_eqb_spec k' k'); congruence.
      + destruct (key_eqb_spec k k'); [congruence|auto].
  Qed.
  Lemma lookup_store_other (tb : table) k k' (e : entry T) : k <> k' ->
    lookup (store tb k e) k' = lookup tb k'.
  Proof.
    intros N. induction tb as [|[k2 e2] tb IH]; simpl.
    - destruct (key_eqb_spec k' k); congruence.
    - destruct (key_eqb_spec k k2) as [->|N2]; simpl.
      + destruct (key_eqb_spec k' k2); congruence.
      + destruct (key_eqb_spec k' k2); auto.
  Qed.

  Definition has_finite (cs : list (ext * option T)) : bool :=
    existsb (fun c => negb (ext_is_inf (fst c))) cs.

  (* the candidates that reach cell [k]: batches addressed to [k] holding a finite value *)
  Definition relevant (k : key) (ops : list (key * list (ext * option T))) : list (ext * option T) :=
    concat (map snd (filter (fun op => key_eqb k (fst op) && has_finite (snd op)) ops)).

  Lemma read_write mp rp (tb : table) k k' cs :
    read mp (write T_eqb mp rp tb k cs) k' =
    if key_eqb k' k && has_finite cs then update T_eqb mp rp (read mp tb k') cs else read mp tb k'.
  Proof.
    unfold write, read, has_finite. destruct (existsb _ cs) eqn:F; rewrite ?andb_false_r; auto.
    rewrite andb_true_r. destruct (key_eqb_spec k' k) as [->|N].
    - now rewrite lookup_store_same.
    - rewrite lookup_store_other; auto.
  Qed.

  (** what a cell reads after any history of writes (to any cells) *)
  Theorem table_read d mp rp ops : forall tb tb' k,
    run_writes T_eqb d mp rp tb ops = Some tb' ->
    read mp tb' k = update T_eqb mp rp (read mp tb k) (relevant k ops).
  Proof.
    induction ops as [|[k1 cs] ops IH]; intros tb tb' k; simpl.
    - intros [= <-]. reflexivity.
    - fold (has_finite cs). destruct (has_finite cs) eqn:F.
      + destruct (key_ok d k1); [|discriminate]. intros H.
        rewrite (IH _ _ k H), read_write. unfold relevant. simpl. rewrite F.
        destruct (key_eqb k k1); simpl; auto.
        unfold update. now rewrite fold_left_app.
      + intros H. rewrite (IH _ _ k H). unfold relevant. simpl. rewrite F, andb_false_r. reflexivity.
  Qed.

  Lemma relevant_nil k ops :
    (forall cs, In (k, cs) ops -> has_finite cs = false) -> relevant k ops = [].
  Proof.
    unfold relevant. induction ops as [|[k1 cs] ops IH]; intros No; simpl; auto.
    destruct (key_eqb_spec k k1) as [->|N]; simpl.
    - rewrite (No cs) by now left. simpl. apply IH. intros cs' Hin. apply No. now right.
    - apply IH. intros cs' Hin. apply No. now right.
  Qed.

  (** a cell never offered a finite candidate reads as infinitely bad, no tags *)
  Theorem table_unwritten d mp rp ops tb k :
    run_writes T_eqb d mp rp [] ops = Some tb ->
    (forall cs, In (k, cs) ops -> has_finite cs = false) ->
    read mp tb k = default_entry mp.
  Proof.
    intros H No. rewrite (table_read d mp rp ops [] tb k H), (relevant_nil k ops No). reflexivity.
  Qed.

  (** with finite candidate values only (the property's domain) a cell behaves as
      a standalone entry fed all the candidates addressed to it *)
  Theorem table_cell_is_entry d mp rp ops tb k :
    run_writes T_eqb d mp rp [] ops = Some tb ->
    (forall k' cs c, In (k', cs) ops -> In c cs -> ext_is_inf (fst c) = false) ->
    read mp tb k = update T_eqb mp rp (default_entry mp)
                     (concat (map snd (filter (fun op => key_eqb k (fst op)) ops))).
  Proof.
    intros H Fin. rewrite (table_read d mp rp ops [] tb k H). f_equal.
    unfold relevant. clear H. induction ops as [|[k1 cs] ops IH]; simpl; auto.
    assert (has_finite cs = negb (match cs with [] => true | _ => false end)) as HF.
    { destruct cs as [|c cs]; simpl; auto.
      rewrite (Fin k1 (c :: cs) c); [reflexivity|left; reflexivity|left; reflexivity]. }
    rewrite HF. destruct (key_eqb k k1); simpl.
    - destruct cs as [|c cs]; simpl.
      + apply IH. intros k' cs' c' H1 H2; apply (Fin k' cs' c'); [right; exact H1|exact H2].
      + do 2 f_equal. apply IH. intros k' cs' c' H1 H2; apply (Fin k' cs' c'); [right; exact H1|exact H2].
    - apply IH. intros k' cs' c' H1 H2; apply (Fin k' cs' c'); [right; exact H1|exact H2].
  Qed.
End TableProofs.
