(** C05 / C01 complements.
    - the ALL result of the unordered solvers, stated against the GLOBAL minimum (over all valid
      labellings, canonical or not);
    - the ANY results of the plain solvers for ANY enumeration order of the final candidates
      (root species for [reconcile_thl], all reconciliations for [reconcile_exhaustive]). *)
From Coq Require Import List Bool Arith ZArith Lia Permutation.
From SR Require Import Base.PathB Base.Ext Model.Subseq Model.Entry Model.Recon Model.LcaRec Model.Thl Model.Spfs Model.Uspfs
  Proofs.PathFacts Proofs.ReconProofs Proofs.EntryProofs Proofs.DpProofs Proofs.LcaProofs Proofs.ExhProofs
  Proofs.ThlProofs Proofs.ThlFinal Proofs.SubseqProofs Proofs.LabelCostProofs Proofs.SpfsProofs Proofs.SpfsFinal
  Proofs.UspfsProofs Proofs.UspfsFinal.
Import ListNotations.
Local Open Scope Z_scope.

(** * unordered solvers: ALL = the canonical solutions whose cost is minimal among ALL valid labellings *)
Theorem uspfs_all_exact_global S c extended O : nn (c_hgt c) -> ucoherent c -> leaves_ok S O ->
  exists E, uspfs S c RALL extended O = Some E /\ NoDup (tags E) /\
    forall t, In t (tags E) <->
      (usol S extended O t /\ forall t', uall_sol S extended O t' -> ele (ucost c O t) (ucost c O t')).
Proof.
  intros Hh Hc L. destruct (uspfs_all_exact S c extended O Hh Hc L) as [E [HE [ND Ex]]].
  exists E. split; auto. split; auto. intros t. rewrite Ex. split.
  - intros [Sol Opt]. split; auto. intros t' [V' B'].
    destruct Hc as [Hf [Hs Hco]].
    destruct (canonical_suffices S c O t' Hs V') as [t'' [V'' [C'' [F'' Le]]]].
    eapply ele_trans; [apply Opt|exact Le].
    split; [exact V''|]. split; [exact C''|]. intros X. rewrite F''. auto.
  - intros [Sol Opt]. split; auto. intros t' [V' [_ B']]. apply Opt. split; auto.
Qed.

(** * the ANY policy does not depend on the order in which the final candidates are enumerated *)
Section AnyOrder.
  Context {T : Type} (T_eqb : T -> T -> bool).
  Hypothesis T_eqb_spec : forall x y, reflect (x = y) (T_eqb x y).
  Variables (cs cs' : list (ext * option T)).
  Hypothesis Same : forall x, In x cs' <-> In x cs.
  Notation E rp l := (update T_eqb MIN rp (default_entry MIN) l).

  (* the value only depends on the set of candidates *)
  Lemma upd_val_set rp rp' : val (E rp cs') = val (E rp' cs).
  Proof.
    destruct (entry_value T_eqb MIN rp cs' (default_entry MIN)) as [I1 L1].
    destruct (entry_value T_eqb MIN rp' cs (default_entry MIN)) as [I2 L2].
    assert (forall v, In v (init_val MIN :: map fst cs') <-> In v (init_val MIN :: map fst cs)) as Sv.
    { intros v. cbn [In]. rewrite !in_map_iff. split; (intros [H|[x [Ex Ix]]]; [now left|right; exists x; split; auto; now apply Same]). }
    apply (nw_antisym MIN).
    - apply L1. apply Sv. destruct I2 as [I2|I2]; [left; exact I2|right; exact I2].
    - apply L2. apply Sv. destruct I1 as [I1|I1]; [left; exact I1|right; exact I1].
  Qed.

  (* ANY over the permuted list: no tag when no candidate attains the value, else one that does *)
  Lemma upd_any_set :
    (tags (E RANY cs') = [] /\ forall t, ~ In (val (E RANY cs), Some t) cs) \/
    (exists t, tags (E RANY cs') = [t] /\ In (val (E RANY cs), Some t) cs).
  Proof.
    destruct (entry_tags_any T_eqb MIN cs') as [[Et No]|[t [Et It]]].
    - left. split; auto. intros t H. apply (No t). apply Same. now rewrite (upd_val_set RANY RANY).
    - right. exists t. split; auto. apply Same. now rewrite <- (upd_val_set RANY RANY).
  Qed.
End AnyOrder.

(* [reconcile_thl] with the root species enumerated in the order [order] *)
Definition reconcile_thl_order (order : list path) (S : stree) (c : costs) (rp : ret) (O : otree) : entry rtree :=
  update rtree_eqb MIN rp (default_entry MIN)
    (flat_map (fun s => map (fun r => (cost c O r, Some r)) (decode (thl_table S c rp O) s)) order).

Lemma reconcile_thl_order_snodes S c rp O : reconcile_thl_order (snodes S) S c rp O = reconcile_thl S c rp O.
Proof. reflexivity. Qed.

Theorem thl_any_order S c O order :
  nn (c_hgt c) -> 0 <= c_floss c -> c_spe c <= c_dup c + 2 * c_floss c -> leaves_ok S O ->
  Permutation order (snodes S) ->
  exists r, tags (reconcile_thl_order order S c RANY O) = [r] /\ optimal S c O r /\
            In r (tags (reconcile_thl S c RALL O)).
Proof.
  intros Hh Hf Hc L P.
  assert (RANY <> RNONE) as N by discriminate.
  set (f := fun s => map (fun r => (cost c O r, Some r)) (decode (thl_table S c RANY O) s)).
  assert (forall x, In x (flat_map f order) <-> In x (thl_candidates S c RANY O)) as Same.
  { intros x. unfold thl_candidates. fold f. rewrite !in_flat_map. split; intros [s [Is H]]; exists s; split; auto.
    - eapply Permutation_in; eauto.
    - eapply Permutation_in; [apply Permutation_sym|]; eauto. }
  pose proof (ThlFinal.entry_value_finite S c O Hh Hf Hc L RANY N) as NV.
  destruct (upd_attained rtree_eqb RANY _ NV) as [ot Io].
  destruct (thl_candidates_some _ _ _ _ _ _ Io) as [y ->].
  destruct (upd_any_set rtree_eqb _ _ Same) as [[_ No]|[t [Et It]]].
  - exfalso. eapply No. exact Io.
  - exists t. split; [exact Et|].
    pose proof (ThlFinal.best_candidate_optimal S c O Hh Hf Hc L RANY N t It) as Opt. split; auto.
    now apply (thl_all_exact S c O Hh Hf Hc L).
Qed.

(* [reconcile_exhaustive] fed the reconciliations in the order [l] *)
Definition reconcile_exhaustive_order (l : list rtree) (c : costs) (rp : ret) (O : otree) : entry rtree :=
  update rtree_eqb MIN rp (default_entry MIN) (map (fun r => (cost c O r, Some r)) l).

Lemma reconcile_exhaustive_order_gen_all c rp O :
  reconcile_exhaustive_order (gen_all O) c rp O = reconcile_exhaustive c rp O.
Proof. reflexivity. Qed.

Theorem exh_any_order S c O l : leaves_ok S O -> Permutation l (gen_all O) ->
  exists r, tags (reconcile_exhaustive_order l c RANY O) = [r] /\ optimal S c O r /\
            In r (tags (reconcile_exhaustive c RALL O)).
Proof.
  intros L P.
  assert (forall x, In x (map (fun r => (cost c O r, Some r)) l) <-> In x (exh_cands c O)) as Same.
  { intros x. unfold exh_cands. rewrite !in_map_iff. split; intros [r [Er Ir]]; exists r; split; auto.
    - eapply Permutation_in; eauto.
    - eapply Permutation_in; [apply Permutation_sym|]; eauto. }
  destruct (exh_value S c RANY O L) as [LB [r0 [V0 E0]]].
  unfold reconcile_exhaustive in *. fold (exh_cands c O) in *.
  destruct (upd_any_set rtree_eqb _ _ Same) as [[_ No]|[t [Et It]]].
  - exfalso. apply (No r0). apply in_exh_cands. split; [now apply (gen_all_spec S O L)|auto].
  - apply in_exh_cands in It as [I Ev]. exists t. split; [exact Et|].
    assert (optimal S c O t) as Opt.
    { split; [now apply (gen_all_spec S O L)|]. intros r' V'. rewrite <- Ev. now apply LB. }
    split; auto. now apply (exh_all_exact S c O L).
Qed.

(** * labelled solvers: ANY is a member of ALL, all returned solutions have the same cost, and the
    [None -> PInf] default of [cost_of] is not taken on a returned solution *)
Theorem spfs_any_in_all S c extended orders O : nn (c_hgt c) -> orders_ok S O orders -> coherent_ord c ->
  exists ea el, spfs S c RANY extended orders O = Some ea /\ spfs S c RALL extended orders O = Some el /\
    ((tags ea = [] /\ tags el = [] /\ forall lt, ~ sol S extended orders O lt) \/
     exists lt, tags ea = [lt] /\ In lt (tags el)).
Proof.
  intros Hh HO Hc. destruct (spfs_any S c extended orders O Hh HO Hc) as [ea [Ea D]].
  destruct (spfs_returns S c RALL extended orders O Hh HO) as [el El].
  pose proof (spfs_all_exact S c extended orders O Hh HO Hc el El) as Ex.
  exists ea, el. split; auto. split; auto. destruct D as [[Et No]|[lt [Et Opt]]].
  - left. split; auto. split; auto. destruct (tags el) as [|x l] eqn:E; auto.
    exfalso. assert (In x (x :: l)) as Ix by (now left). apply Ex in Ix. exact (No x (proj1 Ix)).
  - right. exists lt. split; auto. now apply Ex.
Qed.

Theorem spfs_returned_cost S c rp extended orders O e lt : nn (c_hgt c) -> orders_ok S O orders ->
  spfs S c rp extended orders O = Some e -> In lt (tags e) ->
  total_cost c O true lt = Some (val e) /\ cost_of c O lt = val e.
Proof.
  intros Hh HO E H. destruct (spfs_valid S c rp extended orders O e lt Hh HO E H) as [ord [_ [_ [_ Tc]]]].
  split; auto. unfold cost_of. now rewrite Tc.
Qed.

Theorem spfs_all_same_cost S c rp extended orders O e lt lt' : nn (c_hgt c) -> orders_ok S O orders ->
  spfs S c rp extended orders O = Some e -> In lt (tags e) -> In lt' (tags e) ->
  total_cost c O true lt = total_cost c O true lt'.
Proof.
  intros Hh HO E H H'.
  rewrite (proj1 (spfs_returned_cost S c rp extended orders O e lt Hh HO E H)).
  now rewrite (proj1 (spfs_returned_cost S c rp extended orders O e lt' Hh HO E H')).
Qed.

Theorem uspfs_returns S c rp extended O : nn (c_hgt c) -> leaves_ok S O ->
  exists E, uspfs S c rp extended O = Some E.
Proof. intros Hh L. eexists. apply (uspfs_some S c rp extended O Hh L). Qed.

Theorem uspfs_any_in_all S c extended O : nn (c_hgt c) -> ucoherent c -> leaves_ok S O ->
  exists Ea El t, uspfs S c RANY extended O = Some Ea /\ uspfs S c RALL extended O = Some El /\
    tags Ea = [t] /\ In t (tags El).
Proof.
  intros Hh Hc L. destruct (uspfs_any S c extended O Hh Hc L) as [Ea [t [HEa [Et Opt]]]].
  destruct (uspfs_all_exact S c extended O Hh Hc L) as [El [HEl [_ Ex]]].
  exists Ea, El, t. repeat split; auto. now apply Ex.
Qed.

Theorem uspfs_all_same_cost S c rp extended O E t t' : nn (c_hgt c) -> leaves_ok S O ->
  uspfs S c rp extended O = Some E -> In t (tags E) -> In t' (tags E) ->
  total_cost c O false t = total_cost c O false t' /\ ucost c O t = ucost c O t' /\ ucost c O t = val E.
Proof.
  intros Hh L HE H H'. pose proof HE as HE'. rewrite (uspfs_some S c rp extended O Hh L) in HE'. injection HE' as <-.
  destruct (uspfs_valid S c rp extended O Hh L _ t HE H) as [_ T]. destruct (uspfs_valid S c rp extended O Hh L _ t' HE H') as [_ T'].
  apply (upd_tags_sound Uspfs.ltree_eqb UspfsProofs.ltree_eqb_spec) in H, H'.
  apply in_uspfs_cands in H as [_ [_ [_ Ev]]]. apply in_uspfs_cands in H' as [_ [_ [_ Ev']]].
  rewrite T, T', <- Ev, <- Ev'. auto.
Qed.

Print Assumptions uspfs_all_exact_global.
Print Assumptions thl_any_order.
Print Assumptions exh_any_order.
Print Assumptions spfs_any_in_all.
Print Assumptions spfs_returned_cost.
Print Assumptions spfs_all_same_cost.
Print Assumptions uspfs_returns.
Print Assumptions uspfs_any_in_all.
Print Assumptions uspfs_all_same_cost.
